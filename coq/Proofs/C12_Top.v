(** C12 — entry-level multi-locus statements (mirror step included) and satisfiability of their hypotheses. *)
From Coq Require Import Lqa Qfield.
From PV Require Import Lib.Common Model.C12_Var Model.C12_Enum Proofs.C12_Sums Proofs.C12_Chunks Proofs.C12_Var Proofs.C12_Selfing
  Proofs.C12_Meiosis Proofs.C12_Exact Proofs.C12_Genic Proofs.C12_Findings Proofs.C12_Lift Proofs.C12_Multi.
Local Open Scope Q_scope.

Definition layout_ok (S : setup) (ps : list Q) (k : nat) : Prop :=
  mem_ok (s_mem S) /\ consecutive (s_chroms S) 0 (Datatypes.S (length ps)) /\ free_between ps 0 (s_chroms S) /\
  chain_tables S ps k /\ r_nonneg ps.

Section Top.
Variables (S : setup) (ps : list Q) (k : nat) (t1 t2 : nat).
Hypothesis H : layout_ok S ps k.
Let L := Datatypes.S (length ps).
Let U1 := ucol (s_u S) t1 L.
Let U2 := ucol (s_u S) t2 L.
Let al (g : list Z) := alleles g L.

Lemma low2 gA gB : twoway_low S t1 t2 gA gB == covL L (EL_two ps k (al gA) (al gB)) U1 U2.
Proof. destruct H as (A & B & C & D & E). now apply twoway_multilocus_exact. Qed.
Lemma low3 g1 g2 g3 : threeway_low S t1 t2 g1 g2 g3 == covL L (EL_three ps k (al g1) (al g2) (al g3)) U1 U2.
Proof. destruct H as (A & B & C & D & E). now apply threeway_multilocus_exact. Qed.
Lemma low4 g1 g2 g3 g4 : quad_low S t1 t2 g1 g2 g3 g4 == covL L (EL_four ps k (al g1) (al g2) (al g3) (al g4)) U1 U2.
Proof. destruct H as (A & B & C & D & E). now apply quad_multilocus_exact. Qed.

(** two-way: every entry (on the diagonal both sides are 0) *)
Theorem twoway_entry_multilocus geno f m :
  twoway_entry S geno t1 t2 f m == covL L (EL_two ps k (al (row geno f)) (al (row geno m))) U1 U2.
Proof.
  unfold twoway_entry, mirror.
  destruct (Nat.ltb_spec m f) as [A|A]; [apply low2|].
  destruct (Nat.ltb_spec f m) as [B|B]; [rewrite twoway_low_sym; apply low2|].
  assert (f = m) by lia. subst m. rewrite <- low2. symmetry. apply twoway_low_same.
Qed.
(** three-way, four-way, dihybrid: every entry, repeated last parents / selfs included *)
Theorem threeway_entry_multilocus geno r f m :
  threeway_entry S geno t1 t2 r f m == covL L (EL_three ps k (al (row geno r)) (al (row geno f)) (al (row geno m))) U1 U2.
Proof.
  unfold threeway_entry, mirror_incl.
  destruct (Nat.leb_spec m f) as [A|A]; [apply low3 | rewrite threeway_low_sym; apply low3].
Qed.
Theorem fourway_entry_multilocus geno f2 m2 f1 m1 :
  fourway_entry S geno t1 t2 f2 m2 f1 m1 ==
  covL L (EL_four ps k (al (row geno f2)) (al (row geno m2)) (al (row geno f1)) (al (row geno m1))) U1 U2.
Proof.
  unfold fourway_entry, mirror_incl.
  destruct (Nat.leb_spec m1 f1) as [A|A]; [apply low4 | rewrite quad_low_sym34; apply low4].
Qed.
Theorem dihybrid_entry_multilocus geno geno1 f m :
  dihybrid_entry S geno geno1 t1 t2 f m ==
  covL L (EL_four ps k (al (row geno1 f)) (al (row geno f)) (al (row geno1 m)) (al (row geno m))) U1 U2.
Proof.
  unfold dihybrid_entry, mirror_incl.
  destruct (Nat.leb_spec m f) as [A|A]; [apply low4 | rewrite quad_low_sym_pairs; apply low4].
Qed.
End Top.

(** the example layout of Proofs/C12_Findings.v (4 loci, 2 linkage groups) meets [layout_ok] *)
Lemma ex_layout : layout_ok ex_S ex_ps 0.
Proof.
  destruct ex_hyps as (A & B & C & D & _). split; [exact A|]. split; [exact B|]. split; [exact C|]. split.
  - intros c i j _ _ _. split; reflexivity.
  - apply r_nonneg_of_gaps. intros p [<-|[<-|[<-|[]]]]; split; unfold Qle; cbn; lia.
Qed.
