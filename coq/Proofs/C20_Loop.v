(** C20 — proofs about Model/C20_Loop.v, part 1: call order, time index, replicate counter, and the hand-over of
    containers from one call to the next — for ARBITRARY operators and logbooks. *)
From PV Require Import Lib.Common Model.C20_Loop.
Local Open Scope nat_scope.

(** * signatures *)
Definition sigT := (Z * Z * Z * Z)%type.                       (* tag, t_cur, t_max, rep (0 for operator calls) *)
Definition sig (e : event) : sigT := (e_tag e, e_t e, e_tm e, e_rep e).
Definition scal := (Z * Z * Z)%type.                           (* t_cur, t_max, rep of the programme / logbook *)
Definition scal_of (st : pstate) : scal := (p_t st, p_tmax st, p_rep st).
Definition prefix {A} (a b : list A) : Prop := exists c, b = a ++ c.

Lemma prefix_refl {A} (a : list A) : prefix a a.
Proof. exists []. now rewrite app_nil_r. Qed.
Lemma prefix_nil {A} (a : list A) : prefix [] a.
Proof. now exists a. Qed.
Lemma prefix_app_r {A} (a b c : list A) : prefix a b -> prefix a (b ++ c).
Proof. intros [d ->]. exists (d ++ c). now rewrite app_assoc. Qed.
Lemma prefix_app_l {A} (a b c : list A) : prefix b c -> prefix (a ++ b) (a ++ c).
Proof. intros [d ->]. exists d. now rewrite app_assoc. Qed.

(** [spec f e d]: from a state with scalars s, [f] emits exactly the signatures [e s] and ends with scalars [d s]
    when it does not fail, and a prefix of [e s] when it fails *)
Definition spec (f : step) (e : scal -> list sigT) (d : scal -> scal) : Prop :=
  forall st, match f st with
             | (st', evs, ok) =>
                 (ok = true -> map sig evs = e (scal_of st) /\ scal_of st' = d (scal_of st) /\ p_start st' = p_start st)
                 /\ (ok = false -> prefix (map sig evs) (e (scal_of st)))
             end.

Lemma spec_ret : spec ret_ok (fun _ => []) (fun s => s).
Proof. intros st; cbn. split; [auto | intros; apply prefix_nil]. Qed.

Lemma spec_andthen f g ef eg df dg :
  spec f ef df -> spec g eg dg -> spec (andthen f g) (fun s => ef s ++ eg (df s)) (fun s => dg (df s)).
Proof.
  intros Hf Hg st. unfold andthen. specialize (Hf st).
  destruct (f st) as [[st1 ev1] ok1]. destruct Hf as [Hf1 Hf2]. destruct ok1.
  - destruct (Hf1 eq_refl) as (E1 & D1 & S1). specialize (Hg st1).
    destruct (g st1) as [[st2 ev2] ok2]. destruct Hg as [Hg1 Hg2]. rewrite map_app, E1, <- D1. split.
    + intros ->. destruct (Hg1 eq_refl) as (E2 & D2 & S2). rewrite E2, D2. repeat split; congruence.
    + intros ->. apply prefix_app_l. now apply Hg2.
  - split; [discriminate|]. intros _. apply prefix_app_r. now apply Hf2.
Qed.

Fixpoint iter_sig (n : nat) (e : scal -> list sigT) (d : scal -> scal) (s : scal) : list sigT :=
  match n with O => [] | S n' => e s ++ iter_sig n' e d (d s) end.
Fixpoint iter_d (n : nat) (d : scal -> scal) (s : scal) : scal :=
  match n with O => s | S n' => iter_d n' d (d s) end.
Lemma spec_iter f e d n : spec f e d -> spec (iter n f) (iter_sig n e d) (iter_d n d).
Proof.
  intros Hf. induction n as [|n IH]; cbn [iter iter_sig iter_d]; [apply spec_ret|].
  exact (spec_andthen _ _ _ _ _ _ Hf IH).
Qed.

Lemma spec_ext f e e' d d' : spec f e d -> (forall s, e s = e' s) -> (forall s, d s = d' s) -> spec f e' d'.
Proof. intros H E D st. specialize (H st). destruct (f st) as [[st' evs] ok]. now rewrite <- E, <- D. Qed.

Lemma scal_eq (a b c a' b' c' : Z) : a = a' -> b = b' -> c = c' -> (a, b, c) = (a', b', c').
Proof. now intros -> -> ->. Qed.

(** * the primitive steps *)
Lemma spec_call_op tag op pm tm_ :
  spec (call_op tag op pm tm_) (fun s => match s with (t, tm, _) => [(tag, t, tm, 0%Z)] end) (fun s => s).
Proof.
  intros st. unfold call_op. destruct (somes (p_work st)) as [w|].
  2:{ split; [discriminate|]. intros _. apply prefix_nil. }
  set (r := op _ _ _ _ _). unfold scal_of. destruct (r_ok r).
  - destruct (assign (p_work st) (r_roots r)) as [w' ok]. cbn. split.
    + intros ->. auto.
    + intros _. apply prefix_refl.
  - cbn. split; [discriminate|]. intros _. apply prefix_refl.
Qed.

Lemma spec_call_log tag lg pm :
  spec (call_log tag lg pm) (fun s => match s with (t, tm, rep) => [(tag, t, tm, rep)] end) (fun s => s).
Proof.
  intros st. unfold call_log. destruct (somes (p_work st)) as [w|].
  2:{ split; [discriminate|]. intros _. apply prefix_nil. }
  destruct (misc_collides pm (p_misc st)).
  { split; [discriminate|]. intros _. apply prefix_nil. }
  destruct (lg _ _ _ _ _ _ _) as [[h' s'] ok]. unfold scal_of. cbn. split.
  - intros ->. auto.
  - intros _. apply prefix_refl.
Qed.

Lemma spec_tick : spec tick (fun _ => []) (fun s => match s with (t, tm, rep) => ((t + 1)%Z, tm, rep) end).
Proof. intros st; cbn. split; [auto | intros; apply prefix_nil]. Qed.
Lemma spec_bump : spec bump_rep (fun _ => []) (fun s => match s with (t, tm, rep) => (t, tm, (rep + 1)%Z) end).
Proof. intros st; cbn. split; [auto | intros; apply prefix_nil]. Qed.
Lemma spec_reset :
  spec reset (fun s => match s with (_, tm, rep) => [(T_RESET, 0%Z, tm, rep)] end)
             (fun s => match s with (_, tm, rep) => (0%Z, tm, rep) end).
Proof.
  intros st. unfold reset. destruct (reset_slots _ _ _) as [[h' w'] ok]. unfold scal_of; cbn. split.
  - intros ->. auto.
  - intros _. apply prefix_refl.
Qed.

(** * expected shapes *)
Definition gen_sig (t tm rep : Z) : list sigT :=
  [(T_PSEL, t, tm, 0%Z); (L_PSEL, t, tm, rep); (T_MATE, t, tm, 0%Z); (L_MATE, t, tm, rep);
   (T_EVAL, t, tm, 0%Z); (L_EVAL, t, tm, rep); (T_SSEL, t, tm, 0%Z); (L_SSEL, t, tm, rep)].
(** [n] generations starting at time [t] *)
Fixpoint gens_sig (n : nat) (t tm rep : Z) : list sigT :=
  match n with O => [] | S n' => gen_sig t tm rep ++ gens_sig n' (t + 1)%Z tm rep end.
(** one replicate, logbook counter already incremented to [rep] *)
Definition rep_sig (ngen : nat) (loginit : bool) (tm rep : Z) : list sigT :=
  [(T_RESET, 0%Z, tm, rep); (T_EVAL, 0%Z, tm, 0%Z)] ++ (if loginit then [(L_INIT, 0%Z, tm, rep)] else []) ++ gens_sig ngen 1%Z tm rep.
(** [n] replicates, logbook counter at [rep] before the first *)
Fixpoint reps_sig (n : nat) (ngen : nat) (loginit : bool) (tm rep : Z) : list sigT :=
  match n with O => [] | S n' => rep_sig ngen loginit tm (rep + 1)%Z ++ reps_sig n' ngen loginit tm (rep + 1)%Z end.

Lemma spec_generation ops :
  spec (generation ops) (fun s => match s with (t, tm, rep) => gen_sig t tm rep end)
       (fun s => match s with (t, tm, rep) => ((t + 1)%Z, tm, rep) end).
Proof.
  unfold generation.
  eapply spec_ext.
  - repeat (eapply spec_andthen; [first [apply spec_call_op | apply spec_call_log]|]). apply spec_tick.
  - intros [[t tm] rep]. reflexivity.
  - intros [[t tm] rep]. reflexivity.
Qed.

Lemma spec_advance ops n :
  spec (iter n (generation ops)) (fun s => match s with (t, tm, rep) => gens_sig n t tm rep end)
       (fun s => match s with (t, tm, rep) => ((t + Z.of_nat n)%Z, tm, rep) end).
Proof.
  eapply spec_ext; [apply spec_iter, spec_generation | |].
  - induction n as [|n IH]; intros [[t tm] rep]; cbn [iter_sig gens_sig]; [reflexivity|]. now rewrite IH.
  - induction n as [|n IH]; intros [[t tm] rep]; cbn [iter_d].
    + apply scal_eq; lia.
    + rewrite IH. apply scal_eq; lia.
Qed.

Lemma spec_replicate ops ngen li :
  spec (replicate ops ngen li)
       (fun s => match s with (_, tm, rep) => rep_sig (Z.to_nat ngen) li tm (rep + 1)%Z end)
       (fun s => match s with (_, tm, rep) => ((1 + Z.of_nat (Z.to_nat ngen))%Z, tm, (rep + 1)%Z) end).
Proof.
  unfold replicate, advance.
  eapply spec_ext.
  - eapply spec_andthen; [apply spec_bump|]. eapply spec_andthen; [apply spec_reset|].
    eapply spec_andthen; [apply spec_call_op|].
    eapply spec_andthen; [instantiate (1 := fun s => s); instantiate (1 := fun s => match s with (t, tm, rep) => if li then [(L_INIT, t, tm, rep)] else [] end)|].
    { destruct li; [apply spec_call_log|]. eapply spec_ext; [apply spec_ret| |]; now intros [[? ?] ?]. }
    eapply spec_andthen; [apply spec_tick|]. apply spec_advance.
  - intros [[t tm] rep]. unfold rep_sig. cbn. destruct li; reflexivity.
  - intros [[t tm] rep]. cbn. apply scal_eq; lia.
Qed.

Lemma spec_replicates ops ngen li n :
  spec (iter n (replicate ops ngen li))
       (fun s => match s with (_, tm, rep) => reps_sig n (Z.to_nat ngen) li tm rep end)
       (fun s => match s with (t, tm, rep) =>
                   ((if Nat.eqb n 0 then t else 1 + Z.of_nat (Z.to_nat ngen))%Z, tm, (rep + Z.of_nat n)%Z) end).
Proof.
  eapply spec_ext; [apply spec_iter, spec_replicate | |].
  - induction n as [|n IH]; intros [[t tm] rep]; cbn [iter_sig reps_sig]; [reflexivity|]. now rewrite IH.
  - induction n as [|n IH]; intros [[t tm] rep]; cbn [iter_d].
    + cbn. apply scal_eq; lia.
    + rewrite IH. destruct n; cbn [Nat.eqb]; apply scal_eq; lia.
Qed.

Definition init_sig : sigT := (T_INIT, 0%Z, 0%Z, 0%Z).
(** the expected call sequence of evolve(nrep, ngen, lbook, loginit) *)
Definition evolve_sig (initialized : bool) (nrep ngen : Z) (li : bool) (tm rep : Z) : list sigT :=
  (if initialized then [] else [init_sig]) ++ reps_sig (Z.to_nat nrep) (Z.to_nat ngen) li tm rep.

Theorem trace_shape : forall ops strict initres nrep ngen li st,
  match evolve ops strict initres nrep ngen li st with
  | (st', evs, ok) =>
      (ok = true -> map sig evs = evolve_sig (is_initialized st) nrep ngen li (p_tmax st) (p_rep st)
                    /\ p_rep st' = (p_rep st + Z.of_nat (Z.to_nat nrep))%Z
                    /\ p_t st' = (if Nat.eqb (Z.to_nat nrep) 0 then p_t st else 1 + Z.of_nat (Z.to_nat ngen))%Z
                    /\ p_tmax st' = p_tmax st)
      /\ (ok = false -> prefix (map sig evs) (evolve_sig (is_initialized st) nrep ngen li (p_tmax st) (p_rep st)))
  end.
Proof.
  intros. unfold evolve, andthen, evolve_sig.
  pose proof (spec_replicates ops ngen li (Z.to_nat nrep)) as HR.
  destruct (is_initialized st) eqn:Ei.
  - cbn [ret_ok]. specialize (HR st). destruct (iter _ _ st) as [[st' evs] ok]. unfold scal_of in HR.
    cbn [app]. destruct HR as [H1 H2]. split.
    + intros ->. destruct (H1 eq_refl) as (E & D & _). injection D as D1 D2 D3. repeat split; assumption.
    + exact H2.
  - unfold initialize.
    destruct (Nat.eqb (length initres) 5).
    2:{ split; [discriminate|]. intros _. cbn. exists (reps_sig (Z.to_nat nrep) (Z.to_nat ngen) li (p_tmax st) (p_rep st)). reflexivity. }
    match goal with |- context [iter _ _ ?s] => specialize (HR s); destruct (iter _ _ s) as [[st' evs] ok] end.
    unfold scal_of in HR; cbn [p_t p_tmax p_rep] in HR. destruct HR as [H1 H2]. split.
    + intros ->. destruct (H1 eq_refl) as (E & D & _). injection D as D1 D2 D3. cbn [map app]. rewrite E. repeat split; assumption.
    + intros ->. cbn [map app]. apply (prefix_app_l [init_sig]). now apply H2.
Qed.

(** what Python observes: reset marks are internal to the model *)
Lemma observable_sig e : observable e = negb (Z.eqb (fst (fst (fst (sig e)))) T_RESET).
Proof. reflexivity. Qed.

(** closed form: the t-th generation (1-based) runs at time t; every block has the eight calls in order *)
Lemma gens_sig_nth : forall n t tm rep g, g < n ->
  firstn 8 (skipn (8 * g) (gens_sig n t tm rep)) = gen_sig (t + Z.of_nat g)%Z tm rep.
Proof.
  induction n as [|n IH]; intros t tm rep g Hg; [lia|].
  destruct g as [|g].
  - cbn [gens_sig Nat.mul skipn]. replace (t + Z.of_nat 0)%Z with t by lia. reflexivity.
  - replace (8 * S g) with (8 + 8 * g) by lia. cbn [gens_sig].
    change (gen_sig t tm rep ++ gens_sig n (t + 1)%Z tm rep) with
      ((T_PSEL, t, tm, 0%Z) :: (L_PSEL, t, tm, rep) :: (T_MATE, t, tm, 0%Z) :: (L_MATE, t, tm, rep) ::
       (T_EVAL, t, tm, 0%Z) :: (L_EVAL, t, tm, rep) :: (T_SSEL, t, tm, 0%Z) :: (L_SSEL, t, tm, rep) :: gens_sig n (t + 1)%Z tm rep).
    cbn [plus skipn]. rewrite IH by lia. f_equal. lia.
Qed.
Lemma gens_sig_length n t tm rep : length (gens_sig n t tm rep) = 8 * n.
Proof. revert t; induction n as [|n IH]; intros t; cbn [gens_sig]; [reflexivity|]. rewrite app_length, IH. cbn. lia. Qed.
