(** C18 — lemmas about Model/C18_Haplo.v *)
From PV Require Import Lib.Common Model.C18_Haplo.
From Coq Require Import Lia Arith PrimFloat.
Local Open Scope nat_scope.

Lemma in_firstn {A} (x : A) n l : In x (firstn n l) -> In x l.
Proof. intros H. rewrite <- (firstn_skipn n l). apply in_or_app. now left. Qed.
Lemma in_skipn {A} (x : A) n l : In x (skipn n l) -> In x l.
Proof. intros H. rewrite <- (firstn_skipn n l). apply in_or_app. now right. Qed.

(** * A. greedy apportionment: one count per chromosome, each >= 1, total = requested *)
Section Apportion.
Context {T : Type} (O : ops T).

Lemma argmin_loop_range (l : list T) : forall i bi bv,
  argmin_loop O l i bi bv = bi \/ i <= argmin_loop O l i bi bv < i + length l.
Proof.
  induction l as [|x r IH]; intros i bi bv; cbn [argmin_loop length]; [now left|].
  destruct (o_isnan O bv); [now left|].
  destruct (o_isnan O x || o_ltb O x bv).
  - destruct (IH (S i) i x) as [E|E]; right; lia.
  - destruct (IH (S i) bi bv) as [E|E]; [now left | right; lia].
Qed.

Lemma argmin_lt (l : list T) : l <> [] -> argmin O l < length l.
Proof.
  destruct l as [|x r]; [congruence|]. intros _. unfold argmin. cbn [length].
  destruct (argmin_loop_range r 1 0 x); lia.
Qed.

Lemma incr_length ix (l : list nat) : ix < length l -> length (incr ix l) = length l.
Proof.
  intros H. unfold incr. rewrite app_length, firstn_length_le by lia.
  destruct (skipn ix l) as [|x r] eqn:E.
  - apply (f_equal (@length nat)) in E. rewrite skipn_length in E. cbn in E. lia.
  - apply (f_equal (@length nat)) in E. rewrite skipn_length in E. cbn in *. lia.
Qed.

Lemma incr_sum ix (l : list nat) : ix < length l -> list_sum (incr ix l) = S (list_sum l).
Proof.
  intros H. unfold incr. rewrite <- (firstn_skipn ix l) at 3. rewrite !list_sum_app.
  destruct (skipn ix l) as [|x r] eqn:E.
  - apply (f_equal (@length nat)) in E. rewrite skipn_length in E. cbn in E. lia.
  - cbn. lia.
Qed.

Lemma incr_ge1 ix (l : list nat) : Forall (fun x => 1 <= x) l -> Forall (fun x => 1 <= x) (incr ix l).
Proof.
  intros H. unfold incr. apply Forall_app. split.
  - apply Forall_forall. intros x Hx. rewrite Forall_forall in H. apply H. eapply in_firstn; eauto.
  - destruct (skipn ix l) as [|x r] eqn:E; [constructor|].
    assert (HF : Forall (fun x => 1 <= x) (x :: r)).
    { rewrite <- E. apply Forall_forall. intros y Hy. rewrite Forall_forall in H. apply H.
      rewrite <- (firstn_skipn ix l). apply in_or_app. now right. }
    inversion HF; subst. constructor; [lia | assumption].
Qed.

Lemma apportion_loop_inv fuel idl : forall cur : list nat, length idl = length cur -> cur <> [] -> Forall (fun x => 1 <= x) cur ->
  length (apportion_loop O fuel idl cur) = length cur /\ Forall (fun x => 1 <= x) (apportion_loop O fuel idl cur)
  /\ list_sum (apportion_loop O fuel idl cur) = fuel + list_sum cur.
Proof.
  induction fuel as [|f IH]; intros cur HL HN HF; cbn [apportion_loop]; [repeat split; auto|].
  set (diff := map2 (fun c i => o_sub O (o_ofn O c) i) cur idl).
  assert (Ld : length diff = length cur) by (unfold diff; rewrite map2_length; lia).
  assert (Hd : diff <> []) by (intros E; rewrite E in Ld; destruct cur; [congruence | discriminate]).
  pose proof (argmin_lt diff Hd) as Hix. rewrite Ld in Hix.
  destruct (IH (incr (argmin O diff) cur)) as (A & B & C).
  - rewrite incr_length; assumption.
  - intros E. apply (f_equal (@length nat)) in E. rewrite incr_length in E by assumption. destruct cur; [congruence|discriminate].
  - now apply incr_ge1.
  - rewrite incr_length in A by assumption. rewrite incr_sum in C by assumption. repeat split; [assumption|assumption|lia].
Qed.

Lemma genlen_length gp (stix spix : list nat) : length spix = length stix -> length (genlen O gp stix spix) = length stix.
Proof. intros H. unfold genlen. rewrite map2_length. lia. Qed.

(** the apportionment returns one count per chromosome, each at least one, adding up to the requested total —
    whatever the positions are (also for NaN / zero-length chromosomes: argmin always returns a valid index) *)
Lemma apportion_total (nhap : nat) (gp : list T) (stix spix : list nat) :
  length spix = length stix -> 1 <= length stix <= nhap ->
  exists nblk, nhaploblk_chrom O nhap gp stix spix = Ok nblk /\ length nblk = length stix
               /\ Forall (fun x => 1 <= x) nblk /\ list_sum nblk = nhap.
Proof.
  intros HL [H1 H2]. unfold nhaploblk_chrom. destruct (Nat.ltb_spec nhap (length stix)) as [L|_]; [lia|].
  eexists. split; [reflexivity|].
  destruct (apportion_loop_inv (nhap - length stix) (ideal O nhap (genlen O gp stix spix)) (repeat 1 (length stix))) as (A & B & C).
  - unfold ideal. rewrite map_length, genlen_length, repeat_length; auto.
  - destruct (length stix); [lia | discriminate].
  - apply Forall_forall. intros x Hx. apply repeat_spec in Hx. lia.
  - rewrite repeat_length in A. split; [exact A|]. split; [exact B|]. rewrite C.
    assert (S1 : forall n, list_sum (repeat 1 n) = n) by (induction n as [|n IHn]; [reflexivity | cbn [repeat]; change (list_sum (1 :: repeat 1 n)) with (1 + list_sum (repeat 1 n)); lia]). rewrite S1. lia.
Qed.

(** fewer blocks than chromosomes is rejected *)
Lemma apportion_rejects (nhap : nat) (gp : list T) (stix spix : list nat) :
  nhap < length stix -> exists e, nhaploblk_chrom O nhap gp stix spix = Err e.
Proof. intros H. unfold nhaploblk_chrom. destruct (Nat.ltb_spec nhap (length stix)); [eauto | lia]. Qed.
End Apportion.

(** * B. binning of one chromosome: every marker between the first and the last boundary receives exactly one
      label, labels are monotone in the position — for any total preorder on positions and ANY boundary list *)
From Coq Require Import Sorted.
Section Order.
Context {T : Type} (O : ops T) (ok : T -> Prop).
Hypothesis leb_total : forall x y, ok x -> ok y -> o_leb O x y = true \/ o_leb O y x = true.
Hypothesis leb_trans : forall x y z, ok x -> ok y -> ok z -> o_leb O x y = true -> o_leb O y z = true -> o_leb O x z = true.
Notation le x y := (o_leb O x y = true).

Lemma bin_label_step lo hi tl x k acc :
  bin_label O (lo :: hi :: tl) x k acc = bin_label O (hi :: tl) x (S k) (if o_leb O lo x && o_leb O x hi then Some k else acc).
Proof. reflexivity. Qed.

Lemma le_refl x : ok x -> le x x.
Proof. intros H. destruct (leb_total x x H H); assumption. Qed.

Lemma bin_label_range (hb : list T) x : forall k acc,
  bin_label O hb x k acc = acc \/ exists j, bin_label O hb x k acc = Some j /\ k <= j < k + (length hb - 1).
Proof.
  induction hb as [|lo tl IH]; intros k acc; [now left|].
  destruct tl as [|hi tl']; [now left|].
  rewrite bin_label_step. set (acc' := if o_leb O lo x && o_leb O x hi then Some k else acc).
  destruct (IH (S k) acc') as [E|(j & E & R)].
  - rewrite E. unfold acc'. destruct (o_leb O lo x && o_leb O x hi); [right; exists k; cbn [length]; split; [reflexivity|lia] | now left].
  - right. exists j. split; [exact E|]. cbn [length] in *. lia.
Qed.

Lemma bin_label_cover (d : T) (hb : list T) x : Forall ok hb -> ok x -> 2 <= length hb -> le (hd d hb) x -> le x (last hb d) ->
  forall k acc, exists j, bin_label O hb x k acc = Some j /\ k <= j < k + (length hb - 1).
Proof.
  induction hb as [|lo tl IH]; intros Hok Hx HL Hlo Hhi k acc; [cbn in HL; lia|].
  destruct tl as [|hi tl']; [cbn in HL; lia|].
  apply Forall_cons_iff in Hok as [Hlo_ok Hok']. pose proof Hok' as Hok''. apply Forall_cons_iff in Hok'' as [Hhi_ok _].
  cbn [hd] in Hlo. rewrite bin_label_step.
  set (acc' := if o_leb O lo x && o_leb O x hi then Some k else acc).
  destruct tl' as [|b2 tl''].
  - (* a single bin *) cbn [last] in Hhi. unfold acc'. rewrite Hlo, Hhi. cbn. exists k. split; [reflexivity|lia].
  - destruct (o_leb O x hi) eqn:Exh.
    + (* x in bin k; a later bin may still overwrite *)
      unfold acc'. rewrite Hlo. cbn [andb].
      destruct (bin_label_range (hi :: b2 :: tl'') x (S k) (Some k)) as [E|(j & E & R)].
      * rewrite E. exists k. split; [reflexivity|cbn [length]; lia].
      * exists j. split; [exact E|]. cbn [length] in *. lia.
    + (* hi <= x: covered by a later bin *)
      destruct (leb_total x hi Hx Hhi_ok) as [C|C]; [congruence|].
      destruct (IH Hok' Hx) with (k := S k) (acc := acc') as (j & E & R); [cbn [length]; lia | exact C | exact Hhi |].
      exists j. split; [exact E|]. cbn [length] in *. lia.
Qed.

Lemma bin_label_mono (d : T) (hb : list T) x y : Forall ok hb -> ok x -> ok y -> le x y -> le y (last hb d) ->
  forall k accx accy jx, (forall a, accx = Some a -> a < k) -> bin_label O hb x k accx = Some jx -> k <= jx ->
  exists jy, bin_label O hb y k accy = Some jy /\ jx <= jy.
Proof.
  induction hb as [|lo tl IH]; intros Hok Hx Hy Hxy Hhi k accx accy jx Hacc E Hk.
  - cbn in E. apply Hacc in E. lia.
  - destruct tl as [|hi tl']; [cbn in E; apply Hacc in E; lia|].
    pose proof Hok as Hok0. apply Forall_cons_iff in Hok as [Hlo_ok Hok'].
    rewrite bin_label_step in E.
    set (accx' := if o_leb O lo x && o_leb O x hi then Some k else accx) in E.
    destruct (bin_label_range (hi :: tl') x (S k) accx') as [E1|(j & E1 & R)].
    + (* no later bin holds x *)
      rewrite E1 in E. unfold accx' in E. destruct (o_leb O lo x && o_leb O x hi) eqn:C.
      * injection E as <-. apply andb_prop in C as [C1 C2].
        destruct (bin_label_cover d (lo :: hi :: tl') y Hok0 Hy) with (k := k) (acc := accy) as (jy & Ey & Ry).
        -- cbn [length]; lia.
        -- cbn [hd]. now apply (leb_trans lo x y).
        -- exact Hhi.
        -- exists jy. split; [exact Ey | lia].
      * apply Hacc in E. lia.
    + rewrite E1 in E. injection E as <-. rewrite bin_label_step.
      apply (IH Hok' Hx Hy Hxy) with (k := S k) (accx := accx'); [exact Hhi | | exact E1 | lia].
      intros a Ha. unfold accx' in Ha. destruct (o_leb O lo x && o_leb O x hi); [injection Ha as <-; lia | apply Hacc in Ha; lia].
Qed.
End Order.

(** generic facts on strongly sorted lists *)
Lemma ss_map {A B} (R : A -> A -> Prop) (R' : B -> B -> Prop) (g : A -> B) (l : list A) :
  (forall x y, In x l -> In y l -> R x y -> R' (g x) (g y)) -> StronglySorted R l -> StronglySorted R' (map g l).
Proof.
  intros H S. induction S as [|a l S IH F]; cbn [map]; constructor.
  - apply IH. intros x y Hx Hy. apply H; now right.
  - apply Forall_forall. intros b Hb. apply in_map_iff in Hb as (x & <- & Hx). apply H; [now left | now right |].
    rewrite Forall_forall in F. now apply F.
Qed.
Lemma ss_app {A} (R : A -> A -> Prop) (l1 l2 : list A) :
  StronglySorted R l1 -> StronglySorted R l2 -> (forall x y, In x l1 -> In y l2 -> R x y) -> StronglySorted R (l1 ++ l2).
Proof.
  intros S1 S2 H. induction S1 as [|a l S IH F]; cbn [app]; [exact S2|]. constructor.
  - apply IH. intros x y Hx Hy. apply H; [now right | exact Hy].
  - apply Forall_app. split; [exact F|]. apply Forall_forall. intros y Hy. apply H; [now left | exact Hy].
Qed.
Lemma ss_hd {A} (R : A -> A -> Prop) (d : A) (l : list A) : (forall x, In x l -> R x x) -> StronglySorted R l ->
  forall x, In x l -> R (hd d l) x.
Proof.
  intros Hr S x Hx. destruct S as [|a l S F]; [destruct Hx|]. cbn [hd]. destruct Hx as [<-|Hx]; [apply Hr; now left|].
  rewrite Forall_forall in F. now apply F.
Qed.
Lemma ss_last {A} (R : A -> A -> Prop) (d : A) (l : list A) : (forall x, In x l -> R x x) -> StronglySorted R l ->
  forall x, In x l -> R x (last l d).
Proof.
  intros Hr S. induction S as [|a l S IH F]; intros x Hx; [destruct Hx|].
  destruct l as [|b l'].
  - destruct Hx as [<-|[]]. cbn. apply Hr. now left.
  - change (last (a :: b :: l') d) with (last (b :: l') d). destruct Hx as [<-|Hx].
    + rewrite Forall_forall in F. apply F. clear. induction l' as [|c l'' IHl] in b |- *; [now left|].
      change (last (b :: c :: l'') d) with (last (c :: l'') d). right. apply IHl.
    + apply IH; [|exact Hx]. intros y Hy. apply Hr. now right.
Qed.

Lemma map_Some_inj {A} : forall (l1 l2 : list A), map Some l1 = map Some l2 -> l1 = l2.
Proof. induction l1 as [|a l1 IH]; intros [|b l2] H; cbn in H; try discriminate; [reflexivity|]. injection H as -> H. f_equal. now apply IH. Qed.

(** * B2. the repair pass of haplobin *)
Local Open Scope Z_scope.
(** the pass on fully written labels, values as Python integers *)
Fixpoint spreadZ (k p : Z) (rem : nat) (l : list nat) : list Z :=
  match l with
  | [] => []
  | x :: r => let v := Z.min (Z.max (Z.max (Z.of_nat x) p) (k - Z.of_nat rem)) (p + 1) in v :: spreadZ k v (rem - 1) r
  end.
(** consecutive values rise by 0 or 1, starting from [a] *)
Fixpoint stair (a : Z) (r : list Z) : Prop := match r with [] => True | v :: r' => a <= v <= a + 1 /\ stair v r' end.
(** the last value, [a] for the empty list *)
Definition lastZ (a : Z) (r : list Z) : Z := fold_left (fun _ v => v) r a.

Lemma spread_loop_some k : forall l p rem,
  spread_loop k (Some p) rem (map Some l) = map (fun v => Some (Z.to_nat v)) (spreadZ k p rem l).
Proof. induction l as [|x l IH]; intros p rem; [reflexivity|]. cbn [map spread_loop spreadZ option_map]. f_equal. apply IH. Qed.

Lemma spread_loop_length k : forall l prev rem, length (spread_loop k prev rem l) = length l.
Proof. induction l as [|x l IH]; intros; cbn [spread_loop length]; [reflexivity|]. now rewrite IH. Qed.

(** if the pass returns only written labels, every label it read was written *)
Lemma spread_loop_all_some k : forall l prev rem r, spread_loop k prev rem l = map Some r -> exists l', l = map Some l'.
Proof.
  induction l as [|x l IH]; intros prev rem r H; [exists []; reflexivity|].
  destruct r as [|y r]; [discriminate|]. cbn [spread_loop map] in H. injection H as Hv Ht.
  destruct (IH _ _ _ Ht) as (l' & ->).
  destruct prev as [p|]; [|discriminate]. destruct x as [xv|]; [|discriminate]. exists (xv :: l'). reflexivity.
Qed.

Lemma spreadZ_length k : forall l p rem, length (spreadZ k p rem l) = length l.
Proof. induction l as [|x l IH]; intros; cbn [spreadZ length]; [reflexivity|]. now rewrite IH. Qed.

Lemma spreadZ_stair k : forall l p rem, stair p (spreadZ k p rem l).
Proof. induction l as [|x l IH]; intros p rem; cbn [spreadZ stair]; [exact I|]. split; [lia | apply IH]. Qed.

Lemma stair_ge : forall r a, stair a r -> Forall (fun v => a <= v) r.
Proof.
  induction r as [|v r IH]; intros a H; [constructor|]. destruct H as [H1 H2]. constructor; [lia|].
  eapply Forall_impl; [|apply (IH v H2)]. cbn. intros; lia.
Qed.
Lemma stair_sorted : forall r a, stair a r -> StronglySorted Z.le r.
Proof. induction r as [|v r IH]; intros a H; [constructor|]. destruct H as [_ H2]. constructor; [eapply IH; eauto | now apply stair_ge]. Qed.
Lemma lastZ_cons a v r : lastZ a (v :: r) = lastZ v r.
Proof. reflexivity. Qed.
Lemma stair_last_ge : forall r a, stair a r -> a <= lastZ a r.
Proof. induction r as [|v r IH]; intros a H; [cbn; lia|]. destruct H as [H1 H2]. rewrite lastZ_cons. specialize (IH v H2). lia. Qed.
Lemma stair_last_le : forall r a, stair a r -> lastZ a r <= a + Z.of_nat (length r).
Proof. induction r as [|v r IH]; intros a H; [cbn; lia|]. destruct H as [H1 H2]. rewrite lastZ_cons. specialize (IH v H2). cbn [length]. lia. Qed.
Lemma stair_in_le_last : forall r a j, stair a r -> In j r -> j <= lastZ a r.
Proof.
  induction r as [|v r IH]; intros a j H Hj; [destruct Hj|]. destruct H as [H1 H2]. rewrite lastZ_cons.
  destruct Hj as [<-|Hj]; [now apply stair_last_ge | now apply IH].
Qed.
(** a staircase passes through every value between its start and its end *)
Lemma stair_surj : forall r a, stair a r -> forall j, a < j <= lastZ a r -> In j r.
Proof.
  induction r as [|v r IH]; intros a H j Hj; [cbn in Hj; lia|]. destruct H as [H1 H2]. rewrite lastZ_cons in Hj.
  destruct (Z.eq_dec j v) as [->|NE]; [now left|]. right. apply (IH v H2). lia.
Qed.

Lemma spreadZ_upper k : forall l p rem, rem = length l -> p <= k - 1 -> Forall (fun x => Z.of_nat x <= k - 1) l ->
  Forall (fun v => v <= k - 1) (spreadZ k p rem l).
Proof.
  induction l as [|x l IH]; intros p rem Hr Hp H; cbn [spreadZ]; [constructor|]. apply Forall_cons_iff in H as [Hx H].
  cbn [length] in Hr. constructor; [lia|]. apply IH; [lia | lia | exact H].
Qed.
Lemma spreadZ_lower k l p rem : Forall (fun x => p + 1 <= Z.of_nat x) l -> Forall (fun v => p + 1 <= v) (spreadZ k p rem l).
Proof.
  destruct l as [|x l]; intros H; cbn [spreadZ]; [constructor|]. apply Forall_cons_iff in H as [Hx _].
  constructor; [lia|]. eapply Forall_impl; [|apply stair_ge, spreadZ_stair]. cbn. intros; lia.
Qed.
(** enough markers for the blocks that remain: the pass ends on the last label *)
Lemma spreadZ_last k : forall l p rem, rem = length l -> l <> [] -> k - Z.of_nat rem - 1 <= p ->
  k - 1 <= lastZ p (spreadZ k p rem l).
Proof.
  induction l as [|x l IH]; intros p rem Hr Hne Hp; [congruence|]. cbn [spreadZ]. rewrite lastZ_cons. cbn [length] in Hr.
  destruct l as [|y l'].
  - subst rem. unfold lastZ. cbn [spreadZ fold_left length] in *. lia.
  - apply IH; [subst rem; cbn [length]; lia | discriminate | subst rem; cbn [length] in *; lia].
Qed.
(** labels that already form a staircase up to the last label are left as they are *)
Lemma spreadZ_id k : forall l p rem, rem = length l -> stair p (map Z.of_nat l) -> k - 1 <= lastZ p (map Z.of_nat l) ->
  (forall x, In x l -> Z.of_nat x <= k - 1) -> spreadZ k p rem l = map Z.of_nat l.
Proof.
  induction l as [|x l IH]; intros p rem Hr Hs Hl Hu; [reflexivity|]. cbn [map] in *. destruct Hs as [H1 H2]. rewrite lastZ_cons in Hl.
  pose proof (stair_last_le _ _ H2) as Hle. rewrite map_length in Hle. cbn [length] in Hr. cbn [spreadZ].
  replace (Z.min (Z.max (Z.max (Z.of_nat x) p) (k - Z.of_nat rem)) (p + 1)) with (Z.of_nat x) by lia.
  f_equal. apply IH; [lia | exact H2 | exact Hl | intros y Hy; apply Hu; now right].
Qed.

(** sorted labels in [a+1, K) that use every value of that range form a staircase from a *)
Lemma full_sorted_stair (K : Z) : forall (l : list nat) (a : Z), -1 <= a -> StronglySorted Nat.le l ->
  Forall (fun x => a <= Z.of_nat x < K) l -> (forall j : nat, a < Z.of_nat j < K -> In j l) -> stair a (map Z.of_nat l).
Proof.
  induction l as [|x l IH]; intros a Ha S F Hall; [exact I|]. cbn [map stair].
  inversion S as [|? ? S' Fx]; subst. apply Forall_cons_iff in F as [Hx F].
  assert (Hx1 : Z.of_nat x <= a + 1).
  { destruct (Z_le_gt_dec (Z.of_nat x) (a + 1)) as [|G]; [assumption|]. exfalso.
    destruct (Hall (Z.to_nat (a + 1))) as [E|Hin]; [lia | lia |].
    rewrite Forall_forall in Fx. specialize (Fx _ Hin). unfold Nat.le in Fx. lia. }
  split; [lia|]. apply IH; [lia | exact S' | |].
  - rewrite Forall_forall in *. intros y Hy. specialize (F y Hy). specialize (Fx y Hy). unfold Nat.le in Fx. lia.
  - intros j Hj. destruct (Hall j) as [E|Hin]; [lia | lia | exact Hin].
Qed.

Local Open Scope nat_scope.
(** the pass on the labels of one chromosome: block labels k0 .. k0+n-1, every marker labelled in that range *)
Lemma spread_spec (k0 n : nat) (l : list nat) : 1 <= n -> Forall (fun j => k0 <= j < k0 + n) l ->
  exists r, spread_loop (Z.of_nat (k0 + n)) (Some (Z.of_nat (k0 + n) - Z.of_nat n - 1)%Z) (length l) (map Some l) = map Some r
    /\ length r = length l /\ Forall (fun j => k0 <= j < k0 + n) r /\ StronglySorted Nat.le r
    /\ (n <= length l -> forall j, k0 <= j < k0 + n -> In j r).
Proof.
  intros Hn HF. set (K := Z.of_nat (k0 + n)). set (p := (K - Z.of_nat n - 1)%Z).
  set (rz := spreadZ K p (length l) l). exists (map Z.to_nat rz).
  assert (Hst : stair p rz) by apply spreadZ_stair.
  assert (Hup : Forall (fun v => (v <= K - 1)%Z) rz).
  { apply spreadZ_upper; [reflexivity | unfold p, K; lia|]. eapply Forall_impl; [|exact HF]. cbn. unfold K. intros; lia. }
  assert (Hlo : Forall (fun v => (p + 1 <= v)%Z) rz).
  { apply spreadZ_lower. eapply Forall_impl; [|exact HF]. cbn. unfold p, K. intros; lia. }
  split; [rewrite spread_loop_some, map_map; reflexivity|]. split; [unfold rz; now rewrite map_length, spreadZ_length|].
  split; [|split].
  - apply Forall_forall. intros j Hj. apply in_map_iff in Hj as (v & <- & Hv). rewrite Forall_forall in Hup, Hlo.
    specialize (Hup v Hv). specialize (Hlo v Hv). unfold p, K in *. lia.
  - apply (ss_map Z.le Nat.le Z.to_nat rz); [|eapply stair_sorted; eauto]. intros x y _ _ Hxy. unfold Nat.le. lia.
  - intros Hlen j Hj. assert (Hne : l <> []) by (destruct l; [cbn in Hlen; lia | discriminate]).
    pose proof (spreadZ_last K l p (length l) eq_refl Hne ltac:(unfold p; lia)) as Hlast. fold rz in Hlast.
    pose proof (stair_surj rz p Hst (Z.of_nat j) ltac:(unfold p, K in *; lia)) as Hin.
    apply (in_map Z.to_nat) in Hin. now rewrite Nat2Z.id in Hin.
Qed.

(** ... and it is the identity on sorted labels that already use every label of the chromosome *)
Lemma spread_id (k0 n : nat) (l : list nat) : 1 <= n -> Forall (fun j => k0 <= j < k0 + n) l -> StronglySorted Nat.le l ->
  (forall j, k0 <= j < k0 + n -> In j l) ->
  spread_loop (Z.of_nat (k0 + n)) (Some (Z.of_nat (k0 + n) - Z.of_nat n - 1)%Z) (length l) (map Some l) = map Some l.
Proof.
  intros Hn HF S Hall. set (K := Z.of_nat (k0 + n)). set (p := (K - Z.of_nat n - 1)%Z).
  assert (Hst : stair p (map Z.of_nat l)).
  { apply (full_sorted_stair K); [unfold p, K; lia | exact S | |].
    - eapply Forall_impl; [|exact HF]. cbn. unfold p, K. intros; lia.
    - intros j Hj. apply Hall. unfold p, K in Hj. lia. }
  rewrite spread_loop_some, (spreadZ_id K l p (length l) eq_refl Hst).
  - rewrite map_map. apply map_ext. intros x. now rewrite Nat2Z.id.
  - apply (stair_in_le_last _ _ _ Hst). replace (K - 1)%Z with (Z.of_nat (k0 + n - 1)) by (unfold K; lia).
    apply in_map. apply Hall. lia.
  - intros x Hx. rewrite Forall_forall in HF. specialize (HF x Hx). unfold K. lia.
Qed.

Local Open Scope nat_scope.
(** * C. the whole genome: chromosomes tile the marker array *)
Lemma slice_app_mid {A} (pre c X : list A) : slice (length pre) (length pre + length c) (pre ++ c ++ X) = c.
Proof.
  unfold slice. replace (length pre + length c - length pre) with (length c) by lia.
  rewrite skipn_app, Nat.sub_diag, skipn_all. cbn [skipn app]. rewrite firstn_app, Nat.sub_diag, firstn_all. cbn [firstn]. now rewrite app_nil_r.
Qed.
Lemma write_app_mid {A} (done mid X lab : list A) :
  write (length done) (length done + length mid) lab (done ++ mid ++ X) = done ++ lab ++ X.
Proof.
  unfold write. rewrite firstn_app, Nat.sub_diag, firstn_all. cbn [firstn]. rewrite app_nil_r. f_equal. f_equal.
  rewrite skipn_app. rewrite skipn_all2 by lia. cbn [app].
  replace (length done + length mid - length done) with (length mid) by lia.
  rewrite skipn_app, Nat.sub_diag, skipn_all. reflexivity.
Qed.
Lemma slice_app_mid' {A} (pre c X : list A) a b : a = length pre -> b = a + length c -> slice a b (pre ++ c ++ X) = c.
Proof. intros -> ->. apply slice_app_mid. Qed.
Lemma write_app_mid' {A} (done mid X lab : list A) a b : a = length done -> b = a + length mid ->
  write a b lab (done ++ mid ++ X) = done ++ lab ++ X.
Proof. intros -> ->. apply write_app_mid. Qed.
Lemma nth_app_hd {A} (pre c X : list A) d : c <> [] -> nth (length pre) (pre ++ c ++ X) d = hd d c.
Proof. intros H. rewrite app_nth2, Nat.sub_diag by lia. destruct c; [congruence|reflexivity]. Qed.
Lemma nth_last {A} (c : list A) d : c <> [] -> nth (length c - 1) c d = last c d.
Proof.
  induction c as [|a c IH]; [congruence|]. intros _. destruct c as [|b c']; [reflexivity|].
  specialize (IH ltac:(discriminate)).
  change (last (a :: b :: c') d) with (last (b :: c') d). rewrite <- IH.
  replace (length (a :: b :: c') - 1) with (S (length (b :: c') - 1)) by (cbn [length]; lia).
  reflexivity.
Qed.
Lemma nth_app_last {A} (pre c X : list A) d : c <> [] -> nth (length pre + length c - 1) (pre ++ c ++ X) d = last c d.
Proof.
  intros H. assert (0 < length c) by (destruct c; [congruence|cbn; lia]).
  rewrite app_nth2 by lia. replace (length pre + length c - 1 - length pre) with (length c - 1) by lia.
  rewrite app_nth1 by lia. now apply nth_last.
Qed.
Lemma map2_repeat_r {A B C} (f : A -> B -> C) (l : list A) (b : B) : map2 f l (repeat b (length l)) = map (fun x => f x b) l.
Proof. induction l as [|x l IH]; cbn; [reflexivity|]. now rewrite IH. Qed.

Fixpoint starts_from (a : nat) (lens : list nat) : list nat := match lens with [] => [] | l :: r => a :: starts_from (a + l) r end.
Fixpoint stops_from (a : nat) (lens : list nat) : list nat := match lens with [] => [] | l :: r => (a + l) :: stops_from (a + l) r end.

Section Genome.
Context {T : Type} (O : ops T).
Notation z := (o_ofn O 0).

(** equal-width bin labels of one chromosome [c] with [n] blocks, the first of which is numbered [k] *)
Definition chrom_labels (k n : nat) (c : list T) : list (option nat) :=
  map (fun x => bin_label O (linspace O (hd z c) (last c z) n) x k None) c.
(** ... followed by the repair pass: the labels haplobin returns for the chromosome *)
Definition chrom_fix (k n : nat) (c : list T) : list (option nat) :=
  spread_loop (Z.of_nat (k + n)) (Some (Z.of_nat (k + n) - Z.of_nat n - 1)%Z) (length c) (chrom_labels k n c).
Fixpoint labels_from (k : nat) (nblk : list nat) (chrs : list (list T)) : list (list (option nat)) :=
  match nblk, chrs with
  | n :: nb, c :: cs => chrom_fix k n c :: labels_from (k + n) nb cs
  | _, _ => []
  end.

Lemma chrom_labels_length k n c : length (chrom_labels k n c) = length c.
Proof. unfold chrom_labels. apply map_length. Qed.
Lemma chrom_fix_length k n c : length (chrom_fix k n c) = length c.
Proof. unfold chrom_fix. now rewrite spread_loop_length, chrom_labels_length. Qed.

Lemma haplobin_loop_tiled : forall (chrs : list (list T)) (nblk : list nat) (pre : list T) (done : list (option nat)) (k : nat),
  length nblk = length chrs -> Forall (fun c => c <> []) chrs -> length done = length pre ->
  haplobin_loop O (pre ++ concat chrs)
    (combine nblk (combine (starts_from (length pre) (map (@length T) chrs)) (stops_from (length pre) (map (@length T) chrs))))
    k (done ++ repeat None (length (concat chrs)))
  = done ++ concat (labels_from k nblk chrs).
Proof.
  induction chrs as [|c cs IH]; intros nblk pre done k HL HN HD.
  - destruct nblk; [|discriminate]. cbn. reflexivity.
  - destruct nblk as [|n nb]; [discriminate|]. apply Forall_cons_iff in HN as [Hc HN].
    cbn [map starts_from stops_from combine haplobin_loop concat labels_from].
    rewrite app_length, repeat_app.
    rewrite (nth_app_hd pre c (concat cs) z Hc), (nth_app_last pre c (concat cs) z Hc).
    rewrite (slice_app_mid pre c (concat cs)).
    rewrite (slice_app_mid' done (repeat None (length c)) _ (length pre) (length pre + length c)) by (rewrite ?repeat_length; lia).
    rewrite map2_repeat_r. fold (chrom_labels k n c).
    unfold spread. replace (length pre + length c - length pre) with (length c) by lia. fold (chrom_fix k n c).
    rewrite (write_app_mid' done (repeat None (length c)) _ _ (length pre) (length pre + length c)) by (rewrite ?repeat_length; lia).
    replace (pre ++ c ++ concat cs) with ((pre ++ c) ++ concat cs) by now rewrite app_assoc.
    replace (done ++ chrom_fix k n c ++ repeat None (length (concat cs))) with ((done ++ chrom_fix k n c) ++ repeat None (length (concat cs))) by now rewrite app_assoc.
    replace (length pre + length c) with (length (pre ++ c)) by (rewrite app_length; lia).
    rewrite IH; [now rewrite <- app_assoc | cbn in HL; lia | exact HN | rewrite !app_length, chrom_fix_length; lia].
Qed.

(** for chromosome groups that tile the marker array, haplobin is the concatenation of the per-chromosome labels *)
Lemma haplobin_tiled (chrs : list (list T)) (nblk : list nat) :
  length nblk = length chrs -> Forall (fun c => c <> []) chrs ->
  haplobin O nblk (concat chrs) (starts_from 0 (map (@length T) chrs)) (stops_from 0 (map (@length T) chrs))
  = concat (labels_from 0 nblk chrs).
Proof. intros HL HN. unfold haplobin. apply (haplobin_loop_tiled chrs nblk [] [] 0 HL HN eq_refl). Qed.

(** ** the FORMER code of haplobin (before the repair pass was added), kept as a regression witness: the bare
    equal-width bin labels *)
Fixpoint old_haplobin_loop (gp : list T) (chroms : list (nat * (nat * nat))) (k : nat) (out : list (option nat))
  : list (option nat) :=
  match chroms with
  | [] => out
  | (nhap, (st, sp)) :: rest =>
      let hb := linspace O (nth st gp z) (nth (sp - 1) gp z) nhap in
      let lab := map2 (fun x cur => bin_label O hb x k cur) (slice st sp gp) (slice st sp out) in
      old_haplobin_loop gp rest (k + nhap) (write st sp lab out)
  end.
Definition old_haplobin (nblk : list nat) (gp : list T) (stix spix : list nat) : list (option nat) :=
  old_haplobin_loop gp (combine nblk (combine stix spix)) 0 (repeat None (length gp)).
Fixpoint old_labels_from (k : nat) (nblk : list nat) (chrs : list (list T)) : list (list (option nat)) :=
  match nblk, chrs with
  | n :: nb, c :: cs => chrom_labels k n c :: old_labels_from (k + n) nb cs
  | _, _ => []
  end.

Lemma old_haplobin_loop_tiled : forall (chrs : list (list T)) (nblk : list nat) (pre : list T) (done : list (option nat)) (k : nat),
  length nblk = length chrs -> Forall (fun c => c <> []) chrs -> length done = length pre ->
  old_haplobin_loop (pre ++ concat chrs)
    (combine nblk (combine (starts_from (length pre) (map (@length T) chrs)) (stops_from (length pre) (map (@length T) chrs))))
    k (done ++ repeat None (length (concat chrs)))
  = done ++ concat (old_labels_from k nblk chrs).
Proof.
  induction chrs as [|c cs IH]; intros nblk pre done k HL HN HD.
  - destruct nblk; [|discriminate]. cbn. reflexivity.
  - destruct nblk as [|n nb]; [discriminate|]. apply Forall_cons_iff in HN as [Hc HN].
    cbn [map starts_from stops_from combine old_haplobin_loop concat old_labels_from].
    rewrite app_length, repeat_app.
    rewrite (nth_app_hd pre c (concat cs) z Hc), (nth_app_last pre c (concat cs) z Hc).
    rewrite (slice_app_mid pre c (concat cs)).
    rewrite (slice_app_mid' done (repeat None (length c)) _ (length pre) (length pre + length c)) by (rewrite ?repeat_length; lia).
    rewrite map2_repeat_r. fold (chrom_labels k n c).
    rewrite (write_app_mid' done (repeat None (length c)) _ _ (length pre) (length pre + length c)) by (rewrite ?repeat_length; lia).
    replace (pre ++ c ++ concat cs) with ((pre ++ c) ++ concat cs) by now rewrite app_assoc.
    replace (done ++ chrom_labels k n c ++ repeat None (length (concat cs))) with ((done ++ chrom_labels k n c) ++ repeat None (length (concat cs))) by now rewrite app_assoc.
    replace (length pre + length c) with (length (pre ++ c)) by (rewrite app_length; lia).
    rewrite IH; [now rewrite <- app_assoc | cbn in HL; lia | exact HN | rewrite !app_length, chrom_labels_length; lia].
Qed.
Lemma old_haplobin_tiled (chrs : list (list T)) (nblk : list nat) :
  length nblk = length chrs -> Forall (fun c => c <> []) chrs ->
  old_haplobin nblk (concat chrs) (starts_from 0 (map (@length T) chrs)) (stops_from 0 (map (@length T) chrs))
  = concat (old_labels_from 0 nblk chrs).
Proof. intros HL HN. unfold old_haplobin. apply (old_haplobin_loop_tiled chrs nblk [] [] 0 HL HN eq_refl). Qed.
End Genome.

Definition offset (nblk : list nat) (c : nat) : nat := list_sum (firstn c nblk).
Fixpoint ranges (k : nat) (nblk : list nat) (labs : list (list nat)) : Prop :=
  match nblk, labs with
  | n :: nb, l :: ls => Forall (fun j => k <= j < k + n) l /\ ranges (k + n) nb ls
  | [], [] => True
  | _, _ => False
  end.
Lemma ranges_lower : forall nblk labs k, ranges k nblk labs -> Forall (fun j => k <= j) (concat labs).
Proof.
  induction nblk as [|n nb IH]; intros [|l ls] k H; cbn in H; try contradiction; [constructor|].
  destruct H as [H1 H2]. cbn [concat]. apply Forall_app. split.
  - eapply Forall_impl; [|exact H1]. cbn. intros; lia.
  - eapply Forall_impl; [|apply (IH _ _ H2)]. cbn. intros; lia.
Qed.
Lemma offset_0 nblk : offset nblk 0 = 0.
Proof. reflexivity. Qed.
Lemma offset_S n nb c : offset (n :: nb) (S c) = n + offset nb c.
Proof. reflexivity. Qed.
Lemma ranges_nth : forall nblk labs k c l, ranges k nblk labs -> nth_error labs c = Some l ->
  Forall (fun j => k + offset nblk c <= j < k + offset nblk (S c)) l.
Proof.
  induction nblk as [|n nb IH]; intros [|l0 ls] k c l H E; cbn in H; try contradiction.
  - destruct c; discriminate.
  - destruct H as [H1 H2]. destruct c as [|c]; cbn in E.
    + injection E as <-. rewrite offset_0, offset_S, offset_0. eapply Forall_impl; [|exact H1]. cbn. intros; lia.
    + specialize (IH ls (k + n) c l H2 E). rewrite !offset_S.
      eapply Forall_impl; [|exact IH]. cbn beta. intros a Ha. lia.
Qed.

Lemma Forall2_len {A B} (R : A -> B -> Prop) l1 l2 : Forall2 R l1 l2 -> length l1 = length l2.
Proof. induction 1; cbn; congruence. Qed.

(** * C2. what the repair pass guarantees for ANY number type and ANY comparison: whenever every marker is labelled,
      the labels of a chromosome form a staircase over the chromosome's label range *)
Lemma concat_map_Some_split {A} : forall (L : list (list (option A))) (lab : list A), concat L = map Some lab ->
  exists labs, L = map (map Some) labs /\ lab = concat labs.
Proof.
  induction L as [|l L IH]; intros lab H; cbn [concat] in H.
  - destruct lab; [|discriminate]. exists []. split; reflexivity.
  - symmetry in H. apply map_eq_app in H as (l1 & l2 & -> & E1 & E2). symmetry in E2. destruct (IH l2 E2) as (labs & -> & ->).
    exists (l1 :: labs). cbn [map concat]. now rewrite E1.
Qed.

Section GenomeAny.
Context {T : Type} (O : ops T).
Notation z := (o_ofn O 0).

Lemma linspace_length lo hi n : length (linspace O lo hi n) = S n.
Proof. unfold linspace. rewrite app_length, map_length, seq_length. cbn. lia. Qed.
Lemma linspace_last lo hi n d : last (linspace O lo hi n) d = hi.
Proof. unfold linspace. apply last_last. Qed.

(** a label written by the bins of chromosome (k, n) lies in k .. k+n-1 *)
Lemma chrom_labels_range (k n : nat) (c : list T) (l : list nat) : chrom_labels O k n c = map Some l ->
  Forall (fun j => k <= j < k + n) l.
Proof.
  unfold chrom_labels. revert l. generalize (linspace_length (hd z c) (last c z) n). generalize (linspace O (hd z c) (last c z) n). intros hb Lhb.
  induction c as [|x c IH]; intros [|j l] H; cbn [map] in H; try discriminate; constructor.
  - injection H as H _. destruct (bin_label_range O hb x k None) as [E|(j' & E & R)]; rewrite E in H; [discriminate|].
    injection H as <-. rewrite Lhb in R. lia.
  - apply IH. now injection H.
Qed.

Lemma chrom_fix_any (k n : nat) (c : list T) (r : list nat) : 1 <= n -> chrom_fix O k n c = map Some r ->
  length r = length c /\ Forall (fun j => k <= j < k + n) r /\ StronglySorted Nat.le r
  /\ (n <= length c -> forall j, k <= j < k + n -> In j r).
Proof.
  intros Hn H. unfold chrom_fix in H. destruct (spread_loop_all_some _ _ _ _ _ H) as (l & El).
  pose proof (chrom_labels_range k n c l El) as Rl.
  assert (Ll : length l = length c) by (apply (f_equal (@length (option nat))) in El; rewrite chrom_labels_length, map_length in El; congruence).
  destruct (spread_spec k n l Hn Rl) as (r' & Er & Lr & Rr & Sr & Fr).
  rewrite El, <- Ll, Er in H. apply map_Some_inj in H. subst r'. rewrite <- Ll. repeat split; assumption.
Qed.

Lemma labels_from_any : forall (chrs : list (list T)) (nblk : list nat) (k : nat) (labs : list (list nat)),
  Forall (fun n => 1 <= n) nblk -> length nblk = length chrs -> labels_from O k nblk chrs = map (map Some) labs ->
  Forall2 (fun c l => length l = length c) chrs labs /\ ranges k nblk labs /\ StronglySorted Nat.le (concat labs)
  /\ (Forall2 (fun n c => n <= length c) nblk chrs -> forall j, k <= j < k + list_sum nblk -> In j (concat labs)).
Proof.
  induction chrs as [|c cs IH]; intros nblk k labs H1 HL E.
  - destruct nblk; [|discriminate]. destruct labs; [|discriminate]. cbn. repeat split; try constructor. intros _ j Hj. lia.
  - destruct nblk as [|n nb]; [discriminate|]. cbn [labels_from] in E. destruct labs as [|l ls]; [discriminate|]. cbn [map] in E.
    injection E as El Els. apply Forall_cons_iff in H1 as [Hn H1].
    destruct (chrom_fix_any k n c l Hn El) as (Ll & Rl & Sl & Fl).
    destruct (IH nb (k + n) ls H1 ltac:(cbn in HL; lia) Els) as (Lls & Rls & Sls & Fls).
    pose proof (ranges_lower _ _ _ Rls) as Lo.
    split; [constructor; assumption|]. split; [split; assumption|]. split.
    + cbn [concat]. apply ss_app; [assumption|assumption|]. intros x y Hx Hy.
      rewrite Forall_forall in Rl. specialize (Rl x Hx). rewrite Forall_forall in Lo. specialize (Lo y Hy). cbn in Lo. unfold Nat.le. lia.
    + intros Hlen j Hj. inversion Hlen as [|? ? ? ? Hnc Hlen']; subst. cbn [concat]. apply in_or_app.
      change (list_sum (n :: nb)) with (n + list_sum nb) in Hj.
      destruct (Nat.lt_ge_cases j (k + n)) as [Lt|Ge]; [left; apply (Fl Hnc); lia | right; apply (Fls Hlen'); lia].
Qed.

(** haplobin on a genome whose chromosome groups tile the markers, for any number type: IF every marker is labelled,
    the labels are non-decreasing, those of chromosome c lie in its label range, and every requested label is used
    when no chromosome has fewer markers than blocks *)
Lemma haplobin_any_spec (chrs : list (list T)) (nblk : list nat) (lab : list nat) :
  length nblk = length chrs -> Forall (fun c => c <> []) chrs -> Forall (fun n => 1 <= n) nblk ->
  haplobin O nblk (concat chrs) (starts_from 0 (map (@length T) chrs)) (stops_from 0 (map (@length T) chrs)) = map Some lab ->
  exists labs : list (list nat), lab = concat labs
    /\ Forall2 (fun c l => length l = length c) chrs labs
    /\ (forall c l, nth_error labs c = Some l -> Forall (fun j => offset nblk c <= j < offset nblk (S c)) l)
    /\ StronglySorted Nat.le lab
    /\ (Forall2 (fun n c => n <= length c) nblk chrs -> forall j, j < list_sum nblk -> In j lab).
Proof.
  intros HL Hne H1 H. rewrite haplobin_tiled in H by assumption.
  destruct (concat_map_Some_split _ _ H) as (labs & E & ->).
  destruct (labels_from_any chrs nblk 0 labs H1 HL E) as (L & R & S & Fu).
  exists labs. split; [reflexivity|]. split; [exact L|]. split; [|split; [exact S|]].
  - intros c l Hl. pose proof (ranges_nth _ _ _ _ _ R Hl) as F. eapply Forall_impl; [|exact F]. cbn. intros; lia.
  - intros Hlen j Hj. apply (Fu Hlen). lia.
Qed.
End GenomeAny.

Section GenomeOrder.
Context {T : Type} (O : ops T) (ok : T -> Prop).
Hypothesis leb_total : forall x y, ok x -> ok y -> o_leb O x y = true \/ o_leb O y x = true.
Hypothesis leb_trans : forall x y z, ok x -> ok y -> ok z -> o_leb O x y = true -> o_leb O y z = true -> o_leb O x z = true.
Notation le := (fun x y => o_leb O x y = true).
Notation z := (o_ofn O 0).

(** a valid chromosome: at least one marker, positions are proper numbers, sorted *)
Definition chrom_ok (c : list T) : Prop := c <> [] /\ Forall ok c /\ StronglySorted le c.
(** what the theorems need of the boundaries linspace(first, last, n+1): proper numbers, the first boundary is
    not above the first marker (the last boundary IS the last marker, by the code of linspace) *)
Definition bounds_ok (n : nat) (c : list T) : Prop :=
  Forall ok (linspace O (hd z c) (last c z) n) /\ o_leb O (hd z (linspace O (hd z c) (last c z) n)) (hd z c) = true.


Lemma chrom_labels_spec (k n : nat) (c : list T) : 1 <= n -> chrom_ok c -> bounds_ok n c ->
  exists l : list nat, chrom_labels O k n c = map Some l /\ length l = length c
                       /\ Forall (fun j => k <= j < k + n) l /\ StronglySorted Nat.le l.
Proof.
  intros Hn (Hne & Hok & Hs) (Hb & Hfirst).
  set (hb := linspace O (hd z c) (last c z) n) in *.
  assert (Hrefl : forall x, In x c -> o_leb O x x = true).
  { intros x Hx. rewrite Forall_forall in Hok. apply (le_refl O ok leb_total). now apply Hok. }
  assert (Hhd : ok (hd z hb)).
  { rewrite Forall_forall in Hb. apply Hb. unfold hb, linspace. destruct n; [lia|]. cbn. now left. }
  assert (Hcov : forall x, In x c -> exists j, bin_label O hb x k None = Some j /\ k <= j < k + n).
  { intros x Hx. assert (Hokx : ok x) by (rewrite Forall_forall in Hok; now apply Hok).
    destruct (bin_label_cover O ok leb_total z hb x Hb Hokx) with (k := k) (acc := @None nat) as (j & E & R).
    - unfold hb. rewrite linspace_length. lia.
    - apply (leb_trans _ (hd z c) _ Hhd); [|exact Hokx|exact Hfirst|].
      + rewrite Forall_forall in Hok. apply Hok. destruct c; [congruence|now left].
      + apply (ss_hd le z c Hrefl Hs x Hx).
    - unfold hb. rewrite linspace_last. apply (ss_last le z c Hrefl Hs x Hx).
    - exists j. split; [exact E|]. unfold hb in R. rewrite linspace_length in R. lia. }
  set (lab := fun x => match bin_label O hb x k None with Some j => j | None => 0 end).
  exists (map lab c). split; [|split; [|split]].
  - unfold chrom_labels. fold hb. rewrite map_map. apply map_ext_in. intros x Hx. unfold lab.
    destruct (Hcov x Hx) as (j & -> & _). reflexivity.
  - apply map_length.
  - apply Forall_forall. intros j Hj. apply in_map_iff in Hj as (x & <- & Hx). unfold lab.
    destruct (Hcov x Hx) as (j & -> & R). exact R.
  - apply (ss_map le Nat.le lab c); [|exact Hs]. intros x y Hx Hy Hxy. unfold lab.
    destruct (Hcov x Hx) as (jx & Ex & Rx). rewrite Ex.
    assert (Hokx : ok x) by (rewrite Forall_forall in Hok; now apply Hok).
    assert (Hoky : ok y) by (rewrite Forall_forall in Hok; now apply Hok).
    destruct (bin_label_mono O ok leb_total leb_trans z hb x y Hb Hokx Hoky Hxy) with (k := k) (accx := @None nat) (accy := @None nat) (jx := jx) as (jy & Ey & Le).
    + unfold hb. rewrite linspace_last. apply (ss_last le z c Hrefl Hs y Hy).
    + discriminate.
    + exact Ex.
    + lia.
    + rewrite Ey. exact Le.
Qed.

(** under the ordering hypotheses every marker is labelled, so the repair pass returns written labels *)
Lemma chrom_fix_some (k n : nat) (c : list T) : 1 <= n -> chrom_ok c -> bounds_ok n c ->
  exists r : list nat, chrom_fix O k n c = map Some r.
Proof.
  intros Hn Hc Hb. destruct (chrom_labels_spec k n c Hn Hc Hb) as (l & El & Ll & Rl & _).
  destruct (spread_spec k n l Hn Rl) as (r & Er & _). exists r. unfold chrom_fix. rewrite El.
  rewrite <- Ll, <- Er. reflexivity.
Qed.

Lemma labels_from_some : forall (chrs : list (list T)) (nblk : list nat) (k : nat),
  Forall (fun n => 1 <= n) nblk -> Forall chrom_ok chrs -> Forall2 bounds_ok nblk chrs ->
  exists labs : list (list nat), labels_from O k nblk chrs = map (map Some) labs.
Proof.
  induction chrs as [|c cs IH]; intros nblk k H1 Hc Hb.
  - inversion Hb; subst. exists []. reflexivity.
  - inversion Hb as [|n c' nb cs' Hbc Hb']; subst. apply Forall_cons_iff in H1 as [Hn H1]. apply Forall_cons_iff in Hc as [Hc0 Hc].
    destruct (chrom_fix_some k n c Hn Hc0 Hbc) as (l & El). destruct (IH nb (k + n) H1 Hc Hb') as (ls & Els).
    exists (l :: ls). cbn [labels_from map]. now rewrite El, Els.
Qed.

(** haplobin on a genome whose chromosome groups tile the markers: every marker is labelled exactly once, inside the
    label range of its chromosome, labels non-decreasing; every requested label is used when no chromosome has fewer
    markers than blocks *)
Lemma haplobin_spec (chrs : list (list T)) (nblk : list nat) :
  Forall (fun n => 1 <= n) nblk -> Forall chrom_ok chrs -> Forall2 bounds_ok nblk chrs ->
  exists labs : list (list nat),
    haplobin O nblk (concat chrs) (starts_from 0 (map (@length T) chrs)) (stops_from 0 (map (@length T) chrs)) = map Some (concat labs)
    /\ Forall2 (fun c l => length l = length c) chrs labs
    /\ (forall c l, nth_error labs c = Some l -> Forall (fun j => offset nblk c <= j < offset nblk (S c)) l)
    /\ StronglySorted Nat.le (concat labs)
    /\ (Forall2 (fun n c => n <= length c) nblk chrs -> forall j, j < list_sum nblk -> In j (concat labs)).
Proof.
  intros H1 Hc Hb. destruct (labels_from_some chrs nblk 0 H1 Hc Hb) as (labs & E).
  assert (HL : length nblk = length chrs) by now apply Forall2_len in Hb.
  destruct (labels_from_any O chrs nblk 0 labs H1 HL E) as (L & R & S & Fu).
  exists labs. split; [|split; [exact L|split; [|split; [exact S|]]]].
  - rewrite haplobin_tiled.
    + rewrite E. now rewrite concat_map.
    + exact HL.
    + eapply Forall_impl; [|exact Hc]. intros c (H & _). exact H.
  - intros c l Hl. pose proof (ranges_nth _ _ _ _ _ R Hl) as F. eapply Forall_impl; [|exact F]. cbn. intros; lia.
  - intros Hlen j Hj. apply (Fu Hlen). lia.
Qed.
End GenomeOrder.

(** * D. haplobin_bounds: the run-length boundaries partition 0..p into non-empty runs of constant label *)
(** consecutive (start, stop) pairs leading from [a] to [b], every one non-empty *)
Fixpoint chain (a : nat) (bs : list (nat * nat)) (b : nat) : Prop :=
  match bs with
  | [] => a = b
  | (st, sp) :: r => st = a /\ st < sp /\ chain sp r b
  end.

Lemma breaks_bounds : forall (l : list nat) prev i, Forall (fun b => i <= b < i + length l) (breaks prev l i).
Proof.
  induction l as [|x r IH]; intros prev i; cbn [breaks length]; [constructor|].
  destruct (x =? prev).
  - eapply Forall_impl; [|apply IH]. cbn. intros; lia.
  - constructor; [lia|]. eapply Forall_impl; [|apply IH]. cbn. intros; lia.
Qed.

(** pairs (a, b1), (b1, b2), ..., (bk, e) *)
Fixpoint pairs_from (a : nat) (bk : list nat) (e : nat) : list (nat * nat) :=
  match bk with [] => [(a, e)] | b :: r => (a, b) :: pairs_from b r e end.
Lemma combine_breaks : forall bk a e, combine (a :: bk) (bk ++ [e]) = pairs_from a bk e.
Proof. induction bk as [|b r IH]; intros a e; cbn; [reflexivity|]. f_equal. apply IH. Qed.

Lemma breaks_chain : forall (l : list nat) prev i a, a < i ->
  chain a (pairs_from a (breaks prev l i) (i + length l)) (i + length l).
Proof.
  induction l as [|x r IH]; intros prev i a Ha; cbn [breaks length].
  - cbn. repeat split; lia.
  - destruct (x =? prev).
    + replace (i + S (length r)) with (S i + length r) by lia. apply IH. lia.
    + cbn [pairs_from chain]. repeat split; [lia|]. replace (i + S (length r)) with (S i + length r) by lia. apply IH. lia.
Qed.

(** the runs are a run-length encoding of the labels: every run carries one label ([run_vals]), adjacent runs
    carry different labels, and decoding gives the label array back *)
Fixpoint run_vals (prev : nat) (l : list nat) : list nat :=
  match l with [] => [] | x :: r => if x =? prev then run_vals prev r else x :: run_vals x r end.
Definition decode (bs : list (nat * nat)) (vs : list nat) : list nat :=
  concat (map2 (fun b v => repeat v (snd b - fst b)) bs vs).
Fixpoint adjacent_differ (l : list nat) : Prop :=
  match l with a :: r => match r with b :: _ => a <> b /\ adjacent_differ r | [] => True end | [] => True end.

Lemma repeat_snoc {A} (x : A) n : repeat x n ++ [x] = repeat x (S n).
Proof. induction n as [|n IH]; cbn; [reflexivity|]. now rewrite IH. Qed.

Lemma breaks_decode : forall (l : list nat) prev i a, a < i ->
  decode (pairs_from a (breaks prev l i) (i + length l)) (prev :: run_vals prev l) = repeat prev (i - a) ++ l.
Proof.
  induction l as [|x r IH]; intros prev i a Ha; cbn [breaks run_vals length].
  - unfold decode. cbn. rewrite !app_nil_r. f_equal. lia.
  - destruct (Nat.eqb_spec x prev) as [->|NE].
    + replace (i + S (length r)) with (S i + length r) by lia. rewrite IH by lia.
      replace (S i - a) with (S (i - a)) by lia. rewrite <- repeat_snoc, <- app_assoc. reflexivity.
    + replace (i + S (length r)) with (S i + length r) by lia. unfold decode in *. cbn [pairs_from map2 concat fst snd].
      rewrite IH by lia. replace (S i - i) with 1 by lia. reflexivity.
Qed.

Lemma run_vals_adjacent : forall (l : list nat) prev, adjacent_differ (prev :: run_vals prev l).
Proof.
  induction l as [|x r IH]; intros prev; cbn [run_vals]; [exact I|].
  destruct (Nat.eqb_spec x prev) as [->|NE]; [apply IH|].
  split; [congruence | apply IH].
Qed.

Lemma breaks_run_vals_length : forall (l : list nat) prev i, length (breaks prev l i) = length (run_vals prev l).
Proof. induction l as [|x r IH]; intros prev i; cbn; [reflexivity|]. destruct (x =? prev); cbn; now rewrite IH. Qed.

Lemma haplobin_bounds_partition (lab : list nat) : lab <> [] ->
  exists hst hsp hlen vals, haplobin_bounds lab = Ok (hst, hsp, hlen) /\ length hst = length hsp /\ length vals = length hst
    /\ chain 0 (combine hst hsp) (length lab) /\ hlen = map2 Nat.sub hsp hst
    /\ decode (combine hst hsp) vals = lab /\ adjacent_differ vals.
Proof.
  destruct lab as [|x0 r]; [congruence|]. intros _. unfold haplobin_bounds.
  exists (0 :: breaks x0 r 1), (breaks x0 r 1 ++ [length (x0 :: r)]), (map2 Nat.sub (breaks x0 r 1 ++ [length (x0 :: r)]) (0 :: breaks x0 r 1)), (x0 :: run_vals x0 r).
  split; [reflexivity|]. split; [cbn [length]; rewrite app_length; cbn; lia|].
  split; [cbn [length]; now rewrite breaks_run_vals_length|]. split; [|split; [reflexivity|split]].
  - rewrite combine_breaks. cbn [length]. change (S (length r)) with (1 + length r). apply breaks_chain. lia.
  - rewrite combine_breaks. cbn [length]. change (S (length r)) with (1 + length r). rewrite breaks_decode by lia. reflexivity.
  - apply run_vals_adjacent.
Qed.

(** * E. block values: conservation and block-boundary recombinants *)
Local Open Scope Q_scope.
Lemma sumQ_app (a b : list Q) : sumQ (a ++ b) == sumQ a + sumQ b.
Proof. unfold sumQ. induction a as [|x a IH]; simpl; [ring | rewrite IH; ring]. Qed.
Lemma map2_app {A B C} (f : A -> B -> C) : forall (l1 l2 : list A) (r1 r2 : list B), length l1 = length r1 ->
  map2 f (l1 ++ l2) (r1 ++ r2) = map2 f l1 r1 ++ map2 f l2 r2.
Proof. induction l1 as [|x l1 IH]; intros l2 [|y r1] r2 H; cbn in *; try discriminate; [reflexivity|]. f_equal. apply IH. lia. Qed.
Lemma dotZQ_app (g1 g2 : list Z) (u1 u2 : list Q) : length g1 = length u1 ->
  dotZQ (g1 ++ g2) (u1 ++ u2) == dotZQ g1 u1 + dotZQ g2 u2.
Proof. intros H. unfold dotZQ. rewrite map2_app by exact H. apply sumQ_app. Qed.

Local Open Scope nat_scope.
Lemma firstn_add {A} : forall n m (l : list A), firstn (n + m) l = firstn n l ++ firstn m (skipn n l).
Proof. induction n as [|n IH]; intros m l; [reflexivity|]. destruct l as [|x l]; cbn; [now rewrite firstn_nil|]. f_equal. apply IH. Qed.
Lemma skipn_add {A} : forall m n (l : list A), skipn n (skipn m l) = skipn (m + n) l.
Proof. induction m as [|m IH]; intros n l; [reflexivity|]. destruct l as [|x l]; cbn [skipn plus]; [now rewrite skipn_nil|]. apply IH. Qed.
Lemma slice_split {A} (a b c : nat) (l : list A) : a <= b <= c -> slice a c l = slice a b l ++ slice b c l.
Proof.
  intros [H1 H2]. unfold slice. replace (c - a) with ((b - a) + (c - b)) by lia. rewrite firstn_add. f_equal.
  rewrite skipn_add. f_equal. f_equal. lia.
Qed.
Lemma slice_length {A} (a b : nat) (l : list A) : b <= length l -> length (slice a b l) = b - a.
Proof. intros H. unfold slice. rewrite firstn_length, skipn_length. lia. Qed.
Lemma slice_all {A} (l : list A) : slice 0 (length l) l = l.
Proof. unfold slice. rewrite Nat.sub_0_r. cbn [skipn]. apply firstn_all. Qed.
Lemma slice_nil {A} (a : nat) (l : list A) : slice a a l = [].
Proof. unfold slice. now rewrite Nat.sub_diag. Qed.
Lemma chain_le : forall bs a b, chain a bs b -> a <= b.
Proof. induction bs as [|[st sp] r IH]; intros a b H; cbn in H; [lia|]. destruct H as (-> & L & C). apply IH in C. lia. Qed.

(** the haplotype that takes block j (markers st_j..sp_j) from the copy [src j] *)
Fixpoint recomb (src : nat -> list Z) (j : nat) (bs : list (nat * nat)) : list Z :=
  match bs with [] => [] | (st, sp) :: r => slice st sp (src j) ++ recomb src (S j) r end.
Fixpoint block_sum (src : nat -> list Z) (ucol : list Q) (j : nat) (bs : list (nat * nat)) : Q :=
  match bs with [] => 0%Q | (st, sp) :: r => (block_val (src j) ucol st sp + block_sum src ucol (S j) r)%Q end.

Lemma recomb_value (src : nat -> list Z) (ucol : list Q) : forall bs a b j, chain a bs b -> b <= length ucol ->
  (forall j', j <= j' < j + length bs -> b <= length (src j')) ->
  (dotZQ (recomb src j bs) (slice a b ucol) == block_sum src ucol j bs)%Q.
Proof.
  induction bs as [|[st sp] r IH]; intros a b j C Hu Hs; cbn [chain recomb block_sum length] in *.
  - subst b. rewrite slice_nil. reflexivity.
  - destruct C as (-> & L & C). pose proof (chain_le _ _ _ C) as Lb.
    rewrite (slice_split a sp b) by lia. rewrite dotZQ_app.
    + rewrite (IH sp b (S j) C Hu); [reflexivity|]. intros j' Hj'. apply Hs. lia.
    + rewrite !slice_length; [reflexivity | lia | specialize (Hs j ltac:(lia)); lia].
Qed.

Lemma recomb_const (g : list Z) : forall bs a b j, chain a bs b -> recomb (fun _ => g) j bs = slice a b g.
Proof.
  induction bs as [|[st sp] r IH]; intros a b j C; cbn [chain recomb] in *.
  - subst. now rewrite slice_nil.
  - destruct C as (-> & L & C). pose proof (chain_le _ _ _ C). rewrite (IH sp b (S j) C). symmetry. apply slice_split. lia.
Qed.

(** conservation: over any partition of 0..p into runs the block values of a copy add up to its additive value *)
Lemma block_sum_conservation (g : list Z) (ucol : list Q) (bs : list (nat * nat)) (j : nat) :
  chain 0 bs (length g) -> length ucol = length g -> (block_sum (fun _ => g) ucol j bs == dotZQ g ucol)%Q.
Proof.
  intros C L. rewrite <- (recomb_value (fun _ => g) ucol bs 0 (length g) j C) by (intros; lia).
  rewrite (recomb_const g bs 0 (length g) j C). rewrite <- L at 2. now rewrite !slice_all.
Qed.

(** * F. optimal haploid / population value = ploidy * sum over blocks of the best designated copy *)
Lemma nth_map_seq {A} (f : nat -> A) n i d : i < n -> nth i (map f (seq 0 n)) d = f i.
Proof.
  intros H. rewrite (nth_indep _ d (f 0)) by (rewrite map_length, seq_length; lia).
  rewrite (map_nth f (seq 0 n) 0 i), seq_nth by lia. reflexivity.
Qed.

Local Open Scope Q_scope.
Lemma Qmax'_ub x y : x <= Qmax' x y /\ y <= Qmax' x y.
Proof.
  unfold Qmax'. destruct (Qle_bool x y) eqn:E.
  - apply Qle_bool_iff in E. split; [exact E | apply Qle_refl].
  - split; [apply Qle_refl|]. apply Qlt_le_weak, Qnot_le_lt. intros H. apply Qle_bool_iff in H. congruence.
Qed.
Lemma Qmax'_cases x y : Qmax' x y = x \/ Qmax' x y = y.
Proof. unfold Qmax'. destruct (Qle_bool x y); auto. Qed.

Lemma fold_omax_spec {C} (f : C -> option Q) : forall (r : list C) (q0 : Q), (forall c, In c r -> exists q, f c = Some q) ->
  exists M, fold_left (fun acc c' => omax acc (f c')) r (Some q0) = Some M /\ q0 <= M
            /\ (forall c q, In c r -> f c = Some q -> q <= M) /\ (M = q0 \/ exists c, In c r /\ f c = Some M).
Proof.
  induction r as [|c r IH]; intros q0 H; cbn [fold_left].
  - exists q0. split; [reflexivity|]. split; [apply Qle_refl|]. split; [intros ? ? []|now left].
  - destruct (H c (or_introl eq_refl)) as (q & Eq). rewrite Eq. cbn [omax].
    destruct (IH (Qmax' q0 q)) as (M & EM & L & U & A); [intros c' Hc'; apply H; now right|].
    destruct (Qmax'_ub q0 q) as [U0 U1].
    exists M. split; [exact EM|]. split; [eapply Qle_trans; eauto|]. split.
    + intros c' q' [<-|Hc'] E'; [rewrite Eq in E'; injection E' as <-; eapply Qle_trans; eauto | eapply U; eauto].
    + destruct A as [->|(c' & Hc' & E')].
      * destruct (Qmax'_cases q0 q) as [->| ->]; [now left | right; exists c; split; [now left | exact Eq]].
      * right. exists c'. split; [now right | exact E'].
Qed.

Definition bestv (cs : list cand_t) (b t : nat) : Q := match best cs b t with Some q => q | None => 0 end.

Lemma best_spec (cs : list cand_t) (b t : nat) : cs <> [] -> (forall c, In c cs -> exists q, ent c b t = Some q) ->
  best cs b t = Some (bestv cs b t) /\ (forall c q, In c cs -> ent c b t = Some q -> q <= bestv cs b t)
  /\ exists c, In c cs /\ ent c b t = Some (bestv cs b t).
Proof.
  destruct cs as [|c0 r]; [congruence|]. intros _ H. unfold bestv, best.
  destruct (H c0 (or_introl eq_refl)) as (q0 & E0). rewrite E0.
  destruct (fold_omax_spec (fun c' => ent c' b t) r q0) as (M & EM & L & U & A); [intros c Hc; apply H; now right|].
  rewrite EM. split; [reflexivity|]. split.
  - intros c q [<-|Hc] E; [rewrite E0 in E; injection E as <-; exact L | eapply U; eauto].
  - destruct A as [->|(c & Hc & E)]; [exists c0; split; [now left|exact E0] | exists c; split; [now right|exact E]].
Qed.

Lemma osum_map_some (F : nat -> option Q) (V : nat -> Q) : forall l, (forall b, In b l -> F b = Some (V b)) ->
  osum (map F l) = Some (sumQ (map V l)).
Proof.
  induction l as [|b l IH]; intros H; [reflexivity|]. cbn [map osum fold_right]. fold (osum (map F l)).
  rewrite IH by (intros; apply H; now right). rewrite (H b (or_introl eq_refl)). reflexivity.
Qed.
Lemma sumQ_map_le (v w : nat -> Q) : forall l, (forall b, In b l -> v b <= w b) -> sumQ (map v l) <= sumQ (map w l).
Proof.
  induction l as [|b l IH]; intros H; [apply Qle_refl|]. cbn [map sumQ fold_right]. fold (sumQ (map v l)) (sumQ (map w l)).
  apply Qplus_le_compat; [apply H; now left | apply IH; intros; apply H; now right].
Qed.
Lemma sumQ_map_eq (v w : nat -> Q) : forall l, (forall b, In b l -> v b == w b) -> sumQ (map v l) == sumQ (map w l).
Proof.
  induction l as [|b l IH]; intros H; [reflexivity|]. cbn [map sumQ fold_right]. fold (sumQ (map v l)) (sumQ (map w l)).
  rewrite (H b (or_introl eq_refl)), IH; [reflexivity | intros; apply H; now right].
Qed.

(** definition of the optimal haploid value of a parent tuple, trait t *)
Lemma ohv_row_def (ploidy : Z) (nb nt : nat) (cs : list cand_t) (t : nat) : (t < nt)%nat -> cs <> [] ->
  (forall c b, In c cs -> (b < nb)%nat -> exists q, ent c b t = Some q) ->
  nth t (ohv_row ploidy nb nt cs) None = Some (inject_Z ploidy * sumQ (map (fun b => bestv cs b t) (seq 0 nb)))
  /\ forall b, (b < nb)%nat -> (forall c q, In c cs -> ent c b t = Some q -> q <= bestv cs b t)
                              /\ exists c, In c cs /\ ent c b t = Some (bestv cs b t).
Proof.
  intros Ht Hne H. split.
  - unfold ohv_row. rewrite nth_map_seq by exact Ht.
    rewrite (osum_map_some (fun b => best cs b t) (fun b => bestv cs b t)); [reflexivity|].
    intros b Hb. apply in_seq in Hb. apply best_spec; [exact Hne|]. intros c Hc. apply (H c b Hc). lia.
  - intros b Hb. destruct (best_spec cs b t Hne) as (_ & U & A); [intros c Hc; now apply H|]. split; assumption.
Qed.

(** no way of choosing one designated copy per block beats it *)
Lemma ohv_row_bound (ploidy : Z) (nb nt : nat) (cs : list cand_t) (t : nat) : (0 <= ploidy)%Z -> (t < nt)%nat -> cs <> [] ->
  (forall c b, In c cs -> (b < nb)%nat -> exists q, ent c b t = Some q) ->
  forall (ch : nat -> cand_t) (v : nat -> Q), (forall b, (b < nb)%nat -> In (ch b) cs /\ ent (ch b) b t = Some (v b)) ->
  inject_Z ploidy * sumQ (map v (seq 0 nb)) <= inject_Z ploidy * sumQ (map (fun b => bestv cs b t) (seq 0 nb)).
Proof.
  intros Hp Ht Hne H ch v Hch. rewrite !(Qmult_comm (inject_Z ploidy)). apply Qmult_le_compat_r.
  - apply sumQ_map_le. intros b Hb. apply in_seq in Hb. destruct (Hch b) as [Hin E]; [lia|].
    destruct (best_spec cs b t Hne) as (_ & U & _); [intros c Hc; apply (H c b Hc); lia|]. eapply U; eauto.
  - change 0 with (inject_Z 0). rewrite <- Zle_Qle. exact Hp.
Qed.

(** * G. the (m,n,b,t) array of haplomat / _calc_haplomat *)
Local Open Scope nat_scope.
Lemma ent_cand_of nhap nt u bounds g b t : b < nhap -> t < nt ->
  ent (cand_of nhap nt u bounds g) b t =
  match nth_error bounds b with Some (st, sp) => Some (block_val g (col 0%Q t u) st sp) | None => None end.
Proof. intros Hb Ht. unfold ent, cand_of. rewrite nth_map_seq by lia. rewrite nth_map_seq by lia. reflexivity. Qed.

Lemma block_sum_seq (src : nat -> list Z) (ucol : list Q) : forall bs j,
  (block_sum src ucol j bs == sumQ (map (fun i => let '(st, sp) := nth i bs (0%nat, 0%nat) in block_val (src (j + i)%nat) ucol st sp) (seq 0 (length bs))))%Q.
Proof.
  induction bs as [|[st sp] r IH]; intros j; cbn [block_sum length]; [reflexivity|].
  cbn [seq map]. rewrite <- seq_shift, map_map. cbn [sumQ fold_right nth].
  rewrite Nat.add_0_r. rewrite IH. unfold sumQ. apply Qplus_comp; [reflexivity|].
  apply sumQ_map_eq. intros i _. cbn [nth]. replace (j + S i) with (S j + i) by lia. reflexivity.
Qed.

(** the guard: as many runs as requested blocks => every entry is written *)
Lemma hmat_all_written nhap nt u bounds g b t : length bounds = nhap -> b < nhap -> t < nt ->
  exists q, ent (cand_of nhap nt u bounds g) b t = Some q.
Proof.
  intros L Hb Ht. rewrite ent_cand_of by assumption. destruct (nth_error bounds b) as [[st sp]|] eqn:E; [eauto|].
  apply nth_error_None in E. lia.
Qed.
(** fewer runs than requested blocks => block number [length bounds] is never written *)
Lemma hmat_unwritten nhap nt u bounds g t : length bounds < nhap -> t < nt ->
  ent (cand_of nhap nt u bounds g) (length bounds) t = None.
Proof.
  intros L Ht. rewrite ent_cand_of by assumption. destruct (nth_error bounds (length bounds)) eqn:E; [|reflexivity].
  assert (nth_error bounds (length bounds) <> None) by congruence. apply nth_error_Some in H. lia.
Qed.

Lemma hmat_conservation nhap nt u bounds (g : list Z) t : t < nt -> length bounds = nhap ->
  chain 0 bounds (length g) -> length u = length g ->
  exists s, osum (map (fun b => ent (cand_of nhap nt u bounds g) b t) (seq 0 nhap)) = Some s /\ (s == dotZQ g (col 0%Q t u))%Q.
Proof.
  intros Ht L C Lu.
  set (V := fun b => let '(st, sp) := nth b bounds (0, 0) in block_val g (col 0%Q t u) st sp).
  exists (sumQ (map V (seq 0 nhap))). split.
  - apply osum_map_some. intros b Hb. apply in_seq in Hb. rewrite ent_cand_of by lia.
    rewrite (nth_error_nth' bounds (0, 0)) by lia. unfold V. destruct (nth b bounds (0, 0)). reflexivity.
  - rewrite <- (block_sum_conservation g (col 0%Q t u) bounds 0 C) by (unfold col; now rewrite map_length).
    rewrite block_sum_seq, L. reflexivity.
Qed.

(** the chromosome copies designated by a parent tuple, and their rows of the array *)
Definition copies (geno : list (list (list Z))) (parents : list nat) : list (list Z) :=
  flat_map (fun phm => map (fun d => nth d phm []) parents) geno.
Lemma cands_hmat_of nhap nt geno u bounds parents :
  Forall (fun phm => Forall (fun d => d < length phm) parents) geno ->
  cands (hmat_of nhap nt geno u bounds) parents = map (cand_of nhap nt u bounds) (copies geno parents).
Proof.
  intros H. unfold cands, copies, hmat_of. induction H as [|phm geno Hp _ IH]; [reflexivity|].
  cbn [map flat_map]. rewrite map_app, IH. f_equal. rewrite map_map. apply map_ext_in. intros d Hd.
  rewrite Forall_forall in Hp. specialize (Hp d Hd).
  rewrite (nth_indep _ [] (cand_of nhap nt u bounds [])) by (now rewrite map_length). apply map_nth.
Qed.

(** the optimal haploid value bounds the value of every haplotype that recombines only at block boundaries *)
Lemma ohv_bounds_recombinants (ploidy : Z) nhap nt geno u bounds parents t p :
  (0 <= ploidy)%Z -> t < nt -> length bounds = nhap -> chain 0 bounds p -> length u = p ->
  Forall (fun phm => Forall (fun d => d < length phm) parents) geno -> copies geno parents <> [] ->
  Forall (fun g => length g = p) (copies geno parents) ->
  let cs := cands (hmat_of nhap nt geno u bounds) parents in
  exists V, nth t (ohv_row ploidy nhap nt cs) None = Some V
    /\ (V == inject_Z ploidy * sumQ (map (fun b => bestv cs b t) (seq 0 nhap)))%Q
    /\ (forall b, b < nhap -> (forall c q, In c cs -> ent c b t = Some q -> (q <= bestv cs b t)%Q)
                             /\ exists c, In c cs /\ ent c b t = Some (bestv cs b t))
    /\ forall src : nat -> list Z, (forall b, b < nhap -> In (src b) (copies geno parents)) ->
         (inject_Z ploidy * dotZQ (recomb src 0 bounds) (col 0%Q t u) <= V)%Q.
Proof.
  intros Hp Ht L C Lu Hpar Hne Hlen cs.
  assert (Ecs : cs = map (cand_of nhap nt u bounds) (copies geno parents)) by (apply cands_hmat_of; exact Hpar).
  assert (Hcs : cs <> []) by (rewrite Ecs; destruct (copies geno parents); [congruence|discriminate]).
  assert (Hall : forall c b, In c cs -> b < nhap -> exists q, ent c b t = Some q).
  { intros c b Hc Hb. rewrite Ecs in Hc. apply in_map_iff in Hc as (g & <- & _). now apply hmat_all_written. }
  destruct (ohv_row_def ploidy nhap nt cs t Ht Hcs Hall) as [Edef Hbest].
  eexists. split; [exact Edef|]. split; [reflexivity|]. split; [exact Hbest|].
  intros src Hsrc.
  set (v := fun b => let '(st, sp) := nth b bounds (0, 0) in block_val (src b) (col 0%Q t u) st sp).
  assert (Eval : (dotZQ (recomb src 0 bounds) (col 0%Q t u) == sumQ (map v (seq 0 nhap)))%Q).
  { assert (Lc : length (col 0%Q t u) = p) by (unfold col; now rewrite map_length).
    rewrite <- (slice_all (col 0%Q t u)) at 1. rewrite Lc.
    rewrite (recomb_value src (col 0%Q t u) bounds 0 p 0 C); [| lia |].
    - rewrite block_sum_seq, L. reflexivity.
    - intros j' Hj'. rewrite Forall_forall in Hlen. rewrite (Hlen (src j')); [lia|]. apply Hsrc. lia. }
  rewrite Eval.
  apply (ohv_row_bound ploidy nhap nt cs t Hp Ht Hcs Hall (fun b => cand_of nhap nt u bounds (src b)) v).
  intros b Hb. split.
  - rewrite Ecs. apply in_map. now apply Hsrc.
  - rewrite ent_cand_of by assumption. rewrite (nth_error_nth' bounds (0, 0)) by lia. unfold v. destruct (nth b bounds (0, 0)). reflexivity.
Qed.

(** * H. the exact-rational instance satisfies every hypothesis used above *)
Local Open Scope Q_scope.
Lemma q_leb_total (x y : Q) : True -> True -> o_leb qops x y = true \/ o_leb qops y x = true.
Proof.
  intros _ _. cbn. destruct (Qlt_le_dec x y) as [H|H]; [left; apply Qle_bool_iff, Qlt_le_weak, H | right; apply Qle_bool_iff, H].
Qed.
Lemma q_leb_trans (x y z : Q) : True -> True -> True -> o_leb qops x y = true -> o_leb qops y z = true -> o_leb qops x z = true.
Proof. intros _ _ _. cbn. rewrite !Qle_bool_iff. apply Qle_trans. Qed.

Lemma q_bounds_ok (n : nat) (c : list Q) : (1 <= n)%nat -> bounds_ok qops (fun _ => True) n c.
Proof.
  intros Hn. split; [apply Forall_forall; intros; exact I|].
  destruct n as [|n]; [lia|]. unfold linspace. cbn [seq map app hd]. cbn [o_leb o_eq0 o_add o_mul o_div o_ofn o_sub qops].
  change (inject_Z (Z.of_nat 0)) with 0. generalize (hd 0 c) (last c 0) (inject_Z (Z.of_nat (S n))). intros lo hi N.
  apply Qle_bool_iff. destruct (Qeq_bool _ 0); apply Qle_lteq; right; unfold Qdiv; ring.
Qed.

(** the exact-rational instance: unconditional *)
Lemma q_haplobin_spec (chrs : list (list Q)) (nblk : list nat) :
  length nblk = length chrs -> Forall (fun n => (1 <= n)%nat) nblk ->
  Forall (fun c => c <> [] /\ StronglySorted (fun x y => Qle_bool x y = true) c) chrs ->
  exists labs : list (list nat),
    haplobin qops nblk (concat chrs) (starts_from 0 (map (@length Q) chrs)) (stops_from 0 (map (@length Q) chrs)) = map Some (concat labs)
    /\ Forall2 (fun c l => length l = length c) chrs labs
    /\ (forall c l, nth_error labs c = Some l -> Forall (fun j => (offset nblk c <= j < offset nblk (S c))%nat) l)
    /\ StronglySorted Nat.le (concat labs)
    /\ (Forall2 (fun n c => (n <= length c)%nat) nblk chrs -> forall j, (j < list_sum nblk)%nat -> In j (concat labs)).
Proof.
  intros HL H1 Hc. apply (haplobin_spec qops (fun _ => True) q_leb_total q_leb_trans); [exact H1 | |].
  - eapply Forall_impl; [|exact Hc]. intros c [A B]. split; [exact A|]. split; [apply Forall_forall; intros; exact I | exact B].
  - clear Hc. revert chrs HL. induction H1 as [|n nb Hn _ IH]; intros [|c cs] HL; cbn in HL; try discriminate; constructor.
    + now apply q_bounds_ok.
    + apply IH. lia.
Qed.

Local Open Scope nat_scope.
(** * H2. sorted labels that use exactly the values 0..n-1 give exactly n runs *)
Lemma run_vals_sorted : forall (l : list nat) prev, StronglySorted Nat.le (prev :: l) ->
  StronglySorted Nat.lt (prev :: run_vals prev l) /\ (forall x, In x (prev :: l) <-> In x (prev :: run_vals prev l)).
Proof.
  induction l as [|x r IH]; intros prev S; cbn [run_vals].
  - split; [repeat constructor | tauto].
  - inversion S as [|? ? S' F]; subst. inversion F as [|? ? Hpx F']; subst.
    destruct (Nat.eqb_spec x prev) as [->|NE].
    + destruct (IH prev S') as [A B]. split; [exact A|]. intros y. specialize (B y). cbn [In] in *. tauto.
    + destruct (IH x S') as [A B]. unfold Nat.le in Hpx. split.
      * constructor; [exact A|]. apply Forall_forall. intros y Hy.
        inversion A as [|? ? _ FA]; subst. destruct Hy as [<-|Hy]; [unfold Nat.lt; lia|].
        rewrite Forall_forall in FA. specialize (FA y Hy). unfold Nat.lt in *. lia.
      * intros y. specialize (B y). cbn [In] in *. tauto.
Qed.

Lemma ss_lt_nodup (l : list nat) : StronglySorted Nat.lt l -> NoDup l.
Proof.
  induction 1 as [|a l S IH F]; constructor; [|exact IH].
  intros H. rewrite Forall_forall in F. specialize (F a H). unfold Nat.lt in F. lia.
Qed.
Lemma exact_range_length (vs : list nat) (n : nat) : StronglySorted Nat.lt vs -> (forall x, In x vs <-> x < n) -> length vs = n.
Proof.
  intros S H. apply ss_lt_nodup in S. rewrite <- (seq_length n 0). apply Nat.le_antisymm.
  - apply NoDup_incl_length; [exact S|]. intros x Hx. apply in_seq. apply H in Hx. lia.
  - apply NoDup_incl_length; [apply seq_NoDup|]. intros x Hx. apply in_seq in Hx. apply H. lia.
Qed.

Lemma runs_eq_requested (lab : list nat) (nhap : nat) : lab <> [] -> StronglySorted Nat.le lab ->
  (forall j, In j lab <-> j < nhap) ->
  exists hst hsp hlen, haplobin_bounds lab = Ok (hst, hsp, hlen) /\ length (combine hst hsp) = nhap.
Proof.
  destruct lab as [|x0 r]; [congruence|]. intros _ S H. unfold haplobin_bounds.
  eexists _, _, _. split; [reflexivity|].
  rewrite combine_length. cbn [length]. rewrite app_length. cbn [length]. rewrite breaks_run_vals_length.
  destruct (run_vals_sorted r x0 S) as [A B].
  rewrite <- (exact_range_length (x0 :: run_vals x0 r) nhap A); [cbn [length]; lia|].
  intros x. rewrite <- B. apply H.
Qed.

Lemma offset_le_sum : forall nblk c, offset nblk c <= list_sum nblk.
Proof.
  induction nblk as [|n nb IH]; intros [|c]; unfold offset in *; cbn [firstn]; try (cbn; lia).
  change (list_sum (n :: firstn c nb)) with (n + list_sum (firstn c nb)). change (list_sum (n :: nb)) with (n + list_sum nb).
  specialize (IH c). lia.
Qed.


(** * I. haplomat / _calc_haplomat as a whole *)
Local Open Scope nat_scope.
Lemma all_some_spec {A} : forall (l : list (option A)) r, all_some l = Some r -> l = map Some r.
Proof.
  induction l as [|x l IH]; intros r H; cbn in H.
  - injection H as <-. reflexivity.
  - fold (all_some l) in H. destruct x as [a|]; [|discriminate]. destruct (all_some l) as [r'|] eqn:E; [|discriminate].
    injection H as <-. cbn. f_equal. now apply IH.
Qed.
Lemma all_some_map_Some {A} : forall l : list A, all_some (map Some l) = Some l.
Proof. induction l as [|x l IH]; [reflexivity|]. cbn [map all_some fold_right]. fold (all_some (map Some l)). now rewrite IH. Qed.
Lemma starts_from_length a lens : length (starts_from a lens) = length lens.
Proof. revert a. induction lens; intros; cbn; [reflexivity|]. now rewrite IHlens. Qed.
Lemma stops_from_length a lens : length (stops_from a lens) = length lens.
Proof. revert a. induction lens; intros; cbn; [reflexivity|]. now rewrite IHlens. Qed.

(** the check "no chromosome is given more blocks than it has markers" of haplomat / _calc_haplomat *)
Lemma guard_forall2 {T} : forall (nblk : list nat) (chrs : list (list T)), length nblk = length chrs ->
  (existsb (fun bl => snd bl <? fst bl) (combine nblk (map (@length T) chrs)) = false <-> Forall2 (fun n c => n <= length c) nblk chrs).
Proof.
  induction nblk as [|n nb IH]; intros [|c cs] HL; cbn in HL; try discriminate.
  - split; [constructor | reflexivity].
  - cbn [map combine existsb fst snd]. rewrite orb_false_iff, (IH cs) by lia. split.
    + intros [A B]. constructor; [apply Nat.ltb_ge in A; exact A | exact B].
    + intros H. inversion H; subst. split; [apply Nat.ltb_ge; assumption | assumption].
Qed.

Section HaplomatSpec.
Context {T : Type} (O : ops T).

Lemma labels_from_length : forall (chrs : list (list T)) nblk k, length nblk = length chrs ->
  length (concat (labels_from O k nblk chrs)) = length (concat chrs).
Proof.
  induction chrs as [|c cs IH]; intros [|n nb] k H; cbn in H; try discriminate; [reflexivity|].
  cbn [labels_from concat]. rewrite !app_length, chrom_fix_length, IH by lia. reflexivity.
Qed.

(** "Uses exactly the requested total" at full strength, for any number type: on chromosome groups that tile the markers,
    with between 1 and #markers blocks per chromosome, whenever every marker is labelled the labels are non-decreasing,
    they are exactly 0..nhap-1, and haplobin_bounds yields exactly nhap runs. *)
Lemma requested_total (chrs : list (list T)) (nblk : list nat) (nhap : nat) (lab : list nat) :
  chrs <> [] -> Forall (fun c => c <> []) chrs -> Forall (fun n => 1 <= n) nblk ->
  Forall2 (fun n c => n <= length c) nblk chrs -> list_sum nblk = nhap ->
  haplobin O nblk (concat chrs) (starts_from 0 (map (@length T) chrs)) (stops_from 0 (map (@length T) chrs)) = map Some lab ->
  StronglySorted Nat.le lab /\ (forall j, In j lab <-> j < nhap)
  /\ exists hst hsp hlen, haplobin_bounds lab = Ok (hst, hsp, hlen) /\ length (combine hst hsp) = nhap.
Proof.
  intros Hne Hc H1 Hlen Hsum E.
  destruct (haplobin_any_spec O chrs nblk lab (Forall2_len _ _ _ Hlen) Hc H1 E) as (labs & -> & L & R & SS & Fu).
  assert (Hiff : forall j, In j (concat labs) <-> j < nhap).
  { intros j. split; [|intros Hj; apply (Fu Hlen); lia].
    intros Hj. apply in_concat in Hj as (l & Hl & Hj). apply In_nth_error in Hl as (c & Hc').
    specialize (R c l Hc'). rewrite Forall_forall in R. specialize (R j Hj). pose proof (offset_le_sum nblk (S c)). lia. }
  split; [exact SS|]. split; [exact Hiff|].
  apply runs_eq_requested; [| exact SS | exact Hiff].
  intros Hnil. destruct chrs as [|c cs]; [congruence|]. inversion L as [|? l ? ls Lc _]; subst.
  apply Forall_cons_iff in Hc as [Hcne _]. cbn in Hnil. apply app_eq_nil in Hnil as [-> _]. destruct c; [congruence|discriminate].
Qed.

Lemma calc_haplomat_inv e1 e2 nhap geno gp stix spix clen u nt hm :
  calc_haplomat O e1 e2 nhap geno gp stix spix clen u nt = Ok hm ->
  exists nblk lab hst hsp hlen, length stix <= nhap /\ nhaploblk_chrom O nhap gp stix spix = Ok nblk
    /\ existsb (fun bl => snd bl <? fst bl) (combine nblk clen) = false
    /\ haplobin O nblk gp stix spix = map Some lab /\ haplobin_bounds lab = Ok (hst, hsp, hlen)
    /\ calc_bounds O nhap gp stix spix = Some (combine hst hsp)
    /\ length (combine hst hsp) <= nhap /\ hm = hmat_of nhap nt geno u (combine hst hsp).
Proof.
  unfold calc_haplomat, calc_bounds. intros H.
  destruct (Nat.ltb_spec nhap (length stix)) as [|L1]; [discriminate|].
  destruct (nhaploblk_chrom O nhap gp stix spix) as [nblk|] eqn:E1; [|discriminate].
  destruct (existsb _ _) eqn:EG; [discriminate|].
  destruct (all_some (haplobin O nblk gp stix spix)) as [lab|] eqn:E2; [|discriminate].
  destruct (haplobin_bounds lab) as [[[hst hsp] hlen]|] eqn:E3; [|discriminate].
  destruct (Nat.ltb_spec nhap (length (combine hst hsp))) as [|L2]; [discriminate|].
  injection H as <-. exists nblk, lab, hst, hsp, hlen. repeat split; try assumption; try reflexivity.
  now apply all_some_spec.
Qed.

(** haplomat / _calc_haplomat at FULL strength, for any number type: whenever the call succeeds on a genome whose
    chromosome groups tile the markers (chrgrp_len = the group lengths), the block boundaries partition the markers into
    EXACTLY nhaploblk non-empty runs, every entry of the (m,n,b,t) array is written, and for every copy and trait the
    block values add up to the copy's additive value. *)
Lemma haplomat_full (chrs : list (list T)) e1 e2 nhap geno u nt hm :
  chrs <> [] -> Forall (fun c => c <> []) chrs ->
  calc_haplomat O e1 e2 nhap geno (concat chrs) (starts_from 0 (map (@length T) chrs)) (stops_from 0 (map (@length T) chrs))
                (map (@length T) chrs) u nt = Ok hm ->
  exists bounds, calc_bounds O nhap (concat chrs) (starts_from 0 (map (@length T) chrs)) (stops_from 0 (map (@length T) chrs)) = Some bounds
    /\ hm = hmat_of nhap nt geno u bounds /\ chain 0 bounds (length (concat chrs)) /\ length bounds = nhap
    /\ forall g t, length g = length (concat chrs) -> length u = length (concat chrs) -> t < nt ->
          (forall b, b < nhap -> exists q, ent (cand_of nhap nt u bounds g) b t = Some q)
          /\ exists s, osum (map (fun b => ent (cand_of nhap nt u bounds g) b t) (seq 0 nhap)) = Some s /\ (s == dotZQ g (col 0%Q t u))%Q.
Proof.
  intros Hne Hc H. apply calc_haplomat_inv in H as (nblk & lab & hst & hsp & hlen & L1 & E1 & EG & E2 & E3 & E4 & L2 & ->).
  rewrite starts_from_length, map_length in L1.
  destruct (apportion_total O nhap (concat chrs) (starts_from 0 (map (@length T) chrs)) (stops_from 0 (map (@length T) chrs))) as (nb' & E & Ln & Hge & Hsum).
  { now rewrite starts_from_length, stops_from_length. }
  { rewrite starts_from_length, map_length. destruct chrs; [congruence|cbn in *; lia]. }
  rewrite E1 in E. injection E as <-. rewrite starts_from_length, map_length in Ln.
  apply (guard_forall2 nblk chrs Ln) in EG.
  destruct (requested_total chrs nblk nhap lab Hne Hc Hge EG Hsum E2) as (_ & _ & hst' & hsp' & hlen' & E3' & Lb).
  rewrite E3 in E3'. injection E3' as <- <- <-.
  assert (Llab : length lab = length (concat chrs)).
  { rewrite haplobin_tiled in E2 by assumption. apply (f_equal (@length (option nat))) in E2.
    rewrite map_length, labels_from_length in E2 by assumption. congruence. }
  assert (Hlab : lab <> []) by (intros ->; cbn in E3; discriminate).
  destruct (haplobin_bounds_partition lab Hlab) as (hst' & hsp' & hlen' & vals & E3' & Lh & Lv & Ch & _ & _ & _).
  rewrite E3 in E3'. injection E3' as <- <- <-.
  exists (combine hst hsp). split; [exact E4|]. split; [reflexivity|]. rewrite <- Llab. split; [exact Ch|]. split; [exact Lb|].
  intros g t Lg Lu Ht. split.
  - intros b Hb. now apply hmat_all_written.
  - apply hmat_conservation; [exact Ht | exact Lb | rewrite Lg; exact Ch | congruence].
Qed.
End HaplomatSpec.

(** the call does succeed on every valid input: sorted non-empty chromosomes, at least as many blocks as chromosomes, no
    chromosome given more blocks than it has markers (any total preorder on proper numbers, proper boundaries) *)
Section HaplomatSucceeds.
Context {T : Type} (O : ops T) (ok : T -> Prop).
Hypothesis leb_total : forall x y, ok x -> ok y -> o_leb O x y = true \/ o_leb O y x = true.
Hypothesis leb_trans : forall x y z, ok x -> ok y -> ok z -> o_leb O x y = true -> o_leb O y z = true -> o_leb O x z = true.

Lemma haplomat_succeeds (chrs : list (list T)) (nblk : list nat) e1 e2 nhap geno u nt :
  chrs <> [] -> Forall (chrom_ok O ok) chrs -> length chrs <= nhap ->
  nhaploblk_chrom O nhap (concat chrs) (starts_from 0 (map (@length T) chrs)) (stops_from 0 (map (@length T) chrs)) = Ok nblk ->
  Forall2 (bounds_ok O ok) nblk chrs -> Forall2 (fun n c => n <= length c) nblk chrs ->
  exists hm, calc_haplomat O e1 e2 nhap geno (concat chrs) (starts_from 0 (map (@length T) chrs)) (stops_from 0 (map (@length T) chrs))
                           (map (@length T) chrs) u nt = Ok hm.
Proof.
  intros Hne Hc Hn E1 Hb Hlen. unfold calc_haplomat. rewrite starts_from_length, map_length.
  destruct (Nat.ltb_spec nhap (length chrs)) as [|_]; [lia|]. rewrite E1.
  destruct (apportion_total O nhap (concat chrs) (starts_from 0 (map (@length T) chrs)) (stops_from 0 (map (@length T) chrs))) as (nb' & E & Ln & Hge & Hsum).
  { now rewrite starts_from_length, stops_from_length. }
  { rewrite starts_from_length, map_length. destruct chrs; [congruence|cbn in *; lia]. }
  rewrite E1 in E. injection E as <-.
  rewrite (proj2 (guard_forall2 nblk chrs (Forall2_len _ _ _ Hlen)) Hlen).
  destruct (haplobin_spec O ok leb_total leb_trans chrs nblk Hge Hc Hb) as (labs & E2 & _).
  rewrite E2, all_some_map_Some.
  assert (Hc' : Forall (fun c => c <> []) chrs) by (eapply Forall_impl; [|exact Hc]; intros c (H & _); exact H).
  destruct (requested_total O chrs nblk nhap (concat labs) Hne Hc' Hge Hlen Hsum E2) as (_ & _ & hst & hsp & hlen & E3 & Lb).
  rewrite E3. rewrite Lb, Nat.ltb_irrefl. eexists. reflexivity.
Qed.
End HaplomatSucceeds.

(** the exact-rational instance: unconditional *)
Lemma q_bounds_all : forall (nblk : list nat) (chrs : list (list Q)), Forall (fun n => 1 <= n) nblk -> length nblk = length chrs ->
  Forall2 (bounds_ok qops (fun _ => True)) nblk chrs.
Proof.
  intros nblk chrs H1. revert chrs. induction H1 as [|n nb Hn _ IH]; intros [|c cs] HL; cbn in HL; try discriminate; constructor.
  - now apply q_bounds_ok.
  - apply IH. lia.
Qed.
Lemma q_chrom_ok (chrs : list (list Q)) : Forall (fun c => c <> [] /\ StronglySorted (fun x y => Qle_bool x y = true) c) chrs ->
  Forall (chrom_ok qops (fun _ => True)) chrs.
Proof. intros Hc. eapply Forall_impl; [|exact Hc]. intros c [A B]. split; [exact A|]. split; [apply Forall_forall; intros; exact I | exact B]. Qed.

Lemma q_haplomat_succeeds (chrs : list (list Q)) (nblk : list nat) e1 e2 nhap geno u nt :
  chrs <> [] -> Forall (fun c => c <> [] /\ StronglySorted (fun x y => Qle_bool x y = true) c) chrs -> length chrs <= nhap ->
  nhaploblk_chrom qops nhap (concat chrs) (starts_from 0 (map (@length Q) chrs)) (stops_from 0 (map (@length Q) chrs)) = Ok nblk ->
  Forall2 (fun n c => n <= length c) nblk chrs ->
  exists hm, calc_haplomat qops e1 e2 nhap geno (concat chrs) (starts_from 0 (map (@length Q) chrs)) (stops_from 0 (map (@length Q) chrs))
                           (map (@length Q) chrs) u nt = Ok hm.
Proof.
  intros Hne Hc Hn E1 Hlen.
  destruct (apportion_total qops nhap (concat chrs) (starts_from 0 (map (@length Q) chrs)) (stops_from 0 (map (@length Q) chrs))) as (nb' & E & Ln & Hge & _).
  { now rewrite starts_from_length, stops_from_length. }
  { rewrite starts_from_length, map_length. destruct chrs; [congruence|cbn in *; lia]. }
  rewrite E1 in E. injection E as <-.
  apply (haplomat_succeeds qops (fun _ => True) q_leb_total q_leb_trans chrs nblk); try assumption.
  - now apply q_chrom_ok.
  - apply q_bounds_all; [exact Hge | now apply Forall2_len in Hlen].
Qed.

(** * J. regression witness: the FORMER code (no repair pass; [old_haplobin], section C) violated "exactly the requested
      total" and "finite for every valid input"; the repaired code handles the same input *)
Section OldCode.
Context {T : Type} (O : ops T).
Definition old_calc_bounds (nhap : nat) (gp : list T) (stix spix : list nat) : option (list (nat * nat)) :=
  match nhaploblk_chrom O nhap gp stix spix with
  | Err _ => None
  | Ok nblk => match all_some (old_haplobin O nblk gp stix spix) with
               | None => None
               | Some lab => match haplobin_bounds lab with Err _ => None | Ok (hst, hsp, _) => Some (combine hst hsp) end
               end
  end.
Definition old_calc_haplomat (e1 e2 : err) (nhap : nat) (geno : list (list (list Z))) (gp : list T)
    (stix spix clen : list nat) (u : list (list Q)) (nt : nat) : res hmat_t :=
  if (nhap <? length stix)%nat then Err e1 else
  match nhaploblk_chrom O nhap gp stix spix with
  | Err e => Err e
  | Ok nblk =>
    if existsb (fun bl => (snd bl <? fst bl)%nat) (combine nblk clen) then Err e2 else
    match all_some (old_haplobin O nblk gp stix spix) with
    | None => Err EOther
    | Some lab =>
      match haplobin_bounds lab with
      | Err e => Err e
      | Ok (hst, hsp, _) =>
        let bounds := combine hst hsp in
        if (nhap <? length bounds)%nat then Err EIndex else Ok (hmat_of nhap nt geno u bounds)
      end
    end
  end.
End OldCode.

Definition wit_chr : list Q := [0; 1#64; 2#64; 3#64; 1]%Q.
Definition wit_geno : list (list (list Z)) := [[[1;1;1;1;1]; [1;0;1;0;1]]; [[0;1;1;0;1]; [1;1;0;0;0]]]%Z.
Definition wit_u : list (list Q) := [[1]; [2]; [-1]; [1#2]; [4]]%Q.
Definition wit_chr_f : list float := [0; 0x1p-6; 0x1p-5; 0x1.8p-5; 1]%float.

(** former code: positions 0, 1/64, 2/64, 3/64, 1 with 3 blocks: the middle equal-width bin is empty, 2 runs *)
Lemma old_requested_total_refuted :
  exists (chrs : list (list Q)) (nhap : nat),
    Forall (fun c => c <> [] /\ StronglySorted (fun x y => Qle_bool x y = true) c) chrs
    /\ length chrs <= nhap <= length (concat chrs)
    /\ exists nblk bounds, nhaploblk_chrom qops nhap (concat chrs) (starts_from 0 (map (@length Q) chrs)) (stops_from 0 (map (@length Q) chrs)) = Ok nblk
       /\ Forall2 (fun n c => n <= length c) nblk chrs
       /\ old_calc_bounds qops nhap (concat chrs) (starts_from 0 (map (@length Q) chrs)) (stops_from 0 (map (@length Q) chrs)) = Some bounds
       /\ length bounds < nhap.
Proof.
  exists [wit_chr], 3. split.
  - constructor; [|constructor]. split; [discriminate|]. repeat constructor.
  - split; [cbn; lia|]. exists [3], [(0, 4); (4, 5)]. split; [vm_compute; reflexivity|].
    split; [repeat constructor; cbn; lia|]. split; [vm_compute; reflexivity | cbn; lia].
Qed.

(** former code, same witness through the binary64 instance and all the way to the optimal haploid / population values:
    the last block of every copy was never written, so the values depended on uninitialised memory *)
Lemma old_finite_refuted :
  exists hm, old_calc_haplomat fops EOther EOther 3 wit_geno wit_chr_f [0] [5] [5] wit_u 1 = Ok hm
    /\ old_calc_haplomat qops EOther EOther 3 wit_geno wit_chr [0] [5] [5] wit_u 1 = Ok hm
    /\ ent (nth 0 (nth 0 hm []) []) 2 0 = None
    /\ calc_ohvmat 2 3 1 hm (calc_xmap 2 2 true) = [[None]]
    /\ opv_latent 3 1 hm [0; 1] = [None].
Proof. eexists. split; [vm_compute; reflexivity|]. repeat split; vm_compute; reflexivity. Qed.

(** repaired code on the same witness (binary64 and rational instances agree): three runs, the marker at 3/64 becomes
    the middle block, every entry written, finite optimal haploid / population values *)
Lemma witness_repaired :
  calc_bounds qops 3 wit_chr [0] [5] = Some [(0, 3); (3, 4); (4, 5)]
  /\ exists hm, calc_haplomat fops EOther EOther 3 wit_geno wit_chr_f [0] [5] [5] wit_u 1 = Ok hm
    /\ calc_haplomat qops EOther EOther 3 wit_geno wit_chr [0] [5] [5] wit_u 1 = Ok hm
    /\ nth 0 (nth 0 hm []) [] = [[Some 2]; [Some (1#2)]; [Some 4]]%Q
    /\ (exists v, calc_ohvmat 2 3 1 hm (calc_xmap 2 2 true) = [[Some v]] /\ (v == 15)%Q)
    /\ exists w, opv_latent 3 1 hm [0; 1] = [Some w] /\ (w == -15)%Q.
Proof.
  split; [vm_compute; reflexivity|]. eexists. split; [vm_compute; reflexivity|]. split; [vm_compute; reflexivity|].
  split; [vm_compute; reflexivity|]. split; eexists; (split; [vm_compute; reflexivity | vm_compute; reflexivity]).
Qed.

Lemma opv_latent_nth (nb nt : nat) (hm : hmat_t) (x : list nat) (t : nat) :
  nth t (opv_latent nb nt hm x) None = option_map Qopp (nth t (ohv_row (Z.of_nat (length hm)) nb nt (cands hm x)) None).
Proof. unfold opv_latent. apply (map_nth (option_map Qopp) _ None t). Qed.


(** * K. the repair pass changes nothing where the former code was right: under the ordering hypotheses, if every
      equal-width bin holds a marker (every label 0..nhap-1 occurs among the former labels), haplobin returns exactly
      the equal-width bin labels *)
Section EqualWidthKept.
Context {T : Type} (O : ops T) (ok : T -> Prop).
Hypothesis leb_total : forall x y, ok x -> ok y -> o_leb O x y = true \/ o_leb O y x = true.
Hypothesis leb_trans : forall x y z, ok x -> ok y -> ok z -> o_leb O x y = true -> o_leb O y z = true -> o_leb O x z = true.

Lemma old_labels_from_spec : forall (chrs : list (list T)) (nblk : list nat) (k : nat),
  Forall (fun n => 1 <= n) nblk -> Forall (chrom_ok O ok) chrs -> Forall2 (bounds_ok O ok) nblk chrs ->
  exists labs : list (list nat), old_labels_from O k nblk chrs = map (map Some) labs /\ ranges k nblk labs.
Proof.
  induction chrs as [|c cs IH]; intros nblk k H1 Hc Hb.
  - inversion Hb; subst. exists []. split; [reflexivity | exact I].
  - inversion Hb as [|n c' nb cs' Hbc Hb']; subst. apply Forall_cons_iff in H1 as [Hn H1]. apply Forall_cons_iff in Hc as [Hc0 Hc].
    destruct (chrom_labels_spec O ok leb_total leb_trans k n c Hn Hc0 Hbc) as (l & El & _ & Rl & _).
    destruct (IH nb (k + n) H1 Hc Hb') as (ls & Els & Rls).
    exists (l :: ls). cbn [old_labels_from map ranges]. rewrite El, Els. repeat split; assumption.
Qed.

Lemma labels_from_eq_old : forall (chrs : list (list T)) (nblk : list nat) (k : nat),
  Forall (fun n => 1 <= n) nblk -> Forall (chrom_ok O ok) chrs -> Forall2 (bounds_ok O ok) nblk chrs ->
  (forall j, k <= j < k + list_sum nblk -> In (Some j) (concat (old_labels_from O k nblk chrs))) ->
  labels_from O k nblk chrs = old_labels_from O k nblk chrs.
Proof.
  induction chrs as [|c cs IH]; intros nblk k H1 Hc Hb Hall.
  - inversion Hb; subst. reflexivity.
  - inversion Hb as [|n c' nb cs' Hbc Hb']; subst. apply Forall_cons_iff in H1 as [Hn H1]. apply Forall_cons_iff in Hc as [Hc0 Hc].
    destruct (chrom_labels_spec O ok leb_total leb_trans k n c Hn Hc0 Hbc) as (l & El & Ll & Rl & Sl).
    destruct (old_labels_from_spec cs nb (k + n) H1 Hc Hb') as (ls & Els & Rls).
    pose proof (ranges_lower _ _ _ Rls) as Lo. rewrite Forall_forall in Lo. rewrite Forall_forall in Rl.
    cbn [labels_from old_labels_from concat] in *. change (list_sum (n :: nb)) with (n + list_sum nb) in Hall. f_equal.
    + unfold chrom_fix. rewrite El, <- Ll. apply spread_id; [exact Hn | now apply Forall_forall | exact Sl |].
      intros j Hj. specialize (Hall j ltac:(lia)). rewrite El, Els, <- concat_map, <- map_app in Hall.
      apply in_map_iff in Hall as (j' & Ej & Hin). injection Ej as ->. apply in_app_or in Hin as [Hin|Hin]; [exact Hin|].
      specialize (Lo j Hin). cbn in Lo. lia.
    + apply IH; [exact H1 | exact Hc | exact Hb' |]. intros j Hj. specialize (Hall j ltac:(lia)).
      apply in_app_or in Hall as [Hin|Hin]; [|exact Hin]. rewrite El in Hin. apply in_map_iff in Hin as (j' & Ej & Hin).
      injection Ej as ->. specialize (Rl j Hin). lia.
Qed.

Lemma equal_width_kept (chrs : list (list T)) (nblk : list nat) :
  Forall (fun n => 1 <= n) nblk -> Forall (chrom_ok O ok) chrs -> Forall2 (bounds_ok O ok) nblk chrs ->
  (forall j, j < list_sum nblk ->
     In (Some j) (old_haplobin O nblk (concat chrs) (starts_from 0 (map (@length T) chrs)) (stops_from 0 (map (@length T) chrs)))) ->
  haplobin O nblk (concat chrs) (starts_from 0 (map (@length T) chrs)) (stops_from 0 (map (@length T) chrs))
  = old_haplobin O nblk (concat chrs) (starts_from 0 (map (@length T) chrs)) (stops_from 0 (map (@length T) chrs)).
Proof.
  intros H1 Hc Hb Hall.
  assert (HL : length nblk = length chrs) by now apply Forall2_len in Hb.
  assert (Hc' : Forall (fun c => c <> []) chrs) by (eapply Forall_impl; [|exact Hc]; intros c (H & _); exact H).
  rewrite old_haplobin_tiled in * by assumption. rewrite haplobin_tiled by assumption. f_equal.
  apply labels_from_eq_old; try assumption. intros j Hj. apply Hall. lia.
Qed.
End EqualWidthKept.

Lemma q_equal_width_kept (chrs : list (list Q)) (nblk : list nat) :
  length nblk = length chrs -> Forall (fun n => 1 <= n) nblk ->
  Forall (fun c => c <> [] /\ StronglySorted (fun x y => Qle_bool x y = true) c) chrs ->
  (forall j, j < list_sum nblk ->
     In (Some j) (old_haplobin qops nblk (concat chrs) (starts_from 0 (map (@length Q) chrs)) (stops_from 0 (map (@length Q) chrs)))) ->
  haplobin qops nblk (concat chrs) (starts_from 0 (map (@length Q) chrs)) (stops_from 0 (map (@length Q) chrs))
  = old_haplobin qops nblk (concat chrs) (starts_from 0 (map (@length Q) chrs)) (stops_from 0 (map (@length Q) chrs)).
Proof.
  intros HL H1 Hc. apply (equal_width_kept qops (fun _ => True) q_leb_total q_leb_trans); [exact H1 | now apply q_chrom_ok | now apply q_bounds_all].
Qed.

(** * L. cross maps designate valid parents; the OHV problem as a whole *)
Lemma xmap_from_valid (uniq : bool) : forall k st n,
  Forall (fun xc => length xc = k /\ Forall (fun d => st <= d < n) xc) (xmap_from uniq k st n).
Proof.
  induction k as [|k IH]; intros st n; cbn [xmap_from]; [repeat constructor|].
  apply Forall_forall. intros xc Hx. apply in_flat_map in Hx as (i & Hi & Hx). apply in_seq in Hi.
  apply in_map_iff in Hx as (xc' & <- & Hx').
  specialize (IH (if uniq then S i else i) n). rewrite Forall_forall in IH. destruct (IH xc' Hx') as [L F].
  split; [cbn; now rewrite L|]. constructor; [lia|]. eapply Forall_impl; [|exact F]. cbn. intros d Hd. destruct uniq; lia.
Qed.

Lemma calc_xmap_valid ntaxa nparent uniq :
  Forall (fun xc => length xc = nparent /\ Forall (fun d => d < ntaxa) xc) (calc_xmap ntaxa nparent uniq).
Proof.
  unfold calc_xmap. eapply Forall_impl; [|apply xmap_from_valid]. cbn. intros xc [L F]. split; [exact L|].
  eapply Forall_impl; [|exact F]. cbn. intros; lia.
Qed.

Lemma calc_ohvmat_nth ploidy nb nt hm xmap s :
  nth_error (calc_ohvmat ploidy nb nt hm xmap) s = option_map (fun xc => ohv_row ploidy nb nt (cands hm xc)) (nth_error xmap s).
Proof. unfold calc_ohvmat. apply nth_error_map. Qed.

Lemma copies_rows (geno : list (list (list Z))) (parents : list nat) (n p : nat) :
  Forall (fun phm => length phm = n /\ Forall (fun g => length g = p) phm) geno -> Forall (fun d => d < n) parents ->
  Forall (fun phm => Forall (fun d => d < length phm) parents) geno /\ Forall (fun g => length g = p) (copies geno parents).
Proof.
  intros Hg Hp. split.
  - eapply Forall_impl; [|exact Hg]. cbn. intros phm [L _]. now rewrite L.
  - unfold copies. apply Forall_forall. intros g Hin. apply in_flat_map in Hin as (phm & Hphm & Hin).
    apply in_map_iff in Hin as (d & <- & Hd). rewrite Forall_forall in Hg. destruct (Hg phm Hphm) as [L F].
    rewrite Forall_forall in F. apply F. apply nth_In. rewrite Forall_forall in Hp. rewrite L. now apply Hp.
Qed.

(** the OHV problem built by from_pgmat_gpmod at FULL strength (any number type): whenever the haplotype matrix is
    built, there are exactly nhaploblk blocks, and for every cross of the map and every trait the entry of ohvmat is
    defined (finite) and bounds every block-boundary recombinant of the cross's parents *)
Lemma ohv_problem {T : Type} (O : ops T) (chrs : list (list T)) e1 e2 nhap (geno : list (list (list Z))) u nt hm
    (ntaxa nparent : nat) (uniq : bool) :
  chrs <> [] -> Forall (fun c => c <> []) chrs ->
  calc_haplomat O e1 e2 nhap geno (concat chrs) (starts_from 0 (map (@length T) chrs)) (stops_from 0 (map (@length T) chrs))
                (map (@length T) chrs) u nt = Ok hm ->
  geno <> [] -> Forall (fun phm => length phm = ntaxa /\ Forall (fun g => length g = length (concat chrs)) phm) geno ->
  length u = length (concat chrs) -> 1 <= nparent ->
  exists bounds, calc_bounds O nhap (concat chrs) (starts_from 0 (map (@length T) chrs)) (stops_from 0 (map (@length T) chrs)) = Some bounds
    /\ length bounds = nhap /\ chain 0 bounds (length (concat chrs))
    /\ forall s xc t, nth_error (calc_xmap ntaxa nparent uniq) s = Some xc -> t < nt ->
  exists V, nth_error (calc_ohvmat (Z.of_nat (length geno)) nhap nt hm (calc_xmap ntaxa nparent uniq)) s
              = Some (ohv_row (Z.of_nat (length geno)) nhap nt (cands hm xc))
    /\ nth t (ohv_row (Z.of_nat (length geno)) nhap nt (cands hm xc)) None = Some V
    /\ forall src : nat -> list Z, (forall b, b < nhap -> In (src b) (copies geno xc)) ->
         (inject_Z (Z.of_nat (length geno)) * dotZQ (recomb src 0 bounds) (col 0%Q t u) <= V)%Q.
Proof.
  intros Hne Hc Hcalc Hg Hshape Lu Hnp.
  destruct (haplomat_full O chrs e1 e2 nhap geno u nt hm Hne Hc Hcalc) as (bounds & Hb & -> & Ch & Lb & _).
  exists bounds. split; [exact Hb|]. split; [exact Lb|]. split; [exact Ch|]. intros s xc t Hxc Ht.
  pose proof (calc_xmap_valid ntaxa nparent uniq) as Hv. rewrite Forall_forall in Hv.
  destruct (Hv xc (nth_error_In _ _ Hxc)) as [Lxc Fxc].
  destruct (copies_rows geno xc ntaxa (length (concat chrs)) Hshape Fxc) as [Hpar Hrows].
  assert (Hcne : copies geno xc <> []).
  { destruct geno as [|phm geno']; [congruence|]. destruct xc as [|d xc']; [cbn in Lxc; lia|]. unfold copies. cbn. discriminate. }
  destruct (ohv_bounds_recombinants (Z.of_nat (length geno)) nhap nt geno u bounds xc t (length (concat chrs))) as (V & EV & _ & _ & Hrec);
    try assumption; [lia|].
  exists V. split; [rewrite calc_ohvmat_nth, Hxc; reflexivity|]. split; [exact EV | exact Hrec].
Qed.
