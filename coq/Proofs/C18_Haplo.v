(** C18 — lemmas about Model/C18_Haplo.v *)
From PV Require Import Lib.Common Model.C18_Haplo.
From Coq Require Import Lia Arith.
Local Open Scope nat_scope.

Lemma in_firstn {A} (x : A) n l : In x (firstn n l) -> In x l.
Proof. intros H. rewrite <- (firstn_skipn n l). apply in_or_app. now left. Qed.
Lemma in_skipn {A} (x : A) n l : In x (skipn n l) -> In x l.
Proof. intros H. rewrite <- (firstn_skipn n l). apply in_or_app. now right. Qed.

(** * A. greedy apportionment: one count per chromosome, each >= 1, total = requested *)
Section Apportion.
Context {T : Type} (O : ops T).

Lemma argmin_loop_range (l : list T) : forall i bi bv,
  argmin_loop O l i bi bv = bi \/ i <= argmin_loop O l i bi bv < i + length l.
Proof.
  induction l as [|x r IH]; intros i bi bv; cbn [argmin_loop length]; [now left|].
  destruct (o_isnan O bv); [now left|].
  destruct (o_isnan O x || o_ltb O x bv).
  - destruct (IH (S i) i x) as [E|E]; right; lia.
  - destruct (IH (S i) bi bv) as [E|E]; [now left | right; lia].
Qed.

Lemma argmin_lt (l : list T) : l <> [] -> argmin O l < length l.
Proof.
  destruct l as [|x r]; [congruence|]. intros _. unfold argmin. cbn [length].
  destruct (argmin_loop_range r 1 0 x); lia.
Qed.

Lemma incr_length ix (l : list nat) : ix < length l -> length (incr ix l) = length l.
Proof.
  intros H. unfold incr. rewrite app_length, firstn_length_le by lia.
  destruct (skipn ix l) as [|x r] eqn:E.
  - apply (f_equal (@length nat)) in E. rewrite skipn_length in E. cbn in E. lia.
  - apply (f_equal (@length nat)) in E. rewrite skipn_length in E. cbn in *. lia.
Qed.

Lemma incr_sum ix (l : list nat) : ix < length l -> list_sum (incr ix l) = S (list_sum l).
Proof.
  intros H. unfold incr. rewrite <- (firstn_skipn ix l) at 3. rewrite !list_sum_app.
  destruct (skipn ix l) as [|x r] eqn:E.
  - apply (f_equal (@length nat)) in E. rewrite skipn_length in E. cbn in E. lia.
  - cbn. lia.
Qed.

Lemma incr_ge1 ix (l : list nat) : Forall (fun x => 1 <= x) l -> Forall (fun x => 1 <= x) (incr ix l).
Proof.
  intros H. unfold incr. apply Forall_app. split.
  - apply Forall_forall. intros x Hx. rewrite Forall_forall in H. apply H. eapply in_firstn; eauto.
  - destruct (skipn ix l) as [|x r] eqn:E; [constructor|].
    assert (HF : Forall (fun x => 1 <= x) (x :: r)).
    { rewrite <- E. apply Forall_forall. intros y Hy. rewrite Forall_forall in H. apply H.
      rewrite <- (firstn_skipn ix l). apply in_or_app. now right. }
    inversion HF; subst. constructor; [lia | assumption].
Qed.

Lemma apportion_loop_inv fuel idl : forall cur : list nat, length idl = length cur -> cur <> [] -> Forall (fun x => 1 <= x) cur ->
  length (apportion_loop O fuel idl cur) = length cur /\ Forall (fun x => 1 <= x) (apportion_loop O fuel idl cur)
  /\ list_sum (apportion_loop O fuel idl cur) = fuel + list_sum cur.
Proof.
  induction fuel as [|f IH]; intros cur HL HN HF; cbn [apportion_loop]; [repeat split; auto|].
  set (diff := map2 (fun c i => o_sub O (o_ofn O c) i) cur idl).
  assert (Ld : length diff = length cur) by (unfold diff; rewrite map2_length; lia).
  assert (Hd : diff <> []) by (intros E; rewrite E in Ld; destruct cur; [congruence | discriminate]).
  pose proof (argmin_lt diff Hd) as Hix. rewrite Ld in Hix.
  destruct (IH (incr (argmin O diff) cur)) as (A & B & C).
  - rewrite incr_length; assumption.
  - intros E. apply (f_equal (@length nat)) in E. rewrite incr_length in E by assumption. destruct cur; [congruence|discriminate].
  - now apply incr_ge1.
  - rewrite incr_length in A by assumption. rewrite incr_sum in C by assumption. repeat split; [assumption|assumption|lia].
Qed.

Lemma genlen_length gp (stix spix : list nat) : length spix = length stix -> length (genlen O gp stix spix) = length stix.
Proof. intros H. unfold genlen. rewrite map2_length. lia. Qed.

(** the apportionment returns one count per chromosome, each at least one, adding up to the requested total —
    whatever the positions are (also for NaN / zero-length chromosomes: argmin always returns a valid index) *)
Lemma apportion_total (nhap : nat) (gp : list T) (stix spix : list nat) :
  length spix = length stix -> 1 <= length stix <= nhap ->
  exists nblk, nhaploblk_chrom O nhap gp stix spix = Ok nblk /\ length nblk = length stix
               /\ Forall (fun x => 1 <= x) nblk /\ list_sum nblk = nhap.
Proof.
  intros HL [H1 H2]. unfold nhaploblk_chrom. destruct (Nat.ltb_spec nhap (length stix)) as [L|_]; [lia|].
  eexists. split; [reflexivity|].
  destruct (apportion_loop_inv (nhap - length stix) (ideal O nhap (genlen O gp stix spix)) (repeat 1 (length stix))) as (A & B & C).
  - unfold ideal. rewrite map_length, genlen_length, repeat_length; auto.
  - destruct (length stix); [lia | discriminate].
  - apply Forall_forall. intros x Hx. apply repeat_spec in Hx. lia.
  - rewrite repeat_length in A. split; [exact A|]. split; [exact B|]. rewrite C.
    assert (S1 : forall n, list_sum (repeat 1 n) = n) by (induction n as [|n IHn]; [reflexivity | cbn [repeat]; change (list_sum (1 :: repeat 1 n)) with (1 + list_sum (repeat 1 n)); lia]). rewrite S1. lia.
Qed.

(** fewer blocks than chromosomes is rejected *)
Lemma apportion_rejects (nhap : nat) (gp : list T) (stix spix : list nat) :
  nhap < length stix -> exists e, nhaploblk_chrom O nhap gp stix spix = Err e.
Proof. intros H. unfold nhaploblk_chrom. destruct (Nat.ltb_spec nhap (length stix)); [eauto | lia]. Qed.
End Apportion.

(** * B. binning of one chromosome: every marker between the first and the last boundary receives exactly one
      label, labels are monotone in the position — for any total preorder on positions and ANY boundary list *)
From Coq Require Import Sorted.
Section Order.
Context {T : Type} (O : ops T) (ok : T -> Prop).
Hypothesis leb_total : forall x y, ok x -> ok y -> o_leb O x y = true \/ o_leb O y x = true.
Hypothesis leb_trans : forall x y z, ok x -> ok y -> ok z -> o_leb O x y = true -> o_leb O y z = true -> o_leb O x z = true.
Notation le x y := (o_leb O x y = true).

Lemma bin_label_step lo hi tl x k acc :
  bin_label O (lo :: hi :: tl) x k acc = bin_label O (hi :: tl) x (S k) (if o_leb O lo x && o_leb O x hi then Some k else acc).
Proof. reflexivity. Qed.

Lemma le_refl x : ok x -> le x x.
Proof. intros H. destruct (leb_total x x H H); assumption. Qed.

Lemma bin_label_range (hb : list T) x : forall k acc,
  bin_label O hb x k acc = acc \/ exists j, bin_label O hb x k acc = Some j /\ k <= j < k + (length hb - 1).
Proof.
  induction hb as [|lo tl IH]; intros k acc; [now left|].
  destruct tl as [|hi tl']; [now left|].
  rewrite bin_label_step. set (acc' := if o_leb O lo x && o_leb O x hi then Some k else acc).
  destruct (IH (S k) acc') as [E|(j & E & R)].
  - rewrite E. unfold acc'. destruct (o_leb O lo x && o_leb O x hi); [right; exists k; cbn [length]; split; [reflexivity|lia] | now left].
  - right. exists j. split; [exact E|]. cbn [length] in *. lia.
Qed.

Lemma bin_label_cover (d : T) (hb : list T) x : Forall ok hb -> ok x -> 2 <= length hb -> le (hd d hb) x -> le x (last hb d) ->
  forall k acc, exists j, bin_label O hb x k acc = Some j /\ k <= j < k + (length hb - 1).
Proof.
  induction hb as [|lo tl IH]; intros Hok Hx HL Hlo Hhi k acc; [cbn in HL; lia|].
  destruct tl as [|hi tl']; [cbn in HL; lia|].
  apply Forall_cons_iff in Hok as [Hlo_ok Hok']. pose proof Hok' as Hok''. apply Forall_cons_iff in Hok'' as [Hhi_ok _].
  cbn [hd] in Hlo. rewrite bin_label_step.
  set (acc' := if o_leb O lo x && o_leb O x hi then Some k else acc).
  destruct tl' as [|b2 tl''].
  - (* a single bin *) cbn [last] in Hhi. unfold acc'. rewrite Hlo, Hhi. cbn. exists k. split; [reflexivity|lia].
  - destruct (o_leb O x hi) eqn:Exh.
    + (* x in bin k; a later bin may still overwrite *)
      unfold acc'. rewrite Hlo. cbn [andb].
      destruct (bin_label_range (hi :: b2 :: tl'') x (S k) (Some k)) as [E|(j & E & R)].
      * rewrite E. exists k. split; [reflexivity|cbn [length]; lia].
      * exists j. split; [exact E|]. cbn [length] in *. lia.
    + (* hi <= x: covered by a later bin *)
      destruct (leb_total x hi Hx Hhi_ok) as [C|C]; [congruence|].
      destruct (IH Hok' Hx) with (k := S k) (acc := acc') as (j & E & R); [cbn [length]; lia | exact C | exact Hhi |].
      exists j. split; [exact E|]. cbn [length] in *. lia.
Qed.

Lemma bin_label_mono (d : T) (hb : list T) x y : Forall ok hb -> ok x -> ok y -> le x y -> le y (last hb d) ->
  forall k accx accy jx, (forall a, accx = Some a -> a < k) -> bin_label O hb x k accx = Some jx -> k <= jx ->
  exists jy, bin_label O hb y k accy = Some jy /\ jx <= jy.
Proof.
  induction hb as [|lo tl IH]; intros Hok Hx Hy Hxy Hhi k accx accy jx Hacc E Hk.
  - cbn in E. apply Hacc in E. lia.
  - destruct tl as [|hi tl']; [cbn in E; apply Hacc in E; lia|].
    pose proof Hok as Hok0. apply Forall_cons_iff in Hok as [Hlo_ok Hok'].
    rewrite bin_label_step in E.
    set (accx' := if o_leb O lo x && o_leb O x hi then Some k else accx) in E.
    destruct (bin_label_range (hi :: tl') x (S k) accx') as [E1|(j & E1 & R)].
    + (* no later bin holds x *)
      rewrite E1 in E. unfold accx' in E. destruct (o_leb O lo x && o_leb O x hi) eqn:C.
      * injection E as <-. apply andb_prop in C as [C1 C2].
        destruct (bin_label_cover d (lo :: hi :: tl') y Hok0 Hy) with (k := k) (acc := accy) as (jy & Ey & Ry).
        -- cbn [length]; lia.
        -- cbn [hd]. now apply (leb_trans lo x y).
        -- exact Hhi.
        -- exists jy. split; [exact Ey | lia].
      * apply Hacc in E. lia.
    + rewrite E1 in E. injection E as <-. rewrite bin_label_step.
      apply (IH Hok' Hx Hy Hxy) with (k := S k) (accx := accx'); [exact Hhi | | exact E1 | lia].
      intros a Ha. unfold accx' in Ha. destruct (o_leb O lo x && o_leb O x hi); [injection Ha as <-; lia | apply Hacc in Ha; lia].
Qed.
End Order.

(** * C. the whole genome: chromosomes tile the marker array *)
Lemma slice_app_mid {A} (pre c X : list A) : slice (length pre) (length pre + length c) (pre ++ c ++ X) = c.
Proof.
  unfold slice. replace (length pre + length c - length pre) with (length c) by lia.
  rewrite skipn_app, Nat.sub_diag, skipn_all. cbn [skipn app]. rewrite firstn_app, Nat.sub_diag, firstn_all. cbn [firstn]. now rewrite app_nil_r.
Qed.
Lemma write_app_mid {A} (done mid X lab : list A) :
  write (length done) (length done + length mid) lab (done ++ mid ++ X) = done ++ lab ++ X.
Proof.
  unfold write. rewrite firstn_app, Nat.sub_diag, firstn_all. cbn [firstn]. rewrite app_nil_r. f_equal. f_equal.
  rewrite skipn_app. rewrite skipn_all2 by lia. cbn [app].
  replace (length done + length mid - length done) with (length mid) by lia.
  rewrite skipn_app, Nat.sub_diag, skipn_all. reflexivity.
Qed.
Lemma slice_app_mid' {A} (pre c X : list A) a b : a = length pre -> b = a + length c -> slice a b (pre ++ c ++ X) = c.
Proof. intros -> ->. apply slice_app_mid. Qed.
Lemma write_app_mid' {A} (done mid X lab : list A) a b : a = length done -> b = a + length mid ->
  write a b lab (done ++ mid ++ X) = done ++ lab ++ X.
Proof. intros -> ->. apply write_app_mid. Qed.
Lemma nth_app_hd {A} (pre c X : list A) d : c <> [] -> nth (length pre) (pre ++ c ++ X) d = hd d c.
Proof. intros H. rewrite app_nth2, Nat.sub_diag by lia. destruct c; [congruence|reflexivity]. Qed.
Lemma nth_last {A} (c : list A) d : c <> [] -> nth (length c - 1) c d = last c d.
Proof.
  induction c as [|a c IH]; [congruence|]. intros _. destruct c as [|b c']; [reflexivity|].
  specialize (IH ltac:(discriminate)).
  change (last (a :: b :: c') d) with (last (b :: c') d). rewrite <- IH.
  replace (length (a :: b :: c') - 1) with (S (length (b :: c') - 1)) by (cbn [length]; lia).
  reflexivity.
Qed.
Lemma nth_app_last {A} (pre c X : list A) d : c <> [] -> nth (length pre + length c - 1) (pre ++ c ++ X) d = last c d.
Proof.
  intros H. assert (0 < length c) by (destruct c; [congruence|cbn; lia]).
  rewrite app_nth2 by lia. replace (length pre + length c - 1 - length pre) with (length c - 1) by lia.
  rewrite app_nth1 by lia. now apply nth_last.
Qed.
Lemma map2_repeat_r {A B C} (f : A -> B -> C) (l : list A) (b : B) : map2 f l (repeat b (length l)) = map (fun x => f x b) l.
Proof. induction l as [|x l IH]; cbn; [reflexivity|]. now rewrite IH. Qed.

Fixpoint starts_from (a : nat) (lens : list nat) : list nat := match lens with [] => [] | l :: r => a :: starts_from (a + l) r end.
Fixpoint stops_from (a : nat) (lens : list nat) : list nat := match lens with [] => [] | l :: r => (a + l) :: stops_from (a + l) r end.

Section Genome.
Context {T : Type} (O : ops T).
Notation z := (o_ofn O 0).

(** labels of one chromosome [c] with [n] blocks, the first of which is numbered [k] *)
Definition chrom_labels (k n : nat) (c : list T) : list (option nat) :=
  map (fun x => bin_label O (linspace O (hd z c) (last c z) n) x k None) c.
Fixpoint labels_from (k : nat) (nblk : list nat) (chrs : list (list T)) : list (list (option nat)) :=
  match nblk, chrs with
  | n :: nb, c :: cs => chrom_labels k n c :: labels_from (k + n) nb cs
  | _, _ => []
  end.

Lemma chrom_labels_length k n c : length (chrom_labels k n c) = length c.
Proof. unfold chrom_labels. apply map_length. Qed.

Lemma haplobin_loop_tiled : forall (chrs : list (list T)) (nblk : list nat) (pre : list T) (done : list (option nat)) (k : nat),
  length nblk = length chrs -> Forall (fun c => c <> []) chrs -> length done = length pre ->
  haplobin_loop O (pre ++ concat chrs)
    (combine nblk (combine (starts_from (length pre) (map (@length T) chrs)) (stops_from (length pre) (map (@length T) chrs))))
    k (done ++ repeat None (length (concat chrs)))
  = done ++ concat (labels_from k nblk chrs).
Proof.
  induction chrs as [|c cs IH]; intros nblk pre done k HL HN HD.
  - destruct nblk; [|discriminate]. cbn. reflexivity.
  - destruct nblk as [|n nb]; [discriminate|]. apply Forall_cons_iff in HN as [Hc HN].
    cbn [map starts_from stops_from combine haplobin_loop concat labels_from].
    rewrite app_length, repeat_app.
    rewrite (nth_app_hd pre c (concat cs) z Hc), (nth_app_last pre c (concat cs) z Hc).
    rewrite (slice_app_mid pre c (concat cs)).
    rewrite (slice_app_mid' done (repeat None (length c)) _ (length pre) (length pre + length c)) by (rewrite ?repeat_length; lia).
    rewrite map2_repeat_r. fold (chrom_labels k n c).
    rewrite (write_app_mid' done (repeat None (length c)) _ _ (length pre) (length pre + length c)) by (rewrite ?repeat_length; lia).
    replace (pre ++ c ++ concat cs) with ((pre ++ c) ++ concat cs) by now rewrite app_assoc.
    replace (done ++ chrom_labels k n c ++ repeat None (length (concat cs))) with ((done ++ chrom_labels k n c) ++ repeat None (length (concat cs))) by now rewrite app_assoc.
    replace (length pre + length c) with (length (pre ++ c)) by (rewrite app_length; lia).
    rewrite IH; [now rewrite <- app_assoc | cbn in HL; lia | exact HN | rewrite !app_length, chrom_labels_length; lia].
Qed.

(** for chromosome groups that tile the marker array, haplobin is the concatenation of the per-chromosome labels *)
Lemma haplobin_tiled (chrs : list (list T)) (nblk : list nat) :
  length nblk = length chrs -> Forall (fun c => c <> []) chrs ->
  haplobin O nblk (concat chrs) (starts_from 0 (map (@length T) chrs)) (stops_from 0 (map (@length T) chrs))
  = concat (labels_from 0 nblk chrs).
Proof. intros HL HN. unfold haplobin. apply (haplobin_loop_tiled chrs nblk [] [] 0 HL HN eq_refl). Qed.
End Genome.
