(** C17 — lemmas about Model/C17_Sampling.v *)
From Coq Require Import Permutation Lqa Lia Sorting.Sorted Qround.
From PV Require Import Lib.Common Model.C17_Sampling.

(** * toolkit: re-indexing a list along a permutation of its positions *)
Lemma map_nth_seq {A} (d : A) (l : list A) : map (fun i => nth i l d) (seq 0 (length l)) = l.
Proof.
  induction l as [|x l IH]; [reflexivity|].
  cbn [length seq map nth]. f_equal. rewrite <- seq_shift, map_map. exact IH.
Qed.

Lemma permute_Permutation {A} (d : A) pm (x : list A) :
  Permutation pm (seq 0 (length x)) -> Permutation (permute d pm x) x.
Proof.
  intros H. unfold permute. eapply Permutation_trans; [apply Permutation_map, H|]. now rewrite map_nth_seq.
Qed.

Lemma permute_length {A} (d : A) pm (x : list A) : length (permute d pm x) = length pm.
Proof. unfold permute. apply map_length. Qed.

Lemma is_perm_sound n pm : is_perm n pm = true -> Permutation pm (seq 0 n).
Proof.
  unfold is_perm. intros H. apply andb_prop in H as [HL HA]. apply Nat.eqb_eq in HL.
  symmetry. apply NoDup_Permutation_bis; [apply seq_NoDup | rewrite seq_length; lia |].
  intros i Hi. rewrite forallb_forall in HA. specialize (HA i Hi). apply existsb_exists in HA as (j & Hj & E).
  apply Nat.eqb_eq in E. now subst.
Qed.

(** an index map that is injective on [0,n) and stays below n is a permutation of the positions *)
Lemma NoDup_map_inj_in {A B} (f : A -> B) l :
  (forall x y, In x l -> In y l -> f x = f y -> x = y) -> NoDup l -> NoDup (map f l).
Proof.
  intros Hinj H. induction H as [|a l Hna Hl IH]; cbn [map]; constructor.
  - intros Hin. apply in_map_iff in Hin as (y & E & Hy). apply Hna.
    rewrite (Hinj a y); [assumption | now left | now right | now symmetry].
  - apply IH. intros x y Hx Hy. apply Hinj; now right.
Qed.

Lemma index_map_Permutation (f : nat -> nat) n :
  (forall t, (t < n)%nat -> (f t < n)%nat) ->
  (forall t u, (t < n)%nat -> (u < n)%nat -> f t = f u -> t = u) ->
  Permutation (map f (seq 0 n)) (seq 0 n).
Proof.
  intros Hb Hi. apply NoDup_Permutation_bis.
  - apply NoDup_map_inj_in; [|apply seq_NoDup]. intros x y Hx Hy. apply in_seq in Hx, Hy. apply Hi; lia.
  - rewrite map_length. lia.
  - intros y Hy. apply in_map_iff in Hy as (t & E & Ht). apply in_seq in Ht. apply in_seq. specialize (Hb t). lia.
Qed.

Lemma reindex_Permutation {A} (d : A) (f : nat -> nat) (x : list A) :
  (forall t, (t < length x)%nat -> (f t < length x)%nat) ->
  (forall t u, (t < length x)%nat -> (u < length x)%nat -> f t = f u -> t = u) ->
  Permutation (map (fun t => nth (f t) x d) (seq 0 (length x))) x.
Proof.
  intros Hb Hi. rewrite <- (map_map f (fun u => nth u x d)).
  apply (permute_Permutation d). now apply index_map_Permutation.
Qed.

Lemma count_nat_Permutation i l l' : Permutation l l' -> count_nat i l = count_nat i l'.
Proof. intros H. unfold count_nat. now apply Permutation_count_occ. Qed.

Lemma count_nat_map_filter {A} (f : A -> nat) j l :
  count_nat j (map f l) = length (filter (fun x => Nat.eqb (f x) j) l).
Proof.
  unfold count_nat. induction l as [|x l IH]; [reflexivity|]. cbn [map count_occ filter].
  destruct (Nat.eq_dec (f x) j) as [E|NE].
  - rewrite (proj2 (Nat.eqb_eq _ _) E). cbn [length]. now rewrite IH.
  - rewrite (proj2 (Nat.eqb_neq _ _) NE). exact IH.
Qed.

(** * 1. stochastic universal sampling *)
Local Open Scope Q_scope.

(** the walk visits, for every pointer, the position [locate] computes from scratch *)
Fixpoint locate (cs : list Q) (ptr : Q) : nat :=
  match cs with
  | c :: ((_ :: _) as t) => if Qle_bool c ptr then S (locate t ptr) else 0%nat
  | _ => 0%nat
  end.

Lemma advance_cons2 c c' t ix ptr :
  advance (c :: c' :: t) ix ptr = if Qle_bool c ptr then advance (c' :: t) (S ix) ptr else (c :: c' :: t, ix).
Proof. reflexivity. Qed.
Lemma locate_cons2 c c' t ptr :
  locate (c :: c' :: t) ptr = if Qle_bool c ptr then S (locate (c' :: t) ptr) else 0%nat.
Proof. reflexivity. Qed.

Lemma advance_locate cs : forall ix ptr, advance cs ix ptr = (skipn (locate cs ptr) cs, (ix + locate cs ptr)%nat).
Proof.
  induction cs as [|c t IH]; intros ix ptr; [cbn; f_equal; lia|].
  destruct t as [|c' t']; [cbn; f_equal; lia|].
  rewrite advance_cons2, locate_cons2. destruct (Qle_bool c ptr).
  - rewrite IH. cbn [skipn]. f_equal. lia.
  - cbn [skipn]. f_equal. lia.
Qed.

Lemma locate_split cs p q : p <= q -> locate cs q = (locate cs p + locate (skipn (locate cs p) cs) q)%nat.
Proof.
  intros Hpq. induction cs as [|c t IH]; [reflexivity|].
  destruct t as [|c' t']; [reflexivity|].
  rewrite !locate_cons2. destruct (Qle_bool c p) eqn:Ep.
  - assert (Eq : Qle_bool c q = true). { apply Qle_bool_iff. apply Qle_bool_iff in Ep. lra. }
    rewrite Eq. cbn [skipn]. rewrite IH. reflexivity.
  - cbn [skipn plus]. reflexivity.
Qed.

Lemma walk_locate ptrs : forall cs ix, StronglySorted Qle ptrs ->
  sus_walk cs ix ptrs = map (fun p => (ix + locate cs p)%nat) ptrs.
Proof.
  induction ptrs as [|p rest IH]; intros cs ix Hs; [reflexivity|].
  inversion Hs as [|? ? Hs' Hall]; subst.
  cbn [sus_walk map]. rewrite advance_locate. f_equal.
  rewrite IH by assumption. apply map_ext_in. intros q Hq.
  rewrite Forall_forall in Hall. rewrite (locate_split cs p q (Hall q Hq)). lia.
Qed.

Lemma walk_length ptrs : forall cs ix, length (sus_walk cs ix ptrs) = length ptrs.
Proof.
  induction ptrs as [|p rest IH]; intros cs ix; [reflexivity|].
  cbn [sus_walk]. destruct (advance cs ix p) as [cs' ix']. cbn [length]. now rewrite IH.
Qed.

Lemma locate_bound cs p : (locate cs p <= length cs - 1)%nat.
Proof.
  induction cs as [|c t IH]; [cbn; lia|]. destruct t as [|c' t']; [cbn; lia|].
  rewrite locate_cons2. destruct (Qle_bool c p); cbn [length] in *; lia.
Qed.

(** the cell of position j: [c_{j-1}, c_j), open to the left for the first and to the right for the last position *)
Definition in_cell (cs : list Q) (j : nat) (p : Q) : bool :=
  (Nat.eqb j 0 || Qle_bool (nth (j - 1) cs 0) p) && (Nat.eqb j (length cs - 1) || negb (Qle_bool (nth j cs 0) p)).

Lemma SS_head_le (c : Q) l : StronglySorted Qle (c :: l) -> forall j, (j < length (c :: l))%nat -> c <= nth j (c :: l) 0.
Proof.
  intros H j Hj. inversion H as [|? ? _ Hall]; subst. destruct j as [|j]; [cbn; lra|].
  cbn [nth]. rewrite Forall_forall in Hall. apply Hall. apply nth_In. cbn [length] in Hj. lia.
Qed.

Lemma locate_spec cs p : StronglySorted Qle cs -> forall j, (j < length cs)%nat ->
  Nat.eqb (locate cs p) j = in_cell cs j p.
Proof.
  induction cs as [|c t IH]; intros Hs j Hj; [cbn in Hj; lia|].
  destruct t as [|c' t'].
  - cbn in Hj. assert (j = 0)%nat by lia. subst. reflexivity.
  - assert (Hs' : StronglySorted Qle (c' :: t')) by (inversion Hs; assumption).
    rewrite locate_cons2. unfold in_cell. destruct (Qle_bool c p) eqn:Ec.
    + destruct j as [|j'].
      * cbn [Nat.eqb orb andb length nth]. replace (S (S (length t')) - 1)%nat with (S (length t')) by lia.
        cbn [Nat.eqb orb]. rewrite Ec. reflexivity.
      * cbn [Nat.eqb]. rewrite (IH Hs' j') by (cbn [length] in *; lia). unfold in_cell.
        cbn [length]. replace (S j' - 1)%nat with j' by lia.
        replace (S (S (length t')) - 1)%nat with (S (length t')) by lia.
        replace (S (length t') - 1)%nat with (length t') by lia.
        cbn [orb Nat.eqb]. change (nth (S j') (c :: c' :: t') 0) with (nth j' (c' :: t') 0).
        destruct j' as [|j''].
        -- cbn [Nat.eqb orb nth]. rewrite Ec. reflexivity.
        -- cbn [Nat.eqb orb]. replace (S j'' - 1)%nat with j'' by lia.
           change (nth (S j'') (c :: c' :: t') 0) with (nth j'' (c' :: t') 0). reflexivity.
    + destruct j as [|j'].
      * cbn [Nat.eqb orb andb nth]. rewrite Ec. cbn [negb]. symmetry. apply orb_true_r.
      * cbn [Nat.eqb]. symmetry. apply andb_false_iff. left. cbn [orb].
        replace (S j' - 1)%nat with j' by lia.
        destruct (Qle_bool (nth j' (c :: c' :: t') 0) p) eqn:E2; [|reflexivity]. exfalso.
        apply Qle_bool_iff in E2. pose proof (SS_head_le c (c' :: t') Hs j' ltac:(cbn [length] in *; lia)) as H1.
        assert (Hc : c <= p) by lra. apply Qle_bool_iff in Hc. congruence.
Qed.

(** general counting theorem: for pointers in non-decreasing order, position j is selected once per pointer in its cell *)
Lemma walk_count cs ptrs j : StronglySorted Qle cs -> StronglySorted Qle ptrs -> (j < length cs)%nat ->
  count_nat j (sus_walk cs 0 ptrs) = length (filter (in_cell cs j) ptrs).
Proof.
  intros Hc Hp Hj. rewrite walk_locate by assumption. rewrite count_nat_map_filter.
  f_equal. apply filter_ext. intros p. cbn [plus]. now apply locate_spec.
Qed.

Lemma walk_range cs ptrs : StronglySorted Qle ptrs -> Forall (fun ix => (ix <= length cs - 1)%nat) (sus_walk cs 0 ptrs).
Proof.
  intros Hp. rewrite walk_locate by assumption. apply Forall_forall. intros x Hx.
  apply in_map_iff in Hx as (p & E & _). subst. cbn [plus]. apply locate_bound.
Qed.

(** ** cumulative sums of non-negative weights *)
Definition psum (w : list Q) (j : nat) : Q := sumQ (firstn j w).

Lemma sumQ_cons x l : sumQ (x :: l) = x + sumQ l.
Proof. reflexivity. Qed.

Lemma psum_S w : forall j, (j < length w)%nat -> psum w (S j) == psum w j + nth j w 0.
Proof.
  unfold psum. induction w as [|x w IH]; intros j Hj; [cbn in Hj; lia|].
  destruct j as [|j].
  - cbn [firstn nth]. rewrite !sumQ_cons. cbn [firstn sumQ fold_right]. lra.
  - change (firstn (S (S j)) (x :: w)) with (x :: firstn (S j) w).
    change (firstn (S j) (x :: w)) with (x :: firstn j w). rewrite !sumQ_cons. cbn [nth].
    rewrite IH by (cbn [length] in Hj; lia). lra.
Qed.

Lemma psum_all w : psum w (length w) = sumQ w.
Proof. unfold psum. now rewrite firstn_all. Qed.

Lemma sumQ_nonneg l : Forall (fun x => 0 <= x) l -> 0 <= sumQ l.
Proof. induction 1 as [|x l Hx _ IH]; [cbn; lra|]. rewrite sumQ_cons. lra. Qed.

Lemma psum_mono w : Forall (fun x => 0 <= x) w -> forall j j', (j <= j')%nat -> psum w j <= psum w j'.
Proof.
  intros Hw j j' Hjj. induction Hjj as [|j' _ IH]; [lra|].
  destruct (Nat.lt_ge_cases j' (length w)) as [L|G].
  - rewrite psum_S by exact L. rewrite Forall_forall in Hw. specialize (Hw (nth j' w 0) (nth_In _ _ L)). lra.
  - unfold psum in *. rewrite (firstn_all2 (n := S j')) by lia. rewrite (firstn_all2 (n := j')) in IH by lia. exact IH.
Qed.

Lemma cumsum_from_length l : forall acc, length (cumsum_from acc l) = length l.
Proof. induction l as [|x l IH]; intros acc; [reflexivity|]. cbn [cumsum_from length]. now rewrite IH. Qed.

Lemma cumsum_from_nth l : forall acc j, (j < length l)%nat -> nth j (cumsum_from acc l) 0 == acc + psum l (S j).
Proof.
  induction l as [|x l IH]; intros acc j Hj; [cbn in Hj; lia|].
  destruct j as [|j].
  - cbn [cumsum_from nth]. unfold psum. cbn [firstn sumQ fold_right]. lra.
  - cbn [cumsum_from nth]. rewrite IH by (cbn [length] in Hj; lia). unfold psum.
    change (firstn (S (S j)) (x :: l)) with (x :: firstn (S j) l). rewrite sumQ_cons. lra.
Qed.

Lemma cumsum_nth w j : (j < length w)%nat -> nth j (cumsum w) 0 == psum w (S j).
Proof. intros Hj. unfold cumsum. rewrite cumsum_from_nth by exact Hj. lra. Qed.

Lemma cumsum_from_sorted l : forall acc, Forall (fun x => 0 <= x) l ->
  StronglySorted Qle (cumsum_from acc l) /\ Forall (Qle acc) (cumsum_from acc l).
Proof.
  induction l as [|x l IH]; intros acc Hl; [split; constructor|].
  inversion Hl as [|? ? Hx Hl']; subst. destruct (IH (acc + x) Hl') as [S1 F1].
  cbn [cumsum_from]. split.
  - constructor; assumption.
  - constructor; [lra|]. eapply Forall_impl; [|exact F1]. cbn. intros a Ha. lra.
Qed.

Lemma cumsum_sorted w : Forall (fun x => 0 <= x) w -> StronglySorted Qle (cumsum w).
Proof. intros H. apply (cumsum_from_sorted w 0 H). Qed.

(** ** counting the terms of an arithmetic progression below a threshold *)
Lemma filter_map_length {A B} (f : B -> bool) (g : A -> B) l :
  length (filter f (map g l)) = length (filter (fun x => f (g x)) l).
Proof. induction l as [|x l IH]; [reflexivity|]. cbn [map filter]. destruct (f (g x)); cbn [length]; now rewrite IH. Qed.

Lemma count_below_seq k : forall M : Z, (0 <= M)%Z ->
  length (filter (fun i => (Z.of_nat i <? M)%Z) (seq 0 k)) = Z.to_nat (Z.min M (Z.of_nat k)).
Proof.
  induction k as [|k IH]; intros M HM.
  - cbn. rewrite Z.min_r by lia. reflexivity.
  - rewrite seq_S, filter_app, app_length, IH by exact HM. cbn [plus filter].
    destruct (Z.ltb_spec (Z.of_nat k) M); cbn [length]; lia.
Qed.

Lemma count_below_seq' k : forall M : Z,
  length (filter (fun i => (Z.of_nat i <? M)%Z) (seq 0 k)) = Z.to_nat (Z.min M (Z.of_nat k)).
Proof.
  induction k as [|k IH]; intros M.
  - cbn [seq filter length]. lia.
  - rewrite seq_S, filter_app, app_length, IH. cbn [plus filter].
    destruct (Z.ltb_spec (Z.of_nat k) M); cbn [length]; lia.
Qed.

Lemma between_split (l : list Q) lo hi : lo <= hi ->
  (length (filter (fun p => Qle_bool lo p && negb (Qle_bool hi p)) l) + length (filter (fun p => negb (Qle_bool lo p)) l)
   = length (filter (fun p => negb (Qle_bool hi p)) l))%nat.
Proof.
  intros H. induction l as [|p l IH]; [reflexivity|]. cbn [filter].
  destruct (Qle_bool lo p) eqn:E1, (Qle_bool hi p) eqn:E2; cbn [andb negb length]; try lia.
  exfalso. apply Qle_bool_iff in E2. assert (Hc : lo <= p) by lra. apply Qle_bool_iff in Hc. congruence.
Qed.

Section Progression.
Variables (off d : Q) (k : nat).
Hypothesis Hd : 0 < d.
Let g (i : nat) : Q := off + d * inject_Z (Z.of_nat i).

Lemma prog_below_pointwise x i : negb (Qle_bool x (g i)) = (Z.of_nat i <? Qceiling ((x - off) / d))%Z.
Proof.
  unfold g. set (y := (x - off) / d). assert (Ey : y * d == x - off) by (unfold y; field; lra).
  destruct (Z.ltb_spec (Z.of_nat i) (Qceiling y)) as [L|G].
  - (* i <= ceil y - 1 < y *)
    apply negb_true_iff. destruct (Qle_bool x (off + d * inject_Z (Z.of_nat i))) eqn:E; [|reflexivity]. exfalso.
    apply Qle_bool_iff in E. pose proof (Qceiling_lt y) as H1.
    assert (H2 : inject_Z (Z.of_nat i) <= inject_Z (Qceiling y - 1)) by (rewrite <- Zle_Qle; lia).
    assert (H3 : inject_Z (Z.of_nat i) < y) by lra.
    assert (H4 : inject_Z (Z.of_nat i) * d < y * d) by (apply Qmult_lt_r; assumption). lra.
  - apply negb_false_iff. apply Qle_bool_iff. pose proof (Qle_ceiling y) as H1.
    assert (H2 : inject_Z (Qceiling y) <= inject_Z (Z.of_nat i)) by (rewrite <- Zle_Qle; lia).
    assert (H3 : y <= inject_Z (Z.of_nat i)) by lra.
    assert (H4 : y * d <= inject_Z (Z.of_nat i) * d) by (apply Qmult_le_compat_r; lra). lra.
Qed.

Lemma prog_below x : (0 <= Qceiling ((x - off) / d))%Z ->
  length (filter (fun p => negb (Qle_bool x p)) (map g (seq 0 k))) = Z.to_nat (Z.min (Qceiling ((x - off) / d)) (Z.of_nat k)).
Proof.
  intros H0. rewrite filter_map_length. rewrite (filter_ext _ _ (prog_below_pointwise x)).
  now apply count_below_seq.
Qed.

Lemma prog_below' x :
  length (filter (fun p => negb (Qle_bool x p)) (map g (seq 0 k))) = Z.to_nat (Z.min (Qceiling ((x - off) / d)) (Z.of_nat k)).
Proof.
  rewrite filter_map_length. rewrite (filter_ext _ _ (prog_below_pointwise x)). apply count_below_seq'.
Qed.

Lemma prog_sorted : StronglySorted Qle (map g (seq 0 k)).
Proof.
  generalize 0%nat. induction k as [|k' IH]; intros s; [constructor|].
  cbn [seq map]. constructor; [apply IH|]. apply Forall_forall. intros q Hq.
  apply in_map_iff in Hq as (i & E & Hi). apply in_seq in Hi. subst q. unfold g.
  assert (H : inject_Z (Z.of_nat s) <= inject_Z (Z.of_nat i)) by (rewrite <- Zle_Qle; lia).
  assert (H2 : d * inject_Z (Z.of_nat s) <= d * inject_Z (Z.of_nat i)) by (rewrite !(Qmult_comm d); apply Qmult_le_compat_r; lra). lra.
Qed.
End Progression.

Lemma prog_sorted_nonneg (off d : Q) (k : nat) : 0 <= d ->
  StronglySorted Qle (map (fun i : nat => off + d * inject_Z (Z.of_nat i)) (seq 0 k)).
Proof.
  intros Hd. generalize 0%nat. induction k as [|k' IH]; intros s; [constructor|].
  cbn [seq map]. constructor; [apply IH|]. apply Forall_forall. intros q Hq.
  apply in_map_iff in Hq as (i & E & Hi). apply in_seq in Hi. subst q.
  assert (H : inject_Z (Z.of_nat s) <= inject_Z (Z.of_nat i)) by (rewrite <- Zle_Qle; lia).
  assert (H2 : d * inject_Z (Z.of_nat s) <= d * inject_Z (Z.of_nat i)) by (rewrite !(Qmult_comm d); apply Qmult_le_compat_r; lra). lra.
Qed.

Lemma inject_Z_minus (x y : Z) : inject_Z (x - y) = inject_Z x - inject_Z y.
Proof. unfold Z.sub, Qminus. now rewrite inject_Z_plus, inject_Z_opp. Qed.

Lemma ceil_diff (A e : Q) : (Qfloor e <= Qceiling (A + e) - Qceiling A <= Qceiling e)%Z.
Proof.
  pose proof (Qfloor_le e) as F1. pose proof (Qle_ceiling e) as C1.
  pose proof (Qle_ceiling A) as CA. pose proof (Qceiling_lt A) as CA'.
  pose proof (Qle_ceiling (A + e)) as CB. pose proof (Qceiling_lt (A + e)) as CB'.
  rewrite inject_Z_minus in CA', CB'. change (inject_Z 1) with 1 in CA', CB'.
  split.
  - (* ceil(A+e) > A + e - ... *)
    assert (H : inject_Z (Qceiling A + Qfloor e - 1) < inject_Z (Qceiling (A + e))).
    { rewrite inject_Z_minus, inject_Z_plus. change (inject_Z 1) with 1. lra. }
    rewrite <- Zlt_Qlt in H. lia.
  - assert (H : inject_Z (Qceiling (A + e) - 1) < inject_Z (Qceiling A + Qceiling e)).
    { rewrite inject_Z_minus, inject_Z_plus. change (inject_Z 1) with 1. lra. }
    rewrite <- Zlt_Qlt in H. lia.
Qed.

(** ** the ideal pointers: every position is hit floor or ceiling of its expected count *)
Lemma sus_cell_count (w : list Q) (tot : Q) (k : nat) (off : Q) (j : nat) :
  Forall (fun x => 0 <= x) w -> tot == sumQ w -> 0 < tot -> (0 < k)%nat ->
  0 <= off -> off < tot / inject_Z (Z.of_nat k) -> (j < length w)%nat ->
  (Qfloor (nth j w 0 * inject_Z (Z.of_nat k) / tot)%Q
   <= Z.of_nat (count_nat j (sus_walk (cumsum w) 0%nat (sus_ptrs_q tot k off)))
   <= Qceiling (nth j w 0 * inject_Z (Z.of_nat k) / tot)%Q)%Z.
Proof.
  intros Hw Htot Hpos Hk Hoff0 Hoff Hj.
  set (kq := inject_Z (Z.of_nat k)). set (d := tot / kq).
  assert (Hoffd : off < d) by exact Hoff.
  assert (Hkq : 0 < kq). { unfold kq. change 0 with (inject_Z 0). rewrite <- Zlt_Qlt. lia. }
  assert (Hd : 0 < d). { unfold d. apply Qlt_shift_div_l; [exact Hkq|lra]. }
  assert (Edk : d * kq == tot). { unfold d. field. lra. }
  set (g := fun i : nat => off + d * inject_Z (Z.of_nat i)).
  assert (Eptrs : sus_ptrs_q tot k off = map g (seq 0 k)) by reflexivity.
  assert (Hlen : length (cumsum w) = length w) by apply cumsum_from_length.
  (* every pointer lies in [0, tot) *)
  assert (Hrange : forall p, In p (map g (seq 0 k)) -> 0 <= p /\ p < tot).
  { intros p Hp. apply in_map_iff in Hp as (i & E & Hi). apply in_seq in Hi. subst p. unfold g.
    assert (H0 : 0 <= inject_Z (Z.of_nat i)). { change 0 with (inject_Z 0). rewrite <- Zle_Qle. lia. }
    assert (H1 : inject_Z (Z.of_nat i) <= kq - 1).
    { unfold kq. change 1 with (inject_Z 1). rewrite <- inject_Z_minus, <- Zle_Qle. lia. }
    assert (H2 : 0 <= d * inject_Z (Z.of_nat i)) by (apply Qmult_le_0_compat; lra).
    assert (H3 : d * inject_Z (Z.of_nat i) <= d * (kq - 1)) by (rewrite !(Qmult_comm d); apply Qmult_le_compat_r; lra).
    split; [lra|]. assert (d * (kq - 1) == tot - d) by (rewrite <- Edk; ring). lra. }
  rewrite walk_count; [| now apply cumsum_sorted | rewrite Eptrs; now apply prog_sorted | lia].
  set (lo := psum w j). set (hi := psum w (S j)).
  assert (Ehi : hi == lo + nth j w 0) by (apply psum_S; exact Hj).
  assert (Hwj : 0 <= nth j w 0). { rewrite Forall_forall in Hw. apply Hw, nth_In, Hj. }
  assert (Hlo0 : 0 <= lo). { unfold lo, psum. apply sumQ_nonneg. apply Forall_forall. intros x Hx.
    rewrite Forall_forall in Hw. apply Hw. rewrite <- (firstn_skipn j w). apply in_or_app. now left. }
  assert (Hhitot : hi <= tot).
  { rewrite Htot, <- psum_all. apply psum_mono; [exact Hw | lia]. }
  (* the cell test on these pointers is the interval test lo <= p < hi *)
  rewrite Eptrs.
  rewrite (filter_ext_in (in_cell (cumsum w) j) (fun p => Qle_bool lo p && negb (Qle_bool hi p))).
  2:{ intros p Hp. destruct (Hrange p Hp) as [P0 P1]. unfold in_cell. rewrite Hlen. f_equal.
      - destruct j as [|j']; cbn [Nat.eqb orb].
        + symmetry. apply Qle_bool_iff. unfold lo, psum. cbn. exact P0.
        + replace (S j' - 1)%nat with j' by lia. apply Qleb_comp; [|reflexivity].
          unfold lo. apply cumsum_nth. lia.
      - assert (E : Qle_bool (nth j (cumsum w) 0) p = Qle_bool hi p).
        { apply Qleb_comp; [|reflexivity]. unfold hi. now apply cumsum_nth. }
        rewrite E. destruct (Nat.eqb_spec j (length w - 1)) as [Ej|Nj]; [|reflexivity].
        cbn [orb]. symmetry. apply negb_true_iff. destruct (Qle_bool hi p) eqn:E2; [|reflexivity]. exfalso.
        apply Qle_bool_iff in E2. assert (Ehi2 : hi == tot).
        { unfold hi. rewrite Htot, <- psum_all. replace (S j) with (length w) by lia. reflexivity. }
        lra. }
  pose proof (between_split (map g (seq 0 k)) lo hi ltac:(lra)) as Hsplit.
  (* both thresholds lie in [0, tot]: the ceilings are in 0..k *)
  assert (Hceil : forall x, 0 <= x -> x <= tot ->
            (0 <= Qceiling ((x - off) / d) <= Z.of_nat k)%Z).
  { intros x X0 X1. split.
    - assert (H : inject_Z (-1) < inject_Z (Qceiling ((x - off) / d))).
      { pose proof (Qle_ceiling ((x - off) / d)) as C. change (inject_Z (-1)) with (-(1)).
        assert (-(1) < (x - off) / d). { apply Qlt_shift_div_l; [exact Hd|]. lra. } lra. }
      rewrite <- Zlt_Qlt in H. lia.
    - assert (H : (x - off) / d <= kq). { apply Qle_shift_div_r; [exact Hd|]. rewrite (Qmult_comm kq d), Edk. lra. }
      apply Qceiling_resp_le in H. unfold kq in H. rewrite Qceiling_Z in H. exact H. }
  destruct (Hceil lo Hlo0 ltac:(lra)) as [A0 A1]. destruct (Hceil hi ltac:(lra) Hhitot) as [B0 B1].
  unfold g in Hsplit |- *.
  rewrite (prog_below off d k Hd lo A0), (prog_below off d k Hd hi B0) in Hsplit.
  rewrite Z.min_l in Hsplit by lia. rewrite Z.min_l in Hsplit by lia.
  pose proof (ceil_diff ((lo - off) / d) (nth j w 0 * kq / tot)) as CD.
  assert (EB : (lo - off) / d + nth j w 0 * kq / tot == (hi - off) / d).
  { unfold d. rewrite Ehi. field. split; lra. }
  rewrite (Qceiling_comp _ _ EB) in CD.
  lia.
Qed.

(** ** perturbed pointers and boundaries: every position is hit at most one draw away from floor/ceiling *)
Lemma filter_length_F2 {A B} (f : A -> bool) (h : B -> bool) l l' :
  Forall2 (fun a b => f a = true -> h b = true) l l' -> (length (filter f l) <= length (filter h l'))%nat.
Proof.
  induction 1 as [|a b l l' Hab _ IH]; [cbn; lia|]. cbn [filter]. destruct (f a) eqn:E.
  - rewrite (Hab eq_refl). cbn [length]. lia.
  - destruct (h b); cbn [length]; lia.
Qed.

Lemma Forall2_impl_in {A B} (P R : A -> B -> Prop) l l' :
  Forall2 P l l' -> (forall a b, In a l -> In b l' -> P a b -> R a b) -> Forall2 R l l'.
Proof.
  induction 1 as [|a b l l' Hab _ IH]; intros H; constructor.
  - apply H; [now left | now left | exact Hab].
  - apply IH. intros x y Hx Hy. apply H; now right.
Qed.

Lemma Forall2_swap {A B} (R : A -> B -> Prop) l l' : Forall2 R l l' -> Forall2 (fun b a => R a b) l' l.
Proof. induction 1; constructor; assumption. Qed.

Lemma Forall2_nth_both {A B} (R : A -> B -> Prop) (da : A) (db : B) l l' :
  Forall2 R l l' -> forall t, (t < length l)%nat -> R (nth t l da) (nth t l' db).
Proof.
  induction 1 as [|a b l l' Hab _ IH]; intros t Ht; [cbn in Ht; lia|].
  destruct t as [|t]; [exact Hab|]. cbn [nth]. apply IH. cbn [length] in Ht. lia.
Qed.

Lemma Forall2_len {A B} (R : A -> B -> Prop) l l' : Forall2 R l l' -> length l = length l'.
Proof. induction 1; cbn [length]; congruence. Qed.

Definition betw (lo hi p : Q) : bool := Qle_bool lo p && negb (Qle_bool hi p).

Lemma betw_true lo hi p : betw lo hi p = true <-> lo <= p /\ p < hi.
Proof.
  unfold betw. rewrite andb_true_iff, negb_true_iff, Qle_bool_iff. split; intros [H1 H2]; (split; [exact H1|]).
  - destruct (Qlt_le_dec p hi) as [L|G]; [exact L|]. apply Qle_bool_iff in G. congruence.
  - destruct (Qle_bool hi p) eqn:E; [|reflexivity]. apply Qle_bool_iff in E. lra.
Qed.

Lemma walk_robust (w : list Q) (tot : Q) (k : nat) (off dp dc : Q) (cs' ptrs' : list Q) (j : nat) :
  Forall (fun x => 0 <= x) w -> tot == sumQ w -> 0 < tot -> (0 < k)%nat ->
  0 <= dp -> 0 <= dc -> 2 * (dp + dc) < tot / inject_Z (Z.of_nat k) ->
  0 <= off -> off < tot / inject_Z (Z.of_nat k) + (dp + dc) -> (j < length w)%nat ->
  StronglySorted Qle cs' -> StronglySorted Qle ptrs' ->
  Forall2 (fun a b => b - dc <= a /\ a <= b + dc) cs' (cumsum w) ->
  Forall2 (fun a b => b - dp <= a /\ a <= b + dp) ptrs' (sus_ptrs_q tot k off) ->
  (Qfloor (nth j w 0 * inject_Z (Z.of_nat k) / tot)%Q - 1
   <= Z.of_nat (count_nat j (sus_walk cs' 0%nat ptrs'))
   <= Qceiling (nth j w 0 * inject_Z (Z.of_nat k) / tot)%Q + 1)%Z.
Proof.
  intros Hw Htot Hpos Hk Hdp Hdc Heta Hoff0 Hoff Hj Scs Sptrs Ccs Cptrs.
  set (kq := inject_Z (Z.of_nat k)) in *. set (d := tot / kq) in *. set (eta := dp + dc) in *.
  assert (Hkq : 0 < kq). { unfold kq. change 0 with (inject_Z 0). rewrite <- Zlt_Qlt. lia. }
  assert (Hd : 0 < d). { unfold d. apply Qlt_shift_div_l; [exact Hkq|lra]. }
  assert (Edk : d * kq == tot). { unfold d. field. lra. }
  assert (Heta0 : 0 <= eta) by (unfold eta; lra).
  set (g := fun i : nat => off + d * inject_Z (Z.of_nat i)).
  assert (Eptrs : sus_ptrs_q tot k off = map g (seq 0 k)) by reflexivity.
  rewrite Eptrs in Cptrs.
  assert (Lcs : length cs' = length w). { rewrite (Forall2_len _ _ _ Ccs). apply cumsum_from_length. }
  (* every ideal pointer lies in [0, tot + eta) *)
  assert (Hrange : forall p, In p (map g (seq 0 k)) -> 0 <= p /\ p < tot + eta).
  { intros p Hp. apply in_map_iff in Hp as (i & E & Hi). apply in_seq in Hi. subst p. unfold g.
    assert (H0 : 0 <= inject_Z (Z.of_nat i)). { change 0 with (inject_Z 0). rewrite <- Zle_Qle. lia. }
    assert (H1 : inject_Z (Z.of_nat i) <= kq - 1).
    { unfold kq. change 1 with (inject_Z 1). rewrite <- inject_Z_minus, <- Zle_Qle. lia. }
    assert (H2 : 0 <= d * inject_Z (Z.of_nat i)) by (apply Qmult_le_0_compat; lra).
    assert (H3 : d * inject_Z (Z.of_nat i) <= d * (kq - 1)) by (rewrite !(Qmult_comm d); apply Qmult_le_compat_r; lra).
    split; [lra|]. assert (d * (kq - 1) == tot - d) by (rewrite <- Edk; ring). lra. }
  rewrite walk_count; [| exact Scs | exact Sptrs | lia].
  set (lo := psum w j). set (hi := psum w (S j)).
  assert (Ehi : hi == lo + nth j w 0) by (apply psum_S; exact Hj).
  assert (Hwj : 0 <= nth j w 0). { rewrite Forall_forall in Hw. apply Hw, nth_In, Hj. }
  assert (Hlo0 : 0 <= lo). { unfold lo, psum. apply sumQ_nonneg. apply Forall_forall. intros x Hx.
    rewrite Forall_forall in Hw. apply Hw. rewrite <- (firstn_skipn j w). apply in_or_app. now left. }
  assert (Hhitot : hi <= tot). { rewrite Htot, <- psum_all. apply psum_mono; [exact Hw | lia]. }
  (* the boundaries actually used are within dc of lo (for j >= 1) and hi *)
  assert (Clo : (1 <= j)%nat -> lo - dc <= nth (j - 1) cs' 0 /\ nth (j - 1) cs' 0 <= lo + dc).
  { intros Hj1. pose proof (Forall2_nth_both _ 0 0 _ _ Ccs (j - 1)%nat ltac:(lia)) as H. cbn beta in H.
    assert (E : nth (j - 1) (cumsum w) 0 == lo).
    { rewrite cumsum_nth by lia. unfold lo. replace (S (j - 1)) with j by lia. reflexivity. }
    rewrite E in H. exact H. }
  assert (Chi : hi - dc <= nth j cs' 0 /\ nth j cs' 0 <= hi + dc).
  { pose proof (Forall2_nth_both _ 0 0 _ _ Ccs j ltac:(lia)) as H. cbn beta in H.
    assert (E : nth j (cumsum w) 0 == hi) by (now apply cumsum_nth). rewrite E in H. exact H. }
  assert (Elast : j = (length w - 1)%nat -> hi == tot).
  { intros Ej. unfold hi. rewrite Htot, <- psum_all. replace (S j) with (length w) by lia. reflexivity. }
  assert (Elo0 : j = 0%nat -> lo == 0) by (intros ->; reflexivity).
  set (e := nth j w 0 * kq / tot).
  assert (He0 : 0 <= e). { unfold e. apply Qle_shift_div_l; [exact Hpos|]. rewrite Qmult_0_l. apply Qmult_le_0_compat; lra. }
  set (theta := 2 * eta / d).
  assert (Hth0 : 0 <= theta). { unfold theta. apply Qle_shift_div_l; [exact Hd|]. lra. }
  assert (Hth1 : theta < 1). { unfold theta. apply Qlt_shift_div_r; [exact Hd|]. lra. }
  split.
  - (* lower bound: the ideal pointers well inside the cell are selected *)
    destruct (Qlt_le_dec (hi - eta) (lo + eta)) as [Small|Big].
    + (* the cell is narrower than 2 eta < d: expected count below one *)
      assert (He1 : e < 1).
      { unfold e. apply Qlt_shift_div_r; [exact Hpos|]. assert (nth j w 0 < d) by lra.
        assert (nth j w 0 * kq < d * kq) by (apply Qmult_lt_r; assumption). lra. }
      pose proof (Qfloor_le e) as F1.
      assert (H : inject_Z (Qfloor e) < inject_Z 1) by (change (inject_Z 1) with 1; lra).
      rewrite <- Zlt_Qlt in H. lia.
    + assert (HF : Forall2 (fun b a => betw (lo + eta) (hi - eta) b = true -> in_cell cs' j a = true) (map g (seq 0 k)) ptrs').
      { apply (Forall2_swap (fun a b => betw (lo + eta) (hi - eta) b = true -> in_cell cs' j a = true)).
        eapply Forall2_impl_in; [exact Cptrs|]. cbn beta. intros a b _ _ [Ca1 Ca2] Hb.
        apply betw_true in Hb as [B1 B2]. unfold in_cell. apply andb_true_iff. split.
        - destruct (Nat.eqb_spec j 0) as [|Nj]; [reflexivity|]. cbn [orb]. apply Qle_bool_iff.
          destruct (Clo ltac:(lia)) as [_ C]. unfold eta in *. lra.
        - rewrite Lcs. destruct (Nat.eqb_spec j (length w - 1)) as [|Nj]; [reflexivity|]. cbn [orb]. apply negb_true_iff.
          destruct (Qle_bool (nth j cs' 0) a) eqn:E; [|reflexivity]. exfalso. apply Qle_bool_iff in E.
          destruct Chi as [C _]. unfold eta in *. lra. }
      pose proof (filter_length_F2 _ _ _ _ HF) as Hle.
      pose proof (between_split (map g (seq 0 k)) (lo + eta) (hi - eta) Big) as Hsplit.
      fold (betw (lo + eta) (hi - eta)) in Hsplit.
      unfold g in Hsplit. rewrite !(prog_below' off d k Hd) in Hsplit. fold g in Hsplit.
      set (Bhi := Qceiling ((hi - eta - off) / d)) in *. set (Blo := Qceiling ((lo + eta - off) / d)) in *.
      assert (HBlo : (0 <= Blo)%Z).
      { assert (H : inject_Z (-1) < inject_Z Blo).
        { pose proof (Qle_ceiling ((lo + eta - off) / d)) as C. fold Blo in C. change (inject_Z (-1)) with (-(1)).
          assert (-(1) < (lo + eta - off) / d). { apply Qlt_shift_div_l; [exact Hd|]. unfold eta in *. lra. } lra. }
        rewrite <- Zlt_Qlt in H. lia. }
      assert (HBhi : (Bhi <= Z.of_nat k)%Z).
      { assert (H : (hi - eta - off) / d <= kq). { apply Qle_shift_div_r; [exact Hd|]. rewrite (Qmult_comm kq d), Edk. lra. }
        apply Qceiling_resp_le in H. unfold kq in H. rewrite Qceiling_Z in H. exact H. }
      pose proof (ceil_diff ((lo + eta - off) / d) (e - theta)) as CD.
      assert (EB : (lo + eta - off) / d + (e - theta) == (hi - eta - off) / d).
      { unfold e, theta, d. rewrite Ehi. field. split; lra. }
      rewrite (Qceiling_comp _ _ EB) in CD. fold Bhi Blo in CD.
      (* floor (e - theta) >= floor e - 1 *)
      assert (HFl : (Qfloor e - 1 <= Qfloor (e - theta))%Z).
      { pose proof (Qfloor_le e) as F1. pose proof (Qlt_floor (e - theta)) as F2.
        assert (H : inject_Z (Qfloor e - 1) < inject_Z (Qfloor (e - theta) + 1)).
        { rewrite inject_Z_minus. change (inject_Z 1) with 1. lra. }
        rewrite <- Zlt_Qlt in H. lia. }
      fold e. fold g in Hle. lia.
  - (* upper bound: a selected pointer's ideal pointer lies in the cell widened by eta *)
    assert (HF : Forall2 (fun a b => in_cell cs' j a = true -> betw (lo - eta) (hi + eta) b = true) ptrs' (map g (seq 0 k))).
    { eapply Forall2_impl_in; [exact Cptrs|]. cbn beta. intros a b _ Hb [Ca1 Ca2] Hc.
      destruct (Hrange b Hb) as [R0 R1]. apply betw_true. unfold in_cell in Hc. apply andb_true_iff in Hc as [H1 H2].
      rewrite Lcs in H2. split.
      - destruct (Nat.eqb_spec j 0) as [Ej|Nj].
        + rewrite (Elo0 Ej). lra.
        + cbn [orb] in H1. apply Qle_bool_iff in H1. destruct (Clo ltac:(lia)) as [C _]. unfold eta in *. lra.
      - destruct (Nat.eqb_spec j (length w - 1)) as [Ej|Nj].
        + rewrite (Elast Ej). exact R1.
        + cbn [orb] in H2. apply negb_true_iff in H2.
          destruct (Qlt_le_dec a (nth j cs' 0)) as [L|G]; [|apply Qle_bool_iff in G; congruence].
          destruct Chi as [_ C]. unfold eta in *. lra. }
    pose proof (filter_length_F2 _ _ _ _ HF) as Hle.
    pose proof (between_split (map g (seq 0 k)) (lo - eta) (hi + eta) ltac:(lra)) as Hsplit.
    fold (betw (lo - eta) (hi + eta)) in Hsplit.
    unfold g in Hsplit. rewrite !(prog_below' off d k Hd) in Hsplit. fold g in Hsplit.
    set (Ahi := Qceiling ((hi + eta - off) / d)) in *. set (Alo := Qceiling ((lo - eta - off) / d)) in *.
    pose proof (ceil_diff ((lo - eta - off) / d) (e + theta)) as CD.
    assert (EB : (lo - eta - off) / d + (e + theta) == (hi + eta - off) / d).
    { unfold e, theta, d. rewrite Ehi. field. split; lra. }
    rewrite (Qceiling_comp _ _ EB) in CD. fold Ahi Alo in CD.
    pose proof (ceil_diff e theta) as CD2.
    assert (HC1 : (Qceiling theta <= 1)%Z).
    { pose proof (Qceiling_lt theta) as C. assert (H : inject_Z (Qceiling theta - 1) < inject_Z 1) by (change (inject_Z 1) with 1; lra).
      rewrite <- Zlt_Qlt in H. lia. }
    assert (HC0 : (0 <= Qceiling e)%Z).
    { pose proof (Qle_ceiling e) as C. assert (H : inject_Z (-1) < inject_Z (Qceiling e)) by (change (inject_Z (-1)) with (-(1)); lra).
      rewrite <- Zlt_Qlt in H. lia. }
    fold e. fold g in Hle. lia.
Qed.

(** ** from positions in the sorted order back to element indices, through the shuffle *)
Lemma sumQ_Permutation l l' : Permutation l l' -> sumQ l == sumQ l'.
Proof.
  induction 1 as [|x l l' _ IH|x y l|l l' l'' _ IH1 _ IH2]; rewrite ?sumQ_cons; lra.
Qed.

Lemma nth_nonneg (p : list Q) i : Forall (fun x => 0 <= x) p -> 0 <= nth i p 0.
Proof.
  intros H. destruct (Nat.lt_ge_cases i (length p)) as [L|G].
  - rewrite Forall_forall in H. apply H, nth_In, L.
  - rewrite nth_overflow by exact G. lra.
Qed.

Lemma gather_nth {A} (d : A) (x : list A) (ix : list nat) j : (j < length ix)%nat ->
  nth j (gather d x ix) d = nth (nth j ix 0%nat) x d.
Proof.
  intros Hj. unfold gather. rewrite (nth_indep _ d (nth 0%nat x d)) by (rewrite map_length; exact Hj).
  now rewrite (map_nth (fun i => nth i x d)).
Qed.

Lemma gather_count (order walk : list nat) j : NoDup order -> (j < length order)%nat ->
  Forall (fun ix => (ix < length order)%nat) walk ->
  count_nat (nth j order 0%nat) (gather 0%nat order walk) = count_nat j walk.
Proof.
  intros Hnd Hj Hw. unfold gather. rewrite count_nat_map_filter.
  rewrite <- (map_id walk) at 2. rewrite count_nat_map_filter.
  f_equal. apply filter_ext_in. intros ix Hix. rewrite Forall_forall in Hw. specialize (Hw ix Hix).
  destruct (Nat.eqb_spec ix j) as [E|NE].
  - subst. apply Nat.eqb_refl.
  - apply Nat.eqb_neq. intros E. apply NE. eapply NoDup_nth; eauto.
Qed.

(** *** the walk never leaves the cumulative sums it is given (any pointers, sorted or not) *)
Lemma walk_bound ptrs : forall cs ix, Forall (fun i => (i <= ix + (length cs - 1))%nat) (sus_walk cs ix ptrs).
Proof.
  induction ptrs as [|p rest IH]; intros cs ix; [constructor|].
  cbn [sus_walk]. rewrite advance_locate. pose proof (locate_bound cs p) as Hb. constructor; [lia|].
  eapply Forall_impl; [|apply IH]. cbn beta. intros a Ha. rewrite skipn_length in Ha. lia.
Qed.

(** *** the elements of positive weight: in a non-increasing layout they come first *)
Lemma npos_cons x t : npos (x :: t) = if Qle_bool x 0 then npos t else S (npos t).
Proof. unfold npos. cbn [filter]. destruct (Qle_bool x 0); reflexivity. Qed.

Lemma npos_le_length w : (npos w <= length w)%nat.
Proof. induction w as [|x t IH]; [cbn; lia|]. rewrite npos_cons. cbn [length]. destruct (Qle_bool x 0); lia. Qed.

Lemma npos_Permutation l l' : Permutation l l' -> npos l = npos l'.
Proof.
  induction 1 as [|x l l' _ IH|x y l|l l' l'' _ IH1 _ IH2]; [reflexivity| | |congruence].
  - rewrite !npos_cons, IH. reflexivity.
  - rewrite !npos_cons. destruct (Qle_bool x 0), (Qle_bool y 0); reflexivity.
Qed.

Lemma npos_zero_all w : Forall (fun y => y <= 0) w -> npos w = 0%nat.
Proof.
  induction 1 as [|x t Hx _ IH]; [reflexivity|]. rewrite npos_cons.
  apply Qle_bool_iff in Hx. now rewrite Hx.
Qed.

Lemma npos_zero_inv w : npos w = 0%nat -> Forall (fun y => y <= 0) w.
Proof.
  induction w as [|x t IH]; [constructor|]. rewrite npos_cons. destruct (Qle_bool x 0) eqn:E; [|discriminate].
  intros H. constructor; [now apply Qle_bool_iff | now apply IH].
Qed.

Lemma sumQ_nonpos l : Forall (fun x => x <= 0) l -> sumQ l <= 0.
Proof. induction 1 as [|x l Hx _ IH]; [cbn; lra|]. rewrite sumQ_cons. lra. Qed.

Lemma npos_ge1 w : 0 < sumQ w -> (1 <= npos w)%nat.
Proof.
  intros H. destruct (npos w) eqn:E; [|lia]. exfalso. pose proof (sumQ_nonpos w (npos_zero_inv w E)). lra.
Qed.

Lemma nonincr_tail x t : nonincr (x :: t) = true -> nonincr t = true.
Proof. destruct t as [|y t']; [reflexivity|]. cbn [nonincr]. intros H. now apply andb_prop in H as [_ H]. Qed.

Lemma nonincr_head_ge t : forall x, nonincr (x :: t) = true -> Forall (fun y => y <= x) t.
Proof.
  induction t as [|y t' IH]; intros x H; [constructor|].
  cbn [nonincr] in H. apply andb_prop in H as [H1 H2]. apply Qle_bool_iff in H1.
  constructor; [exact H1|]. eapply Forall_impl; [|apply (IH y H2)]. cbn beta. intros a Ha. lra.
Qed.

Lemma npos_split w : Forall (fun x => 0 <= x) w -> nonincr w = true ->
  Forall (fun x => 0 < x) (firstn (npos w) w) /\ Forall (fun x => x == 0) (skipn (npos w) w).
Proof.
  induction w as [|x t IH]; intros Hw Hs; [split; constructor|].
  inversion Hw as [|? ? Hx Ht]; subst. rewrite npos_cons. destruct (Qle_bool x 0) eqn:E.
  - apply Qle_bool_iff in E. pose proof (nonincr_head_ge t x Hs) as Hle.
    assert (Hz : Forall (fun y => y <= 0) t) by (eapply Forall_impl; [|exact Hle]; cbn beta; intros a Ha; lra).
    rewrite (npos_zero_all t Hz). cbn [firstn skipn]. split; [constructor|].
    constructor; [lra|]. rewrite Forall_forall in Hz, Ht |- *. intros y Hy. specialize (Hz y Hy). specialize (Ht y Hy). cbn beta in *. lra.
  - destruct (IH Ht (nonincr_tail x t Hs)) as [F1 F2]. cbn [firstn skipn]. split; [|exact F2].
    constructor; [|exact F1]. destruct (Qlt_le_dec 0 x) as [L|G]; [exact L|]. apply Qle_bool_iff in G. congruence.
Qed.

Lemma nth_firstn_lt {A} (d : A) : forall n (l : list A) i, (i < n)%nat -> nth i (firstn n l) d = nth i l d.
Proof.
  induction n as [|n IH]; intros l i Hi; [lia|]. destruct l as [|x t]; [reflexivity|].
  destruct i as [|i]; [reflexivity|]. cbn [firstn nth]. apply IH. lia.
Qed.

Lemma Forall_firstn_nth {A} (P : A -> Prop) (d : A) n (l : list A) i :
  Forall P (firstn n l) -> (i < n)%nat -> (i < length l)%nat -> P (nth i l d).
Proof.
  intros H Hi Hl. rewrite <- (nth_firstn_lt d n l i Hi). rewrite Forall_forall in H. apply H, nth_In.
  rewrite firstn_length. lia.
Qed.

Lemma Forall_skipn_nth {A} (P : A -> Prop) (d : A) : forall n (l : list A) i,
  Forall P (skipn n l) -> (n <= i)%nat -> (i < length l)%nat -> P (nth i l d).
Proof.
  induction n as [|n IH]; intros l i H Hn Hl.
  - cbn [skipn] in H. rewrite Forall_forall in H. now apply H, nth_In.
  - destruct l as [|x t]; [cbn in Hl; lia|]. destruct i as [|i]; [lia|]. cbn [skipn] in H. cbn [nth length] in *.
    apply IH; [exact H | lia | lia].
Qed.

Lemma sumQ_app l l' : sumQ (l ++ l') == sumQ l + sumQ l'.
Proof. induction l as [|x l IH]; [cbn [app]; change (sumQ (@nil Q)) with 0; lra|]. cbn [app]. rewrite !sumQ_cons, IH. lra. Qed.

Lemma sumQ_zeros l : Forall (fun x => x == 0) l -> sumQ l == 0.
Proof. induction 1 as [|x l Hx _ IH]; [reflexivity|]. rewrite sumQ_cons, Hx, IH. lra. Qed.

Lemma cumsum_from_firstn n : forall l acc, firstn n (cumsum_from acc l) = cumsum_from acc (firstn n l).
Proof.
  induction n as [|n IH]; intros l acc; [reflexivity|]. destruct l as [|x t]; [reflexivity|].
  cbn [cumsum_from firstn]. now rewrite IH.
Qed.

Lemma Forall2_firstn {A B} (R : A -> B -> Prop) n : forall l l', Forall2 R l l' -> Forall2 R (firstn n l) (firstn n l').
Proof.
  induction n as [|n IH]; intros l l' H; [constructor|]. destruct H as [|a b l l' Hab H]; [constructor|].
  cbn [firstn]. constructor; [exact Hab | now apply IH].
Qed.

Lemma count_nat_notin i l : ~ In i l -> count_nat i l = 0%nat.
Proof. intros H. unfold count_nat. now apply count_occ_not_In. Qed.

Lemma sus_finish_some order k np cs ptrs perm : (0 < length cs)%nat -> (0 < k)%nat ->
  sus_finish order k np cs ptrs perm = Some (permute 0%nat perm (gather 0%nat order (sus_walk (firstn np cs) 0 ptrs))).
Proof.
  intros Hc Hk. unfold sus_finish. destruct (Nat.eqb_spec k 0); [lia|]. destruct cs; [cbn in Hc; lia|reflexivity].
Qed.

Lemma sus_finish_zero order np cs ptrs perm : sus_finish order 0 np cs ptrs perm = Some [].
Proof. reflexivity. Qed.

(** whatever the cumulative sums and the pointers are (exact or binary64, sorted or not): every selected element has
    positive weight — the walk is confined to the first [npos] positions of a non-increasing layout *)
Lemma finish_positive (pq : list Q) order k cs ptrs perm sel :
  Forall (fun x => 0 <= x) pq -> 0 < sumQ pq -> Permutation order (seq 0 (length pq)) ->
  nonincr (gather 0 pq order) = true -> Permutation perm (seq 0 k) -> length ptrs = k ->
  sus_finish order k (npos pq) cs ptrs perm = Some sel ->
  forall i, In i sel -> (i < length pq)%nat /\ 0 < nth i pq 0.
Proof.
  intros Hp Htot Hord Hs Hperm Lptrs H i Hi.
  unfold sus_finish in H. destruct (Nat.eqb k 0); [injection H as <-; destruct Hi|].
  destruct cs as [|c0 cs0]; [discriminate|]. injection H as <-.
  set (w := gather 0 pq order) in *. set (cs := c0 :: cs0) in *.
  set (walk := sus_walk (firstn (npos pq) cs) 0 ptrs) in *.
  assert (Lord : length order = length pq) by (rewrite (Permutation_length Hord); apply seq_length).
  assert (Lw : length w = length pq) by (unfold w, gather; now rewrite map_length).
  assert (Pw : Permutation w pq) by (apply (permute_Permutation 0 order pq); exact Hord).
  assert (En : npos w = npos pq) by (now apply npos_Permutation).
  assert (Hw : Forall (fun x => 0 <= x) w) by (eapply Permutation_Forall; [symmetry; exact Pw | exact Hp]).
  assert (Hn1 : (1 <= npos pq)%nat). { rewrite <- En. apply npos_ge1. rewrite (sumQ_Permutation _ _ Pw). exact Htot. }
  destruct (npos_split w Hw Hs) as [Fpos _]. rewrite En in Fpos.
  unfold permute in Hi. apply in_map_iff in Hi as (t & Et & Ht).
  assert (Lwalk : length walk = k) by (unfold walk; now rewrite walk_length).
  assert (Ht' : (t < k)%nat). { apply (Permutation_in _ Hperm) in Ht. apply in_seq in Ht. lia. }
  assert (Hin : In i (gather 0%nat order walk)).
  { rewrite <- Et. apply nth_In. unfold gather. now rewrite map_length, Lwalk. }
  unfold gather in Hin. apply in_map_iff in Hin as (pos & Ei & Hpos).
  assert (Bpos : (pos < npos pq)%nat).
  { pose proof (walk_bound ptrs (firstn (npos pq) cs) 0) as B. rewrite Forall_forall in B. specialize (B pos Hpos).
    cbn beta in B. rewrite firstn_length in B. lia. }
  pose proof (npos_le_length w) as Hnl. rewrite En, Lw in Hnl.
  assert (Hio : In i order) by (rewrite <- Ei; apply nth_In; lia).
  split.
  - apply (Permutation_in _ Hord) in Hio. apply in_seq in Hio. lia.
  - pose proof (Forall_firstn_nth (fun x => 0 < x) 0 (npos pq) w pos Fpos Bpos ltac:(lia)) as P. cbn beta in P.
    unfold w in P. rewrite gather_nth in P by lia. now rewrite Ei in P.
Qed.

Theorem sus_q_spec (p : list Q) (order : list nat) (k : nat) (off : Q) (perm : list nat) :
  Forall (fun x => 0 <= x) p -> 0 < sumQ p -> Permutation order (seq 0 (length p)) ->
  nonincr (gather 0 p order) = true ->
  ((0 < k)%nat -> 0 <= off /\ off < sumQ p / inject_Z (Z.of_nat k)) -> Permutation perm (seq 0 k) ->
  exists sel, sus_q p order k off perm = Some sel /\ length sel = k /\
    forall i, (i < length p)%nat ->
      (Qfloor (nth i p 0 * inject_Z (Z.of_nat k) / sumQ p)%Q <= Z.of_nat (count_nat i sel)
       <= Qceiling (nth i p 0 * inject_Z (Z.of_nat k) / sumQ p)%Q)%Z
      /\ (nth i p 0 == 0 -> count_nat i sel = 0%nat).
Proof.
  intros Hp Htot Hord Hsort Hoffk Hperm.
  destruct (Nat.eq_dec k 0) as [K0|K0].
  { (* an output size of zero: the empty selection *)
    subst k. exists []. split; [reflexivity|]. split; [reflexivity|]. intros i Hi.
    assert (E0 : nth i p 0 * inject_Z (Z.of_nat 0) / sumQ p == 0) by (cbn [Z.of_nat]; unfold Qdiv; change (inject_Z 0) with 0; ring).
    rewrite (Qfloor_comp _ _ E0), (Qceiling_comp _ _ E0). cbn. split; [lia | reflexivity]. }
  assert (Hk : (0 < k)%nat) by lia. destruct (Hoffk Hk) as [Hoff0 Hoff]. clear Hoffk K0.
  set (w := gather 0 p order). set (n := npos p). set (w' := firstn n w).
  assert (Lord : length order = length p) by (rewrite (Permutation_length Hord); apply seq_length).
  assert (Lw : length w = length p) by (unfold w, gather; now rewrite map_length).
  assert (Lp : (0 < length p)%nat). { destruct p; [cbn in Htot; lra | cbn; lia]. }
  assert (Lcs : length (cumsum w) = length p) by (unfold cumsum; now rewrite cumsum_from_length).
  assert (NDord : NoDup order). { eapply Permutation_NoDup; [symmetry; exact Hord | apply seq_NoDup]. }
  assert (Hw : Forall (fun x => 0 <= x) w).
  { unfold w, gather. apply Forall_forall. intros x Hx. apply in_map_iff in Hx as (i & E & _). subst. now apply nth_nonneg. }
  assert (Pw : Permutation w p). { apply (permute_Permutation 0 order p). exact Hord. }
  assert (En : npos w = n) by (now apply npos_Permutation).
  destruct (npos_split w Hw Hsort) as [Fpos Fzero]. rewrite En in Fpos, Fzero. fold w' in Fpos.
  assert (Hnl : (n <= length p)%nat). { rewrite <- En, <- Lw. apply npos_le_length. }
  assert (Lw' : length w' = n) by (unfold w'; rewrite firstn_length; lia).
  assert (Hw' : Forall (fun x => 0 <= x) w') by (eapply Forall_impl; [|exact Fpos]; cbn beta; intros a Ha; lra).
  assert (Etot : sumQ p == sumQ w').
  { rewrite <- (sumQ_Permutation _ _ Pw). rewrite <- (firstn_skipn n w) at 1. fold w'. rewrite sumQ_app, (sumQ_zeros _ Fzero). lra. }
  assert (Ecs : firstn n (cumsum w) = cumsum w') by apply cumsum_from_firstn.
  set (ptrs := sus_ptrs_q (sumQ p) k off).
  set (walk := sus_walk (cumsum w') 0 ptrs).
  assert (Lptrs : length ptrs = k) by (unfold ptrs, sus_ptrs_q; now rewrite map_length, seq_length).
  assert (Lwalk : length walk = k) by (unfold walk; now rewrite walk_length).
  assert (Lcs' : length (cumsum w') = n) by (unfold cumsum; now rewrite cumsum_from_length).
  assert (Hn1 : (1 <= n)%nat). { destruct n; [|lia]. exfalso. destruct w'; [cbn in Etot; lra | discriminate]. }
  assert (Rwalk : Forall (fun ix => (ix < n)%nat) walk).
  { pose proof (walk_bound ptrs (cumsum w') 0) as H. eapply Forall_impl; [|exact H]. cbn beta. intros a Ha. lia. }
  assert (Rwalk' : Forall (fun ix => (ix < length order)%nat) walk) by (eapply Forall_impl; [|exact Rwalk]; cbn beta; intros a Ha; lia).
  exists (permute 0%nat perm (gather 0%nat order walk)).
  split; [|split].
  - unfold sus_q. fold w. fold n. rewrite sus_finish_some by lia. rewrite Ecs. reflexivity.
  - rewrite permute_length. rewrite (Permutation_length Hperm). apply seq_length.
  - intros i Hi.
    assert (Hin : In i order). { eapply Permutation_in; [symmetry; exact Hord | apply in_seq; lia]. }
    destruct (In_nth order i 0%nat Hin) as (j & Hj & Ej).
    assert (Ecount : count_nat i (permute 0%nat perm (gather 0%nat order walk)) = count_nat j walk).
    { rewrite (count_nat_Permutation i _ (gather 0%nat order walk)).
      - rewrite <- Ej. now apply gather_count.
      - apply permute_Permutation. unfold gather. rewrite map_length, Lwalk. exact Hperm. }
    assert (Ew : nth j w 0 = nth i p 0). { unfold w. rewrite gather_nth by exact Hj. now rewrite Ej. }
    rewrite Ecount. destruct (Nat.lt_ge_cases j n) as [Jn|Jn].
    + (* an element of positive weight: the counting theorem on the positive prefix *)
      assert (Ew' : nth j w' 0 = nth i p 0) by (unfold w'; rewrite nth_firstn_lt by exact Jn; exact Ew).
      pose proof (sus_cell_count w' (sumQ p) k off j Hw' Etot Htot Hk Hoff0 Hoff ltac:(lia)) as H.
      fold ptrs in H. fold walk in H. rewrite Ew' in H. split; [exact H|].
      intros Hz. assert (E0 : nth i p 0 * inject_Z (Z.of_nat k) / sumQ p == 0) by (rewrite Hz; field; lra).
      rewrite (Qceiling_comp _ _ E0) in H. change (Qceiling 0) with 0%Z in H. lia.
    + (* an element of the zero-weight tail: never reached *)
      assert (Ec0 : count_nat j walk = 0%nat).
      { apply count_nat_notin. intros Hc. rewrite Forall_forall in Rwalk. specialize (Rwalk j Hc). cbn beta in Rwalk. lia. }
      assert (Hz : nth i p 0 == 0).
      { rewrite <- Ew. apply (Forall_skipn_nth (fun x => x == 0) 0 n w j Fzero Jn). lia. }
      assert (E0 : nth i p 0 * inject_Z (Z.of_nat k) / sumQ p == 0) by (rewrite Hz; field; lra).
      rewrite (Qfloor_comp _ _ E0), (Qceiling_comp _ _ E0), Ec0. cbn. split; [lia | reflexivity].
Qed.

Lemma SS_firstn {A} (R : A -> A -> Prop) n : forall l, StronglySorted R l -> StronglySorted R (firstn n l).
Proof.
  induction n as [|n IH]; intros l H; [constructor|]. destruct H as [|a l Hl Ha]; [constructor|].
  cbn [firstn]. constructor; [apply IH; exact Hl|].
  apply Forall_forall. intros x Hx. rewrite Forall_forall in Ha. apply Ha. rewrite <- (firstn_skipn n l). apply in_or_app. now left.
Qed.

(** perturbed pointers and cumulative sums (in particular the binary64 ones, see [sus_f_within_one]): when they stay within
    dp resp. dc of the exact ones and 2(dp+dc) is below the pointer distance, every element is drawn at most one draw
    away from floor/ceiling of its expected count; the offset may exceed the exact pointer distance by dp+dc *)
Lemma finish_within_one (pq : list Q) order k off perm (dp dc : Q) (cs' ptrs' : list Q) :
  Forall (fun x => 0 <= x) pq -> 0 < sumQ pq -> Permutation order (seq 0 (length pq)) ->
  nonincr (gather 0 pq order) = true -> (0 < k)%nat -> Permutation perm (seq 0 k) ->
  0 <= dp -> 0 <= dc -> 2 * (dp + dc) < sumQ pq / inject_Z (Z.of_nat k) ->
  0 <= off -> off < sumQ pq / inject_Z (Z.of_nat k) + (dp + dc) ->
  StronglySorted Qle cs' -> StronglySorted Qle ptrs' ->
  Forall2 (fun a b => b - dc <= a /\ a <= b + dc) cs' (cumsum (gather 0 pq order)) ->
  Forall2 (fun a b => b - dp <= a /\ a <= b + dp) ptrs' (sus_ptrs_q (sumQ pq) k off) ->
  exists sel, sus_finish order k (npos pq) cs' ptrs' perm = Some sel /\ length sel = k /\
    forall i, (i < length pq)%nat ->
      (Qfloor (nth i pq 0 * inject_Z (Z.of_nat k) / sumQ pq)%Q - 1 <= Z.of_nat (count_nat i sel)
       <= Qceiling (nth i pq 0 * inject_Z (Z.of_nat k) / sumQ pq)%Q + 1)%Z.
Proof.
  intros Hp Htot Hord Hsort Hk Hperm Hdp Hdc Heta Hoff0 Hoff Scs Sptrs Ccs Cptrs.
  set (w := gather 0 pq order) in *. set (n := npos pq). set (w' := firstn n w).
  assert (Lord : length order = length pq) by (rewrite (Permutation_length Hord); apply seq_length).
  assert (Lw : length w = length pq) by (unfold w, gather; now rewrite map_length).
  assert (Lp : (0 < length pq)%nat). { destruct pq; [cbn in Htot; lra | cbn; lia]. }
  assert (Lcs : length cs' = length pq). { rewrite (Forall2_len _ _ _ Ccs). unfold cumsum. now rewrite cumsum_from_length. }
  assert (NDord : NoDup order). { eapply Permutation_NoDup; [symmetry; exact Hord | apply seq_NoDup]. }
  assert (Pw : Permutation w pq). { apply (permute_Permutation 0 order pq). exact Hord. }
  assert (Hw : Forall (fun x => 0 <= x) w) by (eapply Permutation_Forall; [symmetry; exact Pw | exact Hp]).
  assert (En : npos w = n) by (now apply npos_Permutation).
  destruct (npos_split w Hw Hsort) as [Fpos Fzero]. rewrite En in Fpos, Fzero. fold w' in Fpos.
  assert (Hnl : (n <= length pq)%nat). { rewrite <- En, <- Lw. apply npos_le_length. }
  assert (Lw' : length w' = n) by (unfold w'; rewrite firstn_length; lia).
  assert (Hw' : Forall (fun x => 0 <= x) w') by (eapply Forall_impl; [|exact Fpos]; cbn beta; intros a Ha; lra).
  assert (Etot : sumQ pq == sumQ w').
  { rewrite <- (sumQ_Permutation _ _ Pw). rewrite <- (firstn_skipn n w) at 1. fold w'. rewrite sumQ_app, (sumQ_zeros _ Fzero). lra. }
  assert (Ecs : firstn n (cumsum w) = cumsum w') by apply cumsum_from_firstn.
  set (cs'' := firstn n cs').
  assert (Ccs'' : Forall2 (fun a b => b - dc <= a /\ a <= b + dc) cs'' (cumsum w')).
  { rewrite <- Ecs. now apply Forall2_firstn. }
  assert (Scs'' : StronglySorted Qle cs'') by (now apply SS_firstn).
  set (walk := sus_walk cs'' 0 ptrs').
  assert (Lptrs : length ptrs' = k). { rewrite (Forall2_len _ _ _ Cptrs). unfold sus_ptrs_q. now rewrite map_length, seq_length. }
  assert (Lwalk : length walk = k) by (unfold walk; now rewrite walk_length).
  assert (Lcs'' : length cs'' = n) by (unfold cs''; rewrite firstn_length; lia).
  assert (Hn1 : (1 <= n)%nat). { destruct n; [|lia]. exfalso. destruct w'; [cbn in Etot; lra | discriminate]. }
  assert (Rwalk : Forall (fun ix => (ix < n)%nat) walk).
  { pose proof (walk_bound ptrs' cs'' 0) as H. eapply Forall_impl; [|exact H]. cbn beta. intros a Ha. lia. }
  assert (Rwalk' : Forall (fun ix => (ix < length order)%nat) walk) by (eapply Forall_impl; [|exact Rwalk]; cbn beta; intros a Ha; lia).
  exists (permute 0%nat perm (gather 0%nat order walk)).
  split; [|split].
  - fold n. rewrite sus_finish_some by lia. reflexivity.
  - rewrite permute_length. rewrite (Permutation_length Hperm). apply seq_length.
  - intros i Hi.
    assert (Hin : In i order). { eapply Permutation_in; [symmetry; exact Hord | apply in_seq; lia]. }
    destruct (In_nth order i 0%nat Hin) as (j & Hj & Ej).
    assert (Ecount : count_nat i (permute 0%nat perm (gather 0%nat order walk)) = count_nat j walk).
    { rewrite (count_nat_Permutation i _ (gather 0%nat order walk)).
      - rewrite <- Ej. now apply gather_count.
      - apply permute_Permutation. unfold gather. rewrite map_length, Lwalk. exact Hperm. }
    assert (Ew : nth j w 0 = nth i pq 0). { unfold w. rewrite gather_nth by exact Hj. now rewrite Ej. }
    rewrite Ecount. destruct (Nat.lt_ge_cases j n) as [Jn|Jn].
    + assert (Ew' : nth j w' 0 = nth i pq 0) by (unfold w'; rewrite nth_firstn_lt by exact Jn; exact Ew).
      pose proof (walk_robust w' (sumQ pq) k off dp dc cs'' ptrs' j Hw' Etot Htot Hk Hdp Hdc Heta Hoff0 Hoff ltac:(lia)
                    Scs'' Sptrs Ccs'' Cptrs) as H.
      fold walk in H. rewrite Ew' in H. exact H.
    + assert (Ec0 : count_nat j walk = 0%nat).
      { apply count_nat_notin. intros Hc. rewrite Forall_forall in Rwalk. specialize (Rwalk j Hc). cbn beta in Rwalk. lia. }
      assert (Hz : nth i pq 0 == 0).
      { rewrite <- Ew. apply (Forall_skipn_nth (fun x => x == 0) 0 n w j Fzero Jn). lia. }
      assert (E0 : nth i pq 0 * inject_Z (Z.of_nat k) / sumQ pq == 0) by (rewrite Hz; field; lra).
      rewrite (Qfloor_comp _ _ E0), (Qceiling_comp _ _ E0), Ec0. cbn. lia.
Qed.

(** * 4. outcross_shuffle *)
Local Open Scope Z_scope.

Lemma swap_length i j x : length (swap i j x) = length x.
Proof. unfold swap. now rewrite map_length, seq_length. Qed.

Lemma swap_Permutation i j x : (x = [] \/ (i < length x /\ j < length x))%nat -> Permutation (swap i j x) x.
Proof.
  intros [E|[Hi Hj]]; [subst; constructor|].
  unfold swap.
  rewrite (map_ext _ (fun t => nth ((fun t => if Nat.eqb t i then j else if Nat.eqb t j then i else t) t) x 0)).
  - apply reindex_Permutation.
    + intros t Ht. destruct (Nat.eqb_spec t i), (Nat.eqb_spec t j); lia.
    + intros t u Ht Hu. destruct (Nat.eqb_spec t i), (Nat.eqb_spec t j), (Nat.eqb_spec u i), (Nat.eqb_spec u j); lia.
  - intros t. destruct (Nat.eqb t i); [reflexivity|]. destruct (Nat.eqb t j); reflexivity.
Qed.

Lemma dups_nonneg row : 0 <= dups row.
Proof.
  unfold dups. assert (length (nodup Z.eq_dec row) <= length row)%nat; [|lia].
  apply NoDup_incl_length; [apply NoDup_nodup|]. intros a Ha. now apply nodup_In in Ha.
Qed.

Lemma sumZ_nonneg l : Forall (fun z => 0 <= z) l -> 0 <= sumZ l.
Proof. induction 1 as [|z l Hz _ IH]; [cbn; lia|]. cbn [sumZ fold_right]. fold (sumZ l). lia. Qed.

Lemma score_nonneg m x : 0 <= score m x.
Proof.
  unfold score. apply sumZ_nonneg. apply Forall_forall. intros z Hz. apply in_map_iff in Hz as (r & E & _).
  subst. apply dups_nonneg.
Qed.

(** what the for loop over the exchanges finds *)
Lemma first_improving_some m x best pairs x' s : first_improving m x best pairs = Some (x', s) ->
  exists i j, In (i, j) pairs /\ x' = swap i j x /\ s = score m x' /\ s < best.
Proof.
  induction pairs as [|[i j] t IH]; [discriminate|]. cbn [first_improving].
  destruct (Z.ltb_spec (score m (swap i j x)) best) as [L|G].
  - intros E. injection E as E1 E2. subst. exists i, j. repeat split; [now left | exact L].
  - intros E. destruct (IH E) as (i' & j' & Hin & Hr). exists i', j'. split; [now right | exact Hr].
Qed.

Lemma first_improving_none m x best pairs : first_improving m x best pairs = None ->
  forall i j, In (i, j) pairs -> best <= score m (swap i j x).
Proof.
  induction pairs as [|[i j] t IH]; [intros _ i j []|]. cbn [first_improving].
  destruct (Z.ltb_spec (score m (swap i j x)) best) as [L|G]; [discriminate|].
  intros E i' j' [Hin|Hin]; [injection Hin as <- <-; exact G | now apply IH].
Qed.

Definition valid_pair (N : nat) (ij : nat * nat) : Prop := (N = 0 \/ (fst ij < N /\ snd ij < N))%nat.

Lemma permute_valid N pm exch : Forall (valid_pair N) exch -> Forall (valid_pair N) (permute (0%nat, 0%nat) pm exch).
Proof.
  intros H. unfold permute. apply Forall_forall. intros ij Hij. apply in_map_iff in Hij as (t & E & _). subst.
  destruct (Nat.lt_ge_cases t (length exch)) as [L|G].
  - rewrite Forall_forall in H. apply H, nth_In, L.
  - rewrite nth_overflow by exact G. unfold valid_pair. cbn. lia.
Qed.

Lemma all_pairs_valid N : Forall (valid_pair N) (all_pairs N).
Proof.
  apply Forall_forall. intros [i j] H. unfold all_pairs in H. apply in_flat_map in H as (i' & Hi & Hj).
  apply in_map_iff in Hj as (j' & E & Hj'). injection E as <- <-. apply in_seq in Hi, Hj'. right. cbn. lia.
Qed.

Lemma all_pairs_complete N i j : (i < j < N)%nat -> In (i, j) (all_pairs N).
Proof.
  intros H. unfold all_pairs. apply in_flat_map. exists i. split; [apply in_seq; lia|].
  apply in_map. apply in_seq. lia.
Qed.

(** the descent loop: multiset, monotonicity, number of passes *)
Lemma loop_spec pms : forall m x exch best n y n',
  outcross_loop pms m x exch best n = Some (y, n') ->
  best = score m x -> Forall (valid_pair (length x)) exch ->
  Permutation y x /\ score m y <= score m x /\ (n' <= n + Z.to_nat best + 1)%nat /\ (n < n')%nat.
Proof.
  induction pms as [|pm rest IH]; intros m x exch best n y n' H Hb Hv; [discriminate|].
  cbn [outcross_loop] in H.
  pose proof (permute_valid _ pm _ Hv) as Hv'.
  destruct (first_improving m x best (permute (0%nat, 0%nat) pm exch)) as [[x' s]|] eqn:Ef.
  - destruct (first_improving_some _ _ _ _ _ _ Ef) as (i & j & Hin & Ex & Es & Hlt).
    assert (Px : Permutation x' x).
    { subst x'. apply swap_Permutation. rewrite Forall_forall in Hv'. specialize (Hv' _ Hin). unfold valid_pair in Hv'. cbn in Hv'.
      destruct Hv' as [E0|Hr]; [left; now apply length_zero_iff_nil | right; exact Hr]. }
    assert (Lx : length x' = length x) by (subst x'; apply swap_length).
    destruct (IH m x' _ s (S n) y n' H Es) as (P1 & P2 & P3 & P4); [rewrite Lx; exact Hv'|].
    pose proof (score_nonneg m x'). repeat split.
    + now transitivity x'.
    + lia.
    + lia.
    + lia.
  - injection H as <- <-. pose proof (score_nonneg m x). repeat split; [reflexivity | lia | lia | lia].
Qed.

Theorem outcross_sound m x pms y n : outcross m x pms = Some (y, n) ->
  Permutation y x /\ score m y <= score m x /\ (1 <= n <= Z.to_nat (score m x) + 1)%nat.
Proof.
  unfold outcross. intros H. destruct (loop_spec _ _ _ _ _ _ _ _ H eq_refl (all_pairs_valid _)) as (P1 & P2 & P3 & P4).
  repeat split; [exact P1 | exact P2 | lia | lia].
Qed.

(** the oracle is long enough whenever it has more entries than the initial number of repeats *)
Lemma loop_terminates pms : forall m x exch best n, best = score m x ->
  (Z.to_nat best < length pms)%nat -> exists r, outcross_loop pms m x exch best n = Some r.
Proof.
  induction pms as [|pm rest IH]; intros m x exch best n Hb Hl; [cbn in Hl; lia|].
  cbn [outcross_loop].
  destruct (first_improving m x best (permute (0%nat, 0%nat) pm exch)) as [[x' s]|] eqn:Ef.
  - destruct (first_improving_some _ _ _ _ _ _ Ef) as (i & j & _ & _ & Es & Hlt).
    apply IH; [exact Es|]. pose proof (score_nonneg m x'). cbn [length] in Hl. lia.
  - eexists. reflexivity.
Qed.

Theorem outcross_terminates m x pms : (Z.to_nat (score m x) < length pms)%nat -> exists r, outcross m x pms = Some r.
Proof. intros H. unfold outcross. now apply loop_terminates. Qed.

(** it stops only at a local optimum of the 2-exchange neighbourhood (for genuine permutations of the exchange list) *)
Lemma loop_local_opt pms : forall m x exch best n y n',
  outcross_loop pms m x exch best n = Some (y, n') -> best = score m x ->
  Permutation exch (all_pairs (length x)) ->
  Forall (fun pm => Permutation pm (seq 0 (length (all_pairs (length x))))) pms ->
  forall i j, (i < j < length y)%nat -> score m y <= score m (swap i j y).
Proof.
  induction pms as [|pm rest IH]; intros m x exch best n y n' H Hb Hex Hpms i j Hij; [discriminate|].
  cbn [outcross_loop] in H. pose proof (Forall_inv Hpms) as Hpm. pose proof (Forall_inv_tail Hpms) as Hrest. cbn beta in Hpm.
  assert (Hex' : Permutation (permute (0%nat, 0%nat) pm exch) (all_pairs (length x))).
  { transitivity exch; [|exact Hex]. apply permute_Permutation. now rewrite (Permutation_length Hex). }
  destruct (first_improving m x best (permute (0%nat, 0%nat) pm exch)) as [[x' s]|] eqn:Ef.
  - destruct (first_improving_some _ _ _ _ _ _ Ef) as (i' & j' & _ & Ex & Es & _).
    assert (Lx : length x' = length x) by (subst x'; apply swap_length).
    apply (IH m x' _ s (S n) y n' H Es); [now rewrite Lx | now rewrite Lx | exact Hij].
  - injection H as <- <-. rewrite <- Hb. apply (first_improving_none _ _ _ _ Ef).
    eapply Permutation_in; [symmetry; exact Hex' | now apply all_pairs_complete].
Qed.

Theorem outcross_local_optimum m x pms y n :
  Forall (fun pm => Permutation pm (seq 0 (length (all_pairs (length x))))) pms ->
  outcross m x pms = Some (y, n) ->
  forall i j, (i < j < length y)%nat -> score m y <= score m (swap i j y).
Proof.
  intros Hpms H. unfold outcross in H. eapply loop_local_opt; eauto.
Qed.

(** * 2. tiled_choice *)
Local Open Scope nat_scope.

Lemma count_nat_app i l l' : count_nat i (l ++ l') = count_nat i l + count_nat i l'.
Proof. unfold count_nat. apply count_occ_app. Qed.

Lemma tiles_count n q i : i < n -> count_nat i (concat (repeat (seq 0 n) q)) = q.
Proof.
  intros Hi. induction q as [|q IH]; [reflexivity|]. cbn [repeat concat]. rewrite count_nat_app, IH.
  unfold count_nat. rewrite (proj1 (NoDup_count_occ' Nat.eq_dec (seq 0 n)) (seq_NoDup n 0) i); [reflexivity|].
  apply in_seq. lia.
Qed.

Lemma tiles_length n q : length (concat (repeat (seq 0 n) q)) = q * n.
Proof. induction q as [|q IH]; [reflexivity|]. cbn [repeat concat]. rewrite app_length, seq_length, IH. lia. Qed.

Definition count_z (v : Z) (l : list Z) : nat := count_occ Z.eq_dec l v.

Lemma labels_count (a : list Z) (sel : list nat) i : NoDup a -> i < length a -> Forall (fun t => t < length a) sel ->
  count_z (nth i a 0%Z) (take_labels a sel) = count_nat i sel.
Proof.
  intros Hnd Hi Hs. unfold count_z, count_nat, take_labels, gather. induction sel as [|t sel IH]; [reflexivity|].
  inversion Hs as [|? ? Ht Hs']; subst. cbn [map count_occ]. rewrite (IH Hs').
  destruct (Z.eq_dec (nth t a 0%Z) (nth i a 0%Z)) as [E|NE], (Nat.eq_dec t i) as [E'|NE']; try reflexivity.
  - exfalso. apply NE'. eapply NoDup_nth; eauto.
  - exfalso. apply NE. now subst.
Qed.

(** without replacement every option is used q or q+1 times, q+1 exactly for the options of the remainder draw *)
Theorem tiled_even (n nsample : nat) (choice perm : list nat) :
  0 < n -> NoDup choice -> Forall (fun t => t < n) choice -> length choice = nsample mod n ->
  Permutation perm (seq 0 nsample) ->
  exists sel, tiled_sel n nsample choice perm = Some sel /\ length sel = nsample /\
    Forall (fun t => t < n) sel /\
    forall i, i < n -> count_nat i sel = nsample / n + count_nat i choice /\ count_nat i choice <= 1.
Proof.
  intros Hn Hnd Hr Hl Hperm.
  assert (Lix : length (tiled_ix n nsample choice) = nsample).
  { unfold tiled_ix. rewrite app_length, tiles_length, Hl. pose proof (Nat.div_mod nsample n ltac:(lia)). lia. }
  exists (permute 0 perm (tiled_ix n nsample choice)).
  assert (Pp : Permutation (permute 0 perm (tiled_ix n nsample choice)) (tiled_ix n nsample choice)).
  { apply permute_Permutation. now rewrite Lix. }
  assert (Rix : Forall (fun t => t < n) (tiled_ix n nsample choice)).
  { unfold tiled_ix. apply Forall_app. split; [|exact Hr]. apply Forall_forall. intros t Ht.
    apply in_concat in Ht as (l & Hl' & Ht). apply repeat_spec in Hl'. subst. apply in_seq in Ht. lia. }
  split; [|split; [|split]].
  - unfold tiled_sel. destruct (Nat.eqb_spec n 0); [lia|]. rewrite Lix, Nat.eqb_refl. reflexivity.
  - rewrite permute_length. rewrite (Permutation_length Hperm). apply seq_length.
  - eapply Permutation_Forall; [symmetry; exact Pp | exact Rix].
  - intros i Hi. rewrite (count_nat_Permutation i _ _ Pp). unfold tiled_ix. rewrite count_nat_app, tiles_count by exact Hi.
    split; [reflexivity|]. unfold count_nat. now apply NoDup_count_occ.
Qed.

(** * the binary64 instance of the walk *)
From Coq Require Import PrimFloat.
Local Open Scope Q_scope.

(** exactly k draws, for every output size including zero *)
Lemma sus_f_count (p : list float) order k off perm : ((0 < k)%nat -> p <> []) -> length perm = k ->
  length order = length p ->
  exists sel, sus_f p order k off perm = Some sel /\ length sel = k.
Proof.
  intros Hp Hl Ho. destruct (Nat.eq_dec k 0) as [->|K0]; [exists []; split; reflexivity|].
  assert (Hk : (0 < k)%nat) by lia. specialize (Hp Hk).
  unfold sus_f. rewrite sus_finish_some.
  - eexists. split; [reflexivity|]. now rewrite permute_length.
  - rewrite map_length. unfold gather. destruct order as [|o os]; [destruct p; [congruence | discriminate]|].
    cbn [map fcumsum length]. lia.
  - exact Hk.
Qed.

(** an output size of zero: the empty selection, whatever the other arguments are *)
Lemma sus_f_size_zero (p : list float) order off perm : sus_f p order 0 off perm = Some [].
Proof. reflexivity. Qed.
Lemma sus_q_size_zero (p : list Q) order off perm : sus_q p order 0 off perm = Some [].
Proof. reflexivity. Qed.

(** never an element of zero weight — for the binary64 pointers and cumulative sums as they are, whatever the rounding:
    every selected element has positive weight *)
Theorem sus_f_no_zero_weight (p : list float) order k off perm sel :
  let pq := map f2q p in
  Forall (fun x => 0 <= x) pq -> 0 < sumQ pq -> Permutation order (seq 0 (length p)) ->
  nonincr (gather 0 pq order) = true -> Permutation perm (seq 0 k) ->
  sus_f p order k off perm = Some sel ->
  (forall i, In i sel -> (i < length p)%nat /\ 0 < nth i pq 0) /\
  (forall i, nth i pq 0 == 0 -> count_nat i sel = 0%nat).
Proof.
  intros pq Hp Htot Hord Hs Hperm H.
  assert (Lpq : length pq = length p) by (unfold pq; apply map_length).
  assert (A : forall i, In i sel -> (i < length pq)%nat /\ 0 < nth i pq 0).
  { unfold sus_f in H. fold pq in H. eapply (finish_positive pq order k _ _ perm sel Hp Htot); [ | exact Hs | exact Hperm | | exact H].
    - now rewrite Lpq.
    - unfold sus_ptrs_f. now rewrite !map_length, seq_length. }
  split.
  - intros i Hi. rewrite <- Lpq. now apply A.
  - intros i Hz. apply count_nat_notin. intros Hi. destruct (A i Hi) as [_ P]. lra.
Qed.

(** the binary64 walk is at most one draw per element away from floor/ceiling, under explicit closeness of the binary64
    pointers and cumulative sums to the exact ones ([sus_near] checks them with dp = dc = an eighth of the pointer distance) *)
Theorem sus_f_within_one (p : list float) order k off perm (dp dc : Q) :
  let pq := map f2q p in
  Forall (fun x => 0 <= x) pq -> 0 < sumQ pq -> Permutation order (seq 0 (length p)) ->
  nonincr (gather 0 pq order) = true -> (0 < k)%nat -> Permutation perm (seq 0 k) ->
  0 <= dp -> 0 <= dc -> 2 * (dp + dc) < sumQ pq / inject_Z (Z.of_nat k) ->
  0 <= f2q off -> f2q off < sumQ pq / inject_Z (Z.of_nat k) + (dp + dc) ->
  StronglySorted Qle (map f2q (fcumsum (gather 0%float p order))) ->
  StronglySorted Qle (map f2q (sus_ptrs_f (fsum p) k off)) ->
  Forall2 (fun a b => b - dc <= a /\ a <= b + dc) (map f2q (fcumsum (gather 0%float p order))) (cumsum (gather 0 pq order)) ->
  Forall2 (fun a b => b - dp <= a /\ a <= b + dp) (map f2q (sus_ptrs_f (fsum p) k off)) (sus_ptrs_q (sumQ pq) k (f2q off)) ->
  exists sel, sus_f p order k off perm = Some sel /\ length sel = k /\
    forall i, (i < length p)%nat ->
      (Qfloor (nth i pq 0 * inject_Z (Z.of_nat k) / sumQ pq)%Q - 1 <= Z.of_nat (count_nat i sel)
       <= Qceiling (nth i pq 0 * inject_Z (Z.of_nat k) / sumQ pq)%Q + 1)%Z.
Proof.
  intros pq Hp Htot Hord Hsort Hk Hperm Hdp Hdc Heta Hoff0 Hoff Scs Sptrs Ccs Cptrs.
  assert (Lpq : length pq = length p) by (unfold pq; apply map_length).
  rewrite <- Lpq in Hord.
  destruct (finish_within_one pq order k (f2q off) perm dp dc _ _ Hp Htot Hord Hsort Hk Hperm Hdp Hdc Heta Hoff0 Hoff Scs Sptrs Ccs Cptrs)
    as (sel & E & L & C).
  exists sel. split; [exact E|]. split; [exact L|]. intros i Hi. apply C. now rewrite Lpq.
Qed.

Lemma list_eqb_Forall2 {A} (f : A -> A -> bool) l : forall l', list_eqb f l l' = true -> Forall2 (fun a b => f a b = true) l l'.
Proof.
  induction l as [|a l IH]; intros [|b l'] H; cbn [list_eqb] in H; try discriminate; [constructor|].
  apply andb_prop in H as [H1 H2]. constructor; [exact H1 | now apply IH].
Qed.

Lemma qnear_sound e a b : qnear e a b = true -> b - e <= a /\ a <= b + e.
Proof. unfold qnear. intros H. apply andb_prop in H as [H1 H2]. split; now apply Qle_bool_iff. Qed.

Lemma nondecr_sorted l : nondecr l = true -> StronglySorted Qle l.
Proof.
  induction l as [|x t IH]; intros H; [constructor|]. destruct t as [|y t'].
  - constructor; constructor.
  - cbn [nondecr] in H. apply andb_prop in H as [H1 H2]. apply Qle_bool_iff in H1. specialize (IH H2).
    constructor; [exact IH|]. inversion IH as [|? ? _ Hall]; subst. constructor; [exact H1|].
    eapply Forall_impl; [|exact Hall]. cbn beta. intros a Ha. lra.
Qed.

(** the computational check made for every generated case implies the numerical hypotheses of [sus_f_within_one] *)
Lemma sus_near_sound (p : list float) order k off : (0 < k)%nat -> sus_near p order k off = true ->
  let pq := map f2q p in let e := sumQ pq / inject_Z (Z.of_nat k) / 8 in
  0 <= e /\ 0 <= f2q off /\ f2q off < sumQ pq / inject_Z (Z.of_nat k) + (e + e) /\
  StronglySorted Qle (map f2q (fcumsum (gather 0%float p order))) /\
  StronglySorted Qle (map f2q (sus_ptrs_f (fsum p) k off)) /\
  Forall2 (fun a b => b - e <= a /\ a <= b + e) (map f2q (fcumsum (gather 0%float p order))) (cumsum (gather 0 pq order)) /\
  Forall2 (fun a b => b - e <= a /\ a <= b + e) (map f2q (sus_ptrs_f (fsum p) k off)) (sus_ptrs_q (sumQ pq) k (f2q off)).
Proof.
  intros Hk H pq e. unfold sus_near in H. fold pq in H. fold e in H.
  repeat (apply andb_prop in H as [H ?]).
  repeat split.
  - now apply Qle_bool_iff.
  - now apply Qle_bool_iff.
  - match goal with Hn : negb _ = true |- _ => apply negb_true_iff in Hn; rename Hn into Hlt end.
    destruct (Qlt_le_dec (f2q off) (sumQ pq / inject_Z (Z.of_nat k) + (e + e))) as [L|G]; [exact L|].
    apply Qle_bool_iff in G. congruence.
  - now apply nondecr_sorted.
  - now apply nondecr_sorted.
  - eapply Forall2_impl_in; [apply list_eqb_Forall2; eassumption|]. cbn beta. intros a b _ _. apply qnear_sound.
  - eapply Forall2_impl_in; [apply list_eqb_Forall2; eassumption|]. cbn beta. intros a b _ _. apply qnear_sound.
Qed.

(** if every binary64 pointer falls into the same cell as the ideal pointer (and the cumulative sums are exact),
    the binary64 walk is the ideal walk *)
Lemma Forall2_map_eq {A B} (f : A -> B) l l' : Forall2 (fun a b => f a = f b) l l' -> map f l = map f l'.
Proof. induction 1 as [|a b l l' E _ IH]; [reflexivity|]. cbn [map]. now rewrite E, IH. Qed.

Lemma locate_Qeq cs : forall cs' p, Forall2 Qeq cs cs' -> locate cs p = locate cs' p.
Proof.
  induction cs as [|c t IH]; intros cs' p H; inversion H as [|? c' ? t' Ec Ht]; subst; [reflexivity|].
  destruct t as [|c2 t2]; inversion Ht as [|? c2' ? t2' Ec2 Ht2]; subst; [reflexivity|].
  rewrite !locate_cons2. rewrite (Qleb_comp c c' Ec p p (Qeq_refl p)). now rewrite (IH (c2' :: t2') p Ht).
Qed.

Lemma sus_f_partial (p : list float) order k off perm :
  let pq := map f2q p in
  let cs := firstn (npos pq) (cumsum (gather 0 pq order)) in
  Forall2 Qeq (map f2q (fcumsum (gather 0%float p order))) (cumsum (gather 0 pq order)) ->
  0 <= sumQ pq / inject_Z (Z.of_nat k) ->
  StronglySorted Qle (map f2q (sus_ptrs_f (fsum p) k off)) ->
  Forall2 (fun a b => locate cs a = locate cs b) (map f2q (sus_ptrs_f (fsum p) k off)) (sus_ptrs_q (sumQ pq) k (f2q off)) ->
  sus_f p order k off perm = sus_q pq order k (f2q off) perm.
Proof.
  intros pq cs Ecs Hd Hs Hsame. unfold sus_f, sus_q. fold pq.
  set (csf := map f2q (fcumsum (gather 0%float p order))) in *.
  set (csq := cumsum (gather 0 pq order)) in *.
  unfold sus_finish. destruct (Nat.eqb k 0); [reflexivity|].
  assert (W : sus_walk (firstn (npos pq) csf) 0 (map f2q (sus_ptrs_f (fsum p) k off))
              = sus_walk cs 0 (sus_ptrs_q (sumQ pq) k (f2q off))).
  { rewrite !walk_locate; [| | exact Hs].
    - cbn [plus]. rewrite (map_ext _ (locate cs)) by (intros a; apply locate_Qeq; now apply Forall2_firstn).
      now apply Forall2_map_eq.
    - apply (prog_sorted_nonneg (f2q off) (sumQ pq / inject_Z (Z.of_nat k)) k Hd). }
  destruct csf, csq; try reflexivity; try (inversion Ecs; fail). now rewrite W.
Qed.

(** ** counterexamples by computation *)
Ltac qle := apply Qle_bool_iff; vm_compute; reflexivity.
Ltac qlt := apply Qlt_alt; vm_compute; reflexivity.

(** binary64 pointers: p = [1,1], k = 98, offset 0.0 — 49*fl(1/49) < 1, so the element sorted first gets 50 draws *)
Lemma sus_f_floor_ceil_refuted :
  exists (p : list float) (order : list nat) (k : nat) (off : float) (perm sel : list nat) (i : nat),
    Forall (fun x => 0 <= f2q x) p /\ 0 < sumQ (map f2q p) /\ Permutation order (seq 0 (length p)) /\
    nonincr (gather 0 (map f2q p) order) = true /\ (0 < k)%nat /\
    0 <= f2q off /\ f2q off < sumQ (map f2q p) / inject_Z (Z.of_nat k) /\ PrimFloat.ltb off (sus_dist_f (fsum p) k) = true /\
    Permutation perm (seq 0 k) /\ sus_f p order k off perm = Some sel /\ (i < length p)%nat /\
    (Qceiling (nth i (map f2q p) 0 * inject_Z (Z.of_nat k) / sumQ (map f2q p))%Q < Z.of_nat (count_nat i sel))%Z.
Proof.
  exists [1%float; 1%float], [1%nat; 0%nat], 98%nat, 0%float, (seq 0 98).
  eexists. exists 1%nat.
  split; [repeat constructor; qle|]. split; [qlt|]. split; [apply perm_swap|]. split; [vm_compute; reflexivity|]. split; [lia|].
  split; [qle|]. split; [qlt|]. split; [vm_compute; reflexivity|]. split; [reflexivity|].
  split; [vm_compute; reflexivity|]. split; [cbn; lia|]. vm_compute. reflexivity.
Qed.

(** the code before commit eabf766a, binary64 pointers: p = [2.5,1,0], k = 4, offset = pred(0.875) = 0.875*(1-2^-53) — the
    last pointer rounds up to the total 3.5 and the walk ran on to the zero-weight element; the repaired walk does not *)
Lemma sus_old_zero_weight_refuted :
  exists (p : list float) (order : list nat) (k : nat) (off : float) (perm sel : list nat) (i : nat),
    Forall (fun x => 0 <= f2q x) p /\ 0 < sumQ (map f2q p) /\ Permutation order (seq 0 (length p)) /\
    nonincr (gather 0 (map f2q p) order) = true /\ (0 < k)%nat /\
    0 <= f2q off /\ f2q off < sumQ (map f2q p) / inject_Z (Z.of_nat k) /\ PrimFloat.ltb off (sus_dist_f (fsum p) k) = true /\
    Permutation perm (seq 0 k) /\ old_sus_f p order k off perm = Some sel /\ (i < length p)%nat /\
    nth i (map f2q p) 0 == 0 /\ (0 < count_nat i sel)%nat /\
    exists sel', sus_f p order k off perm = Some sel' /\ count_nat i sel' = 0%nat.
Proof.
  exists [2.5%float; 1%float; 0%float], [0%nat; 1%nat; 2%nat], 4%nat, (0x1.bffffffffffffp-1)%float, (seq 0 4).
  eexists. exists 2%nat.
  split; [repeat constructor; qle|]. split; [qlt|]. split; [reflexivity|]. split; [vm_compute; reflexivity|]. split; [lia|].
  split; [qle|]. split; [qlt|]. split; [vm_compute; reflexivity|]. split; [reflexivity|].
  split; [vm_compute; reflexivity|]. split; [cbn; lia|]. split; [vm_compute; reflexivity|].
  split; [vm_compute; lia|]. eexists. split; vm_compute; reflexivity.
Qed.

(** the code before commit f3dafbe4: an output size of zero raised (IndexError) instead of returning no draws *)
Lemma sus_old_size_zero_refuted :
  exists (p : list float) (order : list nat) (off : float) (perm : list nat),
    p <> [] /\ Permutation order (seq 0 (length p)) /\ Permutation perm (seq 0 0) /\
    old_sus_f p order 0 off perm = None /\ sus_f p order 0 off perm = Some [].
Proof.
  exists [1%float; 2%float], [1%nat; 0%nat], 0%float, [].
  split; [discriminate|]. split; [apply perm_swap|]. split; [reflexivity|]. split; reflexivity.
Qed.

(** the code before commit 2efef9f2: strict comparison, offset 0 — p = [1,1], k = 2 selects the first element twice *)
Lemma sus_old_offset0_refuted :
  exists (p : list Q) (k : nat) (off : Q) (sel : list nat),
    Forall (fun x => 0 <= x) p /\ 0 < sumQ p /\ (0 < k)%nat /\ 0 <= off /\ off < sumQ p / inject_Z (Z.of_nat k) /\
    old_walk (cumsum p) 0 (sus_ptrs_q (sumQ p) k off) = Some sel /\
    (Qceiling (nth 0 p 0 * inject_Z (Z.of_nat k) / sumQ p)%Q < Z.of_nat (count_nat 0 sel))%Z.
Proof.
  exists [1; 1], 2%nat, 0, [0%nat; 0%nat].
  split; [repeat constructor; qle|]. split; [qlt|]. split; [lia|]. split; [qle|]. split; [qlt|].
  split; vm_compute; reflexivity.
Qed.

(** the code before commit 2efef9f2: numpy.arange(offset, tot, ptr_dist) has 3 elements for tot = 3.5, k = 4, offset = pred(0.875) *)
Lemma sus_old_arange_refuted :
  exists (tot : float) (k : nat) (off : float),
    PrimFloat.leb 0%float off = true /\ PrimFloat.ltb off (sus_dist_f tot k) = true /\
    arange_len_f off tot (sus_dist_f tot k) <> Z.of_nat k.
Proof.
  exists 3.5%float, 4%nat, (0x1.bffffffffffffp-1)%float. repeat split; try (vm_compute; reflexivity).
  vm_compute. discriminate.
Qed.

(** * 3. axis_shuffle *)
Local Open Scope nat_scope.

Fixpoint valid_idx (shape idx : list nat) : Prop :=
  match shape, idx with
  | [], [] => True
  | d :: sh, i :: ix => i < d /\ valid_idx sh ix
  | _, _ => False
  end.

Lemma unravel_valid shape : forall t, t < prodn shape -> valid_idx shape (unravel shape t).
Proof.
  induction shape as [|d rest IH]; intros t Ht; [exact I|].
  cbn [unravel valid_idx]. cbn [prodn fold_right] in Ht. fold (prodn rest) in Ht.
  assert (HP : prodn rest <> 0) by (intros E; rewrite E in Ht; lia).
  split.
  - apply Nat.div_lt_upper_bound; [exact HP | lia].
  - apply IH. now apply Nat.mod_upper_bound.
Qed.

Lemma ravel_unravel shape : forall t, t < prodn shape -> ravel shape (unravel shape t) = t.
Proof.
  induction shape as [|d rest IH]; intros t Ht; [cbn in *; lia|].
  cbn [unravel ravel]. cbn [prodn fold_right] in Ht. fold (prodn rest) in Ht.
  assert (HP : prodn rest <> 0) by (intros E; rewrite E in Ht; lia).
  rewrite IH by (now apply Nat.mod_upper_bound). pose proof (Nat.div_mod t (prodn rest) HP). lia.
Qed.

Lemma unravel_ravel shape : forall idx, valid_idx shape idx ->
  unravel shape (ravel shape idx) = idx /\ ravel shape idx < prodn shape.
Proof.
  induction shape as [|d rest IH]; intros [|i ix] Hv; cbn [valid_idx] in Hv; try contradiction.
  - cbn. split; [reflexivity | lia].
  - destruct Hv as [Hi Hv]. destruct (IH ix Hv) as [E B]. cbn [ravel unravel prodn fold_right]. fold (prodn rest).
    assert (HP : prodn rest <> 0) by lia.
    assert (D : (i * prodn rest + ravel rest ix) / prodn rest = i).
    { rewrite Nat.div_add_l by exact HP. rewrite Nat.div_small by exact B. lia. }
    assert (M : (i * prodn rest + ravel rest ix) mod prodn rest = ravel rest ix).
    { rewrite Nat.add_comm, Nat.mod_add by exact HP. now apply Nat.mod_small. }
    rewrite D, M, E. split; [reflexivity | nia].
Qed.

Lemma valid_length shape : forall idx, valid_idx shape idx -> length idx = length shape.
Proof. induction shape as [|d rest IH]; intros [|i ix] H; cbn [valid_idx] in H; try contradiction; [reflexivity|]. cbn [length]. f_equal. now apply IH. Qed.

Lemma valid_nth shape : forall idx f, valid_idx shape idx -> f < length shape -> nth f idx 0 < nth f shape 0.
Proof.
  induction shape as [|d rest IH]; intros [|i ix] f H Hf; cbn [valid_idx] in H; try contradiction; [cbn in Hf; lia|].
  destruct H as [Hi Hv]. destruct f as [|f]; [exact Hi|]. cbn [nth]. apply IH; [exact Hv | cbn [length] in Hf; lia].
Qed.

Lemma valid_set_nth shape : forall idx f v, valid_idx shape idx -> v < nth f shape 0 -> valid_idx shape (set_nth f v idx).
Proof.
  induction shape as [|d rest IH]; intros [|i ix] f v H Hv; cbn [valid_idx] in H; try contradiction.
  - destruct f; cbn in Hv; lia.
  - destruct H as [Hi Hx]. destruct f as [|f]; cbn [set_nth valid_idx nth] in *; [tauto|]. split; [exact Hi|]. now apply IH.
Qed.

Lemma matches_length s : forall idx, matches s idx = true -> length s = length idx.
Proof.
  induction s as [|[i|] s IH]; intros [|x t] H; cbn [matches] in H; try discriminate; [reflexivity| |].
  - apply andb_prop in H as [_ H]. cbn [length]. f_equal. now apply IH.
  - cbn [length]. f_equal. now apply IH.
Qed.

Lemma first_free_lt s : forall f, first_free s = Some f -> f < length s.
Proof.
  induction s as [|[i|] s IH]; intros f H; cbn [first_free] in H; [discriminate| |].
  - destruct (first_free s) as [f'|]; [|discriminate]. injection H as <-. cbn [length]. specialize (IH f' eq_refl). lia.
  - injection H as <-. cbn [length]. lia.
Qed.

Lemma matches_set_nth s : forall f v idx, first_free s = Some f -> matches s (set_nth f v idx) = matches s idx.
Proof.
  induction s as [|[i|] s IH]; intros f v idx H; cbn [first_free] in H; [discriminate| |].
  - destruct (first_free s) as [f'|] eqn:E; [|discriminate]. injection H as <-.
    destruct idx as [|x t]; [reflexivity|]. cbn [set_nth matches]. now rewrite (IH f' v t eq_refl).
  - injection H as <-. destruct idx as [|x t]; reflexivity.
Qed.

Lemma set_nth_inj : forall idx f a b idx', set_nth f a idx = set_nth f b idx' -> f < length idx ->
  a = b /\ (nth f idx 0 = nth f idx' 0 -> idx = idx').
Proof.
  induction idx as [|x t IH]; intros f a b idx' E Hf; [cbn in Hf; lia|].
  destruct idx' as [|y t'].
  - destruct f; cbn in E; discriminate.
  - destruct f as [|f]; cbn [set_nth] in E.
    + injection E as E1 E2. subst. split; [reflexivity|]. cbn [nth]. now intros ->.
    + injection E as E1 E2. subst y. cbn [length] in Hf. destruct (IH f a b t' E2 ltac:(lia)) as [Ea Ei].
      split; [exact Ea|]. cbn [nth]. intros H. now rewrite (Ei H).
Qed.

Section OneSlice.
Variables (shape : list nat) (s : list (option nat)) (f : nat) (pm : list nat).
Hypothesis Hf : first_free s = Some f.
Hypothesis Hpm : Permutation pm (seq 0 (nth f shape 0)).
Let N := prodn shape.
Let sigma := slice_src shape s f pm.
Let inslice (t : nat) : bool := matches s (unravel shape t).

Lemma pm_bound i : i < nth f shape 0 -> nth i pm 0 < nth f shape 0.
Proof.
  intros Hi. assert (L : length pm = nth f shape 0) by (rewrite (Permutation_length Hpm); apply seq_length).
  assert (In (nth i pm 0) pm) by (apply nth_In; lia). apply (Permutation_in _ Hpm) in H. apply in_seq in H. lia.
Qed.

Lemma pm_inj i j : i < nth f shape 0 -> j < nth f shape 0 -> nth i pm 0 = nth j pm 0 -> i = j.
Proof.
  intros Hi Hj E. assert (L : length pm = nth f shape 0) by (rewrite (Permutation_length Hpm); apply seq_length).
  assert (ND : NoDup pm) by (eapply Permutation_NoDup; [symmetry; exact Hpm | apply seq_NoDup]).
  eapply NoDup_nth; eauto; lia.
Qed.

(** the source position of an in-slice position is in the slice; other positions are fixed *)
Lemma sigma_in t : t < N -> inslice t = true ->
  sigma t < N /\ unravel shape (sigma t) = set_nth f (nth (nth f (unravel shape t) 0) pm 0) (unravel shape t)
  /\ inslice (sigma t) = true.
Proof.
  intros Ht Hin. unfold sigma, slice_src, inslice in *. rewrite Hin.
  pose proof (unravel_valid shape t Ht) as Hv.
  assert (Lf : f < length shape).
  { rewrite <- (valid_length _ _ Hv), <- (matches_length _ _ Hin). now apply first_free_lt. }
  assert (Hv' : valid_idx shape (set_nth f (nth (nth f (unravel shape t) 0) pm 0) (unravel shape t))).
  { apply valid_set_nth; [exact Hv|]. apply pm_bound. now apply valid_nth. }
  destruct (unravel_ravel shape _ Hv') as [E B]. split; [exact B|]. split; [exact E|].
  rewrite E. now rewrite matches_set_nth.
Qed.

Lemma sigma_out t : inslice t = false -> sigma t = t.
Proof. intros H. unfold sigma, slice_src, inslice in *. now rewrite H. Qed.

Lemma sigma_status t : t < N -> inslice (sigma t) = inslice t.
Proof.
  intros Ht. destruct (inslice t) eqn:E.
  - now destruct (sigma_in t Ht E) as (_ & _ & H).
  - now rewrite (sigma_out t E).
Qed.

Lemma sigma_bound t : t < N -> sigma t < N.
Proof. intros Ht. destruct (inslice t) eqn:E; [now destruct (sigma_in t Ht E) | now rewrite (sigma_out t E)]. Qed.

Lemma sigma_inj t u : t < N -> u < N -> sigma t = sigma u -> t = u.
Proof.
  intros Ht Hu E.
  assert (St : inslice t = inslice u) by (rewrite <- (sigma_status t Ht), <- (sigma_status u Hu); now rewrite E).
  destruct (inslice t) eqn:Et.
  - symmetry in St. destruct (sigma_in t Ht Et) as (_ & E1 & _). destruct (sigma_in u Hu St) as (_ & E2 & _).
    rewrite E in E1. rewrite E1 in E2.
    pose proof (unravel_valid shape t Ht) as Vt. pose proof (unravel_valid shape u Hu) as Vu.
    assert (Lf : f < length shape).
    { rewrite <- (valid_length _ _ Vt). unfold inslice in Et. rewrite <- (matches_length _ _ Et). now apply first_free_lt. }
    destruct (set_nth_inj _ _ _ _ _ E2 ltac:(rewrite (valid_length _ _ Vt); exact Lf)) as [Ea Ei].
    assert (Ef : nth f (unravel shape t) 0 = nth f (unravel shape u) 0).
    { apply pm_inj; [now apply valid_nth | now apply valid_nth | exact Ea]. }
    rewrite <- (ravel_unravel shape t Ht), <- (ravel_unravel shape u Hu). now rewrite (Ei Ef).
  - symmetry in St. now rewrite (sigma_out t Et), (sigma_out u St) in E.
Qed.

Variable old : list Z.
Hypothesis Hlen : length old = N.

Lemma apply_slice_length : length (apply_slice shape s f pm old) = length old.
Proof. unfold apply_slice. now rewrite map_length, seq_length. Qed.

Lemma apply_slice_nth t : t < N -> nth t (apply_slice shape s f pm old) 0%Z = nth (sigma t) old 0%Z.
Proof.
  intros Ht. unfold apply_slice. rewrite Hlen.
  rewrite (nth_indep _ 0%Z (nth (slice_src shape s f pm 0) old 0%Z)) by (now rewrite map_length, seq_length).
  rewrite (map_nth (fun t => nth (slice_src shape s f pm t) old 0%Z)). now rewrite seq_nth.
Qed.

(** the whole array is permuted ... *)
Lemma apply_slice_Permutation : Permutation (apply_slice shape s f pm old) old.
Proof.
  unfold apply_slice. apply reindex_Permutation; rewrite Hlen.
  - exact sigma_bound.
  - exact sigma_inj.
Qed.

(** ... positions outside the slice keep their value ... *)
Lemma apply_slice_outside t : t < N -> inslice t = false -> nth t (apply_slice shape s f pm old) 0%Z = nth t old 0%Z.
Proof. intros Ht Ho. rewrite apply_slice_nth by exact Ht. now rewrite sigma_out. Qed.

(** ... and the values inside the slice are permuted among themselves *)
Definition slice_pos (sh : list nat) (s' : list (option nat)) (n : nat) : list nat :=
  filter (fun t => matches s' (unravel sh t)) (seq 0 n).
Definition slice_vals (sh : list nat) (s' : list (option nat)) (a : list Z) : list Z :=
  map (fun t => nth t a 0%Z) (slice_pos sh s' (length a)).

Lemma apply_slice_inside : Permutation (slice_vals shape s (apply_slice shape s f pm old)) (slice_vals shape s old).
Proof.
  unfold slice_vals. rewrite apply_slice_length, Hlen.
  set (pos := slice_pos shape s N).
  assert (Hpos : forall t, In t pos -> t < N /\ inslice t = true).
  { intros t Ht. unfold pos, slice_pos in Ht. apply filter_In in Ht as [H1 H2]. apply in_seq in H1. split; [lia | exact H2]. }
  rewrite (map_ext_in _ (fun t => nth (sigma t) old 0%Z)) by (intros t Ht; apply apply_slice_nth; now apply Hpos).
  rewrite <- (map_map sigma (fun u => nth u old 0%Z)). apply Permutation_map.
  apply NoDup_Permutation_bis.
  - apply NoDup_map_inj_in; [|apply NoDup_filter, seq_NoDup].
    intros x y Hx Hy. apply sigma_inj; now apply Hpos.
  - now rewrite map_length.
  - intros u Hu. apply in_map_iff in Hu as (t & E & Ht). subst u. destruct (Hpos t Ht) as [H1 H2].
    destruct (sigma_in t H1 H2) as (B & _ & M). unfold pos, slice_pos. apply filter_In. split; [apply in_seq; lia | exact M].
Qed.
End OneSlice.

(** two index tuples never select the same position *)
Definition disj (s s' : list (option nat)) : Prop := forall idx, matches s idx = true -> matches s' idx = false.

Lemma disj_sym s s' : disj s s' -> disj s' s.
Proof. intros H idx M. destruct (matches s idx) eqn:E; [|reflexivity]. rewrite (H idx E) in M. discriminate. Qed.

Lemma slice_vals_ext shape s a b : length a = length b ->
  (forall t, t < length a -> matches s (unravel shape t) = true -> nth t a 0%Z = nth t b 0%Z) ->
  slice_vals shape s a = slice_vals shape s b.
Proof.
  intros L H. unfold slice_vals. rewrite <- L. apply map_ext_in. intros t Ht. unfold slice_pos in Ht.
  apply filter_In in Ht as [H1 H2]. apply in_seq in H1. apply H; [lia | exact H2].
Qed.

Lemma axis_loop_spec shape : forall ss pms a r,
  axis_loop shape ss pms a = inr r -> length a = prodn shape ->
  ForallOrdPairs disj ss -> Forall (fun pm => Permutation pm (seq 0 (length pm))) pms ->
  length r = length a /\ Permutation r a /\
  (forall s, In s ss -> Permutation (slice_vals shape s r) (slice_vals shape s a)) /\
  (forall t, t < length a -> (forall s, In s ss -> matches s (unravel shape t) = false) -> nth t r 0%Z = nth t a 0%Z).
Proof.
  induction ss as [|s ss IH]; intros pms a r H La Hd Hp.
  - cbn [axis_loop] in H. destruct pms; [|discriminate]. injection H as <-.
    repeat split; [reflexivity | intros s []].
  - cbn [axis_loop] in H. destruct (first_free s) as [f|] eqn:Ef; [|discriminate].
    destruct pms as [|pm pms]; [discriminate|]. destruct (Nat.eqb_spec (length pm) (nth f shape 0)) as [Lpm|]; [|discriminate].
    pose proof (Forall_inv Hp) as Hpm. cbn beta in Hpm. rewrite Lpm in Hpm. pose proof (Forall_inv_tail Hp) as Hp'.
    inversion Hd as [|? ? Hds Hd']; subst.
    set (a' := apply_slice shape s f pm a) in *.
    assert (La' : length a' = length a) by apply apply_slice_length.
    destruct (IH pms a' r H ltac:(lia) Hd' Hp') as (R1 & R2 & R3 & R4).
    pose proof (apply_slice_Permutation shape s f pm Ef Hpm a La) as P0.
    split; [lia|]. split; [now transitivity a'|]. split.
    + intros s2 [<-|Hin].
      * (* the slice just shuffled is not touched by the later steps *)
        rewrite (slice_vals_ext shape s r a').
        -- apply (apply_slice_inside shape s f pm Ef Hpm a La).
        -- lia.
        -- intros t Ht M. rewrite R1 in Ht. apply R4; [exact Ht|]. intros s3 H3.
           rewrite Forall_forall in Hds. exact (Hds s3 H3 _ M).
      * rewrite (R3 s2 Hin). rewrite (slice_vals_ext shape s2 a' a); [reflexivity | exact La' |].
        intros t Ht M. rewrite La' in Ht. apply (apply_slice_outside shape s f pm a La); [lia|].
        rewrite Forall_forall in Hds. exact (disj_sym _ _ (Hds s2 Hin) _ M).
    + intros t Ht Hout. rewrite R4; [| lia | intros s3 H3; apply Hout; now right].
      apply (apply_slice_outside shape s f pm a La); [lia|]. apply Hout. now left.
Qed.

(** the tuples produced by sliceaxisix are pairwise disjoint and cover every position *)
Lemma FOP_map {A} (R : A -> A -> Prop) (g : A -> A) l : (forall a b, R a b -> R (g a) (g b)) ->
  ForallOrdPairs R l -> ForallOrdPairs R (map g l).
Proof.
  intros Hg. induction 1 as [|a l Ha _ IH]; cbn [map]; constructor; [|exact IH].
  apply Forall_forall. intros b Hb. apply in_map_iff in Hb as (b' & <- & Hb'). rewrite Forall_forall in Ha. auto.
Qed.

Lemma FOP_app {A} (R : A -> A -> Prop) l1 l2 : ForallOrdPairs R l1 -> ForallOrdPairs R l2 ->
  (forall a b, In a l1 -> In b l2 -> R a b) -> ForallOrdPairs R (l1 ++ l2).
Proof.
  intros H1 H2 H12. induction H1 as [|a l Ha _ IH]; [exact H2|]. cbn [app]. constructor.
  - apply Forall_app. split; [exact Ha|]. apply Forall_forall. intros b Hb. apply H12; [now left | exact Hb].
  - apply IH. intros x y Hx Hy. apply H12; [now right | exact Hy].
Qed.

Lemma sax_disjoint shape axis : forall pos, ForallOrdPairs disj (sax pos shape axis).
Proof.
  induction shape as [|d rest IH]; intros pos; [cbn; repeat constructor|].
  cbn [sax]. destruct (zmem (Z.of_nat pos) axis).
  - (* one block per index i *)
    assert (G : forall L, NoDup L -> ForallOrdPairs disj (flat_map (fun i => map (cons (Some i)) (sax (S pos) rest axis)) L)).
    { induction L as [|i L IHL]; intros HL; [constructor|]. inversion HL as [|? ? Hni HL']; subst. cbn [flat_map].
      apply FOP_app; [|now apply IHL|].
      - apply FOP_map; [|apply IH]. intros a b Hab [|x t] M; cbn [matches] in *; [discriminate|].
        apply andb_prop in M as [M1 M2]. rewrite M1. cbn [andb]. now apply Hab.
      - intros a b Ha Hb. apply in_map_iff in Ha as (a' & <- & _). apply in_flat_map in Hb as (i' & Hi' & Hb).
        apply in_map_iff in Hb as (b' & <- & _). intros [|x t] M; cbn [matches] in *; [discriminate|].
        apply andb_prop in M as [M1 _]. apply Nat.eqb_eq in M1. subst x.
        destruct (Nat.eqb_spec i' i) as [->|]; [contradiction | reflexivity]. }
    apply G, seq_NoDup.
  - apply FOP_map; [|apply IH]. intros a b Hab [|x t] M; cbn [matches] in *; [discriminate|]. now apply Hab.
Qed.

Lemma sax_cover shape axis : forall pos idx, valid_idx shape idx -> exists s, In s (sax pos shape axis) /\ matches s idx = true.
Proof.
  induction shape as [|d rest IH]; intros pos [|i ix] Hv; cbn [valid_idx] in Hv; try contradiction.
  - exists []. split; [now left | reflexivity].
  - destruct Hv as [Hi Hv]. destruct (IH (S pos) ix Hv) as (s & Hs & M). cbn [sax].
    destruct (zmem (Z.of_nat pos) axis).
    + exists (Some i :: s). split.
      * apply in_flat_map. exists i. split; [apply in_seq; lia | now apply in_map].
      * cbn [matches]. now rewrite Nat.eqb_refl.
    + exists (None :: s). split; [now apply in_map | exact M].
Qed.

(** axis_shuffle: the array is permuted, and for every requested slice (one per combination of indices along the
    listed axes; the slices partition the array) the values of the slice are permuted among themselves *)
Theorem axis_shuffle_within_slices shape axis pms a r :
  axis_shuffle shape axis pms a = inr r -> length a = prodn shape ->
  Forall (fun pm => Permutation pm (seq 0 (length pm))) pms ->
  length r = length a /\ Permutation r a /\
  (forall s, In s (sax 0 shape axis) -> Permutation (slice_vals shape s r) (slice_vals shape s a)) /\
  (forall t, t < length a -> exists s, In s (sax 0 shape axis) /\ matches s (unravel shape t) = true) /\
  ForallOrdPairs disj (sax 0 shape axis).
Proof.
  intros H La Hp. unfold axis_shuffle, sliceaxisix in H. destruct shape as [|d rest] eqn:Es; [discriminate|]. rewrite <- Es in *.
  destruct (axis_loop_spec shape _ _ _ _ H La (sax_disjoint shape axis 0) Hp) as (R1 & R2 & R3 & _).
  repeat split; try assumption.
  - intros t Ht. apply sax_cover. apply unravel_valid. lia.
  - apply sax_disjoint.
Qed.

(** sliceaxisix: one tuple per combination of indices along the listed axes, each of the array's rank *)
Fixpoint sel_dims (pos : nat) (shape : list nat) (axis : list Z) : list nat :=
  match shape with
  | [] => []
  | d :: rest => if zmem (Z.of_nat pos) axis then d :: sel_dims (S pos) rest axis else sel_dims (S pos) rest axis
  end.

Lemma flat_map_const_length {A B} (g : A -> list B) (L : list A) n : (forall a, length (g a) = n) -> length (flat_map g L) = length L * n.
Proof. intros H. induction L as [|a L IH]; [reflexivity|]. cbn [flat_map length]. rewrite app_length, H, IH. lia. Qed.

Lemma sax_shape shape axis : forall pos,
  length (sax pos shape axis) = prodn (sel_dims pos shape axis) /\
  Forall (fun s => length s = length shape) (sax pos shape axis).
Proof.
  induction shape as [|d rest IH]; intros pos; [cbn; split; [reflexivity | repeat constructor]|].
  destruct (IH (S pos)) as [L F]. cbn [sax sel_dims]. destruct (zmem (Z.of_nat pos) axis).
  - split.
    + rewrite (flat_map_const_length _ _ (length (sax (S pos) rest axis))) by (intros; apply map_length).
      rewrite seq_length, L. reflexivity.
    + apply Forall_forall. intros s Hs. apply in_flat_map in Hs as (i & _ & Hs). apply in_map_iff in Hs as (t & <- & Ht).
      rewrite Forall_forall in F. cbn [length]. now rewrite (F t Ht).
  - split; [now rewrite map_length|]. apply Forall_forall. intros s Hs. apply in_map_iff in Hs as (t & <- & Ht).
    rewrite Forall_forall in F. cbn [length]. now rewrite (F t Ht).
Qed.
