(** C17 — lemmas about Model/C17_Sampling.v *)
From Coq Require Import Permutation Lqa Lia Sorting.Sorted Qround.
From PV Require Import Lib.Common Model.C17_Sampling.

(** * toolkit: re-indexing a list along a permutation of its positions *)
Lemma map_nth_seq {A} (d : A) (l : list A) : map (fun i => nth i l d) (seq 0 (length l)) = l.
Proof.
  induction l as [|x l IH]; [reflexivity|].
  cbn [length seq map nth]. f_equal. rewrite <- seq_shift, map_map. exact IH.
Qed.

Lemma permute_Permutation {A} (d : A) pm (x : list A) :
  Permutation pm (seq 0 (length x)) -> Permutation (permute d pm x) x.
Proof.
  intros H. unfold permute. eapply Permutation_trans; [apply Permutation_map, H|]. now rewrite map_nth_seq.
Qed.

Lemma permute_length {A} (d : A) pm (x : list A) : length (permute d pm x) = length pm.
Proof. unfold permute. apply map_length. Qed.

Lemma is_perm_sound n pm : is_perm n pm = true -> Permutation pm (seq 0 n).
Proof.
  unfold is_perm. intros H. apply andb_prop in H as [HL HA]. apply Nat.eqb_eq in HL.
  symmetry. apply NoDup_Permutation_bis; [apply seq_NoDup | rewrite seq_length; lia |].
  intros i Hi. rewrite forallb_forall in HA. specialize (HA i Hi). apply existsb_exists in HA as (j & Hj & E).
  apply Nat.eqb_eq in E. now subst.
Qed.

(** an index map that is injective on [0,n) and stays below n is a permutation of the positions *)
Lemma NoDup_map_inj_in {A B} (f : A -> B) l :
  (forall x y, In x l -> In y l -> f x = f y -> x = y) -> NoDup l -> NoDup (map f l).
Proof.
  intros Hinj H. induction H as [|a l Hna Hl IH]; cbn [map]; constructor.
  - intros Hin. apply in_map_iff in Hin as (y & E & Hy). apply Hna.
    rewrite (Hinj a y); [assumption | now left | now right | now symmetry].
  - apply IH. intros x y Hx Hy. apply Hinj; now right.
Qed.

Lemma index_map_Permutation (f : nat -> nat) n :
  (forall t, (t < n)%nat -> (f t < n)%nat) ->
  (forall t u, (t < n)%nat -> (u < n)%nat -> f t = f u -> t = u) ->
  Permutation (map f (seq 0 n)) (seq 0 n).
Proof.
  intros Hb Hi. apply NoDup_Permutation_bis.
  - apply NoDup_map_inj_in; [|apply seq_NoDup]. intros x y Hx Hy. apply in_seq in Hx, Hy. apply Hi; lia.
  - rewrite map_length. lia.
  - intros y Hy. apply in_map_iff in Hy as (t & E & Ht). apply in_seq in Ht. apply in_seq. specialize (Hb t). lia.
Qed.

Lemma reindex_Permutation {A} (d : A) (f : nat -> nat) (x : list A) :
  (forall t, (t < length x)%nat -> (f t < length x)%nat) ->
  (forall t u, (t < length x)%nat -> (u < length x)%nat -> f t = f u -> t = u) ->
  Permutation (map (fun t => nth (f t) x d) (seq 0 (length x))) x.
Proof.
  intros Hb Hi. rewrite <- (map_map f (fun u => nth u x d)).
  apply (permute_Permutation d). now apply index_map_Permutation.
Qed.

Lemma count_nat_Permutation i l l' : Permutation l l' -> count_nat i l = count_nat i l'.
Proof. intros H. unfold count_nat. now apply Permutation_count_occ. Qed.

Lemma count_nat_map_filter {A} (f : A -> nat) j l :
  count_nat j (map f l) = length (filter (fun x => Nat.eqb (f x) j) l).
Proof.
  unfold count_nat. induction l as [|x l IH]; [reflexivity|]. cbn [map count_occ filter].
  destruct (Nat.eq_dec (f x) j) as [E|NE].
  - rewrite (proj2 (Nat.eqb_eq _ _) E). cbn [length]. now rewrite IH.
  - rewrite (proj2 (Nat.eqb_neq _ _) NE). exact IH.
Qed.

(** * 1. stochastic universal sampling *)
Local Open Scope Q_scope.

(** the walk visits, for every pointer, the position [locate] computes from scratch *)
Fixpoint locate (cs : list Q) (ptr : Q) : nat :=
  match cs with
  | c :: ((_ :: _) as t) => if Qle_bool c ptr then S (locate t ptr) else 0%nat
  | _ => 0%nat
  end.

Lemma advance_cons2 c c' t ix ptr :
  advance (c :: c' :: t) ix ptr = if Qle_bool c ptr then advance (c' :: t) (S ix) ptr else (c :: c' :: t, ix).
Proof. reflexivity. Qed.
Lemma locate_cons2 c c' t ptr :
  locate (c :: c' :: t) ptr = if Qle_bool c ptr then S (locate (c' :: t) ptr) else 0%nat.
Proof. reflexivity. Qed.

Lemma advance_locate cs : forall ix ptr, advance cs ix ptr = (skipn (locate cs ptr) cs, (ix + locate cs ptr)%nat).
Proof.
  induction cs as [|c t IH]; intros ix ptr; [cbn; f_equal; lia|].
  destruct t as [|c' t']; [cbn; f_equal; lia|].
  rewrite advance_cons2, locate_cons2. destruct (Qle_bool c ptr).
  - rewrite IH. cbn [skipn]. f_equal. lia.
  - cbn [skipn]. f_equal. lia.
Qed.

Lemma locate_split cs p q : p <= q -> locate cs q = (locate cs p + locate (skipn (locate cs p) cs) q)%nat.
Proof.
  intros Hpq. induction cs as [|c t IH]; [reflexivity|].
  destruct t as [|c' t']; [reflexivity|].
  rewrite !locate_cons2. destruct (Qle_bool c p) eqn:Ep.
  - assert (Eq : Qle_bool c q = true). { apply Qle_bool_iff. apply Qle_bool_iff in Ep. lra. }
    rewrite Eq. cbn [skipn]. rewrite IH. reflexivity.
  - cbn [skipn plus]. reflexivity.
Qed.

Lemma walk_locate ptrs : forall cs ix, StronglySorted Qle ptrs ->
  sus_walk cs ix ptrs = map (fun p => (ix + locate cs p)%nat) ptrs.
Proof.
  induction ptrs as [|p rest IH]; intros cs ix Hs; [reflexivity|].
  inversion Hs as [|? ? Hs' Hall]; subst.
  cbn [sus_walk map]. rewrite advance_locate. f_equal.
  rewrite IH by assumption. apply map_ext_in. intros q Hq.
  rewrite Forall_forall in Hall. rewrite (locate_split cs p q (Hall q Hq)). lia.
Qed.

Lemma walk_length ptrs : forall cs ix, length (sus_walk cs ix ptrs) = length ptrs.
Proof.
  induction ptrs as [|p rest IH]; intros cs ix; [reflexivity|].
  cbn [sus_walk]. destruct (advance cs ix p) as [cs' ix']. cbn [length]. now rewrite IH.
Qed.

Lemma locate_bound cs p : (locate cs p <= length cs - 1)%nat.
Proof.
  induction cs as [|c t IH]; [cbn; lia|]. destruct t as [|c' t']; [cbn; lia|].
  rewrite locate_cons2. destruct (Qle_bool c p); cbn [length] in *; lia.
Qed.

(** the cell of position j: [c_{j-1}, c_j), open to the left for the first and to the right for the last position *)
Definition in_cell (cs : list Q) (j : nat) (p : Q) : bool :=
  (Nat.eqb j 0 || Qle_bool (nth (j - 1) cs 0) p) && (Nat.eqb j (length cs - 1) || negb (Qle_bool (nth j cs 0) p)).

Lemma SS_head_le (c : Q) l : StronglySorted Qle (c :: l) -> forall j, (j < length (c :: l))%nat -> c <= nth j (c :: l) 0.
Proof.
  intros H j Hj. inversion H as [|? ? _ Hall]; subst. destruct j as [|j]; [cbn; lra|].
  cbn [nth]. rewrite Forall_forall in Hall. apply Hall. apply nth_In. cbn [length] in Hj. lia.
Qed.

Lemma locate_spec cs p : StronglySorted Qle cs -> forall j, (j < length cs)%nat ->
  Nat.eqb (locate cs p) j = in_cell cs j p.
Proof.
  induction cs as [|c t IH]; intros Hs j Hj; [cbn in Hj; lia|].
  destruct t as [|c' t'].
  - cbn in Hj. assert (j = 0)%nat by lia. subst. reflexivity.
  - assert (Hs' : StronglySorted Qle (c' :: t')) by (inversion Hs; assumption).
    rewrite locate_cons2. unfold in_cell. destruct (Qle_bool c p) eqn:Ec.
    + destruct j as [|j'].
      * cbn [Nat.eqb orb andb length nth]. replace (S (S (length t')) - 1)%nat with (S (length t')) by lia.
        cbn [Nat.eqb orb]. rewrite Ec. reflexivity.
      * cbn [Nat.eqb]. rewrite (IH Hs' j') by (cbn [length] in *; lia). unfold in_cell.
        cbn [length]. replace (S j' - 1)%nat with j' by lia.
        replace (S (S (length t')) - 1)%nat with (S (length t')) by lia.
        replace (S (length t') - 1)%nat with (length t') by lia.
        cbn [orb Nat.eqb]. change (nth (S j') (c :: c' :: t') 0) with (nth j' (c' :: t') 0).
        destruct j' as [|j''].
        -- cbn [Nat.eqb orb nth]. rewrite Ec. reflexivity.
        -- cbn [Nat.eqb orb]. replace (S j'' - 1)%nat with j'' by lia.
           change (nth (S j'') (c :: c' :: t') 0) with (nth j'' (c' :: t') 0). reflexivity.
    + destruct j as [|j'].
      * cbn [Nat.eqb orb andb nth]. rewrite Ec. cbn [negb]. symmetry. apply orb_true_r.
      * cbn [Nat.eqb]. symmetry. apply andb_false_iff. left. cbn [orb].
        replace (S j' - 1)%nat with j' by lia.
        destruct (Qle_bool (nth j' (c :: c' :: t') 0) p) eqn:E2; [|reflexivity]. exfalso.
        apply Qle_bool_iff in E2. pose proof (SS_head_le c (c' :: t') Hs j' ltac:(cbn [length] in *; lia)) as H1.
        assert (Hc : c <= p) by lra. apply Qle_bool_iff in Hc. congruence.
Qed.

(** general counting theorem: for pointers in non-decreasing order, position j is selected once per pointer in its cell *)
Lemma walk_count cs ptrs j : StronglySorted Qle cs -> StronglySorted Qle ptrs -> (j < length cs)%nat ->
  count_nat j (sus_walk cs 0 ptrs) = length (filter (in_cell cs j) ptrs).
Proof.
  intros Hc Hp Hj. rewrite walk_locate by assumption. rewrite count_nat_map_filter.
  f_equal. apply filter_ext. intros p. cbn [plus]. now apply locate_spec.
Qed.

Lemma walk_range cs ptrs : StronglySorted Qle ptrs -> Forall (fun ix => (ix <= length cs - 1)%nat) (sus_walk cs 0 ptrs).
Proof.
  intros Hp. rewrite walk_locate by assumption. apply Forall_forall. intros x Hx.
  apply in_map_iff in Hx as (p & E & _). subst. cbn [plus]. apply locate_bound.
Qed.

(** ** cumulative sums of non-negative weights *)
Definition psum (w : list Q) (j : nat) : Q := sumQ (firstn j w).

Lemma sumQ_cons x l : sumQ (x :: l) = x + sumQ l.
Proof. reflexivity. Qed.

Lemma psum_S w : forall j, (j < length w)%nat -> psum w (S j) == psum w j + nth j w 0.
Proof.
  unfold psum. induction w as [|x w IH]; intros j Hj; [cbn in Hj; lia|].
  destruct j as [|j].
  - cbn [firstn nth]. rewrite !sumQ_cons. cbn [firstn sumQ fold_right]. lra.
  - change (firstn (S (S j)) (x :: w)) with (x :: firstn (S j) w).
    change (firstn (S j) (x :: w)) with (x :: firstn j w). rewrite !sumQ_cons. cbn [nth].
    rewrite IH by (cbn [length] in Hj; lia). lra.
Qed.

Lemma psum_all w : psum w (length w) = sumQ w.
Proof. unfold psum. now rewrite firstn_all. Qed.

Lemma sumQ_nonneg l : Forall (fun x => 0 <= x) l -> 0 <= sumQ l.
Proof. induction 1 as [|x l Hx _ IH]; [cbn; lra|]. rewrite sumQ_cons. lra. Qed.

Lemma psum_mono w : Forall (fun x => 0 <= x) w -> forall j j', (j <= j')%nat -> psum w j <= psum w j'.
Proof.
  intros Hw j j' Hjj. induction Hjj as [|j' _ IH]; [lra|].
  destruct (Nat.lt_ge_cases j' (length w)) as [L|G].
  - rewrite psum_S by exact L. rewrite Forall_forall in Hw. specialize (Hw (nth j' w 0) (nth_In _ _ L)). lra.
  - unfold psum in *. rewrite (firstn_all2 (n := S j')) by lia. rewrite (firstn_all2 (n := j')) in IH by lia. exact IH.
Qed.

Lemma cumsum_from_length l : forall acc, length (cumsum_from acc l) = length l.
Proof. induction l as [|x l IH]; intros acc; [reflexivity|]. cbn [cumsum_from length]. now rewrite IH. Qed.

Lemma cumsum_from_nth l : forall acc j, (j < length l)%nat -> nth j (cumsum_from acc l) 0 == acc + psum l (S j).
Proof.
  induction l as [|x l IH]; intros acc j Hj; [cbn in Hj; lia|].
  destruct j as [|j].
  - cbn [cumsum_from nth]. unfold psum. cbn [firstn sumQ fold_right]. lra.
  - cbn [cumsum_from nth]. rewrite IH by (cbn [length] in Hj; lia). unfold psum.
    change (firstn (S (S j)) (x :: l)) with (x :: firstn (S j) l). rewrite sumQ_cons. lra.
Qed.

Lemma cumsum_nth w j : (j < length w)%nat -> nth j (cumsum w) 0 == psum w (S j).
Proof. intros Hj. unfold cumsum. rewrite cumsum_from_nth by exact Hj. lra. Qed.

Lemma cumsum_from_sorted l : forall acc, Forall (fun x => 0 <= x) l ->
  StronglySorted Qle (cumsum_from acc l) /\ Forall (Qle acc) (cumsum_from acc l).
Proof.
  induction l as [|x l IH]; intros acc Hl; [split; constructor|].
  inversion Hl as [|? ? Hx Hl']; subst. destruct (IH (acc + x) Hl') as [S1 F1].
  cbn [cumsum_from]. split.
  - constructor; assumption.
  - constructor; [lra|]. eapply Forall_impl; [|exact F1]. cbn. intros a Ha. lra.
Qed.

Lemma cumsum_sorted w : Forall (fun x => 0 <= x) w -> StronglySorted Qle (cumsum w).
Proof. intros H. apply (cumsum_from_sorted w 0 H). Qed.

(** ** counting the terms of an arithmetic progression below a threshold *)
Lemma filter_map_length {A B} (f : B -> bool) (g : A -> B) l :
  length (filter f (map g l)) = length (filter (fun x => f (g x)) l).
Proof. induction l as [|x l IH]; [reflexivity|]. cbn [map filter]. destruct (f (g x)); cbn [length]; now rewrite IH. Qed.

Lemma count_below_seq k : forall M : Z, (0 <= M)%Z ->
  length (filter (fun i => (Z.of_nat i <? M)%Z) (seq 0 k)) = Z.to_nat (Z.min M (Z.of_nat k)).
Proof.
  induction k as [|k IH]; intros M HM.
  - cbn. rewrite Z.min_r by lia. reflexivity.
  - rewrite seq_S, filter_app, app_length, IH by exact HM. cbn [plus filter].
    destruct (Z.ltb_spec (Z.of_nat k) M); cbn [length]; lia.
Qed.

Lemma between_split (l : list Q) lo hi : lo <= hi ->
  (length (filter (fun p => Qle_bool lo p && negb (Qle_bool hi p)) l) + length (filter (fun p => negb (Qle_bool lo p)) l)
   = length (filter (fun p => negb (Qle_bool hi p)) l))%nat.
Proof.
  intros H. induction l as [|p l IH]; [reflexivity|]. cbn [filter].
  destruct (Qle_bool lo p) eqn:E1, (Qle_bool hi p) eqn:E2; cbn [andb negb length]; try lia.
  exfalso. apply Qle_bool_iff in E2. assert (Hc : lo <= p) by lra. apply Qle_bool_iff in Hc. congruence.
Qed.

Section Progression.
Variables (off d : Q) (k : nat).
Hypothesis Hd : 0 < d.
Let g (i : nat) : Q := off + d * inject_Z (Z.of_nat i).

Lemma prog_below_pointwise x i : negb (Qle_bool x (g i)) = (Z.of_nat i <? Qceiling ((x - off) / d))%Z.
Proof.
  unfold g. set (y := (x - off) / d). assert (Ey : y * d == x - off) by (unfold y; field; lra).
  destruct (Z.ltb_spec (Z.of_nat i) (Qceiling y)) as [L|G].
  - (* i <= ceil y - 1 < y *)
    apply negb_true_iff. destruct (Qle_bool x (off + d * inject_Z (Z.of_nat i))) eqn:E; [|reflexivity]. exfalso.
    apply Qle_bool_iff in E. pose proof (Qceiling_lt y) as H1.
    assert (H2 : inject_Z (Z.of_nat i) <= inject_Z (Qceiling y - 1)) by (rewrite <- Zle_Qle; lia).
    assert (H3 : inject_Z (Z.of_nat i) < y) by lra.
    assert (H4 : inject_Z (Z.of_nat i) * d < y * d) by (apply Qmult_lt_r; assumption). lra.
  - apply negb_false_iff. apply Qle_bool_iff. pose proof (Qle_ceiling y) as H1.
    assert (H2 : inject_Z (Qceiling y) <= inject_Z (Z.of_nat i)) by (rewrite <- Zle_Qle; lia).
    assert (H3 : y <= inject_Z (Z.of_nat i)) by lra.
    assert (H4 : y * d <= inject_Z (Z.of_nat i) * d) by (apply Qmult_le_compat_r; lra). lra.
Qed.

Lemma prog_below x : (0 <= Qceiling ((x - off) / d))%Z ->
  length (filter (fun p => negb (Qle_bool x p)) (map g (seq 0 k))) = Z.to_nat (Z.min (Qceiling ((x - off) / d)) (Z.of_nat k)).
Proof.
  intros H0. rewrite filter_map_length. rewrite (filter_ext _ _ (prog_below_pointwise x)).
  now apply count_below_seq.
Qed.

Lemma prog_sorted : StronglySorted Qle (map g (seq 0 k)).
Proof.
  generalize 0%nat. induction k as [|k' IH]; intros s; [constructor|].
  cbn [seq map]. constructor; [apply IH|]. apply Forall_forall. intros q Hq.
  apply in_map_iff in Hq as (i & E & Hi). apply in_seq in Hi. subst q. unfold g.
  assert (H : inject_Z (Z.of_nat s) <= inject_Z (Z.of_nat i)) by (rewrite <- Zle_Qle; lia).
  assert (H2 : d * inject_Z (Z.of_nat s) <= d * inject_Z (Z.of_nat i)) by (rewrite !(Qmult_comm d); apply Qmult_le_compat_r; lra). lra.
Qed.
End Progression.

Lemma inject_Z_minus (x y : Z) : inject_Z (x - y) = inject_Z x - inject_Z y.
Proof. unfold Z.sub, Qminus. now rewrite inject_Z_plus, inject_Z_opp. Qed.

Lemma ceil_diff (A e : Q) : (Qfloor e <= Qceiling (A + e) - Qceiling A <= Qceiling e)%Z.
Proof.
  pose proof (Qfloor_le e) as F1. pose proof (Qle_ceiling e) as C1.
  pose proof (Qle_ceiling A) as CA. pose proof (Qceiling_lt A) as CA'.
  pose proof (Qle_ceiling (A + e)) as CB. pose proof (Qceiling_lt (A + e)) as CB'.
  rewrite inject_Z_minus in CA', CB'. change (inject_Z 1) with 1 in CA', CB'.
  split.
  - (* ceil(A+e) > A + e - ... *)
    assert (H : inject_Z (Qceiling A + Qfloor e - 1) < inject_Z (Qceiling (A + e))).
    { rewrite inject_Z_minus, inject_Z_plus. change (inject_Z 1) with 1. lra. }
    rewrite <- Zlt_Qlt in H. lia.
  - assert (H : inject_Z (Qceiling (A + e) - 1) < inject_Z (Qceiling A + Qceiling e)).
    { rewrite inject_Z_minus, inject_Z_plus. change (inject_Z 1) with 1. lra. }
    rewrite <- Zlt_Qlt in H. lia.
Qed.

(** ** the ideal pointers: every position is hit floor or ceiling of its expected count *)
Lemma sus_cell_count (w : list Q) (tot : Q) (k : nat) (off : Q) (j : nat) :
  Forall (fun x => 0 <= x) w -> tot == sumQ w -> 0 < tot -> (0 < k)%nat ->
  0 <= off -> off < tot / inject_Z (Z.of_nat k) -> (j < length w)%nat ->
  (Qfloor (nth j w 0 * inject_Z (Z.of_nat k) / tot)%Q
   <= Z.of_nat (count_nat j (sus_walk (cumsum w) 0%nat (sus_ptrs_q tot k off)))
   <= Qceiling (nth j w 0 * inject_Z (Z.of_nat k) / tot)%Q)%Z.
Proof.
  intros Hw Htot Hpos Hk Hoff0 Hoff Hj.
  set (kq := inject_Z (Z.of_nat k)). set (d := tot / kq).
  assert (Hoffd : off < d) by exact Hoff.
  assert (Hkq : 0 < kq). { unfold kq. change 0 with (inject_Z 0). rewrite <- Zlt_Qlt. lia. }
  assert (Hd : 0 < d). { unfold d. apply Qlt_shift_div_l; [exact Hkq|lra]. }
  assert (Edk : d * kq == tot). { unfold d. field. lra. }
  set (g := fun i : nat => off + d * inject_Z (Z.of_nat i)).
  assert (Eptrs : sus_ptrs_q tot k off = map g (seq 0 k)) by reflexivity.
  assert (Hlen : length (cumsum w) = length w) by apply cumsum_from_length.
  (* every pointer lies in [0, tot) *)
  assert (Hrange : forall p, In p (map g (seq 0 k)) -> 0 <= p /\ p < tot).
  { intros p Hp. apply in_map_iff in Hp as (i & E & Hi). apply in_seq in Hi. subst p. unfold g.
    assert (H0 : 0 <= inject_Z (Z.of_nat i)). { change 0 with (inject_Z 0). rewrite <- Zle_Qle. lia. }
    assert (H1 : inject_Z (Z.of_nat i) <= kq - 1).
    { unfold kq. change 1 with (inject_Z 1). rewrite <- inject_Z_minus, <- Zle_Qle. lia. }
    assert (H2 : 0 <= d * inject_Z (Z.of_nat i)) by (apply Qmult_le_0_compat; lra).
    assert (H3 : d * inject_Z (Z.of_nat i) <= d * (kq - 1)) by (rewrite !(Qmult_comm d); apply Qmult_le_compat_r; lra).
    split; [lra|]. assert (d * (kq - 1) == tot - d) by (rewrite <- Edk; ring). lra. }
  rewrite walk_count; [| now apply cumsum_sorted | rewrite Eptrs; now apply prog_sorted | lia].
  set (lo := psum w j). set (hi := psum w (S j)).
  assert (Ehi : hi == lo + nth j w 0) by (apply psum_S; exact Hj).
  assert (Hwj : 0 <= nth j w 0). { rewrite Forall_forall in Hw. apply Hw, nth_In, Hj. }
  assert (Hlo0 : 0 <= lo). { unfold lo, psum. apply sumQ_nonneg. apply Forall_forall. intros x Hx.
    rewrite Forall_forall in Hw. apply Hw. rewrite <- (firstn_skipn j w). apply in_or_app. now left. }
  assert (Hhitot : hi <= tot).
  { rewrite Htot, <- psum_all. apply psum_mono; [exact Hw | lia]. }
  (* the cell test on these pointers is the interval test lo <= p < hi *)
  rewrite Eptrs.
  rewrite (filter_ext_in (in_cell (cumsum w) j) (fun p => Qle_bool lo p && negb (Qle_bool hi p))).
  2:{ intros p Hp. destruct (Hrange p Hp) as [P0 P1]. unfold in_cell. rewrite Hlen. f_equal.
      - destruct j as [|j']; cbn [Nat.eqb orb].
        + symmetry. apply Qle_bool_iff. unfold lo, psum. cbn. exact P0.
        + replace (S j' - 1)%nat with j' by lia. apply Qleb_comp; [|reflexivity].
          unfold lo. apply cumsum_nth. lia.
      - assert (E : Qle_bool (nth j (cumsum w) 0) p = Qle_bool hi p).
        { apply Qleb_comp; [|reflexivity]. unfold hi. now apply cumsum_nth. }
        rewrite E. destruct (Nat.eqb_spec j (length w - 1)) as [Ej|Nj]; [|reflexivity].
        cbn [orb]. symmetry. apply negb_true_iff. destruct (Qle_bool hi p) eqn:E2; [|reflexivity]. exfalso.
        apply Qle_bool_iff in E2. assert (Ehi2 : hi == tot).
        { unfold hi. rewrite Htot, <- psum_all. replace (S j) with (length w) by lia. reflexivity. }
        lra. }
  pose proof (between_split (map g (seq 0 k)) lo hi ltac:(lra)) as Hsplit.
  (* both thresholds lie in [0, tot]: the ceilings are in 0..k *)
  assert (Hceil : forall x, 0 <= x -> x <= tot ->
            (0 <= Qceiling ((x - off) / d) <= Z.of_nat k)%Z).
  { intros x X0 X1. split.
    - assert (H : inject_Z (-1) < inject_Z (Qceiling ((x - off) / d))).
      { pose proof (Qle_ceiling ((x - off) / d)) as C. change (inject_Z (-1)) with (-(1)).
        assert (-(1) < (x - off) / d). { apply Qlt_shift_div_l; [exact Hd|]. lra. } lra. }
      rewrite <- Zlt_Qlt in H. lia.
    - assert (H : (x - off) / d <= kq). { apply Qle_shift_div_r; [exact Hd|]. rewrite (Qmult_comm kq d), Edk. lra. }
      apply Qceiling_resp_le in H. unfold kq in H. rewrite Qceiling_Z in H. exact H. }
  destruct (Hceil lo Hlo0 ltac:(lra)) as [A0 A1]. destruct (Hceil hi ltac:(lra) Hhitot) as [B0 B1].
  unfold g in Hsplit |- *.
  rewrite (prog_below off d k Hd lo A0), (prog_below off d k Hd hi B0) in Hsplit.
  rewrite Z.min_l in Hsplit by lia. rewrite Z.min_l in Hsplit by lia.
  pose proof (ceil_diff ((lo - off) / d) (nth j w 0 * kq / tot)) as CD.
  assert (EB : (lo - off) / d + nth j w 0 * kq / tot == (hi - off) / d).
  { unfold d. rewrite Ehi. field. split; lra. }
  rewrite (Qceiling_comp _ _ EB) in CD.
  lia.
Qed.

(** ** from positions in the sorted order back to element indices, through the shuffle *)
Lemma sumQ_Permutation l l' : Permutation l l' -> sumQ l == sumQ l'.
Proof.
  induction 1 as [|x l l' _ IH|x y l|l l' l'' _ IH1 _ IH2]; rewrite ?sumQ_cons; lra.
Qed.

Lemma nth_nonneg (p : list Q) i : Forall (fun x => 0 <= x) p -> 0 <= nth i p 0.
Proof.
  intros H. destruct (Nat.lt_ge_cases i (length p)) as [L|G].
  - rewrite Forall_forall in H. apply H, nth_In, L.
  - rewrite nth_overflow by exact G. lra.
Qed.

Lemma gather_nth {A} (d : A) (x : list A) (ix : list nat) j : (j < length ix)%nat ->
  nth j (gather d x ix) d = nth (nth j ix 0%nat) x d.
Proof.
  intros Hj. unfold gather. rewrite (nth_indep _ d (nth 0%nat x d)) by (rewrite map_length; exact Hj).
  now rewrite (map_nth (fun i => nth i x d)).
Qed.

Lemma gather_count (order walk : list nat) j : NoDup order -> (j < length order)%nat ->
  Forall (fun ix => (ix < length order)%nat) walk ->
  count_nat (nth j order 0%nat) (gather 0%nat order walk) = count_nat j walk.
Proof.
  intros Hnd Hj Hw. unfold gather. rewrite count_nat_map_filter.
  rewrite <- (map_id walk) at 2. rewrite count_nat_map_filter.
  f_equal. apply filter_ext_in. intros ix Hix. rewrite Forall_forall in Hw. specialize (Hw ix Hix).
  destruct (Nat.eqb_spec ix j) as [E|NE].
  - subst. apply Nat.eqb_refl.
  - apply Nat.eqb_neq. intros E. apply NE. eapply NoDup_nth; eauto.
Qed.

Lemma sus_finish_some order k cs ptrs perm : (0 < length cs)%nat -> (0 < k)%nat ->
  sus_finish order k cs ptrs perm = Some (permute 0%nat perm (gather 0%nat order (sus_walk cs 0 ptrs))).
Proof.
  intros Hc Hk. unfold sus_finish. destruct cs; [cbn in Hc; lia|]. destruct (Nat.eqb_spec k 0); [lia|reflexivity].
Qed.

Theorem sus_q_spec (p : list Q) (order : list nat) (k : nat) (off : Q) (perm : list nat) :
  Forall (fun x => 0 <= x) p -> 0 < sumQ p -> Permutation order (seq 0 (length p)) -> (0 < k)%nat ->
  0 <= off -> off < sumQ p / inject_Z (Z.of_nat k) -> Permutation perm (seq 0 k) ->
  exists sel, sus_q p order k off perm = Some sel /\ length sel = k /\
    forall i, (i < length p)%nat ->
      (Qfloor (nth i p 0 * inject_Z (Z.of_nat k) / sumQ p)%Q <= Z.of_nat (count_nat i sel)
       <= Qceiling (nth i p 0 * inject_Z (Z.of_nat k) / sumQ p)%Q)%Z
      /\ (nth i p 0 == 0 -> count_nat i sel = 0%nat).
Proof.
  intros Hp Htot Hord Hk Hoff0 Hoff Hperm.
  set (w := gather 0 p order).
  assert (Lord : length order = length p) by (rewrite (Permutation_length Hord); apply seq_length).
  assert (Lw : length w = length p) by (unfold w, gather; now rewrite map_length).
  assert (Lp : (0 < length p)%nat). { destruct p; [cbn in Htot; lra | cbn; lia]. }
  assert (Lcs : length (cumsum w) = length p) by (unfold cumsum; now rewrite cumsum_from_length).
  assert (NDord : NoDup order). { eapply Permutation_NoDup; [symmetry; exact Hord | apply seq_NoDup]. }
  assert (Hw : Forall (fun x => 0 <= x) w).
  { unfold w, gather. apply Forall_forall. intros x Hx. apply in_map_iff in Hx as (i & E & _). subst. now apply nth_nonneg. }
  assert (Pw : Permutation w p). { apply (permute_Permutation 0 order p). exact Hord. }
  assert (Etot : sumQ p == sumQ w) by (symmetry; now apply sumQ_Permutation).
  set (ptrs := sus_ptrs_q (sumQ p) k off).
  set (walk := sus_walk (cumsum w) 0 ptrs).
  assert (Lptrs : length ptrs = k) by (unfold ptrs, sus_ptrs_q; now rewrite map_length, seq_length).
  assert (Lwalk : length walk = k) by (unfold walk; now rewrite walk_length).
  assert (Sptrs : StronglySorted Qle ptrs).
  { unfold ptrs. apply (prog_sorted off (sumQ p / inject_Z (Z.of_nat k)) k).
    apply Qlt_shift_div_l; [change 0 with (inject_Z 0); rewrite <- Zlt_Qlt; lia | lra]. }
  assert (Rwalk : Forall (fun ix => (ix < length order)%nat) walk).
  { pose proof (walk_range (cumsum w) ptrs Sptrs) as H. eapply Forall_impl; [|exact H]. cbn. intros a Ha. lia. }
  exists (permute 0%nat perm (gather 0%nat order walk)).
  split; [|split].
  - unfold sus_q. fold w. rewrite sus_finish_some by lia. reflexivity.
  - rewrite permute_length. rewrite (Permutation_length Hperm). apply seq_length.
  - intros i Hi.
    assert (Hin : In i order). { eapply Permutation_in; [symmetry; exact Hord | apply in_seq; lia]. }
    destruct (In_nth order i 0%nat Hin) as (j & Hj & Ej).
    assert (Ecount : count_nat i (permute 0%nat perm (gather 0%nat order walk)) = count_nat j walk).
    { rewrite (count_nat_Permutation i _ (gather 0%nat order walk)).
      - rewrite <- Ej. now apply gather_count.
      - apply permute_Permutation. unfold gather. rewrite map_length, Lwalk. exact Hperm. }
    assert (Ew : nth j w 0 = nth i p 0). { unfold w. rewrite gather_nth by exact Hj. now rewrite Ej. }
    pose proof (sus_cell_count w (sumQ p) k off j Hw Etot Htot Hk Hoff0 Hoff ltac:(lia)) as H.
    fold ptrs in H. fold walk in H. rewrite Ew in H. rewrite Ecount. split; [exact H|].
    intros Hz. assert (E0 : nth i p 0 * inject_Z (Z.of_nat k) / sumQ p == 0) by (rewrite Hz; field; lra).
    rewrite (Qceiling_comp _ _ E0) in H. change (Qceiling 0) with 0%Z in H. lia.
Qed.
