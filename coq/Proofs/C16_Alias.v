(** C16 — aliasing freedom of copies at the top level (shallow AND deep): every attribute that __copy__ / __deepcopy__ passes
    through copy.copy or copy.deepcopy is, in the copy, None, an immutable immediate, or a reference to a cell allocated by
    this very copy operation — never a cell of the source.  (What a shallow copy may share is the CONTENTS of containers.) *)
From Coq Require Import String Lia.
From PV Require Import Lib.Common Lib.C16_Spec Model.C16_Store Model.C16_Heap Proofs.C16_Heap.
Local Open Scope nat_scope.

Lemma hv_ge_mono n m v : n <= m -> hv_ge m v -> hv_ge n v.
Proof. destruct v; cbn; intros; try exact I. lia. Qed.

Lemma copy_hv_fresh_ref specs fuel deep h l h' v' :
  copy_hv specs fuel deep h (HRef l) = Some (h', v') -> exists l', v' = HRef l' /\ length h <= l' /\ l' < length h'.
Proof.
  destruct fuel as [|n]; [discriminate|]. cbn [copy_hv].
  destruct (nth_error h l) as [[x|d|t p|cn fs]|]; try discriminate.
  - intros H. injection H as <- <-. exists (length h). rewrite app_length. cbn. split; [reflexivity|lia].
  - destruct deep.
    + destruct (copy_kvs (copy_hv specs n true) h d) as [[h1 d']|] eqn:E; [|discriminate]. intros H. injection H as <- <-.
      destruct (copy_kvs_extends _ (copy_hv_extends specs n true) _ _ _ _ E) as [e ->].
      exists (length (h ++ e)). rewrite !app_length. cbn. split; [reflexivity|lia].
    + intros H. injection H as <- <-. exists (length h). rewrite app_length. cbn. split; [reflexivity|lia].
  - intros H. injection H as <- <-. exists (length h). rewrite app_length. cbn. split; [reflexivity|lia].
  - destruct (find_spec cn specs) as [s|]; [|discriminate].
    destruct (copy_fields _ _ h fs _) as [[h1 fs']|] eqn:E; [|discriminate]. intros H. injection H as <- <-.
    destruct (copy_fields_extends _ _ (copy_hv_extends specs n false) (copy_hv_extends specs n true) _ _ _ _ _ E) as [e ->].
    exists (length (h ++ e)). rewrite !app_length. cbn. split; [reflexivity|lia].
Qed.

Lemma copy_hv_ge specs fuel deep h v h' v' : copy_hv specs fuel deep h v = Some (h', v') -> hv_ge (length h) v'.
Proof.
  destruct v as [|x|l]; intro H.
  - destruct fuel; [discriminate|]. cbn in H. injection H as <- <-. exact I.
  - destruct fuel; [discriminate|]. cbn in H. injection H as <- <-. exact I.
  - destruct (copy_hv_fresh_ref _ _ _ _ _ _ _ H) as [l' [-> [A _]]]. exact A.
Qed.

Definition copied_fresh (n0 : nat) (c : cpfield) (kv : String.string * hv) : Prop :=
  fst kv = ctgt c /\ (cmode c = CPlain \/ hv_ge n0 (snd kv)).

Lemma copy_fields_fresh_top specs fuel n0 : forall fields h src h' o', n0 <= length h ->
  copy_fields (copy_hv specs fuel false) (copy_hv specs fuel true) h src fields = Some (h', o') ->
  Forall2 (copied_fresh n0) (filter (fun c => negb (String.eqb (csrc c) "")) fields) o'.
Proof.
  induction fields as [|c t IH]; intros h src h' o' Hn H; cbn [copy_fields] in H.
  - injection H as <- <-. constructor.
  - cbn [filter]. destruct (String.eqb (csrc c) "") eqn:Ec; cbn [negb]; [eapply IH; eauto|]. cbv beta iota zeta in H.
    assert (Step : forall h1 v1, (exists e1, h1 = h ++ e1) -> (cmode c = CPlain \/ hv_ge (length h) v1) ->
              match copy_fields (copy_hv specs fuel false) (copy_hv specs fuel true) h1 src t with
              | Some (h2, t') => Some (h2, (ctgt c, v1) :: t') | None => None end = Some (h', o') ->
              Forall2 (copied_fresh n0) (c :: filter (fun c0 => negb (String.eqb (csrc c0) "")) t) o').
    { intros h1 v1 [e1 ->] Hv H1. destruct (copy_fields _ _ (h ++ e1) src t) as [[h2 t']|] eqn:E2; [|discriminate]. injection H1 as <- <-.
      constructor.
      - split; [reflexivity|]. cbn [snd]. destruct Hv as [Hv|Hv]; [left; exact Hv | right; eapply hv_ge_mono; [exact Hn | exact Hv]].
      - eapply IH; [|exact E2]. rewrite app_length. lia. }
    destruct (cmode c) eqn:Em.
    + destruct (copy_hv specs fuel false h (hattr (csrc c) src)) as [[h1 v1]|] eqn:E1; [|discriminate].
      eapply Step; [eapply (copy_hv_extends specs fuel false); exact E1 | right; eapply copy_hv_ge; exact E1 | exact H].
    + destruct (copy_hv specs fuel true h (hattr (csrc c) src)) as [[h1 v1]|] eqn:E1; [|discriminate].
      eapply Step; [eapply (copy_hv_extends specs fuel true); exact E1 | right; eapply copy_hv_ge; exact E1 | exact H].
    + eapply Step; [exists []; rewrite app_nil_r; reflexivity | left; reflexivity | exact H].
Qed.

(** __copy__ / __deepcopy__ of any class table *)
Theorem class_copy_toplevel_fresh specs fuel deep s h o h' o' : class_copy specs fuel deep s h o = Some (h', o') ->
  Forall2 (copied_fresh (length h)) (filter (fun c => negb (String.eqb (csrc c) "")) (if deep then dp_ctor s ++ dp_post s else cp_ctor s ++ cp_post s)) o'.
Proof. unfold class_copy. intro H. eapply copy_fields_fresh_top; [apply le_n | exact H]. Qed.

(** hence such an attribute of the copy is never the same cell as an attribute of a source that lives in the old heap *)
Lemma fresh_not_same n v w : hv_lt n v -> hv_ge n w -> same_ref v w = false.
Proof. destruct v as [| |a], w as [| |b]; cbn; intros; try reflexivity. apply PeanoNat.Nat.eqb_neq. lia. Qed.
