(** C16 — genetic maps: constructor settings, default-argument round trip, egmap files (Model/C16_Maps.v).
    One clause of the round trip is false of the code as it stands (default arguments on the two sides: witness by computation,
    reproduced on the implementation by the harness).  Two others were false of the former code and are repaired in the library
    (the ExtendedGeneticMap constructor dropped spline_kind / spline_fill_value; to_egmap / from_egmap lost marker names and
    function codes): they are proved at full strength about the current code, and the refutations are kept about the former
    definitions [old_egmap_ctor_kind], [old_egmap_to] / [old_egmap_from] as regression witnesses. *)
From Coq Require Import String PrimFloat Lia.
From PV Require Import Lib.Common Lib.FloatK Lib.C16_Spec Model.C16_Store Model.C16_Codec Gen.C16_Kernel Model.C16_Kernel Model.C16_Maps
                       Proofs.C16_Codec.
Local Open Scope Z_scope.

(** ** constructor settings *)
(** both map classes keep the interpolation kind / fill value they are given, whatever they are, whether or not a spline is built *)
Lemma sgm_ctor_keeps k a : ctor_kind false k a = k /\ ctor_fill false k a = k.
Proof. unfold ctor_kind, ctor_fill, ctor_setting. destruct a; split; reflexivity. Qed.
Lemma egm_ctor_keeps k a : ctor_kind true k a = k /\ ctor_fill true k a = k.
Proof. unfold ctor_kind, ctor_fill, ctor_setting. destruct a; split; reflexivity. Qed.
(** the former ExtendedGeneticMap constructor replaced them by the defaults of build_spline whenever it built its spline: a map
    constructed (hence read by from_pandas / from_csv / from_egmap) with the source's spline_kind = "nearest" came out "linear" *)
Lemma old_egm_ctor_drops_kind : exists k, old_egmap_ctor_kind k true <> k /\ old_egmap_ctor_kind k true = zs "linear".
Proof. exists (zs "nearest"). split; [vm_compute; discriminate | reflexivity]. Qed.

(** ** default arguments on both sides *)
Definition w_map : gmap := mkG [1; 1; 1] [10; 20; 30] None [0%float; 0.5%float; 1%float] None None.
Lemma default_roundtrip_scales :
  exists ut uf g' m, default_units_to false = Some ut /\ default_units_from false = Some uf
    /\ gmap_from_pandas false uf false false true (gmap_to_pandas false ut w_map) = Some (g', m)
    /\ fl_eqb (g_gen g') (g_gen w_map) = false /\ fl_eqb (g_gen g') [0%float; 50%float; 100%float] = true.
Proof. do 4 eexists. split; [reflexivity|]. split; [reflexivity|]. split; [vm_compute; reflexivity|]. split; vm_compute; reflexivity. Qed.
(** guard: the same units on both sides (Morgans: lossless, Proofs/C16_Codec.gmap_roundtrip_M; centiMorgans: up to the
    rounding of 0.01 * (100 * x), exact on the grid k/256) *)

(** ** egmap files *)
Definition w_eg : gmap := mkG [1; 1] [10; 20] (Some [11; 21]) [0%float; 0.5%float] (Some [[97]; [98]]) (Some [[72]; [72]]).
(** the former pair lost names and function codes ... *)
Lemma old_egmap_names_lost :
  exists g', old_egmap_from false (old_egmap_to w_eg) = Some (g', None)
             /\ g_name w_eg = Some [[97]; [98]] /\ g_name g' = None /\ g_fn g' = None
             /\ g_chr g' = g_chr w_eg /\ g_pos g' = g_pos w_eg /\ g_stop g' = g_stop w_eg /\ fl_eqb (g_gen g') (g_gen w_eg) = true.
Proof. eexists. split; [vm_compute; reflexivity|]. repeat split; vm_compute; reflexivity. Qed.
(** ... because the header the former writer produced did not carry the names the reader looks for; the current one does, at the
    positions the reader takes them from *)
Lemma old_egmap_header_mismatch :
  forallb (fun nm => negb (existsb (cell_eqb (CS (zs nm))) old_egmap_header)) k_egmap_file_optional = true.
Proof. vm_compute. reflexivity. Qed.
Lemma egmap_header_match :
  nth_error k_egmap_file_header 4 = nth_error k_egmap_file_optional 0 /\ nth_error k_egmap_file_header 5 = nth_error k_egmap_file_optional 1
  /\ length k_egmap_file_header = 6%nat /\ length k_egmap_file_optional = 2%nat.
Proof. repeat split; reflexivity. Qed.
(** df[name].notna().any() on a column the writer filled from an optional array: true exactly for a present, non-empty array *)
Lemma has_value_opt_strs n (o : option (list str)) :
  existsb (fun x => negb (is_na x)) (opt_strs_col n o) = match o with Some (_ :: _) => true | _ => false end.
Proof.
  destruct o as [[|x l]|]; cbn; try reflexivity.
  induction n as [|n IH]; cbn; [reflexivity | exact IH].
Qed.
(** the file pair reproduces every extended map (any sizes, positions, names, codes), marker names and function codes included;
    the one thing the format cannot tell apart is an absent array from an array of length zero (both are an empty column) *)
Theorem egmap_roundtrip (g : gmap) (auto_group : bool) s : g_stop g = Some s -> g_name g <> Some [] -> g_fn g <> Some [] ->
  egmap_from auto_group (egmap_to g) = Some (gmap_construct auto_group g).
Proof.
  intros E1 N1 N2. destruct g as [c p st ge nm fn]. cbn [g_stop g_name g_fn] in E1, N1, N2. subst.
  unfold egmap_to, egmap_to_with, egmap_header, gmap_to_pandas. cbn [g_chr g_pos g_gen g_stop g_name g_fn app map snd].
  change (map (fun s0 => CS (zs s0)) k_egmap_file_header)
    with [CS (zs "chr"); CS (zs "pos"); CS (zs "stop"); CS (zs "M"); CS (zs "mkr_name"); CS (zs "map_fncode")].
  cbn [combine]. unfold egmap_from, egmap_from_with. cbn [nth_error fst snd].
  rewrite !(opt_all_map_some as_int CI) by reflexivity. rewrite (opt_all_map_some as_float CF) by reflexivity.
  set (t := [(CS (zs "chr"), map CI c); _; _; _; _; _]).
  replace (has_col (nth 0 k_egmap_file_optional ""%string) t) with true by (vm_compute; reflexivity).
  replace (has_col (nth 1 k_egmap_file_optional ""%string) t) with true by (vm_compute; reflexivity).
  replace (col_has_value (nth 0 k_egmap_file_optional ""%string) t) with (existsb (fun x => negb (is_na x)) (opt_strs_col (length c) nm))
    by (vm_compute; reflexivity).
  replace (col_has_value (nth 1 k_egmap_file_optional ""%string) t) with (existsb (fun x => negb (is_na x)) (opt_strs_col (length c) fn))
    by (vm_compute; reflexivity).
  rewrite !has_value_opt_strs. unfold k_egmap_optional_read. cbn [andb].
  destruct nm as [[|n0 nm]|]; [congruence | |]; destruct fn as [[|f0 fn]|]; try congruence; cbn [opt_strs_col];
    rewrite ?(opt_all_map_some as_str CS) by reflexivity; reflexivity.
Qed.
(** the formerly proved special case: a map without marker names and function codes *)
Corollary egmap_roundtrip_no_names (g : gmap) (auto_group : bool) s : g_stop g = Some s -> g_name g = None -> g_fn g = None ->
  egmap_from auto_group (egmap_to g) = Some (gmap_construct auto_group g).
Proof. intros E1 E2 E3. apply (egmap_roundtrip g auto_group s E1); [rewrite E2 | rewrite E3]; discriminate. Qed.

(** ** column selection (finite table regenerated from the source) *)
Lemma col_select_ok : forallb col_row_ok k_col_select = true /\ (16 <= length k_col_select)%nat.
Proof. split; [vm_compute; reflexivity | vm_compute; lia]. Qed.
