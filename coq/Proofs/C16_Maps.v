(** C16 — genetic maps: constructor settings, default-argument round trip, egmap files (Model/C16_Maps.v).
    Three clauses of the round trip are false of the code as it stands (witnesses by computation, reproduced on the
    implementation by the harness); each is proved under the guard that excludes the failing inputs. *)
From Coq Require Import String PrimFloat Lia.
From PV Require Import Lib.Common Lib.FloatK Lib.C16_Spec Model.C16_Store Model.C16_Codec Gen.C16_Kernel Model.C16_Kernel Model.C16_Maps
                       Proofs.C16_Codec.
Local Open Scope Z_scope.

(** ** constructor settings *)
(** StandardGeneticMap keeps the interpolation kind / fill value it is given, whatever they are ... *)
Lemma sgm_ctor_keeps k a : ctor_kind false k a = k /\ ctor_fill false k a = k.
Proof. unfold ctor_kind, ctor_fill, ctor_setting. destruct a; split; reflexivity. Qed.
(** ... ExtendedGeneticMap replaces them by the defaults of build_spline whenever it builds its spline: a map constructed
    (hence read by from_pandas / from_csv / from_egmap) with the source's spline_kind = "nearest" comes out "linear" *)
Lemma egm_ctor_drops_kind : exists k, ctor_kind true k true <> k /\ ctor_kind true k true = zs "linear".
Proof. exists (zs "nearest"). split; [vm_compute; discriminate | reflexivity]. Qed.
(** guard: no spline is built, or the kind / fill value are the defaults of build_spline *)
Lemma egm_ctor_partial k a : a = false \/ k = zs k_egmap_build_default_kind -> ctor_kind true k a = k.
Proof. intros [->| ->]; [reflexivity|]. unfold ctor_kind, ctor_setting. destruct a; destruct k_egmap_ctor_passes_kind; reflexivity. Qed.

(** ** default arguments on both sides *)
Definition w_map : gmap := mkG [1; 1; 1] [10; 20; 30] None [0%float; 0.5%float; 1%float] None None.
Lemma default_roundtrip_scales :
  exists ut uf g' m, default_units_to false = Some ut /\ default_units_from false = Some uf
    /\ gmap_from_pandas false uf false false true (gmap_to_pandas false ut w_map) = Some (g', m)
    /\ fl_eqb (g_gen g') (g_gen w_map) = false /\ fl_eqb (g_gen g') [0%float; 50%float; 100%float] = true.
Proof. do 4 eexists. split; [reflexivity|]. split; [reflexivity|]. split; [vm_compute; reflexivity|]. split; vm_compute; reflexivity. Qed.
(** guard: the same units on both sides (Morgans: lossless, Proofs/C16_Codec.gmap_roundtrip_M; centiMorgans: up to the
    rounding of 0.01 * (100 * x), exact on the grid k/256) *)

(** ** egmap files *)
Definition w_eg : gmap := mkG [1; 1] [10; 20] (Some [11; 21]) [0%float; 0.5%float] (Some [[97]; [98]]) (Some [[72]; [72]]).
Lemma egmap_names_lost :
  exists g', egmap_from false (egmap_to w_eg) = Some (g', None)
             /\ g_name w_eg = Some [[97]; [98]] /\ g_name g' = None /\ g_fn g' = None
             /\ g_chr g' = g_chr w_eg /\ g_pos g' = g_pos w_eg /\ g_stop g' = g_stop w_eg /\ fl_eqb (g_gen g') (g_gen w_eg) = true.
Proof. eexists. split; [vm_compute; reflexivity|]. repeat split; vm_compute; reflexivity. Qed.
(** the header the writer produces does not carry the names the reader looks for *)
Lemma egmap_header_mismatch :
  forallb (fun nm => negb (existsb (String.eqb nm) k_egmap_file_header)) k_egmap_file_optional = true.
Proof. vm_compute. reflexivity. Qed.
(** guard: a map without marker names and function codes survives the file pair (any sizes, any positions) *)
Lemma nth_error_combine_hd {A B} (a : A) (b : B) la lb : nth_error (combine (a :: la) (b :: lb)) 0 = Some (a, b).
Proof. reflexivity. Qed.
Theorem egmap_roundtrip_partial (g : gmap) (auto_group : bool) s : g_stop g = Some s -> g_name g = None -> g_fn g = None ->
  egmap_from auto_group (egmap_to g) = Some (gmap_construct auto_group g).
Proof.
  intros E1 E2 E3. destruct g as [c p st ge nm fn]. cbn [g_stop g_name g_fn] in E1, E2, E3. subst.
  unfold egmap_to, egmap_header, gmap_to_pandas. cbn [g_chr g_pos g_gen g_stop g_name g_fn app map snd].
  change (map (fun s0 => CS (zs s0)) k_egmap_file_header)
    with [CS (zs "chr"); CS (zs "pos"); CS (zs "stop"); CS (zs "M"); CS (zs "name"); CS (zs "fncode")].
  cbn [combine]. unfold egmap_from. cbn [nth_error fst snd].
  rewrite !(opt_all_map_some as_int CI) by reflexivity. rewrite (opt_all_map_some as_float CF) by reflexivity.
  replace (has_col (nth 0 k_egmap_file_optional ""%string) _) with false by (vm_compute; reflexivity).
  replace (has_col (nth 1 k_egmap_file_optional ""%string) _) with false by (vm_compute; reflexivity).
  reflexivity.
Qed.

(** ** column selection (finite table regenerated from the source) *)
Lemma col_select_ok : forallb col_row_ok k_col_select = true /\ (16 <= length k_col_select)%nat.
Proof. split; [vm_compute; reflexivity | vm_compute; lia]. Qed.
