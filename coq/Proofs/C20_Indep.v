(** C20 — proofs, part 4: the stored start state is never written and every replicate begins on a fresh copy whose
    contents equal the initial start state — for all well-behaved operators ([ops_wb]), all counts, whether or not the
    run fails. *)
From PV Require Import Lib.Common Model.C20_Loop Proofs.C20_Heap.
Local Open Scope nat_scope.
Arguments hget : simpl never.

Lemma somes_in w ws l : somes w = Some ws -> In l ws -> In (Some l) w.
Proof.
  revert ws; induction w as [|[x|] w IH]; intros ws; cbn; [intros [= <-] []| |discriminate].
  destruct (somes w) as [t|]; [|discriminate]. intros [= <-] [->|Hin]; [now left | right; eauto].
Qed.
Lemma somes_length w ws : somes w = Some ws -> length ws = length w.
Proof.
  revert ws; induction w as [|[x|] w IH]; intros ws; cbn; [now intros [= <-]| |discriminate].
  destruct (somes w) as [t|]; [|discriminate]. intros [= <-]. cbn. f_equal. now apply IH.
Qed.
Lemma somes_map_Some ds : somes (map Some ds) = Some ds.
Proof. induction ds as [|d ds IH]; cbn; [reflexivity | now rewrite IH]. Qed.

Lemma assign_seq_length w r : length (fst (assign_seq w r)) = length w.
Proof.
  revert r; induction w as [|x w IH]; intros [|[l|] r]; cbn; try reflexivity.
  specialize (IH r). destruct (assign_seq w r) as [w' ok]. cbn in *. now rewrite IH.
Qed.
Lemma assign_seq_in w r l : In (Some l) (fst (assign_seq w r)) -> In (Some l) w \/ In (Some l) r.
Proof.
  revert r; induction w as [|x w IH]; intros [|[l0|] r]; cbn; auto.
  specialize (IH r). destruct (assign_seq w r) as [w' ok]. cbn in *. intros [H|H]; [right; now left|].
  destruct (IH H); auto.
Qed.
Lemma assign_length w r : length (fst (assign w r)) = length w.
Proof. unfold assign. destruct (Nat.eqb _ _); [apply assign_seq_length | reflexivity]. Qed.
Lemma assign_in w r l : In (Some l) (fst (assign w r)) -> In (Some l) w \/ In (Some l) r.
Proof. unfold assign. destruct (Nat.eqb _ _); [apply assign_seq_in | cbn; auto]. Qed.

Lemma andthen_assoc f g k st : andthen f (andthen g k) st = andthen (andthen f g) k st.
Proof.
  unfold andthen. destruct (f st) as [[st1 ev1] ok1]. destruct ok1; [|reflexivity].
  destruct (g st1) as [[st2 ev2] ok2]. destruct ok2; [|reflexivity].
  destruct (k st2) as [[st3 ev3] ok3]. now rewrite app_assoc.
Qed.

Lemma fresh_closed_trans h h1 ext : fresh_closed h h1 -> fresh_closed h1 (h1 ++ ext) -> length h <= length h1 ->
  fresh_closed h (h1 ++ ext).
Proof.
  intros F1 F2 L l kvs k l' [L1 L2] Hg Hin. destruct (Nat.lt_ge_cases l (length h1)) as [Hlt|Hge].
  - rewrite hget_app_old in Hg by exact Hlt. specialize (F1 l kvs k l' (conj L1 Hlt) Hg Hin). rewrite app_length. lia.
  - specialize (F2 l kvs k l' (conj Hge L2) Hg Hin). lia.
Qed.

Lemma content1_ext h ext d :
  d < length h -> (forall kvs k l, hget h d = Some (ODict kvs) -> In (k, l) kvs -> l < length h) ->
  content1 (h ++ ext) d = content1 h d.
Proof.
  intros Hd Hv. unfold content1, snap1. rewrite hget_app_old by exact Hd.
  destruct (hget h d) as [[kvs|xs]|] eqn:Eg; try reflexivity. rewrite !map_map. apply map_ext_in.
  intros [k l] Hin. cbn. f_equal. unfold leafdata. rewrite hget_app_old; [reflexivity|]. eapply Hv; eauto.
Qed.

Lemma Forall2_imp {X Y} (R R' : X -> Y -> Prop) la lb : (forall a b, R a b -> R' a b) -> Forall2 R la lb -> Forall2 R' la lb.
Proof. intros H; induction 1; constructor; auto. Qed.

Section Indep.
Variable h0 : heap.                       (* the heap when the replication loop is entered *)
Variable start : list (option loc).       (* start_genome .. start_gmod *)

(** the start containers are dicts of leaves *)
Definition start_wf : Prop :=
  forall d, In (Some d) start ->
    exists kvs, hget h0 d = Some (ODict kvs) /\ forall k l, In (k, l) kvs -> exists xs, hget h0 l = Some (OLeaf xs).
(** the start region: the start containers and their leaves *)
Definition SR : region := fun l =>
  In (Some l) start \/ exists d kvs k, In (Some d) start /\ hget h0 d = Some (ODict kvs) /\ In (k, l) kvs.
Hypothesis Hwf : start_wf.
Hypothesis Hlen5 : length start = 5.

Lemma SR_below : below SR (length h0).
Proof.
  intros l [Hin|(d & kvs & k & Hin & Hg & Hk)].
  - destruct (Hwf _ Hin) as (kvs & Hg & _). eapply hget_lt; eauto.
  - destruct (Hwf _ Hin) as (kvs' & Hg' & Hl). rewrite Hg in Hg'. injection Hg' as <-.
    destruct (Hl _ _ Hk) as (xs & Hx). eapply hget_lt; eauto.
Qed.

(** contents of the start state when the loop was entered *)
Definition start_contents : list (list (Z * list Z)) :=
  map (fun o => match o with Some d => content1 h0 d | None => [] end) start.

Lemma content1_agree h d : In (Some d) start -> (forall l, SR l -> hget h l = hget h0 l) -> content1 h d = content1 h0 d.
Proof.
  intros Hin Hag. unfold content1, snap1. rewrite (Hag d) by now left.
  destruct (hget h0 d) as [[kvs|xs]|] eqn:Eg; try reflexivity. rewrite !map_map. apply map_ext_in.
  intros [k l] Hk. cbn. f_equal. unfold leafdata. rewrite Hag; [reflexivity|]. right. eauto 6.
Qed.

(** * the invariant *)
(** [mv]: the local mcfg holds a mating configuration of the working region; [lo]: lower bound of t_cur *)
Definition inv (mv : bool) (lo : Z) (st : pstate) : Prop :=
  p_start st = start /\ length (p_work st) = length start /\ (lo <= p_t st)%Z /\
  length h0 <= length (p_heap st) /\
  (forall l, SR l -> hget (p_heap st) l = hget h0 l) /\
  exists A : region,
    closedR (p_heap st) A /\ below A (length (p_heap st)) /\ (forall l, A l -> ~ SR l) /\
    inR A (p_work st) /\ inR A (p_stash st) /\ (mv = true -> A (p_mcfg st)).
(** what survives an aborted run *)
Definition winv (st : pstate) : Prop :=
  p_start st = start /\ forall l, SR l -> hget (p_heap st) l = hget h0 l.
Lemma inv_winv mv lo st : inv mv lo st -> winv st.
Proof. intros (S & _ & _ & _ & H & _). split; auto. Qed.
Lemma inv_weaken mv lo lo' st : (lo' <= lo)%Z -> inv mv lo st -> inv false lo' st.
Proof.
  intros Hl (S & W & T & L & H & A & C & B & D & I1 & I2 & _). unfold inv. repeat split; auto; try lia.
  exists A. repeat split; auto. discriminate.
Qed.
Lemma inv_lo mv lo lo' st : (lo' <= lo)%Z -> inv mv lo st -> inv mv lo' st.
Proof.
  intros Hl (S & W & T & L & H & A & C & B & D & I1 & I2 & I3). unfold inv. repeat split; auto; try lia.
  exists A. repeat split; auto.
Qed.

(** the first evaluation of a replicate (tag evaluate, t_cur = 0) sees contents equal to the initial start state, on
    locations that are neither part of the start state nor existed when the loop was entered *)
Definition Qev (e : event) : Prop :=
  e_tag e = T_EVAL -> e_t e = 0%Z ->
  map (map (fun x : Z * loc * list Z => (fst (fst x), snd x))) (e_dat e) = start_contents /\
  forall l, In l (ev_locs e) -> ~ SR l /\ length h0 <= l.

Definition ispec (f : step) (mv : bool) (lo : Z) (mv' : bool) (lo' : Z) : Prop :=
  forall st, inv mv lo st ->
    match f st with (st', evs, ok) => (ok = true -> inv mv' lo' st') /\ winv st' /\ Forall Qev evs end.

Lemma ispec_ret mv lo : ispec ret_ok mv lo mv lo.
Proof. intros st H; cbn. split; [auto|]. split; [eapply inv_winv; eauto | constructor]. Qed.

Lemma ispec_andthen f g mv lo mv1 lo1 mv2 lo2 :
  ispec f mv lo mv1 lo1 -> ispec g mv1 lo1 mv2 lo2 -> ispec (andthen f g) mv lo mv2 lo2.
Proof.
  intros Hf Hg st Hi. unfold andthen. specialize (Hf st Hi). destruct (f st) as [[st1 ev1] ok1].
  destruct Hf as (I1 & W1 & Q1). destruct ok1.
  - specialize (Hg st1 (I1 eq_refl)). destruct (g st1) as [[st2 ev2] ok2]. destruct Hg as (I2 & W2 & Q2).
    split; [exact I2|]. split; [exact W2|]. apply Forall_app. auto.
  - split; [discriminate|]. auto.
Qed.
Lemma ispec_pre f mv lo mv' lo' mv0 lo0 :
  ispec f mv lo mv' lo' -> (forall st, inv mv0 lo0 st -> inv mv lo st) -> ispec f mv0 lo0 mv' lo'.
Proof. intros H Hw st Hi. apply H, Hw, Hi. Qed.
Lemma ispec_post f mv lo mv' lo' mv1 lo1 :
  ispec f mv lo mv' lo' -> (forall st, inv mv' lo' st -> inv mv1 lo1 st) -> ispec f mv lo mv1 lo1.
Proof.
  intros H Hw st Hi. specialize (H st Hi). destruct (f st) as [[st' evs] ok]. destruct H as (I & W & Q).
  split; [intros E; apply Hw, I, E | auto].
Qed.
Lemma ispec_iter f mv lo n : ispec f mv lo mv lo -> ispec (iter n f) mv lo mv lo.
Proof. intros Hf; induction n as [|n IH]; cbn [iter]; [apply ispec_ret | eapply ispec_andthen; eauto]. Qed.

Lemma ispec_tick mv lo : ispec tick mv lo mv (lo + 1)%Z.
Proof.
  intros st (S & W & T & L & H & A & C & B & D & I1 & I2 & I3). cbn. split; [|split; [split; auto | constructor]].
  intros _. unfold inv; cbn. repeat split; auto; try lia. exists A. repeat split; auto.
Qed.
Lemma ispec_bump mv lo : ispec bump_rep mv lo mv lo.
Proof.
  intros st (S & W & T & L & H & A & C & B & D & I1 & I2 & I3). cbn. split; [|split; [split; auto | constructor]].
  intros _. unfold inv; cbn. repeat split; auto. exists A. repeat split; auto.
Qed.

(** ** operator and logbook calls *)
Lemma args_in_A (A : region) st ws (pm mv : bool) :
  somes (p_work st) = Some ws -> inR A (p_work st) -> (mv = true -> A (p_mcfg st)) -> (pm = true -> mv = true) ->
  forall l, In l (if pm then ws ++ [p_mcfg st] else ws) -> A l.
Proof.
  intros Es I1 I3 Hpm l Hin. destruct pm.
  - apply in_app_or in Hin. destruct Hin as [Hin|[<-|[]]]; [apply I1; eapply somes_in; eauto | auto].
  - apply I1. eapply somes_in; eauto.
Qed.

Lemma call_op_inv tag op (mc pm tm_ mv : bool) lo :
  op_wb mc op -> (pm = true -> mv = true) -> (tm_ = true -> mc = true) ->
  forall st, inv mv lo st ->
    match call_op tag op pm tm_ st with
    | (st', evs, ok) => (ok = true -> inv (mv || tm_) lo st') /\ winv st'
    end.
Proof.
  intros Hop Hpm Htm st Hi. pose proof Hi as (S & W & T & L & H & A & C & B & D & I1 & I2 & I3).
  unfold call_op. destruct (somes (p_work st)) as [ws|] eqn:Es; [|split; [discriminate | eapply inv_winv; eauto]].
  set (args := if pm then ws ++ [p_mcfg st] else ws).
  assert (Hargs : forall l, In l args -> A l) by (eapply args_in_A; eauto).
  assert (Hlen : 5 <= length args).
  { unfold args. pose proof (somes_length _ _ Es). destruct pm; rewrite ?app_length; lia. }
  pose proof (Hop (p_heap st) (p_stash st) args (p_t st) (p_tmax st) A C B Hargs I2 Hlen) as Hr. cbn zeta in Hr.
  set (r := op (p_heap st) (p_stash st) args (p_t st) (p_tmax st)) in *.
  destruct Hr as (R1 & R2 & R3 & R4 & R5 & R6).
  assert (HSR : forall l, SR l -> hget (r_heap r) l = hget h0 l).
  { intros l Hl. rewrite <- H by exact Hl. apply R2; [apply SR_below in Hl; lia|]. intros Ha. exact (D _ Ha Hl). }
  destruct (r_ok r).
  2:{ split; [discriminate|]. split; cbn; auto. }
  destruct (assign (p_work st) (r_roots r)) as [w' ok] eqn:Ea.
  assert (Hw' : w' = fst (assign (p_work st) (r_roots r))) by now rewrite Ea.
  split; [|split; cbn; auto]. intros ->. unfold inv; cbn.
  split; [exact S|]. split; [rewrite Hw', assign_length; exact W|]. split; [exact T|]. split; [lia|]. split; [exact HSR|].
  exists (extR A (length (p_heap st)) (length (r_heap r))).
  split; [exact R3|]. split; [intros l [Ha|Hb]; [apply B in Ha; lia | lia]|].
  split; [intros l [Ha|Hb]; [now apply D | intros Hs; apply SR_below in Hs; lia]|].
  split; [|split; [exact R5|]].
  - intros l Hin. rewrite Hw' in Hin. apply assign_in in Hin. destruct Hin as [Hin|Hin]; [left; now apply I1 | now apply R4].
  - destruct tm_; cbn.
    + intros _. apply R6. now apply Htm.
    + rewrite orb_false_r. intros Hmv. left. now apply I3.
Qed.

Lemma call_op_events tag op pm tm_ st :
  match call_op tag op pm tm_ st with
  | (st', evs, ok) =>
      (evs = [] /\ ok = false) \/ exists e ws, evs = [e] /\ e_tag e = tag /\ e_t e = p_t st /\ somes (p_work st) = Some ws /\
                               e_roots e = (if pm then ws ++ [p_mcfg st] else ws) /\ e_dat e = snap (p_heap st) (e_roots e)
  end.
Proof.
  unfold call_op. destruct (somes (p_work st)) as [ws|]; [|left; now split].
  set (r := op _ _ _ _ _). destruct (r_ok r); [destruct (assign _ _)|]; right; eexists; exists ws; cbn; repeat split; reflexivity.
Qed.

Lemma ispec_call_op tag op (mc pm tm_ mv : bool) lo :
  op_wb mc op -> (pm = true -> mv = true) -> (tm_ = true -> mc = true) -> (tag = T_EVAL -> (1 <= lo)%Z) ->
  ispec (call_op tag op pm tm_) mv lo (mv || tm_) lo.
Proof.
  intros Hop Hpm Htm Ht st Hi. pose proof (call_op_inv tag op mc pm tm_ mv lo Hop Hpm Htm st Hi) as H1.
  pose proof (call_op_events tag op pm tm_ st) as H2.
  destruct (call_op tag op pm tm_ st) as [[st' evs] ok]. destruct H1 as [I W]. split; [exact I|]. split; [exact W|].
  destruct H2 as [[-> _]|(e & ws & -> & E1 & E2 & _)]; constructor; [|constructor].
  intros Etag Et. exfalso. destruct Hi as (_ & _ & T & _). rewrite E1 in Etag. specialize (Ht Etag). lia.
Qed.

Lemma ispec_call_log tag lg (pm mv : bool) lo :
  log_wb lg -> (pm = true -> mv = true) -> tag <> T_EVAL -> ispec (call_log tag lg pm) mv lo mv lo.
Proof.
  intros Hlg Hpm Htag st Hi. pose proof Hi as (S & W & T & L & H & A & C & B & D & I1 & I2 & I3).
  unfold call_log. destruct (somes (p_work st)) as [ws|] eqn:Es.
  2:{ split; [discriminate|]. split; [eapply inv_winv; eauto | constructor]. }
  destruct (misc_collides pm (p_misc st)).
  { split; [discriminate|]. split; [eapply inv_winv; eauto | constructor]. }
  set (args := if pm then ws ++ [p_mcfg st] else ws).
  assert (Hargs : forall l, In l args -> A l) by (eapply args_in_A; eauto).
  pose proof (Hlg (p_heap st) (p_stash st) args (p_t st) (p_tmax st) (p_rep st) (p_misc st) A C B Hargs I2) as Hr.
  destruct (lg _ _ _ _ _ _ _) as [[h' s'] ok]. cbn zeta in Hr. destruct Hr as (R1 & R2 & R3 & R4).
  assert (HSR : forall l, SR l -> hget h' l = hget h0 l).
  { intros l Hl. rewrite <- H by exact Hl. apply R2; [apply SR_below in Hl; lia|]. intros Ha. exact (D _ Ha Hl). }
  split; [|split; [split; cbn; auto|]].
  - intros _. unfold inv; cbn. repeat split; auto; try lia.
    exists (extR A (length (p_heap st)) (length h')).
    split; [exact R3|]. split; [intros l [Ha|Hb]; [apply B in Ha; lia | lia]|].
    split; [intros l [Ha|Hb]; [now apply D | intros Hs; apply SR_below in Hs; lia]|].
    split; [intros l Hin; left; now apply I1|]. split; [exact R4|]. intros Hmv. left. now apply I3.
  - constructor; [|constructor]. intros Etag. cbn in Etag. contradiction.
Qed.

(** ** reset *)
Lemma reset_slots_spec : forall sl work h h' w' ok,
  (forall l, SR l -> hget h l = hget h0 l) -> length h0 <= length h ->
  (forall d, In (Some d) sl -> In (Some d) start) ->
  reset_slots h sl work = (h', w', ok) ->
  (exists ext, h' = h ++ ext) /\ fresh_closed h h' /\ length w' = length work /\
  (forall l, In (Some l) w' -> In (Some l) work \/ length h <= l < length h') /\
  (ok = true -> length sl <= length work ->
     exists ds', firstn (length sl) w' = map Some ds' /\
       Forall2 (fun o d' => exists d, o = Some d /\ length h <= d' < length h' /\ content1 h' d' = content1 h0 d) sl ds').
Proof.
  induction sl as [|[d|] sl IH]; intros work h h' w' ok Hag Hl0 Hsub Hr.
  - destruct work; cbn in Hr; injection Hr as <- <- <-;
      (split; [exists []; now rewrite app_nil_r|]; split; [intros l kvs k l' Hl; lia|]; split; [reflexivity|];
       split; [auto|]; intros _ _; exists []; split; [reflexivity | constructor]).
  - destruct work as [|w wt].
    { cbn in Hr. injection Hr as <- <- <-.
      split; [exists []; now rewrite app_nil_r|]. split; [intros l kvs k l' Hl; lia|]. split; [reflexivity|].
      split; [auto|]. intros _ Hlen. cbn in Hlen. lia. }
    cbn in Hr. destruct (deepcopy h d) as [[h1 d1]|] eqn:Ed.
    2:{ injection Hr as <- <- <-. split; [exists []; now rewrite app_nil_r|]. split; [intros l kvs k l' Hl; lia|].
        split; [reflexivity|]. split; [auto|]. discriminate. }
    destruct (reset_slots h1 sl wt) as [[h2 wt'] ok2] eqn:Er. injection Hr as <- <- <-.
    destruct (deepcopy_facts _ _ _ _ Ed) as ((ext1 & ->) & Hd1 & Hfc1 & _ & kvs & Hgd & Hcont).
    assert (Hin : In (Some d) start) by (apply Hsub; now left).
    assert (Hag1 : forall l, SR l -> hget (h ++ ext1) l = hget h0 l).
    { intros l Hs. rewrite hget_app_old; [now apply Hag | apply SR_below in Hs; lia]. }
    assert (Hl1 : length h0 <= length (h ++ ext1)) by (rewrite app_length; lia).
    assert (Hsub1 : forall d', In (Some d') sl -> In (Some d') start) by (intros; apply Hsub; now right).
    destruct (IH wt (h ++ ext1) h2 wt' ok2 Hag1 Hl1 Hsub1 Er) as ((ext2 & ->) & Hfc2 & Hlw & Hinw & Hok).
    assert (Hc1 : content1 (h ++ ext1) d1 = content1 h0 d).
    { rewrite Hcont; [now apply content1_agree|]. intros k l Hk.
      destruct (Hwf _ Hin) as (kvs0 & Hg0 & Hleaf). rewrite Hag in Hgd by now left. rewrite Hg0 in Hgd. injection Hgd as <-.
      destruct (Hleaf _ _ Hk) as (xs & Hx). apply hget_lt in Hx. lia. }
    split; [exists (ext1 ++ ext2); now rewrite app_assoc|].
    split; [apply fresh_closed_trans; auto; rewrite app_length; lia|].
    split; [cbn; now rewrite Hlw|]. split.
    { intros l [[= <-]|Hl]; [right; rewrite !app_length in *; lia|].
      destruct (Hinw _ Hl) as [Hw|Hb]; [left; now right | right; rewrite !app_length in *; lia]. }
    intros -> Hlen. cbn in Hlen. destruct (Hok eq_refl ltac:(lia)) as (ds' & Hf & HF2).
    exists (d1 :: ds'). split; [cbn; now rewrite Hf|]. constructor.
    + exists d. split; [reflexivity|]. split; [rewrite !app_length in *; lia|].
      rewrite content1_ext; [exact Hc1 | lia |].
      intros kk k l Hg Hk. specialize (Hfc1 d1 kk k l Hd1 Hg Hk). lia.
    + eapply Forall2_imp; [|exact HF2]. intros o d' (dd & -> & Hr' & Hc). exists dd. split; [reflexivity|].
      split; [rewrite !app_length in *; lia | exact Hc].
  - destruct work as [|w wt]; cbn in Hr; injection Hr as <- <- <-;
      (split; [exists []; now rewrite app_nil_r|]; split; [intros l kvs k l' Hl; lia|]; split; [reflexivity|];
       split; [auto|]; try discriminate). intros _ Hlen. cbn in Hlen. lia.
Qed.

Lemma contents_of_copies_gen h' (sl : list (option loc)) ds' (lo_ hi_ : nat) :
  Forall2 (fun o d' => exists d, o = Some d /\ lo_ <= d' < hi_ /\ content1 h' d' = content1 h0 d) sl ds' ->
  map (content1 h') ds' = map (fun o => match o with Some d => content1 h0 d | None => [] end) sl.
Proof.
  induction 1 as [|o d' sl' ds (d & -> & _ & Hc) HF IH]; cbn; [reflexivity|]. now rewrite Hc, IH.
Qed.
Lemma contents_of_copies h' ds' (lo_ hi_ : nat) :
  Forall2 (fun o d' => exists d, o = Some d /\ lo_ <= d' < hi_ /\ content1 h' d' = content1 h0 d) start ds' ->
  map (content1 h') ds' = start_contents.
Proof. apply contents_of_copies_gen. Qed.

Lemma snap_contents h ds :
  map (map (fun x : Z * loc * list Z => (fst (fst x), snd x))) (snap h ds) = map (content1 h) ds.
Proof. unfold snap, content1. now rewrite map_map. Qed.

Lemma firstn_all_eq {X} (l : list X) n : n = length l -> firstn n l = l.
Proof. intros ->. apply firstn_all. Qed.

Lemma ispec_reset_eval op mv lo :
  op_wb false op -> ispec (andthen reset (call_op T_EVAL op false false)) mv lo mv 0%Z.
Proof.
  intros Hop st Hi. pose proof Hi as (S & W & T & L & H & A & C & B & D & I1 & I2 & I3).
  unfold andthen, reset.
  destruct (reset_slots (p_heap st) (p_start st) (p_work st)) as [[h' w'] ok] eqn:Er.
  rewrite S in Er.
  destruct (reset_slots_spec start (p_work st) (p_heap st) h' w' ok H L (fun d Hd => Hd) Er)
    as ((ext & ->) & Hfc & Hlw & Hinw & Hok).
  assert (HSR : forall l, SR l -> hget (p_heap st ++ ext) l = hget h0 l).
  { intros l Hs. rewrite hget_app_old; [now apply H | apply SR_below in Hs; lia]. }
  assert (Qreset : forall rep w, Qev (mkEv T_RESET 0 (p_tmax st) rep [] [] [] w 0 [] (p_heap st) (p_heap st ++ ext))).
  { intros rep w Etag. cbn in Etag. discriminate. }
  destruct ok.
  2:{ split; [discriminate|]. split; [split; cbn; auto|]. constructor; [apply Qreset | constructor]. }
  set (st1 := mkSt (p_heap st ++ ext) (p_stash st) (p_start st) w' 0 (p_tmax st) (p_rep st) (p_mcfg st) (p_misc st)).
  assert (Hi1 : inv mv 0 st1).
  { unfold inv, st1; cbn. split; [exact S|]. split; [lia|]. split; [lia|]. split; [rewrite app_length; lia|]. split; [exact HSR|].
    exists (extR A (length (p_heap st)) (length (p_heap st ++ ext))).
    split.
    { intros y kk k l' Hy Hgy Hin. destruct (Nat.lt_ge_cases y (length (p_heap st))) as [Hlt|Hge].
      - rewrite hget_app_old in Hgy by exact Hlt. left. destruct Hy as [Hy|Hy]; [eapply C; eauto | lia].
      - right. pose proof (hget_lt _ _ _ Hgy) as Hylt. exact (Hfc y kk k l' (conj Hge Hylt) Hgy Hin). }
    split; [intros l [Ha|Hb]; [apply B in Ha; rewrite app_length; lia | lia]|].
    split; [intros l [Ha|Hb]; [now apply D | intros Hs; apply SR_below in Hs; lia]|].
    split; [intros l Hin; destruct (Hinw _ Hin) as [Hw|Hb]; [left; now apply I1 | now right]|].
    split; [intros l Hin; left; now apply I2|]. intros Hmv. left. now apply I3. }
  pose proof (call_op_inv T_EVAL op false false false mv 0 Hop ltac:(discriminate) ltac:(discriminate) st1 Hi1) as H1.
  pose proof (call_op_events T_EVAL op false false st1) as H2.
  destruct (call_op T_EVAL op false false st1) as [[st2 evs2] ok2]. destruct H1 as [I2' W2]. rewrite orb_false_r in I2'.
  split; [exact I2'|]. split; [exact W2|]. constructor; [apply Qreset|].
  destruct H2 as [[-> _]|(e & ws & -> & E1 & E2 & E3 & E4 & E5)]; constructor; [|constructor].
  intros _ _.
  destruct (Hok eq_refl ltac:(lia)) as (ds' & Hf & HF2).
  rewrite firstn_all_eq in Hf by lia. unfold st1 in E3, E4, E5; cbn in E3, E4, E5.
  rewrite Hf, somes_map_Some in E3. injection E3 as <-. rewrite E4 in E5.
  split.
  - rewrite E5, snap_contents. eapply contents_of_copies; eauto.
  - assert (Hrange : forall l, length (p_heap st) <= l < length (p_heap st ++ ext) -> ~ SR l /\ length h0 <= l).
    { intros l Hl. split; [intros Hs; apply SR_below in Hs; lia | lia]. }
    assert (Hds : forall d', In d' ds' -> length (p_heap st) <= d' < length (p_heap st ++ ext)).
    { intros d' Hd'. destruct (Forall2_in_r _ _ _ _ HF2 Hd') as (o & _ & (d & _ & Hr & _)). exact Hr. }
    intros l Hin. apply Hrange. unfold ev_locs in Hin. rewrite E4, E5 in Hin. apply in_app_or in Hin.
    destruct Hin as [Hin|Hin]; [now apply Hds|].
    apply in_concat in Hin. destruct Hin as (row & Hrow & Hl). apply in_map_iff in Hrow.
    destruct Hrow as (sn & <- & Hsn). unfold snap in Hsn. apply in_map_iff in Hsn. destruct Hsn as (d' & <- & Hd').
    apply in_map_iff in Hl. destruct Hl as (x & <- & Hx). unfold snap1 in Hx.
    destruct (hget (p_heap st ++ ext) d') as [[kvs|xs]|] eqn:Eg; try (now destruct Hx).
    apply in_map_iff in Hx. destruct Hx as ([k l1] & <- & Hk). cbn.
    exact (Hfc d' kvs k l1 (Hds _ Hd') Eg Hk).
Qed.

(** ** the loop *)
Section Loop.
Variable ops : opset.
Hypothesis Hops : ops_wb ops.

Lemma ispec_generation : ispec (generation ops) false 1%Z false 1%Z.
Proof.
  destruct Hops as (P1 & P2 & P3 & P4 & G0 & G1 & G2 & G3 & G4). unfold generation.
  assert (NE : forall z, z <> T_EVAL -> z = T_EVAL -> (1 <= 1)%Z) by (intros; lia).
  eapply ispec_andthen; [exact (ispec_call_op T_PSEL _ true false true false 1%Z P1 ltac:(discriminate) ltac:(reflexivity) ltac:(intros; lia))|]. cbn [orb].
  eapply ispec_andthen; [exact (ispec_call_log L_PSEL _ true true 1%Z G1 ltac:(reflexivity) ltac:(discriminate))|].
  eapply ispec_andthen; [exact (ispec_call_op T_MATE _ false true false true 1%Z P2 ltac:(reflexivity) ltac:(discriminate) ltac:(intros; lia))|]. cbn [orb].
  eapply ispec_andthen; [exact (ispec_call_log L_MATE _ true true 1%Z G2 ltac:(reflexivity) ltac:(discriminate))|].
  eapply ispec_andthen; [exact (ispec_call_op T_EVAL _ false false false true 1%Z P3 ltac:(discriminate) ltac:(discriminate) ltac:(intros; lia))|]. cbn [orb].
  eapply ispec_andthen; [exact (ispec_call_log L_EVAL _ false true 1%Z G3 ltac:(discriminate) ltac:(discriminate))|].
  eapply ispec_andthen; [exact (ispec_call_op T_SSEL _ false false false true 1%Z P4 ltac:(discriminate) ltac:(discriminate) ltac:(intros; lia))|]. cbn [orb].
  eapply ispec_andthen; [exact (ispec_call_log L_SSEL _ false true 1%Z G4 ltac:(discriminate) ltac:(discriminate))|].
  eapply ispec_post; [apply ispec_tick|]. intros st Hi. eapply inv_weaken; [|exact Hi]. lia.
Qed.

Lemma ispec_replicate ngen li lo : ispec (replicate ops ngen li) false lo false 1%Z.
Proof.
  destruct Hops as (P1 & P2 & P3 & P4 & G0 & G1 & G2 & G3 & G4). unfold replicate, advance.
  eapply ispec_andthen; [apply ispec_bump|].
  intros st Hi. rewrite andthen_assoc. revert st Hi.
  eapply ispec_andthen; [apply (ispec_reset_eval _ false lo P3)|].
  eapply ispec_andthen.
  { instantiate (1 := 0%Z). instantiate (1 := false).
    destruct li; [exact (ispec_call_log L_INIT _ false false 0%Z G0 ltac:(discriminate) ltac:(discriminate)) | apply ispec_ret]. }
  eapply ispec_andthen; [apply ispec_tick|]. apply ispec_iter, ispec_generation.
Qed.

Lemma ispec_replicates ngen li n lo : (lo <= 1)%Z -> ispec (iter n (replicate ops ngen li)) false lo false lo.
Proof.
  intros Hlo. apply ispec_iter. eapply ispec_post; [apply ispec_replicate|].
  intros st Hi. eapply inv_lo; [|exact Hi]. exact Hlo.
Qed.
End Loop.
End Indep.
