(** C12 — entry-level statements (including the mirror step and the diagonal the loops never visit):
    what holds for every index tuple, what holds only off the unvisited diagonal ([_partial]) and the
    witnesses showing that the unvisited entries are wrong ([_refuted]). *)
From Coq Require Import Lqa Qfield.
From PV Require Import Lib.Common Model.C12_Var Model.C12_Enum Proofs.C12_Sums Proofs.C12_Chunks Proofs.C12_Var Proofs.C12_Selfing
  Proofs.C12_Meiosis Proofs.C12_Exact Proofs.C12_Genic.
Local Open Scope Q_scope.

Lemma psum_zero chroms F : (forall i j, F i j == 0) -> psum chroms F == 0.
Proof. intros H. unfold psum. apply sumQ_zero. intros c _. apply sumQ_zero. intros j _. apply sumQ_zero. intros i _. apply H. Qed.

Definition two_truth S R k geno t1 t2 f m : Q :=
  psum (s_chroms S) (fun i j => dhcov (E_two (R i j) k (hapof (s_u S) t1 t2 (row geno f) i j) (hapof (s_u S) t1 t2 (row geno m) i j))).
Definition three_truth S R k geno t1 t2 r f m : Q :=
  psum (s_chroms S) (fun i j => dhcov (E_three (R i j) k (hapof (s_u S) t1 t2 (row geno r) i j) (hapof (s_u S) t1 t2 (row geno f) i j)
                                                          (hapof (s_u S) t1 t2 (row geno m) i j))).
Definition four_truth S R k (ga gb gc gd : list Z) t1 t2 : Q :=
  psum (s_chroms S) (fun i j => dhcov (E_four (R i j) k (hapof (s_u S) t1 t2 ga i j) (hapof (s_u S) t1 t2 gb i j)
                                                         (hapof (s_u S) t1 t2 gc i j) (hapof (s_u S) t1 t2 gd i j))).

(** two-way: every entry, the diagonal included (selfing an inbred line gives no variance) *)
Theorem twoway_entry_exact S R k geno t1 t2 f m : mem_ok (s_mem S) -> D_tables S R k ->
  twoway_entry S geno t1 t2 f m == two_truth S R k geno t1 t2 f m.
Proof.
  intros Hm HD. unfold twoway_entry, mirror, two_truth.
  destruct (Nat.ltb_spec m f) as [L|G]; [now apply twoway_pairs|].
  destruct (Nat.ltb_spec f m) as [L2|G2].
  - rewrite twoway_low_sym. now apply twoway_pairs.
  - assert (f = m) by lia. subst m. rewrite <- (twoway_pairs S R k t1 t2 (row geno f) (row geno f) Hm HD). symmetry. apply twoway_low_same.
Qed.

(** three-way: correct whenever female <> male *)
Theorem threeway_entry_partial S R k geno t1 t2 r f m : mem_ok (s_mem S) -> D_tables S R k -> f <> m ->
  threeway_entry S geno t1 t2 r f m == three_truth S R k geno t1 t2 r f m.
Proof.
  intros Hm HD Hne. unfold threeway_entry, mirror, three_truth.
  destruct (Nat.ltb_spec m f) as [L|G]; [now apply threeway_pairs|].
  destruct (Nat.ltb_spec f m) as [L2|G2]; [|lia].
  rewrite threeway_low_sym. now apply threeway_pairs.
Qed.

(** four-way: correct whenever female1 <> male1 *)
Theorem fourway_entry_partial S R k geno t1 t2 f2 m2 f1 m1 : mem_ok (s_mem S) -> D_tables S R k -> f1 <> m1 ->
  fourway_entry S geno t1 t2 f2 m2 f1 m1 == four_truth S R k (row geno f2) (row geno m2) (row geno f1) (row geno m1) t1 t2.
Proof.
  intros Hm HD Hne. unfold fourway_entry, mirror, four_truth.
  destruct (Nat.ltb_spec m1 f1) as [L|G]; [now apply quad_pairs|].
  destruct (Nat.ltb_spec f1 m1) as [L2|G2]; [|lia].
  rewrite quad_low_sym34. now apply quad_pairs.
Qed.

(** dihybrid: correct whenever female <> male; the enumerated cross unites a gamete of the female (phases geno1 f, geno f)
    with a gamete of the male (phases geno1 m, geno m) *)
Theorem dihybrid_entry_partial S R k geno geno1 t1 t2 f m : mem_ok (s_mem S) -> D_tables S R k -> f <> m ->
  dihybrid_entry S geno geno1 t1 t2 f m == four_truth S R k (row geno1 f) (row geno f) (row geno1 m) (row geno m) t1 t2.
Proof.
  intros Hm HD Hne. unfold dihybrid_entry, mirror, four_truth.
  destruct (Nat.ltb_spec m f) as [L|G]; [now apply quad_pairs|].
  destruct (Nat.ltb_spec f m) as [L2|G2]; [|lia].
  rewrite quad_low_sym_pairs. now apply quad_pairs.
Qed.

(** * witnesses: one marker with effect 1, parents 0 and 1 *)
Definition wS : setup := mk_setup 1 [[1]] [(0%nat, 1%nat)] None (Some 0%nat) [[0]].
Definition wR : nat -> nat -> Q := lookup [[0]].
Lemma wS_tables : D_tables wS wR 0.
Proof.
  apply mk_setup_tables.
  - repeat constructor.
  - intros i j Hi Hj. assert (i = 0%nat) by lia. assert (j = 0%nat) by lia. subst. vm_compute. discriminate.
Qed.

(** three-way (1 x 1) x 0 is the two-way cross 1 x 0 and has variance 1; the matrix reports 0 *)
Theorem threeway_repeated_parent_refuted : exists S R k geno r f,
  mem_ok (s_mem S) /\ D_tables S R k /\ threeway_entry S geno 0 0 r f f == 0 /\ ~ three_truth S R k geno 0 0 r f f == 0.
Proof.
  exists wS, wR, 0%nat, [[0%Z]; [1%Z]], 0%nat, 1%nat. split; [exact I|]. split; [exact wS_tables|]. split.
  - vm_compute. reflexivity.
  - intro H. vm_compute in H. discriminate.
Qed.

Theorem fourway_repeated_parent_refuted : exists S R k geno f2 m2 f1,
  mem_ok (s_mem S) /\ D_tables S R k /\ fourway_entry S geno 0 0 f2 m2 f1 f1 == 0 /\
  ~ four_truth S R k (row geno f2) (row geno m2) (row geno f1) (row geno f1) 0 0 == 0.
Proof.
  exists wS, wR, 0%nat, [[0%Z]; [1%Z]], 0%nat, 0%nat, 1%nat. split; [exact I|]. split; [exact wS_tables|]. split.
  - vm_compute. reflexivity.
  - intro H. vm_compute in H. discriminate.
Qed.

(** dihybrid: selfing a heterozygote (phases 0 / 1) segregates; the matrix reports 0 on its diagonal *)
Theorem dihybrid_self_refuted : exists S R k geno geno1 f,
  mem_ok (s_mem S) /\ D_tables S R k /\ dihybrid_entry S geno geno1 0 0 f f == 0 /\
  ~ four_truth S R k (row geno1 f) (row geno f) (row geno1 f) (row geno f) 0 0 == 0.
Proof.
  exists wS, wR, 0%nat, [[0%Z]], [[1%Z]], 0%nat. split; [exact I|]. split; [exact wS_tables|]. split.
  - vm_compute. reflexivity.
  - intro H. vm_compute in H. discriminate.
Qed.

(** genic matrices: the diagonal is never written *)
Theorem genic_diagonal_refuted u p geno geno1 tr f : genic_entry u p geno geno1 tr f f = None.
Proof. unfold genic_entry. now rewrite Nat.eqb_refl. Qed.

Theorem genic_entry_partial u p geno tr f m : f <> m -> allele01 (row geno f) -> allele01 (row geno m) ->
  exists v, genic_entry u p geno geno tr f m = Some v /\
            v == sumQ (map (fun i => eff u tr (row geno f) (row geno m) i * cov_D1s 0 (Some 0%nat) * eff u tr (row geno f) (row geno m) i) (ix p)).
Proof.
  intros Hne Hf Hm. unfold genic_entry. destruct (Nat.eqb_spec f m) as [E|_]; [contradiction|].
  eexists. split; [reflexivity|]. now apply genic_twoway.
Qed.

(** selfing closed form, derived from the enumeration and expressed with the coded rprob_filial *)
Theorem selfing_closed_form r k i : 0 <= r ->
  Egen r k i (fun g => fst g * snd g) == (1 - rprob_filial r (Some (S k))) * cis i + rprob_filial r (Some (S k)) * trans i.
Proof. intros Hr. rewrite Egen_prod, obs_closed by exact Hr. reflexivity. Qed.

(** * the hypotheses of the exactness theorems are satisfiable: 4 loci on two linkage groups *)
Definition ex_ps : list Q := [1#4; 1#2; 1#8].
Definition ex_S : setup :=
  {| s_u := [[1; 2]; [-1; 1]; [3#4; 0]; [1; 1]]; s_chroms := [(0%nat, 2%nat); (2%nat, 4%nat)]; s_mem := Some 1%nat;
     s_D1 := fun i j => cov_D1s (rpair ex_ps i j) (Some 0%nat); s_D2 := fun i j => cov_D2s (rpair ex_ps i j) (Some 0%nat) |}.
Lemma ex_hyps : mem_ok (s_mem ex_S) /\ consecutive (s_chroms ex_S) 0 (S (length ex_ps)) /\ free_between ex_ps 0 (s_chroms ex_S) /\
  (forall c i j, In c (s_chroms ex_S) -> In i (ixs c) -> In j (ixs c) -> s_D1 ex_S i j == cov_D1s (rpair ex_ps i j) (Some 0%nat)) /\
  ~ twoway_low ex_S 0 1 [0; 1; 1; 0]%Z [1; 0; 0; 0]%Z == 0.
Proof.
  split; [cbn; lia|]. split; [cbn; lia|]. split.
  - repeat constructor; cbn [fst]; intros; try lia.
  - split; [intros; reflexivity|]. intro H. vm_compute in H. discriminate.
Qed.

(** small packaging lemmas for Props/C12.v *)
Lemma cov_gam_dsum ps a1 b1 a2 b2 :
  length a1 = S (length ps) -> length b1 = S (length ps) -> length a2 = S (length ps) -> length b2 = S (length ps) ->
  cov_gam ps a1 b1 a2 b2 == dsum (rho ps) (nthq (wdiff a1 b1)) (nthq (wdiff a2 b2)) (seq 0 (S (length ps))) (seq 0 (S (length ps))).
Proof.
  intros H1 H2 H3 H4. rewrite cov_gam_m2 by assumption.
  apply m2_dsum; unfold wdiff; rewrite map2_length, ?H1, ?H2, ?H3, ?H4; apply Nat.min_id.
Qed.

Lemma mirror_correct S t1 t2 ga gb gc gd :
  twoway_low S t1 t2 ga gb == twoway_low S t1 t2 gb ga /\
  threeway_low S t1 t2 ga gb gc == threeway_low S t1 t2 ga gc gb /\
  quad_low S t1 t2 ga gb gc gd == quad_low S t1 t2 ga gb gd gc /\
  quad_low S t1 t2 ga gb gc gd == quad_low S t1 t2 gb ga gc gd /\
  quad_low S t1 t2 ga gb gc gd == quad_low S t1 t2 gc gd ga gb.
Proof.
  repeat split; [apply twoway_low_sym | apply threeway_low_sym | apply quad_low_sym34 | apply quad_low_sym12 | apply quad_low_sym_pairs].
Qed.

Lemma linkage_free_D k : cov_D1s 0 k == 1 /\ cov_D2s 0 k == 1.
Proof. split; [apply D1_r0 | apply D2_r0]. Qed.
