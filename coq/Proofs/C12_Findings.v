(** C12 — entry-level statements (including the mirror step and the diagonal of the last two parent axes): every entry of every
    matrix equals the enumeration ([_exact]); the FORMER code, which never visited that diagonal, agrees off it and is
    refuted on it ([old_..._refuted], regression witnesses). *)
From Coq Require Import Lqa Qfield.
From PV Require Import Lib.Common Model.C12_Var Model.C12_Enum Proofs.C12_Sums Proofs.C12_Chunks Proofs.C12_Var Proofs.C12_Selfing
  Proofs.C12_Meiosis Proofs.C12_Exact Proofs.C12_Genic.
Local Open Scope Q_scope.

Lemma psum_zero chroms F : (forall i j, F i j == 0) -> psum chroms F == 0.
Proof. intros H. unfold psum. apply sumQ_zero. intros c _. apply sumQ_zero. intros j _. apply sumQ_zero. intros i _. apply H. Qed.

Definition two_truth S R k geno t1 t2 f m : Q :=
  psum (s_chroms S) (fun i j => dhcov (E_two (R i j) k (hapof (s_u S) t1 t2 (row geno f) i j) (hapof (s_u S) t1 t2 (row geno m) i j))).
Definition three_truth S R k geno t1 t2 r f m : Q :=
  psum (s_chroms S) (fun i j => dhcov (E_three (R i j) k (hapof (s_u S) t1 t2 (row geno r) i j) (hapof (s_u S) t1 t2 (row geno f) i j)
                                                          (hapof (s_u S) t1 t2 (row geno m) i j))).
Definition four_truth S R k (ga gb gc gd : list Z) t1 t2 : Q :=
  psum (s_chroms S) (fun i j => dhcov (E_four (R i j) k (hapof (s_u S) t1 t2 ga i j) (hapof (s_u S) t1 t2 gb i j)
                                                         (hapof (s_u S) t1 t2 gc i j) (hapof (s_u S) t1 t2 gd i j))).

(** two-way: every entry, the diagonal included (selfing an inbred line gives no variance) *)
Theorem twoway_entry_exact S R k geno t1 t2 f m : mem_ok (s_mem S) -> D_tables S R k ->
  twoway_entry S geno t1 t2 f m == two_truth S R k geno t1 t2 f m.
Proof.
  intros Hm HD. unfold twoway_entry, mirror, two_truth.
  destruct (Nat.ltb_spec m f) as [L|G]; [now apply twoway_pairs|].
  destruct (Nat.ltb_spec f m) as [L2|G2].
  - rewrite twoway_low_sym. now apply twoway_pairs.
  - assert (f = m) by lia. subst m. rewrite <- (twoway_pairs S R k t1 t2 (row geno f) (row geno f) Hm HD). symmetry. apply twoway_low_same.
Qed.

(** three-way: every entry, female = male included (the loop body's formula is valid for a repeated parent: [threeway_pairs]
    holds for all genotypes) *)
Theorem threeway_entry_exact S R k geno t1 t2 r f m : mem_ok (s_mem S) -> D_tables S R k ->
  threeway_entry S geno t1 t2 r f m == three_truth S R k geno t1 t2 r f m.
Proof.
  intros Hm HD. unfold threeway_entry, mirror_incl, three_truth.
  destruct (Nat.leb_spec m f) as [L|G]; [now apply threeway_pairs|].
  rewrite threeway_low_sym. now apply threeway_pairs.
Qed.

(** four-way: every entry, female1 = male1 included *)
Theorem fourway_entry_exact S R k geno t1 t2 f2 m2 f1 m1 : mem_ok (s_mem S) -> D_tables S R k ->
  fourway_entry S geno t1 t2 f2 m2 f1 m1 == four_truth S R k (row geno f2) (row geno m2) (row geno f1) (row geno m1) t1 t2.
Proof.
  intros Hm HD. unfold fourway_entry, mirror_incl, four_truth.
  destruct (Nat.leb_spec m1 f1) as [L|G]; [now apply quad_pairs|].
  rewrite quad_low_sym34. now apply quad_pairs.
Qed.

(** dihybrid: every entry, selfs included; the enumerated cross unites a gamete of the female (phases geno1 f, geno f)
    with a gamete of the male (phases geno1 m, geno m) *)
Theorem dihybrid_entry_exact S R k geno geno1 t1 t2 f m : mem_ok (s_mem S) -> D_tables S R k ->
  dihybrid_entry S geno geno1 t1 t2 f m == four_truth S R k (row geno1 f) (row geno f) (row geno1 m) (row geno m) t1 t2.
Proof.
  intros Hm HD. unfold dihybrid_entry, mirror_incl, four_truth.
  destruct (Nat.leb_spec m f) as [L|G]; [now apply quad_pairs|].
  rewrite quad_low_sym_pairs. now apply quad_pairs.
Qed.

(** a repeated last parent reduces the cross by one way: (f x f) x r is the two-way cross f x r *)
Lemma E_three_repeated r k (R F : hap) (psi : hap -> Q) : E_three r k R F F psi == E_two r k F R psi.
Proof. unfold E_three, E_two, Emei. cbn [fst snd]. destruct F as [a b]. cbn [fst snd]. field. Qed.

Lemma E_four_repeated r k (P1 P2 P3 : hap) (psi : hap -> Q) : E_four r k P1 P2 P3 P3 psi == E_three r k P3 P1 P2 psi.
Proof. unfold E_four, E_three, Emei. cbn [fst snd]. destruct P3 as [a b]. cbn [fst snd]. field. Qed.

(** the truth of a repeated-parent entry is the truth of the smaller cross (what the property text calls the two-way variance) *)
Theorem three_truth_repeated S R k geno t1 t2 r f : three_truth S R k geno t1 t2 r f f == two_truth S R k geno t1 t2 f r.
Proof.
  unfold three_truth, two_truth. apply psum_ext. intros c i j _ _ _. unfold dhcov, cov2. rewrite !E_three_repeated. reflexivity.
Qed.
Theorem four_truth_repeated S R k geno t1 t2 f2 m2 f1 :
  four_truth S R k (row geno f2) (row geno m2) (row geno f1) (row geno f1) t1 t2 == three_truth S R k geno t1 t2 f1 f2 m2.
Proof.
  unfold four_truth, three_truth. apply psum_ext. intros c i j _ _ _. unfold dhcov, cov2. rewrite !E_four_repeated. reflexivity.
Qed.

(** * the former code: correct off the unvisited diagonal, wrong on it (regression witnesses) *)
Lemma old_mirror_offdiag f m low : f <> m -> mirror f m low = mirror_incl f m low.
Proof.
  intros Hne. unfold mirror, mirror_incl.
  destruct (Nat.ltb_spec m f), (Nat.leb_spec m f), (Nat.ltb_spec f m); try lia; reflexivity.
Qed.
Theorem old_entries_offdiag S geno geno1 t1 t2 :
  (forall r f m, f <> m -> old_threeway_entry S geno t1 t2 r f m = threeway_entry S geno t1 t2 r f m) /\
  (forall f2 m2 f1 m1, f1 <> m1 -> old_fourway_entry S geno t1 t2 f2 m2 f1 m1 = fourway_entry S geno t1 t2 f2 m2 f1 m1) /\
  (forall f m, f <> m -> old_dihybrid_entry S geno geno1 t1 t2 f m = dihybrid_entry S geno geno1 t1 t2 f m).
Proof. repeat split; intros; now apply old_mirror_offdiag. Qed.

(** witnesses: one marker with effect 1, parents 0 and 1 *)
Definition wS : setup := mk_setup 1 [[1]] [(0%nat, 1%nat)] None (Some 0%nat) [[0]].
Definition wR : nat -> nat -> Q := lookup [[0]].
Lemma wS_tables : D_tables wS wR 0.
Proof.
  apply mk_setup_tables.
  - repeat constructor.
  - intros i j Hi Hj. assert (i = 0%nat) by lia. assert (j = 0%nat) by lia. subst. vm_compute. discriminate.
Qed.

(** three-way (1 x 1) x 0 is the two-way cross 1 x 0 and has variance 1; the former matrix reported 0, the repaired one 1 *)
Theorem old_threeway_repeated_parent_refuted : exists S R k geno r f,
  mem_ok (s_mem S) /\ D_tables S R k /\ old_threeway_entry S geno 0 0 r f f == 0 /\ ~ three_truth S R k geno 0 0 r f f == 0 /\
  threeway_entry S geno 0 0 r f f == three_truth S R k geno 0 0 r f f.
Proof.
  exists wS, wR, 0%nat, [[0%Z]; [1%Z]], 0%nat, 1%nat. split; [exact I|]. split; [exact wS_tables|]. split; [|split].
  - vm_compute. reflexivity.
  - intro H. vm_compute in H. discriminate.
  - apply threeway_entry_exact; [exact I | exact wS_tables].
Qed.

Theorem old_fourway_repeated_parent_refuted : exists S R k geno f2 m2 f1,
  mem_ok (s_mem S) /\ D_tables S R k /\ old_fourway_entry S geno 0 0 f2 m2 f1 f1 == 0 /\
  ~ four_truth S R k (row geno f2) (row geno m2) (row geno f1) (row geno f1) 0 0 == 0 /\
  fourway_entry S geno 0 0 f2 m2 f1 f1 == four_truth S R k (row geno f2) (row geno m2) (row geno f1) (row geno f1) 0 0.
Proof.
  exists wS, wR, 0%nat, [[0%Z]; [1%Z]], 0%nat, 0%nat, 1%nat. split; [exact I|]. split; [exact wS_tables|]. split; [|split].
  - vm_compute. reflexivity.
  - intro H. vm_compute in H. discriminate.
  - apply fourway_entry_exact; [exact I | exact wS_tables].
Qed.

(** dihybrid: selfing a heterozygote (phases 0 / 1) segregates; the former matrix reported 0 on its diagonal *)
Theorem old_dihybrid_self_refuted : exists S R k geno geno1 f,
  mem_ok (s_mem S) /\ D_tables S R k /\ old_dihybrid_entry S geno geno1 0 0 f f == 0 /\
  ~ four_truth S R k (row geno1 f) (row geno f) (row geno1 f) (row geno f) 0 0 == 0 /\
  dihybrid_entry S geno geno1 0 0 f f == four_truth S R k (row geno1 f) (row geno f) (row geno1 f) (row geno f) 0 0.
Proof.
  exists wS, wR, 0%nat, [[0%Z]], [[1%Z]], 0%nat. split; [exact I|]. split; [exact wS_tables|]. split; [|split].
  - vm_compute. reflexivity.
  - intro H. vm_compute in H. discriminate.
  - apply dihybrid_entry_exact; [exact I | exact wS_tables].
Qed.

(** * genic matrices *)
(** the former two-way / dihybrid code never wrote the diagonal *)
Theorem old_genic_diagonal_refuted u p geno geno1 tr f : old_genic_entry u p geno geno1 tr f f = None.
Proof. unfold old_genic_entry. now rewrite Nat.eqb_refl. Qed.
Lemma old_genic_offdiag u p geno geno1 tr f m : f <> m ->
  exists v, old_genic_entry u p geno geno1 tr f m = Some v /\ v == genic_entry u p geno geno1 tr f m.
Proof.
  intros Hne. unfold old_genic_entry, genic_entry, mirror_incl. destruct (Nat.eqb_spec f m) as [E|_]; [contradiction|].
  eexists. split; [reflexivity|]. destruct (m <=? f)%nat; [reflexivity | apply genic_pair_sym].
Qed.

(** two-way genic: every entry, the diagonal included = the i = j terms of the two-way sum (D(r = 0) = 1) *)
Theorem genic_entry_exact u p geno tr f m : allele01 (row geno f) -> allele01 (row geno m) ->
  genic_entry u p geno geno tr f m ==
  sumQ (map (fun i => eff u tr (row geno f) (row geno m) i * cov_D1s 0 (Some 0%nat) * eff u tr (row geno f) (row geno m) i) (ix p)).
Proof.
  intros Hf Hm. unfold genic_entry, mirror_incl, taf. destruct (m <=? f)%nat; [now apply genic_twoway|].
  rewrite genic_pair_sym. now apply genic_twoway.
Qed.

(** dihybrid genic: every entry, selfs included = the i = j terms of the four-way block over the parents' phases *)
Theorem genic_dihybrid_entry_exact u p geno geno1 tr f m :
  allele01 (row geno f) -> allele01 (row geno1 f) -> allele01 (row geno m) -> allele01 (row geno1 m) ->
  genic_entry u p geno geno1 tr f m ==
  sumQ (map (fun i => let a0 := row geno f in let a1 := row geno1 f in let b0 := row geno m in let b1 := row geno1 m in
     (1#4) * (eff u tr a0 a1 i * eff u tr a0 a1 i + eff u tr b1 a1 i * eff u tr b1 a1 i + eff u tr b1 a0 i * eff u tr b1 a0 i
            + eff u tr b0 a1 i * eff u tr b0 a1 i + eff u tr b0 a0 i * eff u tr b0 a0 i + eff u tr b0 b1 i * eff u tr b0 b1 i)) (ix p)).
Proof.
  intros H1 H2 H3 H4. unfold genic_entry, mirror_incl, taf. cbv zeta. destruct (m <=? f)%nat; [now apply genic_dihybrid|].
  rewrite genic_pair_sym. now apply genic_dihybrid.
Qed.

(** three-way / four-way genic: every entry = the i = j terms of the three-way / four-way block *)
Theorem genic3_entry_exact u p geno tr r f m : allele01 (row geno r) -> allele01 (row geno f) -> allele01 (row geno m) ->
  genic3_entry u p geno geno tr r f m ==
  sumQ (map (fun i => let gR := row geno r in let gF := row geno f in let gM := row geno m in
     (1#4) * (2 * (eff u tr gF gR i * eff u tr gF gR i + eff u tr gM gR i * eff u tr gM gR i) + eff u tr gF gM i * eff u tr gF gM i)) (ix p)).
Proof.
  intros H1 H2 H3. unfold genic3_entry, mirror_incl, taf. cbv zeta. destruct (m <=? f)%nat; [now apply genic_threeway|].
  rewrite genic_tri_sym. now apply genic_threeway.
Qed.
Theorem genic4_entry_exact u p geno tr f2 m2 f1 m1 :
  allele01 (row geno f2) -> allele01 (row geno m2) -> allele01 (row geno f1) -> allele01 (row geno m1) ->
  genic4_entry u p geno geno tr f2 m2 f1 m1 ==
  sumQ (map (fun i => let g1 := row geno f2 in let g2 := row geno m2 in let g3 := row geno f1 in let g4 := row geno m1 in
     (1#4) * (eff u tr g2 g1 i * eff u tr g2 g1 i + eff u tr g3 g1 i * eff u tr g3 g1 i + eff u tr g3 g2 i * eff u tr g3 g2 i
            + eff u tr g4 g1 i * eff u tr g4 g1 i + eff u tr g4 g2 i * eff u tr g4 g2 i + eff u tr g4 g3 i * eff u tr g4 g3 i)) (ix p)).
Proof.
  intros H1 H2 H3 H4. unfold genic4_entry, mirror_incl, taf. cbv zeta. destruct (m1 <=? f1)%nat; [now apply genic_fourway|].
  rewrite genic_quad_sym34. now apply genic_fourway.
Qed.

(** selfing closed form, derived from the enumeration and expressed with the coded rprob_filial *)
Theorem selfing_closed_form r k i : 0 <= r ->
  Egen r k i (fun g => fst g * snd g) == (1 - rprob_filial r (Some (S k))) * cis i + rprob_filial r (Some (S k)) * trans i.
Proof. intros Hr. rewrite Egen_prod, obs_closed by exact Hr. reflexivity. Qed.

(** * the hypotheses of the exactness theorems are satisfiable: 4 loci on two linkage groups *)
Definition ex_ps : list Q := [1#4; 1#2; 1#8].
Definition ex_S : setup :=
  {| s_u := [[1; 2]; [-1; 1]; [3#4; 0]; [1; 1]]; s_chroms := [(0%nat, 2%nat); (2%nat, 4%nat)]; s_mem := Some 1%nat;
     s_D1 := fun i j => cov_D1s (rpair ex_ps i j) (Some 0%nat); s_D2 := fun i j => cov_D2s (rpair ex_ps i j) (Some 0%nat) |}.
Lemma ex_hyps : mem_ok (s_mem ex_S) /\ consecutive (s_chroms ex_S) 0 (S (length ex_ps)) /\ free_between ex_ps 0 (s_chroms ex_S) /\
  (forall c i j, In c (s_chroms ex_S) -> In i (ixs c) -> In j (ixs c) -> s_D1 ex_S i j == cov_D1s (rpair ex_ps i j) (Some 0%nat)) /\
  ~ twoway_low ex_S 0 1 [0; 1; 1; 0]%Z [1; 0; 0; 0]%Z == 0.
Proof.
  split; [cbn; lia|]. split; [cbn; lia|]. split.
  - repeat constructor; cbn [fst]; intros; try lia.
  - split; [intros; reflexivity|]. intro H. vm_compute in H. discriminate.
Qed.

(** small packaging lemmas for Props/C12.v *)
Lemma cov_gam_dsum ps a1 b1 a2 b2 :
  length a1 = S (length ps) -> length b1 = S (length ps) -> length a2 = S (length ps) -> length b2 = S (length ps) ->
  cov_gam ps a1 b1 a2 b2 == dsum (rho ps) (nthq (wdiff a1 b1)) (nthq (wdiff a2 b2)) (seq 0 (S (length ps))) (seq 0 (S (length ps))).
Proof.
  intros H1 H2 H3 H4. rewrite cov_gam_m2 by assumption.
  apply m2_dsum; unfold wdiff; rewrite map2_length, ?H1, ?H2, ?H3, ?H4; apply Nat.min_id.
Qed.

Lemma mirror_correct S t1 t2 ga gb gc gd :
  twoway_low S t1 t2 ga gb == twoway_low S t1 t2 gb ga /\
  threeway_low S t1 t2 ga gb gc == threeway_low S t1 t2 ga gc gb /\
  quad_low S t1 t2 ga gb gc gd == quad_low S t1 t2 ga gb gd gc /\
  quad_low S t1 t2 ga gb gc gd == quad_low S t1 t2 gb ga gc gd /\
  quad_low S t1 t2 ga gb gc gd == quad_low S t1 t2 gc gd ga gb.
Proof.
  repeat split; [apply twoway_low_sym | apply threeway_low_sym | apply quad_low_sym34 | apply quad_low_sym12 | apply quad_low_sym_pairs].
Qed.

Lemma linkage_free_D k : cov_D1s 0 k == 1 /\ cov_D2s 0 k == 1.
Proof. split; [apply D1_r0 | apply D2_r0]. Qed.

(** * covariance blocks are symmetric in the two traits (D symmetric within linkage groups) *)
Lemma psum_swap chroms F : psum chroms F == psum chroms (fun i j => F j i).
Proof. unfold psum. apply sumQ_ext_all. intros c. apply sumQ_swap. Qed.

Definition D_symmetric (S : setup) : Prop :=
  forall c i j, In c (s_chroms S) -> In i (ixs c) -> In j (ixs c) -> s_D1 S i j == s_D1 S j i /\ s_D2 S i j == s_D2 S j i.

Lemma whole_qf_tsym S D t1 t2 ga gb :
  (forall c i j, In c (s_chroms S) -> In i (ixs c) -> In j (ixs c) -> D i j == D j i) ->
  whole S (qf S D t1 t2 ga gb) == whole S (qf S D t2 t1 ga gb).
Proof.
  intros H. rewrite !whole_qf. rewrite psum_swap. apply psum_ext. intros c i j Hc Hi Hj. rewrite (H c j i Hc Hj Hi). ring.
Qed.

Theorem trait_symmetric S t1 t2 g1 g2 g3 g4 : mem_ok (s_mem S) -> D_symmetric S ->
  twoway_low S t1 t2 g1 g2 == twoway_low S t2 t1 g1 g2 /\
  threeway_low S t1 t2 g1 g2 g3 == threeway_low S t2 t1 g1 g2 g3 /\
  quad_low S t1 t2 g1 g2 g3 g4 == quad_low S t2 t1 g1 g2 g3 g4.
Proof.
  intros Hm HD.
  assert (H1 : forall c i j, In c (s_chroms S) -> In i (ixs c) -> In j (ixs c) -> s_D1 S i j == s_D1 S j i) by (intros; now apply (HD c)).
  assert (H2 : forall c i j, In c (s_chroms S) -> In i (ixs c) -> In j (ixs c) -> s_D2 S i j == s_D2 S j i) by (intros; now apply (HD c)).
  split; [|split].
  - rewrite !twoway_low_whole by exact Hm. now apply whole_qf_tsym.
  - rewrite !threeway_low_whole by exact Hm. apply Qmult_comp; [reflexivity|]. unfold whole, three_block.
    rewrite !sumQ_plus, !sumQ_scal, !sumQ_plus.
    fold (whole S (qf S (s_D1 S) t1 t2 g2 g1)) (whole S (qf S (s_D1 S) t1 t2 g3 g1)) (whole S (qf S (s_D2 S) t1 t2 g2 g3))
         (whole S (qf S (s_D1 S) t2 t1 g2 g1)) (whole S (qf S (s_D1 S) t2 t1 g3 g1)) (whole S (qf S (s_D2 S) t2 t1 g2 g3)).
    rewrite (whole_qf_tsym S (s_D1 S) t1 t2 g2 g1 H1), (whole_qf_tsym S (s_D1 S) t1 t2 g3 g1 H1), (whole_qf_tsym S (s_D2 S) t1 t2 g2 g3 H2). reflexivity.
  - rewrite !quad_low_whole by exact Hm. apply Qmult_comp; [reflexivity|]. unfold whole, quad_block.
    rewrite !sumQ_plus.
    fold (whole S (qf S (s_D2 S) t1 t2 g2 g1)) (whole S (qf S (s_D1 S) t1 t2 g3 g1)) (whole S (qf S (s_D1 S) t1 t2 g3 g2))
         (whole S (qf S (s_D1 S) t1 t2 g4 g1)) (whole S (qf S (s_D1 S) t1 t2 g4 g2)) (whole S (qf S (s_D2 S) t1 t2 g4 g3))
         (whole S (qf S (s_D2 S) t2 t1 g2 g1)) (whole S (qf S (s_D1 S) t2 t1 g3 g1)) (whole S (qf S (s_D1 S) t2 t1 g3 g2))
         (whole S (qf S (s_D1 S) t2 t1 g4 g1)) (whole S (qf S (s_D1 S) t2 t1 g4 g2)) (whole S (qf S (s_D2 S) t2 t1 g4 g3)).
    rewrite (whole_qf_tsym S (s_D2 S) t1 t2 g2 g1 H2), (whole_qf_tsym S (s_D1 S) t1 t2 g3 g1 H1), (whole_qf_tsym S (s_D1 S) t1 t2 g3 g2 H1),
            (whole_qf_tsym S (s_D1 S) t1 t2 g4 g1 H1), (whole_qf_tsym S (s_D1 S) t1 t2 g4 g2 H1), (whole_qf_tsym S (s_D2 S) t1 t2 g4 g3 H2). reflexivity.
Qed.

(** * markers on the ln2/2 grid (what the correspondence uses for exact Haldane fractions): the model's r is the chain fraction of the gap vector *)
Lemma qpow_add x a b : qpow x (a + b) == qpow x a * qpow x b.
Proof. induction a as [|a IH]; cbn [Nat.add qpow]; [ring|]. rewrite IH. ring. Qed.

(** gap recombination fractions of markers at integer multiples of ln2/2 Morgan (one linkage group, sorted) *)
Fixpoint gaps_ln2 (pos : list Z) : list Q :=
  match pos with
  | x0 :: t => match t with x1 :: _ => (1 - qpow (1#2) (Z.to_nat (x1 - x0))) / 2 :: gaps_ln2 t | [] => [] end
  | [] => []
  end.
Fixpoint nondecreasing (pos : list Z) : Prop :=
  match pos with
  | x0 :: t => match t with x1 :: _ => (x0 <= x1)%Z /\ nondecreasing t | [] => True end
  | [] => True
  end.

Lemma nondecreasing_head pos x0 : nondecreasing (x0 :: pos) -> forall j, (j < length pos)%nat -> (x0 <= nth j pos 0%Z)%Z.
Proof.
  revert x0. induction pos as [|x1 pos IH]; intros x0 H j Hj; [cbn in Hj; lia|].
  destruct H as [H01 H]. destruct j as [|j]; cbn [nth]; [exact H01|].
  cbn [length] in Hj. specialize (IH x1 H j ltac:(lia)). lia.
Qed.

Lemma rho_ln2 : forall pos i j, nondecreasing pos -> (i < length pos)%nat -> (j < length pos)%nat ->
  rho (gaps_ln2 pos) i j == qpow (1#2) (Z.to_nat (Z.abs (nth i pos 0%Z - nth j pos 0%Z))).
Proof.
  induction pos as [|x0 pos IH]; intros i j Hs Hi Hj; [cbn in Hi; lia|].
  destruct pos as [|x1 pos].
  - cbn [length] in Hi, Hj. assert (i = 0%nat) by lia. assert (j = 0%nat) by lia. subst. rewrite rho_diag. cbn [nth]. rewrite Z.sub_diag. reflexivity.
  - assert (Hs' : nondecreasing (x1 :: pos)) by (destruct Hs; assumption).
    assert (H01 : (x0 <= x1)%Z) by (destruct Hs; assumption).
    change (gaps_ln2 (x0 :: x1 :: pos)) with ((1 - qpow (1#2) (Z.to_nat (x1 - x0))) / 2 :: gaps_ln2 (x1 :: pos)).
    assert (G : forall k, (k < length (x1 :: pos))%nat ->
                (1 - 2 * ((1 - qpow (1#2) (Z.to_nat (x1 - x0))) / 2)) * rho (gaps_ln2 (x1 :: pos)) 0 k
                == qpow (1#2) (Z.to_nat (Z.abs (x0 - nth k (x1 :: pos) 0%Z)))).
    { intros k Hk. rewrite (IH 0%nat k Hs') by (cbn [length] in *; lia). change (nth 0 (x1 :: pos) 0%Z) with x1.
      pose proof (nondecreasing_head (x1 :: pos) x0 Hs k Hk) as B0.
      pose proof (nondecreasing_head pos x1 Hs') as B1.
      assert (x1 <= nth k (x1 :: pos) 0%Z)%Z.
      { destruct k as [|k]; cbn [nth]; [lia|]. apply B1. cbn [length] in Hk. lia. }
      replace (Z.to_nat (Z.abs (x0 - nth k (x1 :: pos) 0%Z))) with (Z.to_nat (x1 - x0) + Z.to_nat (Z.abs (x1 - nth k (x1 :: pos) 0%Z)))%nat by lia.
      rewrite qpow_add. field. }
    destruct i as [|i], j as [|j].
    + rewrite rho_diag. cbn [nth]. rewrite Z.sub_diag. reflexivity.
    + rewrite rho_0S. change (nth 0 (x0 :: x1 :: pos) 0%Z) with x0. change (nth (S j) (x0 :: x1 :: pos) 0%Z) with (nth j (x1 :: pos) 0%Z).
      apply G. cbn [length] in *. lia.
    + rewrite rho_sym, rho_0S. change (nth 0 (x0 :: x1 :: pos) 0%Z) with x0. change (nth (S i) (x0 :: x1 :: pos) 0%Z) with (nth i (x1 :: pos) 0%Z).
      rewrite G by (cbn [length] in *; lia).
      replace (Z.abs (nth i (x1 :: pos) 0%Z - x0)) with (Z.abs (x0 - nth i (x1 :: pos) 0%Z)) by lia. reflexivity.
    + rewrite rho_SS. change (nth (S i) (x0 :: x1 :: pos) 0%Z) with (nth i (x1 :: pos) 0%Z). change (nth (S j) (x0 :: x1 :: pos) 0%Z) with (nth j (x1 :: pos) 0%Z).
      apply IH; [exact Hs'| |]; cbn [length] in *; lia.
Qed.

(** the model's recombination fractions on the ln2/2 grid are the chain fractions [rpair] of the gap vector *)
Theorem r_ln2_is_chain pos i j : nondecreasing pos -> (i < length pos)%nat -> (j < length pos)%nat ->
  r_ln2 pos i j == rpair (gaps_ln2 pos) i j.
Proof. intros Hs Hi Hj. unfold r_ln2, rpair. now rewrite rho_ln2. Qed.
