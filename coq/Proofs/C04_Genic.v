(** C04 — genic variance, Bulmer ratio and coefficient of determination equal their definitions; the NaN branch of bulmer is
    taken exactly when every non-neutral marker is fixed. *)
From Coq Require Import Lqa.
From PV Require Import Lib.Common Model.C04_Gmod Proofs.C04_Counts Proofs.C04_Linear Proofs.C04_Var Proofs.C04_Sums.
Local Open Scope Q_scope.

(** var_a, trait k:  ploidy^2 * sum_j u_jk^2 p_j (1 - p_j) *)
Lemma var_a_of_entry t (u : qmat) (fr : list Q) (ploidy : Z) k : rows_len t u -> length fr = length u -> (k < t)%nat ->
  nth k (var_a_of t u fr ploidy) 0 ==
  inject_Z (ploidy * ploidy) * bigsum (length u) (fun j => (nth k (nth j u []) 0 * nth k (nth j u []) 0) * (nth j fr 0 * (1 - nth j fr 0))).
Proof.
  intros Hu Lf Hk. unfold var_a_of.
  assert (Ru : rows_len t (map (map (fun x => x * x)) u)).
  { unfold rows_len in *. rewrite Forall_map. eapply Forall_impl; [|exact Hu]. cbv beta. intros r Hr. now rewrite map_length. }
  rewrite (nth_map_in (fun x => inject_Z (ploidy * ploidy) * x) 0 0) by (now rewrite vecmat_length).
  apply Qmult_comp; [reflexivity|]. rewrite vecmat_nth by assumption.
  rewrite (dotQ_bigsum (map (fun f => f * (1 - f)) fr) (col 0 k (map (map (fun x => x * x)) u)) (length u))
    by (rewrite ?map_length, ?col_length, ?map_length; assumption || reflexivity).
  apply bigsum_ext. intros j Hj.
  rewrite (nth_map_in (fun f => f * (1 - f)) 0 0) by lia.
  unfold col. rewrite (nth_map_in (fun r => nth k r 0) [] 0) by (now rewrite map_length).
  rewrite (nth_map_in (map (fun x => x * x)) [] []) by exact Hj.
  assert (Lr : length (nth j u []) = t) by (unfold rows_len in Hu; rewrite Forall_forall in Hu; apply Hu, nth_In, Hj).
  rewrite (nth_map_in (fun x => x * x) 0 0) by lia. ring.
Qed.

(** a sum of non-negative terms vanishes iff every term does *)
Lemma bigsum_zero_iff n f : (forall i, (i < n)%nat -> 0 <= f i) -> (bigsum n f == 0 <-> forall i, (i < n)%nat -> f i == 0).
Proof.
  induction n as [|n IH]; intros H.
  - split; [intros _ i Hi; lia | reflexivity].
  - rewrite bigsum_S. assert (Hn : forall i, (i < n)%nat -> 0 <= f i) by (intros; apply H; lia). specialize (IH Hn).
    pose proof (bigsum_nonneg n f Hn) as P. pose proof (H n (Nat.lt_succ_diag_r n)) as Q0. split.
    + intros E i Hi. destruct (Nat.eq_dec i n) as [->|NE]; [lra|]. apply IH; [lra|lia].
    + intros F. assert (bigsum n f == 0) by (apply IH; intros; apply F; lia). rewrite H0, (F n) by lia. ring.
Qed.

(** the genic variance of trait k is non-negative, and zero exactly when every marker is neutral for the trait or fixed *)
Lemma var_a_of_zero_iff t (u : qmat) (c : list Z) (ploidy N : Z) k : rows_len t u -> length c = length u -> (k < t)%nat ->
  (0 < N)%Z -> ~ (ploidy = 0)%Z -> (forall j, (j < length u)%nat -> 0 <= nth j c 0 <= N)%Z ->
  let fr := map (fun cj => inject_Z cj / inject_Z N) c in
  0 <= nth k (var_a_of t u fr ploidy) 0 /\
  (nth k (var_a_of t u fr ploidy) 0 == 0 <->
   forall j, (j < length u)%nat -> nth k (nth j u []) 0 == 0 \/ nth j c 0%Z = 0%Z \/ nth j c 0%Z = N).
Proof.
  intros Hu Lc Hk HN Hp Hc fr.
  assert (Lf : length fr = length u) by (unfold fr; now rewrite map_length).
  rewrite (var_a_of_entry t u fr ploidy k Hu Lf Hk).
  assert (NQ : 0 < inject_Z N) by (rewrite <- (Qmult_0_l 0); unfold Qlt, inject_Z; cbn; lia).
  assert (PP : 0 < inject_Z (ploidy * ploidy)) by (unfold Qlt, inject_Z; cbn; nia).
  assert (Fr : forall j, (j < length u)%nat -> nth j fr 0 == inject_Z (nth j c 0%Z) / inject_Z N).
  { intros j Hj. unfold fr. now rewrite (nth_map_in (fun cj => inject_Z cj / inject_Z N) 0%Z 0) by lia. }
  assert (F01 : forall j, (j < length u)%nat -> 0 <= nth j fr 0 /\ nth j fr 0 <= 1).
  { intros j Hj. rewrite (Fr j Hj). specialize (Hc j Hj). split.
    - apply Qle_shift_div_l; [exact NQ|]. rewrite Qmult_0_l. unfold Qle, inject_Z. cbn. lia.
    - apply Qle_shift_div_r; [exact NQ|]. rewrite Qmult_1_l. unfold Qle, inject_Z. cbn. lia. }
  assert (Term : forall j, (j < length u)%nat ->
            0 <= (nth k (nth j u []) 0 * nth k (nth j u []) 0) * (nth j fr 0 * (1 - nth j fr 0))).
  { intros j Hj. destruct (F01 j Hj). apply Qmult_le_0_compat; [apply sq_nonneg|]. apply Qmult_le_0_compat; lra. }
  split.
  - apply Qmult_le_0_compat; [lra | now apply bigsum_nonneg].
  - split.
    + intros E j Hj. assert (B0 : bigsum (length u) (fun j0 => nth k (nth j0 u []) 0 * nth k (nth j0 u []) 0 * (nth j0 fr 0 * (1 - nth j0 fr 0))) == 0).
      { destruct (Qmult_integral _ _ E) as [X|X]; [lra | exact X]. }
      pose proof (proj1 (bigsum_zero_iff _ _ Term) B0 j Hj) as T0. cbv beta in T0.
      destruct (Qmult_integral _ _ T0) as [U|Fz]; [left; now apply sq_zero|]. right.
      rewrite (Fr j Hj) in Fz. destruct (Qmult_integral _ _ Fz) as [Z0|Z1].
      * left. assert (inject_Z (nth j c 0%Z) == 0) by (setoid_replace (inject_Z (nth j c 0%Z)) with (inject_Z (nth j c 0%Z) / inject_Z N * inject_Z N) by (field; lra); rewrite Z0; ring).
        unfold Qeq, inject_Z in H. cbn in H. lia.
      * right. assert (inject_Z (nth j c 0%Z) == inject_Z N) by (setoid_replace (inject_Z (nth j c 0%Z)) with (inject_Z (nth j c 0%Z) / inject_Z N * inject_Z N) by (field; lra); setoid_replace (inject_Z (nth j c 0%Z) / inject_Z N) with 1 by lra; ring).
        unfold Qeq, inject_Z in H. cbn in H. lia.
    + intros F. assert (B0 : bigsum (length u) (fun j0 => nth k (nth j0 u []) 0 * nth k (nth j0 u []) 0 * (nth j0 fr 0 * (1 - nth j0 fr 0))) == 0).
      { apply bigsum_zero_iff; [exact Term|]. intros j Hj. cbv beta. destruct (F j Hj) as [U|[C0|CN]].
        - rewrite U. ring.
        - rewrite (Fr j Hj), C0. unfold inject_Z at 1. field. lra.
        - rewrite (Fr j Hj), CN. field. lra. }
      rewrite B0. ring.
Qed.

(** bulmer, trait k: NaN (None) exactly when var_a is zero, the ratio var_A / var_a otherwise *)
Lemma bulmer_entry g gt arg l vA k : var_A g gt = Some vA -> bulmer g gt arg = Some l ->
  (k < length vA)%nat -> (k < length (var_a g gt arg))%nat ->
  nth k l None = if Qeq_bool (nth k (var_a g gt arg) 0) 0 then None else Some (nth k vA 0 / nth k (var_a g gt arg) 0).
Proof.
  intros EA EB H1 H2. unfold bulmer in EB. rewrite EA in EB. injection EB as <-.
  now rewrite (nth_map2 (fun a b => if Qeq_bool b 0 then None else Some (a / b)) 0 0 None) by assumption.
Qed.

(** coefficient of determination: 1 - SSE/SST, at most 1, equal to 1 exactly for a perfect prediction *)
Lemma rsq_spec y yhat r : rsq y yhat = Some r ->
  let sse := sumQ (map2 (fun a b => (a - b) * (a - b)) y yhat) in
  let sst := sqdev (qmean y) y in
  0 < sst /\ r == 1 - sse / sst /\ r <= 1 /\ (r == 1 <-> sse == 0).
Proof.
  intros E. cbv zeta. unfold rsq in E. cbv zeta in E.
  set (sse := sumQ (map2 (fun a b => (a - b) * (a - b)) y yhat)) in *. set (sst := sqdev (qmean y) y) in *.
  destruct (Qeq_bool sst 0) eqn:B; [discriminate|]. injection E as <-.
  assert (P : 0 < sst). { pose proof (sqdev_nonneg (qmean y) y). fold sst in H.
    assert (~ sst == 0) by (intro X; apply Qeq_bool_iff in X; congruence). lra. }
  assert (S0 : 0 <= sse).
  { unfold sse. apply sumQ_nonneg. clear. revert yhat. induction y as [|a y IH]; intros [|c yhat]; cbn; constructor; [apply sq_nonneg | apply IH]. }
  assert (D : 0 <= sse / sst) by (apply Qle_shift_div_l; [exact P | lra]).
  split; [exact P|]. split; [reflexivity|]. split; [lra|]. split.
  - intros E. assert (sse / sst == 0) by lra. setoid_replace sse with (sse / sst * sst) by (field; lra). rewrite H. ring.
  - intros E. rewrite E. field. lra.
Qed.

Lemma rsq_none y yhat : rsq y yhat = None <-> sqdev (qmean y) y == 0.
Proof. unfold rsq. destruct (Qeq_bool (sqdev (qmean y) y) 0) eqn:B; split; intros H; try discriminate; try reflexivity; [now apply Qeq_bool_iff | apply Qeq_bool_iff in H; congruence]. Qed.
