(** C05 — the kernel expressions regenerated from the source (Gen/C05_Kernel.v) are the ones the hand model uses.
    Lemmas closed by [reflexivity] state a syntactic identity between the translated expression and the model's: if an
    expression of the source changes (a dropped minus sign, [>] for [>=] in the guard, a rounded reciprocal instead of the
    quotient, [<=] for [<] in an availability threshold, swapped latent blocks, a weight paired with another transformation,
    the tmajor flag computed by the tminor test, a flag cached by the tfreq setter, a replicate buffer with more rows than replicates drawn) the regenerated
    definition no longer unfolds to the model's and this file — hence Props/C05.vo — stops compiling.  The remaining lemmas
    restate the availability, scale-invariance, evalfn and EMBV theorems about the generated definitions themselves. *)
From Coq Require Import PrimFloat Permutation.
From PV Require Import Lib.Common Lib.FloatK Model.C05_Latent Model.C05_Factory Proofs.C05_Latent Proofs.C05_Avail Proofs.C05_Factory Gen.C05_Kernel.
Local Open Scope Q_scope.

Ltac all_refl := repeat (constructor; [intros; reflexivity|]); constructor.

(** * normalisation of vector encodings (all Real / Integer / Binary classes) *)
Lemma k_guard_all_model : Forall (fun f : Q -> Q => forall t, f t = guard_sum t) k_guard_all.
Proof. unfold k_guard_all. all_refl. Qed.
Lemma k_contrib_all_model : Forall (fun f : Q -> Q -> Q => forall s xi, f s xi = (1 / s) * xi) k_contrib_all.
Proof. unfold k_contrib_all. all_refl. Qed.
Lemma k_guard_all_count : length k_guard_all = 24%nat /\ length k_contrib_all = 39%nat.
Proof. split; reflexivity. Qed.
Lemma contrib_guard_kernel g c x : In g k_guard_all -> In c k_contrib_all -> contrib_guard x = map (c (g (qsum x))) x.
Proof.
  intros Hg Hc. pose proof (proj1 (Forall_forall _ _) k_guard_all_model g Hg) as Eg.
  pose proof (proj1 (Forall_forall _ _) k_contrib_all_model c Hc) as Ec.
  unfold contrib_guard. apply map_ext. intro v. rewrite Ec, Eg. reflexivity.
Qed.
Lemma contrib_raw_kernel c x : In c k_contrib_all -> contrib_raw x = map (c (qsum x)) x.
Proof.
  intros Hc. pose proof (proj1 (Forall_forall _ _) k_contrib_all_model c Hc) as Ec.
  unfold contrib_raw. apply map_ext. intro v. rewrite Ec. reflexivity.
Qed.
(** scale invariance restated about the generated guard and normalisation *)
Lemma kernel_scale_invariant g c a x : In g k_guard_all -> In c k_contrib_all -> 0 < a ->
  guard_eps <= Qabs' (qsum x) -> guard_eps <= Qabs' (qsum (map (Qmult a) x)) ->
  qleq (map (c (g (qsum (map (Qmult a) x)))) (map (Qmult a) x)) (map (c (g (qsum x))) x).
Proof.
  intros Hg Hc Ha H1 H2. rewrite <- !(contrib_guard_kernel g c) by assumption.
  apply contrib_guard_scale; try assumption. intro E. rewrite E in Ha. discriminate.
Qed.
(** the boundary of the guard belongs to the normalised side: a sum of exactly 1e-10 (binary64) is divided by itself *)
Lemma kernel_guard_boundary g : In g k_guard_all -> g guard_eps = guard_eps /\ g (- guard_eps) = - guard_eps /\ g 0 = 1.
Proof.
  intros Hg. pose proof (proj1 (Forall_forall _ _) k_guard_all_model g Hg) as Eg. rewrite !Eg. repeat split; reflexivity.
Qed.

(** * linear and quadratic bodies *)
Lemma k_linsub_all_model : Forall (fun f : Q -> Q -> Q => forall k c, f k c = (- (1 / k)) * c) k_linsub_all.
Proof. unfold k_linsub_all. all_refl. Qed.
Lemma k_linvec_all_model : Forall (fun f : Q -> Q => forall d, f d = - d) k_linvec_all.
Proof. unfold k_linvec_all. all_refl. Qed.
Lemma k_cx_all_model : Forall (fun f : Q -> Q -> Q => forall k r, f k r = (1 / k) * r) k_cx_all.
Proof. unfold k_cx_all. all_refl. Qed.
Lemma k_meh_all_model : Forall (fun f : Q -> Q => forall d, f d = - (1 - d)) k_meh_all.
Proof. unfold k_meh_all. all_refl. Qed.
Lemma k_famneg_all_model : Forall (fun f : Q -> Q => forall b, f b = - b) k_famneg_all.
Proof. unfold k_famneg_all. all_refl. Qed.
Lemma k_counts : length k_linsub_all = 9%nat /\ length k_linvec_all = 27%nat /\ length k_cx_all = 4%nat /\ length k_meh_all = 4%nat /\ length k_famneg_all = 4%nat.
Proof. repeat split; reflexivity. Qed.
Lemma lin_subset_kernel f t M s : In f k_linsub_all ->
  lin_subset t M s = map (fun j => f (nq (length s)) (sumf (fun i => mget M i j) s)) (seq 0 t).
Proof. intros Hf. pose proof (proj1 (Forall_forall _ _) k_linsub_all_model f Hf) as E. unfold lin_subset. apply map_ext. intro j. rewrite E. reflexivity. Qed.
Lemma lin_vec_kernel f n t M c : In f k_linvec_all ->
  lin_vec n t M c = map (fun j => f (sumf (fun i => nth i c 0 * mget M i j) (seq 0 n))) (seq 0 t).
Proof. intros Hf. pose proof (proj1 (Forall_forall _ _) k_linvec_all_model f Hf) as E. unfold lin_vec. apply map_ext. intro j. rewrite E. reflexivity. Qed.
Lemma cx_subset_kernel f C s : In f k_cx_all -> cx_subset C s = map (fun r => f (nq (length s)) (sumf (fun i => nth i r 0) s)) C.
Proof. intros Hf. pose proof (proj1 (Forall_forall _ _) k_cx_all_model f Hf) as E. unfold cx_subset. apply map_ext. intro r. rewrite E. reflexivity. Qed.
Lemma l1_subset_kernel V s : l1_subset V s = qsum (map (fun r => k_l1abs__L1NormGenomicSubsetSelectionProblem (nq (length s)) (sumf (fun i => nth i r 0) s)) V).
Proof. unfold l1_subset, l1, cx_subset. rewrite map_map. reflexivity. Qed.
(** the value the MEH classes return is v = -(1 - dist): the model represents it as [OneMinus] (1 + v is the norm) *)
Lemma k_meh_one_minus f d : In f k_meh_all -> 1 + f d == d.
Proof. intros Hf. rewrite (proj1 (Forall_forall _ _) k_meh_all_model f Hf). ring. Qed.
(** order of the latent blocks *)
Lemma k_cat_ocs_model a (l : list Q) :
  k_cat__OptimalContributionSubsetSelectionProblem lv [Sq a] (map Ex l) = Sq a :: map Ex l /\
  k_cat__OptimalContributionRealSelectionProblem lv [Sq a] (map Ex l) = Sq a :: map Ex l /\
  k_cat__OptimalContributionIntegerSelectionProblem lv [Sq a] (map Ex l) = Sq a :: map Ex l /\
  k_cat__OptimalContributionBinarySelectionProblem lv [Sq a] (map Ex l) = Sq a :: map Ex l.
Proof. repeat split; reflexivity. Qed.
Lemma fam_subset_kernel n t M ids s :
  fam_subset n t M ids s = k_cat__FamilyEstimatedBreedingValueSubsetSelectionProblem Q (lin_subset t M s)
                             (map k_famneg__FamilyEstimatedBreedingValueSubsetSelectionProblem (bincount (nfam ids) (famix ids) (famwt_subset n s))).
Proof. reflexivity. Qed.
Lemma fam_vec_kernel n t M ids c :
  fam_vec n t M ids c = k_cat__FamilyEstimatedBreedingValueRealSelectionProblem Q (lin_vec n t M c) (map k_famneg__FamilyEstimatedBreedingValueRealSelectionProblem (bincount (nfam ids) (famix ids) c)) /\
  fam_vec n t M ids c = k_cat__FamilyEstimatedBreedingValueIntegerSelectionProblem Q (lin_vec n t M c) (map k_famneg__FamilyEstimatedBreedingValueIntegerSelectionProblem (bincount (nfam ids) (famix ids) c)) /\
  fam_vec n t M ids c = k_cat__FamilyEstimatedBreedingValueBinarySelectionProblem Q (lin_vec n t M c) (map k_famneg__FamilyEstimatedBreedingValueBinarySelectionProblem (bincount (nfam ids) (famix ids) c)).
Proof. repeat split; reflexivity. Qed.

(** * allele-frequency families *)
Local Open Scope Z_scope.
Lemma k_pfreq_model c pl k :
  k_pfreq__pafd (f_of_Z c) (f_of_Z (k_pfreq_den__pafd pl k)) = pfreq_of_count c (pl * k) /\
  k_pfreq__pau (f_of_Z c) (f_of_Z (k_pfreq_den__pau pl k)) = pfreq_of_count c (pl * k) /\
  k_pfreq__mogs (f_of_Z c) (f_of_Z (k_pfreq_den__mogs pl k)) = pfreq_of_count c (pl * k).
Proof. repeat split; reflexivity. Qed.
Lemma pfreq_f_kernel pl G s j :
  pfreq_f pl G s j = k_pfreq__pau (f_of_Z (acount G s j)) (f_of_Z (k_pfreq_den__pau pl (Z.of_nat (length s)))) /\
  pfreq_f pl G s j = k_pfreq__mogs (f_of_Z (acount G s j)) (f_of_Z (k_pfreq_den__mogs pl (Z.of_nat (length s)))).
Proof. split; reflexivity. Qed.
(** the PAU pipeline of the source: thresholds, flag algebra, and the flags the properties tminor / thet / tmajor compute on
    access from the target array held (k_pau_flag_*; the translator refuses a setter that stores anything but the array) *)
Definition k_pau_pipeline (pf : float) (tfv : Q) : bool :=
  let lt := k_pau_lt pf in let gt := k_pau_gt pf in
  k_pau_unavail lt gt (k_pau_het lt gt) (k_pau_flag_tminor tfv) (k_pau_flag_thet tfv) (k_pau_flag_tmajor tfv).
Lemma k_pau_pipeline_model pf tfv : k_pau_pipeline pf tfv = pau_unavail_code pf tfv.
Proof. reflexivity. Qed.
Lemma k_tflags_model x :
  k_pau_flag_tminor x = t_minor x /\ k_pau_flag_thet x = t_het x /\ k_pau_flag_tmajor x = t_major x /\
  k_pafd_flag_tminor x = t_minor x /\ k_pafd_flag_thet x = t_het x /\ k_pafd_flag_tmajor x = t_major x.
Proof. repeat split; reflexivity. Qed.
(** the MOGS pipeline *)
Definition k_mogs_pipeline (pf : float) (tfv : Q) : bool :=
  let mj := k_mogs_major_lost pf in let mn := k_mogs_minor_lost pf in let ht := k_mogs_heter_lost mj mn in
  let fmn := k_mogs_fix_minor tfv in let fmj := k_mogs_fix_major tfv in let fht := k_mogs_fix_heter fmn fmj in
  k_mogs_unavail (k_mogs_minor_penalty fmn fmj fht mj mn ht) (k_mogs_major_penalty fmn fmj fht mj mn ht) (k_mogs_heter_penalty fmn fmj fht mj mn ht).
Lemma k_mogs_pipeline_model pf tfv : k_mogs_pipeline pf tfv = mogs_unavail_code pf tfv.
Proof. reflexivity. Qed.
Lemma k_mogs_cat_model (a b : list Q) : k_cat__MultiObjectiveGenomicSubsetSelectionProblem Q a b = a ++ b.
Proof. reflexivity. Qed.
(** availability restated about the generated kernels: for every allele count c out of N <= 2^53 copies *)
Lemma kernel_availability (c pl k : Z) (tfv : Q) : 0 <= c <= k_pfreq_den__pau pl k -> 0 < k_pfreq_den__pau pl k <= 2^53 ->
  k_mogs_pipeline (k_pfreq__mogs (f_of_Z c) (f_of_Z (k_pfreq_den__mogs pl k))) tfv = unavail_def c (pl * k) tfv /\
  (t_unit tfv = true -> k_pau_pipeline (k_pfreq__pau (f_of_Z c) (f_of_Z (k_pfreq_den__pau pl k))) tfv = unavail_def c (pl * k) tfv).
Proof.
  intros Hc HN. change (k_pfreq_den__pau pl k) with (pl * k) in Hc, HN.
  destruct (k_pfreq_model c pl k) as (_ & E2 & E3). rewrite E2, E3, k_mogs_pipeline_model, k_pau_pipeline_model.
  split; [apply mogs_flag_exact | intro Ht; apply pau_flag_exact]; assumption.
Qed.
Local Open Scope Q_scope.
Lemma pafd_kernel pl G w tf p t s :
  pafd pl G w tf p t s = map (fun q => sumf (fun j => k_pafd_term__pafd (mget w j q) (mget tf j q) (pfreq_q pl G s j)) (seq 0 p)) (seq 0 t) /\
  pafd pl G w tf p t s = map (fun q => sumf (fun j => k_pafd_term__mogs (mget w j q) (mget tf j q) (pfreq_q pl G s j)) (seq 0 p)) (seq 0 t).
Proof. split; reflexivity. Qed.

(** * max-type criteria *)
Lemma opv_subset_kernel H nb nt s :
  opv_subset H nb nt s = map (fun q => k_opv (nq (length H)) (sumf (fun b => maxl (flat_map (fun Hp => map (fun i => hget Hp i b q) s) H)) (seq 0 nb))) (seq 0 nt).
Proof. reflexivity. Qed.
Lemma gb_subset_kernel H nb nt nbest s :
  gb_subset H nb nt nbest s = map (fun q => k_gb (nq (length H)) (nq nbest)
      (sumf (fun b => qsum (lastn nbest (sortQ (map (fun i => maxl (map (fun Hp => hget Hp i b q) H)) s)))) (seq 0 nb))) (seq 0 nt).
Proof. reflexivity. Qed.
(** the slice [st:sp] of the sorted members: the last nbestfndr of k *)
Lemma k_gb_slice {A} (l : list A) nbest :
  lastn nbest l = firstn (Z.to_nat (k_gb_sp (Z.of_nat (length l)) (Z.of_nat nbest)) - Z.to_nat (k_gb_st (Z.of_nat (length l)) (Z.of_nat nbest)))
                         (skipn (Z.to_nat (k_gb_st (Z.of_nat (length l)) (Z.of_nat nbest))) l).
Proof.
  unfold lastn, k_gb_sp, k_gb_st.
  replace (Z.to_nat (Z.of_nat (length l) - Z.of_nat nbest)) with (length l - nbest)%nat by lia.
  rewrite Nat2Z.id. symmetry. apply firstn_all2. rewrite skipn_length. lia.
Qed.

(** * evalfn and the transformations *)
Lemma k_evalfn_model To Ti Te wo wi we x l : k_evalfn To Ti Te wo wi we x l = evalfn To Ti Te wo wi we x l.
Proof. reflexivity. Qed.
Lemma k_trans_model x l w d :
  apply_trans TId x l = k_trans_identity x l /\ apply_trans TEmpty x l = k_trans_empty x l /\
  qleq (apply_trans TSum x l) (k_trans_sum x l) /\ qleq (apply_trans (TDot w) x l) (k_trans_dot x l w) /\
  qleq (apply_trans (TDecnSum d) x l) (k_trans_decnvec_sum_eq x l d).
Proof.
  split; [reflexivity|]. split; [reflexivity|].
  split; [constructor; [apply qsum_sumQ | constructor]|].
  split; [constructor; [apply qsum_sumQ | constructor]|].
  constructor; [|constructor]. apply Qabs'_eq. rewrite qsum_sumQ. reflexivity.
Qed.

(** * usefulness criterion *)
Lemma uc_row_kernel bv epgc si sigma t parents :
  uc_row bv epgc si sigma t parents = map (fun q => k_uc (uc_mean bv epgc parents q) si (nth q sigma 0)) (seq 0 t).
Proof. reflexivity. Qed.
Lemma uc_mean_kernel bv epgc parents q : uc_mean bv epgc parents q == k_uc_pmean epgc (map (fun i => mget bv i q) parents).
Proof.
  unfold k_uc_pmean, dotQ, uc_mean. rewrite qsum_sumQ. revert parents.
  induction epgc as [|e epgc IH]; intros [|i parents]; cbn; try reflexivity. rewrite IH. reflexivity.
Qed.

(** * expected maximum breeding value *)
Lemma fold_acc_sum l a : fold_left k_embv_acc l a == a + qsum l.
Proof.
  revert a. induction l as [|x l IH]; intro a; cbn [fold_left].
  - change (qsum []) with 0. ring.
  - rewrite IH, qsum_cons. unfold k_embv_acc. ring.
Qed.
(** the accumulate-then-divide loop of _calc_embv is the mean of the per-replicate maxima *)
Lemma embv_entry_kernel reps q :
  k_embv_avg (fold_left k_embv_acc (map (fun bvs => colmax bvs q) reps) 0) (nq (length reps)) == embv_entry reps q.
Proof. unfold k_embv_avg, embv_entry. rewrite fold_acc_sum. apply Qdiv_comp; [ring | reflexivity]. Qed.
(** the matrix factory: the replicate buffer has exactly as many rows as replicates are drawn for taxon i (so the mean over
    the buffer is the mean over the replicates written), nprogeny[i] progeny per replicate, all from parent i *)
Lemma embvmat_kernel nrep_i nrep_max np_i np_max i ntaxa :
  k_embvmat_rows nrep_i nrep_max np_i np_max i ntaxa = k_embvmat_loop nrep_i nrep_max np_i np_max i ntaxa /\
  k_embvmat_loop nrep_i nrep_max np_i np_max i ntaxa = nrep_i /\
  k_embvmat_nprog nrep_i nrep_max np_i np_max i ntaxa = np_i /\
  k_embvmat_parent nrep_i nrep_max np_i np_max i ntaxa = i.
Proof. repeat split; reflexivity. Qed.
(** mean over a buffer: if the rows written are the [nrep] maxima and the buffer has [rows] rows, the buffer mean is the
    replicate mean exactly when rows = nrep; with stale rows it is not (witness below) *)
Lemma buffer_mean_exact (maxes stale : list Q) : stale = [] -> maxes <> [] ->
  qsum (maxes ++ stale) / nq (length (maxes ++ stale)) == qsum maxes / nq (length maxes).
Proof. intros -> _. rewrite app_nil_r. reflexivity. Qed.
Lemma buffer_mean_stale_differs : ~ qsum ([1] ++ [3]) / nq (length ([1] ++ [3])) == qsum [1] / nq (length [1 : Q]).
Proof. intro H. vm_compute in H. discriminate. Qed.

(** * summary: every generated kernel is the model's expression *)
Lemma kernel_is_model :
  Forall (fun f : Q -> Q => forall t, f t = guard_sum t) k_guard_all /\
  Forall (fun f : Q -> Q -> Q => forall s xi, f s xi = (1 / s) * xi) k_contrib_all /\
  Forall (fun f : Q -> Q -> Q => forall k c, f k c = (- (1 / k)) * c) k_linsub_all /\
  Forall (fun f : Q -> Q => forall d, f d = - d) k_linvec_all /\
  Forall (fun f : Q -> Q -> Q => forall k r, f k r = (1 / k) * r) k_cx_all /\
  Forall (fun f : Q -> Q => forall d, f d = - (1 - d)) k_meh_all /\
  Forall (fun f : Q -> Q => forall b, f b = - b) k_famneg_all /\
  (length k_guard_all = 24 /\ length k_contrib_all = 39 /\ length k_linsub_all = 9 /\ length k_linvec_all = 27)%nat /\
  (forall pf tfv, k_pau_pipeline pf tfv = pau_unavail_code pf tfv) /\
  (forall pf tfv, k_mogs_pipeline pf tfv = mogs_unavail_code pf tfv) /\
  (forall pl G s j, pfreq_f pl G s j = k_pfreq__pau (f_of_Z (acount G s j)) (f_of_Z (k_pfreq_den__pau pl (Z.of_nat (length s)))) /\
                    pfreq_f pl G s j = k_pfreq__mogs (f_of_Z (acount G s j)) (f_of_Z (k_pfreq_den__mogs pl (Z.of_nat (length s))))) /\
  (forall c pl k, k_pfreq__pafd (f_of_Z c) (f_of_Z (k_pfreq_den__pafd pl k)) = pfreq_of_count c (pl * k)) /\
  (forall x, k_pau_flag_tminor x = t_minor x /\ k_pau_flag_thet x = t_het x /\ k_pau_flag_tmajor x = t_major x /\
             k_pafd_flag_tminor x = t_minor x /\ k_pafd_flag_thet x = t_het x /\ k_pafd_flag_tmajor x = t_major x) /\
  (forall n t M ids s, fam_subset n t M ids s = k_cat__FamilyEstimatedBreedingValueSubsetSelectionProblem Q (lin_subset t M s)
        (map k_famneg__FamilyEstimatedBreedingValueSubsetSelectionProblem (bincount (nfam ids) (famix ids) (famwt_subset n s)))) /\
  (forall a (l : list Q), k_cat__OptimalContributionSubsetSelectionProblem lv [Sq a] (map Ex l) = Sq a :: map Ex l) /\
  (forall a b : list Q, k_cat__MultiObjectiveGenomicSubsetSelectionProblem Q a b = a ++ b) /\
  (forall H nb nt s, opv_subset H nb nt s = map (fun q => k_opv (nq (length H)) (sumf (fun b => maxl (flat_map (fun Hp => map (fun i => hget Hp i b q) s) H)) (seq 0 nb))) (seq 0 nt)) /\
  (forall H nb nt nbest s, gb_subset H nb nt nbest s = map (fun q => k_gb (nq (length H)) (nq nbest)
      (sumf (fun b => qsum (lastn nbest (sortQ (map (fun i => maxl (map (fun Hp => hget Hp i b q) H)) s)))) (seq 0 nb))) (seq 0 nt)) /\
  (forall To Ti Te wo wi we x l, k_evalfn To Ti Te wo wi we x l = evalfn To Ti Te wo wi we x l) /\
  (forall bv epgc si sigma t parents, uc_row bv epgc si sigma t parents = map (fun q => k_uc (uc_mean bv epgc parents q) si (nth q sigma 0)) (seq 0 t)) /\
  (forall bv epgc parents q, uc_mean bv epgc parents q == k_uc_pmean epgc (map (fun i => mget bv i q) parents)) /\
  (forall reps q, k_embv_avg (fold_left k_embv_acc (map (fun bvs => colmax bvs q) reps) 0) (nq (length reps)) == embv_entry reps q).
Proof.
  split; [exact k_guard_all_model|]. split; [exact k_contrib_all_model|]. split; [exact k_linsub_all_model|]. split; [exact k_linvec_all_model|].
  split; [exact k_cx_all_model|]. split; [exact k_meh_all_model|]. split; [exact k_famneg_all_model|].
  split; [repeat split; reflexivity|]. split; [exact k_pau_pipeline_model|]. split; [exact k_mogs_pipeline_model|].
  split; [exact pfreq_f_kernel|]. split; [intros; reflexivity|]. split; [exact k_tflags_model|]. split; [exact fam_subset_kernel|].
  split; [intros; reflexivity|]. split; [exact k_mogs_cat_model|]. split; [exact opv_subset_kernel|]. split; [exact gb_subset_kernel|].
  split; [exact k_evalfn_model|]. split; [exact uc_row_kernel|]. split; [exact uc_mean_kernel|]. exact embv_entry_kernel.
Qed.

(** * the optimal haploid value table: the row of a cross is the generated expression of _calc_ohvmat applied to the block values
    gathered over every phase and EVERY parent of the cross-map row *)
Lemma ohv_row_kernel H nb nt parents :
  ohv_row H nb nt parents
  = map (fun q => k_ohv maxl qsum (nq (length H)) (map (fun b => flat_map (fun Hp => map (fun i => hget Hp i b q) parents) H) (seq 0 nb))) (seq 0 nt).
Proof. unfold ohv_row, k_ohv, sumf. apply map_ext. intros q. now rewrite map_map. Qed.
Lemma ohvmat_on_kernel hap u bounds n t xmap :
  ohvmat_on hap u bounds n t xmap
  = map (fun parents => map (fun q => k_ohv maxl qsum (nq (length hap))
           (map (fun b => flat_map (fun Hp => map (fun i => hget Hp i b q) parents) (haploval hap u bounds n t)) (seq 0 (length bounds)))) (seq 0 t)) xmap.
Proof.
  unfold ohvmat_on. apply map_ext. intros parents. rewrite ohv_row_kernel. unfold haploval at 1. now rewrite map_length.
Qed.
