(** C04 — favourable / deleterious / neutral allele statistics: definitional identities and mutual consistency,
    for every effect sign, count and population size; and the lifting of the per-entry facts to the (p,t) tables. *)
From PV Require Import Lib.Common Model.C04_Gmod.
Local Open Scope Z_scope.

Lemma mclass_eq_dec (a b : mclass) : {a = b} + {a <> b}.
Proof. decide equality. Qed.

(** per-entry flags, named (the tables of Model/C04_Gmod.v are maps of exactly these) *)
Definition avail1 (x : Z) : bool := 0 <? x.
Definition fixed1 (x N : Z) : bool := x =? N.
Definition poly1 (x N : Z) : bool := (0 <? x) && (x <? N).
Definition nafixed1 (u : Q) (c N : Z) : bool := ((c =? 0) || (c =? N)) && Qeq_bool u 0.
Definition napoly1 (u : Q) (c N : Z) : bool := ((0 <? c) && (c <? N)) && Qeq_bool u 0.

Lemma Qltb_lt a b : Qltb a b = true <-> (a < b)%Q.
Proof.
  unfold Qltb. rewrite negb_true_iff. split; intro H.
  - apply Qnot_le_lt. intro L. apply Qle_bool_iff in L. congruence.
  - destruct (Qle_bool b a) eqn:E; [|reflexivity]. apply Qle_bool_iff in E. exfalso. exact (Qlt_not_le _ _ H E).
Qed.
Lemma Qltb_false a b : Qltb a b = false <-> (b <= a)%Q.
Proof. unfold Qltb. rewrite negb_false_iff. apply Qle_bool_iff. Qed.

(** the three sign classes of an effect *)
Lemma sign_cases (u : Q) :
  (Qeq_bool u 0 = true /\ Qltb 0 u = false /\ Qltb u 0 = false /\ (u == 0)%Q) \/
  (Qeq_bool u 0 = false /\ Qltb 0 u = true /\ Qltb u 0 = false /\ (0 < u)%Q) \/
  (Qeq_bool u 0 = false /\ Qltb 0 u = false /\ Qltb u 0 = true /\ (u < 0)%Q).
Proof.
  destruct (Q_dec u 0) as [[L|G]|E].
  - right; right. repeat split; try assumption.
    + destruct (Qeq_bool u 0) eqn:B; [|reflexivity]. apply Qeq_bool_iff in B. rewrite B in L. exfalso. exact (Qlt_irrefl _ L).
    + apply Qltb_false. now apply Qlt_le_weak.
    + now apply Qltb_lt.
  - right; left. repeat split; try assumption.
    + destruct (Qeq_bool u 0) eqn:B; [|reflexivity]. apply Qeq_bool_iff in B. rewrite B in G. exfalso. exact (Qlt_irrefl _ G).
    + now apply Qltb_lt.
    + apply Qltb_false. now apply Qlt_le_weak.
  - left. repeat split; try assumption.
    + now apply Qeq_bool_iff.
    + apply Qltb_false. rewrite E. apply Qle_refl.
    + apply Qltb_false. rewrite E. apply Qle_refl.
Qed.

(** counts by definition: the allele itself where the effect is positive, the other allele where it is negative, nothing where
    it is zero; favourable and deleterious copies partition the ploidy*n chromosome copies of a non-neutral marker *)
Ltac qcontra := exfalso; match goal with
 | [H : (?u == 0)%Q, H' : ~ (?u == 0)%Q |- _] => exact (H' H)
 | [H : (?u == 0)%Q, H' : (0 < ?u)%Q |- _] => rewrite H in H'; exact (Qlt_irrefl _ H')
 | [H : (?u == 0)%Q, H' : (?u < 0)%Q |- _] => rewrite H in H'; exact (Qlt_irrefl _ H')
 | [H : (0 < ?u)%Q, H' : (?u < 0)%Q |- _] => exact (Qlt_irrefl _ (Qlt_trans _ _ _ H H'))
 end.

Lemma counts_by_sign (u : Q) (c N : Z) :
  ((0 < u)%Q -> fa1 u c N = c /\ da1 u c N = N - c) /\
  ((u < 0)%Q -> fa1 u c N = N - c /\ da1 u c N = c) /\
  ((u == 0)%Q -> fa1 u c N = 0 /\ da1 u c N = 0) /\
  (~ (u == 0)%Q -> fa1 u c N + da1 u c N = N).
Proof.
  unfold fa1, da1.
  destruct (sign_cases u) as [(E & P & M & H)|[(E & P & M & H)|(E & P & M & H)]]; rewrite ?E, ?P, ?M;
    repeat split; intros; repeat split; first [lia | qcontra].
Qed.

Lemma counts_range (u : Q) (c N : Z) : 0 <= c <= N -> 0 <= fa1 u c N <= N /\ 0 <= da1 u c N <= N.
Proof. intros H. unfold fa1, da1. destruct (Qeq_bool u 0), (Qltb 0 u), (Qltb u 0); lia. Qed.

(** flags: fixed <-> count = ploidy*n; polymorphic <-> available and not fixed; a favourable allele is fixed exactly when no
    deleterious copy is left (non-neutral marker, non-empty population) *)
Lemma flags_consistent (u : Q) (c N : Z) : 0 <= c <= N -> 0 < N ->
  let fa := fa1 u c N in let da := da1 u c N in
  (fixed1 fa N = true <-> fa = N) /\ (avail1 fa = true <-> 0 < fa) /\
  poly1 fa N = avail1 fa && negb (fixed1 fa N) /\ poly1 da N = avail1 da && negb (fixed1 da N) /\
  (~ (u == 0)%Q -> fixed1 fa N = negb (avail1 da) /\ fixed1 da N = negb (avail1 fa) /\ poly1 fa N = poly1 da N).
Proof.
  intros Hc HN fa da. destruct (counts_range u c N Hc) as [Rf Rd]. fold fa in Rf. fold da in Rd.
  unfold fixed1, avail1, poly1. repeat split.
  - apply Z.eqb_eq.
  - apply Z.eqb_eq.
  - apply Z.ltb_lt.
  - apply Z.ltb_lt.
  - destruct (Z.ltb_spec 0 fa), (Z.ltb_spec fa N), (Z.eqb_spec fa N); cbn; try reflexivity; lia.
  - destruct (Z.ltb_spec 0 da), (Z.ltb_spec da N), (Z.eqb_spec da N); cbn; try reflexivity; lia.
  - destruct (counts_by_sign u c N) as (_ & _ & _ & S). specialize (S H). fold fa da in S.
    destruct (Z.eqb_spec fa N), (Z.ltb_spec 0 da); cbn; try reflexivity; lia.
  - destruct (counts_by_sign u c N) as (_ & _ & _ & S). specialize (S H). fold fa da in S.
    destruct (Z.eqb_spec da N), (Z.ltb_spec 0 fa); cbn; try reflexivity; lia.
  - destruct (counts_by_sign u c N) as (_ & _ & _ & S). specialize (S H). fold fa da in S.
    destruct (Z.ltb_spec 0 fa), (Z.ltb_spec fa N), (Z.ltb_spec 0 da), (Z.ltb_spec da N); cbn; try reflexivity; lia.
Qed.

(** neutral markers: flagged neutral (fixed or polymorphic, never both) exactly when the effect is zero; a marker is never both
    neutral and favourable/deleterious *)
Lemma neutral_consistent (u : Q) (c N : Z) : 0 <= c <= N -> 0 < N ->
  ((u == 0)%Q -> nafixed1 u c N = negb (napoly1 u c N) /\ avail1 (fa1 u c N) = false /\ avail1 (da1 u c N) = false) /\
  (~ (u == 0)%Q -> nafixed1 u c N = false /\ napoly1 u c N = false) /\
  (nafixed1 u c N = true -> c = 0 \/ c = N) /\ (napoly1 u c N = true -> 0 < c < N).
Proof.
  intros Hc HN. unfold nafixed1, napoly1, avail1, fa1, da1. repeat split.
  - apply Qeq_bool_iff in H. rewrite H. destruct (Z.eqb_spec c 0), (Z.eqb_spec c N), (Z.ltb_spec 0 c), (Z.ltb_spec c N); cbn; try reflexivity; lia.
  - apply Qeq_bool_iff in H. now rewrite H.
  - apply Qeq_bool_iff in H. now rewrite H.
  - destruct (Qeq_bool u 0) eqn:E; [apply Qeq_bool_iff in E; contradiction|]. now rewrite andb_false_r.
  - destruct (Qeq_bool u 0) eqn:E; [apply Qeq_bool_iff in E; contradiction|]. now rewrite andb_false_r.
  - intros H. apply andb_prop in H as [H _]. apply orb_prop in H as [H|H]; apply Z.eqb_eq in H; lia.
  - apply andb_prop in H as [H _]. apply andb_prop in H as [H _]. now apply Z.ltb_lt in H.
  - apply andb_prop in H as [H _]. apply andb_prop in H as [_ H]. now apply Z.ltb_lt in H.
Qed.

(** frequencies are the counts over ploidy*n; they add up to one on a non-neutral marker *)
Lemma freqs_consistent (u : Q) (c N : Z) : 0 < N -> ~ (u == 0)%Q ->
  (inject_Z (fa1 u c N) / inject_Z N + inject_Z (da1 u c N) / inject_Z N == 1)%Q.
Proof.
  intros HN Hu. destruct (counts_by_sign u c N) as (_ & _ & _ & S). specialize (S Hu).
  assert (NZ : ~ (inject_Z N == 0)%Q). { intro E. unfold Qeq in E. cbn in E. lia. }
  setoid_replace (inject_Z (fa1 u c N) / inject_Z N + inject_Z (da1 u c N) / inject_Z N)%Q
    with ((inject_Z (fa1 u c N) + inject_Z (da1 u c N)) / inject_Z N)%Q by (field; exact NZ).
  rewrite <- inject_Z_plus, S. field. exact NZ.
Qed.

(** ** the tables are entry-wise maps of the per-entry functions *)
Lemma per_entry_nth {A} (f : Q -> Z -> A) (d : A) : forall (u : qmat) (c : list Z) (j k : nat),
  (j < length u)%nat -> (j < length c)%nat -> (k < length (nth j u []))%nat ->
  nth k (nth j (per_entry f u c) []) d = f (nth k (nth j u []) 0%Q) (nth j c 0).
Proof.
  unfold per_entry. induction u as [|r u IH]; intros [|cj c] j k Hu Hc Hk; cbn in *; try lia.
  destruct j as [|j].
  - cbn in *. rewrite (nth_indep _ d (f 0%Q cj)) by (now rewrite map_length).
    now rewrite (map_nth (fun x => f x cj)).
  - cbn in Hk. apply IH; lia || assumption.
Qed.

(** every entry of the twelve tables is its definition on (u_jk, allele count of marker j, ploidy * ntaxa) *)
Definition well_shaped (g : gmodel) : Prop := Forall (fun r => length r = g_t g) (bv_effects g).

Lemma nth_row_len (g : gmodel) j : well_shaped g -> (j < length (bv_effects g))%nat -> length (nth j (bv_effects g) []) = g_t g.
Proof. intros W Hj. unfold well_shaped in W. rewrite Forall_forall in W. apply W, nth_In, Hj. Qed.

Lemma colsumsZ_len p rows : Forall (fun r => length r = p) rows -> length (colsumsZ p rows) = p.
Proof. induction 1 as [|r rows Hr _ IH]; cbn [colsumsZ fold_right]; [apply repeat_length|]. fold (colsumsZ p rows). rewrite map2_length, Hr, IH. apply Nat.min_id. Qed.

(** availability is coded [count > 0] by the additive classes and [count != 0] by DenseLinearGenomicModel: the same on counts,
    which are never negative *)
Lemma avail_of_avail1 (g : gmodel) (x : Z) : g_cls g <> CL \/ 0 <= x -> avail_of g x = avail1 x.
Proof.
  intros H. unfold avail_of, avail1. destruct (g_cls g); try reflexivity.
  destruct H as [H|H]; [contradiction|]. destruct (Z.eqb_spec x 0), (Z.ltb_spec 0 x); cbn; try reflexivity; lia.
Qed.

(** every class computes the same counts (DenseLinearGenomicModel's own copies of facount / dacount included) *)
Lemma fa_of_all (g : gmodel) : fa_of g = fa1 /\ da_of g = da1.
Proof. split; reflexivity. Qed.

Section Tables.
  Variables (g : gmodel) (gt : gtin).
  Hypothesis W : well_shaped g.
  Hypothesis shape : Forall (fun r => length r = length (bv_effects g)) (dosage gt).
  Let u := bv_effects g.
  Let c := acount gt (length u).
  Let N := maxfav gt.

  (** (the availability tables of DenseLinearGenomicModel test [!= 0]: for them the allele count is taken in its range,
      which [colsums_bounds] below establishes for every well-formed dosage matrix) *)
  Lemma tables_entrywise (j k : nat) : (j < length u)%nat -> (k < g_t g)%nat ->
    let ujk := nth k (nth j u []) 0%Q in let cj := nth j c 0 in
    (g_cls g = CL -> 0 <= cj <= N) ->
    nth k (nth j (facount g gt) []) 0 = fa1 ujk cj N /\
    nth k (nth j (dacount g gt) []) 0 = da1 ujk cj N /\
    nth k (nth j (faavail g gt) []) false = avail1 (fa1 ujk cj N) /\
    nth k (nth j (daavail g gt) []) false = avail1 (da1 ujk cj N) /\
    nth k (nth j (fafixed g gt) []) false = fixed1 (fa1 ujk cj N) N /\
    nth k (nth j (dafixed g gt) []) false = fixed1 (da1 ujk cj N) N /\
    nth k (nth j (fapoly g gt) []) false = poly1 (fa1 ujk cj N) N /\
    nth k (nth j (dapoly g gt) []) false = poly1 (da1 ujk cj N) N /\
    nth k (nth j (nafixed g gt) []) false = nafixed1 ujk cj N /\
    nth k (nth j (napoly g gt) []) false = napoly1 ujk cj N /\
    nth k (nth j (fafreq g gt) []) 0%Q = (inject_Z (fa1 ujk cj N) / inject_Z N)%Q /\
    nth k (nth j (dafreq g gt) []) 0%Q = (inject_Z (da1 ujk cj N) / inject_Z N)%Q.
  Proof.
    intros Hj Hk ujk cj HL. destruct (fa_of_all g) as (Ef & Ed).
    assert (Ea : forall v, avail_of g (fa1 v cj N) = avail1 (fa1 v cj N) /\ avail_of g (da1 v cj N) = avail1 (da1 v cj N)).
    { intros v. destruct (mclass_eq_dec (g_cls g) CL) as [C|C].
      - destruct (counts_range v cj N (HL C)) as [Rf Rd]. split; apply avail_of_avail1; right; lia.
      - split; apply avail_of_avail1; now left. }
    assert (Lc : (j < length c)%nat) by (unfold c, acount; rewrite colsumsZ_len by exact shape; exact Hj).
    assert (Lk : (k < length (nth j u []))%nat) by (unfold u; rewrite nth_row_len by assumption; exact Hk).
    unfold facount, dacount, faavail, daavail, fafixed, dafixed, fapoly, dapoly, nafixed, napoly, fafreq, dafreq, stat.
    fold u c N. rewrite Ef, Ed.
    repeat split; rewrite per_entry_nth by assumption; fold ujk cj; try reflexivity; apply Ea.
  Qed.
End Tables.

(** allele counts of a well-formed dosage matrix lie in [0, ploidy * n] *)
Lemma map2_add_bounds (k : Z) : forall (r s : list Z) (b : Z), length r = length s -> Forall (fun x => 0 <= x <= k) r -> Forall (fun x => 0 <= x <= b) s ->
  Forall (fun x => 0 <= x <= k + b) (map2 Z.add r s).
Proof.
  induction r as [|x r IH]; intros [|y s] b L Hr Hs; cbn in *; try discriminate; constructor.
  - inversion Hr; inversion Hs; subst; lia.
  - inversion Hr; inversion Hs; subst. apply IH; [lia|assumption|assumption].
Qed.

Lemma colsums_bounds (ploidy : Z) (p : nat) (mat : zmat) : 0 <= ploidy ->
  Forall (fun r => length r = p) mat -> Forall (Forall (fun x => 0 <= x <= ploidy)) mat ->
  Forall (fun c => 0 <= c <= ploidy * Z.of_nat (length mat)) (colsumsZ p mat).
Proof.
  intros Hp Hs Hd. induction mat as [|r mat IH]; cbn [colsumsZ fold_right length].
  - rewrite Forall_forall. intros x Hx. apply repeat_spec in Hx. subst. lia.
  - fold (colsumsZ p mat). inversion Hs as [|? ? Hr Hs']; inversion Hd as [|? ? Hdr Hd']; subst.
    replace (ploidy * Z.of_nat (S (length mat))) with (ploidy + ploidy * Z.of_nat (length mat)) by lia.
    apply map2_add_bounds; [rewrite colsumsZ_len by assumption; lia | assumption | apply IH; assumption].
Qed.

(** regression witness: the FORMER facount / dacount of DenseLinearGenomicModel (class tag CL) did not reset neutral alleles; they
    agreed with the definitions exactly on non-neutral markers, and counted a neutral allele both as favourable and as deleterious
    (finding C04-dlgm-neutral-alleles, repaired) *)
Definition old_fa1_L (u : Q) (c N : Z) : Z := if Qltb 0 u then c else (N - c)%Z.
Definition old_da1_L (u : Q) (c N : Z) : Z := if Qltb u 0 then c else (N - c)%Z.
Lemma old_L_counts_nonneutral (u : Q) (c N : Z) : ~ (u == 0)%Q -> old_fa1_L u c N = fa1 u c N /\ old_da1_L u c N = da1 u c N.
Proof.
  intros H. unfold fa1, da1, old_fa1_L, old_da1_L. destruct (Qeq_bool u 0) eqn:E; [apply Qeq_bool_iff in E; contradiction|]. split; reflexivity.
Qed.
Lemma old_L_counts_neutral_refuted : exists (u : Q) (c N : Z), 0 <= c <= N /\ (u == 0)%Q /\ old_fa1_L u c N <> fa1 u c N /\ old_da1_L u c N <> da1 u c N /\ old_fa1_L u c N + old_da1_L u c N <> 0.
Proof. exists 0%Q, 1, 2. repeat split; try lia; try reflexivity; cbn; discriminate. Qed.
