(** C07 — the real (contribution-vector) configuration, the mate configuration and the multi-objective choice:
    lemmas about Model/C07_Config.v (cfg_real_q, cfg_real_f, cfg_mate, argmax, mo_choice, select_mo).
    The sampling facts are the C17 theorems (sus_q_spec, sus_f_partial, tiled_even, labels_count); the tail is
    xc_tail_spec (C07_Tail). *)
From Coq Require Import Permutation Sorting.Sorted Qround PrimFloat.
From PV Require Import Lib.Common Model.C17_Sampling Proofs.C17_Sampling Model.C07_Config Proofs.C07_LocalOpt Proofs.C07_Tail.
From Coq Require Import Lqa Lia.
Local Open Scope Q_scope.

(** * 0. toolkit *)

(** the walk never leaves the cumulative-weight vector it is given, whatever the pointers (sorted or not): this is
    [walk_bound] of Proofs/C17_Sampling.v *)

(** what [sus_finish] returns (since commits f3dafbe4, eabf766a: [np] = number of positive weights, the walk runs along the
    first [np] cumulative sums only, and an output size of zero gives the empty selection): as many draws as pointers,
    every one of them an entry of [order]; a positive output size succeeds only on a non-empty weight vector.
    (Before, success implied 0 < k; now k = 0 succeeds with no draw, so that conjunct became the implication below.) *)
Lemma sus_finish_spec order k np cs ptrs perm sel :
  sus_finish order k np cs ptrs perm = Some sel -> length cs = length order -> length ptrs = k ->
  Permutation perm (seq 0 k) ->
  ((0 < k)%nat -> (0 < length order)%nat) /\ length sel = k /\ forall i, In i sel -> In i order.
Proof.
  intros H Lcs Lptrs Hperm. unfold sus_finish in H.
  destruct (Nat.eqb_spec k 0) as [E0|N0].
  { injection H as <-. split; [lia|]. split; [now rewrite E0 | intros i []]. }
  destruct cs as [|c cs']; [discriminate|]. injection H as H.
  set (cs := c :: cs') in *.
  set (walk := sus_walk (firstn np cs) 0 ptrs) in *.
  assert (Lwalk : length walk = k) by (unfold walk; rewrite walk_length; exact Lptrs).
  assert (Pp : Permutation sel (gather 0%nat order walk)).
  { rewrite <- H. apply permute_Permutation. unfold gather. rewrite map_length, Lwalk. exact Hperm. }
  assert (Lpos : (0 < length order)%nat) by (rewrite <- Lcs; unfold cs; cbn [length]; lia).
  split; [intros _; exact Lpos|]. split.
  - rewrite <- H, permute_length, (Permutation_length Hperm). apply seq_length.
  - intros i Hi. apply (Permutation_in _ Pp) in Hi. unfold gather in Hi. apply in_map_iff in Hi as (ix & E & Hix).
    rewrite <- E. apply nth_In.
    pose proof (walk_bound ptrs (firstn np cs) 0%nat) as Hb. fold walk in Hb. rewrite Forall_forall in Hb.
    specialize (Hb ix Hix). cbn beta in Hb. rewrite firstn_length in Hb. lia.
Qed.

(** a positive output size: one draw per entry of the shuffle; an output size of zero: no draw, whatever [perm] is
    (before commit f3dafbe4 the second case did not arise: [length sel = length perm] held outright) *)
Lemma sus_finish_length order k np cs ptrs perm sel :
  sus_finish order k np cs ptrs perm = Some sel -> length sel = if Nat.eqb k 0 then 0%nat else length perm.
Proof.
  unfold sus_finish. destruct (Nat.eqb k 0); [intros H; now injection H as <-|]. destruct cs; [discriminate|].
  intros H. injection H as <-. apply permute_length.
Qed.

(** the walk along the first [n] cumulative sums stops where the walk along all of them does, or at position n-1 *)
Lemma locate_firstn p : forall cs n, locate (firstn n cs) p = Nat.min (locate cs p) (n - 1).
Proof.
  induction cs as [|c t IH]; intros n; [now rewrite firstn_nil|].
  destruct n as [|[|m]]; [cbn [firstn locate]; lia | cbn [firstn locate]; lia |].
  destruct t as [|c' t']; [cbn [firstn locate]; lia|].
  specialize (IH (S m)). change (firstn (S (S m)) (c :: c' :: t')) with (c :: firstn (S m) (c' :: t')).
  change (firstn (S m) (c' :: t')) with (c' :: firstn m t') in *.
  rewrite !locate_cons2. destruct (Qle_bool c p); [rewrite IH; lia | lia].
Qed.

Lemma fcumsum_from_length l : forall acc, length (fcumsum_from acc l) = length l.
Proof. induction l as [|x l IH]; intros acc; [reflexivity|]. cbn [fcumsum_from length]. now rewrite IH. Qed.
Lemma fcumsum_length l : length (fcumsum l) = length l.
Proof. destruct l as [|x l]; [reflexivity|]. cbn [fcumsum length]. now rewrite fcumsum_from_length. Qed.

(** the ideal sample only contains entries of [order] (first conjunct: formerly 0 < k, see [sus_finish_spec]) *)
Lemma sus_q_members (p : list Q) order k off perm sel :
  Permutation perm (seq 0 k) -> sus_q p order k off perm = Some sel ->
  ((0 < k)%nat -> (0 < length order)%nat) /\ length sel = k /\ forall i, In i sel -> In i order.
Proof.
  intros Hperm H. unfold sus_q in H. eapply sus_finish_spec; [exact H | | | exact Hperm].
  - unfold cumsum, gather. now rewrite cumsum_from_length, map_length.
  - unfold sus_ptrs_q. now rewrite map_length, seq_length.
Qed.

(** ... and so does the binary64 sample *)
Lemma sus_f_members (p : list float) order k off perm sel :
  Permutation perm (seq 0 k) -> sus_f p order k off perm = Some sel ->
  ((0 < k)%nat -> (0 < length order)%nat) /\ length sel = k /\ forall i, In i sel -> In i order.
Proof.
  intros Hperm H. unfold sus_f in H. eapply sus_finish_spec; [exact H | | | exact Hperm].
  - unfold gather. now rewrite map_length, fcumsum_length, map_length.
  - unfold sus_ptrs_f. now rewrite !map_length, seq_length.
Qed.

(** [zs] is injective: counting labels is counting indices *)
Lemma count_zs i sel : count_z (Z.of_nat i) (zs sel) = count_nat i sel.
Proof.
  unfold count_z, count_nat, zs. induction sel as [|t sel IH]; [reflexivity|]. cbn [map count_occ]. rewrite IH.
  destruct (Z.eq_dec (Z.of_nat t) (Z.of_nat i)) as [E|NE], (Nat.eq_dec t i) as [E'|NE']; try reflexivity; exfalso.
  - apply NE'. apply Nat2Z.inj. exact E.
  - apply NE. now rewrite E'.
Qed.

Lemma In_zs v sel : In v (zs sel) -> exists i, v = Z.of_nat i /\ In i sel.
Proof. unfold zs. intros H. apply in_map_iff in H as (i & E & Hi). exists i. split; [now symmetry | exact Hi]. Qed.

Lemma zs_length sel : length (zs sel) = length sel.
Proof. unfold zs. apply map_length. Qed.

Lemma shape_ok_pos nc np : shape_ok nc np = true -> (0 < nc)%nat /\ (0 < np)%nat /\ (0 < nc * np)%nat.
Proof.
  unfold shape_ok. intros H. apply andb_prop in H as [H1 H2]. apply negb_true_iff in H1, H2.
  apply Nat.eqb_neq in H1, H2. assert (A : (0 < nc)%nat) by lia. assert (B : (0 < np)%nat) by lia.
  split; [exact A|]. split; [exact B|]. now apply Nat.mul_pos_pos.
Qed.

(** * 1. RealSelectionConfiguration, ideal pointers *)
(** [order] = decn.argsort()[::-1] is a DESCENDING order of the weights ([nonincr]): since commit eabf766a the walk is
    confined to the first [npos p] positions of that order, which are the elements of positive weight only when the order
    is descending; for an arbitrary permutation the statement is false of the repaired code (see
    [cfg_real_q_needs_descending_order] below).  The conclusion is unchanged. *)
Theorem cfg_real_q_spec : forall nc np (p : list Q) order off perm pms r,
  let k := (nc * np)%nat in
  Forall (fun x => 0 <= x) p -> 0 < sumQ p -> Permutation order (seq 0 (length p)) ->
  nonincr (gather 0 p order) = true ->
  0 <= off -> off < sumQ p / inject_Z (Z.of_nat k) -> Permutation perm (seq 0 k) ->
  (forall sel, sus_q p order k off perm = Some sel -> draws_ok np (zs sel) pms) ->
  cfg_real_q nc np p order off perm pms = Some r ->
  length r = k /\
  (forall v, In v r -> exists i, v = Z.of_nat i /\ (i < length p)%nat /\ ~ nth i p 0 == 0) /\
  (forall i, (i < length p)%nat ->
     (Qfloor (nth i p 0 * inject_Z (Z.of_nat k) / sumQ p)%Q <= Z.of_nat (count_z (Z.of_nat i) r)
      <= Qceiling (nth i p 0 * inject_Z (Z.of_nat k) / sumQ p)%Q)%Z) /\
  local_opt np r.
Proof.
  intros nc np p order off perm pms r k Hp Htot Hord Hsort Hoff0 Hoff Hperm Hdraw Hcfg.
  unfold cfg_real_q in Hcfg. destruct (shape_ok nc np) eqn:Hs; [|discriminate].
  destruct (shape_ok_pos _ _ Hs) as (_ & _ & Hk). fold k in Hk, Hcfg.
  destruct (sus_q_spec p order k off perm Hp Htot Hord Hsort (fun _ => conj Hoff0 Hoff) Hperm) as (sel & Hsel & Lsel & Hcnt).
  destruct (sus_q_members p order k off perm sel Hperm Hsel) as (_ & _ & Hmem).
  rewrite Hsel in Hcfg.
  assert (Lz : length (zs sel) = (nc * np)%nat) by (rewrite zs_length; exact Lsel).
  destruct (xc_tail_spec nc np (zs sel) pms r Lz (Hdraw sel Hsel) Hcfg) as (Lr & Pr & _ & Hopt).
  split; [exact Lr|]. split; [|split; [|exact Hopt]].
  - intros v Hv. apply (Permutation_in _ Pr) in Hv. apply In_zs in Hv as (i & E & Hi). exists i.
    assert (Ri : (i < length p)%nat).
    { specialize (Hmem i Hi). apply (Permutation_in _ Hord) in Hmem. apply in_seq in Hmem. lia. }
    split; [exact E|]. split; [exact Ri|]. intros Hz.
    destruct (Hcnt i Ri) as [_ H0]. specialize (H0 Hz). unfold count_nat in H0.
    apply (count_occ_In Nat.eq_dec) in Hi. lia.
  - intros i Hi. rewrite (count_z_Permutation _ _ _ Pr), count_zs. exact (proj1 (Hcnt i Hi)).
Qed.

(** why [cfg_real_q_spec] now asks for a descending order: with the ascending order [0;1] of the weights [0;1] every other
    hypothesis holds, and the single parent drawn is the individual of weight zero *)
Lemma cfg_real_q_needs_descending_order :
  exists nc np (p : list Q) order off perm pms r,
    let k := (nc * np)%nat in
    Forall (fun x => 0 <= x) p /\ 0 < sumQ p /\ Permutation order (seq 0 (length p)) /\
    0 <= off /\ off < sumQ p / inject_Z (Z.of_nat k) /\ Permutation perm (seq 0 k) /\
    (forall sel, sus_q p order k off perm = Some sel -> draws_ok np (zs sel) pms) /\
    cfg_real_q nc np p order off perm pms = Some r /\ nonincr (gather 0 p order) = false /\
    exists v, In v r /\ forall i, v = Z.of_nat i -> nth i p 0 == 0.
Proof.
  exists 1%nat, 1%nat, [0; 1], [0%nat; 1%nat], 0, [0%nat], [[]; [0%nat]], [0%Z]. cbv zeta.
  split; [repeat constructor; apply Qle_bool_iff; reflexivity|]. split; [reflexivity|]. split; [reflexivity|].
  split; [apply Qle_refl|]. split; [reflexivity|]. split; [reflexivity|]. split.
  - intros sel Hsel y n H. vm_compute in Hsel. injection Hsel as <-. vm_compute in H. injection H as <- <-.
    cbn [firstn skipn length all_pairs]. split; repeat constructor.
  - split; [vm_compute; reflexivity|]. split; [reflexivity|]. exists 0%Z. split; [now left|].
    intros i Hi. assert (i = 0%nat) as -> by lia. reflexivity.
Qed.

(** * 2. RealSelectionConfiguration, binary64 pointers *)
(** slightly stronger than requested: [length order = length p] is not needed *)
Lemma cfg_real_f_shape_strong : forall nc np (p : list float) order off perm pms r,
  cfg_real_f nc np p order off perm pms = Some r ->
  (forall sel, sus_f p order (nc*np) off perm = Some sel -> draws_ok np (zs sel) pms) ->
  length perm = (nc*np)%nat ->
  length r = (nc * np)%nat /\ (0 < nc)%nat /\ (0 < np)%nat /\ local_opt np r /\
  exists sel, sus_f p order (nc*np) off perm = Some sel /\ Permutation r (zs sel).
Proof.
  intros nc np p order off perm pms r Hcfg Hdraw Lperm.
  unfold cfg_real_f in Hcfg. destruct (shape_ok nc np) eqn:Hs; [|discriminate].
  destruct (shape_ok_pos _ _ Hs) as (Hnc & Hnp & _).
  destruct (sus_f p order (nc * np) off perm) as [sel|] eqn:Hsel; [|discriminate].
  assert (Lz : length (zs sel) = (nc * np)%nat).
  { rewrite zs_length. unfold sus_f in Hsel. rewrite (sus_finish_length _ _ _ _ _ _ _ Hsel).
    destruct (Nat.eqb_spec (nc * np) 0) as [E0|_]; [now rewrite E0 | exact Lperm]. }
  destruct (xc_tail_spec nc np (zs sel) pms r Lz (Hdraw sel eq_refl) Hcfg) as (Lr & Pr & _ & Hopt).
  split; [exact Lr|]. split; [exact Hnc|]. split; [exact Hnp|]. split; [exact Hopt|]. exists sel. split; [reflexivity | exact Pr].
Qed.

Theorem cfg_real_f_shape : forall nc np (p : list float) order off perm pms r,
  cfg_real_f nc np p order off perm pms = Some r ->
  (forall sel, sus_f p order (nc*np) off perm = Some sel -> draws_ok np (zs sel) pms) ->
  length perm = (nc*np)%nat -> length order = length p ->
  length r = (nc * np)%nat /\ local_opt np r.
Proof.
  intros nc np p order off perm pms r Hcfg Hdraw Lperm _.
  destruct (cfg_real_f_shape_strong nc np p order off perm pms r Hcfg Hdraw Lperm) as (L & _ & _ & O & _).
  split; assumption.
Qed.

(** bonus: whatever the rounding, every entry of the configuration is a valid individual index *)
Theorem cfg_real_f_members : forall nc np (p : list float) order off perm pms r,
  cfg_real_f nc np p order off perm pms = Some r ->
  (forall sel, sus_f p order (nc*np) off perm = Some sel -> draws_ok np (zs sel) pms) ->
  Permutation perm (seq 0 (nc*np)) -> Permutation order (seq 0 (length p)) ->
  forall v, In v r -> exists i, v = Z.of_nat i /\ (i < length p)%nat.
Proof.
  intros nc np p order off perm pms r Hcfg Hdraw Hperm Hord v Hv.
  assert (Lperm : length perm = (nc * np)%nat) by (rewrite (Permutation_length Hperm); apply seq_length).
  destruct (cfg_real_f_shape_strong nc np p order off perm pms r Hcfg Hdraw Lperm) as (_ & _ & _ & _ & sel & Hsel & Pr).
  destruct (sus_f_members p order _ off perm sel Hperm Hsel) as (_ & _ & Hmem).
  apply (Permutation_in _ Pr) in Hv. apply In_zs in Hv as (i & E & Hi). exists i. split; [exact E|].
  specialize (Hmem i Hi). apply (Permutation_in _ Hord) in Hmem. apply in_seq in Hmem. lia.
Qed.

(** since commit eabf766a: whatever the rounding, every entry of the configuration is an individual of positive weight (for the
    descending order the code computes) — the configuration-level form of [sus_f_no_zero_weight] *)
Theorem cfg_real_f_no_zero_weight : forall nc np (p : list float) order off perm pms r,
  let pq := map f2q p in
  Forall (fun x => 0 <= x) pq -> 0 < sumQ pq -> Permutation order (seq 0 (length p)) ->
  nonincr (gather 0 pq order) = true -> Permutation perm (seq 0 (nc*np)) ->
  (forall sel, sus_f p order (nc*np) off perm = Some sel -> draws_ok np (zs sel) pms) ->
  cfg_real_f nc np p order off perm pms = Some r ->
  (forall v, In v r -> exists i, v = Z.of_nat i /\ (i < length p)%nat /\ 0 < nth i pq 0) /\
  (forall i, nth i pq 0 == 0 -> count_z (Z.of_nat i) r = 0%nat).
Proof.
  intros nc np p order off perm pms r pq Hp Htot Hord Hsort Hperm Hdraw Hcfg.
  assert (Lperm : length perm = (nc * np)%nat) by (rewrite (Permutation_length Hperm); apply seq_length).
  destruct (cfg_real_f_shape_strong nc np p order off perm pms r Hcfg Hdraw Lperm) as (_ & _ & _ & _ & sel & Hsel & Pr).
  destruct (sus_f_no_zero_weight p order _ off perm sel Hp Htot Hord Hsort Hperm Hsel) as [Hpos Hzero].
  split.
  - intros v Hv. apply (Permutation_in _ Pr) in Hv. apply In_zs in Hv as (i & E & Hi). exists i. split; [exact E|].
    exact (Hpos i Hi).
  - intros i Hz. rewrite (count_z_Permutation _ _ _ Pr), count_zs. exact (Hzero i Hz).
Qed.

(** when the cumulative sums are exact and every binary64 pointer falls into the cell of the ideal pointer, the binary64
    configuration is the ideal one (to which [cfg_real_q_spec] applies); 0 < k is not needed: the setters guarantee it.
    Since commit eabf766a the cells that matter are those of the first [npos pq] cumulative sums (the walk does not go
    further); [cfg_real_f_partial] below keeps the former statement, with the cells of all cumulative sums. *)
Theorem cfg_real_f_partial_pos : forall nc np (p : list float) order off perm pms,
  let k := (nc * np)%nat in
  let pq := map f2q p in
  let cs := firstn (npos pq) (cumsum (gather 0 pq order)) in
  Forall2 Qeq (map f2q (fcumsum (gather 0%float p order))) (cumsum (gather 0 pq order)) ->
  0 <= sumQ pq / inject_Z (Z.of_nat k) ->
  StronglySorted Qle (map f2q (sus_ptrs_f (fsum p) k off)) ->
  Forall2 (fun a b => locate cs a = locate cs b) (map f2q (sus_ptrs_f (fsum p) k off)) (sus_ptrs_q (sumQ pq) k (f2q off)) ->
  cfg_real_f nc np p order off perm pms = cfg_real_q nc np (map f2q p) order (f2q off) perm pms.
Proof.
  intros nc np p order off perm pms k pq cs Ecs Hd Hs Hsame.
  unfold cfg_real_f, cfg_real_q. destruct (shape_ok nc np) eqn:Hok; [|reflexivity].
  rewrite (sus_f_partial p order (nc * np) off perm Ecs Hd Hs Hsame). reflexivity.
Qed.

(** the former statement (cells of all cumulative sums): still true, a consequence of the one above by [locate_firstn] *)
Theorem cfg_real_f_partial : forall nc np (p : list float) order off perm pms,
  let k := (nc * np)%nat in
  let pq := map f2q p in
  let cs := cumsum (gather 0 pq order) in
  Forall2 Qeq (map f2q (fcumsum (gather 0%float p order))) cs ->
  0 <= sumQ pq / inject_Z (Z.of_nat k) ->
  StronglySorted Qle (map f2q (sus_ptrs_f (fsum p) k off)) ->
  Forall2 (fun a b => locate cs a = locate cs b) (map f2q (sus_ptrs_f (fsum p) k off)) (sus_ptrs_q (sumQ pq) k (f2q off)) ->
  cfg_real_f nc np p order off perm pms = cfg_real_q nc np (map f2q p) order (f2q off) perm pms.
Proof.
  intros nc np p order off perm pms k pq cs Ecs Hd Hs Hsame.
  apply cfg_real_f_partial_pos; [exact Ecs | exact Hd | exact Hs |].
  eapply Forall2_impl_in; [exact Hsame|]. cbn beta. intros a b _ _ E. fold pq. fold cs. rewrite !locate_firstn. now rewrite E.
Qed.

(** * 3. SubsetMateSelectionConfiguration *)
Lemma xmap_rows_spec xmap : forall ds rows, xmap_rows xmap ds = Some rows ->
  length rows = length ds /\ forall r, In r rows -> exists d, In d ds /\ xmap_row xmap d = Some r.
Proof.
  induction ds as [|d t IH]; intros rows H; cbn [xmap_rows] in H.
  - injection H as <-. split; [reflexivity | intros r []].
  - destruct (xmap_row xmap d) as [r0|] eqn:E; [|discriminate].
    destruct (xmap_rows xmap t) as [rs|] eqn:E2; [|discriminate].
    injection H as <-. destruct (IH rs eq_refl) as [L I]. split; [cbn [length]; now rewrite L|].
    intros r [<-|Hr].
    + exists d. split; [now left | exact E].
    + destruct (I r Hr) as (d' & Hd & Ed). exists d'. split; [now right | exact Ed].
Qed.

Lemma xmap_row_In xmap d r : xmap_row xmap d = Some r -> In r xmap.
Proof.
  unfold xmap_row. cbv zeta. destruct (0 <=? d)%Z; [apply nth_error_In|].
  destruct (0 <=? Z.of_nat (length xmap) + d)%Z; [apply nth_error_In | discriminate].
Qed.

Theorem cfg_mate_spec : forall nc np decn xmap choice perm perm2 rows,
  (0 < length decn)%nat -> NoDup decn ->
  NoDup choice -> Forall (fun p => (p < length decn)%nat) choice -> length choice = (nc mod length decn)%nat ->
  Permutation perm (seq 0 nc) -> Permutation perm2 (seq 0 nc) ->
  cfg_mate nc np decn xmap choice perm perm2 = Some rows ->
  exists ds, xmap_rows xmap ds = Some rows /\ length rows = nc /\ length ds = nc /\
    Forall (fun r => length r = np) rows /\
    (forall d, In d ds -> In d decn) /\
    (forall r, In r rows -> exists d, In d decn /\ xmap_row xmap d = Some r) /\
    (forall i, (i < length decn)%nat ->
       count_z (nth i decn 0%Z) ds = (nc / length decn + count_nat i choice)%nat /\ (count_nat i choice <= 1)%nat).
Proof.
  intros nc np decn xmap choice perm perm2 rows Hn Hnd Hndc Hr Hl Hperm Hperm2 H.
  unfold cfg_mate in H. destruct (shape_ok nc np && xmap_ok np xmap) eqn:Hs; [|discriminate].
  apply andb_prop in Hs as [_ Hxm]. unfold tiled_choice in H.
  destruct (tiled_even (length decn) nc choice perm Hn Hndc Hr Hl Hperm) as (sel & Hsel & Lsel & Rsel & Csel).
  rewrite Hsel in H. cbn [option_map] in H.
  assert (Lperm2 : length perm2 = nc) by (rewrite (Permutation_length Hperm2); apply seq_length).
  rewrite Lperm2, Nat.eqb_refl in H.
  set (x := take_labels decn sel) in *.
  assert (Lx : length x = nc) by (unfold x, take_labels, gather; rewrite map_length; exact Lsel).
  assert (Pds : Permutation (permute 0%Z perm2 x) x) by (apply permute_Permutation; rewrite Lx; exact Hperm2).
  assert (Hin : forall d, In d (permute 0%Z perm2 x) -> In d decn).
  { intros d Hd. apply (Permutation_in _ Pds) in Hd. unfold x, take_labels, gather in Hd.
    apply in_map_iff in Hd as (t & E & Ht). rewrite <- E. apply nth_In. rewrite Forall_forall in Rsel. now apply Rsel. }
  destruct (xmap_rows_spec _ _ _ H) as [Lrows Irows].
  exists (permute 0%Z perm2 x). split; [exact H|]. split; [now rewrite Lrows, permute_length|].
  split; [now rewrite permute_length|]. split; [|split; [exact Hin|split]].
  - apply Forall_forall. intros r Hr'. destruct (Irows r Hr') as (d & _ & Ed). apply xmap_row_In in Ed.
    unfold xmap_ok in Hxm. rewrite forallb_forall in Hxm. apply Nat.eqb_eq. now apply Hxm.
  - intros r Hr'. destruct (Irows r Hr') as (d & Hd & Ed). exists d. split; [now apply Hin | exact Ed].
  - intros i Hi. rewrite (count_z_Permutation _ _ _ Pds). unfold x. rewrite labels_count by assumption. now apply Csel.
Qed.

(** * 4. the multi-objective choice *)
Lemma argmax_from_spec : forall l pre best bi,
  (bi < length pre)%nat -> nth bi pre 0 = best ->
  (forall j, (j < length pre)%nat -> nth j pre 0 <= best) ->
  (forall j, (j < bi)%nat -> nth j pre 0 < best) ->
  (argmax_from best bi (length pre) l < length (pre ++ l))%nat /\
  (forall j, (j < length (pre ++ l))%nat -> nth j (pre ++ l) 0 <= nth (argmax_from best bi (length pre) l) (pre ++ l) 0) /\
  (forall j, (j < argmax_from best bi (length pre) l)%nat ->
     nth j (pre ++ l) 0 < nth (argmax_from best bi (length pre) l) (pre ++ l) 0).
Proof.
  induction l as [|x t IH]; intros pre best bi Hbi Hbest Hle Hlt.
  - cbn [argmax_from]. rewrite app_nil_r, Hbest. split; [exact Hbi|]. split; assumption.
  - cbn [argmax_from].
    assert (Lpre : length (pre ++ [x]) = S (length pre)) by (rewrite app_length; cbn [length]; lia).
    assert (Eapp : pre ++ x :: t = (pre ++ [x]) ++ t) by (rewrite <- app_assoc; reflexivity).
    assert (Nlast : nth (length pre) (pre ++ [x]) 0 = x) by (rewrite app_nth2 by lia; rewrite Nat.sub_diag; reflexivity).
    rewrite Eapp, <- Lpre.
    destruct (Qle_bool x best) eqn:Ex.
    + apply Qle_bool_iff in Ex. apply IH.
      * rewrite Lpre. lia.
      * rewrite app_nth1 by exact Hbi. exact Hbest.
      * intros j Hj. rewrite Lpre in Hj. destruct (Nat.eq_dec j (length pre)) as [E|NE].
        -- rewrite E, Nlast. exact Ex.
        -- rewrite app_nth1 by lia. apply Hle. lia.
      * intros j Hj. rewrite app_nth1 by lia. now apply Hlt.
    + assert (Hx : best < x).
      { apply Qnot_le_lt. intros C. apply Qle_bool_iff in C. congruence. }
      apply IH.
      * rewrite Lpre. lia.
      * exact Nlast.
      * intros j Hj. rewrite Lpre in Hj. destruct (Nat.eq_dec j (length pre)) as [E|NE].
        -- rewrite E, Nlast. apply Qle_refl.
        -- rewrite app_nth1 by lia. apply Qlt_le_weak. eapply Qle_lt_trans; [apply Hle; lia | exact Hx].
      * intros j Hj. rewrite app_nth1 by lia. eapply Qle_lt_trans; [apply Hle; lia | exact Hx].
Qed.

(** numpy.argmax: the FIRST maximiser *)
Theorem argmax_spec : forall l ix, argmax l = Some ix ->
  (ix < length l)%nat /\ (forall j, (j < length l)%nat -> nth j l 0 <= nth ix l 0) /\
  (forall j, (j < ix)%nat -> nth j l 0 < nth ix l 0).
Proof.
  intros l ix H. destruct l as [|x t]; [discriminate|]. cbn [argmax] in H. injection H as <-.
  apply (argmax_from_spec t [x] x 0%nat).
  - cbn [length]. lia.
  - reflexivity.
  - intros j Hj. cbn [length] in Hj. assert (j = 0%nat) as -> by lia. cbn [nth]. apply Qle_refl.
  - intros j Hj. lia.
Qed.

Theorem argmax_total : forall l, l <> [] -> exists ix, argmax l = Some ix.
Proof. intros [|x t] H; [congruence|]. eexists. reflexivity. Qed.

Lemma nth_map_Qmult wt l j : (j < length l)%nat -> nth j (map (Qmult wt) l) 0 = wt * nth j l 0.
Proof.
  intros H. rewrite (nth_indep _ 0 (Qmult wt 0)) by (now rewrite map_length). apply (map_nth (Qmult wt)).
Qed.

(** the index the protocol picks: the first maximiser of ndset_wt * ndset_trans(front) *)
Theorem mo_index_spec : forall (wt : Q) trans front ix, mo_index wt trans front = Some ix ->
  (ix < length (trans front))%nat /\
  (forall j, (j < length (trans front))%nat -> wt * nth j (trans front) 0 <= wt * nth ix (trans front) 0) /\
  (forall j, (j < ix)%nat -> wt * nth j (trans front) 0 < wt * nth ix (trans front) 0).
Proof.
  intros wt trans front ix H. unfold mo_index in H. destruct (argmax_spec _ _ H) as (Hix & Hle & Hlt).
  rewrite map_length in Hix, Hle. split; [exact Hix|]. split.
  - intros j Hj. rewrite <- !nth_map_Qmult by assumption. now apply Hle.
  - intros j Hj. rewrite <- !nth_map_Qmult by lia. now apply Hlt.
Qed.

Theorem mo_index_total : forall (wt : Q) trans front, trans front <> [] -> exists ix, mo_index wt trans front = Some ix.
Proof.
  intros wt trans front H. unfold mo_index. apply argmax_total. destruct (trans front); [congruence | discriminate].
Qed.

Theorem mo_choice_is_argmax : forall D (wt : Q) trans front (decns : list D) d,
  mo_choice wt trans front decns = Some d ->
  exists ix, nth_error decns ix = Some d /\ (ix < length (trans front))%nat /\
    (forall j, (j < length (trans front))%nat -> wt * nth j (trans front) 0 <= wt * nth ix (trans front) 0) /\
    (forall j, (j < ix)%nat -> wt * nth j (trans front) 0 < wt * nth ix (trans front) 0).
Proof.
  intros D wt trans front decns d H. unfold mo_choice in H.
  destruct (mo_index wt trans front) as [ix|] eqn:E; [|discriminate].
  exists ix. split; [exact H|]. now apply mo_index_spec.
Qed.

Theorem select_mo_spec : forall D C wt trans front (decns : list D) (cfg : D -> option C) d c,
  select_mo wt trans front decns cfg = Some (d, c) ->
  cfg d = Some c /\
  exists ix, nth_error decns ix = Some d /\ (ix < length (trans front))%nat /\
    (forall j, (j < length (trans front))%nat -> wt * nth j (trans front) 0 <= wt * nth ix (trans front) 0) /\
    (forall j, (j < ix)%nat -> wt * nth j (trans front) 0 < wt * nth ix (trans front) 0).
Proof.
  intros D C wt trans front decns cfg d c H. unfold select_mo in H.
  destruct (mo_choice wt trans front decns) as [d'|] eqn:E; [|discriminate].
  destruct (cfg d') as [c'|] eqn:Ec; [|discriminate]. injection H as <- <-.
  split; [exact Ec|]. now apply mo_choice_is_argmax.
Qed.
