(** C01 — the definitions regenerated from the source (Gen/C01_Kernel.v) are the ones the hand model is made of.
    If an expression or a statement of the anchored code changes (the crossover test, a phase/start-index update, an index
    of the segment copy, the column of xconfig a selection is taken from, the repeat counts, the order of the arguments of
    mat_mate/mat_dh, the selection used in the selfing loop, the name prefix or width, the label pattern, a counter
    increment, which pgmat attribute is handed to which metadata field) the regenerated definition no longer equals the
    model's and this file — hence Props/C01.vo — stops compiling, whatever the random cases exercise. *)
From Coq Require Import Permutation.
From PV Require Import Lib.Common Model.C01_Meiosis Model.C01_Mating Model.C01_Kit Gen.C01_Kernel Proofs.C01_Meiosis Proofs.C01_Mating.
Local Open Scope Z_scope.

(** * A. meiosis kernel *)
Lemma k_mat_xo_model u p : k_mat_xo u p = Qltb u p.
Proof. unfold k_mat_xo, Qltb, Qle_bool. now rewrite Z.ltb_antisym. Qed.
Lemma k_dense_xo_model u p : k_dense_xo u p = Qltb u p.
Proof. unfold k_dense_xo, Qltb, Qle_bool. now rewrite Z.ltb_antisym. Qed.

Lemma xo_row_with_ext f g : (forall u p, f u p = g u p) -> forall xoprob rnd, xo_row_with f rnd xoprob = xo_row_with g rnd xoprob.
Proof. intros H xoprob. induction xoprob as [|p tp IH]; intros rnd; cbn; [reflexivity|]. now rewrite H, IH. Qed.
Lemma xo_row_with_Qltb : forall xoprob rnd, xo_row_with Qltb rnd xoprob = xo_row rnd xoprob.
Proof. induction xoprob as [|p tp IH]; intros rnd; cbn; [reflexivity|]. now rewrite IH. Qed.
Lemma k_mat_xo_row rnd xoprob : xo_row_with k_mat_xo rnd xoprob = xo_row rnd xoprob.
Proof. rewrite (xo_row_with_ext _ _ k_mat_xo_model). apply xo_row_with_Qltb. Qed.
Lemma k_dense_xo_row rnd xoprob : xo_row_with k_dense_xo rnd xoprob = xo_row rnd xoprob.
Proof. rewrite (xo_row_with_ext _ _ k_dense_xo_model). apply xo_row_with_Qltb. Qed.

(** the crossover test of the source can fire only where the probability is positive (draws are >= 0), and never at 0 *)
Lemma k_mat_xo_positive u p : (0 <= u)%Q -> k_mat_xo u p = true -> (0 < p)%Q.
Proof. rewrite k_mat_xo_model. intros Hu H. apply Qltb_lt in H. eapply Qle_lt_trans; eassumption. Qed.
Lemma k_dense_xo_positive u p : (0 <= u)%Q -> k_dense_xo u p = true -> (0 < p)%Q.
Proof. rewrite k_dense_xo_model. intros Hu H. apply Qltb_lt in H. eapply Qle_lt_trans; eassumption. Qed.
(** ... and it does fire for every draw strictly below the probability (so a probability 1 always crosses over) *)
Lemma k_mat_xo_fires u p : (u < p)%Q -> k_mat_xo u p = true.
Proof. intros H. unfold k_mat_xo, Qle_bool. unfold Qlt in H. apply negb_true_iff, Z.leb_gt. exact H. Qed.
Lemma k_dense_xo_fires u p : (u < p)%Q -> k_dense_xo u p = true.
Proof. intros H. unfold k_dense_xo, Qle_bool. unfold Qlt in H. apply negb_true_iff, Z.leb_gt. exact H. Qed.

(** the draws are requested in [0, 1) with the shape (len(sel), len(xoprob)) *)
Lemma k_unif_range : k_mat_unif_lo = 0%Q /\ k_mat_unif_hi = 1%Q /\ k_dense_unif_lo = 0%Q /\ k_dense_unif_hi = 1%Q.
Proof. repeat split. Qed.
Lemma k_gshape_model geno sel xoprob r :
  reqs (snd (mat_meiosis geno sel xoprob r)) = reqs r ++ [k_mat_gshape (length sel) (length xoprob)]
  /\ k_dense_gshape (length sel) (length xoprob) = k_mat_gshape (length sel) (length xoprob).
Proof. split; reflexivity. Qed.

(** the segment-copy loop assembled from the regenerated pieces is the loop of the hand model *)
Section Seg.
  Variables (seg_src : Z -> Z -> Z -> Z -> Z * (Z * (Z * Z))) (seg_dst : Z -> Z -> Z -> Z * (Z * Z))
            (stix_next : Z -> Z -> Z) (phase_next : Z -> Z) (tail_src : Z -> Z -> Z -> Z * (Z * Z)) (tail_dst : Z -> Z -> Z * Z).
  Hypothesis Hsrc : forall ph s a b, seg_src ph s a b = (ph, (s, (a, b))).
  Hypothesis Hdst : forall i a b, seg_dst i a b = (i, (a, b)).
  Hypothesis Hst : forall a b, stix_next a b = b.
  Hypothesis Hph : forall b : bool, phase_next (Z.b2z b) = Z.b2z (negb b).
  Hypothesis Htsrc : forall ph s a, tail_src ph s a = (ph, (s, a)).
  Hypothesis Htdst : forall i a, tail_dst i a = (i, a).
  Lemma copy_of_b2z g0 g1 (b : bool) : copy_of g0 g1 (Z.b2z b) = if b then g1 else g0.
  Proof. destruct b; reflexivity. Qed.
  Lemma seg_loop_model p g0 g1 i s : forall xoix (b : bool) (st : nat),
    seg_loop seg_src seg_dst stix_next phase_next tail_src tail_dst p g0 g1 i s xoix (Z.b2z b) (Z.of_nat st) = seg_copy p g0 g1 xoix b st.
  Proof.
    induction xoix as [|spix t IH]; intros b st; cbn [seg_loop seg_copy].
    - unfold tail_piece. rewrite Htsrc, Htdst, !Z.eqb_refl. cbn [andb]. now rewrite Nat2Z.id, copy_of_b2z.
    - unfold seg_piece. rewrite Hsrc, Hdst, !Z.eqb_refl. cbn [andb]. rewrite !Nat2Z.id, copy_of_b2z, Hst, Hph. now rewrite IH.
  Qed.
End Seg.

Definition k_mat_gamete (geno : list (list (list Z))) (i : Z) (s : nat) (rnd xoprob : list Q) : list Z :=
  seg_loop k_mat_seg_src k_mat_seg_dst k_mat_stix_next k_mat_phase_next k_mat_tail_src k_mat_tail_dst
           (snd (k_mat_gshape 0 (length xoprob))) (row geno 0 s) (row geno 1 s) i (Z.of_nat s)
           (flatnonzero 0 (xo_row_with k_mat_xo rnd xoprob)) k_mat_phase0 k_mat_stix0.
Definition k_dense_gamete (geno : list (list (list Z))) (i : Z) (s : nat) (rnd xoprob : list Q) : list Z :=
  seg_loop k_dense_seg_src k_dense_seg_dst k_dense_stix_next k_dense_phase_next k_dense_tail_src k_dense_tail_dst
           (snd (k_dense_gshape 0 (length xoprob))) (row geno 0 s) (row geno 1 s) i (Z.of_nat s)
           (flatnonzero 0 (xo_row_with k_dense_xo rnd xoprob)) k_dense_phase0 k_dense_stix0.

Lemma k_mat_gamete_model geno i s rnd xoprob : k_mat_gamete geno i s rnd xoprob = gamete_seg geno s rnd xoprob.
Proof.
  unfold k_mat_gamete, gamete_seg. rewrite k_mat_xo_row.
  change k_mat_phase0 with (Z.b2z false). change k_mat_stix0 with (Z.of_nat 0).
  apply seg_loop_model; try reflexivity. intros []; reflexivity.
Qed.
Lemma k_dense_gamete_model geno i s rnd xoprob : k_dense_gamete geno i s rnd xoprob = gamete_seg geno s rnd xoprob.
Proof.
  unfold k_dense_gamete, gamete_seg. rewrite k_dense_xo_row.
  change k_dense_phase0 with (Z.b2z false). change k_dense_stix0 with (Z.of_nat 0).
  apply seg_loop_model; try reflexivity. intros []; reflexivity.
Qed.

(** hence the loop of the source, as regenerated, produces a mosaic that switches only where xoprob > 0 *)
Lemma k_gamete_mosaic geno i s rnd xoprob :
  length (row geno 0 s) = length xoprob -> length (row geno 1 s) = length xoprob -> nonneg_row rnd ->
  mosaic xoprob (row geno 0 s) (row geno 1 s) (k_mat_gamete geno i s rnd xoprob) /\
  mosaic xoprob (row geno 0 s) (row geno 1 s) (k_dense_gamete geno i s rnd xoprob).
Proof.
  intros H0 H1 Hn. rewrite k_mat_gamete_model, k_dense_gamete_model, gamete_seg_eq by assumption.
  split; apply gamete_mosaic; assumption.
Qed.

(** * B. straight-line helpers *)
Lemma k_mat_mate_model fg mg fs ms xo r : k_mat_mate fg mg fs ms xo r = mat_mate fg mg fs ms xo r.
Proof. unfold k_mat_mate, mat_mate. destruct (mat_meiosis fg fs xo r) as [a r1]. destruct (mat_meiosis mg ms xo r1). reflexivity. Qed.
Lemma k_dense_cross_model fg mg fs ms xo r : k_dense_cross fg mg fs ms xo r = mat_mate fg mg fs ms xo r.
Proof. unfold k_dense_cross, mat_mate. destruct (mat_meiosis fg fs xo r) as [a r1]. destruct (mat_meiosis mg ms xo r1). reflexivity. Qed.
Lemma k_mat_dh_model g s xo r : k_mat_dh g s xo r = mat_dh g s xo r.
Proof. unfold k_mat_dh, mat_dh. destruct (mat_meiosis g s xo r). reflexivity. Qed.
Lemma k_dense_dh_model g s xo r : k_dense_dh g s xo r = mat_dh g s xo r.
Proof. unfold k_dense_dh, mat_dh. destruct (mat_meiosis g s xo r). reflexivity. Qed.

(** * the protocols *)
Lemma selfn_loop xo asel : forall k g r,
  selfn k asel g xo r = loop_n k (fun '(g, r) => mat_mate g g asel asel xo r) (g, r).
Proof. induction k as [|k IH]; intros g r; cbn [selfn loop_n]; [reflexivity|]. destruct (mat_mate g g asel asel xo r) as [g' r']. apply IH. Qed.
Lemma rangeZ_arange a n : rangeZ a (a + Z.of_nat n) = arangeZ a n.
Proof. unfold rangeZ. replace (a + Z.of_nat n - a) with (Z.of_nat n) by lia. now rewrite Nat2Z.id. Qed.
Lemma names_k pfx pc n : map (name_of pfx 7) (arangeZ pc n) = taxa_names pfx pc n.
Proof. unfold arangeZ, taxa_names. rewrite map_map. reflexivity. Qed.

Ltac kstep :=
  match goal with
  | |- context [selfn ?k ?a ?g ?x ?r] => rewrite (selfn_loop x a k g r)
  | |- context [mat_mate ?a ?b ?c ?d ?e ?r] => is_var r; destruct (mat_mate a b c d e r) as [?g ?r]
  | |- context [mat_dh ?a ?c ?e ?r] => is_var r; destruct (mat_dh a c e r) as [?g ?r]
  | |- context [loop_n ?k ?f (?g, ?r)] => is_var r; is_var g; destruct (loop_n k f (g, r)) as [?g ?r]
  end.
Ltac kraw := intros; cbv beta delta [mate_raw core family_labels prefix] iota zeta; repeat kstep;
             rewrite ?rangeZ_arange, ?names_k; reflexivity.

Lemma k_raw_SelfCross_model geno xo xc nm np nself pc fc r :
  k_raw_SelfCross geno xo xc nm np nself pc fc r = mate_raw PSelf geno xo xc nm np nself pc fc r.
Proof. unfold k_raw_SelfCross. kraw. Qed.
Lemma k_raw_TwoWayCross_model geno xo xc nm np nself pc fc r :
  k_raw_TwoWayCross geno xo xc nm np nself pc fc r = mate_raw P2 geno xo xc nm np nself pc fc r.
Proof. unfold k_raw_TwoWayCross. kraw. Qed.
Lemma k_raw_TwoWayDHCross_model geno xo xc nm np nself pc fc r :
  k_raw_TwoWayDHCross geno xo xc nm np nself pc fc r = mate_raw P2DH geno xo xc nm np nself pc fc r.
Proof. unfold k_raw_TwoWayDHCross. kraw. Qed.
Lemma k_raw_ThreeWayCross_model geno xo xc nm np nself pc fc r :
  k_raw_ThreeWayCross geno xo xc nm np nself pc fc r = mate_raw P3 geno xo xc nm np nself pc fc r.
Proof. unfold k_raw_ThreeWayCross. kraw. Qed.
Lemma k_raw_ThreeWayDHCross_model geno xo xc nm np nself pc fc r :
  k_raw_ThreeWayDHCross geno xo xc nm np nself pc fc r = mate_raw P3DH geno xo xc nm np nself pc fc r.
Proof. unfold k_raw_ThreeWayDHCross. kraw. Qed.
Lemma k_raw_FourWayCross_model geno xo xc nm np nself pc fc r :
  k_raw_FourWayCross geno xo xc nm np nself pc fc r = mate_raw P4 geno xo xc nm np nself pc fc r.
Proof. unfold k_raw_FourWayCross. kraw. Qed.
Lemma k_raw_FourWayDHCross_model geno xo xc nm np nself pc fc r :
  k_raw_FourWayDHCross geno xo xc nm np nself pc fc r = mate_raw P4DH geno xo xc nm np nself pc fc r.
Proof. unfold k_raw_FourWayDHCross. kraw. Qed.

(** the regenerated pieces, per protocol *)
Definition k_raw (p : protocol) :=
  match p with PSelf => k_raw_SelfCross | P2 => k_raw_TwoWayCross | P2DH => k_raw_TwoWayDHCross | P3 => k_raw_ThreeWayCross
             | P3DH => k_raw_ThreeWayDHCross | P4 => k_raw_FourWayCross | P4DH => k_raw_FourWayDHCross end.
Definition k_meta (p : protocol) :=
  match p with PSelf => k_meta_SelfCross | P2 => k_meta_TwoWayCross | P2DH => k_meta_TwoWayDHCross | P3 => k_meta_ThreeWayCross
             | P3DH => k_meta_ThreeWayDHCross | P4 => k_meta_FourWayCross | P4DH => k_meta_FourWayDHCross end.
Definition k_nparent (p : protocol) :=
  match p with PSelf => k_nparent_SelfCross | P2 => k_nparent_TwoWayCross | P2DH => k_nparent_TwoWayDHCross | P3 => k_nparent_ThreeWayCross
             | P3DH => k_nparent_ThreeWayDHCross | P4 => k_nparent_FourWayCross | P4DH => k_nparent_FourWayDHCross end.
Definition k_prefix (p : protocol) :=
  match p with PSelf => k_prefix_SelfCross | P2 => k_prefix_TwoWayCross | P2DH => k_prefix_TwoWayDHCross | P3 => k_prefix_ThreeWayCross
             | P3DH => k_prefix_ThreeWayDHCross | P4 => k_prefix_FourWayCross | P4DH => k_prefix_FourWayDHCross end.
Definition k_width (p : protocol) :=
  match p with PSelf => k_width_SelfCross | P2 => k_width_TwoWayCross | P2DH => k_width_TwoWayDHCross | P3 => k_width_ThreeWayCross
             | P3DH => k_width_ThreeWayDHCross | P4 => k_width_FourWayCross | P4DH => k_width_FourWayDHCross end.

Lemma k_raw_model p geno xo xc nm np nself pc fc r : k_raw p geno xo xc nm np nself pc fc r = mate_raw p geno xo xc nm np nself pc fc r.
Proof.
  destruct p; cbn [k_raw];
    [apply k_raw_SelfCross_model | apply k_raw_TwoWayCross_model | apply k_raw_TwoWayDHCross_model | apply k_raw_ThreeWayCross_model
     | apply k_raw_ThreeWayDHCross_model | apply k_raw_FourWayCross_model | apply k_raw_FourWayDHCross_model].
Qed.
Lemma k_meta_model p m : k_meta p m = progeny_meta m.              Proof. destruct p; reflexivity. Qed.
Lemma k_meta_id p m : k_meta p m = m.                              Proof. rewrite k_meta_model. apply progeny_meta_id. Qed.
Lemma k_nparent_model p : k_nparent p = nparent p.                  Proof. destruct p; reflexivity. Qed.
Lemma k_prefix_model p : k_prefix p = prefix p /\ k_width p = 7%nat. Proof. destruct p; split; reflexivity. Qed.

(** mate() put together from the regenerated pieces (argument checks as in the hand model) *)
Definition mate_k (p : protocol) (geno : list (list (list Z))) (xoprob : list Q) (meta : vmeta) (xc : list (list nat))
  (nmating nprogeny : nat + list nat) (nself : nat) (pc fc : Z) (draws : list (list (list Q))) : option progeny :=
  if negb (forallb (fun r => Nat.eqb (length r) (k_nparent p)) xc) then None else
  match expand_count nmating (length xc), expand_count nprogeny (length xc) with
  | Some nm, Some np =>
      if negb (forallb (fun s => Nat.ltb s (ntaxa_of geno)) (founder_sels p xc nm np)) then None else
      let x := group_taxa (k_raw p geno xoprob xc nm np nself pc fc (rng0 draws)) in
      Some (mkProgeny (p_mat x) (p_taxa x) (p_grp x) (p_gname x) (p_gstix x) (p_gspix x) (p_glen x)
                      (k_meta p meta) (p_pc x) (p_fc x) (p_reqs x))
  | _, _ => None
  end.
Lemma mate_k_model p geno xoprob meta xc nmating nprogeny nself pc fc draws :
  mate_k p geno xoprob meta xc nmating nprogeny nself pc fc draws = mate p geno xoprob meta xc nmating nprogeny nself pc fc draws.
Proof.
  unfold mate_k, mate. rewrite k_nparent_model, k_meta_model.
  destruct (negb _); [reflexivity|]. destruct (expand_count nmating _); [|reflexivity]. destruct (expand_count nprogeny _); [|reflexivity].
  now rewrite k_raw_model.
Qed.

Lemma kernel_is_model :
  (forall u p, k_mat_xo u p = Qltb u p) /\ (forall u p, k_dense_xo u p = Qltb u p) /\
  (forall geno i s rnd xoprob, k_mat_gamete geno i s rnd xoprob = gamete_seg geno s rnd xoprob) /\
  (forall geno i s rnd xoprob, k_dense_gamete geno i s rnd xoprob = gamete_seg geno s rnd xoprob) /\
  (forall fg mg fs ms xo r, k_mat_mate fg mg fs ms xo r = mat_mate fg mg fs ms xo r) /\
  (forall fg mg fs ms xo r, k_dense_cross fg mg fs ms xo r = mat_mate fg mg fs ms xo r) /\
  (forall g s xo r, k_mat_dh g s xo r = mat_dh g s xo r) /\ (forall g s xo r, k_dense_dh g s xo r = mat_dh g s xo r) /\
  (forall p geno xo xc nm np nself pc fc r, k_raw p geno xo xc nm np nself pc fc r = mate_raw p geno xo xc nm np nself pc fc r) /\
  (forall p m, k_meta p m = progeny_meta m) /\ (forall p, k_nparent p = nparent p) /\ (forall p, k_prefix p = prefix p /\ k_width p = 7%nat) /\
  (forall p geno xoprob meta xc nmating nprogeny nself pc fc draws,
     mate_k p geno xoprob meta xc nmating nprogeny nself pc fc draws = mate p geno xoprob meta xc nmating nprogeny nself pc fc draws).
Proof.
  exact (conj k_mat_xo_model (conj k_dense_xo_model (conj k_mat_gamete_model (conj k_dense_gamete_model (conj k_mat_mate_model
        (conj k_dense_cross_model (conj k_mat_dh_model (conj k_dense_dh_model (conj k_raw_model (conj k_meta_model (conj k_nparent_model
        (conj k_prefix_model mate_k_model)))))))))))).
Qed.

(** the property theorems restated about mate() as regenerated *)
Lemma mate_k_mosaic p geno xoprob meta xc nmating nprogeny nself pc fc draws x :
  mate_k p geno xoprob meta xc nmating nprogeny nself pc fc draws = Some x -> nonneg_draws draws ->
  forall j, (j < length (p_taxa x))%nat ->
  exists i, (i < length xc)%nat /\ nth j (p_grp x) 0 = fc + Z.of_nat i /\
            realises geno xoprob (designated p (nth i xc []) nself) (indiv (p_mat x) j).
Proof. rewrite mate_k_model. apply mate_mosaic. Qed.
Lemma mate_k_dh p geno xoprob meta xc nmating nprogeny nself pc fc draws x :
  mate_k p geno xoprob meta xc nmating nprogeny nself pc fc draws = Some x -> is_dh p = true ->
  nth 0 (p_mat x) [] = nth 1 (p_mat x) [].
Proof. rewrite mate_k_model. apply mate_dh. Qed.
Lemma mate_k_meta p geno xoprob meta xc nmating nprogeny nself pc fc draws x :
  mate_k p geno xoprob meta xc nmating nprogeny nself pc fc draws = Some x -> p_meta x = meta.
Proof. rewrite mate_k_model. apply mate_meta. Qed.

(** * sessions: two consecutive mate() calls on one protocol object (the counters of the first call are those the second starts from;
    everything else — matrix, probabilities, cross table, counts, selfing depth, draws — may have been replaced in between) *)
Lemma session_counters p g1 xo1 m1 xc1 nm1 np1 ns1 pc fc d1 x1 g2 xo2 m2 xc2 nm2 np2 ns2 d2 x2 :
  mate p g1 xo1 m1 xc1 nm1 np1 ns1 pc fc d1 = Some x1 -> nonneg_draws d1 ->
  mate p g2 xo2 m2 xc2 nm2 np2 ns2 (p_pc x1) (p_fc x1) d2 = Some x2 -> nonneg_draws d2 ->
  p_pc x2 = pc + Z.of_nat (length (p_taxa x1)) + Z.of_nat (length (p_taxa x2)) /\
  p_fc x2 = fc + Z.of_nat (length xc1) + Z.of_nat (length xc2) /\
  (forall j1 j2, (j1 < length (p_taxa x1))%nat -> (j2 < length (p_taxa x2))%nat -> nth j1 (p_grp x1) 0 < nth j2 (p_grp x2) 0).
Proof.
  intros H1 D1 H2 D2.
  destruct (mate_counts _ _ _ _ _ _ _ _ _ _ _ _ H1) as (a1 & b1 & _ & _ & C1). cbv zeta in C1.
  destruct C1 as (_ & _ & L1 & _ & P1 & F1 & _).
  destruct (mate_counts _ _ _ _ _ _ _ _ _ _ _ _ H2) as (a2 & b2 & _ & _ & C2). cbv zeta in C2.
  destruct C2 as (_ & _ & L2 & _ & P2 & F2 & _).
  repeat split.
  - rewrite P2, P1, L1, L2. reflexivity.
  - rewrite F2, F1. reflexivity.
  - intros j1 j2 J1 J2.
    destruct (mate_mosaic _ _ _ _ _ _ _ _ _ _ _ _ H1 D1 j1 J1) as (i1 & I1 & E1 & _).
    destruct (mate_mosaic _ _ _ _ _ _ _ _ _ _ _ _ H2 D2 j2 J2) as (i2 & I2 & E2 & _).
    rewrite E1, E2, F1. lia.
Qed.
Lemma ex_session : exists x1 x2,
  mate P3DH ex_geno ex_xoprob meta_none [[2; 0; 1]%nat] (inl 2%nat) (inl 2%nat) 1%nat 5 3 ex_draws = Some x1 /\
  mate P3DH ex_geno ex_xoprob meta_none [[2; 0; 1]%nat] (inl 2%nat) (inl 2%nat) 1%nat (p_pc x1) (p_fc x1) ex_draws = Some x2 /\
  p_pc x2 = 13 /\ p_fc x2 = 5.
Proof.
  eexists. eexists. split; [vm_compute; reflexivity|]. split; [vm_compute; reflexivity|]. split; vm_compute; reflexivity.
Qed.
Lemma ex_kernel_runs : exists x, mate_k P3DH ex_geno ex_xoprob meta_none [[2; 0; 1]%nat] (inl 2%nat) (inl 2%nat) 1%nat 5 3 ex_draws = Some x /\
  length (p_taxa x) = 4%nat.
Proof. rewrite mate_k_model. destruct ex_runs as (x & H & L & _). exists x. split; assumption. Qed.
