(** C03 — the FORM of an index argument does not matter: a bare integer index of delete / remove (a Python int, a numpy
    integer scalar of any width, a 0-d integer array: all shipped as [OInt]) is the one-element index list (a list, tuple,
    range, list of numpy scalars, integer ndarray of any dtype: all shipped as [OList]); insert / incorp: Proofs/C03_LMat
    ([insert_scalar_as_list], [incorp_scalar_as_list]) and, for the source's test that decides which forms are wrapped into
    a list before numpy.insert (a 0-d array included since the repair of C03-zero-dim-index-insert-moveaxis),
    Proofs/C03_Kernel ([kernel_wraps], [kernel_insert_scalar], [old_zero_dim_insert_witness]). *)
From PV Require Import Lib.Common Model.C03_LMat Proofs.C03_LMat.
Local Open Scope Z_scope.

Lemma plan_delete_scalar n i : plan_delete n (OInt i) = plan_delete n (OList [i]).
Proof. unfold plan_delete, del_positions. cbn. destruct (norm n i); reflexivity. Qed.
Lemma np_delete_scalar {A} i (l : list A) : np_delete (OInt i) l = np_delete (OList [i]) l.
Proof. unfold np_delete. now rewrite plan_delete_scalar. Qed.

Lemma un_data_ext c s k (f g : nat -> option (list nat)) : (forall n, f n = g n) -> un_data c s k f = un_data c s k g.
Proof.
  intros H. unfold un_data. generalize (Some (data s, shape s)).
  induction (taxes c k) as [|a t IH]; intros acc; cbn [fold_left]; [reflexivity|].
  rewrite IH. f_equal. destruct acc as [[t0 sh]|]; [rewrite H|]; reflexivity.
Qed.
Lemma un_labs_ext s k (f g : larr -> option larr) : (forall l, f l = g l) -> un_labs s k f = un_labs s k g.
Proof. intros H. unfold un_labs. apply mapM_ext. intros [x|]; cbn; [now rewrite H|reflexivity]. Qed.

Theorem delete_scalar_as_list c s k i : op_delete c s k (OInt i) = op_delete c s k (OList [i]).
Proof.
  unfold op_delete.
  rewrite (un_data_ext c s k _ (fun n => plan_delete n (OList [i])) (fun n => plan_delete_scalar n i)).
  now rewrite (un_labs_ext s k _ (np_delete (OList [i])) (np_delete_scalar i)).
Qed.
Theorem remove_scalar_as_list c s k i : op_remove c s k (OInt i) = op_remove c s k (OList [i]).
Proof.
  unfold op_remove.
  rewrite (un_data_ext c s k _ (fun n => plan_delete n (OList [i])) (fun n => plan_delete_scalar n i)).
  now rewrite (un_labs_ext s k _ (np_delete (OList [i])) (np_delete_scalar i)).
Qed.

(** not vacuous: on the 2 x 3 witness matrix the last variant is deleted (both sides succeed, 2 variants remain) *)
Lemma delete_scalar_witness :
  exists s', op_delete cDenseTaxaVariantMatrix w1_s 1 (OInt (-1)) = OK s' /\ shape s' = [2; 2]%nat /\
             op_remove cDenseTaxaVariantMatrix w1_s 1 (OList [-1]) = OK s'.
Proof. eexists. split; [vm_compute; reflexivity|]. split; vm_compute; reflexivity. Qed.
