(** C03 — the FORM of an index argument does not matter: a bare integer index of delete / remove (a Python int, a numpy
    integer scalar of any width, a 0-d integer array: all shipped as [OInt]) is the one-element index list (a list, tuple,
    range, list of numpy scalars, integer ndarray of any dtype: all shipped as [OList]); insert / incorp: Proofs/C03_LMat
    ([insert_scalar_as_list], [incorp_scalar_as_list]).  A 0-d array index of insert reaches numpy.insert unwrapped
    (the source's guard is [isinstance(obj, (int, numpy.integer))]): that call is [old_op_insert] on [OInt]. *)
From PV Require Import Lib.Common Model.C03_LMat Proofs.C03_LMat.
Local Open Scope Z_scope.

Lemma plan_delete_scalar n i : plan_delete n (OInt i) = plan_delete n (OList [i]).
Proof. unfold plan_delete, del_positions. cbn. destruct (norm n i); reflexivity. Qed.
Lemma np_delete_scalar {A} i (l : list A) : np_delete (OInt i) l = np_delete (OList [i]) l.
Proof. unfold np_delete. now rewrite plan_delete_scalar. Qed.

Lemma un_data_ext c s k (f g : nat -> option (list nat)) : (forall n, f n = g n) -> un_data c s k f = un_data c s k g.
Proof.
  intros H. unfold un_data. generalize (Some (data s, shape s)).
  induction (taxes c k) as [|a t IH]; intros acc; cbn [fold_left]; [reflexivity|].
  rewrite IH. f_equal. destruct acc as [[t0 sh]|]; [rewrite H|]; reflexivity.
Qed.
Lemma un_labs_ext s k (f g : larr -> option larr) : (forall l, f l = g l) -> un_labs s k f = un_labs s k g.
Proof. intros H. unfold un_labs. apply mapM_ext. intros [x|]; cbn; [now rewrite H|reflexivity]. Qed.

Theorem delete_scalar_as_list c s k i : op_delete c s k (OInt i) = op_delete c s k (OList [i]).
Proof.
  unfold op_delete.
  rewrite (un_data_ext c s k _ (fun n => plan_delete n (OList [i])) (fun n => plan_delete_scalar n i)).
  now rewrite (un_labs_ext s k _ (np_delete (OList [i])) (np_delete_scalar i)).
Qed.
Theorem remove_scalar_as_list c s k i : op_remove c s k (OInt i) = op_remove c s k (OList [i]).
Proof.
  unfold op_remove.
  rewrite (un_data_ext c s k _ (fun n => plan_delete n (OList [i])) (fun n => plan_delete_scalar n i)).
  now rewrite (un_labs_ext s k _ (np_delete (OList [i])) (np_delete_scalar i)).
Qed.

(** not vacuous: on the 2 x 3 witness matrix the last variant is deleted (both sides succeed, 2 variants remain) *)
Lemma delete_scalar_witness :
  exists s', op_delete cDenseTaxaVariantMatrix w1_s 1 (OInt (-1)) = OK s' /\ shape s' = [2; 2]%nat /\
             op_remove cDenseTaxaVariantMatrix w1_s 1 (OList [-1]) = OK s'.
Proof. eexists. split; [vm_compute; reflexivity|]. split; vm_compute; reflexivity. Qed.

(** a 0-d array index passes the source's scalar guard unwrapped, so numpy.insert sees a scalar: the former scalar path
    [old_op_insert].  On an inner array axis the inserted block arrives transposed under the right labels. *)
Lemma zero_dim_insert_witness :
  exists s1 s2, op_insert cDenseTaxaVariantMatrix w1_s 1 (OList [1]) w1_v = OK s1 /\
                old_op_insert cDenseTaxaVariantMatrix w1_s 1 (OInt 1) w1_v = OK s2 /\
                shape s1 = shape s2 /\ axes s1 = axes s2 /\ data s1 <> data s2 /\
                data s1 = T2 [[0; 5; 6; 1; 2]; [10; 15; 16; 11; 12]] /\ data s2 = T2 [[0; 5; 15; 1; 2]; [10; 6; 16; 11; 12]].
Proof.
  eexists. eexists. split; [vm_compute; reflexivity|]. split; [vm_compute; reflexivity|].
  split; [reflexivity|]. split; [reflexivity|]. split; [|split; vm_compute; reflexivity].
  vm_compute. intros H. discriminate H.
Qed.
