(** C02 — from uniform draws to Bernoulli crossover indicators.
    A draw is uniform on the grid {k/N : 0 <= k < N} (numpy: N = 2^53).  [draw < p] holds exactly for the first [cntZ N p]
    grid points, so the indicator is Bernoulli with probability [bern N p] = ceil(p N)/N (clipped to [0,1]); the expectation of
    any function of the crossover row of the C01 model under independent grid draws is its expectation under independent
    Bernoulli indicators; different rows of the uniform matrix give independent gametes. *)
From Coq Require Import Lqa.
From PV Require Import Lib.Common Model.C01_Meiosis Model.C02_Dist Model.C02_Check Proofs.C02_Bern Proofs.C02_Rates.
Local Open Scope Q_scope.

(** ** counting grid points below p *)
Lemma cnt_spec (N : Z) (p : Q) (k : Z) : (0 < N)%Z -> (0 <= k < N)%Z ->
  (k * QDen p <? Qnum p * N)%Z = (k <? cntZ N p)%Z.
Proof.
  intros HN Hk. unfold cntZ.
  set (a := Qnum p). set (b := QDen p). assert (Hb : (0 < b)%Z) by (unfold b; lia).
  assert (D := Z.div_mod (- (a * N)) b ltac:(lia)). assert (M := Z.mod_pos_bound (- (a * N)) b Hb).
  set (q := (- (a * N) / b)%Z) in *. set (r := (- (a * N) mod b)%Z) in *.
  destruct (Z.ltb_spec (k * b) (a * N)) as [L|L]; destruct (Z.ltb_spec k (Z.max 0 (Z.min N (- q)))) as [L'|L']; try reflexivity; exfalso.
  - assert (k < - q)%Z by nia. lia.
  - assert (k < - q)%Z by lia. nia.
Qed.

Lemma cnt_range N p : (0 < N)%Z -> (0 <= cntZ N p <= N)%Z.
Proof. unfold cntZ. lia. Qed.

Lemma Qltb_grid (N : positive) (k : Z) p : Qltb (k # N) p = (k * QDen p <? Qnum p * Zpos N)%Z.
Proof. reflexivity. Qed.

(** a grid draw is below p exactly for the first cntZ grid points *)
Theorem draw_below (N : positive) p k : (0 <= k < Zpos N)%Z -> Qltb (k # N) p = (k <? cntZ (Zpos N) p)%Z.
Proof. intros H. rewrite Qltb_grid. apply cnt_spec; lia. Qed.

(** the effective crossover probability cntZ/N is p rounded up to the grid: error in [0, 1/N) *)
Theorem grid_error (N : positive) p : 0 <= p <= 1 ->
  p <= (cntZ (Zpos N) p # N) /\ (cntZ (Zpos N) p # N) < p + (1 # N).
Proof.
  intros [H0 H1]. unfold cntZ.
  destruct p as [a b]. unfold Qle, Qlt, Qplus in *. cbn [Qnum Qden] in *.
  assert (D := Z.div_mod (- (a * Zpos N)) (Zpos b) ltac:(lia)). assert (M := Z.mod_pos_bound (- (a * Zpos N)) (Zpos b) ltac:(lia)).
  set (q := (- (a * Zpos N) / Zpos b)%Z) in *. set (r := (- (a * Zpos N) mod Zpos b)%Z) in *.
  assert (Hq : (0 <= - q <= Zpos N)%Z) by nia.
  rewrite Z.min_r, Z.max_r by lia. split; nia.
Qed.

(** probabilities on the grid (1/2 in particular) are reproduced exactly *)
Theorem grid_exact (N : positive) k : (0 <= k <= Zpos N)%Z -> cntZ (Zpos N) (k # N) = k.
Proof.
  intros H. unfold cntZ. cbn [Qnum Qden].
  replace (- (k * Zpos N))%Z with ((- k) * Zpos N)%Z by ring. rewrite Z.div_mul by lia. lia.
Qed.

Theorem grid_exact_half (N : positive) : cntZ (Zpos (2 * N)) (1 # 2) = Zpos N.
Proof.
  unfold cntZ. cbn [Qnum Qden]. replace (- (1 * Zpos (2 * N)))%Z with ((- Zpos N) * 2)%Z by lia.
  rewrite Z.div_mul by lia. lia.
Qed.

(** numpy's 53-bit doubles *)
Theorem uniform53 p : 0 <= p <= 1 ->
  p <= (cntZ two53 p # 9007199254740992) /\ (cntZ two53 p # 9007199254740992) < p + (1 # 9007199254740992).
Proof. exact (grid_error 9007199254740992 p). Qed.

Theorem uniform53_half : cntZ two53 (1 # 2) = (2 ^ 52)%Z.
Proof. exact (grid_exact_half 4503599627370496). Qed.

Theorem uniform53_draw p k : (0 <= k < two53)%Z -> Qltb (k # 9007199254740992) p = (k <? cntZ two53 p)%Z.
Proof. exact (draw_below 9007199254740992 p k). Qed.

(** ** sums over the grid *)
Lemma sumN_ext N : forall g g', (forall k, (k < N)%nat -> g k == g' k) -> sumN N g == sumN N g'.
Proof.
  induction N as [|n IH]; intros g g' H; cbn [sumN]; [reflexivity|].
  rewrite (IH g g') by (intros k Hk; apply H; lia). rewrite (H n) by lia. reflexivity.
Qed.
Lemma sumN_scal N c g : sumN N (fun k => c * g k) == c * sumN N g.
Proof. induction N as [|n IH]; cbn [sumN]; [ring|]. rewrite IH. ring. Qed.
Lemma sumN_const N c : sumN N (fun _ => c) == inject_Z (Z.of_nat N) * c.
Proof.
  induction N as [|n IH]; cbn [sumN]; [cbn; ring|]. rewrite IH, Nat2Z.inj_succ. unfold Z.succ. rewrite inject_Z_plus. ring.
Qed.

Lemma sumN_ltb N : forall c g, (c <= N)%nat ->
  sumN N (fun k => g (k <? c)%nat) == inject_Z (Z.of_nat c) * g true + inject_Z (Z.of_nat (N - c)) * g false.
Proof.
  induction N as [|n IH]; intros c g H.
  - replace c with 0%nat by lia. cbn. ring.
  - cbn [sumN]. destruct (Nat.eq_dec c (S n)) as [->|Hne].
    + rewrite (sumN_ext n _ (fun k => g (k <? n)%nat)).
      * rewrite IH by lia. destruct (Nat.ltb_spec n (S n)); [|lia].
        replace (n - n)%nat with 0%nat by lia. replace (S n - S n)%nat with 0%nat by lia.
        rewrite Nat2Z.inj_succ. unfold Z.succ. rewrite inject_Z_plus. cbn. ring.
      * intros k Hk. destruct (Nat.ltb_spec k (S n)), (Nat.ltb_spec k n); try lia; reflexivity.
    + rewrite IH by lia. destruct (Nat.ltb_spec n c); [lia|].
      replace (S n - c)%nat with (S (n - c)) by lia. rewrite (Nat2Z.inj_succ (n - c)). unfold Z.succ. rewrite inject_Z_plus. ring.
Qed.

Lemma of_nat_pos N : (0 < N)%nat -> Z.of_nat N = Zpos (Pos.of_nat N).
Proof. intros H. rewrite <- (Nat2Pos.id N) at 1 by lia. apply positive_nat_Z. Qed.

Lemma inv_N N : (0 < N)%nat -> (1 # Pos.of_nat N) * inject_Z (Z.of_nat N) == 1.
Proof.
  intros H. unfold Qeq, Qmult, inject_Z. cbn [Qnum Qden]. rewrite (of_nat_pos N H). lia.
Qed.

(** ** expectation over grid draws *)
Lemma EU_ext N : forall n f g, (forall l, f l == g l) -> EU N n f == EU N n g.
Proof.
  induction n as [|n IH]; intros f g H; cbn [EU]; [apply H|].
  apply Qmult_comp; [reflexivity|]. apply sumN_ext. intros k _. apply IH. intros l. apply H.
Qed.
Lemma EU_scal N : forall n c f, EU N n (fun l => c * f l) == c * EU N n f.
Proof.
  induction n as [|n IH]; intros c f; cbn [EU]; [reflexivity|].
  rewrite (sumN_ext N _ (fun k => c * EU N n (fun l => f (grid N k :: l)))) by (intros k _; apply IH).
  rewrite sumN_scal. ring.
Qed.
Lemma EU_const N : (0 < N)%nat -> forall n c, EU N n (fun _ => c) == c.
Proof.
  intros HN. induction n as [|n IH]; intros c; cbn [EU]; [reflexivity|].
  rewrite (sumN_ext N _ (fun _ => c)) by (intros k _; apply IH). rewrite sumN_const, Qmult_assoc, inv_N by exact HN. ring.
Qed.

(** one coordinate: averaging over the grid is a Bernoulli(bern N p) mixture *)
Lemma grid_step N p (g : bool -> Q) : (0 < N)%nat ->
  (1 # Pos.of_nat N) * sumN N (fun k => g (Qltb (grid N k) p)) == bern N p * g true + (1 - bern N p) * g false.
Proof.
  intros HN. set (NZ := Z.of_nat N). assert (HZ : (0 < NZ)%Z) by (unfold NZ; lia).
  destruct (cnt_range NZ p HZ) as [C0 C1]. set (c := Z.to_nat (cntZ NZ p)).
  rewrite (sumN_ext N _ (fun k => g (k <? c)%nat)).
  - rewrite sumN_ltb by (unfold c, NZ in *; lia).
    assert (Ec : Z.of_nat c = cntZ NZ p) by (unfold c; lia).
    assert (Ed : Z.of_nat (N - c) = (NZ - cntZ NZ p)%Z) by (unfold c, NZ in *; lia).
    rewrite Ec, Ed. unfold bern. fold NZ.
    assert (B : (cntZ NZ p # Pos.of_nat N) == (1 # Pos.of_nat N) * inject_Z (cntZ NZ p)).
    { unfold Qeq, Qmult, inject_Z. cbn [Qnum Qden]. lia. }
    rewrite B. unfold Zminus. rewrite inject_Z_plus, inject_Z_opp.
    assert (I := inv_N N HN). fold NZ in I.
    set (w := 1 # Pos.of_nat N) in *. set (x := inject_Z (cntZ NZ p)). set (y := inject_Z NZ) in *.
    transitivity (w * x * g true + (w * y - w * x) * g false); [ring|]. rewrite I. ring.
  - intros k Hk. f_equal. unfold grid. rewrite Qltb_grid. rewrite <- (of_nat_pos N HN). fold NZ.
    rewrite cnt_spec by (unfold NZ; lia).
    destruct (Z.ltb_spec (Z.of_nat k) (cntZ NZ p)), (Nat.ltb_spec k c); unfold c in *; try reflexivity; lia.
Qed.

(** REFINEMENT: any function of the crossover row of the C01 model, under independent grid-uniform draws, has the
    expectation it has under independent Bernoulli(bern N xoprob_j) crossover indicators *)
Theorem EU_xo_row N : (0 < N)%nat -> forall xoprob f,
  EU N (length xoprob) (fun rnd => f (xo_row rnd xoprob)) == E (map (bern N) xoprob) f.
Proof.
  intros HN. induction xoprob as [|p ps IH]; intros f; cbn [length EU map E xo_row]; [reflexivity|].
  rewrite (sumN_ext N _ (fun k => (fun b => E (map (bern N) ps) (fun x => f (b :: x))) (Qltb (grid N k) p))).
  - rewrite (grid_step N p (fun b => E (map (bern N) ps) (fun x => f (b :: x))) HN). reflexivity.
  - intros k _. cbn [hd tl]. apply (IH (fun x => f (Qltb (grid N k) p :: x))).
Qed.

(** ** independence across gametes: rows of the uniform matrix *)
Lemma EUM_ext N p : forall n f g, (forall m, f m == g m) -> EUM N n p f == EUM N n p g.
Proof.
  induction n as [|n IH]; intros f g H; cbn [EUM]; [apply H|]. apply EU_ext. intros r. apply IH. intros m. apply H.
Qed.
Lemma EUM_scal N p : forall n c f, EUM N n p (fun m => c * f m) == c * EUM N n p f.
Proof.
  induction n as [|n IH]; intros c f; cbn [EUM]; [reflexivity|].
  rewrite (EU_ext N p _ (fun r => c * EUM N n p (fun m => f (r :: m)))) by (intros r; apply IH). apply EU_scal.
Qed.
Lemma EUM_const N p : (0 < N)%nat -> forall n c, EUM N n p (fun _ => c) == c.
Proof.
  intros HN. induction n as [|n IH]; intros c; cbn [EUM]; [reflexivity|].
  rewrite (EU_ext N p _ (fun _ => c)) by (intros r; apply IH). now apply EU_const.
Qed.
Lemma EUM_marginal N p : (0 < N)%nat -> forall n k g, (k < n)%nat ->
  EUM N n p (fun m => g (nth k m [])) == EU N p g.
Proof.
  intros HN. induction n as [|n IH]; intros k g H; [lia|]. cbn [EUM]. destruct k as [|k]; cbn [nth].
  - apply EU_ext. intros r. now apply EUM_const.
  - rewrite (EU_ext N p _ (fun _ => EU N p g)) by (intros r; apply IH; lia). now apply EU_const.
Qed.

Lemma EUM_product_lt N p : (0 < N)%nat -> forall n i k f g, (i < k)%nat -> (k < n)%nat ->
  EUM N n p (fun m => f (nth i m []) * g (nth k m [])) == EU N p f * EU N p g.
Proof.
  intros HN. induction n as [|n IH]; intros i k f g Hik Hk; [lia|]. cbn [EUM].
  destruct k as [|k]; [lia|]. destruct i as [|i]; cbn [nth].
  - rewrite (EU_ext N p _ (fun r => EU N p g * f r)).
    + rewrite EU_scal. ring.
    + intros r. rewrite EUM_scal, EUM_marginal by (exact HN || lia). ring.
  - rewrite (EU_ext N p _ (fun _ => EU N p f * EU N p g)) by (intros r; apply IH; lia). now apply EU_const.
Qed.

(** gametes i <> k of one mat_meiosis call are functions of different rows of the uniform matrix, hence independent:
    the expectation of a product of any two functions of the two rows factorises *)
Theorem gametes_independent N p n i k f g : (0 < N)%nat -> (i < n)%nat -> (k < n)%nat -> i <> k ->
  EUM N n p (fun m => f (nth i m []) * g (nth k m [])) == EU N p f * EU N p g.
Proof.
  intros HN Hi Hk Hne. destruct (Nat.lt_ge_cases i k) as [L|L].
  - now apply EUM_product_lt.
  - rewrite (EUM_ext N p n _ (fun m => g (nth k m []) * f (nth i m []))) by (intros m; ring).
    rewrite EUM_product_lt by (exact HN || lia). ring.
Qed.

(** ** the rates under uniform draws (composition of the refinement with Proofs/C02_Rates.v) *)
Theorem uniform_pair_rate N xoprob i j : (0 < N)%nat -> (i < j)%nat -> (j < length xoprob)%nat ->
  EU N (length xoprob) (fun rnd => ind (recomb i j (xo_row rnd xoprob)))
  == (1 - prod12 (between i j (map (bern N) xoprob))) / 2.
Proof.
  intros HN Hij H. rewrite (EU_xo_row N HN xoprob (fun xo => ind (recomb i j xo))).
  apply pair_rate; [exact Hij|now rewrite map_length].
Qed.

Theorem uniform_adjacent_rate N xoprob j : (0 < N)%nat -> (S j < length xoprob)%nat ->
  EU N (length xoprob) (fun rnd => ind (recomb j (S j) (xo_row rnd xoprob))) == bern N (nth (S j) xoprob 0).
Proof.
  intros HN H. rewrite (EU_xo_row N HN xoprob (fun xo => ind (recomb j (S j) xo))).
  fold (Pr (map (bern N) xoprob) (recomb j (S j))). rewrite adjacent_rate by (now rewrite map_length).
  rewrite (nth_indep _ 0 (bern N 0)) by (now rewrite map_length). now rewrite map_nth.
Qed.

Lemma bern_half N : (0 < N)%nat -> bern (2 * N) (1 # 2) == 1 # 2.
Proof.
  intros H. unfold bern. rewrite (of_nat_pos (2 * N)) by lia.
  replace (Pos.of_nat (2 * N)) with (2 * Pos.of_nat N)%positive by (rewrite Nat2Pos.inj_mul by lia; reflexivity).
  rewrite grid_exact_half. unfold Qeq. cbn [Qnum Qden]. lia.
Qed.

(** segregation under uniform draws on an even grid: a stored probability of exactly 1/2 at some marker k <= j gives 1/2 *)
Theorem uniform_segregation N xoprob k j : (0 < N)%nat -> (k <= j)%nat -> (j < length xoprob)%nat -> nth k xoprob 0 = 1 # 2 ->
  EU (2 * N) (length xoprob) (fun rnd => ind (src_at j (xo_row rnd xoprob))) == 1 # 2.
Proof.
  intros HN H1 H2 Hk. rewrite (EU_xo_row (2 * N) ltac:(lia) xoprob (fun xo => ind (src_at j xo))).
  apply (segregation (map (bern (2 * N)) xoprob) k j H1); [now rewrite map_length|].
  rewrite (nth_indep _ 0 (bern (2 * N) 0)) by (rewrite map_length; lia). rewrite map_nth, Hk. now apply bern_half.
Qed.
