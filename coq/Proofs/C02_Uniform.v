(** C02 — from uniform draws to Bernoulli crossover indicators.
    A draw is uniform on the grid {k/N : 0 <= k < N} (numpy: N = 2^53).  [draw < p] holds exactly for the first [cntZ N p]
    grid points, so the indicator is Bernoulli with probability [bern N p] = ceil(p N)/N (clipped to [0,1]); the expectation of
    any function of the crossover row of the C01 model under independent grid draws is its expectation under independent
    Bernoulli indicators; different rows of the uniform matrix give independent gametes. *)
From Coq Require Import Lqa.
From PV Require Import Lib.Common Model.C01_Meiosis Model.C02_Dist Model.C02_Check Proofs.C02_Bern Proofs.C02_Rates.
Local Open Scope Q_scope.

(** ** counting grid points below p *)
Lemma cnt_spec (N : Z) (p : Q) (k : Z) : (0 < N)%Z -> (0 <= k < N)%Z ->
  (k * QDen p <? Qnum p * N)%Z = (k <? cntZ N p)%Z.
Proof.
  intros HN Hk. unfold cntZ.
  set (a := Qnum p). set (b := QDen p). assert (Hb : (0 < b)%Z) by (unfold b; lia).
  assert (D := Z.div_mod (- (a * N)) b ltac:(lia)). assert (M := Z.mod_pos_bound (- (a * N)) b Hb).
  set (q := (- (a * N) / b)%Z) in *. set (r := (- (a * N) mod b)%Z) in *.
  destruct (Z.ltb_spec (k * b) (a * N)) as [L|L]; destruct (Z.ltb_spec k (Z.max 0 (Z.min N (- q)))) as [L'|L']; try reflexivity; exfalso.
  - assert (k < - q)%Z by nia. lia.
  - assert (k < - q)%Z by lia. nia.
Qed.

Lemma cnt_range N p : (0 < N)%Z -> (0 <= cntZ N p <= N)%Z.
Proof. unfold cntZ. lia. Qed.

Lemma Qltb_grid (N : positive) (k : Z) p : Qltb (k # N) p = (k * QDen p <? Qnum p * Zpos N)%Z.
Proof. reflexivity. Qed.

(** a grid draw is below p exactly for the first cntZ grid points *)
Theorem draw_below (N : positive) p k : (0 <= k < Zpos N)%Z -> Qltb (k # N) p = (k <? cntZ (Zpos N) p)%Z.
Proof. intros H. rewrite Qltb_grid. apply cnt_spec; lia. Qed.

(** the effective crossover probability cntZ/N is p rounded up to the grid: error in [0, 1/N) *)
Theorem grid_error (N : positive) p : 0 <= p <= 1 ->
  p <= (cntZ (Zpos N) p # N) /\ (cntZ (Zpos N) p # N) < p + (1 # N).
Proof.
  intros [H0 H1]. unfold cntZ.
  destruct p as [a b]. unfold Qle, Qlt, Qplus in *. cbn [Qnum Qden] in *.
  assert (D := Z.div_mod (- (a * Zpos N)) (Zpos b) ltac:(lia)). assert (M := Z.mod_pos_bound (- (a * Zpos N)) (Zpos b) ltac:(lia)).
  set (q := (- (a * Zpos N) / Zpos b)%Z) in *. set (r := (- (a * Zpos N) mod Zpos b)%Z) in *.
  assert (Hq : (0 <= - q <= Zpos N)%Z) by nia.
  rewrite Z.min_r, Z.max_r by lia. split; nia.
Qed.

(** probabilities on the grid (1/2 in particular) are reproduced exactly *)
Theorem grid_exact (N : positive) k : (0 <= k <= Zpos N)%Z -> cntZ (Zpos N) (k # N) = k.
Proof.
  intros H. unfold cntZ. cbn [Qnum Qden].
  replace (- (k * Zpos N))%Z with ((- k) * Zpos N)%Z by ring. rewrite Z.div_mul by lia. lia.
Qed.

Theorem grid_exact_half (N : positive) : cntZ (Zpos (2 * N)) (1 # 2) = Zpos N.
Proof.
  unfold cntZ. cbn [Qnum Qden]. replace (- (1 * Zpos (2 * N)))%Z with ((- Zpos N) * 2)%Z by lia.
  rewrite Z.div_mul by lia. lia.
Qed.

(** numpy's 53-bit doubles *)
Theorem uniform53 p : 0 <= p <= 1 ->
  p <= (cntZ two53 p # 9007199254740992) /\ (cntZ two53 p # 9007199254740992) < p + (1 # 9007199254740992).
Proof. exact (grid_error 9007199254740992 p). Qed.

Theorem uniform53_half : cntZ two53 (1 # 2) = (2 ^ 52)%Z.
Proof. exact (grid_exact_half 4503599627370496). Qed.

Theorem uniform53_draw p k : (0 <= k < two53)%Z -> Qltb (k # 9007199254740992) p = (k <? cntZ two53 p)%Z.
Proof. exact (draw_below 9007199254740992 p k). Qed.

(** ** sums over the grid *)
Lemma sumN_ext N : forall g g', (forall k, (k < N)%nat -> g k == g' k) -> sumN N g == sumN N g'.
Proof.
  induction N as [|n IH]; intros g g' H; cbn [sumN]; [reflexivity|].
  rewrite (IH g g') by (intros k Hk; apply H; lia). rewrite (H n) by lia. reflexivity.
Qed.
Lemma sumN_scal N c g : sumN N (fun k => c * g k) == c * sumN N g.
Proof. induction N as [|n IH]; cbn [sumN]; [ring|]. rewrite IH. ring. Qed.
Lemma sumN_const N c : sumN N (fun _ => c) == inject_Z (Z.of_nat N) * c.
Proof.
  induction N as [|n IH]; cbn [sumN]; [cbn; ring|]. rewrite IH, Nat2Z.inj_succ. unfold Z.succ. rewrite inject_Z_plus. ring.
Qed.

Lemma sumN_ltb N : forall c g, (c <= N)%nat ->
  sumN N (fun k => g (k <? c)%nat) == inject_Z (Z.of_nat c) * g true + inject_Z (Z.of_nat (N - c)) * g false.
Proof.
  induction N as [|n IH]; intros c g H.
  - replace c with 0%nat by lia. cbn. ring.
  - cbn [sumN]. destruct (Nat.eq_dec c (S n)) as [->|Hne].
    + rewrite (sumN_ext n _ (fun k => g (k <? n)%nat)).
      * rewrite IH by lia. destruct (Nat.ltb_spec n (S n)); [|lia].
        replace (n - n)%nat with 0%nat by lia. replace (S n - S n)%nat with 0%nat by lia.
        rewrite Nat2Z.inj_succ. unfold Z.succ. rewrite inject_Z_plus. cbn. ring.
      * intros k Hk. destruct (Nat.ltb_spec k (S n)), (Nat.ltb_spec k n); try lia; reflexivity.
    + rewrite IH by lia. destruct (Nat.ltb_spec n c); [lia|].
      replace (S n - c)%nat with (S (n - c)) by lia. rewrite (Nat2Z.inj_succ (n - c)). unfold Z.succ. rewrite inject_Z_plus. ring.
Qed.

Lemma of_nat_pos N : (0 < N)%nat -> Z.of_nat N = Zpos (Pos.of_nat N).
Proof. intros H. rewrite <- (Nat2Pos.id N) at 1 by lia. apply positive_nat_Z. Qed.

Lemma inv_N N : (0 < N)%nat -> (1 # Pos.of_nat N) * inject_Z (Z.of_nat N) == 1.
Proof.
  intros H. unfold Qeq, Qmult, inject_Z. cbn [Qnum Qden]. rewrite (of_nat_pos N H). lia.
Qed.
