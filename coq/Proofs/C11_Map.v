(** C11 — lemmas about the exact genetic-map model Model/C11_Map.v *)
From Coq Require Import Sorting.Sorted Sorting.Permutation Lia Lqa.
From PV Require Import Lib.Common Model.C11_Map.
Local Open Scope Z_scope.

(** * Part 1: the constructor's sort *)
Definition key_le (a b : row) : Prop := key_leb a b = true.

Lemma key_leb_spec a b : key_leb a b = true <->
  r_chr a < r_chr b \/ (r_chr a = r_chr b /\ (r_phy a < r_phy b \/ (r_phy a = r_phy b /\ (r_gen a <= r_gen b)%Q))).
Proof.
  unfold key_leb.
  destruct (Z.ltb_spec (r_chr a) (r_chr b)); [split; [intros _; now left | reflexivity]|].
  destruct (Z.ltb_spec (r_chr b) (r_chr a)); [split; [discriminate | intros [?|[? _]]; lia]|].
  destruct (Z.ltb_spec (r_phy a) (r_phy b)); [split; [intros _; right; split; [lia | now left] | reflexivity]|].
  destruct (Z.ltb_spec (r_phy b) (r_phy a)); [split; [discriminate | intros [?|[_ [?|[? _]]]]; lia]|].
  rewrite Qle_bool_iff. split; [intros Hq; right; split; [lia|right; split; [lia|exact Hq]] | intros [?|[_ [?|[_ Hq]]]]; [lia|lia|exact Hq]].
Qed.

Lemma key_le_total a b : key_le a b \/ key_le b a.
Proof.
  unfold key_le. rewrite !key_leb_spec.
  destruct (Z.lt_trichotomy (r_chr a) (r_chr b)) as [?|[?|?]]; [left; now left | | right; now left].
  destruct (Z.lt_trichotomy (r_phy a) (r_phy b)) as [?|[?|?]]; [left; right; split; [lia|now left] | | right; right; split; [lia|now left]].
  destruct (Qlt_le_dec (r_gen b) (r_gen a)) as [Hq|Hq].
  - right. right. split; [lia|]. right. split; [lia|]. now apply Qlt_le_weak.
  - left. right. split; [lia|]. right. split; [lia|exact Hq].
Qed.

Lemma key_le_trans a b c : key_le a b -> key_le b c -> key_le a c.
Proof.
  unfold key_le. rewrite !key_leb_spec.
  intros [?|[? [?|[? Q1]]]] [?|[? [?|[? Q2]]]]; try (left; lia); try (right; split; [lia|left; lia]).
  right. split; [lia|]. right. split; [lia|]. now apply Qle_trans with (r_gen b).
Qed.

Lemma key_le_refl a : key_le a a.
Proof. unfold key_le. rewrite key_leb_spec. right. split; [reflexivity|]. right. split; [reflexivity|apply Qle_refl]. Qed.

Lemma insert_row_perm x l : Permutation (insert_row x l) (x :: l).
Proof.
  induction l as [|y t IH]; cbn [insert_row]; [reflexivity|]. destruct (key_leb x y); [reflexivity|].
  rewrite IH. apply perm_swap.
Qed.

Lemma sort_rows_perm l : Permutation (sort_rows l) l.
Proof. induction l as [|x t IH]; cbn; [reflexivity|]. fold (sort_rows t). rewrite insert_row_perm. now constructor. Qed.

Lemma insert_row_sorted x l : Sorted key_le l -> Sorted key_le (insert_row x l).
Proof.
  induction 1 as [|y t Hs IH Hhd]; cbn [insert_row]; [repeat constructor|].
  destruct (key_leb x y) eqn:E.
  - constructor; [now constructor | constructor; exact E].
  - assert (Hyx : key_le y x) by (destruct (key_le_total x y) as [H|H]; [unfold key_le in H; congruence | exact H]).
    constructor; [exact IH|]. destruct t as [|z t']; cbn [insert_row]; [constructor; exact Hyx|].
    destruct (key_leb x z); constructor; [exact Hyx | now inversion Hhd].
Qed.

Lemma sort_rows_sorted l : Sorted key_le (sort_rows l).
Proof. induction l as [|x t IH]; cbn; [constructor|]. now apply insert_row_sorted. Qed.

Lemma sort_rows_strongly l : StronglySorted key_le (sort_rows l).
Proof. apply Sorted_StronglySorted; [exact key_le_trans | apply sort_rows_sorted]. Qed.

(** a sorted list is unique among the permutations of its elements, when the order is antisymmetric on them *)
Lemma sorted_perm_unique (l1 : list row) : forall l2,
  StronglySorted key_le l1 -> StronglySorted key_le l2 -> Permutation l1 l2 ->
  (forall a b, In a l1 -> In b l1 -> key_le a b -> key_le b a -> a = b) -> l1 = l2.
Proof.
  induction l1 as [|h1 t1 IH]; intros l2 S1 S2 P A.
  - apply Permutation_nil in P. now subst.
  - destruct l2 as [|h2 t2]; [symmetry in P; apply Permutation_nil in P; discriminate|].
    apply StronglySorted_inv in S1 as [S1 F1]. apply StronglySorted_inv in S2 as [S2 F2].
    rewrite Forall_forall in F1, F2.
    assert (E : h1 = h2).
    { assert (I2 : In h2 (h1 :: t1)) by (apply Permutation_in with (h2 :: t2); [now symmetry | now left]).
      assert (I1 : In h1 (h2 :: t2)) by (apply Permutation_in with (h1 :: t1); [exact P | now left]).
      destruct I2 as [->|I2]; [reflexivity|]. destruct I1 as [->|I1]; [reflexivity|].
      apply A; [now left | now right | now apply F1 | now apply F2]. }
    subst h2. f_equal. apply IH; [exact S1 | exact S2 | now apply Permutation_cons_inv with h1 |].
    intros a b Ha Hb. apply A; now right.
Qed.

Definition pos (r : row) : Z * Z := (r_chr r, r_phy r).
(** no two markers share chromosome and physical position (the property's quantifier) *)
Definition distinct_pos (l : list row) : Prop := NoDup (map pos l).

Lemma NoDup_map_inj {A B} (f : A -> B) (l : list A) : NoDup (map f l) -> forall a b, In a l -> In b l -> f a = f b -> a = b.
Proof.
  induction l as [|x t IH]; cbn [map]; intros ND a b Ha Hb E; [destruct Ha|]. inversion ND as [|? ? Hn ND']; subst.
  destruct Ha as [->|Ha], Hb as [->|Hb]; [reflexivity | | | now apply IH].
  - exfalso. apply Hn. rewrite E. now apply in_map.
  - exfalso. apply Hn. rewrite <- E. now apply in_map.
Qed.

Lemma key_antisym_pos a b : key_le a b -> key_le b a -> pos a = pos b.
Proof.
  unfold key_le, pos. rewrite !key_leb_spec. intros [?|[? [?|[? _]]]] [?|[? [?|[? _]]]]; try lia. f_equal; lia.
Qed.

Lemma row_order_independent l l' : distinct_pos l -> Permutation l l' -> sort_rows l = sort_rows l'.
Proof.
  intros ND P. apply sorted_perm_unique; [apply sort_rows_strongly | apply sort_rows_strongly | |].
  - rewrite sort_rows_perm, P. symmetry. apply sort_rows_perm.
  - intros a b Ha Hb L1 L2. apply (NoDup_map_inj pos l ND).
    + apply Permutation_in with (sort_rows l); [apply sort_rows_perm | exact Ha].
    + apply Permutation_in with (sort_rows l); [apply sort_rows_perm | exact Hb].
    + now apply key_antisym_pos.
Qed.

(** * Part 2: genetic distances *)
Definition ext_equiv (a b : ext) : Prop := ext_eqb a b = true.
(** a genetic position as numpy stores it: finite or NaN, never infinite *)
Definition is_position (g : ext) : Prop := g <> PInf.

Lemma Qabs'_sym x y : (Qabs' (x - y) == Qabs' (y - x))%Q.
Proof.
  unfold Qabs'. destruct (Qle_bool 0 (x - y)) eqn:E1, (Qle_bool 0 (y - x)) eqn:E2;
    try (apply Qle_bool_iff in E1); try (apply Qle_bool_iff in E2);
    try (assert (~ (0 <= x - y)%Q) by (rewrite <- Qle_bool_iff; congruence));
    try (assert (~ (0 <= y - x)%Q) by (rewrite <- Qle_bool_iff; congruence)); lra.
Qed.
Lemma Qabs'_0 x : (Qabs' (x - x) == 0)%Q.
Proof. unfold Qabs'. destruct (Qle_bool 0 (x - x)); lra. Qed.
Lemma Qabs'_le x y : (x <= y)%Q -> (Qabs' (x - y) == y - x)%Q.
Proof.
  intros H. unfold Qabs'. destruct (Qle_bool 0 (x - y)) eqn:E; [apply Qle_bool_iff in E; lra | lra].
Qed.
Lemma Qabs'_nonneg x : (0 <= Qabs' x)%Q.
Proof.
  unfold Qabs'. destruct (Qle_bool 0 x) eqn:E; [now apply Qle_bool_iff in E|].
  assert (~ (0 <= x)%Q) by (rewrite <- Qle_bool_iff; congruence). lra.
Qed.

Lemma gdist2_sym ci gi cj gj : is_position gi -> is_position gj -> ext_equiv (gdist2 ci gi cj gj) (gdist2 cj gj ci gi).
Proof.
  unfold gdist2, ext_equiv, is_position. intros Hi Hj. rewrite (Z.eqb_sym cj ci). destruct (ci =? cj); [|reflexivity].
  destruct gi as [x| |], gj as [y| |]; cbn; try reflexivity; try congruence. apply Qeq_bool_iff, Qabs'_sym.
Qed.

Lemma gdist2_diag c g : ext_equiv (gdist2 c (Fin g) c (Fin g)) (Fin 0).
Proof. unfold gdist2, ext_equiv. rewrite Z.eqb_refl. cbn. apply Qeq_bool_iff, Qabs'_0. Qed.

Lemma gdist2_across ci gi cj gj : ci <> cj -> gdist2 ci gi cj gj = PInf.
Proof. intros H. unfold gdist2. destruct (Z.eqb_spec ci cj); [contradiction|reflexivity]. Qed.

Lemma gdist2_nonneg ci gi cj gj d : gdist2 ci gi cj gj = Fin d -> (0 <= d)%Q.
Proof.
  unfold gdist2. destruct (ci =? cj); [|discriminate]. destruct gi, gj; cbn; try discriminate. intros [= <-]. apply Qabs'_nonneg.
Qed.

(** additivity along a chromosome for ordered markers *)
Lemma gdist2_additive c gi gj gk : (gi <= gj)%Q -> (gj <= gk)%Q ->
  exists dij djk dik, gdist2 c (Fin gi) c (Fin gj) = Fin dij /\ gdist2 c (Fin gj) c (Fin gk) = Fin djk /\
                      gdist2 c (Fin gi) c (Fin gk) = Fin dik /\ (dik == dij + djk)%Q.
Proof.
  intros H1 H2. unfold gdist2. rewrite Z.eqb_refl. cbn. do 3 eexists. repeat split.
  rewrite !Qabs'_le by lra. lra.
Qed.

Lemma pyslice_all {A} (l : list A) : pyslice None None l = l.
Proof. unfold pyslice. cbn [norm_ix]. rewrite Z.sub_0_r, Nat2Z.id. cbn [Z.to_nat skipn]. apply firstn_all. Qed.

Lemma gdist2g_entry chrs gens i j : length chrs = length gens -> (i < length chrs)%nat -> (j < length chrs)%nat ->
  nth j (nth i (gdist2g chrs gens None None None None) []) NaN
  = gdist2 (nth i chrs 0) (nth i gens NaN) (nth j chrs 0) (nth j gens NaN).
Proof.
  intros L Hi Hj. unfold gdist2g. rewrite !pyslice_all.
  set (cg := combine chrs gens). assert (Lc : length cg = length chrs) by (unfold cg; rewrite combine_length; lia).
  set (f := fun r : Z * ext => map (fun c : Z * ext => gdist2 (fst r) (snd r) (fst c) (snd c)) cg).
  rewrite (nth_indep _ [] (f (0, NaN))) by (rewrite map_length; lia). rewrite (map_nth f). unfold f.
  set (g := fun c : Z * ext => gdist2 (fst (nth i cg (0, NaN))) (snd (nth i cg (0, NaN))) (fst c) (snd c)).
  rewrite (nth_indep _ NaN (g (0, NaN))) by (rewrite map_length; lia). rewrite (map_nth g). unfold g, cg.
  rewrite !combine_nth by exact L. reflexivity.
Qed.

(** sequential distances: entry j of gdist1g_from *)
Lemma gdist1g_from_length prev chrs gens : length chrs = length gens -> length (gdist1g_from prev chrs gens) = length chrs.
Proof. revert prev gens. induction chrs as [|c ct IH]; intros prev [|g gt] L; cbn in *; try discriminate; [reflexivity|]. f_equal. apply IH. lia. Qed.

Lemma gdist1g_from_head prev c ct g gt :
  nth 0 (gdist1g_from prev (c :: ct) (g :: gt)) NaN =
  match prev with Some (pc, pg) => if pc =? c then ext_sub g pg else PInf | None => PInf end.
Proof. reflexivity. Qed.

Lemma gdist1g_from_succ prev chrs gens j : length chrs = length gens -> (S j < length chrs)%nat ->
  nth (S j) (gdist1g_from prev chrs gens) NaN =
  if nth j chrs 0 =? nth (S j) chrs 0 then ext_sub (nth (S j) gens NaN) (nth j gens NaN) else PInf.
Proof.
  revert prev gens j. induction chrs as [|c ct IH]; intros prev [|g gt] j L Hj; cbn [length] in *; try lia; try discriminate.
  cbn [gdist1g_from nth]. destruct j as [|j].
  - destruct ct as [|c2 ct2], gt as [|g2 gt2]; cbn [length] in *; try lia; try discriminate. reflexivity.
  - rewrite IH by lia. reflexivity.
Qed.

(** full-array gdist1g: +inf at index 0 and at every change of chromosome, first difference elsewhere *)
Lemma gdist1g_start chrs gens : length chrs = length gens -> (0 < length chrs)%nat ->
  nth 0 (gdist1g chrs gens None None) NaN = PInf.
Proof. intros L H. unfold gdist1g. rewrite !pyslice_all. destruct chrs, gens; cbn in *; try lia; try discriminate. reflexivity. Qed.

Lemma gdist1g_entry chrs gens j : length chrs = length gens -> (S j < length chrs)%nat ->
  nth (S j) (gdist1g chrs gens None None) NaN =
  if nth j chrs 0 =? nth (S j) chrs 0 then ext_sub (nth (S j) gens NaN) (nth j gens NaN) else PInf.
Proof. intros L H. unfold gdist1g. rewrite !pyslice_all. now apply gdist1g_from_succ. Qed.

(** sequential distance = pairwise distance between a marker and its predecessor (ordered markers on one chromosome);
    both are +inf across a chromosome boundary *)
Lemma gdist1g_agrees_gdist2g chrs gens j : length chrs = length gens -> (S j < length chrs)%nat ->
  (forall gp gc, nth j gens NaN = Fin gp -> nth (S j) gens NaN = Fin gc -> nth j chrs 0 = nth (S j) chrs 0 -> (gp <= gc)%Q) ->
  is_position (nth j gens NaN) -> is_position (nth (S j) gens NaN) ->
  ext_equiv (nth (S j) (gdist1g chrs gens None None) NaN) (nth (S j) (nth j (gdist2g chrs gens None None None None) []) NaN).
Proof.
  intros L H Ord P1 P2. rewrite gdist1g_entry, gdist2g_entry by lia. unfold gdist2, ext_equiv.
  destruct (Z.eqb_spec (nth j chrs 0) (nth (S j) chrs 0)) as [E|NE]; [|reflexivity].
  unfold is_position in *. destruct (nth j gens NaN) as [gp| |] eqn:Ej, (nth (S j) gens NaN) as [gc| |] eqn:Ec; cbn; try reflexivity; try congruence.
  apply Qeq_bool_iff. specialize (Ord gp gc eq_refl eq_refl E). symmetry. now apply Qabs'_le.
Qed.

(** * Part 3: interpolation (interp1d._call_linear) *)
Definition incr (xs : list Z) : Prop := StronglySorted Z.lt xs.

Lemma incr_nth xs : incr xs -> forall i j, (i < j < length xs)%nat -> nth i xs 0 < nth j xs 0.
Proof.
  induction 1 as [|a t Ht IH Ha]; intros i j Hij; cbn [length] in *; [lia|].
  destruct j as [|j]; [lia|]. destruct i as [|i]; cbn [nth].
  - rewrite Forall_forall in Ha. apply Ha, nth_In. lia.
  - apply IH. lia.
Qed.

Lemma filter_lt_nil x t : Forall (fun xi => x <= xi) t -> filter (fun xi => xi <? x) t = [].
Proof. induction 1 as [|a t Ha _ IH]; cbn [filter]; [reflexivity|]. destruct (Z.ltb_spec a x); [lia|exact IH]. Qed.

Lemma searchsorted_spec xs x : incr xs ->
  (forall i, (i < searchsorted xs x)%nat -> nth i xs 0 < x) /\
  (forall i, (searchsorted xs x <= i < length xs)%nat -> x <= nth i xs 0) /\
  (searchsorted xs x <= length xs)%nat.
Proof.
  unfold searchsorted. induction 1 as [|a t Ht IH Ha]; cbn [filter length]; [repeat split; intros; lia|].
  destruct (Z.ltb_spec a x) as [L|G]; cbn [length].
  - destruct IH as (I1 & I2 & I3). repeat split; [| |lia].
    + intros [|i] Hi; cbn [nth]; [exact L | apply I1; lia].
    + intros [|i] Hi; cbn [nth]; [lia | apply I2; lia].
  - rewrite filter_lt_nil by (eapply Forall_impl; [|exact Ha]; cbv beta; intros; lia). cbn [length].
    repeat split; [intros; lia | | lia].
    intros [|i] Hi; cbn [nth]; [exact G|]. rewrite Forall_forall in Ha. assert (a < nth i t 0) by (apply Ha, nth_In; lia). lia.
Qed.

(** barycentric form, as evaluated by scipy *)
Definition bary (x xl : Z) (yl : Q) (xh : Z) (yh : Q) : Q :=
  ((inject_Z (x - xl) / inject_Z (xh - xl)) * yh + (inject_Z (xh - x) / inject_Z (xh - xl)) * yl)%Q.
(** the chord through (xl, yl), (xh, yh) *)
Definition chord (x xl : Z) (yl : Q) (xh : Z) (yh : Q) : Q :=
  (yl + (yh - yl) * (inject_Z (x - xl) / inject_Z (xh - xl)))%Q.

Lemma inject_Z_nonzero z : z <> 0 -> ~ (inject_Z z == 0)%Q.
Proof. intros H E. unfold Qeq, inject_Z in E. cbn in E. lia. Qed.

Lemma bary_chord x xl yl xh yh : xl <> xh -> (bary x xl yl xh yh == chord x xl yl xh yh)%Q.
Proof.
  intros H. unfold bary, chord. replace (xh - x) with ((xh - xl) + - (x - xl)) by lia.
  rewrite inject_Z_plus, inject_Z_opp. field. apply inject_Z_nonzero. lia.
Qed.

Lemma frac_le_1 x xl xh : xl < xh -> x <= xh -> (inject_Z (x - xl) / inject_Z (xh - xl) <= 1)%Q.
Proof.
  intros H1 H2. apply Qle_shift_div_r; [replace 0%Q with (inject_Z 0) by reflexivity; rewrite <- Zlt_Qlt; lia|].
  rewrite Qmult_1_l, <- Zle_Qle. lia.
Qed.
Lemma frac_ge_0 x xl xh : xl < xh -> xl <= x -> (0 <= inject_Z (x - xl) / inject_Z (xh - xl))%Q.
Proof.
  intros H1 H2. apply Qle_shift_div_l; [replace 0%Q with (inject_Z 0) by reflexivity; rewrite <- Zlt_Qlt; lia|].
  rewrite Qmult_0_l. replace 0%Q with (inject_Z 0) by reflexivity. rewrite <- Zle_Qle. lia.
Qed.
Lemma frac_mono x x' xl xh : xl < xh -> x <= x' ->
  (inject_Z (x - xl) / inject_Z (xh - xl) <= inject_Z (x' - xl) / inject_Z (xh - xl))%Q.
Proof.
  intros H1 H2. unfold Qdiv. apply Qmult_le_compat_r; [rewrite <- Zle_Qle; lia|].
  apply Qlt_le_weak, Qinv_lt_0_compat. replace 0%Q with (inject_Z 0) by reflexivity. rewrite <- Zlt_Qlt. lia.
Qed.

Lemma chord_mono x x' xl yl xh yh : xl < xh -> (yl <= yh)%Q -> x <= x' -> (chord x xl yl xh yh <= chord x' xl yl xh yh)%Q.
Proof. intros H1 H2 H3. unfold chord. pose proof (frac_mono x x' xl xh H1 H3). nra. Qed.
Lemma chord_le_hi x xl yl xh yh : xl < xh -> (yl <= yh)%Q -> x <= xh -> (chord x xl yl xh yh <= yh)%Q.
Proof. intros H1 H2 H3. unfold chord. pose proof (frac_le_1 x xl xh H1 H3). nra. Qed.
Lemma chord_ge_lo x xl yl xh yh : xl < xh -> (yl <= yh)%Q -> xl <= x -> (yl <= chord x xl yl xh yh)%Q.
Proof. intros H1 H2 H3. unfold chord. pose proof (frac_ge_0 x xl xh H1 H3). nra. Qed.

Section Interp.
  Variable pts : list (Z * Q).
  Hypothesis Hn : (2 <= length pts)%nat.
  Hypothesis Hx : incr (map fst pts).
  Notation n := (length pts).
  Notation X i := (fst (nth i pts (0, 0%Q))).
  Notation Y i := (snd (nth i pts (0, 0%Q))).

  Definition seg (x : Z) : nat := clipn 1 (n - 1) (searchsorted (map fst pts) x).

  Lemma X_nth i : nth i (map fst pts) 0 = X i.
  Proof. exact (map_nth fst pts (0, 0%Q) i). Qed.

  Lemma X_incr i j : (i < j < n)%nat -> X i < X j.
  Proof. intros H. rewrite <- !X_nth. apply incr_nth; [exact Hx | now rewrite map_length]. Qed.

  Lemma interp1_seg x : interp1 pts x = bary x (X (seg x - 1)) (Y (seg x - 1)) (X (seg x)) (Y (seg x)).
  Proof. unfold interp1, bary. fold (seg x). destruct (nth (seg x - 1) pts (0, 0%Q)), (nth (seg x) pts (0, 0%Q)). reflexivity. Qed.

  Lemma ss_props x : let k := searchsorted (map fst pts) x in
    (forall i, (i < k)%nat -> X i < x) /\ (forall i, (k <= i < n)%nat -> x <= X i) /\ (k <= n)%nat.
  Proof.
    cbv zeta. destruct (searchsorted_spec (map fst pts) x Hx) as (A & B & C). rewrite map_length in *.
    repeat split; [intros i Hi; rewrite <- X_nth; now apply A | intros i Hi; rewrite <- X_nth; now apply B | exact C].
  Qed.

  Lemma seg_props x : (1 <= seg x <= n - 1)%nat /\ ((seg x < n - 1)%nat -> x <= X (seg x)) /\ ((1 < seg x)%nat -> X (seg x - 1) < x).
  Proof.
    destruct (ss_props x) as (A & B & C). unfold seg, clipn. set (k := searchsorted (map fst pts) x) in *.
    split; [lia|]. split; intros H; [apply B | apply A]; lia.
  Qed.

  Lemma seg_mono x x' : x <= x' -> (seg x <= seg x')%nat.
  Proof.
    intros H. destruct (ss_props x) as (A & B & C). destruct (ss_props x') as (A' & B' & C'). unfold seg, clipn.
    set (k := searchsorted (map fst pts) x) in *. set (k' := searchsorted (map fst pts) x') in *.
    assert (k <= k')%nat; [|lia]. destruct (Nat.le_gt_cases k k') as [L|G]; [exact L|].
    specialize (A k' G). specialize (B' k' ltac:(lia)). lia.
  Qed.

  Lemma seg_distinct x : X (seg x - 1) <> X (seg x).
  Proof. destruct (seg_props x) as (A & _). assert (X (seg x - 1) < X (seg x)) by (apply X_incr; lia). lia. Qed.

  (** the value is the chord of the selected segment *)
  Lemma interp1_chord x : (interp1 pts x == chord x (X (seg x - 1)) (Y (seg x - 1)) (X (seg x)) (Y (seg x)))%Q.
  Proof. rewrite interp1_seg. apply bary_chord, seg_distinct. Qed.

  Lemma seg_at_knot i : (i < n)%nat -> seg (X i) = Nat.max i 1.
  Proof.
    intros Hi. destruct (ss_props (X i)) as (A & B & C). unfold seg, clipn. set (k := searchsorted (map fst pts) (X i)) in *.
    assert (k = i); [|lia].
    destruct (Nat.lt_trichotomy k i) as [L|[E|G]]; [|exact E|].
    - specialize (B k ltac:(lia)). assert (X k < X i) by (apply X_incr; lia). lia.
    - specialize (A i G). lia.
  Qed.

  (** interpolating at a knot returns the stored genetic position *)
  Lemma interp1_at_knot i : (i < n)%nat -> (interp1 pts (X i) == Y i)%Q.
  Proof.
    intros Hi. rewrite interp1_seg, (seg_at_knot i Hi). unfold bary. destruct i as [|i].
    - cbn [Nat.max Nat.sub]. assert (X 0 < X 1) by (apply X_incr; lia).
      rewrite Z.sub_diag. change (inject_Z 0) with 0%Q. field. apply inject_Z_nonzero. lia.
    - replace (Nat.max (S i) 1) with (S i) by lia. replace (S i - 1)%nat with i by lia.
      assert (X i < X (S i)) by (apply X_incr; lia).
      rewrite Z.sub_diag. change (inject_Z 0) with 0%Q. field. apply inject_Z_nonzero. lia.
  Qed.

  (** between two flanking knots the value lies on their chord *)
  Lemma interp1_between i x : (S i < n)%nat -> X i <= x <= X (S i) ->
    (interp1 pts x == chord x (X i) (Y i) (X (S i)) (Y (S i)))%Q.
  Proof.
    intros Hi [H1 H2]. assert (HXi : X i < X (S i)) by (apply X_incr; lia).
    destruct (Z.eq_dec x (X i)) as [->|NE].
    - rewrite interp1_at_knot by lia. unfold chord. rewrite Z.sub_diag. change (inject_Z 0) with 0%Q. field. apply inject_Z_nonzero. lia.
    - assert (Sg : seg x = S i).
      { destruct (ss_props x) as (A & B & C). unfold seg, clipn. set (k := searchsorted (map fst pts) x) in *.
        assert (k = S i); [|lia]. destruct (Nat.lt_trichotomy k (S i)) as [L|[E|G]]; [|exact E|].
        - assert (x <= X i); [|lia]. destruct (Nat.eq_dec k i) as [->|Nk]; [apply B; lia|].
          specialize (B k ltac:(lia)). assert (X k < X i) by (apply X_incr; lia). lia.
        - specialize (A (S i) G). lia. }
      rewrite interp1_chord, Sg. replace (S i - 1)%nat with i by lia. reflexivity.
  Qed.

  (** extrapolation continues the first / last chord *)
  Lemma interp1_left x : x <= X 0 -> (interp1 pts x == chord x (X 0) (Y 0) (X 1) (Y 1))%Q.
  Proof.
    intros H. assert (Sg : seg x = 1%nat).
    { destruct (ss_props x) as (A & B & C). unfold seg, clipn. set (k := searchsorted (map fst pts) x) in *.
      assert (k = 0%nat); [|lia]. destruct k as [|k]; [reflexivity|]. specialize (A 0%nat ltac:(lia)). lia. }
    rewrite interp1_chord, Sg. reflexivity.
  Qed.
  Lemma interp1_right x : X (n - 1) <= x -> (interp1 pts x == chord x (X (n - 2)) (Y (n - 2)) (X (n - 1)) (Y (n - 1)))%Q.
  Proof.
    intros H. destruct (Z.eq_dec x (X (n - 1))) as [->|NE].
    - rewrite interp1_at_knot by lia. assert (X (n - 2) < X (n - 1)) by (apply X_incr; lia).
      unfold chord. field. apply inject_Z_nonzero. lia.
    - assert (Sg : seg x = (n - 1)%nat).
      { destruct (ss_props x) as (A & B & C). unfold seg, clipn. set (k := searchsorted (map fst pts) x) in *.
        assert (k = n); [|lia]. destruct (Nat.eq_dec k n) as [E|Nk]; [exact E|]. specialize (B (n - 1)%nat ltac:(lia)). lia. }
      rewrite interp1_chord, Sg. replace (n - 1 - 1)%nat with (n - 2)%nat by lia. reflexivity.
  Qed.

  (** order preservation for congruent knots *)
  Hypothesis Hy : forall i j, (i <= j < n)%nat -> (Y i <= Y j)%Q.

  Lemma interp1_monotone x x' : x <= x' -> (interp1 pts x <= interp1 pts x')%Q.
  Proof.
    intros H. rewrite (interp1_chord x), (interp1_chord x').
    destruct (seg_props x) as (R & U & _). destruct (seg_props x') as (R' & _ & D').
    pose proof (seg_mono x x' H) as M.
    assert (I : X (seg x - 1) < X (seg x)) by (apply X_incr; lia).
    assert (I' : X (seg x' - 1) < X (seg x')) by (apply X_incr; lia).
    destruct (Nat.eq_dec (seg x) (seg x')) as [E|NE].
    - rewrite <- E. apply chord_mono; [exact I | apply Hy; lia | exact H].
    - apply Qle_trans with (Y (seg x)); [apply chord_le_hi; [exact I | apply Hy; lia | apply U; lia]|].
      apply Qle_trans with (Y (seg x' - 1)); [apply Hy; lia|].
      apply chord_ge_lo; [exact I' | apply Hy; lia | apply Z.lt_le_incl, D'; lia].
  Qed.
End Interp.

(** * Part 4: whole maps *)
(** a well-formed map: the rows as the constructor leaves them (sorted), no duplicated position, at least two markers
    on every chromosome *)
Definition two_markers (rows : list row) : Prop := forall c, has_chr rows c = true -> (2 <= length (knots rows c))%nat.
Definition wf_map (rows : list row) : Prop := StronglySorted key_le rows /\ distinct_pos rows /\ two_markers rows.

Lemma interp_off_map rows c x : has_chr rows c = false -> interp_pos rows (c, x) = NaN.
Proof. intros H. unfold interp_pos. now rewrite H. Qed.
Lemma interp_on_map rows c x : has_chr rows c = true -> interp_pos rows (c, x) = Fin (interp1 (spline_knots rows c) x).
Proof. intros H. unfold interp_pos. now rewrite H. Qed.

Lemma has_chr_in rows r : In r rows -> has_chr rows (r_chr r) = true.
Proof. intros H. unfold has_chr. apply existsb_exists. exists r. split; [exact H | apply Z.eqb_refl]. Qed.

Lemma knots_incr rows c : StronglySorted key_le rows -> distinct_pos rows -> incr (map fst (knots rows c)).
Proof.
  unfold distinct_pos, knots, incr. induction 1 as [|a t Ht IH Ha]; intros ND; cbn [filter map]; [constructor|].
  cbn [map] in ND. inversion ND as [|? ? Hn ND']; subst. destruct (Z.eqb_spec (r_chr a) c) as [E|NE]; [|now apply IH].
  cbn [map fst]. constructor; [now apply IH|]. rewrite Forall_forall. intros x Hx.
  rewrite map_map in Hx. apply in_map_iff in Hx as (b & <- & Hb). apply filter_In in Hb as [Hb Hc]. apply Z.eqb_eq in Hc.
  cbn [fst]. rewrite Forall_forall in Ha. specialize (Ha b Hb). unfold key_le in Ha. apply key_leb_spec in Ha.
  assert (r_phy a <> r_phy b).
  { intros Ep. apply Hn. replace (pos a) with (pos b) by (unfold pos; f_equal; lia). now apply in_map. }
  destruct Ha as [?|[? [?|[? _]]]]; lia.
Qed.

(** interp1d's internal sort: the identity on knots that are already increasing ... *)
Lemma insert_knot_head p l : Forall (fun q => fst p < fst q) l -> insert_knot p l = p :: l.
Proof. intros H. destruct l as [|q t]; [reflexivity|]. cbn [insert_knot]. apply Forall_inv in H. destruct (Z.leb_spec (fst p) (fst q)); [reflexivity|lia]. Qed.

Lemma sort_knots_id l : incr (map fst l) -> sort_knots l = l.
Proof.
  unfold incr. induction l as [|p t IH]; cbn [map]; intros S; [reflexivity|]. apply StronglySorted_inv in S as [St Fa].
  cbn [sort_knots fold_right]. fold (sort_knots t). rewrite IH by exact St. apply insert_knot_head.
  rewrite Forall_forall in *. intros q Hq. apply Fa. now apply in_map.
Qed.

Lemma spline_knots_sorted rows c : StronglySorted key_le rows -> distinct_pos rows -> spline_knots rows c = knots rows c.
Proof. intros S ND. apply sort_knots_id. now apply knots_incr. Qed.

Lemma interp_on_wf_map rows c x : StronglySorted key_le rows -> distinct_pos rows -> has_chr rows c = true ->
  interp_pos rows (c, x) = Fin (interp1 (knots rows c) x).
Proof. intros S ND H. rewrite interp_on_map by exact H. now rewrite spline_knots_sorted. Qed.

(** ... and in general it makes the spline independent of the array order (auto_group = False) *)
Lemma insert_knot_perm p l : Permutation (insert_knot p l) (p :: l).
Proof. induction l as [|q t IH]; cbn [insert_knot]; [reflexivity|]. destruct (fst p <=? fst q); [reflexivity|]. rewrite IH. apply perm_swap. Qed.
Lemma sort_knots_perm l : Permutation (sort_knots l) l.
Proof. induction l as [|p t IH]; cbn; [reflexivity|]. fold (sort_knots t). rewrite insert_knot_perm. now constructor. Qed.

Definition knot_le (p q : Z * Q) : Prop := fst p <= fst q.
Lemma insert_knot_sorted p l : Sorted knot_le l -> Sorted knot_le (insert_knot p l).
Proof.
  induction 1 as [|q t Hs IH Hhd]; cbn [insert_knot]; [repeat constructor|].
  destruct (Z.leb_spec (fst p) (fst q)) as [L|G].
  - constructor; [now constructor | constructor; exact L].
  - constructor; [exact IH|]. destruct t as [|z t']; cbn [insert_knot]; [constructor; unfold knot_le; lia|].
    destruct (fst p <=? fst z); constructor; [unfold knot_le; lia | now inversion Hhd].
Qed.
Lemma sort_knots_sorted l : Sorted knot_le (sort_knots l).
Proof. induction l as [|p t IH]; cbn; [constructor|]. now apply insert_knot_sorted. Qed.

Lemma Permutation_filter' {A} (f : A -> bool) l l' : Permutation l l' -> Permutation (filter f l) (filter f l').
Proof.
  induction 1 as [|x l l' _ IH|x y l|l l' l'' _ IH1 _ IH2]; cbn [filter]; [constructor| | |now transitivity (filter f l')].
  - destruct (f x); [now constructor | exact IH].
  - destruct (f x), (f y); try reflexivity. apply perm_swap.
Qed.

(** sorted lists of knots with pairwise distinct abscissae are unique among their permutations *)
Lemma sorted_knots_unique (l1 : list (Z * Q)) : forall l2, StronglySorted knot_le l1 -> StronglySorted knot_le l2 ->
  Permutation l1 l2 -> NoDup (map fst l1) -> l1 = l2.
Proof.
  induction l1 as [|h1 t1 IH]; intros l2 S1 S2 P ND.
  - apply Permutation_nil in P. now subst.
  - destruct l2 as [|h2 t2]; [symmetry in P; apply Permutation_nil in P; discriminate|].
    apply StronglySorted_inv in S1 as [S1 F1]. apply StronglySorted_inv in S2 as [S2 F2]. rewrite Forall_forall in F1, F2.
    cbn [map] in ND. inversion ND as [|? ? Hn ND']; subst.
    assert (E : h1 = h2).
    { assert (I2 : In h2 (h1 :: t1)) by (apply Permutation_in with (h2 :: t2); [now symmetry | now left]).
      assert (I1 : In h1 (h2 :: t2)) by (apply Permutation_in with (h1 :: t1); [exact P | now left]).
      destruct I2 as [->|I2]; [reflexivity|]. destruct I1 as [->|I1]; [reflexivity|].
      exfalso. apply Hn. specialize (F1 h2 I2). specialize (F2 h1 I1). unfold knot_le in *.
      replace (fst h1) with (fst h2) by lia. now apply in_map. }
    subst h2. f_equal. apply IH; [exact S1 | exact S2 | now apply Permutation_cons_inv with h1 | exact ND'].
Qed.

Lemma knot_le_trans : forall a b c, knot_le a b -> knot_le b c -> knot_le a c.
Proof. unfold knot_le. intros; lia. Qed.

Lemma incr_knot_sorted l : incr (map fst l) -> StronglySorted knot_le l /\ NoDup (map fst l).
Proof.
  unfold incr. induction l as [|p t IH]; cbn [map]; intros S; [split; constructor|]. apply StronglySorted_inv in S as [St Fa].
  destruct (IH St) as [I1 I2]. rewrite Forall_forall in Fa. split; constructor; try assumption.
  - rewrite Forall_forall. intros q Hq. unfold knot_le. specialize (Fa (fst q) (in_map fst _ _ Hq)). lia.
  - intros Hin. specialize (Fa _ Hin). lia.
Qed.

Lemma spline_knots_order_independent input c : distinct_pos input -> spline_knots input c = knots (gm_rows input) c.
Proof.
  intros ND. assert (W : StronglySorted key_le (gm_rows input) /\ distinct_pos (gm_rows input)).
  { split; [apply sort_rows_strongly|]. unfold distinct_pos, gm_rows. apply (Permutation_NoDup (l := map pos input)); [|exact ND].
    apply Permutation_map. symmetry. apply sort_rows_perm. }
  destruct W as [S ND']. destruct (incr_knot_sorted _ (knots_incr (gm_rows input) c S ND')) as [K1 K2].
  symmetry. apply sorted_knots_unique; [exact K1 | apply Sorted_StronglySorted; [exact knot_le_trans | apply sort_knots_sorted] | | exact K2].
  unfold spline_knots. rewrite sort_knots_perm. unfold knots. apply Permutation_map, Permutation_filter'. apply sort_rows_perm.
Qed.

Lemma has_chr_perm l l' c : Permutation l l' -> has_chr l c = has_chr l' c.
Proof.
  intros P. unfold has_chr. destruct (existsb _ l) eqn:E1, (existsb _ l') eqn:E2; try reflexivity.
  - apply existsb_exists in E1 as (r & Hr & Hc). assert (existsb (fun r => r_chr r =? c) l' = true); [|congruence].
    apply existsb_exists. exists r. split; [now apply Permutation_in with l | exact Hc].
  - apply existsb_exists in E2 as (r & Hr & Hc). assert (existsb (fun r => r_chr r =? c) l = true); [|congruence].
    apply existsb_exists. exists r. split; [apply Permutation_in with l'; [now symmetry | exact Hr] | exact Hc].
Qed.

(** interpolation from a map built with auto_group = False (arrays left in the supplied order) equals interpolation from
    the sorted map *)
Lemma interp_auto_group_independent input cx : distinct_pos input -> interp_pos input cx = interp_pos (gm_rows input) cx.
Proof.
  intros ND. destruct cx as [c x]. unfold interp_pos.
  rewrite (has_chr_perm input (gm_rows input) c) by (symmetry; apply sort_rows_perm).
  destruct (has_chr (gm_rows input) c); [|reflexivity].
  rewrite (spline_knots_order_independent input c ND). rewrite spline_knots_sorted; [reflexivity | apply sort_rows_strongly |].
  unfold distinct_pos, gm_rows. apply (Permutation_NoDup (l := map pos input)); [|exact ND]. apply Permutation_map. symmetry. apply sort_rows_perm.
Qed.

Lemma knots_in rows r : In r rows -> In (r_phy r, r_gen r) (knots rows (r_chr r)).
Proof. intros H. unfold knots. apply in_map_iff. exists r. split; [reflexivity|]. apply filter_In. split; [exact H | apply Z.eqb_refl]. Qed.

(** interpolating a map at one of its own markers returns the stored genetic position *)
Lemma interp_own_marker rows r : wf_map rows -> In r rows -> ext_equiv (interp_pos rows (r_chr r, r_phy r)) (Fin (r_gen r)).
Proof.
  intros (S & ND & TM) Hr. rewrite interp_on_wf_map by (assumption || now apply has_chr_in).
  destruct (In_nth _ _ (0%Z, 0%Q) (knots_in rows r Hr)) as (i & Hi & Ei).
  pose proof (interp1_at_knot (knots rows (r_chr r)) (TM _ (has_chr_in rows r Hr)) (knots_incr rows (r_chr r) S ND) i Hi) as K.
  rewrite Ei in K. cbn [fst snd] in K. unfold ext_equiv. cbn [ext_eqb]. now apply Qeq_bool_iff.
Qed.

Lemma interp_own_markers rows : wf_map rows -> Forall2 ext_equiv (interp_genpos rows (own_pairs rows)) (fin_gens rows).
Proof.
  intros W. unfold interp_genpos, own_pairs, fin_gens. rewrite map_map.
  assert (G : forall l, (forall r, In r l -> In r rows) ->
              Forall2 ext_equiv (map (fun r => interp_pos rows (r_chr r, r_phy r)) l) (map (fun r => Fin (r_gen r)) l)).
  { induction l as [|r l IH]; intros Hl; cbn [map]; constructor; [apply interp_own_marker; [exact W | apply Hl; now left] | apply IH; intros; apply Hl; now right]. }
  apply G. auto.
Qed.

(** congruent maps have non-decreasing genetic positions along every chromosome *)
Definition chr_le (a b : row) : Prop := r_chr a <= r_chr b.
Lemma key_le_chr_le a b : key_le a b -> chr_le a b.
Proof. unfold key_le, chr_le. rewrite key_leb_spec. intros [?|[? _]]; lia. Qed.

Definition ys (c : Z) (l : list row) : list Q := map r_gen (filter (fun r => r_chr r =? c) l).

Lemma ys_nil_above c l : Forall (fun r => c < r_chr r) l -> ys c l = [].
Proof. unfold ys. induction 1 as [|r l Hr _ IH]; cbn [filter map]; [reflexivity|]. destruct (Z.eqb_spec (r_chr r) c); [lia|exact IH]. Qed.

Lemma congruent_sorted_ys c : forall l prev, forallb (fun b => b) (congruence_from prev l) = true -> StronglySorted chr_le l ->
  Sorted Qle (ys c l) /\
  (forall p, prev = Some p -> r_chr p = c -> Forall (chr_le p) l -> HdRel Qle (r_gen p) (ys c l)).
Proof.
  induction l as [|r t IH]; intros prev F S; [split; [constructor | intros; constructor]|].
  cbn [congruence_from forallb] in F. apply andb_prop in F as [Fr Ft]. apply StronglySorted_inv in S as [St Fa].
  destruct (IH (Some r) Ft St) as [IS IHd]. unfold ys in *. cbn [filter]. split.
  - destruct (Z.eqb_spec (r_chr r) c) as [E|NE]; [|exact IS]. cbn [map]. constructor; [exact IS|]. now apply (IHd r).
  - intros p -> Ep Fp. apply Forall_inv in Fp as Hpr. unfold chr_le in Hpr.
    destruct (Z.eqb_spec (r_chr r) c) as [E|NE].
    + cbn [map]. constructor. destruct (Z.eqb_spec (r_chr p) (r_chr r)); [now apply Qle_bool_iff | lia].
    + fold (ys c t). rewrite ys_nil_above; [constructor|]. eapply Forall_impl; [|exact Fa]. unfold chr_le. intros; cbv beta. lia.
Qed.

Lemma sorted_Qle_nth l : Sorted Qle l -> forall i j, (i <= j < length l)%nat -> (nth i l 0 <= nth j l 0)%Q.
Proof.
  intros S. apply Sorted_StronglySorted in S; [|exact Qle_trans]. induction S as [|a t St IH Ha]; intros i j Hij; cbn [length] in *; [lia|].
  destruct j as [|j]; [replace i with 0%nat by lia; apply Qle_refl|]. destruct i as [|i]; cbn [nth].
  - rewrite Forall_forall in Ha. apply Ha, nth_In. lia.
  - apply IH. lia.
Qed.

Lemma congruent_knots_mono rows c : StronglySorted key_le rows -> is_congruent rows = true ->
  forall i j, (i <= j < length (knots rows c))%nat -> (snd (nth i (knots rows c) (0%Z, 0%Q)) <= snd (nth j (knots rows c) (0%Z, 0%Q)))%Q.
Proof.
  intros S C.
  assert (Sc : StronglySorted chr_le rows).
  { clear C. induction S as [|a t St IH Ha]; [constructor|]. constructor; [exact IH|]. eapply Forall_impl; [|exact Ha]. apply key_le_chr_le. }
  intros i j Hij.
  destruct (congruent_sorted_ys c rows None C Sc) as [Sy _].
  assert (E : forall k, snd (nth k (knots rows c) (0%Z, 0%Q)) = nth k (ys c rows) 0%Q).
  { intros k. unfold knots, ys. rewrite <- (map_nth snd). rewrite map_map. reflexivity. }
  rewrite !E. apply sorted_Qle_nth; [exact Sy|]. unfold ys. unfold knots in Hij. rewrite map_length in *. exact Hij.
Qed.

(** interpolation on a congruent map preserves the order of physical positions *)
Lemma interp_order_preserving rows c x x' : wf_map rows -> is_congruent rows = true -> has_chr rows c = true -> x <= x' ->
  exists g g', interp_pos rows (c, x) = Fin g /\ interp_pos rows (c, x') = Fin g' /\ (g <= g')%Q.
Proof.
  intros (S & ND & TM) C H Hx. rewrite !interp_on_wf_map by assumption. do 2 eexists. split; [reflexivity|]. split; [reflexivity|].
  apply interp1_monotone; [now apply TM | now apply knots_incr | now apply congruent_knots_mono | exact Hx].
Qed.

(** between two consecutive markers of a chromosome the interpolated position lies on their chord *)
Lemma interp_linear_between rows c i x : wf_map rows -> has_chr rows c = true ->
  let k := knots rows c in (S i < length k)%nat -> fst (nth i k (0%Z, 0%Q)) <= x <= fst (nth (S i) k (0%Z, 0%Q)) ->
  exists g, interp_pos rows (c, x) = Fin g /\
    (g == chord x (fst (nth i k (0%Z, 0%Q))) (snd (nth i k (0%Z, 0%Q))) (fst (nth (S i) k (0%Z, 0%Q))) (snd (nth (S i) k (0%Z, 0%Q))))%Q.
Proof.
  intros (S & ND & TM) H k Hi Hx. rewrite interp_on_wf_map by assumption. eexists. split; [reflexivity|].
  apply interp1_between; [now apply TM | now apply knots_incr | exact Hi | exact Hx].
Qed.

(** the constructor produces a well-formed map from any row order *)
Lemma gm_rows_wf input : distinct_pos input -> two_markers (gm_rows input) -> wf_map (gm_rows input).
Proof.
  intros ND TM. split; [apply sort_rows_strongly|]. split; [|exact TM].
  unfold distinct_pos, gm_rows. apply (Permutation_NoDup (l := map pos input)); [|exact ND].
  apply Permutation_map. symmetry. apply sort_rows_perm.
Qed.

(** nothing depends on the order in which the rows were supplied *)
Lemma map_row_order_independent l l' : distinct_pos l -> Permutation l l' ->
  gm_rows l = gm_rows l' /\ gm_meta l = gm_meta l' /\
  (forall q, interp_genpos (gm_rows l) q = interp_genpos (gm_rows l') q) /\
  (forall q, interp_gmap l q = interp_gmap l' q) /\
  congruence (gm_rows l) = congruence (gm_rows l') /\
  (forall v, gmat_gaps (gm_rows l) v = gmat_gaps (gm_rows l') v).
Proof.
  intros ND P. assert (E : gm_rows l = gm_rows l') by (now apply row_order_independent).
  unfold interp_gmap, gm_meta. rewrite E. repeat split.
Qed.

(** * Part 5: grouping metadata *)
Definition decode_runs (rs : list (Z * Z)) : list Z := flat_map (fun cn => repeat (fst cn) (Z.to_nat (snd cn))) rs.

Lemma runs_pos l : Forall (fun cn => 0 < snd cn) (runs l).
Proof.
  induction l as [|c t IH]; cbn [runs]; [constructor|]. destruct (runs t) as [|[c' n] r]; [repeat constructor|].
  inversion IH as [|? ? Hn Hr]; subst. cbn [snd] in Hn. destruct (c =? c'); repeat constructor; cbn [snd]; try lia; assumption.
Qed.

Lemma runs_decode l : decode_runs (runs l) = l.
Proof.
  induction l as [|c t IH]; cbn [runs]; [reflexivity|]. pose proof (runs_pos t) as P. destruct (runs t) as [|[c' n] r].
  - cbn in IH. rewrite <- IH. reflexivity.
  - apply Forall_inv in P as Hn. cbn [snd] in Hn. destruct (Z.eqb_spec c c') as [->|NE].
    + unfold decode_runs in *. cbn [flat_map fst snd] in *. replace (Z.to_nat (n + 1)) with (S (Z.to_nat n)) by lia. cbn [repeat app]. now rewrite IH.
    + unfold decode_runs in *. cbn [flat_map fst snd] in *. cbn [Z.to_nat Pos.to_nat Pos.iter_op repeat app]. now rewrite IH.
Qed.

Lemma runs_head c t : exists n r, runs (c :: t) = (c, n) :: r.
Proof. cbn [runs]. destruct (runs t) as [|[c' n] r]; [now eexists _, _|]. destruct (c =? c'); now eexists _, _. Qed.

(** on a sorted label array the group names are strictly increasing (numpy.unique's output) *)
Lemma runs_names_incr l : Sorted Z.le l -> Sorted Z.lt (map fst (runs l)).
Proof.
  induction 1 as [|c t St IH Hd]; cbn [runs]; [constructor|].
  destruct t as [|c2 t2]; [cbn; repeat constructor|].
  destruct (runs_head c2 t2) as (n & r & E). rewrite E in *. inversion Hd as [|? ? Hle]; subst.
  destruct (Z.eqb_spec c c2) as [->|NE]; cbn [map fst] in *; [exact IH|].
  constructor; [exact IH|]. constructor. lia.
Qed.

Lemma starts_length from cs : length (starts from cs) = length cs.
Proof. revert from. induction cs as [|n t IH]; intros from; cbn; [reflexivity|]. now rewrite IH. Qed.

(** stop index of a group = start index of the next one; the last stop index is the number of markers *)
Lemma starts_chain from cs : forall k, (S k < length cs)%nat ->
  nth k (map2 Z.add (starts from cs) cs) 0 = nth (S k) (starts from cs) 0.
Proof.
  revert from. induction cs as [|n t IH]; intros from k Hk; cbn [length] in *; [lia|].
  cbn [starts map2]. destruct k as [|k]; cbn [nth].
  - destruct t; cbn in *; [lia|reflexivity].
  - apply IH. lia.
Qed.

Lemma group_meta_shape chrs : let '(names, st, sp, ln) := group_meta chrs in
  length st = length names /\ length sp = length names /\ length ln = length names /\ decode_runs (combine names ln) = chrs.
Proof.
  unfold group_meta. cbv zeta. rewrite map2_length, starts_length, !map_length, Nat.min_id.
  repeat split. replace (combine (map fst (runs chrs)) (map snd (runs chrs))) with (runs chrs); [apply runs_decode|].
  induction (runs chrs) as [|[c n] r IH]; cbn; [reflexivity|]. now rewrite <- IH.
Qed.

(** * Part 6: the genotype-matrix side *)
Definition pair_le (a b : Z * Z) : Prop := pair_leb a b = true.
Lemma pair_leb_spec a b : pair_leb a b = true <-> fst a < fst b \/ (fst a = fst b /\ snd a <= snd b).
Proof.
  unfold pair_leb. destruct (Z.ltb_spec (fst a) (fst b)); [split; [now left|reflexivity]|].
  destruct (Z.ltb_spec (fst b) (fst a)); [split; [discriminate | intros [?|[? _]]; lia]|].
  rewrite Z.leb_le. split; [intros; right; lia | intros [?|[_ ?]]; lia].
Qed.
Lemma pair_le_total a b : pair_le a b \/ pair_le b a.
Proof. unfold pair_le. rewrite !pair_leb_spec. lia. Qed.

Lemma insert_pair_perm x l : Permutation (insert_pair x l) (x :: l).
Proof. induction l as [|y t IH]; cbn [insert_pair]; [reflexivity|]. destruct (pair_leb x y); [reflexivity|]. rewrite IH. apply perm_swap. Qed.
Lemma sort_pairs_perm l : Permutation (sort_pairs l) l.
Proof. induction l as [|x t IH]; cbn; [reflexivity|]. fold (sort_pairs t). rewrite insert_pair_perm. now constructor. Qed.
Lemma insert_pair_sorted x l : Sorted pair_le l -> Sorted pair_le (insert_pair x l).
Proof.
  induction 1 as [|y t Hs IH Hhd]; cbn [insert_pair]; [repeat constructor|].
  destruct (pair_leb x y) eqn:E.
  - constructor; [now constructor | constructor; exact E].
  - assert (Hyx : pair_le y x) by (destruct (pair_le_total x y) as [H|H]; [unfold pair_le in H; congruence | exact H]).
    constructor; [exact IH|]. destruct t as [|z t']; cbn [insert_pair]; [constructor; exact Hyx|].
    destruct (pair_leb x z); constructor; [exact Hyx | now inversion Hhd].
Qed.
Lemma sort_pairs_sorted l : Sorted pair_le (sort_pairs l).
Proof. induction l as [|x t IH]; cbn; [constructor|]. now apply insert_pair_sorted. Qed.
Lemma sort_pairs_length l : length (sort_pairs l) = length l.
Proof. apply Permutation_length, sort_pairs_perm. Qed.

(** in the sorted variant list a change of chromosome label marks the first variant of a chromosome *)
Lemma sorted_pairs_chr_nth l : Sorted pair_le l -> forall i j, (i <= j < length l)%nat -> fst (nth i l (0, 0)) <= fst (nth j l (0, 0)).
Proof.
  intros S. apply Sorted_StronglySorted in S.
  2:{ intros a b c. unfold pair_le. rewrite !pair_leb_spec. lia. }
  induction S as [|a t St IH Ha]; intros i j Hij; cbn [length] in *; [lia|].
  destruct j as [|j]; [replace i with 0%nat by lia; lia|]. destruct i as [|i]; cbn [nth].
  - rewrite Forall_forall in Ha. assert (H : pair_le a (nth j t (0, 0))) by (apply Ha, nth_In; lia).
    unfold pair_le in H. rewrite pair_leb_spec in H. lia.
  - apply IH. lia.
Qed.

Lemma chr_start_is_first l j : Sorted pair_le l -> (S j < length l)%nat -> fst (nth j l (0, 0)) <> fst (nth (S j) l (0, 0)) ->
  forall i, (i <= j)%nat -> fst (nth i l (0, 0)) < fst (nth (S j) l (0, 0)).
Proof.
  intros S Hj NE i Hi. pose proof (sorted_pairs_chr_nth l S i j ltac:(lia)). pose proof (sorted_pairs_chr_nth l S j (Datatypes.S j) ltac:(lia)). lia.
Qed.

(** * Part 7: interp_gmap — the new map carries no grouping of the source map; the grouping it computes on first use
      describes its own markers *)
Lemma sorted_pairs_fst l : Sorted pair_le l -> Sorted Z.le (map fst l).
Proof.
  induction 1 as [|a t St IH Hd]; cbn [map]; [constructor|]. constructor; [exact IH|].
  destruct Hd as [|b t' Hab]; cbn [map]; constructor. unfold pair_le in Hab. rewrite pair_leb_spec in Hab. lia.
Qed.

Lemma interp_gmap_meta input query :
  let '(q, g, m) := interp_gmap input query in
  q = query /\ g = interp_genpos (gm_rows input) query /\ m = None /\
  Permutation (igmap_markers q) q /\ Sorted pair_le (igmap_markers q) /\
  let '(names, st, sp, ln) := igmap_group q in
  length st = length names /\ length sp = length names /\ length ln = length names /\
  decode_runs (combine names ln) = map fst (igmap_markers q) /\ Sorted Z.lt names.
Proof.
  unfold interp_gmap. split; [reflexivity|]. split; [reflexivity|]. split; [reflexivity|].
  split; [apply sort_pairs_perm|]. split; [apply sort_pairs_sorted|].
  pose proof (group_meta_shape (map fst (igmap_markers query))) as H.
  pose proof (runs_names_incr (map fst (igmap_markers query)) (sorted_pairs_fst _ (sort_pairs_sorted query))) as N.
  unfold igmap_group. unfold group_meta in *. cbv zeta in *.
  destruct H as (H1 & H2 & H3 & H4). repeat split; assumption.
Qed.

(** the FORMER code: the copied metadata describes the returned map's own marker array only when the query is the source
    map's marker list *)
Lemma old_interp_gmap_meta_own input :
  let '(q, g, m) := old_interp_gmap input (own_pairs (gm_rows input)) in m = Some (group_meta (map fst q)).
Proof. unfold old_interp_gmap, gm_meta, own_pairs. rewrite map_map. reflexivity. Qed.

Definition wit_rows : list row :=
  [mkRow 2 10 (1#8) []; mkRow 1 5 0 []; mkRow 1 20 (1#2) []; mkRow 2 30 (7#8) []; mkRow 1 9 (1#4) []; mkRow 2 20 (3#8) []].

Lemma old_interp_gmap_meta_refuted : exists input query, distinct_pos input /\
  let '(q, g, m) := old_interp_gmap input query in m <> Some (group_meta (map fst q)) /\ m <> None.
Proof.
  exists wit_rows, [(1, 5); (1, 7)]. split.
  - unfold distinct_pos, wit_rows. cbn. repeat constructor; cbn; intuition discriminate.
  - vm_compute. split; discriminate.
Qed.

(** the witness is a well-formed map: the hypotheses of the theorems are satisfiable *)
Lemma wit_wf : wf_map (gm_rows wit_rows) /\ is_congruent (gm_rows wit_rows) = true.
Proof.
  split; [|reflexivity]. apply gm_rows_wf.
  - unfold distinct_pos, wit_rows. cbn. repeat constructor; cbn; intuition discriminate.
  - intros c H. apply existsb_exists in H as (r & Hr & E). apply Z.eqb_eq in E. subst c.
    vm_compute in Hr. repeat (destruct Hr as [<-|Hr]; [vm_compute; lia|]). destruct Hr.
Qed.

(** * Part 8: the distance laws stated on the whole matrices *)
Lemma pairwise_distance_laws chrs gens : length chrs = length gens -> Forall is_position gens ->
  let n := length chrs in
  let M i j := nth j (nth i (gdist2g chrs gens None None None None) []) NaN in
  forall i j, (i < n)%nat -> (j < n)%nat ->
    ext_equiv (M i j) (M j i) /\
    (nth i chrs 0 <> nth j chrs 0 -> M i j = PInf) /\
    (forall g, nth i gens NaN = Fin g -> ext_equiv (M i i) (Fin 0)) /\
    (forall d, M i j = Fin d -> (0 <= d)%Q) /\
    (forall k gi gj gk, (k < n)%nat -> nth i chrs 0 = nth j chrs 0 -> nth j chrs 0 = nth k chrs 0 ->
       nth i gens NaN = Fin gi -> nth j gens NaN = Fin gj -> nth k gens NaN = Fin gk -> (gi <= gj)%Q -> (gj <= gk)%Q ->
       exists dij djk dik, M i j = Fin dij /\ M j k = Fin djk /\ M i k = Fin dik /\ (dik == dij + djk)%Q).
Proof.
  intros L P n M i j Hi Hj. unfold M. rewrite Forall_forall in P.
  assert (Pn : forall k, (k < n)%nat -> is_position (nth k gens NaN)) by (intros k Hk; apply P, nth_In; unfold n in Hk; lia).
  rewrite !gdist2g_entry by (exact L || exact Hi || exact Hj). repeat split.
  - apply gdist2_sym; now apply Pn.
  - apply gdist2_across.
  - intros g E. rewrite E. apply gdist2_diag.
  - apply gdist2_nonneg.
  - intros k gi gj gk Hk E1 E2 Gi Gj Gk O1 O2. rewrite !gdist2g_entry by (exact L || exact Hi || exact Hj || exact Hk).
    rewrite Gi, Gj, Gk, <- E2, <- E1. now apply gdist2_additive.
Qed.

Lemma sequential_distance_laws chrs gens : length chrs = length gens -> Forall is_position gens ->
  let n := length chrs in
  let s := gdist1g chrs gens None None in
  let M i j := nth j (nth i (gdist2g chrs gens None None None None) []) NaN in
  length s = n /\
  ((0 < n)%nat -> nth 0 s NaN = PInf) /\
  forall j, (S j < n)%nat ->
    (nth j chrs 0 <> nth (S j) chrs 0 -> nth (S j) s NaN = PInf /\ M j (S j) = PInf) /\
    (nth j chrs 0 = nth (S j) chrs 0 -> nth (S j) s NaN = ext_sub (nth (S j) gens NaN) (nth j gens NaN)) /\
    ((forall gp gc, nth j gens NaN = Fin gp -> nth (S j) gens NaN = Fin gc -> nth j chrs 0 = nth (S j) chrs 0 -> (gp <= gc)%Q) ->
       ext_equiv (nth (S j) s NaN) (M j (S j))).
Proof.
  intros L P n s M. rewrite Forall_forall in P. split; [|split].
  - unfold s, gdist1g. rewrite !pyslice_all. now apply gdist1g_from_length.
  - intros H. now apply gdist1g_start.
  - intros j Hj. unfold s, M. split; [|split].
    + intros NE. rewrite gdist1g_entry, gdist2g_entry by (exact L || unfold n in Hj; lia).
      unfold gdist2. destruct (Z.eqb_spec (nth j chrs 0) (nth (S j) chrs 0)); [contradiction|now split].
    + intros E. rewrite gdist1g_entry by (exact L || exact Hj). now rewrite E, Z.eqb_refl.
    + intros O. apply gdist1g_agrees_gdist2g; [exact L | exact Hj | exact O | |]; apply P, nth_In; unfold n in Hj; lia.
Qed.

(** * Part 9: select / remove / remove_discrepancies rebuild the spline from the remaining markers *)
Lemma kept_in (rows : list row) : forall (mask : list bool) r, In r (map fst (filter snd (combine rows mask))) -> In r rows.
Proof.
  induction rows as [|a t IH]; intros [|b mask] r H; cbn in H; try contradiction.
  destruct b; cbn in H; [destruct H as [<-|H]; [now left|]|]; right; eapply IH; exact H.
Qed.
Lemma kept_distinct (rows : list row) : forall (mask : list bool), distinct_pos rows -> distinct_pos (map fst (filter snd (combine rows mask))).
Proof.
  unfold distinct_pos. induction rows as [|a t IH]; intros [|b mask] ND; cbn; try constructor.
  inversion ND as [|? ? Hn Ht]; subst. destruct b; cbn; [|now apply IH].
  constructor; [|now apply IH]. intros H. apply Hn. apply in_map_iff in H as (r & E & Hr). rewrite <- E.
  apply in_map. eapply kept_in. exact Hr.
Qed.

(** a selection of a map without duplicated positions is again a well-formed map, provided two markers stay per chromosome *)
Lemma select_rows_wf rows mask : distinct_pos rows -> two_markers (select_rows rows mask) -> wf_map (select_rows rows mask).
Proof. intros ND TM. apply (gm_rows_wf (map fst (filter snd (combine rows mask)))); [now apply kept_distinct | exact TM]. Qed.

Lemma rd_rows_wf rows : wf_map rows -> two_markers (rd_rows rows) -> wf_map (rd_rows rows).
Proof.
  intros W TM. unfold rd_rows in *. destruct (is_congruent rows); [exact W|]. destruct W as (_ & ND & _). now apply select_rows_wf.
Qed.

(** after remove_discrepancies() the object interpolates with the spline of the reduced rows: exact at the remaining
    markers, on the chord between consecutive remaining markers, order-preserving once the reduced map is congruent *)
Lemma rd_interp_laws rows : wf_map rows -> two_markers (rd_rows rows) ->
  wf_map (rd_rows rows) /\
  Forall2 ext_equiv (rd_interp_genpos rows (own_pairs (rd_rows rows))) (fin_gens (rd_rows rows)) /\
  (forall c i x, has_chr (rd_rows rows) c = true ->
     let k := knots (rd_rows rows) c in (S i < length k)%nat -> fst (nth i k (0%Z, 0%Q)) <= x <= fst (nth (S i) k (0%Z, 0%Q)) ->
     exists g, rd_interp_pos rows (c, x) = Fin g /\
       (g == chord x (fst (nth i k (0%Z, 0%Q))) (snd (nth i k (0%Z, 0%Q))) (fst (nth (S i) k (0%Z, 0%Q))) (snd (nth (S i) k (0%Z, 0%Q))))%Q) /\
  (forall c x x', is_congruent (rd_rows rows) = true -> has_chr (rd_rows rows) c = true -> x <= x' ->
     exists g g', rd_interp_pos rows (c, x) = Fin g /\ rd_interp_pos rows (c, x') = Fin g' /\ (g <= g')%Q) /\
  (forall c x, has_chr (rd_rows rows) c = false -> rd_interp_pos rows (c, x) = NaN).
Proof.
  intros W TM. pose proof (rd_rows_wf rows W TM) as W'. split; [exact W'|]. split; [|split; [|split]].
  - unfold rd_interp_genpos, rd_interp_pos. now apply interp_own_markers.
  - intros c i x H k Hi Hx. unfold rd_interp_pos. now apply interp_linear_between.
  - intros c x x' C H Hx. unfold rd_interp_pos. now apply interp_order_preserving.
  - intros c x H. unfold rd_interp_pos. now apply interp_off_map.
Qed.

(** nothing is removed from a congruent map *)
Lemma rd_rows_congruent rows : is_congruent rows = true -> rd_rows rows = rows.
Proof. intros H. unfold rd_rows. now rewrite H. Qed.

Definition wit_rd : list row := [mkRow 1 10 0 []; mkRow 1 20 (1#2) []; mkRow 1 30 (1#4) []; mkRow 1 40 (3#4) []].

Lemma wit_rd_wf : wf_map wit_rd /\ two_markers (rd_rows wit_rd) /\ is_congruent wit_rd = false /\ is_congruent (rd_rows wit_rd) = true.
Proof.
  split; [|split; [|split; reflexivity]].
  - split; [|split].
    + change wit_rd with (sort_rows wit_rd). apply sort_rows_strongly.
    + unfold distinct_pos. vm_compute. repeat constructor; cbn; intuition discriminate.
    + intros c H. apply existsb_exists in H as (r & Hr & E). apply Z.eqb_eq in E. subst c.
      vm_compute in Hr. repeat (destruct Hr as [<-|Hr]; [vm_compute; lia|]). destruct Hr.
  - intros c H. apply existsb_exists in H as (r & Hr & E). apply Z.eqb_eq in E. subst c.
    vm_compute in Hr. repeat (destruct Hr as [<-|Hr]; [vm_compute; lia|]). destruct Hr.
Qed.

(** the FORMER code kept the spline of the old rows: after remove_discrepancies the map is well-formed and congruent, yet
    between the flanking markers 20 and 40 of the new map the value at 30 was 1/4, not on their chord (5/8), and the order
    of 20 -> 1/2, 30 -> 1/4 was reversed *)
Lemma old_stale_spline_refuted : exists rows c x i,
  wf_map (rd_rows rows) /\ is_congruent (rd_rows rows) = true /\
  let k := knots (rd_rows rows) c in
  (S i < length k)%nat /\ fst (nth i k (0%Z, 0%Q)) <= x <= fst (nth (S i) k (0%Z, 0%Q)) /\
  exists g, old_rd_interp_pos rows (c, x) = Fin g /\
    ~ (g == chord x (fst (nth i k (0%Z, 0%Q))) (snd (nth i k (0%Z, 0%Q))) (fst (nth (S i) k (0%Z, 0%Q))) (snd (nth (S i) k (0%Z, 0%Q))))%Q.
Proof.
  exists wit_rd, 1, 30, 1%nat. destruct wit_rd_wf as (W & TM & _ & C). split; [now apply rd_rows_wf|]. split; [exact C|].
  cbv zeta. split; [vm_compute; lia|]. split; [vm_compute; split; discriminate|].
  eexists. split; [vm_compute; reflexivity|]. vm_compute. discriminate.
Qed.

(** lemmas in the shape used by Props/C11.v *)
Lemma constructor_sorts input : Permutation (gm_rows input) input /\ StronglySorted key_le (gm_rows input).
Proof. split; [apply sort_rows_perm | apply sort_rows_strongly]. Qed.

Lemma group_metadata chrs :
  (let '(names, st, sp, ln) := group_meta chrs in
   length st = length names /\ length sp = length names /\ length ln = length names /\ decode_runs (combine names ln) = chrs)
  /\ (Sorted Z.le chrs -> Sorted Z.lt (map fst (runs chrs))).
Proof. split; [apply group_meta_shape | apply runs_names_incr]. Qed.

Lemma interp_extrapolates pts : (2 <= length pts)%nat -> incr (map fst pts) ->
  let n := length pts in
  (forall x, (x <= fst (nth 0 pts (0%Z, 0%Q)))%Z ->
     (interp1 pts x == chord x (fst (nth 0 pts (0%Z, 0%Q))) (snd (nth 0 pts (0%Z, 0%Q))) (fst (nth 1 pts (0%Z, 0%Q))) (snd (nth 1 pts (0%Z, 0%Q))))%Q) /\
  (forall x, (fst (nth (n - 1) pts (0%Z, 0%Q)) <= x)%Z ->
     (interp1 pts x == chord x (fst (nth (n - 2) pts (0%Z, 0%Q))) (snd (nth (n - 2) pts (0%Z, 0%Q)))
                              (fst (nth (n - 1) pts (0%Z, 0%Q))) (snd (nth (n - 1) pts (0%Z, 0%Q))))%Q).
Proof. intros Hn Hx n. split; [apply interp1_left | apply interp1_right]; assumption. Qed.

Lemma interp_off_map_missing rows c x :
  (has_chr rows c = false -> interp_pos rows (c, x) = NaN) /\
  (has_chr rows c = true -> interp_pos rows (c, x) = Fin (interp1 (spline_knots rows c) x)).
Proof. split; [apply interp_off_map | apply interp_on_map]. Qed.

Lemma spline_independent_of_array_order input : distinct_pos input ->
  (forall cx, interp_pos input cx = interp_pos (gm_rows input) cx) /\
  (forall c, spline_knots input c = knots (gm_rows input) c) /\
  (forall c, spline_knots (gm_rows input) c = knots (gm_rows input) c).
Proof.
  intros ND. split; [intros cx; now apply interp_auto_group_independent|]. split; [intros c; now apply spline_knots_order_independent|].
  intros c. apply spline_knots_sorted; [apply sort_rows_strongly|].
  unfold distinct_pos, gm_rows. apply (Permutation_NoDup (l := map pos input)); [|exact ND]. apply Permutation_map. symmetry. apply sort_rows_perm.
Qed.

Lemma hyps_satisfiable : wf_map (gm_rows wit_rows) /\ is_congruent (gm_rows wit_rows) = true /\ distinct_pos wit_rows
  /\ has_chr (gm_rows wit_rows) 1 = true /\ incr (map fst (knots (gm_rows wit_rows) 1)).
Proof.
  destruct wit_wf as [W C]. split; [exact W|]. split; [exact C|]. split.
  - unfold distinct_pos, wit_rows. cbn. repeat constructor; cbn; intuition discriminate.
  - split; [reflexivity|]. destruct W as (S & ND & _). now apply knots_incr.
Qed.
