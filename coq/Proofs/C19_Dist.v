(** C19 — the distance-to-vector transformations: the result is the squared norm of the orthogonal residual
    (= the minimum squared distance to the line), finiteness, translation invariance, the documented roles of the two vectors
    of the selection copies (and the role exchange of their former code). *)
From Coq Require Import Lqa Setoid Morphisms.
From PV Require Import Lib.Common Model.C19_Pareto Proofs.C19_Pareto Proofs.C19_Order.
Local Open Scope Q_scope.

(** * sums and dot products *)
Lemma sumQ_cons x l : sumQ (x :: l) = x + sumQ l.
Proof. reflexivity. Qed.
Lemma dotQ_cons x a y b : dotQ (x :: a) (y :: b) = x * y + dotQ a b.
Proof. reflexivity. Qed.
Lemma dotQ_nil_l b : dotQ [] b = 0.
Proof. reflexivity. Qed.

Lemma sq_nonneg x : 0 <= x * x.
Proof.
  destruct (Qlt_le_dec x 0) as [N|P].
  - setoid_replace (x * x) with ((- x) * (- x)) by ring. apply Qmult_le_0_compat; lra.
  - apply Qmult_le_0_compat; assumption.
Qed.
Lemma sq_pos x : ~ x == 0 -> 0 < x * x.
Proof.
  intros H. destruct (Qlt_le_dec x 0) as [N|P].
  - setoid_replace (x * x) with ((- x) * (- x)) by ring. apply Qmult_lt_0_compat; lra.
  - assert (0 < x) by (destruct (Qle_lt_or_eq _ _ P) as [L|E]; [exact L | exfalso; apply H; now symmetry]).
    apply Qmult_lt_0_compat; assumption.
Qed.

Lemma dot_self_nonneg l : 0 <= dotQ l l.
Proof. induction l as [|x l IH]; [unfold dotQ; cbn; lra|]. rewrite dotQ_cons. pose proof (sq_nonneg x). lra. Qed.
Lemma dot_self_pos l : Exists (fun x => ~ x == 0) l -> 0 < dotQ l l.
Proof.
  induction 1 as [x l H | x l H IH]; rewrite dotQ_cons.
  - pose proof (sq_pos x H). pose proof (dot_self_nonneg l). lra.
  - pose proof (sq_nonneg x). lra.
Qed.

(** * the projection residual *)
Lemma quad_expand : forall p L t, length p = length L ->
  sumQ (map sq (map2 Qminus p (map (fun l => t * l) L))) == dotQ p p - 2 * t * dotQ p L + t * t * dotQ L L.
Proof.
  induction p as [|x p IH]; intros [|l L] t Hlen; cbn [length] in Hlen; try discriminate.
  - unfold dotQ. cbn [map map2 sumQ fold_right]. ring.
  - cbn [map map2]. rewrite sumQ_cons, !dotQ_cons, IH by lia. unfold sq. ring.
Qed.

(** squared distance from p to the point t*L of the line *)
Definition dist2_to (L p : list Q) (t : Q) : Q := sumQ (map sq (map2 Qminus p (map (fun l => t * l) L))).

Lemma residual2_is_dist2 L linv p : residual2 L linv p = dist2_to L p (linv * dotQ p L).
Proof. reflexivity. Qed.

Lemma residual2_closed_form L p : length p = length L -> ~ dotQ L L == 0 ->
  residual2 L (/ dotQ L L) p == dotQ p p - dotQ p L * dotQ p L / dotQ L L.
Proof.
  intros Hlen HL. unfold residual2. rewrite quad_expand by exact Hlen. field. exact HL.
Qed.

Lemma residual2_minimal L p t : length p = length L -> ~ dotQ L L == 0 ->
  residual2 L (/ dotQ L L) p <= dist2_to L p t.
Proof.
  intros Hlen HL. rewrite residual2_is_dist2. unfold dist2_to. rewrite !quad_expand by exact Hlen.
  set (a := / dotQ L L * dotQ p L). set (LL := dotQ L L) in *. set (pL := dotQ p L) in *. set (pp := dotQ p p).
  assert (Ha : a * LL == pL) by (unfold a; field; exact HL).
  assert (D : pp - 2 * t * pL + t * t * LL - (pp - 2 * a * pL + a * a * LL) == LL * ((t - a) * (t - a))).
  { rewrite <- Ha. ring. }
  assert (0 <= LL * ((t - a) * (t - a))) by (apply Qmult_le_0_compat; [apply dot_self_nonneg | apply sq_nonneg]).
  lra.
Qed.

Lemma dotQ_sub_scaled : forall p L t, length p = length L ->
  dotQ (map2 Qminus p (map (fun l => t * l) L)) L == dotQ p L - t * dotQ L L.
Proof.
  induction p as [|x p IH]; intros [|l L] t Hlen; cbn [length] in Hlen; try discriminate.
  - unfold dotQ. cbn [map map2 sumQ fold_right]. ring.
  - cbn [map map2]. rewrite !dotQ_cons, IH by lia. ring.
Qed.

Lemma residual_orthogonal L p : length p = length L -> ~ dotQ L L == 0 ->
  dotQ (map2 Qminus p (map (fun l => (/ dotQ L L * dotQ p L) * l) L)) L == 0.
Proof. intros Hlen HL. rewrite dotQ_sub_scaled by exact Hlen. field. exact HL. Qed.

Lemma residual2_nonneg L linv p : 0 <= residual2 L linv p.
Proof.
  unfold residual2. induction (map2 Qminus p (map (fun l => linv * dotQ p L * l) L)) as [|x l IH]; [cbn; lra|].
  cbn [map]. rewrite sumQ_cons. pose proof (sq_nonneg x). unfold sq at 1. lra.
Qed.

(** * the body is total and finite once the matrix is non-empty and the line vector is non-zero *)
Lemma scale_guarded1_some m : scale_guarded1 m = Some (if Qeq_bool m 0 then 0 else / m).
Proof.
  unfold scale_guarded1, inv_opt. destruct (Qeq_bool m 0) eqn:E; [reflexivity|]. now rewrite E.
Qed.
Lemma sequence_map_some {A B} (g : A -> B) l : sequence (map (fun x => Some (g x)) l) = Some (map g l).
Proof. induction l as [|x l IH]; cbn; [reflexivity|]. now rewrite IH. Qed.
Lemma sequence_guarded mx : sequence (map scale_guarded1 mx) = Some (map (fun m => if Qeq_bool m 0 then 0 else / m) mx).
Proof.
  rewrite (map_ext _ (fun m => Some (if Qeq_bool m 0 then 0 else / m))) by apply scale_guarded1_some.
  apply sequence_map_some.
Qed.

Lemma inv_opt_some x : ~ x == 0 -> inv_opt x = Some (/ x).
Proof. intros H. unfold inv_opt. destruct (Qeq_bool x 0) eqn:E; [apply Qeq_bool_iff in E; contradiction | reflexivity]. Qed.

(** the normalised matrix of the guarded body (for a non-empty matrix) *)
Definition normalised (mat : list (list Q)) (mulv : list Q) : list (list Q) :=
  match map (fun r => map2 Qmult r mulv) mat with
  | [] => []
  | r0 :: rest =>
      let m2 := map (fun r => map2 Qminus r (colmin r0 rest)) (r0 :: rest) in
      match m2 with
      | [] => []
      | s0 :: srest => map (fun r => map2 Qmult (map (fun m => if Qeq_bool m 0 then 0 else / m) (colmax s0 srest)) r) m2
      end
  end.

Lemma normalised_length mat mulv : length (normalised mat mulv) = length mat.
Proof. unfold normalised. destruct mat as [|r mat]; cbn; [reflexivity|]. now rewrite !map_length. Qed.

Lemma trans_body_guarded mat mulv lin : mat <> [] -> ~ dotQ lin lin == 0 ->
  trans_body true mat mulv lin = TFinite (map (residual2 lin (/ dotQ lin lin)) (normalised mat mulv)).
Proof.
  intros Hm HL. unfold trans_body, normalised. destruct mat as [|r mat]; [contradiction|]. cbn [map].
  rewrite sequence_guarded, (inv_opt_some _ HL). reflexivity.
Qed.

Lemma finite_guarded mat mulv lin : mat <> [] -> Exists (fun x => ~ x == 0) lin ->
  exists d2, trans_body true mat mulv lin = TFinite d2 /\ length d2 = length mat /\ Forall (fun d => 0 <= d) d2.
Proof.
  intros Hm HL. assert (H : ~ dotQ lin lin == 0) by (pose proof (dot_self_pos lin HL); lra).
  eexists. split; [apply trans_body_guarded; assumption|]. split.
  - now rewrite map_length, normalised_length.
  - rewrite Forall_map. rewrite Forall_forall. intros p _. apply residual2_nonneg.
Qed.

Lemma pw_asserts pw : Forall (fun x => 0 <= x) pw -> Exists (fun x => 0 < x) pw ->
  forallb (Qle_bool 0) pw = true /\ existsb (Qlt_bool 0) pw = true /\ Qlt_bool 0 (dotQ pw pw) = true /\ Exists (fun x => ~ x == 0) pw.
Proof.
  intros Hn Hp.
  assert (E : Exists (fun x => ~ x == 0) pw) by (eapply Exists_impl; [|exact Hp]; cbv beta; intros x Hx; lra).
  split; [|split; [|split]].
  - apply forallb_forall. intros x Hx. rewrite Forall_forall in Hn. apply Qle_bool_iff, Hn, Hx.
  - apply existsb_exists. apply Exists_exists in Hp as (x & Hx & Px). exists x. split; [exact Hx | now apply Qlt_bool_iff].
  - apply Qlt_bool_iff. now apply dot_self_pos.
  - exact E.
Qed.

Lemma trans_core_body mat minmax pw : Forall (fun x => 0 <= x) pw -> Exists (fun x => 0 < x) pw ->
  trans_core mat minmax pw = trans_body true mat minmax pw.
Proof.
  intros Hn Hp. destruct (pw_asserts pw Hn Hp) as (A & B & C & _). unfold trans_core. now rewrite A, B, C.
Qed.

Lemma finite_core mat minmax pw : mat <> [] -> Forall (fun x => 0 <= x) pw -> Exists (fun x => 0 < x) pw ->
  exists d2, trans_core mat minmax pw = TFinite d2 /\ length d2 = length mat /\ Forall (fun d => 0 <= d) d2.
Proof.
  intros Hm Hn Hp. rewrite trans_core_body by assumption. apply finite_guarded; [exact Hm|].
  now destruct (pw_asserts pw Hn Hp) as (_ & _ & _ & E).
Qed.

(** the selection copies before the guard: a constant objective gives NaN *)
Lemma unguarded_refuted : exists mat obj_wt vec_wt, mat <> [] /\ Forall (fun x => 0 <= x) vec_wt /\ Exists (fun x => 0 < x) vec_wt /\
  Exists (fun x => ~ x == 0) obj_wt /\ trans_sel_unguarded mat obj_wt vec_wt = TNonFinite.
Proof.
  exists [[1; 5]; [2; 5]; [4; 5]], [1; 1], [1; 1]. split; [discriminate|]. split; [repeat constructor; lra|].
  split; [constructor; lra|]. split; [constructor; intro H; discriminate H|]. vm_compute. reflexivity.
Qed.

(** * the selection copies use their two vectors in the documented roles (since commit 9b993ed9) *)
Definition tres_eq (a b : tres) : Prop :=
  match a, b with
  | TRaised, TRaised => True
  | TNonFinite, TNonFinite => True
  | TFinite x, TFinite y => Forall2 Qeq x y
  | _, _ => False
  end.

(** full strength: for every sign vector and every non-negative non-zero preference vector both selection copies are
    the core function (objectives signed by the first vector, distance to the line spanned by the second) *)
Lemma sel_is_core mat sign pref : Forall (fun x => 0 <= x) pref -> Exists (fun x => 0 < x) pref ->
  trans_sel_prob mat sign pref = trans_core mat sign pref /\ trans_sel_fn mat sign pref = trans_core mat sign pref.
Proof. intros Hn Hp. rewrite trans_core_body by assumption. split; reflexivity. Qed.

(** the former code was the core function with the two vectors exchanged ... *)
Lemma old_sel_is_core_swapped mat obj_wt vec_wt : Forall (fun x => 0 <= x) obj_wt -> Exists (fun x => 0 < x) obj_wt ->
  old_trans_sel mat obj_wt vec_wt = trans_core mat vec_wt obj_wt.
Proof. intros Hn Hp. rewrite trans_core_body by assumption. reflexivity. Qed.

(** ... so it did not compute the distance to the preference vector *)
Lemma old_sel_roles_refuted : exists mat sign pref,
  Forall (fun s => s == 1 \/ s == -(1)) sign /\ Forall (fun x => 0 <= x) pref /\ Exists (fun x => 0 < x) pref /\
  ~ tres_eq (old_trans_sel mat sign pref) (trans_core mat sign pref) /\
  tres_eq (trans_sel_prob mat sign pref) (trans_core mat sign pref) /\
  tres_eq (trans_sel_fn mat sign pref) (trans_core mat sign pref).
Proof.
  exists [[0; 1]; [1; 0]], [1; 1], [1; 0]. split; [repeat constructor; left; reflexivity|]. split; [repeat constructor; lra|].
  split; [constructor; lra|]. split; [vm_compute; intro H; inversion H as [|? ? ? ? E _]; discriminate E|].
  split; vm_compute; repeat constructor.
Qed.

(** * translation invariance *)
Notation veq := (Forall2 Qeq).
Notation meq := (Forall2 (Forall2 Qeq)).

Lemma meq_refl (M : list (list Q)) : meq M M.
Proof. induction M; constructor; [apply veq_refl | assumption]. Qed.
Lemma meq_trans (A B C : list (list Q)) : meq A B -> meq B C -> meq A C.
Proof.
  intros H. revert C. induction H as [|x y A B Hx HA IH]; intros C HC; inversion HC; subst; constructor; [eapply veq_trans; eauto | now apply IH].
Qed.

Lemma Forall2_map_gen {A B C D} (R : A -> B -> Prop) (S : C -> D -> Prop) (f : A -> C) (g : B -> D) :
  (forall x y, R x y -> S (f x) (g y)) -> forall l l', Forall2 R l l' -> Forall2 S (map f l) (map g l').
Proof. intros H l l' F. induction F; cbn; constructor; auto. Qed.

Lemma map2_compat (f : Q -> Q -> Q) : (forall x x' y y', x == x' -> y == y' -> f x y == f x' y') ->
  forall a a' b b', veq a a' -> veq b b' -> veq (map2 f a b) (map2 f a' b').
Proof.
  intros Hf a a' b b' Ha. revert b b'. induction Ha as [|x x' a a' Hx Ha IH]; intros b b' Hb; [constructor|].
  destruct Hb as [|y y' b b' Hy Hb]; cbn [map2]; constructor; [now apply Hf | now apply IH].
Qed.

Lemma Qmin'_compat x x' y y' : x == x' -> y == y' -> Qmin' x y == Qmin' x' y'.
Proof. intros Hx Hy. unfold Qmin'. rewrite (Qle_bool_compat x x' y y' Hx Hy). now destruct (Qle_bool x' y'). Qed.
Lemma Qmax'_compat x x' y y' : x == x' -> y == y' -> Qmax' x y == Qmax' x' y'.
Proof. intros Hx Hy. unfold Qmax'. rewrite (Qle_bool_compat x x' y y' Hx Hy). now destruct (Qle_bool x' y'). Qed.
Lemma Qplus_compat x x' y y' : x == x' -> y == y' -> x + y == x' + y'.
Proof. intros -> ->. reflexivity. Qed.
Lemma Qminus_compat x x' y y' : x == x' -> y == y' -> x - y == x' - y'.
Proof. intros -> ->. reflexivity. Qed.
Lemma Qmult_compat x x' y y' : x == x' -> y == y' -> x * y == x' * y'.
Proof. intros -> ->. reflexivity. Qed.

Lemma foldl_compat (f : Q -> Q -> Q) : (forall x x' y y', x == x' -> y == y' -> f x y == f x' y') ->
  forall rest rest', meq rest rest' -> forall r0 r0', veq r0 r0' -> veq (fold_left (map2 f) rest r0) (fold_left (map2 f) rest' r0').
Proof.
  intros Hf rest rest' H. induction H as [|r r' rest rest' Hr Hrest IH]; intros r0 r0' H0; cbn [fold_left]; [exact H0|].
  apply IH. now apply map2_compat.
Qed.

Lemma sumQ_compat l l' : veq l l' -> sumQ l == sumQ l'.
Proof. induction 1 as [|x y l l' Hx Hl IH]; [reflexivity|]. rewrite !sumQ_cons, Hx, IH. reflexivity. Qed.
Lemma dotQ_compat a a' b b' : veq a a' -> veq b b' -> dotQ a b == dotQ a' b'.
Proof. intros Ha Hb. unfold dotQ. apply sumQ_compat. now apply map2_compat; [apply Qmult_compat| |]. Qed.

Lemma residual2_compat L linv p p' : veq p p' -> residual2 L linv p == residual2 L linv p'.
Proof.
  intros Hp. unfold residual2. apply sumQ_compat.
  apply (Forall2_map_gen Qeq Qeq); [intros x y E; unfold sq; now rewrite E|].
  apply map2_compat; [apply Qminus_compat | exact Hp |].
  assert (Ea : linv * dotQ p L == linv * dotQ p' L) by (rewrite (dotQ_compat p p' L L Hp (veq_refl L)); reflexivity).
  apply (Forall2_map_gen Qeq Qeq) with (l := L) (l' := L); [|apply veq_refl]. intros x y E. now rewrite Ea, E.
Qed.

(** option-level relation *)
Definition orel {A} (R : A -> A -> Prop) (a b : option A) : Prop :=
  match a, b with Some x, Some y => R x y | None, None => True | _, _ => False end.

Lemma Qeq_bool_compat0 m m' : m == m' -> Qeq_bool m 0 = Qeq_bool m' 0.
Proof.
  intros E. destruct (Qeq_bool m 0) eqn:A, (Qeq_bool m' 0) eqn:B; try reflexivity.
  - apply Qeq_bool_iff in A. apply Qeq_bool_neq in B. exfalso. apply B. now rewrite <- E.
  - apply Qeq_bool_iff in B. apply Qeq_bool_neq in A. exfalso. apply A. now rewrite E.
Qed.
Lemma inv_opt_compat m m' : m == m' -> orel Qeq (inv_opt m) (inv_opt m').
Proof. intros E. unfold inv_opt. rewrite (Qeq_bool_compat0 m m' E). destruct (Qeq_bool m' 0); cbn; [exact I | now rewrite E]. Qed.
Lemma scale1_compat (g : bool) m m' : m == m' ->
  orel Qeq ((if g then scale_guarded1 else scale_unguarded1) m) ((if g then scale_guarded1 else scale_unguarded1) m').
Proof.
  intros E. destruct g; [|now apply inv_opt_compat]. rewrite !scale_guarded1_some. cbn. rewrite (Qeq_bool_compat0 m m' E).
  destruct (Qeq_bool m' 0); [reflexivity | now rewrite E].
Qed.
Lemma sequence_compat (sg : Q -> option Q) : (forall m m', m == m' -> orel Qeq (sg m) (sg m')) ->
  forall mx mx', veq mx mx' -> orel (Forall2 Qeq) (sequence (map sg mx)) (sequence (map sg mx')).
Proof.
  intros Hs mx mx' H. induction H as [|x y mx mx' Hx Hmx IH]; cbn [map sequence]; [constructor|].
  specialize (Hs x y Hx). destruct (sg x), (sg y); cbn in Hs; try contradiction; [|exact I].
  destruct (sequence (map sg mx)), (sequence (map sg mx')); cbn in IH; try contradiction; cbn; [now constructor | exact I].
Qed.

(** the body, split at the subtraction of the column minimum *)
Definition shifted (A : list (list Q)) : list (list Q) :=
  match A with [] => [] | r0 :: rest => map (fun r => map2 Qminus r (colmin r0 rest)) (r0 :: rest) end.
Definition tail_body (guard : bool) (M : list (list Q)) (lin : list Q) : tres :=
  match M with
  | [] => TRaised
  | s0 :: srest =>
      match sequence (map (if guard then scale_guarded1 else scale_unguarded1) (colmax s0 srest)) with
      | None => TNonFinite
      | Some sc =>
          match inv_opt (dotQ lin lin) with
          | None => TNonFinite
          | Some linv => TFinite (map (residual2 lin linv) (map (fun r => map2 Qmult sc r) (s0 :: srest)))
          end
      end
  end.

Lemma trans_body_split guard mat mulv lin :
  trans_body guard mat mulv lin = tail_body guard (shifted (map (fun r => map2 Qmult r mulv) mat)) lin.
Proof. unfold trans_body, shifted, tail_body. destruct (map (fun r => map2 Qmult r mulv) mat) as [|r0 rest]; reflexivity. Qed.

Lemma tail_compat guard lin M M' : meq M M' -> tres_eq (tail_body guard M lin) (tail_body guard M' lin).
Proof.
  intros H. destruct H as [|s0 s0' srest srest' H0 Hrest]; [exact I|]. unfold tail_body.
  assert (Hmx : veq (colmax s0 srest) (colmax s0' srest')) by (apply foldl_compat; [apply Qmax'_compat | exact Hrest | exact H0]).
  pose proof (sequence_compat _ (scale1_compat guard) _ _ Hmx) as Hs.
  destruct (sequence (map (if guard then scale_guarded1 else scale_unguarded1) (colmax s0 srest))) as [sc|],
           (sequence (map (if guard then scale_guarded1 else scale_unguarded1) (colmax s0' srest'))) as [sc'|]; cbn in Hs; try contradiction; [|exact I].
  destruct (inv_opt (dotQ lin lin)) as [linv|]; [|exact I]. cbn [tres_eq].
  apply (Forall2_map_gen (Forall2 Qeq) Qeq); [intros p p' Hp; now apply residual2_compat|].
  apply (Forall2_map_gen (Forall2 Qeq) (Forall2 Qeq)); [intros r r' Hr; apply map2_compat; [apply Qmult_compat | exact Hs | exact Hr]|].
  constructor; assumption.
Qed.

Lemma shifted_compat A A' : meq A A' -> meq (shifted A) (shifted A').
Proof.
  intros H. destruct H as [|r0 r0' rest rest' H0 Hrest]; [constructor|]. unfold shifted.
  assert (Hmn : veq (colmin r0 rest) (colmin r0' rest')) by (apply foldl_compat; [apply Qmin'_compat | exact Hrest | exact H0]).
  apply (Forall2_map_gen (Forall2 Qeq) (Forall2 Qeq)); [intros r r' Hr; apply map2_compat; [apply Qminus_compat | exact Hr | exact Hmn]|].
  constructor; assumption.
Qed.

Definition addv (u r : list Q) : list Q := map2 Qplus r u.

Lemma Qmin'_shift x y u : Qmin' (x + u) (y + u) == Qmin' x y + u.
Proof.
  unfold Qmin'. assert (E : Qle_bool (x + u) (y + u) = Qle_bool x y).
  { destruct (Qle_bool (x + u) (y + u)) eqn:A, (Qle_bool x y) eqn:B; try reflexivity.
    - apply Qle_bool_iff in A. apply Qle_bool_false in B. lra.
    - apply Qle_bool_iff in B. apply Qle_bool_false in A. lra. }
  rewrite E. destruct (Qle_bool x y); reflexivity.
Qed.

Lemma map2_min_shift : forall a b u, length a = length u -> length b = length u ->
  veq (map2 Qmin' (addv u a) (addv u b)) (addv u (map2 Qmin' a b)).
Proof.
  unfold addv. induction a as [|x a IH]; intros [|y b] [|w u] L1 L2; cbn in L1, L2; try discriminate; [constructor|].
  cbn [map2]. constructor; [apply Qmin'_shift | apply IH; lia].
Qed.

Lemma addv_length u r : length r = length u -> length (addv u r) = length u.
Proof. intros H. unfold addv. rewrite map2_length, H. apply Nat.min_id. Qed.

Lemma colmin_shift (u : list Q) : forall rest r0, length r0 = length u -> Forall (fun r => length r = length u) rest ->
  veq (colmin (addv u r0) (map (addv u) rest)) (addv u (colmin r0 rest)).
Proof.
  unfold colmin. induction rest as [|r1 rest IH]; intros r0 L0 HR; cbn [map fold_left]; [apply veq_refl|].
  inversion HR as [|? ? L1 HR']; subst.
  eapply veq_trans.
  - apply foldl_compat; [apply Qmin'_compat | apply meq_refl | apply map2_min_shift; assumption].
  - apply IH; [rewrite map2_length, L0, L1; apply Nat.min_id | exact HR'].
Qed.

Lemma sub_shift : forall r mn u, length r = length u -> length mn = length u ->
  veq (map2 Qminus (addv u r) (addv u mn)) (map2 Qminus r mn).
Proof.
  unfold addv. induction r as [|x r IH]; intros [|y mn] [|w u] L1 L2; cbn in L1, L2; try discriminate; [constructor|].
  cbn [map2]. constructor; [ring | apply IH; lia].
Qed.

Lemma colmin_length (u : list Q) : forall rest r0, length r0 = length u -> Forall (fun r => length r = length u) rest -> length (colmin r0 rest) = length u.
Proof.
  unfold colmin. induction rest as [|r1 rest IH]; intros r0 L0 HR; cbn [fold_left]; [exact L0|].
  inversion HR as [|? ? L1 HR']; subst. apply IH; [rewrite map2_length, L0, L1; apply Nat.min_id | exact HR'].
Qed.

Lemma Forall_map2_gen {A C} (P : A -> Prop) (S : C -> C -> Prop) (f g : A -> C) :
  (forall x, P x -> S (f x) (g x)) -> forall l, Forall P l -> Forall2 S (map f l) (map g l).
Proof. intros H l F. induction F; cbn; constructor; auto. Qed.

Lemma shifted_shift (u : list Q) A : Forall (fun r => length r = length u) A -> meq (shifted (map (addv u) A)) (shifted A).
Proof.
  intros HR. destruct A as [|r0 rest]; [constructor|]. inversion HR as [|? ? L0 HR']; subst.
  change (shifted (map (addv u) (r0 :: rest)))
    with (map (fun r => map2 Qminus r (colmin (addv u r0) (map (addv u) rest))) (map (addv u) (r0 :: rest))).
  change (shifted (r0 :: rest)) with (map (fun r => map2 Qminus r (colmin r0 rest)) (r0 :: rest)).
  rewrite map_map.
  apply (Forall_map2_gen (fun r => length r = length u)); [|exact HR].
  intros r Lr. eapply veq_trans.
  - apply map2_compat; [apply Qminus_compat | apply veq_refl | apply colmin_shift; assumption].
  - apply sub_shift; [exact Lr | now apply colmin_length].
Qed.

Lemma row_distr : forall r t w, length r = length t -> length t = length w ->
  veq (map2 Qmult (map2 Qplus r t) w) (addv (map2 Qmult t w) (map2 Qmult r w)).
Proof.
  unfold addv. induction r as [|x r IH]; intros [|y t] [|z w] L1 L2; cbn in L1, L2; try discriminate; [constructor|].
  cbn [map2]. constructor; [ring | apply IH; lia].
Qed.

Lemma translation_invariant_lemma m guard mat t mulv lin : rectm m mat -> length t = m -> length mulv = m ->
  tres_eq (trans_body guard (map (fun r => map2 Qplus r t) mat) mulv lin) (trans_body guard mat mulv lin).
Proof.
  intros HR Lt Lw. rewrite !trans_body_split. apply tail_compat. rewrite map_map.
  set (u := map2 Qmult t mulv). assert (Lu : length u = m) by (unfold u; rewrite map2_length, Lt, Lw; apply Nat.min_id).
  apply meq_trans with (shifted (map (addv u) (map (fun r => map2 Qmult r mulv) mat))).
  - apply shifted_compat. rewrite map_map. apply (Forall_map2_gen (fun r => length r = m)); [|exact HR].
    intros r Lr. apply row_distr; congruence.
  - apply shifted_shift. rewrite Forall_map. eapply Forall_impl; [|exact HR]. cbv beta. intros r Lr.
    rewrite map2_length, Lr, Lw, Lu. apply Nat.min_id.
Qed.

Lemma tres_eq_refl a : tres_eq a a.
Proof. destruct a; cbn; auto. apply veq_refl. Qed.

Lemma translation_invariant_core m mat t minmax pw : rectm m mat -> length t = m -> length minmax = m ->
  tres_eq (trans_core (map (fun r => map2 Qplus r t) mat) minmax pw) (trans_core mat minmax pw).
Proof.
  intros HR Lt Lw. unfold trans_core.
  destruct (negb (forallb (Qle_bool 0) pw)); [exact I|]. destruct (negb (existsb (Qlt_bool 0) pw)); [exact I|].
  destruct (negb (Qlt_bool 0 (dotQ pw pw))); [exact I|]. now apply (translation_invariant_lemma m).
Qed.

(** * the geometric reading of the result *)
Lemma fold_map2_length (f : Q -> Q -> Q) (n : nat) : forall rest r0, length r0 = n -> Forall (fun r => length r = n) rest ->
  length (fold_left (map2 f) rest r0) = n.
Proof.
  induction rest as [|r1 rest IH]; intros r0 L0 HR; cbn [fold_left]; [exact L0|].
  pose proof (Forall_inv HR) as L1. pose proof (Forall_inv_tail HR) as HR'. cbv beta in L1.
  apply IH; [rewrite map2_length, L0, L1; apply Nat.min_id | exact HR'].
Qed.

Lemma normalised_rect m mat mulv : rectm m mat -> length mulv = m -> Forall (fun p => length p = m) (normalised mat mulv).
Proof.
  intros HR Lw. unfold normalised.
  assert (HA : Forall (fun r => length r = m) (map (fun r => map2 Qmult r mulv) mat)).
  { rewrite Forall_map. eapply Forall_impl; [|exact HR]. cbv beta. intros r Lr. rewrite map2_length, Lr, Lw. apply Nat.min_id. }
  destruct (map (fun r => map2 Qmult r mulv) mat) as [|r0 rest]; [constructor|].
  pose proof (Forall_inv HA) as L0. pose proof (Forall_inv_tail HA) as HA'. cbv beta in L0.
  assert (Lmn : length (colmin r0 rest) = m) by (apply fold_map2_length; assumption).
  assert (H2 : Forall (fun r => length r = m) (map (fun r => map2 Qminus r (colmin r0 rest)) (r0 :: rest))).
  { rewrite Forall_map. eapply Forall_impl; [|exact HA]. cbv beta. intros r Lr. rewrite map2_length, Lr, Lmn. apply Nat.min_id. }
  destruct (map (fun r => map2 Qminus r (colmin r0 rest)) (r0 :: rest)) as [|s0 srest] eqn:E2; [constructor|].
  pose proof (Forall_inv H2) as Ls0. pose proof (Forall_inv_tail H2) as H2'. cbv beta in Ls0.
  assert (Lmx : length (colmax s0 srest) = m) by (apply fold_map2_length; assumption).
  rewrite Forall_map. eapply Forall_impl; [|exact H2]. cbv beta. intros r Lr. rewrite map2_length, map_length, Lmx, Lr. apply Nat.min_id.
Qed.

Lemma dist_geometric m mat mulv lin : rectm m mat -> mat <> [] -> length mulv = m -> length lin = m ->
  Exists (fun x => ~ x == 0) lin ->
  trans_body true mat mulv lin = TFinite (map (residual2 lin (/ dotQ lin lin)) (normalised mat mulv)) /\
  length (normalised mat mulv) = length mat /\
  Forall (fun p => length p = m /\
                   residual2 lin (/ dotQ lin lin) p == dotQ p p - dotQ p lin * dotQ p lin / dotQ lin lin /\
                   (forall t, residual2 lin (/ dotQ lin lin) p <= dist2_to lin p t) /\
                   dotQ (map2 Qminus p (map (fun l => (/ dotQ lin lin * dotQ p lin) * l) lin)) lin == 0)
         (normalised mat mulv).
Proof.
  intros HR Hm Lw Ll HL. assert (H : ~ dotQ lin lin == 0) by (pose proof (dot_self_pos lin HL); lra).
  split; [now apply trans_body_guarded|]. split; [apply normalised_length|].
  eapply Forall_impl; [|apply (normalised_rect m); assumption]. cbv beta. intros p Lp.
  assert (Lpl : length p = length lin) by congruence.
  split; [exact Lp|]. split; [now apply residual2_closed_form|]. split; [intro t; now apply residual2_minimal | now apply residual_orthogonal].
Qed.
