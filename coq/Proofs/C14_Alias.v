(** C14 — aliasing of the returned tables (Model/C14_Alias.v) *)
From Coq Require Import String Lia.
From PV Require Import Lib.Common Model.C14_Pheno Model.C14_Alias.

Lemma hwrite_app_fresh (h : heap) (a : list str) (i : nat) (v : str) : hwrite (h ++ [a]) (length h) i v = h ++ [set_nth i v a].
Proof. induction h as [|x h IH]; cbn; [reflexivity | now rewrite IH]. Qed.
Lemma hwrite_length (h : heap) : forall l i v, length (hwrite h l i v) = length h.
Proof. induction h as [|x h IH]; intros [|l] i v; cbn; try reflexivity. now rewrite IH. Qed.
Lemma hread_app_old (h : heap) (x : list str) (l : nat) : (l < length h)%nat -> hread (h ++ [x]) l = hread h l.
Proof. intro H. unfold hread. now apply app_nth1. Qed.

(** a write into the table of G_E_Phenotyping never reaches an array that existed before the call *)
Lemma ge_column_isolated (h : heap) (n : nat) (taxa : option nat) (k i : nat) (v : str) (l : nat) : (l < length h)%nat ->
  let '(h', c) := ge_taxa_column h n taxa k in hread (hwrite h' c i v) l = hread h l.
Proof. intro H. unfold ge_taxa_column, halloc. rewrite hwrite_app_fresh. now apply hread_app_old. Qed.

(** the same holds for TruePhenotyping, with generated AND with explicit labels (full strength since the repair of
    C14-truepheno-table-shares-labels: the column is a copy of the population's array) *)
Lemma tp_column_isolated (h : heap) (n : nat) (taxa : option nat) (i : nat) (v : str) (l : nat) : (l < length h)%nat ->
  let '(h', c) := tp_taxa_column h n taxa in hread (hwrite h' c i v) l = hread h l.
Proof. intro H. unfold tp_taxa_column, halloc. rewrite hwrite_app_fresh. now apply hread_app_old. Qed.
(** ... and the column carries the population's labels (the copy is faithful), resp. the generated ones *)
Lemma tp_column_content (h : heap) (n : nat) (taxa : option nat) :
  let '(h', c) := tp_taxa_column h n taxa in
  hread h' c = match taxa with Some l => hread h l | None => auto_labels "Taxon"%string n end.
Proof. unfold tp_taxa_column, halloc, hread. rewrite app_nth2 by lia. now rewrite Nat.sub_diag. Qed.

(** the probe observable of the harness is constantly true for the repaired code *)
Lemma tp_table_isolated_true (n : nat) (taxa : option (list str)) : tp_table_isolated n taxa = true.
Proof.
  unfold tp_table_isolated, probe_isolated. destruct taxa as [a|].
  - pose proof (tp_column_isolated [a] n (Some 0%nat) 0 "__mut__"%string 0) as H.
    destruct (tp_taxa_column [a] n (Some 0%nat)) as [h' c]. cbn [length seq forallb]. rewrite H by (cbn; lia).
    unfold sl_eqb. rewrite list_eqb_refl by exact String.eqb_refl. reflexivity.
  - destruct (tp_taxa_column [] n None) as [h' c]. reflexivity.
Qed.

(** regression witness — the FORMER code: with explicit labels the column WAS the population's array, a write into the table
    changed the population's labels; with generated labels it was isolated (the former `_partial` statement) *)
Lemma old_tp_column_isolated_generated (h : heap) (n i : nat) (v : str) (l : nat) : (l < length h)%nat ->
  let '(h', c) := old_tp_taxa_column h n None in hread (hwrite h' c i v) l = hread h l.
Proof. intro H. unfold old_tp_taxa_column, halloc. rewrite hwrite_app_fresh. now apply hread_app_old. Qed.
Lemma old_tp_column_aliases :
  exists (h : heap) (l i : nat) (v : str), (l < length h)%nat /\
    let '(h', c) := old_tp_taxa_column h 2 (Some l) in hread (hwrite h' c i v) l <> hread h l.
Proof. exists [["b"; "a"]%string], 0%nat, 0%nat, "zz"%string. split; [cbn; lia | cbn; discriminate]. Qed.
Lemma old_tp_table_shared : old_tp_table_isolated 2 (Some ["b"; "a"]%string) = false.
Proof. reflexivity. Qed.
