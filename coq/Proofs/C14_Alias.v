(** C14 — aliasing of the returned tables (Model/C14_Alias.v) *)
From Coq Require Import String Lia.
From PV Require Import Lib.Common Model.C14_Pheno Model.C14_Alias.

Lemma hwrite_app_fresh (h : heap) (a : list str) (i : nat) (v : str) : hwrite (h ++ [a]) (length h) i v = h ++ [set_nth i v a].
Proof. induction h as [|x h IH]; cbn; [reflexivity | now rewrite IH]. Qed.
Lemma hwrite_length (h : heap) : forall l i v, length (hwrite h l i v) = length h.
Proof. induction h as [|x h IH]; intros [|l] i v; cbn; try reflexivity. now rewrite IH. Qed.
Lemma hread_app_old (h : heap) (x : list str) (l : nat) : (l < length h)%nat -> hread (h ++ [x]) l = hread h l.
Proof. intro H. unfold hread. now apply app_nth1. Qed.

(** a write into the table of G_E_Phenotyping never reaches an array that existed before the call *)
Lemma ge_column_isolated (h : heap) (n : nat) (taxa : option nat) (k i : nat) (v : str) (l : nat) : (l < length h)%nat ->
  let '(h', c) := ge_taxa_column h n taxa k in hread (hwrite h' c i v) l = hread h l.
Proof. intro H. unfold ge_taxa_column, halloc. rewrite hwrite_app_fresh. now apply hread_app_old. Qed.

(** generated labels: the same holds for TruePhenotyping *)
Lemma tp_column_isolated_generated (h : heap) (n i : nat) (v : str) (l : nat) : (l < length h)%nat ->
  let '(h', c) := tp_taxa_column h n None in hread (hwrite h' c i v) l = hread h l.
Proof. intro H. unfold tp_taxa_column, halloc. rewrite hwrite_app_fresh. now apply hread_app_old. Qed.

(** explicit labels: the column IS the population's array — a write into the table changes the population's labels *)
Lemma tp_column_aliases :
  exists (h : heap) (l i : nat) (v : str), (l < length h)%nat /\
    let '(h', c) := tp_taxa_column h 2 (Some l) in hread (hwrite h' c i v) l <> hread h l.
Proof. exists [["b"; "a"]%string], 0%nat, 0%nat, "zz"%string. split; [cbn; lia | cbn; discriminate]. Qed.
