(** C19 — points ON the preference line: the distance is exactly 0 there and nowhere else (the squared residual vanishes iff
    the min-max-scaled point is a non-negative multiple of the preference vector), for the model and for the bodies assembled
    from the generated kernels; and the meaning of the tolerance comparison [dist_close] of Model/C19_Tol.v. *)
From Coq Require Import Lqa Lia Setoid Morphisms.
From PV Require Import Lib.Common Model.C19_Pareto Model.C19_Tol Proofs.C19_Pareto Proofs.C19_Order Proofs.C19_Dist Proofs.C19_Norm
  Gen.C19_Kernel Proofs.C19_Kernel.
Local Open Scope Q_scope.

(** * a sum of squares vanishes only when every term does *)
Lemma sumsq_nonneg l : 0 <= sumQ (map sq l).
Proof. induction l as [|x l IH]; [cbn; lra|]. cbn [map]. rewrite sumQ_cons. pose proof (sq_nonneg x). unfold sq at 1. lra. Qed.

Lemma sumsq_zero l : sumQ (map sq l) == 0 -> Forall (fun x => x == 0) l.
Proof.
  induction l as [|x l IH]; intros H; [constructor|]. cbn [map] in H. rewrite sumQ_cons in H.
  pose proof (sumsq_nonneg l) as Hl. pose proof (sq_nonneg x) as Hx. unfold sq at 1 in H.
  constructor.
  - destruct (Qeq_dec x 0) as [E|N]; [exact E|]. pose proof (sq_pos x N). lra.
  - apply IH. lra.
Qed.

Lemma sumsq_all_zero l : Forall (fun x => x == 0) l -> sumQ (map sq l) == 0.
Proof. induction 1 as [|x l Hx _ IH]; [reflexivity|]. cbn [map]. rewrite sumQ_cons, IH. unfold sq. rewrite Hx. ring. Qed.

Lemma diff_zero_veq : forall p q, length p = length q -> (Forall (fun x => x == 0) (map2 Qminus p q) <-> Forall2 Qeq p q).
Proof.
  induction p as [|x p IH]; intros [|y q] Hlen; cbn [length] in Hlen; try discriminate.
  - cbn. split; constructor.
  - cbn [map2]. split; intros H; inversion H; subst; constructor; try (apply IH; [lia|assumption]); lra.
Qed.

(** the squared distance from p to the point t*L vanishes iff p IS that point *)
Lemma dist2_zero_iff L p t : length p = length L -> (dist2_to L p t == 0 <-> Forall2 Qeq p (map (fun l => t * l) L)).
Proof.
  intros Hlen. unfold dist2_to. rewrite <- diff_zero_veq by now rewrite map_length. split; [apply sumsq_zero | apply sumsq_all_zero].
Qed.

Lemma dot_nonneg : forall p L, Forall (fun x => 0 <= x) p -> Forall (fun x => 0 <= x) L -> 0 <= dotQ p L.
Proof.
  induction p as [|x p IH]; intros L Hp HL; [rewrite dotQ_nil_l; lra|]. destruct L as [|l L]; [unfold dotQ; cbn; lra|].
  inversion Hp; subst. inversion HL; subst. rewrite dotQ_cons. pose proof (IH L H2 H4). pose proof (Qmult_le_0_compat x l H1 H3). lra.
Qed.

(** the squared residual vanishes iff the point is a multiple of the line vector ... *)
Lemma residual2_zero_iff L p : length p = length L -> ~ dotQ L L == 0 ->
  (residual2 L (/ dotQ L L) p == 0 <-> exists t, Forall2 Qeq p (map (fun l => t * l) L)).
Proof.
  intros Hlen HL. split.
  - intros H. exists (/ dotQ L L * dotQ p L). apply dist2_zero_iff; [exact Hlen|]. now rewrite <- residual2_is_dist2.
  - intros [t Ht]. apply (dist2_zero_iff L p t Hlen) in Ht. pose proof (residual2_minimal L p t Hlen HL). pose proof (residual2_nonneg L (/ dotQ L L) p). lra.
Qed.

(** ... a NON-NEGATIVE multiple when the point and the line vector have non-negative entries *)
Lemma residual2_zero_iff_nonneg L p : length p = length L -> Forall (fun x => 0 <= x) p -> Forall (fun x => 0 <= x) L -> Exists (fun x => 0 < x) L ->
  (residual2 L (/ dotQ L L) p == 0 <-> exists t, 0 <= t /\ Forall2 Qeq p (map (fun l => t * l) L)).
Proof.
  intros Hlen Hp HL0 HLp.
  assert (HLL : 0 < dotQ L L) by (apply dot_self_pos; eapply Exists_impl; [|exact HLp]; cbv beta; intros; lra).
  assert (HL : ~ dotQ L L == 0) by lra.
  split.
  - intros H. exists (/ dotQ L L * dotQ p L). split.
    + apply Qmult_le_0_compat; [apply Qlt_le_weak, Qinv_lt_0_compat, HLL | now apply dot_nonneg].
    + apply dist2_zero_iff; [exact Hlen|]. now rewrite <- residual2_is_dist2.
  - intros [t [_ Ht]]. apply (residual2_zero_iff L p Hlen HL). now exists t.
Qed.

Lemma on_line_zero L p t : length p = length L -> ~ dotQ L L == 0 -> Forall2 Qeq p (map (fun l => t * l) L) ->
  residual2 L (/ dotQ L L) p == 0.
Proof. intros Hlen HL H. apply residual2_zero_iff; [assumption..|]. now exists t. Qed.

(** * the same about the results of the three functions *)
Lemma nth_map_res (f : list Q -> Q) (l : list (list Q)) (i : nat) : (i < length l)%nat -> nth i (map f l) 0 = f (nth i l []).
Proof. revert i. induction l as [|x l IH]; intros [|i] H; cbn in *; try lia; [reflexivity|]. apply IH. lia. Qed.

Lemma range_nonneg (p : list Q) : Forall (fun y => 0 <= y <= 1) p -> Forall (fun y => 0 <= y) p.
Proof. intros H. eapply Forall_impl; [|exact H]. cbv beta. intros a [A _]. exact A. Qed.

Lemma core_zero_iff m mat sign pref i : rectm m mat -> length sign = m -> length pref = m ->
  Forall (fun x => 0 <= x) pref -> Exists (fun x => 0 < x) pref -> (i < length mat)%nat ->
  exists d2, trans_core mat sign pref = TFinite d2 /\ length d2 = length mat /\
    (nth i d2 0 == 0 <-> exists t, 0 <= t /\ Forall2 Qeq (nth i (normalised mat sign) []) (map (fun l => t * l) pref)).
Proof.
  intros HR Ls Lp P0 Pp Hi.
  assert (Hm : mat <> []) by (destruct mat; [cbn in Hi; lia | discriminate]).
  assert (HLL : 0 < dotQ pref pref) by (apply dot_self_pos; eapply Exists_impl; [|exact Pp]; cbv beta; intros; lra).
  assert (HL : ~ dotQ pref pref == 0) by lra.
  exists (map (residual2 pref (/ dotQ pref pref)) (normalised mat sign)).
  split; [rewrite trans_core_body by assumption; now apply trans_body_guarded|].
  split; [now rewrite map_length, normalised_length|].
  assert (Hi' : (i < length (normalised mat sign))%nat) by now rewrite normalised_length.
  rewrite nth_map_res by exact Hi'.
  set (p := nth i (normalised mat sign) []).
  assert (In p (normalised mat sign)) as Hin by (apply nth_In; exact Hi').
  pose proof (normalised_rect m mat sign HR Ls) as Rn. rewrite Forall_forall in Rn.
  pose proof (normalised_range m mat sign HR Ls) as Rg. rewrite Forall_forall in Rg.
  apply residual2_zero_iff_nonneg; [rewrite (Rn p Hin); now symmetry | apply range_nonneg, Rg, Hin | assumption..].
Qed.

(** all three functions (the selection copies ARE the core function on this domain) *)
Lemma zero_iff_on_line m mat sign pref i : rectm m mat -> length sign = m -> length pref = m ->
  Forall (fun x => 0 <= x) pref -> Exists (fun x => 0 < x) pref -> (i < length mat)%nat ->
  exists d2, trans_core mat sign pref = TFinite d2 /\ trans_sel_prob mat sign pref = TFinite d2 /\ trans_sel_fn mat sign pref = TFinite d2 /\
    length d2 = length mat /\
    (nth i d2 0 == 0 <-> exists t, 0 <= t /\ Forall2 Qeq (nth i (normalised mat sign) []) (map (fun l => t * l) pref)).
Proof.
  intros HR Ls Lp P0 Pp Hi. destruct (core_zero_iff m mat sign pref i HR Ls Lp P0 Pp Hi) as [d2 [E [Ld H]]].
  destruct (sel_is_core mat sign pref P0 Pp) as [E1 E2]. exists d2. rewrite E1, E2. repeat split; try assumption; apply H.
Qed.

Lemma Forall2_nth_Q : forall (x y : list Q) i, Forall2 Qeq x y -> nth i x 0 == nth i y 0.
Proof. intros x y i H. revert i. induction H as [|a b x y Hab _ IH]; intros [|i]; cbn; try reflexivity; [exact Hab | apply IH]. Qed.

Lemma tres_eq_finite a y : tres_eq a (TFinite y) -> exists x, a = TFinite x /\ Forall2 Qeq x y.
Proof. destruct a as [| |x]; cbn; try contradiction. intros H. now exists x. Qed.

Lemma Forall2_length_Q (x y : list Q) : Forall2 Qeq x y -> length x = length y.
Proof. induction 1; cbn; congruence. Qed.

(** the bodies assembled from the kernel expressions of the CURRENT source (Gen/C19_Kernel.v) *)
Lemma kern_zero_iff_on_line m mat sign pref i : rectm m mat -> length sign = m -> length pref = m ->
  Forall (fun x => 0 <= x) pref -> Exists (fun x => 0 < x) pref -> (i < length mat)%nat ->
  forall r, In r [kern_core mat sign pref; kern_body K_prob mat sign pref; kern_body K_fn mat sign pref] ->
  exists d2, r = TFinite d2 /\ length d2 = length mat /\
    (nth i d2 0 == 0 <-> exists t, 0 <= t /\ Forall2 Qeq (nth i (normalised mat sign) []) (map (fun l => t * l) pref)).
Proof.
  intros HR Ls Lp P0 Pp Hi r Hr.
  destruct (core_zero_iff m mat sign pref i HR Ls Lp P0 Pp Hi) as [d2 [E [Ld H]]].
  assert (T : tres_eq r (TFinite d2)).
  { rewrite <- E. destruct (kern_sel_is_core mat sign pref P0 Pp) as [K1 K2].
    destruct Hr as [<-|[<-|[<-|[]]]]; [apply kern_core_model | exact K1 | exact K2]. }
  destruct (tres_eq_finite r d2 T) as [x [Ex Fx]]. exists x. split; [exact Ex|]. split; [rewrite (Forall2_length_Q x d2 Fx); exact Ld|].
  rewrite (Forall2_nth_Q x d2 i Fx). exact H.
Qed.

(** * the tolerance comparison: against a model distance of exactly 0 only results in [0, 2^-40] pass; the comparison implies
    the older one on the squares (it is a strengthening) *)
Lemma Qle_bool_true x y : Qle_bool x y = true <-> x <= y.
Proof. apply Qle_bool_iff. Qed.

Lemma dist_close_zero x y : y == 0 -> (dist_close x y = true <-> 0 <= x <= dist_tol).
Proof.
  intros Hy. unfold dist_close. rewrite !andb_true_iff, orb_true_iff, !Qle_bool_true.
  assert (0 < dist_tol) by reflexivity.
  split.
  - intros [[H0 _] [H1|H1]]; [split; assumption|].
    assert (Z : (x - dist_tol) * (x - dist_tol) == 0) by (pose proof (sq_nonneg (x - dist_tol)); lra).
    destruct (Qeq_dec (x - dist_tol) 0) as [E|N]; [lra | pose proof (sq_pos _ N); lra].
  - intros [H0 H1]. split; [split; [exact H0|] | left; exact H1]. rewrite Hy. apply sq_nonneg.
Qed.

Lemma tres_agree_t_implies m o : tres_agree_t m o = true -> tres_agree m o = true.
Proof.
  destruct m as [| |d2], o as [| |d]; cbn; try (intro; assumption).
  revert d2. induction d as [|x d IH]; intros [|y d2]; cbn; try (intro; assumption).
  unfold dist_close_both at 1. rewrite !andb_true_iff. intros [[A _] B]. split; [exact A | now apply IH].
Qed.
