(** C02 — the programme regenerated from the source (Gen/C02_Kernel.v: the bodies of mat_meiosis / dense_meiosis, mat_dh,
    mat_mate and their dense_ copies, the map functions, the sequential-distance expressions of gdist1g, the wiring of
    rprob1g / interp_xoprob / from_gmod) is the one the hand model describes.
      - [k_*_step_model], [k_*_gamete_model], [k_*_meiosis_model]: generated text = combinator form, by [reflexivity]
        (any changed statement, operand, constant or statement order breaks this file, hence Props/C02.vo);
      - [loop_gamete_seg] / [loop_gamete_eq] / [loop_meiosis_eq]: the combinator loop computes C01's line-by-line model
        [gamete_seg], hence the per-marker reading [gamete] on which every C02 rate theorem is stated;
      - the rate theorems restated about the generated comparison ([cmp_row k_m_xo]). *)
From Coq Require Import Reals Lra String.
From PV Require Import Lib.Common Model.C01_Meiosis Proofs.C01_Meiosis Model.C02_Dist Model.C02_Check Model.C02_Loop
  Model.C11_MapFn Proofs.C11_MapFn Proofs.C02_Bern Proofs.C02_Rates Proofs.C02_Uniform Proofs.C02_Haldane Proofs.C02_Check
  Gen.C02_Kernel.
Local Open Scope Z_scope.

(** ** generated = combinator form (reflexivity) *)
Lemma k_m_step_model : k_m_step = loop_step.                              Proof. reflexivity. Qed.
Lemma k_d_step_model : k_d_step = loop_step.                              Proof. reflexivity. Qed.
Lemma k_m_gamete_model : k_m_gamete = loop_gamete k_m_xo.                 Proof. reflexivity. Qed.
Lemma k_d_gamete_model : k_d_gamete = loop_gamete k_d_xo.                 Proof. reflexivity. Qed.
Lemma k_m_meiosis_model : k_m_meiosis = loop_meiosis k_m_xo.              Proof. reflexivity. Qed.
Lemma k_d_meiosis_model : k_d_meiosis = loop_meiosis k_d_xo.              Proof. reflexivity. Qed.
Lemma k_m_shape_model a b : k_m_shape a b = (a, b).                       Proof. reflexivity. Qed.
Lemma k_d_shape_model a b : k_d_shape a b = (a, b).                       Proof. reflexivity. Qed.
Lemma k_draw_range : k_m_low = 0%Q /\ k_m_high = 1%Q /\ k_d_low = 0%Q /\ k_d_high = 1%Q.
Proof. repeat split; reflexivity. Qed.
Lemma k_m_dh_model geno sel xoprob rnd : k_m_dh geno sel xoprob rnd = [k_m_meiosis geno sel xoprob rnd; k_m_meiosis geno sel xoprob rnd].
Proof. reflexivity. Qed.
Lemma k_d_dh_model geno sel xoprob rnd : k_d_dh geno sel xoprob rnd = [k_d_meiosis geno sel xoprob rnd; k_d_meiosis geno sel xoprob rnd].
Proof. reflexivity. Qed.
Lemma k_m_mate_model fg mg fs ms xoprob r0 r1 : k_m_mate fg mg fs ms xoprob r0 r1 = [k_m_meiosis fg fs xoprob r0; k_m_meiosis mg ms xoprob r1].
Proof. reflexivity. Qed.
Lemma k_d_mate_model fg mg fs ms xoprob r0 r1 : k_d_mate fg mg fs ms xoprob r0 r1 = [k_d_meiosis fg fs xoprob r0; k_d_meiosis mg ms xoprob r1].
Proof. reflexivity. Qed.

(** ** the comparison: strictly below *)
Lemma Qltb_negb_le u p : negb (Qle_bool p u) = Qltb u p.
Proof. unfold Qle_bool, Qltb. now rewrite Z.ltb_antisym. Qed.
Lemma k_m_xo_model u p : k_m_xo u p = Qltb u p.   Proof. apply Qltb_negb_le. Qed.
Lemma k_d_xo_model u p : k_d_xo u p = Qltb u p.   Proof. apply Qltb_negb_le. Qed.

Lemma cmp_row_xo f : (forall u p, f u p = Qltb u p) -> forall xoprob rnd, cmp_row f rnd xoprob = xo_row rnd xoprob.
Proof. intros Hf. induction xoprob as [|p t IH]; intros rnd; cbn; [reflexivity|]. now rewrite Hf, IH. Qed.
Lemma k_m_xo_row rnd xoprob : cmp_row k_m_xo rnd xoprob = xo_row rnd xoprob.   Proof. apply cmp_row_xo, k_m_xo_model. Qed.
Lemma k_d_xo_row rnd xoprob : cmp_row k_d_xo rnd xoprob = xo_row rnd xoprob.   Proof. apply cmp_row_xo, k_d_xo_model. Qed.

(** ** the segment-copy loop *)
Lemma geno_row_b2z geno ph s : geno_row geno (b2z ph) (Z.of_nat s) = if ph then row geno 1 s else row geno 0 s.
Proof.
  unfold geno_row. replace (b2z ph <? 0) with false by (destruct ph; reflexivity).
  replace (Z.of_nat s <? 0) with false by (symmetry; apply Z.ltb_ge; lia). cbn [orb]. rewrite Nat2Z.id. now destruct ph.
Qed.
Lemma rowQ_nat rnd i : rowQ rnd (Z.of_nat i) = nth i rnd [].
Proof. unfold rowQ. replace (Z.of_nat i <? 0) with false by (symmetry; apply Z.ltb_ge; lia). now rewrite Nat2Z.id. Qed.
Lemma b2z_negb ph : 1 - b2z ph = b2z (negb ph).   Proof. now destruct ph. Qed.

Lemma copy_seg_some out a b src : (a <= b)%nat -> (b <= length out)%nat ->
  copy_seg out (Z.of_nat a) (Some (Z.of_nat b)) src = firstn a out ++ slice a b src ++ skipn b out.
Proof. intros H1 H2. unfold copy_seg. rewrite !Nat2Z.id. now rewrite !Nat.min_l, Nat.max_r by lia. Qed.
Lemma copy_seg_none out a src : (a <= length out)%nat ->
  copy_seg out (Z.of_nat a) None src = firstn a out ++ slice a (length out) src.
Proof.
  intros H. unfold copy_seg. rewrite Nat2Z.id, Nat.min_l, Nat.max_r by lia. now rewrite skipn_all, app_nil_r.
Qed.
Lemma slice_length {A} (l : list A) a b : (a <= b)%nat -> (b <= length l)%nat -> length (slice a b l) = (b - a)%nat.
Proof. intros H1 H2. unfold slice. rewrite firstn_length, skipn_length. lia. Qed.

Lemma chain_le : forall xoix stix p, chain stix xoix p -> (stix <= p)%nat.
Proof. induction xoix as [|x t IH]; intros stix p H; cbn in H; [exact H|]. destruct H as [H1 H2]. apply IH in H2. lia. Qed.
Lemma chain_flatnonzero : forall xo i stix, (stix <= i)%nat -> chain stix (flatnonzero i xo) (i + length xo).
Proof.
  induction xo as [|x t IH]; intros i stix H; cbn [flatnonzero length]; [cbn; lia|].
  replace (i + S (length t))%nat with (S i + length t)%nat by lia.
  destruct x; [cbn [chain]; split; [exact H | apply IH; lia] | apply IH; lia].
Qed.

Lemma loop_fold geno i s p : length (row geno 0 s) = p -> length (row geno 1 s) = p ->
  forall xoix ph stix out, length out = p -> chain stix xoix p ->
  loop_finish geno (Z.of_nat s) (fold_left (loop_step geno i (Z.of_nat s)) (map Z.of_nat xoix) (b2z ph, Z.of_nat stix, out))
  = firstn stix out ++ seg_copy p (row geno 0 s) (row geno 1 s) xoix ph stix.
Proof.
  intros L0 L1. induction xoix as [|spix t IH]; intros ph stix out Lo Hc.
  - cbn [map fold_left loop_finish seg_copy]. cbn in Hc. rewrite copy_seg_none by lia. rewrite geno_row_b2z, Lo. reflexivity.
  - destruct Hc as [H1 H2]. pose proof (chain_le _ _ _ H2) as H3.
    cbn [map fold_left]. unfold loop_step at 2. rewrite b2z_negb, copy_seg_some by lia. rewrite geno_row_b2z.
    set (g := if ph then row geno 1 s else row geno 0 s).
    assert (Lg : length g = p) by (subst g; now destruct ph).
    assert (Ls : length (slice stix spix g) = (spix - stix)%nat) by (apply slice_length; lia).
    assert (Lf : length (firstn stix out) = stix) by (rewrite firstn_length; lia).
    rewrite IH.
    + cbn [seg_copy]. fold g. rewrite app_assoc.
      rewrite (firstn_app spix (firstn stix out ++ slice stix spix g)).
      rewrite firstn_all2 by (rewrite app_length; lia).
      replace (spix - length (firstn stix out ++ slice stix spix g))%nat with 0%nat by (rewrite app_length; lia).
      rewrite firstn_O, app_nil_r, <- app_assoc. reflexivity.
    + rewrite !app_length, skipn_length. lia.
    + exact H2.
Qed.

(** the generated loop computes the line-by-line model of C01 ... *)
Theorem loop_gamete_seg f geno rnd xoprob i s : (forall u p, f u p = Qltb u p) ->
  length (row geno 0 s) = length xoprob -> length (row geno 1 s) = length xoprob ->
  loop_gamete f geno rnd xoprob (length xoprob) (Z.of_nat i) (Z.of_nat s) = gamete_seg geno s (nth i rnd []) xoprob.
Proof.
  intros Hf L0 L1. unfold loop_gamete, gamete_seg, flatnonzeroZ. rewrite rowQ_nat, (cmp_row_xo f Hf).
  change (0, 0, blank (length xoprob)) with (b2z false, Z.of_nat 0, blank (length xoprob)).
  rewrite (loop_fold geno (Z.of_nat i) s (length xoprob) L0 L1).
  - reflexivity.
  - unfold blank. apply repeat_length.
  - rewrite <- (xo_row_length (nth i rnd []) xoprob). apply (chain_flatnonzero _ 0%nat 0%nat). lia.
Qed.
(** ... hence the per-marker gamete of the rate theorems *)
Theorem loop_gamete_eq f geno rnd xoprob i s : (forall u p, f u p = Qltb u p) ->
  length (row geno 0 s) = length xoprob -> length (row geno 1 s) = length xoprob ->
  loop_gamete f geno rnd xoprob (length xoprob) (Z.of_nat i) (Z.of_nat s) = gamete geno s (nth i rnd []) xoprob.
Proof. intros Hf L0 L1. rewrite loop_gamete_seg by assumption. now apply gamete_seg_eq. Qed.

Lemma hd_skipn {A} (d : A) : forall k l, hd d (skipn k l) = nth k l d.
Proof. induction k as [|k IH]; intros [|a l]; cbn; try reflexivity. apply IH. Qed.
Lemma tl_skipn {A} : forall k (l : list A), tl (skipn k l) = skipn (S k) l.
Proof. induction k as [|k IH]; intros [|a l]; try reflexivity. cbn [skipn] in *. apply IH. Qed.

Lemma loop_rows_from f geno xoprob rnd : (forall u p, f u p = Qltb u p) -> rows_ok (length xoprob) geno ->
  forall sel k, Forall (fun s => (s < length (nth 0 geno []))%nat) sel ->
  map (fun is_ => loop_gamete f geno rnd xoprob (length xoprob) (fst is_) (snd is_))
      (map (fun p => (Z.of_nat (fst p), Z.of_nat (snd p))) (combine (seq k (length sel)) sel))
  = meiosis_rows geno sel (skipn k rnd) xoprob.
Proof.
  intros Hf (R0 & R1 & RL). induction sel as [|s ts IH]; intros k Hs; [reflexivity|].
  inversion Hs as [|? ? Hs1 Hs2]; subst. cbn [length seq combine map meiosis_rows fst snd].
  rewrite IH by assumption. rewrite tl_skipn, hd_skipn. f_equal.
  apply loop_gamete_eq; [exact Hf| |]; unfold row.
  - rewrite Forall_forall in R0. apply R0, nth_In, Hs1.
  - rewrite Forall_forall in R1. apply R1, nth_In. lia.
Qed.
Theorem loop_meiosis_eq f geno sel xoprob rnd : (forall u p, f u p = Qltb u p) -> rows_ok (length xoprob) geno ->
  Forall (fun s => (s < length (nth 0 geno []))%nat) sel ->
  loop_meiosis f geno sel xoprob rnd = meiosis_rows geno sel rnd xoprob.
Proof. intros Hf R Hs. unfold loop_meiosis, enumerateZ. now rewrite (loop_rows_from f geno xoprob rnd Hf R sel 0%nat Hs). Qed.

(** gamete i of a call is the loop body run on (i, sel_i): row i of the draws, no other *)
Theorem loop_row_indexing f geno sel xoprob rnd i : (i < length sel)%nat ->
  nth i (loop_meiosis f geno sel xoprob rnd) []
  = loop_gamete f geno rnd xoprob (length xoprob) (Z.of_nat i) (Z.of_nat (nth i sel 0%nat)).
Proof.
  intros Hi. unfold loop_meiosis, enumerateZ.
  set (G := fun is_ : Z * Z => loop_gamete f geno rnd xoprob (length xoprob) (fst is_) (snd is_)).
  rewrite map_map. rewrite (nth_indep _ [] (G (Z.of_nat (fst (0%nat, 0%nat)), Z.of_nat (snd (0%nat, 0%nat))))).
  - rewrite (map_nth (fun p : nat * nat => G (Z.of_nat (fst p), Z.of_nat (snd p)))). rewrite combine_nth by now rewrite seq_length.
    rewrite seq_nth by exact Hi. reflexivity.
  - rewrite map_length, combine_length, seq_length. lia.
Qed.

(** ** the whole generated calls against C01's mat_meiosis / mat_dh / mat_mate *)
Definition call_ok (geno : list (list (list Z))) (sel : list nat) (xoprob : list Q) : Prop :=
  rows_ok (length xoprob) geno /\ Forall (fun s => (s < length (nth 0 geno []))%nat) sel.

Theorem k_m_meiosis_eq geno sel xoprob rnd : call_ok geno sel xoprob ->
  k_m_meiosis geno sel xoprob rnd = fst (mat_meiosis geno sel xoprob (rng0 [rnd]))
  /\ reqs (snd (mat_meiosis geno sel xoprob (rng0 [rnd]))) = [k_m_shape (length sel) (length xoprob)].
Proof. intros [R S]. split; [|reflexivity]. rewrite k_m_meiosis_model. now apply loop_meiosis_eq; [apply k_m_xo_model| |]. Qed.
Theorem k_d_meiosis_eq geno sel xoprob rnd : call_ok geno sel xoprob ->
  k_d_meiosis geno sel xoprob rnd = fst (mat_meiosis geno sel xoprob (rng0 [rnd]))
  /\ reqs (snd (mat_meiosis geno sel xoprob (rng0 [rnd]))) = [k_d_shape (length sel) (length xoprob)].
Proof. intros [R S]. split; [|reflexivity]. rewrite k_d_meiosis_model. now apply loop_meiosis_eq; [apply k_d_xo_model| |]. Qed.

Theorem k_m_dh_eq geno sel xoprob rnd : call_ok geno sel xoprob ->
  k_m_dh geno sel xoprob rnd = fst (mat_dh geno sel xoprob (rng0 [rnd])).
Proof. intros H. rewrite k_m_dh_model. destruct (k_m_meiosis_eq geno sel xoprob rnd H) as [-> _]. reflexivity. Qed.
Theorem k_d_dh_eq geno sel xoprob rnd : call_ok geno sel xoprob ->
  k_d_dh geno sel xoprob rnd = fst (mat_dh geno sel xoprob (rng0 [rnd])).
Proof. intros H. rewrite k_d_dh_model. destruct (k_d_meiosis_eq geno sel xoprob rnd H) as [-> _]. reflexivity. Qed.

(** the female meiosis consumes the first matrix of draws and fills phase 0, the male one the second and phase 1 *)
Theorem k_m_mate_eq fg mg fs ms xoprob r0 r1 : call_ok fg fs xoprob -> call_ok mg ms xoprob ->
  k_m_mate fg mg fs ms xoprob r0 r1 = fst (mat_mate fg mg fs ms xoprob (rng0 [r0; r1])).
Proof.
  intros Hf Hm. rewrite k_m_mate_model.
  destruct (k_m_meiosis_eq fg fs xoprob r0 Hf) as [-> _]. destruct (k_m_meiosis_eq mg ms xoprob r1 Hm) as [-> _]. reflexivity.
Qed.
Theorem k_d_mate_eq fg mg fs ms xoprob r0 r1 : call_ok fg fs xoprob -> call_ok mg ms xoprob ->
  k_d_mate fg mg fs ms xoprob r0 r1 = fst (mat_mate fg mg fs ms xoprob (rng0 [r0; r1])).
Proof.
  intros Hf Hm. rewrite k_d_mate_model.
  destruct (k_d_meiosis_eq fg fs xoprob r0 Hf) as [-> _]. destruct (k_d_meiosis_eq mg ms xoprob r1 Hm) as [-> _]. reflexivity.
Qed.

(** ** the rate theorems about the generated comparison and the generated loop *)
Local Open Scope Q_scope.
Theorem kernel_draws_to_bernoulli N : (0 < N)%nat -> forall xoprob f,
  EU N (length xoprob) (fun rnd => f (cmp_row k_m_xo rnd xoprob)) == E (map (bern N) xoprob) f
  /\ EU N (length xoprob) (fun rnd => f (cmp_row k_d_xo rnd xoprob)) == E (map (bern N) xoprob) f.
Proof.
  intros HN xoprob f. split.
  - rewrite <- (EU_xo_row N HN xoprob f). apply EU_ext. intros l. now rewrite k_m_xo_row.
  - rewrite <- (EU_xo_row N HN xoprob f). apply EU_ext. intros l. now rewrite k_d_xo_row.
Qed.

Theorem kernel_pair_rate N xoprob i j : (0 < N)%nat -> (i < j)%nat -> (j < length xoprob)%nat ->
  EU N (length xoprob) (fun rnd => ind (recomb i j (cmp_row k_m_xo rnd xoprob))) == (1 - prod12 (between i j (map (bern N) xoprob))) / 2
  /\ EU N (length xoprob) (fun rnd => ind (recomb i j (cmp_row k_d_xo rnd xoprob))) == (1 - prod12 (between i j (map (bern N) xoprob))) / 2.
Proof.
  intros HN Hij Hj. split.
  - rewrite <- (uniform_pair_rate N xoprob i j HN Hij Hj). apply EU_ext. intros l. now rewrite k_m_xo_row.
  - rewrite <- (uniform_pair_rate N xoprob i j HN Hij Hj). apply EU_ext. intros l. now rewrite k_d_xo_row.
Qed.

Theorem kernel_adjacent_rate N xoprob j : (0 < N)%nat -> (S j < length xoprob)%nat ->
  EU N (length xoprob) (fun rnd => ind (recomb j (S j) (cmp_row k_m_xo rnd xoprob))) == bern N (nth (S j) xoprob 0)
  /\ EU N (length xoprob) (fun rnd => ind (recomb j (S j) (cmp_row k_d_xo rnd xoprob))) == bern N (nth (S j) xoprob 0).
Proof.
  intros HN Hj. split.
  - rewrite <- (uniform_adjacent_rate N xoprob j HN Hj). apply EU_ext. intros l. now rewrite k_m_xo_row.
  - rewrite <- (uniform_adjacent_rate N xoprob j HN Hj). apply EU_ext. intros l. now rewrite k_d_xo_row.
Qed.

Theorem kernel_segregation N xoprob k j : (0 < N)%nat -> (k <= j)%nat -> (j < length xoprob)%nat -> nth k xoprob 0 = 1 # 2 ->
  EU (2 * N) (length xoprob) (fun rnd => ind (src_at j (cmp_row k_m_xo rnd xoprob))) == 1 # 2
  /\ EU (2 * N) (length xoprob) (fun rnd => ind (src_at j (cmp_row k_d_xo rnd xoprob))) == 1 # 2.
Proof.
  intros HN Hk Hj Hh. split.
  - rewrite <- (uniform_segregation N xoprob k j HN Hk Hj Hh). apply EU_ext. intros l. now rewrite k_m_xo_row.
  - rewrite <- (uniform_segregation N xoprob k j HN Hk Hj Hh). apply EU_ext. intros l. now rewrite k_d_xo_row.
Qed.

(** the gamete made by the generated loop for (i, s) reveals the running parity of the generated comparisons on row i:
    starting copy 0, toggled at every crossover, read on the draws of row i and of no other row *)
Theorem kernel_provenance geno s i rnd xoprob :
  length (row geno 0 s) = length xoprob -> length (row geno 1 s) = length xoprob ->
  Forall2 (fun a0 a1 => a0 <> a1) (row geno 0 s) (row geno 1 s) ->
  decode (row geno 0 s) (row geno 1 s) (k_m_gamete geno rnd xoprob (length xoprob) (Z.of_nat i) (Z.of_nat s))
    = Some (src (cmp_row k_m_xo (nth i rnd []) xoprob))
  /\ decode (row geno 0 s) (row geno 1 s) (k_d_gamete geno rnd xoprob (length xoprob) (Z.of_nat i) (Z.of_nat s))
    = Some (src (cmp_row k_d_xo (nth i rnd []) xoprob)).
Proof.
  intros L0 L1 D. split.
  - rewrite k_m_gamete_model, (loop_gamete_eq _ _ _ _ _ _ k_m_xo_model L0 L1), k_m_xo_row. now apply provenance_observable.
  - rewrite k_d_gamete_model, (loop_gamete_eq _ _ _ _ _ _ k_d_xo_model L0 L1), k_d_xo_row. now apply provenance_observable.
Qed.

Theorem kernel_row_indexing geno sel xoprob rnd i : (i < length sel)%nat ->
  nth i (k_m_meiosis geno sel xoprob rnd) [] = k_m_gamete geno rnd xoprob (length xoprob) (Z.of_nat i) (Z.of_nat (nth i sel 0%nat))
  /\ nth i (k_d_meiosis geno sel xoprob rnd) [] = k_d_gamete geno rnd xoprob (length xoprob) (Z.of_nat i) (Z.of_nat (nth i sel 0%nat)).
Proof.
  intros Hi. rewrite k_m_meiosis_model, k_d_meiosis_model, k_m_gamete_model, k_d_gamete_model.
  split; now apply loop_row_indexing.
Qed.

(** ** map functions, sequential distances, wiring *)
Local Open Scope R_scope.
Lemma k_haldane_model d : k_haldane d = haldane d.
Proof. unfold k_haldane, haldane. replace (IZR (-2) * d) with (- 2 * d) by lra. lra. Qed.
Lemma k_kosambi_model d : k_kosambi d = kosambi d.
Proof. unfold k_kosambi, kosambi. lra. Qed.

Theorem kernel_haldane_compose ds i j : (i < j)%nat -> (j < length ds)%nat ->
  ER (map k_haldane ds) (fun xo => indR (recomb i j xo)) = k_haldane (sumR (between i j ds)).
Proof.
  intros Hij Hj. rewrite k_haldane_model. rewrite (map_ext k_haldane haldane k_haldane_model). now apply haldane_compose.
Qed.

(** the first marker of every chromosome is given the distance +inf: both generated map functions tend to 1/2 there *)
Theorem kernel_start_half eps : 0 < eps ->
  k_s_start_inf = true /\ k_e_start_inf = true /\ (forall st sp, k_s_start_ix st sp = st /\ k_e_start_ix st sp = st)
  /\ exists D, 0 <= D /\ forall d, D <= d -> 1 / 2 - eps < k_haldane d < 1 / 2 /\ 1 / 2 - eps < k_kosambi d < 1 / 2.
Proof.
  intros He. repeat split.
  destruct (haldane_limit eps He) as (D1 & HD1 & H1). destruct (kosambi_limit eps He) as (D2 & HD2 & H2).
  exists (Rmax D1 D2). split; [apply Rle_trans with D1; [exact HD1 | apply Rmax_l]|].
  intros d Hd. rewrite k_haldane_model, k_kosambi_model. split.
  - apply H1. apply Rle_trans with (Rmax D1 D2); [apply Rmax_l | exact Hd].
  - apply H2. apply Rle_trans with (Rmax D1 D2); [apply Rmax_r | exact Hd].
Qed.

(** the other markers: distance = this position - the previous one, positions paired with an offset of exactly one *)
Lemma k_gap_model g g0 : k_s_gap g g0 = (g - g0)%Q /\ k_e_gap g g0 = (g - g0)%Q.
Proof. split; reflexivity. Qed.
Lemma k_gap_slices_model st sp :
  k_s_gap_slices st sp = ((st + 1, sp), (st, sp - 1))%Z /\ k_e_gap_slices st sp = ((st + 1, sp), (st, sp - 1))%Z.
Proof. split; reflexivity. Qed.

(** crossover probabilities assigned from a map, in terms of the generated expressions *)
Fixpoint xo_map_spec_k (mf : R -> R) (gap : Q -> Q -> Q) (prev : option (Z * Q)) (chr : list Z) (gen xo : list Q) : Prop :=
  match chr, gen, xo with
  | [], [], [] => True
  | c :: tc, g :: tg, x :: tx =>
      (match prev with
       | Some (c0, g0) => if (c0 =? c)%Z then (Rabs (mf (Q2R (gap g g0)) - Q2R x) <= Q2R (tol45 * (1 + Qabs_ x)))%R else (x == 1 # 2)%Q
       | None => (x == 1 # 2)%Q
       end) /\ xo_map_spec_k mf gap (Some (c, g)) tc tg tx
  | _, _, _ => False
  end.
Lemma xo_map_spec_k_of k mf gap : (forall d, mf d = mapfn k d) -> (forall g g0, gap g g0 = (g - g0)%Q) ->
  forall chr gen xo prev, xo_map_spec k prev chr gen xo -> xo_map_spec_k mf gap prev chr gen xo.
Proof.
  intros Hm Hg. induction chr as [|c tc IH]; intros [|g tg] [|x tx] prev H; cbn in *; try assumption.
  destruct H as [H1 H2]. split; [|now apply IH].
  destruct prev as [[c0 g0]|]; [|exact H1]. destruct (c0 =? c)%Z; [|exact H1]. now rewrite Hm, Hg.
Qed.
Theorem kernel_check_map_sound chr gen xo :
  (check_map Haldane chr gen xo = true -> xo_map_spec_k k_haldane k_s_gap None chr gen xo /\ xo_map_spec_k k_haldane k_e_gap None chr gen xo)
  /\ (check_map Kosambi chr gen xo = true -> xo_map_spec_k k_kosambi k_s_gap None chr gen xo /\ xo_map_spec_k k_kosambi k_e_gap None chr gen xo).
Proof.
  split; intros H; apply check_map_sound in H; split;
    (eapply xo_map_spec_k_of; [| |exact H]; [first [exact k_haldane_model | exact k_kosambi_model] | intros; reflexivity]).
Qed.

(** wiring: which arguments go where *)
Theorem kernel_wiring :
  (forall (C G D X : Type) (mf : D -> X) (gd : C -> G -> D) c g, k_h_rprob1g mf gd c g = mf (gd c g) /\ k_k_rprob1g mf gd c g = mf (gd c g))
  /\ (forall (M C P G X : Type) (ig : M -> C -> P -> G) (rp : M -> C -> G -> X) m c p,
        k_interp_xoprob ig rp m c p = (ig m c p, rp m c (ig m c p)))
  /\ k_embv_dh_call = ["pgmat.mat"; "numpy.repeat(i, nprogeny[i])"; "pgmat.vrnt_xoprob"; "global_prng"]%string
  /\ (forall i n : nat, map Z.to_nat (k_embv_sel (Z.of_nat i) (Z.of_nat n)) = repeat i n).
Proof.
  repeat split.
  intros i n. unfold k_embv_sel, repeatZ. rewrite Nat2Z.id. induction n as [|n IH]; cbn; [reflexivity|]. now rewrite Nat2Z.id, IH.
Qed.
