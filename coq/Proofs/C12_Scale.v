(** C12 — laws behind the phase-2 generators:
    (1) SCALE COVARIANCE: multiplying every marker effect by c multiplies every entry of every genetic (co)variance matrix by c*c
        (the harness runs the library with effects scaled by 2^e and divides the reported values by 4^e, exactly);
        the usefulness-criterion acceptance conditions are preserved by the same scaling (mean, x scaled by c >= 0; variance by c*c);
    (2) SESSIONS: in a history of in-place updates and calls on the same objects, the result of a call is the model applied to the
        state at that call — it does not depend on earlier calls (dropping them changes no later result). *)
From Coq Require Import Lqa Qfield Lia.
From PV Require Import Lib.Common Model.C12_Var Proofs.C12_Sums Proofs.C12_Chunks Proofs.C12_Var.
Local Open Scope Q_scope.

Definition scale_u (c : Q) (u : list (list Q)) : list (list Q) := map (map (Qmult c)) u.
Definition scale_setup (c : Q) (S : setup) : setup :=
  {| s_u := scale_u c (s_u S); s_chroms := s_chroms S; s_mem := s_mem S; s_D1 := s_D1 S; s_D2 := s_D2 S |}.

Lemma nth_scale_row c row tr : nth tr (map (Qmult c) row) 0 == c * nth tr row 0.
Proof.
  revert tr. induction row as [|x row IH]; intros [|tr]; simpl; try ring. apply IH.
Qed.
Lemma nth_scale_u c u i tr : nth tr (nth i (scale_u c u) []) 0 == c * nth tr (nth i u []) 0.
Proof.
  unfold scale_u. change (@nil Q) with (map (Qmult c) []) at 1. rewrite map_nth. apply nth_scale_row.
Qed.
Lemma eff_scale c u tr ga gb i : eff (scale_u c u) tr ga gb i == c * eff u tr ga gb i.
Proof. unfold eff. rewrite nth_scale_u. ring. Qed.

Lemma dsum_scale D x y x' y' c rb cb : (forall i, x' i == c * x i) -> (forall j, y' j == c * y j) ->
  dsum D x' y' rb cb == c * c * dsum D x y rb cb.
Proof.
  intros Hx Hy. unfold dsum. rewrite <- sumQ_scal. apply sumQ_ext_all. intros j. rewrite Hy.
  rewrite (sumQ_ext_all (fun i => x' i * D i j) (fun i => c * (x i * D i j))); [|intros i; rewrite Hx; ring].
  rewrite sumQ_scal. ring.
Qed.
Lemma qf_scale c S D t1 t2 ga gb rb cb : qf (scale_setup c S) D t1 t2 ga gb rb cb == c * c * qf S D t1 t2 ga gb rb cb.
Proof. unfold qf. rewrite !part_dsum. apply dsum_scale; intros; apply eff_scale. Qed.

Lemma blocked_scal chroms mem c f : blocked chroms mem (fun a b => c * f a b) == c * blocked chroms mem f.
Proof.
  unfold blocked. rewrite !qsum_sumQ. rewrite <- sumQ_scal. apply sumQ_ext_all. intros ch. rewrite !qsum_sumQ. rewrite <- sumQ_scal.
  apply sumQ_ext_all. intros rc. rewrite !qsum_sumQ. rewrite <- sumQ_scal. apply sumQ_ext_all. intros cc. reflexivity.
Qed.

Theorem lows_scale c S t1 t2 g1 g2 g3 g4 :
  twoway_low (scale_setup c S) t1 t2 g1 g2 == c * c * twoway_low S t1 t2 g1 g2 /\
  threeway_low (scale_setup c S) t1 t2 g1 g2 g3 == c * c * threeway_low S t1 t2 g1 g2 g3 /\
  quad_low (scale_setup c S) t1 t2 g1 g2 g3 g4 == c * c * quad_low S t1 t2 g1 g2 g3 g4.
Proof.
  split; [|split].
  - unfold twoway_low. cbn [s_chroms s_mem s_D1 scale_setup]. rewrite <- blocked_scal. apply blocked_ext. intros a b. apply qf_scale.
  - unfold threeway_low. cbn [s_chroms s_mem s_D1 s_D2 scale_setup].
    rewrite (blocked_ext _ _ _ (fun rb cb => (c * c) * (2 * (qf S (s_D1 S) t1 t2 g2 g1 rb cb + qf S (s_D1 S) t1 t2 g3 g1 rb cb) + qf S (s_D2 S) t1 t2 g2 g3 rb cb))).
    + rewrite blocked_scal. ring.
    + intros a b. cbv zeta. rewrite !qf_scale. ring.
  - unfold quad_low. cbn [s_chroms s_mem s_D1 s_D2 scale_setup].
    rewrite (blocked_ext _ _ _ (fun rb cb => (c * c) * (qf S (s_D2 S) t1 t2 g2 g1 rb cb + qf S (s_D1 S) t1 t2 g3 g1 rb cb + qf S (s_D1 S) t1 t2 g3 g2 rb cb
                                               + qf S (s_D1 S) t1 t2 g4 g1 rb cb + qf S (s_D1 S) t1 t2 g4 g2 rb cb + qf S (s_D2 S) t1 t2 g4 g3 rb cb))).
    + rewrite blocked_scal. ring.
    + intros a b. cbv zeta. rewrite !qf_scale. ring.
Qed.

Lemma mirror_scale c f m low low' : (forall a b, low' a b == c * low a b) -> mirror f m low' == c * mirror f m low.
Proof. intros H. unfold mirror. destruct (m <? f)%nat; [apply H|]. destruct (f <? m)%nat; [apply H | ring]. Qed.
Lemma mirror_incl_scale c f m low low' : (forall a b, low' a b == c * low a b) -> mirror_incl f m low' == c * mirror_incl f m low.
Proof. intros H. unfold mirror_incl. destruct (m <=? f)%nat; apply H. Qed.

(** every entry of every genetic (co)variance matrix scales with the square of the effect scale *)
Theorem entries_scale c S geno geno1 t1 t2 :
  (forall f m, twoway_entry (scale_setup c S) geno t1 t2 f m == c * c * twoway_entry S geno t1 t2 f m) /\
  (forall r f m, threeway_entry (scale_setup c S) geno t1 t2 r f m == c * c * threeway_entry S geno t1 t2 r f m) /\
  (forall f2 m2 f1 m1, fourway_entry (scale_setup c S) geno t1 t2 f2 m2 f1 m1 == c * c * fourway_entry S geno t1 t2 f2 m2 f1 m1) /\
  (forall f m, dihybrid_entry (scale_setup c S) geno geno1 t1 t2 f m == c * c * dihybrid_entry S geno geno1 t1 t2 f m).
Proof.
  repeat split; intros.
  - apply mirror_scale. intros a b. apply (lows_scale c S t1 t2 (row geno a) (row geno b) [] []).
  - apply mirror_incl_scale. intros a b. apply (lows_scale c S t1 t2 (row geno r) (row geno a) (row geno b) []).
  - apply mirror_incl_scale. intros a b. apply (lows_scale c S t1 t2 (row geno f2) (row geno m2) (row geno a) (row geno b)).
  - apply mirror_incl_scale. intros a b. apply (lows_scale c S t1 t2 (row geno1 a) (row geno a) (row geno1 b) (row geno b)).
Qed.

(** the genic per-marker term scales the same way *)
Theorem genic_scale c u p tr pf : genic_freq (scale_u c u) p tr pf == c * c * genic_freq u p tr pf.
Proof.
  unfold genic_freq. rewrite !qsum_sumQ. rewrite <- sumQ_scal. apply sumQ_ext_all. intros i. cbv zeta. rewrite nth_scale_u. ring.
Qed.

(** the exact acceptance conditions of the usefulness criterion are preserved by scaling (breeding values by c >= 0, variances by c*c) *)
Theorem uc_scale c si mean var x : 0 <= c -> 0 <= x - mean -> (x - mean) * (x - mean) == si * si * var ->
  0 <= c * x - c * mean /\ (c * x - c * mean) * (c * x - c * mean) == si * si * (c * c * var).
Proof.
  intros Hc Hx He. split.
  - setoid_replace (c * x - c * mean) with (c * (x - mean)) by ring. now apply Qmult_le_0_compat.
  - setoid_replace ((c * x - c * mean) * (c * x - c * mean)) with (c * c * ((x - mean) * (x - mean))) by ring. rewrite He. ring.
Qed.

(** * sessions *)
Section Sessions.
Context {St Res : Type} (f : St -> Res).
Inductive op := Upd (s : St) | Call.
Fixpoint run (s : St) (ops : list op) : list Res :=
  match ops with [] => [] | Upd s' :: t => run s' t | Call :: t => f s :: run s t end.
Definition step (s : St) (o : op) : St := match o with Upd s' => s' | Call => s end.
Definition final_state (s : St) (ops : list op) : St := fold_left step ops s.
Definition is_upd (o : op) : bool := match o with Upd _ => true | Call => false end.

Lemma run_app s ops1 ops2 : run s (ops1 ++ ops2) = run s ops1 ++ run (final_state s ops1) ops2.
Proof. revert s. induction ops1 as [|[s'|] t IH]; intros s; simpl; [reflexivity | apply IH | f_equal; apply IH]. Qed.
(** the result of a call made after any history is the function of the state at that call *)
Theorem session_call s ops : run s (ops ++ [Call]) = run s ops ++ [f (final_state s ops)].
Proof. rewrite run_app. reflexivity. Qed.
(** and that state is determined by the updates alone: earlier calls leave no trace *)
Theorem session_calls_leave_no_trace s ops : final_state s ops = final_state s (filter is_upd ops).
Proof. revert s. induction ops as [|[s'|] t IH]; intros s; simpl; [reflexivity | apply IH | apply IH]. Qed.
Theorem session_last_update s ops s' : final_state s (ops ++ [Upd s']) = s'.
Proof. unfold final_state. rewrite fold_left_app. reflexivity. Qed.
End Sessions.
