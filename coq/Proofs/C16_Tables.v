(** C16 — facts about the tables extracted from the pybrops source (Gen/C16_Fields.v) and witnesses by computation. *)
From Coq Require Import String Ascii.
From PV Require Import Lib.Common Lib.C16_Spec Model.C16_Store Model.C16_Heap Gen.C16_Fields Proofs.C16_Utf8 Proofs.C16_Store Proofs.C16_Nested.
Local Open Scope Z_scope.

Definition persistable : list cls_spec := filter (fun s => negb (String.eqb (h5_def s) "")) all_specs.
Definition flat_classes : list cls_spec := filter (fun s => forallb (fun r => negb (reader_eqb (rrd r) RDict)) (reads s)) persistable.
(** attributes that are immutable or shared on purpose (documented in the source: "rng should not be copied") *)
Definition shared_ok : list String.string := ["ploidy"; "rng"]%string.

Lemma persistable_names : map cname persistable = ["DM"; "TM"; "VrM"; "GM"; "PGM"; "BV"; "CM"; "STT"; "VM"; "ALGM"; "ADLGM"; "GE"]%string.
Proof. vm_compute. reflexivity. Qed.
Lemma flat_names : map cname flat_classes = ["DM"; "TM"; "VrM"; "GM"; "PGM"; "BV"; "CM"; "STT"; "VM"; "GE"]%string.
Proof. vm_compute. reflexivity. Qed.

Lemma tables_written_eq_read : forallb written_eq_read all_specs = true. Proof. vm_compute. reflexivity. Qed.
Lemma tables_required_unguarded : forallb required_unguarded all_specs = true. Proof. vm_compute. reflexivity. Qed.
Lemma tables_reads_reach_object : forallb reads_reach_object all_specs = true. Proof. vm_compute. reflexivity. Qed.
Lemma tables_meta_persisted : forallb meta_persisted persistable = true. Proof. vm_compute. reflexivity. Qed.
Lemma tables_copied_superset : forallb copied_superset all_specs = true. Proof. vm_compute. reflexivity. Qed.
Lemma tables_deep_is_deep : forallb (deep_is_deep shared_ok) all_specs = true. Proof. vm_compute. reflexivity. Qed.
Lemma tables_shallow_copies : forallb (shallow_copies shared_ok) all_specs = true. Proof. vm_compute. reflexivity. Qed.
Lemma tables_flat : forallb flat_spec flat_classes = true. Proof. vm_compute. reflexivity. Qed.

Lemma tables_gen : forallb gen_spec persistable = true. Proof. vm_compute. reflexivity. Qed.
Lemma gen_spec_of s : In s persistable -> gen_spec s = true.
Proof. intro H. pose proof tables_gen as T. rewrite forallb_forall in T. exact (T s H). Qed.

Lemma flat_spec_of s : In s flat_classes -> flat_spec s = true.
Proof. intro H. pose proof tables_flat as T. rewrite forallb_forall in T. exact (T s H). Qed.

(** ** witnesses *)
Definition w_rich : obj :=
  [("mat", Some (OS (VArr TI8 [2; 1] [0; 2]))); ("taxa", Some (OS (VStrs [[97]; [98]]))); ("taxa_grp", Some (OS (VArr TI64 [2] [1; 2])));
   ("ploidy", Some (OS (VInt 2)))]%string.
Definition w_poor : obj :=
  [("mat", Some (OS (VArr TI8 [2; 1] [1; 1]))); ("taxa", None); ("taxa_grp", None); ("ploidy", Some (OS (VInt 2)))]%string.
Definition w_group : option str := Some [103].

(** the behaviour before commit 5ae6bde7: the labels of the first object survive the second write *)
Lemma stale_fields_old :
  exists f1 f2, to_hdf5 VOld0 spec_GM [] w_group w_rich true = (f1, None) /\ to_hdf5 VOld0 spec_GM f1 w_group w_poor true = (f2, None)
    /\ exists o', from_hdf5 spec_GM 0 f2 w_group = inl o' /\ attr "taxa" o' = Some (OS (VStrs [[97]; [98]])) /\ attr "taxa" w_poor = None.
Proof. eexists. eexists. split; [vm_compute; reflexivity|]. split; [vm_compute; reflexivity|]. eexists. split; [vm_compute; reflexivity|]. split; reflexivity. Qed.
(** the code as it stands reads the second object back *)
Lemma stale_fields_fixed :
  exists f1 f2, to_hdf5 VCur spec_GM [] w_group w_rich true = (f1, None) /\ to_hdf5 VCur spec_GM f1 w_group w_poor true = (f2, None)
    /\ exists o', from_hdf5 spec_GM 0 f2 w_group = inl o' /\ attr "taxa" o' = None.
Proof. eexists. eexists. split; [vm_compute; reflexivity|]. split; [vm_compute; reflexivity|]. eexists. split; [vm_compute; reflexivity|]. reflexivity. Qed.
Lemma w_objs_wf : wf_obj spec_GM w_rich = true /\ wf_obj spec_GM w_poor = true /\ In spec_GM flat_classes.
Proof. split; [vm_compute; reflexivity|]. split; [vm_compute; reflexivity|]. vm_compute. tauto. Qed.

(** the behaviour before commit 6c7554cf: nested dictionaries (genomic-model hyper-parameters) were never cleared, the
    hyper-parameter of the first model survived the second write *)
Definition w_model (h : list (str * option sval)) : obj :=
  [("beta", Some (OS (VArr TF64 [1; 1] [4607182418800017408]))); ("u_misc", Some (OS (VArr TF64 [0; 1] [])));
   ("u_a", Some (OS (VArr TF64 [1; 1] [4611686018427387904]))); ("trait", None); ("model_name", Some (OS (VStr []))); ("hyperparams", Some (OD h))]%string.
Lemma stale_hyperparams_old :
  exists f1 f2, to_hdf5 VOld1 spec_ALGM [] (Some [109]) (w_model [([97], Some (VFloat 4609434218613702656))]) true = (f1, None)
    /\ to_hdf5 VOld1 spec_ALGM f1 (Some [109]) (w_model []) true = (f2, None)
    /\ exists o', from_hdf5 spec_ALGM 1 f2 (Some [109]) = inl o'
                  /\ attr "hyperparams" o' = Some (OD [([97], Some (VArr TF64 [] [4609434218613702656]))]) /\ attr "hyperparams" (w_model []) = Some (OD []).
Proof. eexists. eexists. split; [vm_compute; reflexivity|]. split; [vm_compute; reflexivity|]. eexists. split; [vm_compute; reflexivity|]. split; reflexivity. Qed.
(** the code as it stands reads the second model back *)
Lemma stale_hyperparams_fixed :
  exists f1 f2, to_hdf5 VCur spec_ALGM [] (Some [109]) (w_model [([97], Some (VFloat 4609434218613702656))]) true = (f1, None)
    /\ to_hdf5 VCur spec_ALGM f1 (Some [109]) (w_model []) true = (f2, None)
    /\ from_hdf5 spec_ALGM 1 f2 (Some [109]) = inl (w_model []).
Proof. eexists. eexists. split; [vm_compute; reflexivity|]. split; [vm_compute; reflexivity|]. vm_compute. reflexivity. Qed.
(** the reader before commit 06cf6bbd handed a str hyper-parameter back as bytes; the reader as it stands returns the str *)
Lemma lossy_hyperparams_old :
  exists f1, to_hdf5 VCur spec_ALGM [] (Some [109]) (w_model [([107], Some (VStr [114]))]) true = (f1, None)
    /\ exists o', old_from_hdf5 spec_ALGM 1 f1 (Some [109]) = inl o' /\ attr "hyperparams" o' = Some (OD [([107], Some (VBytes [114]))]).
Proof. eexists. split; [vm_compute; reflexivity|]. eexists. split; [vm_compute; reflexivity|]. reflexivity. Qed.
Lemma lossy_hyperparams_fixed :
  exists f1, to_hdf5 VCur spec_ALGM [] (Some [109]) (w_model [([107], Some (VStr [114]))]) true = (f1, None)
    /\ from_hdf5 spec_ALGM 1 f1 (Some [109]) = inl (w_model [([107], Some (VStr [114]))]).
Proof. eexists. split; [vm_compute; reflexivity|]. vm_compute. reflexivity. Qed.
(** still true of the code as it stands: a hyper-parameter whose value is None has no HDF5 representation and is dropped *)
Lemma none_hyperparam_dropped :
  exists f1, to_hdf5 VCur spec_ALGM [] (Some [109]) (w_model [([107], None)]) true = (f1, None)
    /\ from_hdf5 spec_ALGM 1 f1 (Some [109]) = inl (w_model []).
Proof. eexists. split; [vm_compute; reflexivity|]. vm_compute. reflexivity. Qed.

(** a model with hyper-parameters (float, int, str, bytes, array) meets the hypotheses of the general round trip *)
Definition w_hyper : list (str * option sval) :=
  [([97], Some (VFloat 4609434218613702656)); ([110], Some (VInt 7)); ([107], Some (VStr [114; 228])); ([98], Some (VBytes [255; 1]));
   ([118], Some (VArr TF64 [2] [0; 4607182418800017408]))].
Lemma w_model_wf : wf_obj spec_ALGM (w_model w_hyper) = true /\ In spec_ALGM persistable /\ Forall (fun kv => snd kv <> None) w_hyper
  /\ exists f', write_all VCur spec_ALGM [] (Some [109]) [w_model [([120], Some (VInt 1))]; w_model w_hyper] = (f', None).
Proof.
  split; [vm_compute; reflexivity|]. split; [vm_compute; tauto|]. split; [repeat constructor; discriminate|]. eexists. vm_compute. reflexivity.
Qed.
