(** C08 — the copy step: reproducibility after seeding and isolation of explicit generators SURVIVE programs containing copies of
    stochastic components (copies share the generator); a copy that snapshots the generator breaks both; no function of the
    current source takes such a snapshot (table obligation over the regenerated Gen/C08_Entropy.v). *)
From Coq Require Import List ZArith NArith PArith Bool Lia FMapPositive.
From PV Require Import Lib.Common Gen.C08_Entropy Model.C08_World Proofs.C08_World Model.C08_Objects.
Import ListNotations W.

(* ================================================================================================ *)
Module FPCP.
Import FP FPC.
Local Open Scope N_scope.

Lemma copies_check : forallb (fun e => negb (has COPIES (fst (snd e)))) (PositiveMap.elements tbl) = true.
Proof. vm_compute. reflexivity. Qed.

(** NO function of the package snapshots a generator (copy.copy / copy.deepcopy / pickle of a generator reference, or reading its
    state out): every node of the regenerated table, no exception *)
Theorem no_generator_snapshot : forall k, has COPIES (direct tbl k) = false.
Proof.
  intro k. rewrite FPP.direct_find. destruct (PositiveMap.find k tbl) as [[d s]|] eqn:E; [|reflexivity].
  apply PositiveMap.elements_correct in E. pose proof copies_check as H. rewrite forallb_forall in H.
  specialize (H _ E). cbn in H. now apply negb_true_iff in H.
Qed.

(** the deep-copy routes of the stochastic classes (six inherited base-class methods + G_E_Phenotyping's): they exist in the source, take
    no snapshot of a generator, and reach explicit sources only (up to the root causes that remain) *)
Lemma deepcopy_resolved : ids_of deepcopy_routes = Some deepcopy_ids /\ length deepcopy_ids = 7%nat.
Proof. split; vm_compute; reflexivity. Qed.
Lemma deepcopy_check : forallb (fun p => negb (has COPIES (direct tbl p)) && sub (fget fp_excl p) EXPLICIT_OK) deepcopy_ids = true.
Proof. vm_compute. reflexivity. Qed.
Lemma deepcopy_exist_check : forallb (fun nm => match id_of nm with Some _ => true | None => false end) deepcopy_routes = true.
Proof. vm_compute. reflexivity. Qed.
Theorem deepcopy_routes_share :
  (forall nm, In nm deepcopy_routes -> exists p, id_of nm = Some p) /\
  forall nm p, In nm deepcopy_routes -> id_of nm = Some p ->
    has COPIES (direct tbl p) = false /\ forall k, reach tbl p k -> In k root_ids \/ sub (direct tbl k) EXPLICIT_OK = true.
Proof.
  split.
  - intros nm Hin. pose proof deepcopy_exist_check as H. rewrite forallb_forall in H. specialize (H _ Hin).
    destruct (id_of nm) as [p|]; [now exists p | discriminate].
  - intros nm p Hin Hid.
    pose proof (FPP.ids_of_In _ _ (proj1 deepcopy_resolved) _ _ Hin Hid) as Hp.
    pose proof deepcopy_check as Hall. rewrite forallb_forall in Hall. specialize (Hall _ Hp).
    apply andb_prop in Hall as [H1 H2]. split; [now apply negb_true_iff in H1|].
    intros k Hr.
    pose proof (FPP.postfix_sound dir_excl tbl fp_excl FPP.post_excl p k Hr) as Hs.
    destruct (pmem k root_ids) eqn:Em; [left; now apply FPP.pmem_In|]. right.
    rewrite FPP.direct_find. destruct (PositiveMap.find k tbl) as [[d s]|]; [|apply FPP.sub_zero].
    unfold dir_excl in Hs. rewrite Em in Hs. eapply FPP.sub_trans; eauto.
Qed.

(** the mask G_E_Phenotyping.__deepcopy__ has with rng = copy.deepcopy(self.rng, memo): not explicit-only *)
Lemma snapshot_mask_refuted : sub (N.lor SELF COPIES) EXPLICIT_OK = false /\ has COPIES (N.lor SELF COPIES) = true.
Proof. split; reflexivity. Qed.
End FPCP.

(* ================================================================================================ *)
Module OBP.
Import OB.

Section Theorems.
  Variable G O : Type.
  Variable out_unit : O.
  Notation world := (world G).
  Notation call := (call G O).
  Notation step := (step G O).
  Notation compile := (compile out_unit).
  Notation run_obj := (run_obj out_unit).

  Lemma run_prog_cons (c : call) t (w : world) :
    run_prog (c :: t) w = (fst (run c w) :: fst (run_prog t (snd (run c w))), snd (run_prog t (snd (run c w)))).
  Proof. cbn [run_prog]. destruct (run c w) as [o w1]. cbn [fst snd]. destruct (run_prog t w1) as [os w2]. reflexivity. Qed.

  Lemma bind_same (e : env) d l : bind e d l d = l.
  Proof. unfold bind. now rewrite Nat.eqb_refl. Qed.

  (** ** the calls of the object layer respect their footprints *)
  Lemma use_call_respects l (f : G -> O * G) : respects (use_call l f).
  Proof.
    split.
    - intros w l' Hl. cbn in *. destruct (f (w l)) as [o g]. cbn. apply WP.upd_other. intro E. apply Hl. now left.
    - intros w1 w2 Hag. assert (E : w1 l = w2 l) by (apply Hag; now left). cbn. rewrite E.
      destruct (f (w2 l)) as [o g]. cbn. split; [reflexivity|]. intros l' [<-|[]]. now rewrite !WP.upd_same.
  Qed.
  Lemma nop_call_respects : respects (nop_call out_unit : call).
  Proof. split; [reflexivity|]. intros w1 w2 _. split; [reflexivity | intros l []]. Qed.

  (** ** weakening of [scoped] *)
  Lemma scoped_incl : forall (p : list call) A B, incl A B -> scoped A p -> scoped B p.
  Proof.
    induction p as [|c t IH]; intros A B Hi Hs; [exact I|]. cbn in *. destruct Hs as (Hr & H1 & H2 & Hs).
    split; [eapply incl_tran; eauto|]. split; [exact H1|]. split; [exact H2|].
    apply (IH (A ++ writes c)); [|exact Hs]. apply incl_app; [apply incl_appl; exact Hi | apply incl_appr, incl_refl].
  Qed.

  (** ** a well-formed object program compiles to a scoped program of footprint-respecting calls *)
  Lemma wf_compile : forall (p : list step) A e, wf A e p -> Forall respects (compile e p) /\ scoped A (compile e p).
  Proof.
    induction p as [|s t IH]; intros A e Hwf; [split; [constructor | exact I]|].
    destruct s as [c | d l | d s | o f | d s j]; cbn in Hwf |- *.
    - destruct Hwf as (Hc & Hr & H1 & H2 & Hwf). destruct (IH _ _ Hwf) as [HF Hs].
      split; [constructor; assumption|]. repeat split; assumption.
    - destruct (IH _ _ Hwf) as [HF Hs]. split; [constructor; [apply nop_call_respects | exact HF]|].
      split; [intros ? []|]. split; [intros []|]. split; [intros []|]. eapply scoped_incl; [|exact Hs]. apply incl_appl, incl_refl.
    - destruct (IH _ _ Hwf) as [HF Hs]. split; [constructor; [apply nop_call_respects | exact HF]|].
      split; [intros ? []|]. split; [intros []|]. split; [intros []|]. eapply scoped_incl; [|exact Hs]. apply incl_appl, incl_refl.
    - destruct Hwf as (Hin & Hos & Hwf). destruct (IH _ _ Hwf) as [HF Hs].
      split; [constructor; [apply use_call_respects | exact HF]|].
      split; [intros l [<-|[]]; exact Hin|]. split; [intros [H|[]]; now apply Hos|]. split; [intros [H|[]]; now apply Hos|].
      eapply scoped_incl; [|exact Hs]. apply incl_appl, incl_refl.
    - contradiction.
  Qed.

  Variable py_of_seed np_of_seed : Z -> G.
  Notation seed_call := (seed_call py_of_seed np_of_seed out_unit).

  (** SEEDED RUNS WITH COPIES ARE REPRODUCIBLE: whatever objects exist at the time of seeding (bindings [e], made by any history
      of constructions and copies) and whatever the world is, the outputs of a well-formed program of constructions, copies, uses
      and calls after seed(s) depend on (s, program, bindings) only. *)
  Theorem obj_seeded_reproducible : forall (p : list step) (e : env) (s : Z) (w1 w2 : world),
    wf [LPy; LNp] e p ->
    fst (run_obj (SCall (seed_call s) :: p) e w1) = fst (run_obj (SCall (seed_call s) :: p) e w2).
  Proof.
    intros p e s w1 w2 Hwf. destruct (wf_compile _ _ _ Hwf) as [HF Hs].
    exact (proj1 (WP.seeded_reproducible G O py_of_seed np_of_seed out_unit (compile e p) s w1 w2 HF Hs)).
  Qed.

  (** ** copies made before the seeding: objects on the global stream stay on the global stream *)
  Lemma clean_all_np : forall (h : list step) e, all_np e -> Forall clean h -> all_np (env_after e h).
  Proof.
    induction h as [|s t IH]; intros e He Hc; [exact He|]. inversion Hc as [|? ? Hs Ht]; subst. cbn. apply IH; [|exact Ht].
    destruct s as [c | d l | d s | o f | d s j]; cbn in *; try exact He; try contradiction.
    - subst l. intro o. unfold bind. destruct (Nat.eqb d o); [reflexivity | apply He].
    - intro o. unfold bind. destruct (Nat.eqb d o); apply He.
  Qed.

  Lemma compile_ext : forall (p : list step) e1 e2, (forall o, e1 o = e2 o) -> compile e1 p = compile e2 p.
  Proof.
    induction p as [|s t IH]; intros e1 e2 He; [reflexivity|]. cbn. f_equal.
    - destruct s; cbn; try reflexivity; now rewrite He.
    - apply IH. intro o. destruct s; cbn; try apply He; unfold bind; destruct (Nat.eqb _ o); try apply He; try reflexivity; now rewrite He.
  Qed.

  (** THE EXPERIMENT OF THE HARNESS: two different prior histories h1 h2 (arbitrary calls, uses of objects, constructions with
      rng = None, copies and copies of copies — no snapshot copy), starting from objects on the global stream; then seed(s); then the
      program, which may use the objects (and copies) the histories left behind: same outputs. *)
  Theorem obj_history_reproducible : forall (h1 h2 p : list step) (e1 e2 : env) (s : Z) (w1 w2 : world),
    all_np e1 -> all_np e2 -> Forall clean h1 -> Forall clean h2 -> wf [LPy; LNp] (env_after e1 h1) p ->
    fst (run_obj (SCall (seed_call s) :: p) (env_after e1 h1) (snd (run_obj h1 e1 w1))) =
    fst (run_obj (SCall (seed_call s) :: p) (env_after e2 h2) (snd (run_obj h2 e2 w2))).
  Proof.
    intros h1 h2 p e1 e2 s w1 w2 He1 He2 Hc1 Hc2 Hwf.
    pose proof (clean_all_np h1 e1 He1 Hc1) as Ha1. pose proof (clean_all_np h2 e2 He2 Hc2) as Ha2.
    assert (Hext : forall o, env_after e1 h1 o = env_after e2 h2 o) by (intro o; now rewrite Ha1, Ha2).
    unfold OB.run_obj at 1 3. cbn [OB.compile OB.step_call OB.step_env].
    rewrite <- (compile_ext p _ _ Hext).
    exact (obj_seeded_reproducible p (env_after e1 h1) s _ _ Hwf).
  Qed.

  (** A COPY BEHAVES AS ITS SOURCE: using the copy is using the source — same output, same world afterwards (in particular the
      generator the source holds is consumed; no other location is touched) *)
  Theorem copy_is_source : forall (e : env) (d s : nat) (f : G -> O * G) (w : world),
    fst (run_obj [SCopy d s; SUse d f] e w) = out_unit :: fst (run_obj [SUse s f] e w) /\
    snd (run_obj [SCopy d s; SUse d f] e w) = snd (run_obj [SUse s f] e w).
  Proof.
    intros e d s f w. unfold OB.run_obj. cbn. rewrite bind_same. destruct (f (w (e s))) as [o g]. cbn. split; reflexivity.
  Qed.

  (** EXPLICIT GENERATORS WITH COPIES ARE ISOLATED: a program of constructions with generator i, copies and uses leaves both
      global streams exactly as they were; outputs and the final state of generator i depend on its initial state only. *)
  Theorem obj_explicit_isolated : forall (i : nat) (p : list step) (e : env), only i e p ->
    forall w, snd (run_obj p e w) LPy = w LPy /\ snd (run_obj p e w) LNp = w LNp /\
      forall w', w' (LEx i) = w (LEx i) ->
        fst (run_obj p e w') = fst (run_obj p e w) /\ snd (run_obj p e w') (LEx i) = snd (run_obj p e w) (LEx i).
  Proof.
    intros i. induction p as [|s t IH]; intros e Ho w.
    - cbn. split; [reflexivity|]. split; [reflexivity|]. intros v Hv. split; [reflexivity | exact Hv].
    - destruct s as [c | d l | d s | o f | d s j]; cbn in Ho; try contradiction.
      + destruct Ho as [-> Ho]. destruct (IH _ Ho w) as (H1 & H2 & H3). unfold OB.run_obj in *.
        cbn [OB.compile OB.step_call OB.step_env]. rewrite run_prog_cons. cbn [run OB.nop_call fst snd].
        split; [exact H1|]. split; [exact H2|]. intros v Hv. rewrite run_prog_cons. cbn [run OB.nop_call fst snd].
        destruct (H3 v Hv) as [Ha Hb]. split; [now f_equal | exact Hb].
      + destruct (IH _ Ho w) as (H1 & H2 & H3). unfold OB.run_obj in *.
        cbn [OB.compile OB.step_call OB.step_env]. rewrite run_prog_cons. cbn [run OB.nop_call fst snd].
        split; [exact H1|]. split; [exact H2|]. intros v Hv. rewrite run_prog_cons. cbn [run OB.nop_call fst snd].
        destruct (H3 v Hv) as [Ha Hb]. split; [now f_equal | exact Hb].
      + destruct Ho as [Eo Ho]. unfold OB.run_obj in *. cbn [OB.compile OB.step_call OB.step_env]. rewrite run_prog_cons.
        assert (R : forall v : world, run (use_call (e o) f) v = (fst (f (v (LEx i))), upd v (LEx i) (snd (f (v (LEx i)))))).
        { intro v. cbn. rewrite Eo. destruct (f (v (LEx i))); reflexivity. }
        rewrite R. cbn [fst snd].
        destruct (IH _ Ho (upd w (LEx i) (snd (f (w (LEx i)))))) as (H1 & H2 & H3).
        rewrite WP.upd_other in H1 by discriminate. rewrite WP.upd_other in H2 by discriminate.
        split; [exact H1|]. split; [exact H2|]. intros v Hv. rewrite run_prog_cons, R. cbn [fst snd]. rewrite Hv.
        destruct (H3 (upd v (LEx i) (snd (f (w (LEx i)))))) as [Ha Hb]; [now rewrite !WP.upd_same|].
        split; [now f_equal | exact Hb].
  Qed.

  (** A DEEP COPY BEHAVES AS ITS SOURCE (the inherited [__deepcopy__] shares the generator) *)
  Theorem deepcopy_is_source : forall (e : env) (d s : nat) (f : G -> O * G) (w : world),
    fst (run_obj [deepcopy_step d s; SUse d f] e w) = out_unit :: fst (run_obj [SUse s f] e w) /\
    snd (run_obj [deepcopy_step d s; SUse d f] e w) = snd (run_obj [SUse s f] e w).
  Proof. exact copy_is_source. Qed.

  (** THE RNG SETTER RE-POINTS THE DEFAULT OPTIMISER: after [prot.rng = generator i], whatever generators the protocol and the default
      optimiser it built held before (any bindings e), every sequence of stochastic calls on the protocol and on that optimiser draws
      from generator i only *)
  Lemma only_uses i (e : env) (us : list (nat * (G -> O * G))) : (forall u, In u us -> e (fst u) = LEx i) -> only i e (uses us).
  Proof.
    induction us as [|u t IH]; intros H; [exact I|]. cbn. split; [apply H; now left|]. apply IH. intros v Hv. apply H. now right.
  Qed.
  Theorem rng_setter_only : forall (i prot algo : nat) (e : env) (us : list (nat * (G -> O * G))),
    (forall u, In u us -> fst u = prot \/ fst u = algo) -> only i e (rng_setter prot algo (LEx i) ++ uses us).
  Proof.
    intros i prot algo e us H. cbn. split; [reflexivity|]. apply only_uses. intros u Hu.
    unfold bind at 1. destruct (Nat.eqb algo (fst u)) eqn:Ea; [apply bind_same|].
    destruct (H u Hu) as [E|E].
    - rewrite E. apply bind_same.
    - rewrite E in Ea. rewrite Nat.eqb_refl in Ea. discriminate.
  Qed.
End Theorems.

(** ** a copy that snapshots the generator breaks the property (what C08-pheno-deepcopy-rng did, and what python's default deep copy did to
    every other stochastic class before C08-default-deepcopy-snapshots-rng was repaired: [old_default_deepcopy_step]) *)
Definition zuse : Z -> Z * Z := fun g => (g, (g + 1)%Z).
Definition zseed (s : Z) : call Z Z := seed_call (fun s => s) (fun s => s) 0%Z s.

(** (a) global stream: the snapshot copy is made in the history (object 0 was constructed with rng = None), then seed(s), then the
        copy is used: its output is the numpy state at COPY time, not a function of the seed *)
Theorem snapshot_copy_not_reproducible : exists (h p : list (step Z Z)) (e : env) (s : Z) (w1 w2 : world Z),
  all_np e /\ Forall (fun st => exists d s j, st = old_default_deepcopy_step d s j) h /\
  fst (run_obj 0%Z (SCall (zseed s) :: p) (env_after e h) (snd (run_obj 0%Z h e w1))) <>
  fst (run_obj 0%Z (SCall (zseed s) :: p) (env_after e h) (snd (run_obj 0%Z h e w2))).
Proof.
  exists [old_default_deepcopy_step 1 0 7], [SUse 1 zuse], (fun _ => LNp), 5%Z, (fun _ => 0%Z), (fun _ => 1%Z).
  split; [intro o; reflexivity|]. split; [constructor; [now exists 1%nat, 0%nat, 7%nat | constructor]|]. vm_compute. discriminate.
Qed.
(** ... whereas the sharing copy of the same history is reproducible (instance of [obj_history_reproducible]) *)
Example sharing_copy_reproducible : forall (s : Z) (w1 w2 : world Z),
  let e := (fun _ => LNp) : env in let h := [deepcopy_step 1 0] : list (step Z Z) in let p := [SUse 1 zuse; SCopy 2 1; SUse 2 zuse; SUse 0 zuse] in
  fst (run_obj 0%Z (SCall (zseed s) :: p) (env_after e h) (snd (run_obj 0%Z h e w1))) =
  fst (run_obj 0%Z (SCall (zseed s) :: p) (env_after e h) (snd (run_obj 0%Z h e w2))).
Proof.
  intros s w1 w2 e h p. apply obj_history_reproducible.
  - intro o; reflexivity.
  - intro o; reflexivity.
  - repeat constructor.
  - repeat constructor.
  - subst e h p. vm_compute. intuition discriminate.
Qed.

(** (b) explicit generator: the snapshot copy leaves the supplied generator unconsumed, the source consumes it *)
Theorem snapshot_copy_does_not_consume : exists (e : env) (w : world Z),
  e 0%nat = LEx 0 /\
  snd (run_obj 0%Z [old_default_deepcopy_step 1 0 7; SUse 1 zuse] e w) (LEx 0) = w (LEx 0) /\
  snd (run_obj 0%Z [SUse 0 zuse] e w) (LEx 0) <> w (LEx 0) /\
  snd (run_obj 0%Z [deepcopy_step 1 0; SUse 1 zuse] e w) (LEx 0) = snd (run_obj 0%Z [SUse 0 zuse] e w) (LEx 0).
Proof.
  exists (fun _ => LEx 0), (fun _ => 3%Z). split; [reflexivity|]. split; [vm_compute; reflexivity|].
  split; [vm_compute; discriminate | vm_compute; reflexivity].
Qed.

(** (c) the rng SETTER of a selection protocol (finding C08-selprot-rng-setter-stale-optimiser, repaired): object 0 = the protocol, object 1 =
        the default optimiser its constructor built from the constructor's generator (rng = None: numpy's global stream).  FORMER code
        ([old_rng_setter]): [prot.rng = g] rebinds object 0 only; select() lets the optimiser draw, then samples the configuration: the
        global stream is advanced although the caller supplied generator 0.  CURRENT code ([rng_setter]): the optimiser is re-pointed as
        well and the program is isolated (general statement: [rng_setter_only] + [obj_explicit_isolated]). *)
Definition old_setter_stale_prog : list (step Z Z) := [SNew 0 LNp; SCopy 1 0] ++ old_rng_setter 0 1 (LEx 0) ++ [SUse 1 zuse; SUse 0 zuse].
Definition setter_prog : list (step Z Z) := [SNew 0 LNp; SCopy 1 0] ++ rng_setter 0 1 (LEx 0) ++ [SUse 1 zuse; SUse 0 zuse].
Theorem old_setter_stale_part_not_isolated : exists (e : env) (w : world Z),
  snd (run_obj 0%Z old_setter_stale_prog e w) LNp <> w LNp /\
  snd (run_obj 0%Z setter_prog e w) LNp = w LNp /\ snd (run_obj 0%Z setter_prog e w) LPy = w LPy.
Proof.
  exists (fun _ => LNp), (fun _ => 3%Z). split; [vm_compute; discriminate|]. split; vm_compute; reflexivity.
Qed.

(** the rng setter at full strength: any prior bindings, any generator i, any sequence of stochastic calls on the protocol and on its
    default optimiser after [prot.rng = generator i]: both global streams untouched, outputs and the final state of generator i are
    functions of its state *)
Theorem rng_setter_isolated : forall (G O : Type) (out_unit : O) (i prot algo : nat) (e : env) (us : list (nat * (G -> O * G))),
  (forall u, In u us -> fst u = prot \/ fst u = algo) ->
  let p := rng_setter prot algo (LEx i) ++ uses us in
  forall w, snd (run_obj out_unit p e w) LPy = w LPy /\ snd (run_obj out_unit p e w) LNp = w LNp /\
    forall w', w' (LEx i) = w (LEx i) ->
      fst (run_obj out_unit p e w') = fst (run_obj out_unit p e w) /\
      snd (run_obj out_unit p e w') (LEx i) = snd (run_obj out_unit p e w) (LEx i).
Proof.
  intros G O u i prot algo e us H p. apply obj_explicit_isolated. apply rng_setter_only. exact H.
Qed.
Example rng_setter_hyps_satisfiable : forall u, In u [(0%nat, zuse); (1%nat, zuse); (0%nat, zuse)] -> fst u = 0%nat \/ fst u = 1%nat.
Proof. intros u [<-|[<-|[<-|[]]]]; cbn; auto. Qed.

(** non-vacuity of [only]: construct with generator 0, copy, copy the copy, use all three *)
Example only_satisfiable : only 0 (fun _ => LNp) ([SNew 0 (LEx 0); SCopy 1 0; SCopy 2 1; SUse 1 zuse; SUse 2 zuse; SUse 0 zuse] : list (step Z Z)).
Proof. cbn. repeat split. Qed.
End OBP.
