(** C18 — the kernel expressions regenerated from the source (Gen/C18_Kernel.v, rewritten by harness/translate/c18_kernel.py on every
    run) are the ones the hand model is built from.  The [g_*] functions below are the haplotype-block code COMPOSED FROM THE GENERATED
    DEFINITIONS (loops and data flow as in the model, every expression taken from the generated file); each is proved equal to the
    hand model ([..._model] lemmas: [reflexivity] / a structural induction that only unfolds the kernels).  If an expression of the
    source changes (a different guard, [<] for [<=] at a bin boundary, the reciprocal order in the ideal counts, [argmax], another
    slice in the block value, another bound in the repair pass, another axis of the shape ...) the regenerated definition no longer
    unfolds to the model's and this file — hence Props/C18.vo — stops compiling.  The main theorems are then restated about the
    [g_*] compositions themselves. *)
From PV Require Import Lib.Common Model.C18_Haplo Proofs.C18_Haplo Gen.C18_Kernel.
From Coq Require Import Lia Arith ZArith QArith Sorted.
Local Open Scope nat_scope.

Section Gen.
Context {T : Type} (O : ops T).
Notation z := (o_ofn O 0).

(** * A. nhaploblk_chrom from k_too_few, k_genlen, k_ideal, k_start, k_rounds, k_diff, k_pick, k_bump *)
Definition g_incr (ix : nat) (l : list nat) : list nat :=
  firstn ix l ++ match skipn ix l with [] => [] | x :: r => k_bump x :: r end.
Fixpoint g_apportion_loop (fuel : nat) (idl : list T) (cur : list nat) : list nat :=
  match fuel with
  | 0 => cur
  | S f => g_apportion_loop f idl (g_incr (k_pick O (map2 (k_diff O) cur idl)) cur)
  end.
Definition g_nhaploblk_chrom (nhap : nat) (gp : list T) (stix spix : list nat) : res (list nat) :=
  let nchr := length stix in
  if k_too_few nhap nchr then Err EIndex else
  let gl := map2 (k_genlen O gp) stix spix in
  Ok (g_apportion_loop (k_rounds nhap nchr) (map (k_ideal O nhap (tsum O gl)) gl) (k_start nchr)).

Lemma k_bump_S x : k_bump x = S x.
Proof. unfold k_bump. lia. Qed.
Lemma g_incr_model ix l : g_incr ix l = incr ix l.
Proof. unfold g_incr, incr. destruct (skipn ix l); [reflexivity|]. now rewrite k_bump_S. Qed.
Lemma g_apportion_loop_model fuel idl : forall cur, g_apportion_loop fuel idl cur = apportion_loop O fuel idl cur.
Proof. induction fuel as [|f IH]; intros cur; cbn [g_apportion_loop apportion_loop]; [reflexivity|]. rewrite IH, g_incr_model. reflexivity. Qed.
Lemma k_genlen_model gp stix spix : map2 (k_genlen O gp) stix spix = genlen O gp stix spix.
Proof. reflexivity. Qed.
Lemma k_ideal_model nhap gl : map (k_ideal O nhap (tsum O gl)) gl = ideal O nhap gl.
Proof. reflexivity. Qed.
Lemma g_nhaploblk_chrom_model nhap gp stix spix : g_nhaploblk_chrom nhap gp stix spix = nhaploblk_chrom O nhap gp stix spix.
Proof. unfold g_nhaploblk_chrom, nhaploblk_chrom. cbv zeta. rewrite g_apportion_loop_model. reflexivity. Qed.

(** * B. haplobin from k_chroms, k_hbound, k_chrmap, k_bin_target, k_in_bin, k_prev0, k_spread_count, k_spread_step *)
Fixpoint g_bin_label (hb : list T) (x : T) (k : nat) (acc : option nat) : option nat :=
  match hb with
  | [] => acc
  | lo :: tl => match tl with
                | [] => acc
                | hi :: _ => g_bin_label tl x (S k) (if k_in_bin O x lo hi then Some k else acc)
                end
  end.
(** the marker loop [for m in range(stix, spix)]: [rem] markers remain, i.e. m = spix - rem *)
Fixpoint g_spread_loop (k : Z) (prev : option Z) (spix : nat) (rem : nat) (l : list (option nat)) : list (option nat) :=
  match l with
  | [] => []
  | x :: r =>
      let v := match prev, x with
               | Some p, Some xv => Some (k_spread_step (Z.of_nat xv) p k (Z.of_nat spix) (Z.of_nat spix - Z.of_nat rem)%Z)
               | _, _ => None
               end in
      option_map Z.to_nat v :: g_spread_loop k v spix (rem - 1) r
  end.
Definition g_spread (k nhap st sp : nat) (lab : list (option nat)) : list (option nat) :=
  g_spread_loop (Z.of_nat k) (Some (k_prev0 (Z.of_nat k) (Z.of_nat nhap))) sp (k_spread_count st sp) lab.
Fixpoint g_haplobin_loop (gp : list T) (chroms : list (nat * (nat * nat))) (k : nat) (out : list (option nat))
  : list (option nat) :=
  match chroms with
  | [] => out
  | (nhap, (st, sp)) :: rest =>
      let hb := k_hbound O gp st sp nhap in
      let lab := map2 (fun x cur => g_bin_label hb x k cur) (k_chrmap gp st sp) (k_bin_target out st sp) in
      g_haplobin_loop gp rest (k + nhap) (write st sp (g_spread (k + nhap) nhap st sp lab) out)
  end.
Definition g_haplobin (nblk : list nat) (gp : list T) (stix spix : list nat) : list (option nat) :=
  g_haplobin_loop gp (k_chroms nblk stix spix) 0 (repeat None (length gp)).

Lemma g_bin_label_model : forall hb x k acc, g_bin_label hb x k acc = bin_label O hb x k acc.
Proof. reflexivity. Qed.
Lemma k_spread_step_model (x p k : Z) (spix rem : nat) :
  k_spread_step x p k (Z.of_nat spix) (Z.of_nat spix - Z.of_nat rem)%Z = Z.min (Z.max (Z.max x p) (k - Z.of_nat rem)) (p + 1).
Proof. unfold k_spread_step, zmax3. replace (Z.of_nat spix - (Z.of_nat spix - Z.of_nat rem))%Z with (Z.of_nat rem) by lia. reflexivity. Qed.
Lemma g_spread_loop_model k spix : forall l prev rem, g_spread_loop k prev spix rem l = spread_loop k prev rem l.
Proof.
  induction l as [|x r IH]; intros prev rem; [reflexivity|]. cbn [g_spread_loop spread_loop]. cbv zeta.
  destruct prev as [p|], x as [xv|]; rewrite ?k_spread_step_model, IH; reflexivity.
Qed.
Lemma g_spread_model k nhap st sp lab : g_spread k nhap st sp lab = spread k nhap st sp lab.
Proof. unfold g_spread, spread. rewrite g_spread_loop_model. reflexivity. Qed.
Lemma k_hbound_model gp st sp nhap : k_hbound O gp st sp nhap = linspace O (nth st gp z) (nth (sp - 1) gp z) nhap.
Proof. unfold k_hbound, linspace_num. rewrite Nat.add_1_r. reflexivity. Qed.
Lemma g_haplobin_loop_model gp : forall chroms k out, g_haplobin_loop gp chroms k out = haplobin_loop O gp chroms k out.
Proof.
  induction chroms as [|[nhap [st sp]] rest IH]; intros k out; [reflexivity|]. cbn [g_haplobin_loop haplobin_loop]. cbv zeta.
  rewrite IH, k_hbound_model, g_spread_model. reflexivity.
Qed.
Lemma g_haplobin_model nblk gp stix spix : g_haplobin nblk gp stix spix = haplobin O nblk gp stix spix.
Proof. unfold g_haplobin, haplobin. rewrite g_haplobin_loop_model. reflexivity. Qed.

(** * D. haplomat and the three _calc_haplomat copies: the seven kernels of one copy are parameters *)
Definition g_cand_of (bv : list Z -> list Q -> nat -> nat -> Q) (nb nt : nat) (u : list (list Q)) (bounds : list (nat * nat)) (g : list Z) : cand_t :=
  map (fun j => map (fun i =>
        match nth_error bounds j with
        | Some (st, sp) => Some (bv g (col 0%Q i u) st sp)
        | None => None
        end) (seq 0 nt)) (seq 0 nb).
Definition g_calc_haplomat
    (too_few overfull : nat -> nat -> bool)
    (nblk_of : nat -> list T -> list nat -> list nat -> res (list nat))
    (hbin_of : list nat -> list T -> list nat -> list nat -> list (option nat))
    (nblocks : nat -> nat) (runs : list nat -> list nat -> list (nat * nat)) (bv : list Z -> list Q -> nat -> nat -> Q)
    (e1 e2 : err) (nhap : nat) (geno : list (list (list Z))) (gp : list T) (stix spix clen : list nat) (u : list (list Q)) (nt : nat) : res hmat_t :=
  if too_few nhap (length stix) then Err e1 else
  match nblk_of nhap gp stix spix with
  | Err e => Err e
  | Ok nblk =>
    if existsb (fun bl => overfull (fst bl) (snd bl)) (combine nblk clen) then Err e2 else
    match all_some (hbin_of nblk gp stix spix) with
    | None => Err EOther
    | Some lab =>
      match haplobin_bounds lab with
      | Err e => Err e
      | Ok (hst, hsp, _) =>
        let bounds := runs hst hsp in
        if (nblocks nhap <? length bounds)%nat then Err EIndex else Ok (map (map (g_cand_of bv (nblocks nhap) nt u bounds)) geno)
      end
    end
  end.
Definition g_haplomat := g_calc_haplomat k_h_too_few k_h_overfull (k_h_nblk O) (k_h_hbin O) k_h_nblocks k_h_runs k_h_block_val.
Definition g_ohv_calc_haplomat := g_calc_haplomat k_ohv_too_few k_ohv_overfull (k_ohv_nblk O) (k_ohv_hbin O) k_ohv_nblocks k_ohv_runs k_ohv_block_val.
Definition g_opv_calc_haplomat := g_calc_haplomat k_opv_too_few k_opv_overfull (k_opv_nblk O) (k_opv_hbin O) k_opv_nblocks k_opv_runs k_opv_block_val.
Definition g_gb_calc_haplomat := g_calc_haplomat k_gb_too_few k_gb_overfull (k_gb_nblk O) (k_gb_hbin O) k_gb_nblocks k_gb_runs k_gb_block_val.

Lemma g_haplomat_model : g_haplomat = calc_haplomat O.                   Proof. reflexivity. Qed.
Lemma g_ohv_calc_haplomat_model : g_ohv_calc_haplomat = calc_haplomat O. Proof. reflexivity. Qed.
Lemma g_opv_calc_haplomat_model : g_opv_calc_haplomat = calc_haplomat O. Proof. reflexivity. Qed.
Lemma g_gb_calc_haplomat_model : g_gb_calc_haplomat = calc_haplomat O.   Proof. reflexivity. Qed.
End Gen.

(** * C. haplobin_bounds from k_break, k_hlen, k_bounds_result *)
Fixpoint g_breaks (prev : nat) (l : list nat) (i : nat) : list nat :=
  match l with
  | [] => []
  | x :: r => if k_break x prev then i :: g_breaks x r (S i) else g_breaks prev r (S i)
  end.
Definition g_haplobin_bounds (lab : list nat) : res (list nat * list nat * list nat) :=
  match lab with
  | [] => Err EIndex
  | x0 :: r => let bk := g_breaks x0 r 1 in
               let hst := 0%nat :: bk in let hsp := bk ++ [length lab] in
               Ok (k_bounds_result hst hsp (map2 k_hlen hsp hst))
  end.
Lemma g_breaks_model : forall l prev i, g_breaks prev l i = breaks prev l i.
Proof. induction l as [|x r IH]; intros prev i; [reflexivity|]. cbn [g_breaks breaks]. unfold k_break. rewrite !IH. destruct (x =? prev); reflexivity. Qed.
Lemma g_haplobin_bounds_model lab : g_haplobin_bounds lab = haplobin_bounds lab.
Proof. destruct lab as [|x0 r]; [reflexivity|]. unfold g_haplobin_bounds, haplobin_bounds. rewrite g_breaks_model. reflexivity. Qed.

(** * E. cross map, optimal haploid values, latent functions *)
Lemma k_xmap_model ntaxa nparent uniq : k_xmap ntaxa nparent uniq = calc_xmap ntaxa nparent uniq.
Proof. destruct uniq; reflexivity. Qed.
Definition g_ohv_row (ploidy : Z) (nb nt : nat) (cs : list cand_t) : list (option Q) :=
  map (fun t => option_map (k_ohv_scale (inject_Z ploidy)) (osum (map (fun b => best cs b t) (seq 0 nb)))) (seq 0 nt).
(** from_pgmat_gpmod: ohvmat = _calc_ohvmat(ploidy = <k_ohv_Subset_ploidy haplomat>, haplomat, xmap = _calc_xmap(ntaxa, nparent, unique)) *)
Definition g_ohv_problem (nb nt : nat) (hm : hmat_t) (ntaxa nparent : nat) (uniq : bool) : list (list (option Q)) :=
  map (fun xc => g_ohv_row (k_ohv_Subset_ploidy hm) nb nt (cands hm xc)) (k_xmap ntaxa nparent uniq).
Lemma g_ohv_row_model ploidy nb nt cs : g_ohv_row ploidy nb nt cs = ohv_row ploidy nb nt cs.
Proof. reflexivity. Qed.
Lemma g_ohv_problem_model nb nt hm ntaxa nparent uniq :
  g_ohv_problem nb nt hm ntaxa nparent uniq = calc_ohvmat (Z.of_nat (length hm)) nb nt hm (calc_xmap ntaxa nparent uniq).
Proof. unfold g_ohv_problem. rewrite k_xmap_model. reflexivity. Qed.
Lemma k_ohv_ploidy_all hm : k_ohv_Real_ploidy hm = k_ohv_Subset_ploidy hm /\ k_ohv_Integer_ploidy hm = k_ohv_Subset_ploidy hm
  /\ k_ohv_Binary_ploidy hm = k_ohv_Subset_ploidy hm /\ k_opv_ploidy hm = Z.of_nat (length hm) /\ k_gb_ploidy hm = Z.of_nat (length hm).
Proof. repeat split; reflexivity. Qed.

Local Open Scope Q_scope.
(** the exact values the model compares the latent functions with *)
Lemma k_ohv_latent_model (n s : Q) : ~ n == 0 -> k_ohv_latent n s == - (s / n).
Proof. intros H. unfold k_ohv_latent. field. exact H. Qed.
Lemma sumQ_scaled (c : Q) : forall (w rows : list Q), sumQ (map2 (fun wi r => (c * wi) * r) w rows) == c * sumQ (map2 Qmult w rows).
Proof.
  induction w as [|wi w IH]; intros [|r rows]; cbn [map2 sumQ fold_right]; try ring.
  fold (sumQ (map2 (fun wi0 r0 => c * wi0 * r0) w rows)). fold (sumQ (map2 Qmult w rows)). rewrite IH. ring.
Qed.
Lemma k_ohvw_latent_model (tot : Q) (w rows : list Q) : ~ tot == 0 ->
  k_ohvw_Real_latent (sumQ (map2 (fun wi r => k_ohvw_Real_contrib tot wi * r) w rows)) == - (sumQ (map2 Qmult w rows) / tot)
  /\ k_ohvw_Integer_latent (sumQ (map2 (fun wi r => k_ohvw_Integer_contrib tot wi * r) w rows)) == - (sumQ (map2 Qmult w rows) / tot)
  /\ k_ohvw_Binary_latent (sumQ (map2 (fun wi r => k_ohvw_Binary_contrib tot wi * r) w rows)) == - (sumQ (map2 Qmult w rows) / tot).
Proof.
  intros H. unfold k_ohvw_Real_latent, k_ohvw_Real_contrib, k_ohvw_Integer_latent, k_ohvw_Integer_contrib, k_ohvw_Binary_latent, k_ohvw_Binary_contrib.
  rewrite (sumQ_scaled (1 / tot) w rows). repeat split; field; exact H.
Qed.
Lemma k_opv_latent_model (p s : Q) : k_opv_latent p s == - (k_ohv_scale p s).
Proof. unfold k_opv_latent, k_ohv_scale. ring. Qed.
Lemma k_gb_latent_model (p n s : Q) : k_gb_latent p n s == - ((p / n) * s).
Proof. unfold k_gb_latent. ring. Qed.
Lemma k_gb_st_model (k nbest : nat) : (k_gb_st k nbest + Nat.min nbest k = k)%nat.
Proof. unfold k_gb_st. lia. Qed.
Local Close Scope Q_scope.

(** * F. the main theorems restated about the compositions of generated kernels *)
Lemma kernel_apportion_total {T} (O : ops T) (nhap : nat) (gp : list T) (stix spix : list nat) :
  length spix = length stix -> 1 <= length stix <= nhap ->
  exists nblk, g_nhaploblk_chrom O nhap gp stix spix = Ok nblk /\ length nblk = length stix
               /\ Forall (fun x => 1 <= x) nblk /\ list_sum nblk = nhap.
Proof. rewrite g_nhaploblk_chrom_model. apply apportion_total. Qed.

Lemma kernel_haplobin_spec {T} (O : ops T) (ok : T -> Prop) :
  (forall x y, ok x -> ok y -> o_leb O x y = true \/ o_leb O y x = true) ->
  (forall x y z, ok x -> ok y -> ok z -> o_leb O x y = true -> o_leb O y z = true -> o_leb O x z = true) ->
  forall (chrs : list (list T)) (nblk : list nat),
  Forall (fun n => 1 <= n) nblk -> Forall (chrom_ok O ok) chrs -> Forall2 (bounds_ok O ok) nblk chrs ->
  exists labs : list (list nat),
    g_haplobin O nblk (concat chrs) (starts_from 0 (map (@length T) chrs)) (stops_from 0 (map (@length T) chrs)) = map Some (concat labs)
    /\ Forall2 (fun c l => length l = length c) chrs labs
    /\ (forall c l, nth_error labs c = Some l -> Forall (fun j => offset nblk c <= j < offset nblk (S c)) l)
    /\ StronglySorted Nat.le (concat labs)
    /\ (Forall2 (fun n c => n <= length c) nblk chrs -> forall j, j < list_sum nblk -> In j (concat labs)).
Proof. intros A B chrs nblk. rewrite g_haplobin_model. apply haplobin_spec; assumption. Qed.

Lemma kernel_bounds_partition (lab : list nat) : lab <> [] ->
  exists hst hsp hlen vals, g_haplobin_bounds lab = Ok (hst, hsp, hlen) /\ length hst = length hsp /\ length vals = length hst
    /\ chain 0 (combine hst hsp) (length lab) /\ hlen = map2 Nat.sub hsp hst
    /\ decode (combine hst hsp) vals = lab /\ adjacent_differ vals.
Proof. rewrite g_haplobin_bounds_model. apply haplobin_bounds_partition. Qed.

(** conservation and "exactly nhaploblk blocks, all written" for each of the four builders as generated *)
Definition conservation_of {T} (O : ops T) (build : err -> err -> nat -> list (list (list Z)) -> list T -> list nat -> list nat -> list nat -> list (list Q) -> nat -> res hmat_t) : Prop :=
  forall (chrs : list (list T)) (e1 e2 : err) (nhap : nat) (geno : list (list (list Z))) (u : list (list Q)) (nt : nat) (hm : hmat_t),
  chrs <> [] -> Forall (fun c => c <> []) chrs ->
  build e1 e2 nhap geno (concat chrs) (starts_from 0 (map (@length T) chrs)) (stops_from 0 (map (@length T) chrs)) (map (@length T) chrs) u nt = Ok hm ->
  exists bounds, calc_bounds O nhap (concat chrs) (starts_from 0 (map (@length T) chrs)) (stops_from 0 (map (@length T) chrs)) = Some bounds
    /\ hm = hmat_of nhap nt geno u bounds /\ chain 0 bounds (length (concat chrs)) /\ length bounds = nhap
    /\ forall g t, length g = length (concat chrs) -> length u = length (concat chrs) -> t < nt ->
          (forall b, b < nhap -> exists q, ent (cand_of nhap nt u bounds g) b t = Some q)
          /\ exists s, osum (map (fun b => ent (cand_of nhap nt u bounds g) b t) (seq 0 nhap)) = Some s /\ (s == dotZQ g (col 0%Q t u))%Q.
Lemma kernel_haplomat_conservation {T} (O : ops T) :
  conservation_of O (g_haplomat O) /\ conservation_of O (g_ohv_calc_haplomat O) /\ conservation_of O (g_opv_calc_haplomat O) /\ conservation_of O (g_gb_calc_haplomat O).
Proof.
  assert (H : conservation_of O (calc_haplomat O)) by (unfold conservation_of; intros; eapply haplomat_full; eassumption).
  repeat split; exact H.
Qed.

(** the OHV problem as generated: every entry is defined and bounds the block-boundary recombinants of the cross's parents *)
Lemma kernel_ohv_problem {T} (O : ops T) (chrs : list (list T)) (e1 e2 : err) (nhap : nat)
    (geno : list (list (list Z))) (u : list (list Q)) (nt : nat) (hm : hmat_t) (ntaxa nparent : nat) (uniq : bool) :
  chrs <> [] -> Forall (fun c => c <> []) chrs ->
  g_ohv_calc_haplomat O e1 e2 nhap geno (concat chrs) (starts_from 0 (map (@length T) chrs)) (stops_from 0 (map (@length T) chrs))
                (map (@length T) chrs) u nt = Ok hm ->
  geno <> [] -> Forall (fun phm => length phm = ntaxa /\ Forall (fun g => length g = length (concat chrs)) phm) geno ->
  length u = length (concat chrs) -> 1 <= nparent ->
  exists bounds, calc_bounds O nhap (concat chrs) (starts_from 0 (map (@length T) chrs)) (stops_from 0 (map (@length T) chrs)) = Some bounds
    /\ length bounds = nhap /\ chain 0 bounds (length (concat chrs))
    /\ forall s xc t, nth_error (k_xmap ntaxa nparent uniq) s = Some xc -> t < nt ->
  exists V, nth_error (g_ohv_problem nhap nt hm ntaxa nparent uniq) s = Some (g_ohv_row (Z.of_nat (length geno)) nhap nt (cands hm xc))
    /\ nth t (g_ohv_row (Z.of_nat (length geno)) nhap nt (cands hm xc)) None = Some V
    /\ forall src : nat -> list Z, (forall b, b < nhap -> In (src b) (copies geno xc)) ->
         (inject_Z (Z.of_nat (length geno)) * dotZQ (recomb src 0 bounds) (col 0%Q t u) <= V)%Q.
Proof.
  intros Hne Hc H Hg Hgeno Hu Hp. change (g_ohv_calc_haplomat O) with (calc_haplomat O) in H.
  assert (Lhm : length hm = length geno).
  { apply calc_haplomat_inv in H as (nblk & lab & hst & hsp & hlen & _ & _ & _ & _ & _ & _ & _ & ->). unfold hmat_of. now rewrite map_length. }
  destruct (ohv_problem O chrs e1 e2 nhap geno u nt hm ntaxa nparent uniq Hne Hc H Hg Hgeno Hu Hp) as (bounds & A & B & C & D).
  exists bounds. split; [exact A|]. split; [exact B|]. split; [exact C|].
  intros s xc t. rewrite k_xmap_model, g_ohv_problem_model, Lhm. apply D.
Qed.
