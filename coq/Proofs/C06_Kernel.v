(** C06 — the kernel expressions regenerated from the source (Gen/C06_Kernel.v) are the ones the hand model is built from.
    Links are closed by [reflexivity] wherever the two terms are convertible, so that ANY change of an expression of the
    source (a flipped comparison, [obj * obj_wt] for [obj], swapped arguments of isin, a branch that no longer refreshes
    best_score, a slice bound) changes the regenerated definition and this file — hence Props/C06.vo — stops compiling.
    The climbers' loop is additionally re-assembled from the generated pieces (Model/C06_Machine.v) with the state the
    source keeps (stored best_score/best_cv) and shown to refine [climb]. *)
From Coq Require Import String.
From Coq Require Import Permutation Lia.
From PV Require Import Lib.Common Model.C06_Opt Proofs.C06_Opt Gen.C06_Kernel Model.C06_Machine.
Local Open Scope Z_scope.

(** ** hill climbers: expression-level links *)
Lemma k_sd_scores_model r :
  k_sd_gscore (e_obj r) = score r /\ k_sd_pscore (e_obj r) = score r /\ k_sd_gcv (e_ineq r) (e_eq r) = cv r /\ k_sd_pcv (e_ineq r) (e_eq r) = cv r.
Proof. repeat split; reflexivity. Qed.
Lemma k_ssd_scores_model r :
  k_ssd_gscore (e_obj r) = score r /\ k_ssd_pscore (e_obj r) = score r /\ k_ssd_gcv (e_ineq r) (e_eq r) = cv r /\ k_ssd_pcv (e_ineq r) (e_eq r) = cv r.
Proof. repeat split; reflexivity. Qed.
(** the acceptance rule of [step] is the generated if / elif pair *)
Lemma k_sd_accept_model ev s w best ij :
  step ev s w best ij =
  let r := ev (prop s w ij) in
  if k_sd_better_cv (cv r) (cv (snd best)) then (Some ij, r)
  else if k_sd_better_score (cv r) (cv (snd best)) (score r) (score (snd best)) then (Some ij, r) else best.
Proof. reflexivity. Qed.
Lemma k_ssd_accept_model ev s w best ij :
  step ev s w best ij =
  let r := ev (prop s w ij) in
  if k_ssd_better_cv (cv r) (cv (snd best)) then (Some ij, r)
  else if k_ssd_better_score (cv r) (cv (snd best)) (score r) (score (snd best)) then (Some ij, r) else best.
Proof. reflexivity. Qed.
(** the exchange: the proposal is its first component, the pool after a committed exchange its second *)
Lemma k_sd_swap_model s w i j : k_sd_swap s w i j = (prop s w (i, j), set_nth j w (nth i s 0)).   Proof. reflexivity. Qed.
Lemma k_ssd_swap_model s w i j : k_ssd_swap s w i j = (prop s w (i, j), set_nth j w (nth i s 0)). Proof. reflexivity. Qed.
Lemma k_sd_wrkss_model cand s : k_sd_wrkss cand s = complement cand s.     Proof. reflexivity. Qed.
Lemma k_ssd_wrkss_model cand s : k_ssd_wrkss cand s = complement cand s.   Proof. reflexivity. Qed.
(** the start is drawn WITHOUT replacement from the candidate set, ndecn of them (hypothesis NoDup ix of C06_climber_result) *)
Lemma k_sd_draw_model : k_sd_draw = ("prob.decn_space", "prob.ndecn", false)%string. Proof. reflexivity. Qed.
(** both climbers run the same loop *)
Lemma k_ssd_is_sd :
  k_ssd_step = k_sd_step /\ k_ssd_init = k_sd_init /\ k_ssd_stop = k_sd_stop /\ k_ssd_commit = k_sd_commit /\ k_ssd_swap = k_sd_swap /\
  k_ssd_wrkss = k_sd_wrkss /\ k_ssd_g0 = k_sd_g0.
Proof. repeat split; reflexivity. Qed.

(** exchanging back restores both arrays (the scan evaluates every proposal on the same (s, w)) *)
Lemma set_nth_set_nth {A} (i : nat) : forall (l : list A) u v, set_nth i (set_nth i l u) v = set_nth i l v.
Proof. induction i; destruct l; simpl; intros; try reflexivity. now rewrite IHi. Qed.
Lemma set_nth_same {A} (i : nat) : forall (l : list A) d, set_nth i l (nth i l d) = l.
Proof. induction i; destruct l; simpl; intros; try reflexivity. now rewrite IHi. Qed.
Lemma nth_set_nth {A} (i : nat) : forall (l : list A) v d, (i < length l)%nat -> nth i (set_nth i l v) d = v.
Proof. induction i; destruct l; simpl; intros; try lia; try reflexivity. apply IHi. lia. Qed.
Lemma k_sd_swap_involutive s w i j : (i < length s)%nat -> (j < length w)%nat ->
  k_sd_swap (fst (k_sd_swap s w i j)) (snd (k_sd_swap s w i j)) i j = (s, w).
Proof.
  intros Hi Hj. unfold k_sd_swap. cbn [fst snd].
  rewrite !set_nth_set_nth, !nth_set_nth by assumption. now rewrite !set_nth_same.
Qed.

(** ** hill climbers: the machine assembled from the generated pieces refines [climb] *)
Definition habs (b : hcst) : option (nat * nat) * evalT :=
  (match h_i b, h_j b with Some i, Some j => Some (i, j) | _, _ => None end, h_ev b).
Definition hinv (b : hcst) : Prop := h_score b = score (h_ev b) /\ h_cv b = cv (h_ev b) /\ (h_i b = None <-> h_j b = None).
Definition ginv (g : gst) : Prop := g_score g = score (g_ev g) /\ g_cv g = cv (g_ev g).
Definition gabs (o : option (list Z * list Z * gst)) : option (list Z * list Z * evalT) :=
  option_map (fun t => (fst (fst t), snd (fst t), g_ev (snd t))) o.

Section Refine.
  Variable ev : list Z -> evalT.
  Notation kp := (kprop ev k_sd_step k_sd_swap).

  Lemma sd_prop_refines s w b ij : hinv b -> hinv (kp s w b ij) /\ habs (kp s w b ij) = step ev s w (habs b) ij.
  Proof.
    destruct ij as [i j]. unfold kprop. cbn [fst snd].
    change (fst (k_sd_swap s w i j)) with (prop s w (i, j)).
    rewrite k_sd_accept_model. cbv zeta.
    destruct (ev (prop s w (i, j))) as [[o q] e].
    destruct b as [bi bj bo bq be bs bc]. unfold hinv, habs, h_ev. cbn [h_i h_j h_obj h_ineq h_eq h_score h_cv snd].
    intros (Hs & Hc & Hn). subst bs bc.
    unfold k_sd_step, k_sd_take_cv, k_sd_take_score, k_sd_pscore, k_sd_pcv, e_obj, e_ineq, e_eq.
    cbn [h_i h_j h_obj h_ineq h_eq h_score h_cv fst snd].
    change (sumZ o) with (score (o, q, e)). change (sumZ q + sumZ e) with (cv (o, q, e)).
    destruct (k_sd_better_cv (cv (o, q, e)) (cv (bo, bq, be))).
    - cbn. repeat split; intros; congruence.
    - destruct (k_sd_better_score (cv (o, q, e)) (cv (bo, bq, be)) (score (o, q, e)) (score (bo, bq, be))).
      + cbn. repeat split; intros; congruence.
      + cbn. repeat split; try reflexivity; apply Hn.
  Qed.

  Lemma sd_fold_refines s w l : forall b, hinv b ->
    hinv (fold_left (kp s w) l b) /\ habs (fold_left (kp s w) l b) = fold_left (step ev s w) l (habs b).
  Proof.
    induction l as [|ij l IH]; intros b Hb; [now split|]. cbn [fold_left].
    destruct (sd_prop_refines s w b ij Hb) as (H1 & H2). rewrite <- H2. now apply IH.
  Qed.

  Lemma sd_init_inv g : ginv g -> hinv (k_sd_init g) /\ habs (k_sd_init g) = (None, g_ev g).
  Proof. intros (A & B). unfold hinv, habs, k_sd_init. cbn. repeat split; auto. Qed.

  Lemma sd_scan_refines s w g : ginv g ->
    let b := kscan ev k_sd_init k_sd_step k_sd_swap s w g in hinv b /\ habs b = scan ev s w (g_ev g).
  Proof.
    intros Hg. destruct (sd_init_inv g Hg) as (H1 & H2). unfold kscan, scan. rewrite <- H2. now apply sd_fold_refines.
  Qed.

  Lemma sd_commit_inv b g : hinv b -> ginv (k_sd_commit b g) /\ g_ev (k_sd_commit b g) = h_ev b.
  Proof. intros (A & B & _). unfold ginv, k_sd_commit, g_ev. cbn. repeat split; assumption. Qed.

  Notation kc := (kclimb ev k_sd_init k_sd_step k_sd_stop k_sd_commit k_sd_swap).

  Lemma sd_kclimb_refines fuel : forall s w g, ginv g ->
    gabs (kc fuel s w g) = climb ev fuel s w (g_ev g) /\
    (forall s' w' g', kc fuel s w g = Some (s', w', g') -> ginv g').
  Proof.
    induction fuel as [|f IH]; intros s w g Hg; [split; [reflexivity | discriminate]|].
    cbn [kclimb climb].
    destruct (sd_scan_refines s w g Hg) as (Hb & Ha).
    set (b := kscan ev k_sd_init k_sd_step k_sd_swap s w g) in *.
    rewrite <- Ha. unfold habs. destruct Hb as (Hs & Hc & Hn). unfold k_sd_stop.
    destruct (h_i b) as [i|] eqn:Ei, (h_j b) as [j|] eqn:Ej; cbn [is_none orb].
    - assert (Hb' : hinv b) by (unfold hinv; rewrite Ei, Ej; repeat split; auto; discriminate).
      destruct (sd_commit_inv b g Hb') as (Hg' & Eg').
      rewrite k_sd_swap_model. cbn [fst snd]. rewrite <- Eg'. now apply IH.
    - exfalso. destruct Hn as [_ Hn]. specialize (Hn eq_refl). discriminate.
    - exfalso. destruct Hn as [Hn _]. specialize (Hn eq_refl). discriminate.
    - split; [reflexivity|]. intros s' w' g' E. now inversion E; subst.
  Qed.

  Lemma sd_g0_inv r : ginv (k_sd_g0 r) /\ g_ev (k_sd_g0 r) = r.
  Proof. destruct r as [[o q] e]. unfold ginv, k_sd_g0, g_ev. cbn. repeat split; reflexivity. Qed.

  (** the source's loop, as regenerated, computes what the model's climber computes, and the stored score / violation
      it reports (miscout) are those of the returned decision *)
  Lemma sd_machine_refines fuel cand start :
    gabs (sd_machine ev fuel cand start) = climb_from ev fuel cand start /\
    forall s' w' g', sd_machine ev fuel cand start = Some (s', w', g') ->
      g_ev g' = ev s' /\ g_score g' = score (ev s') /\ g_cv g' = cv (ev s').
  Proof.
    unfold sd_machine, climb_from. rewrite k_sd_wrkss_model.
    destruct (sd_g0_inv (ev start)) as (Hg & Eg).
    destruct (sd_kclimb_refines fuel start (complement cand start) (k_sd_g0 (ev start)) Hg) as (R & I).
    rewrite Eg in R. split; [exact R|].
    intros s' w' g' E. specialize (I _ _ _ E). rewrite E in R. cbn in R. symmetry in R.
    destruct (climb_spec ev fuel _ _ _ _ _ _ R eq_refl) as (T & _).
    destruct I as (I1 & I2). rewrite I1, I2, T. auto.
  Qed.
  Lemma ssd_machine_refines fuel cand start :
    gabs (ssd_machine ev fuel cand start) = climb_from ev fuel cand start /\
    forall s' w' g', ssd_machine ev fuel cand start = Some (s', w', g') ->
      g_ev g' = ev s' /\ g_score g' = score (ev s') /\ g_cv g' = cv (ev s').
  Proof. exact (sd_machine_refines fuel cand start). Qed.
End Refine.

(** ** sorting *)
Lemma k_sort_select_model ev wt cand k : ksort_select k_sort_key k_sort_lo k_sort_hi ev wt cand k = sort_select ev cand k.
Proof.
  unfold ksort_select, kslice, k_sort_lo, k_sort_hi, k_sort_key, sort_select, keyed.
  rewrite Nat2Z.id. cbn [Z.to_nat skipn]. now rewrite Nat.sub_0_r.
Qed.
Lemma k_ssd_select_model ev wt cand k : ksort_select k_ssd_key k_ssd_lo k_ssd_hi ev wt cand k = sort_select ev cand k.
Proof.
  unfold ksort_select, kslice, k_ssd_lo, k_ssd_hi, k_ssd_key, sort_select, keyed.
  rewrite Nat2Z.id. cbn [Z.to_nat skipn]. now rewrite Nat.sub_0_r.
Qed.
Lemma k_sort_calls_model ev cand k : sort_calls ev cand k = k_sort_singles cand ++ [sort_select ev cand k].   Proof. reflexivity. Qed.
Lemma k_ssd_calls_model cand : k_ssd_singles cand = map (fun e => [e]) cand.                                   Proof. reflexivity. Qed.
Lemma k_pick_model cand ix : k_sort_pick cand ix = sample cand ix /\ k_ssd_pick cand ix = sample cand ix.      Proof. split; reflexivity. Qed.

(** ** pymoo_addon.dominates *)
Lemma k_dominates_model o1 c1 o2 c2 : k_dominates o1 c1 o2 c2 = dominates_m o1 c1 o2 c2. Proof. reflexivity. Qed.
Lemma k_dom_pareto_model o1 o2 : k_dom_pareto o1 o2 = zdom o1 o2.                         Proof. reflexivity. Qed.

Lemma any2z_ltb_irrefl : forall a, any2z Z.ltb a a = false.
Proof. induction a; simpl; [reflexivity|]. now rewrite Z.ltb_irrefl, IHa. Qed.
Lemma zdom_antisym_aux : forall a b, all2z Z.leb a b = true -> all2z Z.leb b a = true -> any2z Z.ltb a b = false.
Proof.
  induction a as [|x a IH]; destruct b as [|y b]; simpl; try reflexivity; try discriminate.
  intros H1 H2. apply andb_true_iff in H1, H2. destruct H1 as (L1 & R1), H2 as (L2 & R2).
  apply Z.leb_le in L1, L2. rewrite (IH b R1 R2), orb_false_r. apply Z.ltb_ge. lia.
Qed.
Lemma zdom_asym a b : zdom a b = true -> zdom b a = false.
Proof.
  unfold zdom. intros H. apply andb_true_iff in H. destruct H as (H1 & H2).
  destruct (all2z Z.leb b a) eqn:E; [|reflexivity]. rewrite (zdom_antisym_aux a b H1 E) in H2. discriminate.
Qed.
Lemma all2z_leb_trans : forall a b c, all2z Z.leb a b = true -> all2z Z.leb b c = true -> all2z Z.leb a c = true.
Proof.
  induction a as [|x a IH]; destruct b as [|y b], c as [|z c]; simpl; try reflexivity; try discriminate.
  intros H1 H2. apply andb_true_iff in H1, H2. destruct H1 as (L1 & R1), H2 as (L2 & R2).
  apply Z.leb_le in L1, L2. rewrite (IH b c R1 R2), andb_true_r. apply Z.leb_le. lia.
Qed.
Lemma any2z_ltb_trans_l : forall a b c, any2z Z.ltb a b = true -> all2z Z.leb a b = true -> all2z Z.leb b c = true -> any2z Z.ltb a c = true.
Proof.
  induction a as [|x a IH]; destruct b as [|y b], c as [|z c]; simpl; try discriminate.
  intros H0 H1 H2. apply andb_true_iff in H1, H2. destruct H1 as (L1 & R1), H2 as (L2 & R2).
  apply Z.leb_le in L1, L2. apply orb_true_iff in H0. apply orb_true_iff. destruct H0 as [H0|H0].
  - left. apply Z.ltb_lt in H0. apply Z.ltb_lt. lia.
  - right. now apply (IH b c).
Qed.
Lemma any2z_ltb_trans_r : forall a b c, all2z Z.leb a b = true -> any2z Z.ltb b c = true -> all2z Z.leb b c = true -> any2z Z.ltb a c = true.
Proof.
  induction a as [|x a IH]; destruct b as [|y b], c as [|z c]; simpl; try discriminate.
  intros H1 H0 H2. apply andb_true_iff in H1, H2. destruct H1 as (L1 & R1), H2 as (L2 & R2).
  apply Z.leb_le in L1, L2. apply orb_true_iff in H0. apply orb_true_iff. destruct H0 as [H0|H0].
  - left. apply Z.ltb_lt in H0. apply Z.ltb_lt. lia.
  - right. now apply (IH b c).
Qed.
Lemma zdom_trans a b c : zdom a b = true -> zdom b c = true -> zdom a c = true.
Proof.
  unfold zdom. intros H1 H2. apply andb_true_iff in H1, H2. destruct H1 as (A1 & A2), H2 as (B1 & B2).
  apply andb_true_iff. split; [now apply (all2z_leb_trans a b c) | now apply (any2z_ltb_trans_l a b c)].
Qed.
(** [dominates] is a strict partial order on (objective vector, violation) pairs *)
Lemma k_dominates_irrefl o c : k_dominates o c o c = false.
Proof.
  rewrite k_dominates_model. unfold dominates_m, zdom. rewrite any2z_ltb_irrefl, andb_false_r, Z.ltb_irrefl. now destruct (_ && _).
Qed.
Lemma k_dominates_asym o1 c1 o2 c2 : k_dominates o1 c1 o2 c2 = true -> k_dominates o2 c2 o1 c1 = false.
Proof.
  rewrite (k_dominates_model o1), (k_dominates_model o2). unfold dominates_m. rewrite (andb_comm (c2 <=? 0)).
  destruct ((c1 <=? 0) && (c2 <=? 0)); [apply zdom_asym|]. intros H. apply Z.ltb_lt in H. apply Z.ltb_ge. lia.
Qed.
Lemma k_dominates_trans o1 c1 o2 c2 o3 c3 :
  k_dominates o1 c1 o2 c2 = true -> k_dominates o2 c2 o3 c3 = true -> k_dominates o1 c1 o3 c3 = true.
Proof.
  rewrite (k_dominates_model o1 c1 o2), (k_dominates_model o2), (k_dominates_model o1 c1 o3). unfold dominates_m.
  destruct (Z.leb_spec c1 0) as [L1|L1], (Z.leb_spec c2 0) as [L2|L2], (Z.leb_spec c3 0) as [L3|L3]; cbn [andb]; intros D1 D2;
    try (apply Z.ltb_lt in D1); try (apply Z.ltb_lt in D2); try (apply Z.ltb_lt); try lia.
  now apply (zdom_trans o1 o2 o3).
Qed.

(** ** tiled_choice: the slices written by the loop and the tail tile [0, size) without gap or overlap *)
Lemma k_tc_tiles a size : 0 < a -> 0 <= size ->
  k_tc_lo a 0 = 0 /\ (forall i, k_tc_hi a i = k_tc_lo a (i + 1)) /\ (forall i, k_tc_hi a i - k_tc_lo a i = a) /\
  k_tc_tail a (k_tc_ndiv a size) = k_tc_lo a (k_tc_ndiv a size) /\
  k_tc_tail a (k_tc_ndiv a size) + k_tc_nrem a size = size /\ 0 <= k_tc_nrem a size < a /\ 0 <= k_tc_ndiv a size /\
  k_tc_draws a (k_tc_nrem a size) = ((a, a, false), (a, k_tc_nrem a size, false)).
Proof.
  intros Ha Hs. unfold k_tc_lo, k_tc_hi, k_tc_tail, k_tc_ndiv, k_tc_nrem, k_tc_draws.
  pose proof (Z.div_mod size a ltac:(lia)). pose proof (Z.mod_pos_bound size a Ha). pose proof (Z.div_pos size a Hs Ha).
  repeat split; intros; try lia.
Qed.

(** ** ReducedExchangeCrossover / ReducedExchangeMutation *)
Lemma k_rex_masks_model a b : k_rex_mab a b = rex_mab a b /\ k_rex_mba a b = rex_mab b a.   Proof. split; reflexivity. Qed.
Lemma k_rex_cross_model a b mex :
  rex_cross a b mex =
  let mab := k_rex_mab a b in let mba := k_rex_mba a b in
  let e := k_rex_exchange (compress mab a) (compress mba b) mex in (scatter mab a (fst e), scatter mba b (snd e)).
Proof. reflexivity. Qed.
Lemma k_rex_clen_model a b :
  k_rex_clen (Z.of_nat (length (compress (k_rex_mab a b) a))) (Z.of_nat (length (compress (k_rex_mba a b) b))) = Z.of_nat (rex_clen a b).
Proof. unfold k_rex_clen, rex_clen. now rewrite Nat2Z.inj_min. Qed.
Lemma k_rex_nex_model c d : k_rex_nex (Z.of_nat c) (Z.of_nat d) = Z.of_nat (rex_nex c d).
Proof. unfold k_rex_nex, rex_nex. destruct (Nat.ltb_spec c 2), (Z.ltb_spec (Z.of_nat c) 2); try lia; reflexivity. Qed.
Lemma k_rex_randint_model c : k_rex_randint c = (1, c).   Proof. reflexivity. Qed.
Lemma k_mut_model ss x u p chosen :
  rex_mut ss x u p chosen =
  let mab := k_mut_mab x ss in let mba := k_mut_mba x ss in
  let ap := compress mab x in let bp := compress mba ss in
  scatter mab x (scatter (map (fun v => k_mut_mex v p) u) ap (map (fun i => nth i bp 0) chosen)).
Proof. reflexivity. Qed.

(** ** MutatorA / MutatorB hill-climb step *)
Lemma rowwise_assign_model x al : forall li ai, np_rowwise_assign x li (np_take 0 al ai) = mutAB_trials x al li ai.
Proof.
  unfold np_rowwise_assign, np_take, mutAB_trials.
  induction li as [|l li IH]; intros ai; [reflexivity|]. destruct ai as [|a ai]; [reflexivity|]. cbn. now rewrite IH.
Qed.
Lemma k_mutA_trials_model x al li ai : k_mutA_trials x al li ai = mutAB_trials x al li ai.   Proof. apply rowwise_assign_model. Qed.
Lemma k_mutB_trials_model x al li ai : k_mutB_trials x al li ai = mutAB_trials x al li ai.   Proof. apply rowwise_assign_model. Qed.
Lemma k_mutAB_alleles_model ss x : k_mutA_alleles ss x = complement ss x /\ k_mutB_alleles ss x = complement ss x.   Proof. split; reflexivity. Qed.
Lemma k_mutAB_tiled_model nl na nh : k_mutA_tiled nl na nh = ((nl, nh), (na, nh)) /\ k_mutB_tiled nl na nh = ((nl, nh), (na, nh)).
Proof. split; reflexivity. Qed.
Lemma k_mutAB_nhcstep_model nl o : k_mutA_nhcstep nl o = match o with None => nl | Some v => v end /\ k_mutB_nhcstep nl o = k_mutA_nhcstep nl o.
Proof. split; reflexivity. Qed.
Lemma guard_nil (al : list Z) : (Z.of_nat (length al) =? 0) = match al with [] => true | _ => false end.
Proof. destruct al; reflexivity. Qed.
(** the whole step, written with the generated pieces, is the model's step *)
Lemma k_mutA_hillclimb_model ev ss x li ai draw :
  mutA_hillclimb ev ss x li ai draw =
  let al := k_mutA_alleles ss x in
  if k_mutA_guard (Z.of_nat (length al)) then x
  else let T := k_mutA_trials x al li ai in nth (mutA_sel (map (fun t => e_obj (ev t)) T) draw) T x.
Proof.
  cbv zeta. unfold k_mutA_guard. rewrite guard_nil, k_mutA_trials_model.
  unfold mutA_hillclimb, mutAB_hillclimb. change (k_mutA_alleles ss x) with (complement ss x). now destruct (complement ss x).
Qed.
Lemma k_mutB_hillclimb_model ev ss x li ai draw :
  mutB_hillclimb ev ss x li ai draw =
  let al := k_mutB_alleles ss x in
  if k_mutB_guard (Z.of_nat (length al)) then x
  else let T := k_mutB_trials x al li ai in nth (mutB_sel (map (fun t => e_obj (ev t)) T) draw) T x.
Proof.
  cbv zeta. unfold k_mutB_guard. rewrite guard_nil, k_mutB_trials_model.
  unfold mutB_hillclimb, mutAB_hillclimb. change (k_mutB_alleles ss x) with (complement ss x). now destruct (complement ss x).
Qed.
Lemma nth_map_seq {A} (f : nat -> A) (n : nat) (d : A) (i : nat) : (i < n)%nat -> nth i (map f (seq 0 n)) d = f i.
Proof.
  intros H. rewrite (nth_indep (map f (seq 0 n)) d (f O)).
  - rewrite map_nth, seq_nth by exact H. reflexivity.
  - rewrite map_length, seq_length. exact H.
Qed.
(** MutatorB: the per-objective argmin is taken over the rows OF THE FRONT (F[ndix]) and indexes the front *)
Lemma k_mutB_minix_model nobj F draw : (draw < nobj)%nat ->
  mutB_sel F draw = nth (nth draw (k_mutB_minix nobj F (front_ix F)) O) (front_ix F) O.
Proof.
  intros Hd. unfold mutB_sel, k_mutB_minix, np_argmin0, np_take.
  rewrite nth_map_seq by exact Hd. now rewrite map_map.
Qed.

(** ** integer rounding *)
Lemma k_round_model qs : k_isbx_round qs = int_round qs /\ k_ipm_round qs = int_round qs.   Proof. split; reflexivity. Qed.

(** ** Solution construction: every optimiser class hands every keyword of the Solution constructor the value it should
    (the decision matrix from X, objectives from F, inequality violations from G, equality violations from H, the
    descriptive fields from the problem); finite table regenerated from the source, checked by computation *)
Lemma k_soln_fields_ok : forallb soln_row_ok k_soln_fields = true /\ soln_table_complete k_soln_fields = true.
Proof. split; vm_compute; reflexivity. Qed.

(** ** the source of the random draws: every draw site of pymoo_addon names the generator handed to the operator; each drawing function
    fixes it (falling back to global_prng only for None) before its first draw; the modelled functions draw in the order the
    correspondence's request log expects; finite tables regenerated from the source, checked by computation *)
Lemma k_draw_sites_ok :
  forallb draw_row_ok k_draw_sites = true /\ forallb draw_fallback_ok k_draw_fallbacks = true /\
  forallb (draw_has_fallback k_draw_fallbacks) k_draw_sites = true /\ draw_modelled_ok k_draw_sites = true.
Proof. repeat split; vm_compute; reflexivity. Qed.

(** ** the property theorems restated about the generated definitions *)
Lemma sd_machine_result ev fuel cand ix k s' w' g' :
  NoDup cand -> NoDup ix -> (forall i, In i ix -> (i < length cand)%nat) -> length ix = k ->
  sd_machine ev fuel cand (sample cand ix) = Some (s', w', g') ->
  climber_result ev cand k (sample cand ix) (s', w', g_ev g') /\ g_score g' = score (ev s') /\ g_cv g' = cv (ev s').
Proof.
  intros Hc Hn Hr Hl E. destruct (sd_machine_refines ev fuel cand (sample cand ix)) as (R & T).
  split; [|apply (T _ _ _ E)].
  rewrite E in R. cbn in R. apply (sd_minimize_spec ev fuel cand ix k _ Hc Hn Hr Hl). unfold sd_minimize. symmetry. exact R.
Qed.
Lemma ssd_machine_result ev wt fuel cand k s' w' g' : NoDup cand -> (k <= length cand)%nat ->
  ssd_machine ev fuel cand (ksort_select k_ssd_key k_ssd_lo k_ssd_hi ev wt cand k) = Some (s', w', g') ->
  climber_result ev cand k (sort_select ev cand k) (s', w', g_ev g') /\ g_score g' = score (ev s') /\ g_cv g' = cv (ev s').
Proof.
  rewrite k_ssd_select_model. intros Hc Hk E. destruct (ssd_machine_refines ev fuel cand (sort_select ev cand k)) as (R & T).
  split; [|apply (T _ _ _ E)].
  rewrite E in R. cbn in R. apply (ssd_minimize_spec ev fuel cand k _ Hc Hk). unfold ssd_minimize. symmetry. exact R.
Qed.
Lemma k_sorting_spec ev wt cand k : NoDup cand -> (k <= length cand)%nat ->
  let s := ksort_select k_sort_key k_sort_lo k_sort_hi ev wt cand k in
  feasible cand k s /\
  forall w, (forall x, e_obj (ev x) = [sumZ (map w x)]) -> forall y, feasible cand k y -> score (ev s) <= score (ev y).
Proof.
  intros Hc Hk. cbv zeta. rewrite k_sort_select_model. split; [now apply sort_select_feasible|].
  intros w Hw y Hy. exact (sorting_optimal ev w cand k Hw y Hy).
Qed.
Lemma k_rex_feasible cand k a b mex : feasible cand k a -> feasible cand k b ->
  let mab := k_rex_mab a b in let mba := k_rex_mba a b in
  let e := k_rex_exchange (compress mab a) (compress mba b) mex in
  feasible cand k (scatter mab a (fst e)) /\ feasible cand k (scatter mba b (snd e)).
Proof. intros Ha Hb. pose proof (rex_cross_feasible cand k a b mex Ha Hb) as P. rewrite k_rex_cross_model in P. exact P. Qed.
Lemma k_mutAB_feasible ev ss x k li ai draw : feasible ss k x -> (forall j, In j ai -> (j < length (k_mutA_alleles ss x))%nat) ->
  feasible ss k (let al := k_mutA_alleles ss x in
                 if k_mutA_guard (Z.of_nat (length al)) then x
                 else let T := k_mutA_trials x al li ai in nth (mutA_sel (map (fun t => e_obj (ev t)) T) draw) T x) /\
  feasible ss k (let al := k_mutB_alleles ss x in
                 if k_mutB_guard (Z.of_nat (length al)) then x
                 else let T := k_mutB_trials x al li ai in nth (mutB_sel (map (fun t => e_obj (ev t)) T) draw) T x).
Proof.
  intros Hx Hj. rewrite <- k_mutA_hillclimb_model, <- k_mutB_hillclimb_model.
  split; now apply mutAB_hillclimb_feasible.
Qed.
