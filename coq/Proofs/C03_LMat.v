(** C03 — lemmas about Model/C03_LMat.v: refinement of every layout operation to plain list operations on the
    entity lists of the axes, partition property of the group metadata, agreement of the mutating / non-mutating and
    generic / axis-specific forms, and the refutations for the three places where the code departs from the property. *)
From Coq Require Import Sorted Permutation.
From PV Require Import Lib.Common Model.C03_LMat.
Local Open Scope Z_scope.

(** * lists *)
Lemma pick_map {A B} (g : A -> B) ps (l : list A) : pick ps (map g l) = map g (pick ps l).
Proof.
  unfold pick. induction ps as [|p ps IH]; cbn; [reflexivity|].
  rewrite map_app, IH. f_equal. rewrite nth_error_map. destruct (nth_error l p); reflexivity.
Qed.
Lemma pick_app {A} ps qs (l : list A) : pick (ps ++ qs) l = pick ps l ++ pick qs l.
Proof. unfold pick. apply flat_map_app. Qed.
Lemma pick_length_lt {A} ps (l : list A) : Forall (fun p => (p < length l)%nat) ps -> length (pick ps l) = length ps.
Proof.
  unfold pick. induction 1 as [|p ps Hp _ IH]; cbn; [reflexivity|].
  rewrite app_length, IH. destruct (nth_error l p) eqn:E; [reflexivity|]. apply nth_error_None in E. lia.
Qed.
Lemma pick_seq_all {A} (l : list A) : pick (seq 0 (length l)) l = l.
Proof.
  unfold pick. assert (H : forall (pre l : list A), flat_map (fun p => match nth_error (pre ++ l) p with Some x => [x] | None => [] end)
                                      (seq (length pre) (length l)) = l).
  { intros pre l0; revert pre; induction l0 as [|x t IH]; intros pre; cbn; [reflexivity|].
    rewrite nth_error_app2 by lia. rewrite Nat.sub_diag. cbn. f_equal.
    specialize (IH (pre ++ [x])). rewrite app_length in IH. cbn in IH. rewrite Nat.add_1_r in IH.
    rewrite <- app_assoc in IH. exact IH. }
  apply (H [] l).
Qed.
Lemma In_pick {A} ps (l : list A) x : In x (pick ps l) -> In x l.
Proof.
  unfold pick. intros H. apply in_flat_map in H as (p & _ & H). destruct (nth_error l p) eqn:E; [|destruct H].
  destruct H as [<-|[]]. eapply nth_error_In; eauto.
Qed.

Lemma mapM_length {A B} (f : A -> option B) l r : mapM f l = Some r -> length r = length l.
Proof.
  revert r; induction l as [|x t IH]; cbn; intros r H; [inversion H; reflexivity|].
  destruct (f x); [|discriminate]. destruct (mapM f t); [|discriminate]. inversion H; cbn. f_equal. now apply IH.
Qed.
Lemma mapM_Forall {A B} (f : A -> option B) (P : B -> Prop) l r :
  mapM f l = Some r -> (forall x y, f x = Some y -> P y) -> Forall P r.
Proof.
  revert r; induction l as [|x t IH]; cbn; intros r H HP; [inversion H; constructor|].
  destruct (f x) eqn:E; [|discriminate]. destruct (mapM f t); [|discriminate]. inversion H; subst. constructor; eauto.
Qed.
Lemma mapM_const_some {A B} (f : A -> option B) l : (forall x, In x l -> exists y, f x = Some y) -> exists r, mapM f l = Some r.
Proof.
  induction l as [|x t IH]; cbn; intros H; [eauto|].
  destruct (H x (or_introl eq_refl)) as [y ->]. destruct IH as [r ->]; [intros; apply H; now right|]. eauto.
Qed.

Lemma upd_cons_S {A} d (x : A) y l : upd (S d) x (y :: l) = y :: upd d x l.
Proof. reflexivity. Qed.
Lemma upd_length {A} d (x : A) l : length (upd d x l) = length l.
Proof.
  unfold upd. revert l; induction d as [|d IH]; intros [|y l]; cbn; try reflexivity.
  f_equal. apply IH.
Qed.
Lemma nth_upd_eq {A} d (x : A) l dft : (d < length l)%nat -> nth d (upd d x l) dft = x.
Proof.
  revert l; induction d as [|d IH]; intros [|y l] H; cbn in *; try lia; [reflexivity|].
  change (nth d (upd d x l) dft = x). apply IH. lia.
Qed.
Lemma nth_upd_neq {A} d e (x : A) l dft : d <> e -> nth e (upd d x l) dft = nth e l dft.
Proof.
  revert e l; induction d as [|d IH]; intros e [|y l] H; cbn.
  - destruct e; reflexivity.
  - destruct e; [lia|reflexivity].
  - destruct e; reflexivity.
  - destruct e; [reflexivity|]. change (nth e (upd d x l) dft = nth e l dft). apply IH. lia.
Qed.
Lemma map_upd {A B} (f : A -> B) d x l : map f (upd d x l) = upd d (f x) (map f l).
Proof.
  revert l; induction d as [|d IH]; intros [|y l]; cbn; try reflexivity.
  change (f y :: map f (upd d x l) = f y :: upd d (f x) (map f l)). f_equal. apply IH.
Qed.

(** * tensors built from entity lists *)
Section Build.
Context {ent : Type}.
(** the array whose cell at position (i_0, ..., i_{d-1}) is [v] of the entities at these positions of the axes *)
Fixpoint build (ess : list (list ent)) (v : list ent -> Z) : tensor :=
  match ess with [] => Leaf (v []) | es :: r => Node (map (fun e => build r (fun l => v (e :: l))) es) end.

Lemma t_pick_build a ps ess v : (a < length ess)%nat ->
  t_pick a ps (build ess v) = build (upd a (pick ps (nth a ess [])) ess) v.
Proof.
  unfold t_pick. revert ess v; induction a as [|a IH]; intros [|es r] v H; cbn in H; try lia; cbn.
  - rewrite pick_map. reflexivity.
  - rewrite map_map. f_equal. change (upd (S a) (pick ps (nth a r [])) (es :: r)) with (es :: upd a (pick ps (nth a r [])) r).
    cbn. apply map_ext. intros e. apply IH. lia.
Qed.

Lemma map2_map_same {A B C D} (f : B -> C -> D) (g1 : A -> B) (g2 : A -> C) l :
  map2 f (map g1 l) (map g2 l) = map (fun e => f (g1 e) (g2 e)) l.
Proof. induction l; cbn; congruence. Qed.

Lemma t_cat_build a us ess v : (a < length ess)%nat ->
  t_cat a (build ess v) (build (upd a us ess) v) = build (upd a (nth a ess [] ++ us) ess) v.
Proof.
  revert ess v; induction a as [|a IH]; intros [|es r] v H; cbn in H; try lia.
  - cbn. rewrite map_app. reflexivity.
  - change (upd (S a) us (es :: r)) with (es :: upd a us r).
    change (upd (S a) (nth (S a) (es :: r) [] ++ us) (es :: r)) with (es :: upd a (nth a r [] ++ us) r).
    cbn. rewrite map2_map_same. f_equal. apply map_ext. intros e. apply IH. lia.
Qed.

Lemma kids_build es r v : kids (build (es :: r) v) = map (fun e => build r (fun l => v (e :: l))) es.
Proof. reflexivity. Qed.

Lemma bcast_id ess v : bcast (map (@length ent) ess) (map (@length ent) ess) (build ess v) = Some (build ess v).
Proof.
  revert v; induction ess as [|es r IH]; intros v; cbn; [reflexivity|].
  rewrite Nat.eqb_refl.
  assert (H : mapM (bcast (map (@length ent) r) (map (@length ent) r)) (map (fun e => build r (fun l => v (e :: l))) es)
              = Some (map (fun e => build r (fun l => v (e :: l))) es)).
  { induction es as [|e es IHes]; cbn; [reflexivity|]. rewrite IH, IHes. reflexivity. }
  rewrite H. reflexivity.
Qed.
End Build.

(** * bookkeeping lemmas on the axis records *)
Definition ax0 : axst := {| labs := []; m_name := None; m_stix := None; m_spix := None; m_len := None |}.
Lemma nth_map_indexed {A B} (f : nat * A -> B) (l : list A) k dB dA : (k < length l)%nat ->
  nth k (map f (combine (seq 0 (length l)) l)) dB = f (k, nth k l dA).
Proof.
  intros H. assert (G : forall (l : list A) off k, (k < length l)%nat ->
     nth k (map f (combine (seq off (length l)) l)) dB = f ((off + k)%nat, nth k l dA)).
  { clear. induction l as [|x t IH]; intros off k H; cbn in H; [lia|]. destruct k; cbn.
    - now rewrite Nat.add_0_r.
    - rewrite IH by lia. f_equal. f_equal. lia. }
  now rewrite G.
Qed.
Lemma length_map_indexed {A B} (f : nat * A -> B) (l : list A) : length (map f (combine (seq 0 (length l)) l)) = length l.
Proof. rewrite map_length, combine_length, seq_length. lia. Qed.

Lemma ax_of_new_axes c s k l k' sh t : (k' < length (axes s))%nat ->
  ax_of {| shape := sh; data := t; axes := new_axes c s k l |} k' =
  if Nat.eqb k' k then {| labs := l; m_name := None; m_stix := None; m_spix := None; m_len := None |}
  else if drop_other c then cleared (ax_of s k') else ax_of s k'.
Proof. intros H. unfold ax_of, new_axes; cbn. now rewrite (nth_map_indexed _ _ _ _ ax0). Qed.
Lemma ax_of_set_axes s k l k' sh t : (k' < length (axes s))%nat ->
  ax_of {| shape := sh; data := t; axes := set_axes s k l |} k' =
  if Nat.eqb k' k then {| labs := l; m_name := None; m_stix := None; m_spix := None; m_len := None |} else ax_of s k'.
Proof. intros H. unfold ax_of, set_axes; cbn. now rewrite (nth_map_indexed _ _ _ _ ax0). Qed.
Lemma construct_ok c sh t ax s' : construct c sh t ax = OK s' -> s' = {| shape := sh; data := t; axes := ax |}.
Proof. unfold construct. destruct (_ || _); [|discriminate]. destruct (forallb _ _); [|discriminate]. now inversion 1. Qed.

(** * well-formed class descriptors *)
Definition wf_clsb (c : cls) : bool :=
  forallb (fun kx => match snd (snd kx) with [] => false | _ => true end
                     && forallb (fun a => Nat.ltb a (ndim c)) (snd (snd kx))
                     && (fix nodup (l : list nat) := match l with [] => true | x :: r => negb (existsb (Nat.eqb x) r) && nodup r end) (snd (snd kx))
                     && forallb (fun ky => Nat.eqb (fst kx) (fst ky)
                                           || forallb (fun a => negb (existsb (Nat.eqb a) (snd (snd ky)))) (snd (snd kx)))
                                (combine (seq 0 (length (axs c))) (axs c)))
          (combine (seq 0 (length (axs c))) (axs c)).
Definition all_classes : list cls :=
  [cDenseTaxaMatrix; cDenseVariantMatrix; cDenseTraitMatrix; cDensePhasedMatrix; cDenseTaxaVariantMatrix;
   cDensePhasedTaxaVariantMatrix; cDenseTaxaTraitMatrix; cDenseSquareTaxaMatrix; cDenseSquareTaxaTraitMatrix;
   cDenseGenotypeMatrix; cDensePhasedGenotypeMatrix; cDenseBreedingValueMatrix; cDenseCoancestryMatrix].
Lemma all_classes_wf : forallb wf_clsb all_classes = true.
Proof. vm_compute. reflexivity. Qed.

Record wf_cls (c : cls) : Prop := {
  wf_ne : forall k, (k < length (axs c))%nat -> taxes c k <> [];
  wf_lt : forall k a, In a (taxes c k) -> (a < ndim c)%nat;
  wf_nodup : forall k, NoDup (taxes c k);
  wf_disj : forall k k' a, k <> k' -> In a (taxes c k) -> ~ In a (taxes c k') }.

Lemma nodupb_NoDup l : (fix nodup (l : list nat) := match l with [] => true | x :: r => negb (existsb (Nat.eqb x) r) && nodup r end) l = true -> NoDup l.
Proof.
  induction l as [|x r IH]; intros H; constructor.
  - apply andb_prop in H as [H _]. intros Hin. apply negb_true_iff in H.
    assert (existsb (Nat.eqb x) r = true) by (apply existsb_exists; exists x; split; [assumption|apply Nat.eqb_refl]). congruence.
  - apply IH. now apply andb_prop in H as [_ H].
Qed.
Lemma taxes_nth c k : taxes c k = match nth_error (axs c) k with Some (_, l) => l | None => [] end.
Proof. reflexivity. Qed.
Lemma nth_error_combine_seq {A} (l : list A) k x : nth_error l k = Some x -> nth_error (combine (seq 0 (length l)) l) k = Some (k, x).
Proof.
  assert (G : forall (l : list A) off k x, nth_error l k = Some x -> nth_error (combine (seq off (length l)) l) k = Some ((off + k)%nat, x)).
  { clear. induction l as [|y t IH]; intros off [|k] x H; cbn in *; try discriminate.
    - inversion H. now rewrite Nat.add_0_r.
    - rewrite (IH (S off) k x H). f_equal. f_equal. lia. }
  intros H. now rewrite (G l 0%nat k x H).
Qed.
Lemma wf_clsb_wf c : wf_clsb c = true -> wf_cls c.
Proof.
  unfold wf_clsb. intros H. rewrite forallb_forall in H.
  assert (G : forall k kd l, nth_error (axs c) k = Some (kd, l) -> In (k, (kd, l)) (combine (seq 0 (length (axs c))) (axs c))).
  { intros k kd l E. eapply nth_error_In. apply nth_error_combine_seq. exact E. }
  split.
  - intros k Hk. rewrite taxes_nth. destruct (nth_error (axs c) k) as [[kd l]|] eqn:E; [|apply nth_error_None in E; lia].
    specialize (H _ (G _ _ _ E)). cbn in H. repeat (apply andb_prop in H as [H _]). destruct l; [discriminate|discriminate].
  - intros k a. rewrite taxes_nth. destruct (nth_error (axs c) k) as [[kd l]|] eqn:E; [|intros []].
    specialize (H _ (G _ _ _ E)). cbn in H. apply andb_prop in H as [H _]. apply andb_prop in H as [H _]. apply andb_prop in H as [_ H].
    rewrite forallb_forall in H. intros Hin. apply Nat.ltb_lt. now apply H.
  - intros k. rewrite taxes_nth. destruct (nth_error (axs c) k) as [[kd l]|] eqn:E; [|constructor].
    specialize (H _ (G _ _ _ E)). cbn in H. apply andb_prop in H as [H _]. apply andb_prop in H as [_ H]. now apply nodupb_NoDup.
  - intros k k' a Hne. rewrite !taxes_nth.
    destruct (nth_error (axs c) k) as [[kd l]|] eqn:E; [|intros []].
    destruct (nth_error (axs c) k') as [[kd' l']|] eqn:E'; [|intros _ []].
    specialize (H _ (G _ _ _ E)). cbn in H. apply andb_prop in H as [_ H]. rewrite forallb_forall in H.
    specialize (H _ (G _ _ _ E')). cbn in H. apply orb_prop in H as [H|H]; [apply Nat.eqb_eq in H; lia|].
    rewrite forallb_forall in H. intros Hin Hin'. specialize (H _ Hin). apply negb_true_iff in H.
    assert (existsb (Nat.eqb a) l' = true) by (apply existsb_exists; exists a; split; [assumption|apply Nat.eqb_refl]). congruence.
Qed.
Lemma all_classes_wf_prop : Forall wf_cls all_classes.
Proof.
  apply Forall_forall. intros c Hc. apply wf_clsb_wf.
  pose proof all_classes_wf as H. rewrite forallb_forall in H. now apply H.
Qed.
Lemma taxis_in c k : wf_cls c -> (k < length (axs c))%nat -> In (taxis c k) (taxes c k).
Proof.
  intros W Hk. pose proof (wf_ne c W k Hk) as Hne. unfold taxis, taxes in *.
  destruct (nth_error (axs c) k) as [[kd [|a l]]|]; try congruence. now left.
Qed.

(** * refinement to entities *)
Definition upd_all {A} (axl : list nat) (x : A) (l : list A) : list A := fold_left (fun acc a => upd a x acc) axl l.
Lemma upd_all_length {A} axl (x : A) l : length (upd_all axl x l) = length l.
Proof. unfold upd_all. revert l; induction axl as [|a r IH]; intros l; cbn; [reflexivity|]. now rewrite IH, upd_length. Qed.
Lemma nth_upd_all_notin {A} axl (x : A) l e d : ~ In e axl -> nth e (upd_all axl x l) d = nth e l d.
Proof.
  unfold upd_all. revert l; induction axl as [|a r IH]; intros l H; cbn; [reflexivity|].
  rewrite IH by (intros Hin; apply H; now right). apply nth_upd_neq. intros ->. apply H. now left.
Qed.
Lemma nth_upd_all_in {A} axl (x : A) l e d : In e axl -> (e < length l)%nat -> nth e (upd_all axl x l) d = x.
Proof.
  unfold upd_all. revert l; induction axl as [|a r IH]; intros l H Hl; [destruct H|]. cbn.
  destruct (in_dec Nat.eq_dec e r) as [Hin|Hnin].
  - apply IH; [assumption|now rewrite upd_length].
  - destruct H as [->|H]; [|contradiction]. fold (upd_all r x (upd e x l)). rewrite nth_upd_all_notin by assumption. now apply nth_upd_eq.
Qed.

Section Refinement.
Context {ent : Type}.
Variable val : list ent -> Z.
Variable lbl : nat -> nat -> ent -> lab.

(** [Rep c s ess]: the arrays of state [s] of class [c] are the images of the entity lists [ess] (one per tensor axis):
    the cell at (i_0, .., i_d) is [val] of the entities at these positions, every label array that is present is the
    image of the entity list of its axis under the labelling of its field, all tensor axes of a kind carry the same list *)
Record Rep (c : cls) (s : st) (ess : list (list ent)) : Prop := {
  r_shape : shape s = map (@length ent) ess;
  r_data : data s = build ess val;
  r_nd : length ess = ndim c;
  r_nax : length (axes s) = length (axs c);
  r_sq : forall k a, In a (taxes c k) -> nth a ess [] = nth (taxis c k) ess [];
  r_nf : forall k, (k < length (axs c))%nat -> length (labs (ax_of s k)) = nfields (sch c k);
  r_labs : forall k j l, (k < length (axs c))%nat -> nth_error (labs (ax_of s k)) j = Some (Some l) ->
                         l = map (lbl k j) (nth (taxis c k) ess []) }.

(** no label array that was present has been lost *)
Definition no_loss (s s' : st) : Prop :=
  forall k j l, nth_error (labs (ax_of s k)) j = Some (Some l) -> exists l', nth_error (labs (ax_of s' k)) j = Some (Some l').

Definition plan_ok (plan : nat -> option (list nat)) : Prop := forall n ps, plan n = Some ps -> Forall (fun p => (p < n)%nat) ps.

Lemma fold_un_none (plan : nat -> option (list nat)) axl :
  fold_left (fun acc a => match acc with None => None | Some (t, sh) =>
                 match plan (nth a sh O) with None => None | Some ps => Some (t_pick a ps t, upd a (length ps) sh) end end) axl None = None.
Proof. induction axl; cbn; auto. Qed.

Lemma un_fold_rest (plan : nat -> option (list nat)) es ps rest : plan (length es) = Some ps -> Forall (fun p => (p < length es)%nat) ps ->
  forall ess0, (forall a, In a rest -> (a < length ess0)%nat /\ nth a ess0 [] = es) -> NoDup rest ->
  fold_left (fun acc a => match acc with None => None | Some (t, sh) =>
                 match plan (nth a sh O) with None => None | Some ps => Some (t_pick a ps t, upd a (length ps) sh) end end)
            rest (Some (build ess0 val, map (@length ent) ess0))
  = Some (build (upd_all rest (pick ps es) ess0) val, map (@length ent) (upd_all rest (pick ps es) ess0)).
Proof.
  intros Hp Hlt. induction rest as [|a r IH]; intros ess0 H ND; cbn; [reflexivity|].
  destruct (H a (or_introl eq_refl)) as [Ha Hes].
  assert (E : nth a (map (@length ent) ess0) O = length es).
  { change O with (length (@nil ent)). rewrite map_nth. now rewrite Hes. }
  rewrite E, Hp. rewrite t_pick_build by assumption. rewrite Hes.
  assert (E2 : upd a (length ps) (map (@length ent) ess0) = map (@length ent) (upd a (pick ps es) ess0)).
  { rewrite map_upd. now rewrite pick_length_lt. }
  rewrite E2. inversion ND as [|? ? Hnin ND']; subst.
  rewrite IH; [reflexivity| |assumption].
  intros a' Hin. destruct (H a' (or_intror Hin)) as [Ha' Hes']. split; [now rewrite upd_length|].
  rewrite nth_upd_neq; [assumption|]. intros ->. contradiction.
Qed.

Lemma un_data_rep c s k ess (plan : nat -> option (list nat)) t sh : wf_cls c -> Rep c s ess -> (k < length (axs c))%nat -> plan_ok plan ->
  un_data c s k plan = Some (t, sh) ->
  let es := nth (taxis c k) ess [] in
  exists ps, plan (length es) = Some ps /\ Forall (fun p => (p < length es)%nat) ps /\
             t = build (upd_all (taxes c k) (pick ps es) ess) val /\ sh = map (@length ent) (upd_all (taxes c k) (pick ps es) ess).
Proof.
  intros W R Hk PO H es. unfold un_data in H. rewrite (r_shape _ _ _ R), (r_data _ _ _ R) in H.
  pose proof (wf_ne c W k Hk) as Hne. pose proof (wf_nodup c W k) as ND.
  assert (Hall : forall a, In a (taxes c k) -> (a < length ess)%nat /\ nth a ess [] = es).
  { intros a Hin. split; [rewrite (r_nd _ _ _ R); eapply wf_lt; eauto | now apply (r_sq _ _ _ R)]. }
  destruct (taxes c k) as [|a r] eqn:Et; [congruence|]. cbn in H.
  destruct (Hall a (or_introl eq_refl)) as [Ha Hes].
  assert (E : nth a (map (@length ent) ess) O = length es).
  { change O with (length (@nil ent)). rewrite map_nth. now rewrite Hes. }
  rewrite E in H. destruct (plan (length es)) as [ps|] eqn:Ep; [|now rewrite fold_un_none in H].
  pose proof (PO _ _ Ep) as Hlt. exists ps. split; [reflexivity|]. split; [assumption|].
  rewrite t_pick_build in H by assumption. rewrite Hes in H.
  assert (E2 : upd a (length ps) (map (@length ent) ess) = map (@length ent) (upd a (pick ps es) ess)).
  { rewrite map_upd. now rewrite pick_length_lt. }
  rewrite E2 in H. inversion ND as [|? ? Hnin ND']; subst.
  rewrite (un_fold_rest plan es ps r Ep Hlt) in H; [inversion H; split; reflexivity| |assumption].
  intros a' Hin. destruct (Hall a' (or_intror Hin)) as [Ha' Hes']. split; [now rewrite upd_length|].
  rewrite nth_upd_neq; [assumption|]. intros ->. contradiction.
Qed.

Lemma plan_take_ok idx : plan_ok (fun n => plan_take n idx).
Proof.
  intros n ps H. unfold plan_take in H. eapply mapM_Forall; [exact H|]. cbn. intros i p. unfold norm.
  destruct (_ || _) eqn:E; [discriminate|]. intros [= <-]. apply orb_false_iff in E as [E1 E2].
  apply Z.ltb_ge in E1. apply Z.leb_gt in E2. destruct (i <? 0) eqn:E3; [apply Z.ltb_lt in E3|apply Z.ltb_ge in E3]; lia.
Qed.
Lemma plan_delete_ok o : plan_ok (fun n => plan_delete n o).
Proof.
  intros n ps H. unfold plan_delete in H. destruct (del_positions n o); [|discriminate]. inversion H; subst.
  apply Forall_forall. intros p Hin. apply filter_In in Hin as [Hin _]. apply in_seq in Hin. lia.
Qed.

(** labels of the operated axis after a unary operation *)
Lemma un_labs_rep_gen (f : larr -> option larr) (plan : nat -> option (list nat)) (es : list ent) ps :
  (forall l, f l = option_map (fun ps => pick ps l) (plan (length l))) -> plan (length es) = Some ps ->
  forall (L : list (option larr)) (g : nat -> ent -> lab) l',
  (forall j l, nth_error L j = Some (Some l) -> l = map (g j) es) ->
  mapM (omap f) L = Some l' ->
  length l' = length L /\
  (forall j l, nth_error l' j = Some (Some l) -> l = map (g j) (pick ps es)) /\
  (forall j l, nth_error L j = Some (Some l) -> exists l2, nth_error l' j = Some (Some l2)).
Proof.
  intros Hf Hp. induction L as [|o L IH]; intros g l' HL H; cbn in H.
  - inversion H; subst. split; [reflexivity|]. split; intros [|j] l E; cbn in E; discriminate.
  - destruct (omap f o) as [o'|] eqn:Eo; [|discriminate]. destruct (mapM (omap f) L) as [r|] eqn:Er; [|discriminate].
    inversion H; subst; clear H.
    destruct (IH (fun j => g (S j)) r (fun j l E => HL (S j) l E) eq_refl) as (IH1 & IH2 & IH3).
    split; [cbn; now rewrite IH1|]. split.
    + intros [|j] l E; cbn in E.
      * inversion E; subst. destruct o as [l0|]; cbn in Eo; [|inversion Eo].
        rewrite Hf in Eo. pose proof (HL 0%nat l0 eq_refl) as ->. rewrite map_length, Hp in Eo. cbn in Eo. inversion Eo. apply pick_map.
      * exact (IH2 j l E).
    + intros [|j] l E; cbn in E.
      * inversion E; subst. cbn in Eo. rewrite Hf in Eo. pose proof (HL 0%nat l eq_refl) as ->. rewrite map_length, Hp in Eo. cbn in Eo.
        inversion Eo. eexists. reflexivity.
      * cbn. exact (IH3 j l E).
Qed.
Lemma un_labs_rep s k (f : larr -> option larr) (plan : nat -> option (list nat)) (es : list ent) ps l' :
  (forall l, f l = option_map (fun ps => pick ps l) (plan (length l))) -> plan (length es) = Some ps ->
  (forall j l, nth_error (labs (ax_of s k)) j = Some (Some l) -> l = map (lbl k j) es) ->
  un_labs s k f = Some l' ->
  length l' = length (labs (ax_of s k)) /\
  (forall j l, nth_error l' j = Some (Some l) -> l = map (lbl k j) (pick ps es)) /\
  (forall j l, nth_error (labs (ax_of s k)) j = Some (Some l) -> exists l2, nth_error l' j = Some (Some l2)).
Proof. intros Hf Hp HL H. exact (un_labs_rep_gen f plan es ps Hf Hp _ (lbl k) l' HL H). Qed.

Lemma Rep_after_unary c s k ess xs (l' : list (option larr)) (ax' : list axst) t sh :
  wf_cls c -> Rep c s ess -> (k < length (axs c))%nat ->
  t = build (upd_all (taxes c k) xs ess) val -> sh = map (@length ent) (upd_all (taxes c k) xs ess) ->
  length ax' = length (axes s) ->
  (forall j l, nth_error l' j = Some (Some l) -> l = map (lbl k j) xs) ->
  labs (ax_of {| shape := sh; data := t; axes := ax' |} k) = l' -> length l' = length (labs (ax_of s k)) ->
  (forall k', (k' < length (axes s))%nat -> k' <> k ->
      length (labs (ax_of {| shape := sh; data := t; axes := ax' |} k')) = length (labs (ax_of s k'))) ->
  (forall k', (k' < length (axes s))%nat -> k' <> k ->
      forall j l, nth_error (labs (ax_of {| shape := sh; data := t; axes := ax' |} k')) j = Some (Some l) ->
                  nth_error (labs (ax_of s k')) j = Some (Some l)) ->
  Rep c {| shape := sh; data := t; axes := ax' |} (upd_all (taxes c k) xs ess).
Proof.
  intros W R Hk -> -> Hlen Hl Hown Hownlen Hothlen Hoth.
  assert (Hkin : forall k', (k' < length (axs c))%nat -> In (taxis c k') (taxes c k')) by (intros; now apply taxis_in).
  assert (Hlt : forall k' a, In a (taxes c k') -> (a < length ess)%nat) by (intros; rewrite (r_nd _ _ _ R); eapply wf_lt; eauto).
  split.
  - reflexivity.
  - reflexivity.
  - rewrite upd_all_length. apply (r_nd _ _ _ R).
  - cbn. rewrite Hlen. apply (r_nax _ _ _ R).
  - intros k' a Hin. destruct (Nat.eq_dec k' k) as [->|Hne].
    + rewrite (nth_upd_all_in _ _ _ a) by (eauto using Hlt).
      rewrite (nth_upd_all_in _ _ _ (taxis c k)); [reflexivity|now apply Hkin|]. apply (Hlt k). now apply Hkin.
    + assert (Hk' : (k' < length (axs c))%nat).
      { destruct (nth_error (axs c) k') eqn:E; [apply nth_error_Some; rewrite E; discriminate|].
        unfold taxes in Hin. rewrite E in Hin. destruct Hin. }
      assert (N1 : ~ In a (taxes c k)) by (exact (wf_disj c W k' k a Hne Hin)).
      assert (N2 : ~ In (taxis c k') (taxes c k)) by (exact (wf_disj c W k' k _ Hne (Hkin k' Hk'))).
      rewrite (nth_upd_all_notin _ _ _ a) by assumption. rewrite (nth_upd_all_notin _ _ _ (taxis c k')) by assumption.
      now apply (r_sq _ _ _ R).
  - intros k' Hk'. destruct (Nat.eq_dec k' k) as [->|Hne].
    + rewrite Hown, Hownlen. now apply (r_nf _ _ _ R).
    + rewrite Hothlen; [now apply (r_nf _ _ _ R)|now rewrite (r_nax _ _ _ R)|assumption].
  - intros k' j l Hk' E. rewrite <- (r_nax _ _ _ R) in Hk'. destruct (Nat.eq_dec k' k) as [->|Hne].
    + rewrite Hown in E.
      rewrite nth_upd_all_in; [now apply Hl with (j := j)|now apply Hkin|]. apply (Hlt k). now apply Hkin.
    + pose proof (Hoth k' Hk' Hne j l E) as E2. rewrite (r_nax _ _ _ R) in Hk'.
      rewrite nth_upd_all_notin; [now apply (r_labs _ _ _ R)|].
      exact (wf_disj c W k' k _ Hne (Hkin k' Hk')).
Qed.
End Refinement.

Section Unary.
Context {ent : Type}.
Variable val : list ent -> Z.
Variable lbl : nat -> nat -> ent -> lab.
Notation Rep := (Rep val lbl).

Lemma nth_error_cleared a j l : nth_error (labs (cleared a)) j = Some (Some l) -> False.
Proof. unfold cleared; cbn. rewrite nth_error_map. destruct (nth_error (labs a) j); cbn; discriminate. Qed.

(** a non-mutating unary operation: result built by the constructor from [new_axes] *)
Lemma unary_new_refines c s k ess (plan : nat -> option (list nat)) (f : larr -> option larr) t sh l s' :
  wf_cls c -> Rep c s ess -> (k < length (axs c))%nat -> plan_ok plan ->
  (forall l0, f l0 = option_map (fun ps => pick ps l0) (plan (length l0))) ->
  un_data c s k plan = Some (t, sh) -> un_labs s k f = Some l -> construct c sh t (new_axes c s k l) = OK s' ->
  let es := nth (taxis c k) ess [] in
  exists ps, plan (length es) = Some ps /\ Rep c s' (upd_all (taxes c k) (pick ps es) ess) /\ (drop_other c = false -> no_loss s s').
Proof.
  intros W R Hk PO Hf Hd Hl Hc es.
  destruct (un_data_rep val lbl c s k ess plan t sh W R Hk PO Hd) as (ps & Hp & Hlt & Ht & Hsh).
  fold es in Hp, Hlt, Ht, Hsh. exists ps. split; [assumption|].
  apply construct_ok in Hc. subst s'.
  pose proof (r_nax _ _ _ _ _ R) as Hnax.
  destruct (un_labs_rep lbl s k f plan es ps l Hf Hp (fun j l0 E => r_labs _ _ _ _ _ R k j l0 Hk E) Hl) as (L1 & L2 & L3).
  split.
  - apply Rep_after_unary with (s := s) (l' := l); try assumption.
    + unfold new_axes. apply length_map_indexed.
    + rewrite ax_of_new_axes by (rewrite Hnax; assumption). now rewrite Nat.eqb_refl.
    + intros k' Hk' Hne. rewrite ax_of_new_axes by assumption.
      destruct (Nat.eqb k' k) eqn:E; [apply Nat.eqb_eq in E; contradiction|].
      destruct (drop_other c); [unfold cleared; cbn; apply map_length|reflexivity].
    + intros k' Hk' Hne j l0. rewrite ax_of_new_axes by assumption.
      destruct (Nat.eqb k' k) eqn:E; [apply Nat.eqb_eq in E; contradiction|].
      destruct (drop_other c); [intros E2; destruct (nth_error_cleared _ _ _ E2)|auto].
  - intros Hdo k' j l0 E.
    destruct (Nat.lt_ge_cases k' (length (axes s))) as [Hk'|Hk'].
    + rewrite ax_of_new_axes by assumption. destruct (Nat.eqb k' k) eqn:E2.
      * apply Nat.eqb_eq in E2; subst k'. cbn. eapply L3; eauto.
      * rewrite Hdo. eauto.
    + unfold ax_of in E. rewrite nth_overflow in E by assumption. cbn in E. destruct j; discriminate.
Qed.

(** an in-place unary operation: [set_axes], no constructor *)
Lemma unary_set_refines c s k ess (plan : nat -> option (list nat)) (f : larr -> option larr) t sh l :
  wf_cls c -> Rep c s ess -> (k < length (axs c))%nat -> plan_ok plan ->
  (forall l0, f l0 = option_map (fun ps => pick ps l0) (plan (length l0))) ->
  un_data c s k plan = Some (t, sh) -> un_labs s k f = Some l ->
  let es := nth (taxis c k) ess [] in
  let s' := {| shape := sh; data := t; axes := set_axes s k l |} in
  exists ps, plan (length es) = Some ps /\ Rep c s' (upd_all (taxes c k) (pick ps es) ess) /\ no_loss s s'.
Proof.
  intros W R Hk PO Hf Hd Hl es s'.
  destruct (un_data_rep val lbl c s k ess plan t sh W R Hk PO Hd) as (ps & Hp & Hlt & Ht & Hsh).
  fold es in Hp, Hlt, Ht, Hsh. exists ps. split; [assumption|].
  pose proof (r_nax _ _ _ _ _ R) as Hnax.
  destruct (un_labs_rep lbl s k f plan es ps l Hf Hp (fun j l0 E => r_labs _ _ _ _ _ R k j l0 Hk E) Hl) as (L1 & L2 & L3).
  split.
  - apply Rep_after_unary with (s := s) (l' := l); try assumption.
    + unfold set_axes. apply length_map_indexed.
    + rewrite ax_of_set_axes by (rewrite Hnax; assumption). now rewrite Nat.eqb_refl.
    + intros k' Hk' Hne. rewrite ax_of_set_axes by assumption.
      destruct (Nat.eqb k' k) eqn:E; [apply Nat.eqb_eq in E; contradiction|reflexivity].
    + intros k' Hk' Hne j l0. rewrite ax_of_set_axes by assumption.
      destruct (Nat.eqb k' k) eqn:E; [apply Nat.eqb_eq in E; contradiction|auto].
  - intros k' j l0 E.
    destruct (Nat.lt_ge_cases k' (length (axes s))) as [Hk'|Hk'].
    + unfold s'. rewrite ax_of_set_axes by assumption. destruct (Nat.eqb k' k) eqn:E2.
      * apply Nat.eqb_eq in E2; subst k'. cbn. eapply L3; eauto.
      * eauto.
    + unfold ax_of in E. rewrite nth_overflow in E by assumption. cbn in E. destruct j; discriminate.
Qed.

Theorem select_refines c s k idx s' ess : wf_cls c -> Rep c s ess -> (k < length (axs c))%nat ->
  op_select c s k idx = OK s' ->
  let es := nth (taxis c k) ess [] in
  exists ps, plan_take (length es) idx = Some ps /\ Rep c s' (upd_all (taxes c k) (pick ps es) ess) /\ (drop_other c = false -> no_loss s s').
Proof.
  intros W R Hk H. unfold op_select in H.
  destruct (un_data c s k (fun n => plan_take n idx)) as [[t sh]|] eqn:Ed; [|discriminate].
  destruct (un_labs s k (np_take idx)) as [l|] eqn:El; [|discriminate].
  eapply (unary_new_refines c s k ess (fun n => plan_take n idx) (np_take idx));
    [exact W|exact R|exact Hk|apply plan_take_ok|reflexivity|exact Ed|exact El|exact H].
Qed.
Theorem delete_refines c s k o s' ess : wf_cls c -> Rep c s ess -> (k < length (axs c))%nat ->
  op_delete c s k o = OK s' ->
  let es := nth (taxis c k) ess [] in
  exists ps, plan_delete (length es) o = Some ps /\ Rep c s' (upd_all (taxes c k) (pick ps es) ess) /\ (drop_other c = false -> no_loss s s').
Proof.
  intros W R Hk H. unfold op_delete in H.
  destruct (un_data c s k (fun n => plan_delete n o)) as [[t sh]|] eqn:Ed; [|discriminate].
  destruct (un_labs s k (np_delete o)) as [l|] eqn:El; [|discriminate].
  eapply (unary_new_refines c s k ess (fun n => plan_delete n o) (np_delete o));
    [exact W|exact R|exact Hk|apply plan_delete_ok|reflexivity|exact Ed|exact El|exact H].
Qed.
Theorem remove_refines c s k o s' ess : wf_cls c -> Rep c s ess -> (k < length (axs c))%nat ->
  op_remove c s k o = OK s' ->
  let es := nth (taxis c k) ess [] in
  exists ps, plan_delete (length es) o = Some ps /\ Rep c s' (upd_all (taxes c k) (pick ps es) ess) /\ no_loss s s'.
Proof.
  intros W R Hk H. unfold op_remove in H.
  destruct (un_data c s k (fun n => plan_delete n o)) as [[t sh]|] eqn:Ed; [|discriminate].
  destruct (un_labs s k (np_delete o)) as [l|] eqn:El; [|discriminate]. inversion H; subst s'.
  eapply (unary_set_refines c s k ess (fun n => plan_delete n o) (np_delete o));
    [exact W|exact R|exact Hk|apply plan_delete_ok|reflexivity|exact Ed|exact El].
Qed.
Theorem reorder_refines c s k idx s' ess : wf_cls c -> Rep c s ess -> (k < length (axs c))%nat ->
  op_reorder c s k idx = OK s' ->
  let es := nth (taxis c k) ess [] in
  exists ps, plan_take (length es) idx = Some ps /\ Rep c s' (upd_all (taxes c k) (pick ps es) ess) /\ no_loss s s'.
Proof.
  intros W R Hk H. unfold op_reorder in H. destruct (sortable (sch c k)); [|discriminate].
  destruct (un_data c s k (fun n => plan_take n idx)) as [[t sh]|] eqn:Ed; [|discriminate].
  destruct (un_labs s k (np_take idx)) as [l|] eqn:El; [|discriminate]. inversion H; subst s'.
  eapply (unary_set_refines c s k ess (fun n => plan_take n idx) (np_take idx));
    [exact W|exact R|exact Hk|apply plan_take_ok|reflexivity|exact Ed|exact El].
Qed.
(** sort = lexsort then reorder; group = sort then metadata; ungroup only touches metadata *)
Lemma Rep_upd_ax c s k ess (g : axst -> axst) : (forall a, labs (g a) = labs a) -> Rep c s ess -> Rep c (upd_ax s k g) ess.
Proof.
  intros Hg R. destruct R as [R1 R2 R3 R4 R5 R7 R6]. split; try assumption.
  - unfold upd_ax; cbn. rewrite length_map_indexed. assumption.
  - intros k' Hk'. rewrite <- (R7 k' Hk'). unfold upd_ax, ax_of; cbn.
    rewrite (nth_map_indexed _ _ _ _ ax0) by (rewrite R4; assumption). cbn. destruct (Nat.eqb k' k); [now rewrite Hg|reflexivity].
  - intros k' j l Hk' E. apply (R6 k' j l Hk').
    unfold upd_ax, ax_of in E; cbn in E. rewrite (nth_map_indexed _ _ _ _ ax0) in E by (rewrite R4; assumption).
    cbn in E. unfold ax_of. destruct (Nat.eqb k' k); [rewrite Hg in E|]; exact E.
Qed.
Lemma no_loss_upd_ax s k (g : axst -> axst) : (forall a, labs (g a) = labs a) -> no_loss s (upd_ax s k g).
Proof.
  intros Hg k' j l E. exists l.
  destruct (Nat.lt_ge_cases k' (length (axes s))) as [Hk'|Hk'].
  - unfold upd_ax, ax_of; cbn. rewrite (nth_map_indexed _ _ _ _ ax0) by assumption.
    cbn. unfold ax_of in E. destruct (Nat.eqb k' k); [rewrite Hg|]; exact E.
  - unfold ax_of in E. rewrite nth_overflow in E by assumption. cbn in E. destruct j; discriminate.
Qed.
Lemma no_loss_trans s1 s2 s3 : no_loss s1 s2 -> no_loss s2 s3 -> no_loss s1 s3.
Proof. intros H1 H2 k j l E. destruct (H1 k j l E) as [l2 E2]. exact (H2 k j l2 E2). Qed.

Theorem sort_refines c s k keys s' ess : wf_cls c -> Rep c s ess -> (k < length (axs c))%nat ->
  op_sort c s k keys = OK s' ->
  let es := nth (taxis c k) ess [] in
  exists idx ps, op_lexsort c s k keys = OK idx /\ plan_take (length es) idx = Some ps /\
                 Rep c s' (upd_all (taxes c k) (pick ps es) ess) /\ no_loss s s'.
Proof.
  intros W R Hk H es. unfold op_sort in H. destruct (op_lexsort c s k keys) as [idx|] eqn:E; [|discriminate]. cbn in H.
  destruct (reorder_refines c s k idx s' ess W R Hk H) as (ps & Hp & HR & HN). exists idx, ps. auto.
Qed.
Theorem group_refines c s k s' ess : wf_cls c -> Rep c s ess -> (k < length (axs c))%nat ->
  op_group c s k = OK s' ->
  let es := nth (taxis c k) ess [] in
  exists idx ps, op_lexsort c s k None = OK idx /\ plan_take (length es) idx = Some ps /\
                 Rep c s' (upd_all (taxes c k) (pick ps es) ess) /\ no_loss s s'.
Proof.
  intros W R Hk H es. unfold op_group in H. destruct (grp (sch c k)) as [g|]; [|discriminate].
  destruct (op_sort c s k None) as [s1|] eqn:E; [|discriminate]. cbn in H. inversion H; subst s'.
  destruct (sort_refines c s k None s1 ess W R Hk E) as (idx & ps & H1 & H2 & H3 & H4).
  assert (Hg : forall a, labs (group_meta a g) = labs a).
  { intros a. unfold group_meta. destruct (nth g (labs a) None); [|reflexivity]. destruct (np_unique _) as [[? ?] ?]. reflexivity. }
  exists idx, ps. split; [assumption|]. split; [assumption|]. split.
  - now apply Rep_upd_ax.
  - eapply no_loss_trans; [exact H4|now apply no_loss_upd_ax].
Qed.
Theorem ungroup_refines c s k s' ess : Rep c s ess -> op_ungroup c s k = OK s' -> Rep c s' ess /\ no_loss s s'.
Proof.
  intros R H. unfold op_ungroup in H. destruct (grp (sch c k)); [|discriminate]. inversion H; subst.
  split; [apply Rep_upd_ax|apply no_loss_upd_ax]; auto.
Qed.
End Unary.

(** * binary operations (adjoin / append / insert / incorp) on a non-square axis *)
Lemma upd_upd {A} d (x y : A) l : upd d x (upd d y l) = upd d x l.
Proof.
  unfold upd. revert l; induction d as [|d IH]; intros [|z l]; cbn; try reflexivity.
  f_equal. apply IH.
Qed.
Lemma zrange_le fuel : forall a b s M, (0 < s -> b <= M) -> (s <= 0 -> a <= M) ->
  Forall (fun p => (p <= Z.to_nat M)%nat) (zrange fuel a b s).
Proof.
  induction fuel as [|f IH]; intros a b s M H1 H2; cbn; [constructor|].
  destruct (0 <? s) eqn:Es.
  - apply Z.ltb_lt in Es. destruct (a <? b) eqn:Eab; [|constructor]. apply Z.ltb_lt in Eab. constructor.
    + lia.
    + apply IH; lia.
  - apply Z.ltb_ge in Es. destruct (b <? a) eqn:Eab; [|constructor]. apply Z.ltb_lt in Eab. constructor.
    + lia.
    + destruct (Z.eq_dec s 0) as [->|Hs].
      * apply IH; lia.
      * apply IH; lia.
Qed.
Lemma zclamp_bounds lo hi x : lo <= hi -> lo <= zclamp lo hi x <= hi.
Proof. unfold zclamp. intros H. destruct (x <? lo) eqn:E1; [lia|]. destruct (hi <? x) eqn:E2; [lia|]. apply Z.ltb_ge in E1, E2. lia. Qed.
Lemma Some_inj {A} (a b : A) : Some a = Some b -> a = b.
Proof. now inversion 1. Qed.
Lemma slice_positions_le n a b c ps : slice_positions n a b c = Some ps -> Forall (fun p => (p <= n)%nat) ps.
Proof.
  unfold slice_positions. set (N := Z.of_nat n). set (s := match c with Some s => s | None => 1 end).
  destruct (s =? 0) eqn:Es0; [discriminate|]. apply Z.eqb_neq in Es0.
  assert (HN : 0 <= N) by (unfold N; lia).
  destruct (0 <? s) eqn:Es; intros Hs; apply Some_inj in Hs; subst ps.
  - apply Z.ltb_lt in Es. eapply Forall_impl; [|apply (zrange_le _ _ _ _ N); [|lia]].
    + cbn. intros p Hp. unfold N in Hp. lia.
    + intros _. destruct b as [x|]; [apply zclamp_bounds; lia|lia].
  - apply Z.ltb_ge in Es. eapply Forall_impl; [|apply (zrange_le _ _ _ _ N); [lia|]].
    + cbn. intros p Hp. unfold N in Hp. lia.
    + intros _. destruct a as [x|]; [pose proof (zclamp_bounds (-1) (N - 1) (if x <? 0 then x + N else x)); lia|lia].
Qed.
Lemma ins_positions_le n o ps : ins_positions n o = Some ps -> Forall (fun p => (p <= n)%nat) ps.
Proof.
  destruct o as [i|a b c|l|m]; cbn.
  - unfold norm_ins. destruct (_ || _) eqn:E; [discriminate|]. intros [= <-]. constructor; [|constructor].
    apply orb_false_iff in E as [E1 E2]. apply Z.ltb_ge in E1, E2. destruct (i <? 0) eqn:E3; [apply Z.ltb_lt in E3|apply Z.ltb_ge in E3]; lia.
  - apply slice_positions_le.
  - intros H. eapply mapM_Forall; [exact H|]. cbn. intros i p. unfold norm_ins. destruct (_ || _) eqn:E; [discriminate|]. intros [= <-].
    apply orb_false_iff in E as [E1 E2]. apply Z.ltb_ge in E1, E2. destruct (i <? 0) eqn:E3; [apply Z.ltb_lt in E3|apply Z.ltb_ge in E3]; lia.
  - destruct (forallb _ _) eqn:E; [|discriminate]. intros [= <-]. rewrite forallb_forall in E. apply Forall_forall.
    intros p Hp. apply Nat.leb_le. now apply E.
Qed.
Lemma plan_insert_ok n k o ps : plan_insert n k o = Some ps -> Forall (fun p => (p < n + k)%nat) ps.
Proof.
  unfold plan_insert. destruct (ins_positions n o) as [qs|] eqn:Eq; [|discriminate].
  pose proof (ins_positions_le n o qs Eq) as Hle.
  assert (Hmulti : (if Nat.eqb k (length qs) || Nat.eqb k 1 then
        Some (flat_map (fun p => map (fun jq => if Nat.eqb k 1 then n else (n + fst jq)%nat)
                                   (filter (fun jq => Nat.eqb (snd jq) p) (combine (seq 0 (length qs)) qs))
                               ++ (if Nat.ltb p n then [p] else [])) (seq 0 (S n)))
      else None) = Some ps -> Forall (fun p => (p < n + k)%nat) ps).
  { destruct (Nat.eqb k (length qs) || Nat.eqb k 1) eqn:Ek; [|discriminate]. intros Hs.
    apply (f_equal (fun o => match o with Some x => x | None => [] end)) in Hs. cbv beta iota in Hs. subst ps.
    apply Forall_forall. intros x Hx. apply in_flat_map in Hx as (p & Hp & Hx). apply in_app_or in Hx as [Hx|Hx].
    - apply in_map_iff in Hx as ([j q] & <- & Hjq). apply filter_In in Hjq as [Hjq _]. apply in_combine_l in Hjq.
      apply in_seq in Hjq. cbn. destruct (Nat.eqb k 1) eqn:E1.
      + apply Nat.eqb_eq in E1. lia.
      + rewrite orb_false_r in Ek. apply Nat.eqb_eq in Ek. lia.
    - destruct (Nat.ltb p n) eqn:E; [|destruct Hx]. destruct Hx as [<-|[]]. apply Nat.ltb_lt in E. lia. }
  destruct qs as [|p [|q qs]]; try exact Hmulti.
  inversion Hle as [|? ? Hp _]; subst.
  intros [= <-]. apply Forall_forall. intros x Hx. repeat (apply in_app_or in Hx as [Hx|Hx]); apply in_seq in Hx; lia.
Qed.

Lemma pol_lengths k : length (pol_adj (schema_of k)) = nfields (schema_of k) /\ length (pol_ins (schema_of k)) = nfields (schema_of k).
Proof. destruct k; split; reflexivity. Qed.

Section Binary.
Context {ent : Type}.
Variable val : list ent -> Z.
Variable lbl : nat -> nat -> ent -> lab.
Notation Rep := (Rep val lbl).

(** the operand of a binary operation on axis kind k of a matrix in state s: an array over the same entities on the
    other axes and new entities [us] on the operated axis; for every field, the effective label array (keyword
    argument, else the operand matrix' own array) is the image of [us] — or it is absent and the field is one the
    code fills with None, in which case the entities [us] have no label for this field; nothing is supplied for a
    field the matrix does not carry *)
Record RepOpd (pols : list pol) (c : cls) (k : nat) (s : st) (v : operand) (ess : list (list ent)) (us : list ent) : Prop := {
  ro_shape : o_shape v = map (@length ent) (upd (taxis c k) us ess);
  ro_data : o_data v = build (upd (taxis c k) us ess) val;
  ro_labs : forall j, (j < length (labs (ax_of s k)))%nat ->
     match nth j (labs (ax_of s k)) None, eff_lab c k v j with
     | Some _, Some g => g = map (lbl k j) us
     | Some _, None => nth j pols PReq = PFill /\ forall u, In u us -> lbl k j u = None
     | None, g => g = None
     end }.

Lemma resolve_all_spec c k v k0 : forall pols owns j0 gs,
  length pols = length owns -> resolve_all pols owns c k v j0 k0 = OK gs ->
  length gs = length owns /\
  forall i, (i < length owns)%nat ->
    nth i gs None = match nth i owns None, eff_lab c k v (j0 + i) with
                    | Some _, None => match nth i pols PReq with PFill => Some (repeat None k0) | PPass => Some [None] | PReq => None end
                    | _, g => g end
    /\ (nth i owns None <> None -> eff_lab c k v (j0 + i) = None -> nth i pols PReq <> PReq).
Proof.
  induction pols as [|p pols IH]; intros [|o owns] j0 gs Hlen H; cbn in Hlen; try lia.
  - cbn in H. inversion H. split; [reflexivity|]. intros i Hi; cbn in Hi; lia.
  - cbn in H. destruct (resolve p o (eff_lab c k v j0) k0) as [g|] eqn:Er; [|discriminate]. cbn in H.
    destruct (resolve_all pols owns c k v (S j0) k0) as [r|] eqn:Ea; [|discriminate]. cbn in H. inversion H; subst gs.
    destruct (IH owns (S j0) r ltac:(lia) Ea) as [L1 L2]. split; [cbn; now rewrite L1|].
    intros [|i] Hi.
    + rewrite Nat.add_0_r. cbn. unfold resolve in Er. destruct o as [lo|]; destruct (eff_lab c k v j0) as [g0|]; cbn.
      * inversion Er. split; [reflexivity|congruence].
      * destruct p; inversion Er; (split; [reflexivity|discriminate]).
      * inversion Er. split; [reflexivity|congruence].
      * inversion Er. split; [reflexivity|congruence].
    + cbn in Hi. replace (j0 + S i)%nat with (S j0 + i)%nat by lia. cbn. apply L2. lia.
Qed.

(** label arrays of the operated axis after joining the matrix' arrays with the supplied ones *)
Definition elem (f : larr -> larr -> option larr) (inplace : bool) (o g : option larr) : option (option larr) :=
  match o, g with
  | Some l, Some g => option_map Some (f g l)
  | Some l, None => None
  | None, g => Some (if inplace then None else g)
  end.
Lemma join_as_elem f (inplace : bool) owns gs :
  (if inplace then join_labs_inplace f owns gs else join_labs f owns gs) = mapM (fun og => elem f inplace (fst og) (snd og)) (combine owns gs).
Proof.
  destruct inplace; unfold join_labs, join_labs_inplace, elem; f_equal.
Qed.
Lemma mapM_nth_error {A B} (f : A -> option B) l r i x : mapM f l = Some r -> nth_error l i = Some x ->
  exists y, f x = Some y /\ nth_error r i = Some y.
Proof.
  revert r i; induction l as [|a t IH]; intros r i H E; [destruct i; discriminate|]. cbn in H.
  destruct (f a) as [b|] eqn:Ea; [|discriminate]. destruct (mapM f t) as [rt|] eqn:Et; [|discriminate]. inversion H; subst r.
  destruct i; cbn in E.
  - inversion E; subst. exists b. auto.
  - destruct (IH rt i eq_refl E) as (y & Hy1 & Hy2). exists y. auto.
Qed.
Lemma nth_error_combine_nth {A B} (l1 : list A) (l2 : list B) i dA dB : (i < length l1)%nat -> length l2 = length l1 ->
  nth_error (combine l1 l2) i = Some (nth i l1 dA, nth i l2 dB).
Proof.
  revert l2 i; induction l1 as [|a t IH]; intros [|b l2] i Hi Hl; cbn in *; try lia.
  destruct i; [reflexivity|]. apply IH; lia.
Qed.
Lemma nth_error_nth_eq {A} (l : list A) i x d : nth_error l i = Some x -> nth i l d = x.
Proof. revert i; induction l; intros [|i] H; cbn in *; try discriminate; [now inversion H|auto]. Qed.

Lemma join_labs_rep (f : larr -> larr -> option larr) (F : list ent -> list ent -> list ent) c k v k0 (es us : list ent) :
  k0 = length us ->
  (forall g l r, f g l = Some r -> forall j, l = map (lbl k j) es -> g = map (lbl k j) us -> r = map (lbl k j) (F es us)) ->
  forall pols owns gs l' (inplace : bool),
  length pols = length owns -> resolve_all pols owns c k v O k0 = OK gs ->
  (forall i, (i < length owns)%nat ->
     match nth i owns None, eff_lab c k v i with
     | Some l, Some g => l = map (lbl k i) es /\ g = map (lbl k i) us
     | Some l, None => l = map (lbl k i) es /\ nth i pols PReq = PFill /\ forall u, In u us -> lbl k i u = None
     | None, g => g = None
     end) ->
  (if inplace then join_labs_inplace f owns gs else join_labs f owns gs) = Some l' ->
  length l' = length owns /\
  (forall i l, nth_error l' i = Some (Some l) -> l = map (lbl k i) (F es us)) /\
  (forall i l, nth_error owns i = Some (Some l) -> exists l2, nth_error l' i = Some (Some l2)).
Proof.
  intros Hk0 Hf pols owns gs l' inplace Hlen Hr HV Hj. rewrite join_as_elem in Hj.
  destruct (resolve_all_spec c k v k0 pols owns O gs Hlen Hr) as [Lg Sg].
  assert (Ll : length l' = length owns).
  { rewrite (mapM_length _ _ _ Hj), combine_length, Lg. lia. }
  assert (Hnone : forall i, repeat None k0 = map (lbl k i) us -> True) by auto.
  assert (Key : forall i, (i < length owns)%nat ->
            exists y, elem f inplace (nth i owns None) (nth i gs None) = Some y /\ nth_error l' i = Some y).
  { intros i Hi.
    exact (mapM_nth_error (fun og => elem f inplace (fst og) (snd og)) (combine owns gs) l' i (nth i owns None, nth i gs None) Hj
             (nth_error_combine_nth owns gs i None None Hi Lg)). }
  split; [assumption|]. split.
  - intros i l E.
    assert (Hi : (i < length owns)%nat) by (rewrite <- Ll; apply nth_error_Some; congruence).
    destruct (Key i Hi) as (y & Hy1 & Hy2). rewrite E in Hy2. inversion Hy2; subst y; clear Hy2.
    destruct (Sg i Hi) as [Sg1 Sg2]. specialize (HV i Hi). cbn in Sg1, Sg2.
    destruct (nth i owns None) as [lo|] eqn:Eo.
    + destruct (eff_lab c k v i) as [g0|] eqn:Ee.
      * rewrite Sg1 in Hy1. cbn in Hy1. destruct HV as [-> ->]. destruct (f _ _) as [rr|] eqn:Ef; [|discriminate]. inversion Hy1; subst.
        eapply Hf; eauto.
      * destruct HV as (-> & Hp & Hn). rewrite Hp in Sg1. rewrite Sg1 in Hy1. cbn in Hy1.
        destruct (f _ _) as [rr|] eqn:Ef; [|discriminate]. inversion Hy1; subst.
        eapply Hf; [exact Ef|reflexivity|]. clear -Hn. induction us as [|u us IHu]; cbn; [reflexivity|].
        rewrite (Hn u (or_introl eq_refl)). f_equal. apply IHu. intros u' Hu'. apply Hn. now right.
    + rewrite HV in Sg1. rewrite Sg1 in Hy1. cbn in Hy1. destruct inplace; inversion Hy1.
  - intros i l E.
    assert (Hi : (i < length owns)%nat) by (apply nth_error_Some; congruence).
    destruct (Key i Hi) as (y & Hy1 & Hy2). rewrite (nth_error_nth_eq _ _ _ None E) in Hy1.
    unfold elem in Hy1. destruct (nth i gs None) as [g|]; [|discriminate].
    destruct (f g l) as [rr|]; [|discriminate]. inversion Hy1; subst y. eauto.
Qed.
Lemma finish_new c s k ess xs t sh l s' : wf_cls c -> Rep c s ess -> (k < length (axs c))%nat ->
  t = build (upd_all (taxes c k) xs ess) val -> sh = map (@length ent) (upd_all (taxes c k) xs ess) ->
  length l = length (labs (ax_of s k)) ->
  (forall j l0, nth_error l j = Some (Some l0) -> l0 = map (lbl k j) xs) ->
  (forall j l0, nth_error (labs (ax_of s k)) j = Some (Some l0) -> exists l2, nth_error l j = Some (Some l2)) ->
  construct c sh t (new_axes c s k l) = OK s' ->
  Rep c s' (upd_all (taxes c k) xs ess) /\ (drop_other c = false -> no_loss s s').
Proof.
  intros W R Hk Ht Hsh L1 L2 L3 Hc. apply construct_ok in Hc. subst s'.
  pose proof (r_nax _ _ _ _ _ R) as Hnax.
  split.
  - apply Rep_after_unary with (s := s) (l' := l); try assumption.
    + unfold new_axes. apply length_map_indexed.
    + rewrite ax_of_new_axes by (rewrite Hnax; assumption). now rewrite Nat.eqb_refl.
    + intros k' Hk' Hne. rewrite ax_of_new_axes by assumption.
      destruct (Nat.eqb k' k) eqn:E; [apply Nat.eqb_eq in E; contradiction|].
      destruct (drop_other c); [unfold cleared; cbn; apply map_length|reflexivity].
    + intros k' Hk' Hne j l0. rewrite ax_of_new_axes by assumption.
      destruct (Nat.eqb k' k) eqn:E; [apply Nat.eqb_eq in E; contradiction|].
      destruct (drop_other c); [intros E2; destruct (nth_error_cleared _ _ _ E2)|auto].
  - intros Hdo k' j l0 E.
    destruct (Nat.lt_ge_cases k' (length (axes s))) as [Hk'|Hk'].
    + rewrite ax_of_new_axes by assumption. destruct (Nat.eqb k' k) eqn:E2.
      * apply Nat.eqb_eq in E2; subst k'. cbn. eapply L3; eauto.
      * rewrite Hdo. eauto.
    + unfold ax_of in E. rewrite nth_overflow in E by assumption. cbn in E. destruct j; discriminate.
Qed.
Lemma finish_set c s k ess xs t sh l : wf_cls c -> Rep c s ess -> (k < length (axs c))%nat ->
  t = build (upd_all (taxes c k) xs ess) val -> sh = map (@length ent) (upd_all (taxes c k) xs ess) ->
  length l = length (labs (ax_of s k)) ->
  (forall j l0, nth_error l j = Some (Some l0) -> l0 = map (lbl k j) xs) ->
  (forall j l0, nth_error (labs (ax_of s k)) j = Some (Some l0) -> exists l2, nth_error l j = Some (Some l2)) ->
  let s' := {| shape := sh; data := t; axes := set_axes s k l |} in
  Rep c s' (upd_all (taxes c k) xs ess) /\ no_loss s s'.
Proof.
  intros W R Hk Ht Hsh L1 L2 L3 s'.
  pose proof (r_nax _ _ _ _ _ R) as Hnax.
  split.
  - apply Rep_after_unary with (s := s) (l' := l); try assumption.
    + unfold set_axes. apply length_map_indexed.
    + rewrite ax_of_set_axes by (rewrite Hnax; assumption). now rewrite Nat.eqb_refl.
    + intros k' Hk' Hne. rewrite ax_of_set_axes by assumption.
      destruct (Nat.eqb k' k) eqn:E; [apply Nat.eqb_eq in E; contradiction|reflexivity].
    + intros k' Hk' Hne j l0. rewrite ax_of_set_axes by assumption.
      destruct (Nat.eqb k' k) eqn:E; [apply Nat.eqb_eq in E; contradiction|auto].
  - intros k' j l0 E.
    destruct (Nat.lt_ge_cases k' (length (axes s))) as [Hk'|Hk'].
    + unfold s'. rewrite ax_of_set_axes by assumption. destruct (Nat.eqb k' k) eqn:E2.
      * apply Nat.eqb_eq in E2; subst k'. cbn. eapply L3; eauto.
      * eauto.
    + unfold ax_of in E. rewrite nth_overflow in E by assumption. cbn in E. destruct j; discriminate.
Qed.

Lemma taxis_of_taxes c k a r : taxes c k = a :: r -> taxis c k = a.
Proof. unfold taxes, taxis. destruct (nth_error (axs c) k) as [[kd l]|]; [intros ->; reflexivity|discriminate]. Qed.
Lemma not_square c k a : taxes c k = [a] -> is_square c k = false.
Proof. unfold is_square. intros ->. reflexivity. Qed.

(** validity of the operand's labels in the form needed by [join_labs_rep] *)
Lemma RepOpd_valid pols c k s v ess us : Rep c s ess -> (k < length (axs c))%nat ->
  RepOpd pols c k s v ess us ->
  forall i, (i < length (labs (ax_of s k)))%nat ->
     match nth i (labs (ax_of s k)) None, eff_lab c k v i with
     | Some l, Some g => l = map (lbl k i) (nth (taxis c k) ess []) /\ g = map (lbl k i) us
     | Some l, None => l = map (lbl k i) (nth (taxis c k) ess []) /\ nth i pols PReq = PFill /\ forall u, In u us -> lbl k i u = None
     | None, g => g = None
     end.
Proof.
  intros R Hk RO i Hi. pose proof (ro_labs _ _ _ _ _ _ _ RO i Hi) as H.
  destruct (nth i (labs (ax_of s k)) None) as [l|] eqn:E; [|exact H].
  assert (El : l = map (lbl k i) (nth (taxis c k) ess [])).
  { apply (r_labs _ _ _ _ _ R k i l Hk). rewrite <- E. apply nth_error_nth'. assumption. }
  destruct (eff_lab c k v i); [split; assumption|]. destruct H as [H1 H2]. auto.
Qed.

Section OneAxis.
Variables (c : cls) (s : st) (k : nat) (v : operand) (ess : list (list ent)) (us : list ent) (a : nat).
Hypothesis W : wf_cls c.
Hypothesis R : Rep c s ess.
Hypothesis Hk : (k < length (axs c))%nat.
Hypothesis Ht : taxes c k = [a].
Let es := nth a ess [].

Lemma a_lt : (a < length ess)%nat.
Proof. rewrite (r_nd _ _ _ _ _ R). apply (wf_lt c W k). rewrite Ht. now left. Qed.
Lemma shape_a : nth a (shape s) O = length es.
Proof. rewrite (r_shape _ _ _ _ _ R). change O with (length (@nil ent)). now rewrite map_nth. Qed.

Lemma cat_data_rep pols : RepOpd pols c k s v ess us ->
  cat_data c s k v = (build (upd a (es ++ us) ess) val, map (@length ent) (upd a (es ++ us) ess)).
Proof.
  intros RO. unfold cat_data. rewrite (not_square c k a Ht), (taxis_of_taxes c k a [] Ht).
  pose proof a_lt as Ha.
  rewrite (r_data _ _ _ _ _ R), (ro_data _ _ _ _ _ _ _ RO), (taxis_of_taxes c k a [] Ht), t_cat_build by assumption.
  f_equal. rewrite shape_a, (ro_shape _ _ _ _ _ _ _ RO), (taxis_of_taxes c k a [] Ht).
  change O with (length (@nil ent)). rewrite map_nth, nth_upd_eq by assumption.
  rewrite (r_shape _ _ _ _ _ R), map_upd, app_length. reflexivity.
Qed.

Theorem adjoin_refines s' : RepOpd (pol_adj (sch c k)) c k s v ess us -> op_adjoin c s k v = OK s' ->
  Rep c s' (upd a (es ++ us) ess) /\ (drop_other c = false -> no_loss s s').
Proof.
  intros RO H. unfold op_adjoin, pre_binary in H. destruct (shapes_compat _ _ _); [|discriminate].
  destruct (resolve_all _ _ c k v O _) as [gs|] eqn:Er; [|discriminate]. cbn in H.
  destruct (join_labs _ _ gs) as [l|] eqn:Ej; [|discriminate].
  rewrite (cat_data_rep _ RO) in H.
  assert (Hlen : length (pol_adj (sch c k)) = length (labs (ax_of s k))).
  { rewrite (r_nf _ _ _ _ _ R k Hk). apply pol_lengths. }
  assert (Hk0 : nth (taxis c k) (o_shape v) O = length us).
  { rewrite (ro_shape _ _ _ _ _ _ _ RO). change O with (length (@nil ent)). rewrite map_nth, nth_upd_eq; [reflexivity|].
    rewrite (taxis_of_taxes c k a [] Ht). apply a_lt. }
  pose proof (RepOpd_valid _ c k s v ess us R Hk RO) as HV. rewrite (taxis_of_taxes c k a [] Ht) in HV. fold es in HV.
  destruct (join_labs_rep (fun gl l => Some (l ++ gl)) (fun x y => x ++ y) c k v _ es us Hk0
              ltac:(intros g l0 r [= <-] j -> ->; now rewrite map_app)
              _ _ gs l false Hlen Er HV Ej) as (L1 & L2 & L3).
  replace (upd a (es ++ us) ess) with (upd_all (taxes c k) (es ++ us) ess) in * by (rewrite Ht; reflexivity).
  eapply finish_new; eauto.
Qed.
Theorem append_refines s' : RepOpd (pol_adj (sch c k)) c k s v ess us -> op_append c s k v = OK s' ->
  Rep c s' (upd a (es ++ us) ess) /\ no_loss s s'.
Proof.
  intros RO H. unfold op_append, pre_binary in H. destruct (shapes_compat _ _ _); [|discriminate].
  destruct (resolve_all _ _ c k v O _) as [gs|] eqn:Er; [|discriminate]. cbn in H.
  destruct (join_labs_inplace _ _ gs) as [l|] eqn:Ej; [|discriminate].
  rewrite (cat_data_rep _ RO) in H. inversion H; subst s'.
  assert (Hlen : length (pol_adj (sch c k)) = length (labs (ax_of s k))).
  { rewrite (r_nf _ _ _ _ _ R k Hk). apply pol_lengths. }
  assert (Hk0 : nth (taxis c k) (o_shape v) O = length us).
  { rewrite (ro_shape _ _ _ _ _ _ _ RO). change O with (length (@nil ent)). rewrite map_nth, nth_upd_eq; [reflexivity|].
    rewrite (taxis_of_taxes c k a [] Ht). apply a_lt. }
  pose proof (RepOpd_valid _ c k s v ess us R Hk RO) as HV. rewrite (taxis_of_taxes c k a [] Ht) in HV. fold es in HV.
  destruct (join_labs_rep (fun gl l => Some (l ++ gl)) (fun x y => x ++ y) c k v _ es us Hk0
              ltac:(intros g l0 r [= <-] j -> ->; now rewrite map_app)
              _ _ gs l true Hlen Er HV Ej) as (L1 & L2 & L3).
  replace (upd a (es ++ us) ess) with (upd_all (taxes c k) (es ++ us) ess) in * by (rewrite Ht; reflexivity).
  eapply finish_set; eauto.
Qed.

(** every kind of index (scalar, slice, list, mask) on every array axis follows the same insertion plan *)
Lemma np_insert_t_general d o sh t vsh vv :
  np_insert_t d o sh t vsh vv =
  match plan_insert (nth d sh O) (nth d vsh O) o, bcast (upd d (nth d vsh O) sh) vsh vv with
  | Some ps, Some v' => Some (t_pick d ps (t_cat d t v'), upd d (length ps) sh)
  | _, _ => None end.
Proof. reflexivity. Qed.
(** the FORMER code agreed with it except for a bare scalar applied to an inner array axis *)
Definition scalar_free (o : objarg) (d : nat) : Prop := match o, d with OInt _, S _ => False | _, _ => True end.
Lemma old_np_insert_t_general d o sh t vsh vv : scalar_free o d -> old_np_insert_t d o sh t vsh vv = np_insert_t d o sh t vsh vv.
Proof. unfold old_np_insert_t, np_insert_t, scalar_free. destruct o; destruct d; try reflexivity; contradiction. Qed.

Lemma insert_data_rep pols o t sh : RepOpd pols c k s v ess us ->
  np_insert_t a o (shape s) (data s) (o_shape v) (o_data v) = Some (t, sh) ->
  exists ps, plan_insert (length es) (length us) o = Some ps /\
             t = build (upd a (pick ps (es ++ us)) ess) val /\ sh = map (@length ent) (upd a (pick ps (es ++ us)) ess).
Proof.
  intros RO H. rewrite np_insert_t_general in H.
  pose proof a_lt as Ha.
  assert (Ek : nth a (o_shape v) O = length us).
  { rewrite (ro_shape _ _ _ _ _ _ _ RO), (taxis_of_taxes c k a [] Ht). change O with (length (@nil ent)). now rewrite map_nth, nth_upd_eq. }
  rewrite shape_a, Ek in H. destruct (plan_insert (length es) (length us) o) as [ps|] eqn:Ep; [|discriminate].
  assert (Eb : bcast (upd a (length us) (shape s)) (o_shape v) (o_data v) = Some (o_data v)).
  { rewrite (r_shape _ _ _ _ _ R), <- map_upd, (ro_shape _ _ _ _ _ _ _ RO), (ro_data _ _ _ _ _ _ _ RO), (taxis_of_taxes c k a [] Ht).
    apply bcast_id. }
  rewrite Eb in H. inversion H; subst t sh; clear H. exists ps. split; [reflexivity|].
  rewrite (r_data _ _ _ _ _ R), (ro_data _ _ _ _ _ _ _ RO), (taxis_of_taxes c k a [] Ht), t_cat_build by assumption.
  rewrite t_pick_build by (now rewrite upd_length). rewrite nth_upd_eq by assumption. rewrite upd_upd. fold es.
  split; [reflexivity|]. rewrite (r_shape _ _ _ _ _ R), map_upd. f_equal.
  symmetry. apply pick_length_lt. rewrite app_length. now apply plan_insert_ok with (o := o).
Qed.

Lemma np_insert_natural o ps j (g l r : larr) : plan_insert (length es) (length us) o = Some ps ->
  np_insert o g l = Some r -> l = map (lbl k j) es -> g = map (lbl k j) us -> r = map (lbl k j) (pick ps (es ++ us)).
Proof.
  intros Hp H -> ->. unfold np_insert in H. rewrite !map_length, Hp in H. cbn in H. inversion H.
  now rewrite <- map_app, pick_map.
Qed.

Theorem insert_refines o s' : RepOpd (pol_ins (sch c k)) c k s v ess us -> op_insert c s k o v = OK s' ->
  exists ps, plan_insert (length es) (length us) o = Some ps /\
             Rep c s' (upd a (pick ps (es ++ us)) ess) /\ (drop_other c = false -> no_loss s s').
Proof.
  intros RO H. unfold op_insert, pre_binary in H. destruct (shapes_compat _ _ _); [|discriminate].
  destruct (resolve_all _ _ c k v O _) as [gs|] eqn:Er; [|discriminate]. cbn in H.
  rewrite (taxis_of_taxes c k a [] Ht) in H.
  destruct (np_insert_t a o _ _ _ _) as [[t sh]|] eqn:Ed; [|discriminate].
  destruct (join_labs _ _ gs) as [l|] eqn:Ej; [|discriminate].
  destruct (insert_data_rep _ o t sh RO Ed) as (ps & Hp & Htt & Hsh). exists ps. split; [assumption|].
  assert (Hlen : length (pol_ins (sch c k)) = length (labs (ax_of s k))).
  { rewrite (r_nf _ _ _ _ _ R k Hk). apply pol_lengths. }
  assert (Hk0 : nth (taxis c k) (o_shape v) O = length us).
  { rewrite (ro_shape _ _ _ _ _ _ _ RO). change O with (length (@nil ent)). rewrite map_nth, nth_upd_eq; [reflexivity|].
    rewrite (taxis_of_taxes c k a [] Ht). apply a_lt. }
  pose proof (RepOpd_valid _ c k s v ess us R Hk RO) as HV. rewrite (taxis_of_taxes c k a [] Ht) in HV. fold es in HV.
  rewrite (taxis_of_taxes c k a [] Ht) in Er, Hk0.
  destruct (join_labs_rep (fun gl l => np_insert o gl l) (fun x y => pick ps (x ++ y)) c k v _ es us Hk0
              ltac:(intros g l0 r Hi j Hl Hg; exact (np_insert_natural o ps j g l0 r Hp Hi Hl Hg))
              _ _ gs l false Hlen Er HV Ej) as (L1 & L2 & L3).
  replace (upd a (pick ps (es ++ us)) ess) with (upd_all (taxes c k) (pick ps (es ++ us)) ess) in * by (rewrite Ht; reflexivity).
  eapply finish_new; eauto.
Qed.
Theorem incorp_refines o s' : RepOpd (pol_adj (sch c k)) c k s v ess us -> op_incorp c s k o v = OK s' ->
  exists ps, plan_insert (length es) (length us) o = Some ps /\
             Rep c s' (upd a (pick ps (es ++ us)) ess) /\ no_loss s s'.
Proof.
  intros RO H. unfold op_incorp, pre_binary in H. destruct (shapes_compat _ _ _); [|discriminate].
  destruct (resolve_all _ _ c k v O _) as [gs|] eqn:Er; [|discriminate]. cbn in H.
  rewrite (taxis_of_taxes c k a [] Ht) in H.
  destruct (np_insert_t a o _ _ _ _) as [[t sh]|] eqn:Ed; [|discriminate].
  destruct (join_labs_inplace _ _ gs) as [l|] eqn:Ej; [|discriminate]. inversion H; subst s'.
  destruct (insert_data_rep _ o t sh RO Ed) as (ps & Hp & Htt & Hsh). exists ps. split; [assumption|].
  assert (Hlen : length (pol_adj (sch c k)) = length (labs (ax_of s k))).
  { rewrite (r_nf _ _ _ _ _ R k Hk). apply pol_lengths. }
  assert (Hk0 : nth (taxis c k) (o_shape v) O = length us).
  { rewrite (ro_shape _ _ _ _ _ _ _ RO). change O with (length (@nil ent)). rewrite map_nth, nth_upd_eq; [reflexivity|].
    rewrite (taxis_of_taxes c k a [] Ht). apply a_lt. }
  pose proof (RepOpd_valid _ c k s v ess us R Hk RO) as HV. rewrite (taxis_of_taxes c k a [] Ht) in HV. fold es in HV.
  rewrite (taxis_of_taxes c k a [] Ht) in Er, Hk0.
  destruct (join_labs_rep (fun gl l => np_insert o gl l) (fun x y => pick ps (x ++ y)) c k v _ es us Hk0
              ltac:(intros g l0 r Hi j Hl Hg; exact (np_insert_natural o ps j g l0 r Hp Hi Hl Hg))
              _ _ gs l true Hlen Er HV Ej) as (L1 & L2 & L3).
  replace (upd a (pick ps (es ++ us)) ess) with (upd_all (taxes c k) (pick ps (es ++ us)) ess) in * by (rewrite Ht; reflexivity).
  eapply finish_set; eauto.
Qed.
End OneAxis.
End Binary.

(** * generic form = axis-specific form *)
Lemma find_kind_bound l a : forall n k, find_kind l a n = Some k -> (n <= k < n + length l)%nat.
Proof.
  induction l as [|[kd axl] r IH]; intros n k H; cbn in H; [discriminate|].
  destruct (existsb (Nat.eqb a) axl).
  - inversion H. subst. cbn. lia.
  - specialize (IH (S n) k H). cbn. lia.
Qed.
Lemma generic_eq_specific c s axis k o : dispatch c (Generic axis) = Some k -> step c s (Generic axis) o = step c s (Specific k) o.
Proof.
  intros H.
  assert (Hk : (k < length (axs c))%nat).
  { cbn in H. destruct (get_axis axis (ndim c)) as [a|]; [|discriminate]. apply find_kind_bound in H. lia. }
  unfold step. rewrite H. unfold dispatch. apply Nat.ltb_lt in Hk. now rewrite Hk.
Qed.
(** the dispatch table: in every class every tensor axis of every labelled kind reaches that kind, by its
    non-negative and by its negative number; every other axis number reaches nothing *)
Definition dispatch_table_ok (c : cls) : bool :=
  forallb (fun ka => forallb (fun a =>
              opt_eqb Nat.eqb (dispatch c (Generic (Z.of_nat a))) (Some (fst ka)) &&
              opt_eqb Nat.eqb (dispatch c (Generic (Z.of_nat a - Z.of_nat (ndim c)))) (Some (fst ka))) (snd (snd ka)))
          (combine (seq 0 (length (axs c))) (axs c))
  && forallb (fun a => existsb (fun kx => existsb (Nat.eqb a) (snd kx)) (axs c)
                       || opt_eqb Nat.eqb (dispatch c (Generic (Z.of_nat a))) None) (seq 0 (ndim c))
  && opt_eqb Nat.eqb (dispatch c (Generic (Z.of_nat (ndim c)))) None
  && opt_eqb Nat.eqb (dispatch c (Generic (- Z.of_nat (ndim c) - 1))) None.
Lemma dispatch_tables_ok : forallb dispatch_table_ok all_classes = true.
Proof. vm_compute. reflexivity. Qed.

(** * mutating = non-mutating counterpart *)
Lemma new_axes_eq_set_axes c s k l : drop_other c = false -> new_axes c s k l = set_axes s k l.
Proof. intros H. unfold new_axes, set_axes. apply map_ext. intros [j a]. cbn. now rewrite H. Qed.
Theorem delete_then_remove c s k o s' : drop_other c = false -> op_delete c s k o = OK s' -> op_remove c s k o = OK s'.
Proof.
  intros Hd H. unfold op_delete in H. unfold op_remove.
  destruct (un_data c s k _) as [[t sh]|]; [|discriminate]. destruct (un_labs s k _) as [l|]; [|discriminate].
  apply construct_ok in H. subst s'. now rewrite new_axes_eq_set_axes.
Qed.
(** conversely the in-place result is what the constructor would accept whenever the label arrays fit the axes *)
Theorem remove_then_delete c s k o s' : drop_other c = false -> op_remove c s k o = OK s' ->
  op_delete c s k o = construct c (shape s') (data s') (axes s').
Proof.
  intros Hd H. unfold op_remove in H. unfold op_delete.
  destruct (un_data c s k _) as [[t sh]|]; [|discriminate]. destruct (un_labs s k _) as [l|]; [|discriminate].
  inversion H; subst s'. cbn. now rewrite new_axes_eq_set_axes.
Qed.
(** adjoin/append and insert/incorp: equal whenever no label array is supplied for a field the matrix lacks
    (otherwise the non-mutating form hands the array to the constructor and the in-place form ignores it) *)
Definition no_extra_labels (c : cls) (s : st) (k : nat) (v : operand) : Prop :=
  forall j, nth j (labs (ax_of s k)) None = None -> eff_lab c k v j = None.
Lemma resolve_all_none c k v k0 : forall pols owns j0 gs, resolve_all pols owns c k v j0 k0 = OK gs ->
  (forall i, nth i owns None = None -> eff_lab c k v (j0 + i) = None) ->
  forall f, join_labs f owns gs = join_labs_inplace f owns gs.
Proof.
  induction pols as [|p pols IH]; intros [|o owns] j0 gs H HN f; cbn in H; try (inversion H; reflexivity).
  destruct (resolve p o (eff_lab c k v j0) k0) as [g|] eqn:Er; [|discriminate]. cbn in H.
  destruct (resolve_all pols owns c k v (S j0) k0) as [r|] eqn:Ea; [|discriminate]. cbn in H. inversion H; subst gs.
  unfold join_labs, join_labs_inplace. cbn.
  assert (IHr : join_labs f owns r = join_labs_inplace f owns r).
  { apply (IH owns (S j0) r Ea). intros i Hi. specialize (HN (S i) Hi). now replace (j0 + S i)%nat with (S j0 + i)%nat in HN by lia. }
  unfold join_labs, join_labs_inplace in IHr. rewrite IHr.
  destruct o as [lo|]; [reflexivity|]. specialize (HN 0%nat eq_refl). rewrite Nat.add_0_r in HN. unfold resolve in Er. rewrite HN in Er.
  inversion Er. reflexivity.
Qed.
Theorem adjoin_then_append c s k v s' : drop_other c = false -> no_extra_labels c s k v ->
  op_adjoin c s k v = OK s' -> op_append c s k v = OK s'.
Proof.
  intros Hd HN H. unfold op_adjoin in H. unfold op_append. unfold pre_binary in *.
  destruct (shapes_compat _ _ _); [|discriminate].
  destruct (resolve_all _ _ c k v O _) as [gs|] eqn:Er; [|discriminate]. cbn in *.
  rewrite <- (resolve_all_none c k v _ _ _ O gs Er (fun i Hi => HN i Hi)).
  destruct (join_labs _ _ gs) as [l|]; [|discriminate]. destruct (cat_data c s k v) as [t sh].
  apply construct_ok in H. subst s'. now rewrite new_axes_eq_set_axes.
Qed.
(** insert and incorp differ only where insert_vrnt omits the "argument required" checks (hapalt, hapref) *)
Theorem insert_then_incorp c s k o v s' : drop_other c = false -> no_extra_labels c s k v -> pol_ins (sch c k) = pol_adj (sch c k) ->
  op_insert c s k o v = OK s' -> op_incorp c s k o v = OK s'.
Proof.
  intros Hd HN Hp H. unfold op_insert in H. unfold op_incorp. unfold pre_binary in *. rewrite Hp in H.
  destruct (shapes_compat _ _ _); [|discriminate].
  destruct (resolve_all _ _ c k v O _) as [gs|] eqn:Er; [|discriminate]. cbn in *.
  rewrite <- (resolve_all_none c k v _ _ _ O gs Er (fun i Hi => HN i Hi)).
  destruct (np_insert_t _ _ _ _ _ _) as [[t sh]|]; [|discriminate].
  destruct (join_labs _ _ gs) as [l|]; [|discriminate].
  apply construct_ok in H. subst s'. now rewrite new_axes_eq_set_axes.
Qed.

(** * a scalar index is a one-element index list (the repaired insert_<axis> / incorp_<axis>) *)
Lemma mapM_ext {A B} (f g : A -> option B) (l : list A) : (forall x, f x = g x) -> mapM f l = mapM g l.
Proof. intros H. induction l as [|x t IH]; cbn; [reflexivity|]. now rewrite H, IH. Qed.
Lemma plan_insert_scalar n k i : plan_insert n k (OInt i) = plan_insert n k (OList [i]).
Proof. unfold plan_insert, ins_positions. cbn. destruct (norm_ins n i); reflexivity. Qed.
Lemma np_insert_scalar {A} i (g l : list A) : np_insert (OInt i) g l = np_insert (OList [i]) g l.
Proof. unfold np_insert. now rewrite plan_insert_scalar. Qed.
Lemma np_insert_t_scalar d i sh t vsh vv : np_insert_t d (OInt i) sh t vsh vv = np_insert_t d (OList [i]) sh t vsh vv.
Proof. unfold np_insert_t. now rewrite plan_insert_scalar. Qed.
Lemma join_labs_scalar i owns gs :
  join_labs (fun gl l => np_insert (OInt i) gl l) owns gs = join_labs (fun gl l => np_insert (OList [i]) gl l) owns gs.
Proof. unfold join_labs. apply mapM_ext. intros [[l|] [g0|]]; cbn [fst snd]; try reflexivity; now rewrite np_insert_scalar. Qed.
Lemma join_labs_inplace_scalar i owns gs :
  join_labs_inplace (fun gl l => np_insert (OInt i) gl l) owns gs = join_labs_inplace (fun gl l => np_insert (OList [i]) gl l) owns gs.
Proof. unfold join_labs_inplace. apply mapM_ext. intros [[l|] [g0|]]; cbn [fst snd]; try reflexivity; now rewrite np_insert_scalar. Qed.
Theorem insert_scalar_as_list c s k i v : op_insert c s k (OInt i) v = op_insert c s k (OList [i]) v.
Proof.
  unfold op_insert. destruct (pre_binary c s k v (pol_ins (sch c k))) as [g|]; [|reflexivity]. cbn [bind].
  now rewrite np_insert_t_scalar, join_labs_scalar.
Qed.
Theorem incorp_scalar_as_list c s k i v : op_incorp c s k (OInt i) v = op_incorp c s k (OList [i]) v.
Proof.
  unfold op_incorp. destruct (pre_binary c s k v (pol_adj (sch c k))) as [g|]; [|reflexivity]. cbn [bind].
  now rewrite np_insert_t_scalar, join_labs_inplace_scalar.
Qed.

(** * where the code departs from the property, and where it formerly did (witnesses by computation) *)
Definition w_val (l : list nat) : Z := match l with [r; c] => Z.of_nat (10 * r + c) | _ => 0 end.
Definition w_lbl (k j : nat) (e : nat) : lab := Some (Z.of_nat (100 * k + e)).
Definition w_ax (k nf : nat) (es : list nat) : axst := mkax (map (fun j => Some (map (w_lbl k j) es)) (seq 0 nf)) None None None None.

(** 1. a bare integer index on the variant axis (array axis 1): the block is inserted as it is, exactly as with the
    index list [1]; under the FORMER code ([old_op_insert]) it arrived transposed *)
Definition w1_s : st := mkst [2; 3]%nat (build [[0; 1]; [0; 1; 2]]%nat w_val) [w_ax 0 2 [0; 1]%nat; w_ax 1 9 [0; 1; 2]%nat].
Definition w1_v : operand := mkopd [2; 2]%nat (build [[0; 1]; [5; 6]]%nat w_val) [w_ax 0 2 [0; 1]%nat; w_ax 1 9 [5; 6]%nat] true (repeat None 9).
Lemma scalar_insert_witness :
  Rep w_val w_lbl cDenseTaxaVariantMatrix w1_s [[0; 1]; [0; 1; 2]]%nat /\
  RepOpd w_val w_lbl (pol_ins (sch cDenseTaxaVariantMatrix 1)) cDenseTaxaVariantMatrix 1 w1_s w1_v [[0; 1]; [0; 1; 2]]%nat [5; 6]%nat /\
  (exists s', op_insert cDenseTaxaVariantMatrix w1_s 1 (OList [1]) w1_v = OK s' /\
              data s' = build [[0; 1]; [0; 5; 6; 1; 2]]%nat w_val) /\
  (exists s', op_insert cDenseTaxaVariantMatrix w1_s 1 (OInt 1) w1_v = OK s' /\
              data s' = build [[0; 1]; [0; 5; 6; 1; 2]]%nat w_val /\ data s' = T2 [[0; 5; 6; 1; 2]; [10; 15; 16; 11; 12]]) /\
  (exists s', old_op_insert cDenseTaxaVariantMatrix w1_s 1 (OInt 1) w1_v = OK s' /\
              data s' <> build [[0; 1]; [0; 5; 6; 1; 2]]%nat w_val /\ data s' = T2 [[0; 5; 15; 1; 2]; [10; 6; 16; 11; 12]]).
Proof.
  split; [|split; [|split; [|split]]].
  - split; try reflexivity.
    + intros k a H. destruct k as [|[|k]]; cbn in H;
        [destruct H as [<-|[]]; reflexivity | destruct H as [<-|[]]; reflexivity | destruct k; destruct H].
    + intros [|[|k]] Hk; cbn in Hk; try lia; reflexivity.
    + intros [|[|k]] j l Hk E; cbn in Hk; try lia; cbn in E.
      * do 2 (destruct j as [|j]; [cbn in E; inversion E; reflexivity|]). destruct j; discriminate.
      * do 9 (destruct j as [|j]; [cbn in E; inversion E; reflexivity|]). destruct j; discriminate.
  - split; try reflexivity. intros j Hj. cbn in Hj. do 9 (destruct j as [|j]; [cbn; reflexivity|]). lia.
  - eexists. split; [vm_compute; reflexivity|vm_compute; reflexivity].
  - eexists. split; [vm_compute; reflexivity|]. split; vm_compute; reflexivity.
  - eexists. split; [vm_compute; reflexivity|]. split; [vm_compute; discriminate|vm_compute; reflexivity].
Qed.

(** 2. insert_taxa of a square-taxa matrix acts on axis 0 only: the result is not square *)
Definition w2_s : st := mkst [2; 2]%nat (build [[0; 1]; [0; 1]]%nat w_val) [w_ax 0 2 [0; 1]%nat].
Definition w2_v : operand := mkopd [1; 1]%nat (build [[7]; [7]]%nat w_val) [w_ax 0 2 [7]%nat] true (repeat None 2).
Lemma square_insert_refuted :
  exists s', op_insert cDenseSquareTaxaMatrix w2_s 0 (OList [0]) w2_v = OK s' /\ shape s' = [3; 2]%nat /\
             nth 0 (labs (ax_of s' 0)) None = Some (map (w_lbl 0 0) [7; 0; 1]%nat).
Proof. eexists. split; [vm_compute; reflexivity|]. split; vm_compute; reflexivity. Qed.

(** 3. select_taxa of DenseSquareTaxaTraitMatrix loses the trait labels; remove_taxa keeps them *)
Definition w_val3 (l : list nat) : Z := match l with [r; c; t] => Z.of_nat (100 * r + 10 * c + t) | _ => 0 end.
Definition w3_s : st := mkst [2; 2; 2]%nat (build [[0; 1]; [0; 1]; [0; 1]]%nat w_val3) [w_ax 0 2 [0; 1]%nat; w_ax 1 1 [0; 1]%nat].
Lemma squaretaxatrait_drop_refuted :
  exists s' s'', op_select cDenseSquareTaxaTraitMatrix w3_s 0 [1] = OK s' /\ op_remove cDenseSquareTaxaTraitMatrix w3_s 0 (OInt 0) = OK s'' /\
             data s' = data s'' /\ labs (ax_of s' 0) = labs (ax_of s'' 0) /\
             labs (ax_of w3_s 1) = [Some (map (w_lbl 1 0) [0; 1]%nat)] /\ labs (ax_of s'' 1) = [Some (map (w_lbl 1 0) [0; 1]%nat)] /\
             labs (ax_of s' 1) = [None] /\ ~ no_loss w3_s s'.
Proof.
  eexists. eexists. repeat split; try (vm_compute; reflexivity).
  intros H. destruct (H 1%nat 0%nat _ eq_refl) as [l E]. vm_compute in E. discriminate.
Qed.

(** * group metadata describe a true contiguous partition *)
Definition unsome (l : larr) : list Z := map (fun o => match o with Some z => z | None => 0 end) l.
Definition rle_expand (names lens : list Z) : list Z := flat_map (fun nl => repeat (fst nl) (Z.to_nat (snd nl))) (combine names lens).
Fixpoint prefix_sums (acc : Z) (l : list Z) : list Z := match l with [] => [] | x :: t => acc :: prefix_sums (acc + x) t end.
(** labels = name_0 repeated len_0 times ++ name_1 repeated len_1 times ++ ..., names strictly increasing, all
    lengths positive, stix the running sums of the lengths, spix = stix + len *)
Record partition_ok (labels names stix spix lens : list Z) : Prop := {
  p_inc : StronglySorted Z.lt names;
  p_len : length lens = length names;
  p_pos : Forall (fun x => 0 < x) lens;
  p_stix : stix = prefix_sums 0 lens;
  p_spix : spix = map2 Z.add stix lens;
  p_lab : labels = rle_expand names lens }.

Fixpoint rle (l : list Z) : list (Z * Z) :=
  match l with
  | [] => []
  | x :: t => match rle t with (y, c) :: r => if x =? y then (y, c + 1) :: r else (x, 1) :: (y, c) :: r | [] => [(x, 1)] end
  end.
Lemma rle_nil l : rle l = [] -> l = [].
Proof. destruct l as [|x t]; [reflexivity|]. cbn. destruct (rle t) as [|[y c] r]; [discriminate|]. destruct (x =? y); discriminate. Qed.
Lemma rle_hd x t : exists c r, rle (x :: t) = (x, c) :: r /\ 0 < c.
Proof.
  revert x; induction t as [|y t IH]; intros x; cbn; [exists 1, []; split; [reflexivity|lia]|].
  destruct (IH y) as (c & r & E & Hc). cbn in E. rewrite E. destruct (x =? y) eqn:Exy.
  - apply Z.eqb_eq in Exy. subst. exists (c + 1), r. split; [reflexivity|lia].
  - exists 1, ((y, c) :: r). split; [reflexivity|lia].
Qed.
Lemma rle_pos l : Forall (fun x => 0 < x) (map snd (rle l)).
Proof.
  induction l as [|x t IH]; cbn; [constructor|]. destruct (rle t) as [|[y c] r]; cbn; [repeat constructor|].
  cbn in IH. inversion IH; subst. destruct (x =? y); cbn; constructor; try lia; try assumption.
Qed.
Lemma rle_expand_rle l : rle_expand (map fst (rle l)) (map snd (rle l)) = l.
Proof.
  unfold rle_expand. induction l as [|x t IH]; cbn; [reflexivity|].
  destruct (rle t) as [|[y c] r] eqn:E; cbn in *.
  - apply rle_nil in E. now subst.
  - pose proof (rle_pos t) as Hp. rewrite E in Hp. cbn in Hp. inversion Hp as [|? ? Hc Hr].
    destruct (x =? y) eqn:Exy; cbn.
    + apply Z.eqb_eq in Exy. subst x. rewrite <- IH. replace (Z.to_nat (c + 1)) with (S (Z.to_nat c)) by lia. reflexivity.
    + now rewrite <- IH.
Qed.
Lemma rle_names_lb l x : Forall (fun y => x <= y) l -> Forall (fun y => x <= y) (map fst (rle l)).
Proof.
  induction l as [|a t IH]; intros H; cbn; [constructor|]. inversion H; subst. specialize (IH H3).
  destruct (rle t) as [|[y c] r]; cbn in *; [repeat constructor; assumption|].
  destruct (a =? y); cbn; [assumption|constructor; assumption].
Qed.
Lemma rle_sorted l : StronglySorted Z.le l -> StronglySorted Z.lt (map fst (rle l)).
Proof.
  induction 1 as [|x t HS IH Hx]; cbn; [constructor|].
  destruct (rle t) as [|[y c] r] eqn:E; cbn in *; [repeat constructor|].
  destruct (x =? y) eqn:Exy; cbn; [assumption|]. apply Z.eqb_neq in Exy.
  pose proof (rle_names_lb t x Hx) as Hlb. rewrite E in Hlb. cbn in Hlb. inversion Hlb; subst.
  inversion IH; subst. constructor; [assumption|]. constructor; [lia|].
  eapply Forall_impl; [|exact H4]. cbn. intros. lia.
Qed.

(** np_unique on a sorted list is its run-length encoding *)
Lemma zins_lt x y l : x < y -> zins x (y :: l) = x :: y :: l.
Proof. intros H. cbn. apply Z.ltb_lt in H. now rewrite H. Qed.
Lemma zins_eq x l : zins x (x :: l) = x :: l.
Proof. cbn. now rewrite Z.ltb_irrefl, Z.eqb_refl. Qed.
Lemma distinct_sorted_rle l : StronglySorted Z.le l -> distinct_sorted l = map fst (rle l).
Proof.
  induction 1 as [|x t HS IH Hx]; [reflexivity|].
  change (distinct_sorted (x :: t)) with (zins x (distinct_sorted t)). rewrite IH. cbn [rle].
  pose proof (rle_names_lb t x Hx) as Hlb.
  destruct (rle t) as [|[y c] r] eqn:E; [reflexivity|]. cbn [map fst] in *. inversion Hlb as [|? ? Hxy _].
  destruct (x =? y) eqn:Exy.
  - apply Z.eqb_eq in Exy. subst x. cbn [map fst]. apply zins_eq.
  - apply Z.eqb_neq in Exy. cbn [map fst]. apply zins_lt. cbn beta in Hxy. lia.
Qed.
Lemma count_if_cons (f : Z -> bool) x l : count_if f (x :: l) = (if f x then 1 else 0) + count_if f l.
Proof. unfold count_if. cbn [filter]. destruct (f x); [cbn [length]; lia|lia]. Qed.
Lemma count_zero n l : Forall (fun y => n < y) l -> count_if (Z.eqb n) l = 0.
Proof.
  induction 1 as [|y t Hy _ IH]; [reflexivity|]. rewrite count_if_cons, IH.
  destruct (n =? y) eqn:E; [apply Z.eqb_eq in E; lia|reflexivity].
Qed.
Lemma hd_lb t y c r : StronglySorted Z.le t -> rle t = (y, c) :: r -> Forall (fun a => y <= a) t.
Proof.
  destruct t as [|a0 t']; [constructor|]. intros HS E. destruct (rle_hd a0 t') as (c0 & r0 & E0 & _). rewrite E in E0.
  inversion E0; subst. inversion HS; subst. constructor; [lia|assumption].
Qed.
Lemma counts_rle l : StronglySorted Z.le l -> map (fun n => count_if (Z.eqb n) l) (map fst (rle l)) = map snd (rle l).
Proof.
  induction 1 as [|x t HS IH Hx]; [reflexivity|]. cbn [rle].
  pose proof (rle_sorted t HS) as Hinc. pose proof (rle_names_lb t x Hx) as Hlb.
  destruct (rle t) as [|[y c] r] eqn:E.
  - apply rle_nil in E. subst t. cbn. rewrite count_if_cons, Z.eqb_refl. reflexivity.
  - pose proof (hd_lb t y c r HS E) as Hty.
    cbn [map fst snd] in *. inversion Hlb as [|? ? Hxy _]. inversion Hinc as [|? ? _ Hgt]. inversion IH as [[IH1 IH2]]. cbn beta in Hxy.
    assert (Hr : map (fun n => count_if (Z.eqb n) (x :: t)) (map fst r) = map (fun n => count_if (Z.eqb n) t) (map fst r)).
    { apply map_ext_in. intros n Hin. rewrite count_if_cons. rewrite Forall_forall in Hgt. specialize (Hgt n Hin).
      destruct (n =? x) eqn:En; [apply Z.eqb_eq in En; lia|reflexivity]. }
    destruct (x =? y) eqn:Exy.
    + apply Z.eqb_eq in Exy. subst x. cbn [map fst snd]. rewrite count_if_cons, Z.eqb_refl, IH1, Hr, IH2. f_equal. lia.
    + apply Z.eqb_neq in Exy. cbn [map fst snd]. rewrite !count_if_cons, Z.eqb_refl.
      assert (Hyx : y =? x = false) by (apply Z.eqb_neq; lia). rewrite Hyx, IH1, Hr, IH2.
      rewrite (count_zero x t); [reflexivity|]. eapply Forall_impl; [|exact Hty]. cbn. intros a1 Ha1. lia.
Qed.
Lemma firsts_rle l : StronglySorted Z.le l -> forall i, map (fun n => first_ix n l i) (map fst (rle l)) = prefix_sums i (map snd (rle l)).
Proof.
  induction 1 as [|x t HS IH Hx]; intros i; [reflexivity|]. cbn [rle].
  pose proof (rle_sorted t HS) as Hinc. pose proof (rle_names_lb t x Hx) as Hlb. specialize (IH (i + 1)).
  destruct (rle t) as [|[y c] r] eqn:E.
  - cbn. now rewrite Z.eqb_refl.
  - cbn [map fst snd] in *. inversion Hlb as [|? ? Hxy _]. inversion Hinc as [|? ? _ Hgt]. cbn beta in Hxy.
    cbn [prefix_sums] in IH. injection IH as IH1 IH2.
    assert (Hr : map (fun n => first_ix n (x :: t) i) (map fst r) = map (fun n => first_ix n t (i + 1)) (map fst r)).
    { apply map_ext_in. intros n Hin. cbn. rewrite Forall_forall in Hgt. specialize (Hgt n Hin).
      destruct (n =? x) eqn:En; [apply Z.eqb_eq in En; lia|reflexivity]. }
    destruct (x =? y) eqn:Exy.
    + apply Z.eqb_eq in Exy. subst x. cbn [map fst snd prefix_sums]. rewrite Hr, IH2. cbn [first_ix]. rewrite Z.eqb_refl.
      f_equal. f_equal. lia.
    + apply Z.eqb_neq in Exy. cbn [map fst snd prefix_sums]. rewrite Hr, IH2. cbn [first_ix]. rewrite Z.eqb_refl.
      assert (Hyx : y =? x = false) by (apply Z.eqb_neq; lia). rewrite Hyx, IH1. reflexivity.
Qed.

Theorem unique_partition l : StronglySorted Z.le l ->
  let '(nm, ix, ln) := np_unique l in partition_ok l nm ix (map2 Z.add ix ln) ln.
Proof.
  intros HS. unfold np_unique. rewrite (distinct_sorted_rle l HS), (counts_rle l HS), (firsts_rle l HS 0).
  split.
  - now apply rle_sorted.
  - now rewrite !map_length.
  - apply rle_pos.
  - reflexivity.
  - reflexivity.
  - symmetry. apply rle_expand_rle.
Qed.

(** * lexsort: a permutation sorted by the primary (last) key *)
Section ISort.
Variable leb : nat -> nat -> bool.
Hypothesis total : forall x y, leb x y = false -> leb y x = true.
Let R := fun a b => leb a b = true.
Lemma ins_sorted_perm x l : Permutation (ins_sorted leb x l) (x :: l).
Proof.
  induction l as [|y t IH]; cbn; [reflexivity|]. destruct (leb x y); [reflexivity|].
  etransitivity; [apply perm_skip; exact IH|apply perm_swap].
Qed.
Lemma isort_perm l : Permutation (isort leb l) l.
Proof.
  induction l as [|x t IH]; cbn; [reflexivity|]. etransitivity; [apply ins_sorted_perm|]. now apply perm_skip.
Qed.
Lemma ins_sorted_HdRel y x t : R y x -> HdRel R y t -> HdRel R y (ins_sorted leb x t).
Proof. intros Hyx Ht. destruct t as [|z t]; cbn; [now constructor|]. destruct (leb x z); constructor; [assumption|]. now inversion Ht. Qed.
Lemma ins_sorted_Sorted x l : Sorted R l -> Sorted R (ins_sorted leb x l).
Proof.
  induction 1 as [|y t HS IH Hy]; cbn; [repeat constructor|].
  destruct (leb x y) eqn:E.
  - constructor; [constructor; assumption|]. constructor. exact E.
  - constructor; [assumption|]. apply ins_sorted_HdRel; [apply total; exact E|assumption].
Qed.
Lemma isort_Sorted l : Sorted R (isort leb l).
Proof. induction l as [|x t IH]; cbn; [constructor|]. now apply ins_sorted_Sorted. Qed.
End ISort.

Lemma lex_leb_total keys x y : lex_leb keys x y = false -> lex_leb keys y x = true.
Proof.
  induction keys as [|k r IH]; cbn; [discriminate|].
  destruct (nth x k 0 <? nth y k 0) eqn:E1; [discriminate|]. destruct (nth y k 0 <? nth x k 0) eqn:E2; [reflexivity|]. exact IH.
Qed.
Lemma lex_leb_primary k r x y : lex_leb (k :: r) x y = true -> nth x k 0 <= nth y k 0.
Proof.
  cbn. destruct (nth x k 0 <? nth y k 0) eqn:E1; [apply Z.ltb_lt in E1; lia|].
  destruct (nth y k 0 <? nth x k 0) eqn:E2; [discriminate|]. apply Z.ltb_ge in E1, E2. lia.
Qed.
Lemma Sorted_weaken {A} (R1 R2 : A -> A -> Prop) l : (forall a b, R1 a b -> R2 a b) -> Sorted R1 l -> Sorted R2 l.
Proof.
  intros H. induction 1 as [|x t HS IH Hx]; constructor; [assumption|].
  destruct Hx; constructor. auto.
Qed.
Lemma Sorted_map {A B} (f : A -> B) (R : B -> B -> Prop) l : Sorted (fun a b => R (f a) (f b)) l -> Sorted R (map f l).
Proof. induction 1 as [|x t HS IH Hx]; cbn; constructor; [assumption|]. destruct Hx; cbn; constructor. assumption. Qed.

Lemma pick_as_map {A} (ps : list nat) (l : list A) d : Forall (fun p => (p < length l)%nat) ps -> pick ps l = map (fun p => nth p l d) ps.
Proof.
  unfold pick. induction 1 as [|p ps Hp _ IH]; cbn; [reflexivity|]. rewrite IH.
  destruct (nth_error l p) eqn:E; [|apply nth_error_None in E; lia]. cbn. f_equal. symmetry. now apply nth_error_nth.
Qed.
Lemma mapM_id_unsome (l : larr) kv : mapM (fun o => o) l = Some kv -> kv = unsome l.
Proof.
  revert kv; induction l as [|o t IH]; cbn; intros kv H; [now inversion H|].
  destruct o as [z|]; [|discriminate]. destruct (mapM (fun o => o) t) as [r|]; [|discriminate]. inversion H. cbn. f_equal. now apply IH.
Qed.
Lemma key_values_spec n l kv : key_values n l = Some kv -> length l = n /\ kv = unsome l.
Proof.
  unfold key_values. destruct (Nat.eqb (length l) n) eqn:E; [|discriminate]. apply Nat.eqb_eq in E. intros H. split; [assumption|].
  destruct (Nat.leb n 1); [now inversion H|now apply mapM_id_unsome].
Qed.
Lemma mapM_app_inv {A B} (f : A -> option B) l1 l2 r : mapM f (l1 ++ l2) = Some r ->
  exists r1 r2, mapM f l1 = Some r1 /\ mapM f l2 = Some r2 /\ r = r1 ++ r2.
Proof.
  revert r; induction l1 as [|x t IH]; cbn; intros r H; [exists [], r; auto|].
  destruct (f x) as [y|]; [|discriminate]. destruct (mapM f (t ++ l2)) as [rr|] eqn:E; [|discriminate]. inversion H; subst.
  destruct (IH rr eq_refl) as (r1 & r2 & H1 & H2 & ->). rewrite H1. exists (y :: r1), r2. auto.
Qed.
Lemma plan_take_of_nat n ps : Forall (fun p => (p < n)%nat) ps -> plan_take n (map Z.of_nat ps) = Some ps.
Proof.
  unfold plan_take. induction 1 as [|p ps Hp _ IH]; cbn; [reflexivity|]. rewrite IH. unfold norm.
  replace (Z.of_nat p <? - Z.of_nat n) with false by (symmetry; apply Z.ltb_ge; lia).
  replace (Z.of_nat n <=? Z.of_nat p) with false by (symmetry; apply Z.leb_gt; lia).
  replace (Z.of_nat p <? 0) with false by (symmetry; apply Z.ltb_ge; lia). cbn. now rewrite Nat2Z.id.
Qed.

(** the group key is the last (= primary) default sort key of its axis kind *)
Lemma grp_is_primary kd g : grp (schema_of kd) = Some g -> exists pre, skeys (schema_of kd) = pre ++ [g].
Proof. destruct kd; cbn; intros [= <-]; [exists [0%nat]|exists [1%nat]]; reflexivity. Qed.

(** after lexsort on keys whose last one is [l0], gathering [l0] by the returned indices gives a sorted list *)
Lemma lexsort_sorts_primary n pre (l0 : larr) idx : lexsort n (pre ++ [l0]) = OK idx ->
  exists ps, plan_take (length l0) idx = Some ps /\ StronglySorted Z.le (unsome (pick ps l0)) /\ Permutation ps (seq 0 n).
Proof.
  unfold lexsort. destruct (pre ++ [l0]) eqn:Ek; [destruct pre; discriminate|]. rewrite <- Ek. clear Ek.
  destruct (mapM (key_values n) (pre ++ [l0])) as [ks|] eqn:E; [|discriminate]. intros [= <-].
  destruct (mapM_app_inv _ _ _ _ E) as (r1 & r2 & H1 & H2 & ->). cbn in H2.
  destruct (key_values n l0) as [kv0|] eqn:Ekv; [|discriminate]. inversion H2; subst r2.
  destruct (key_values_spec n l0 kv0 Ekv) as [Hlen ->].
  rewrite rev_app_distr. cbn [rev app].
  set (K := unsome l0 :: rev r1). set (perm := isort (lex_leb K) (seq 0 n)).
  assert (HP : Permutation perm (seq 0 n)) by apply isort_perm.
  assert (Hlt : Forall (fun p => (p < n)%nat) perm).
  { apply Forall_forall. intros p Hp. apply (Permutation_in _ HP) in Hp. apply in_seq in Hp. lia. }
  pose proof Hlt as Hlt2. rewrite <- Hlen in Hlt2.
  exists perm. split; [exact (plan_take_of_nat _ _ Hlt2)|]. split; [|assumption].
  unfold unsome at 1. rewrite <- pick_map. fold (unsome l0).
  rewrite (pick_as_map perm (unsome l0) 0) by (unfold unsome; rewrite map_length; exact Hlt2).
  apply Sorted_StronglySorted; [intros a b c0; lia|]. apply Sorted_map.
  eapply Sorted_weaken; [|apply (isort_Sorted (lex_leb K) (lex_leb_total K))].
  intros a b H. now apply (lex_leb_primary (unsome l0) (rev r1)).
Qed.

(** * group: the metadata written by group_<axis> are a true partition of the group labels now on the axis *)
Lemma mapM_omap_nth (f : larr -> option larr) L r g : mapM (omap f) L = Some r ->
  nth g r None = match nth g L None with None => None | Some l0 => f l0 end.
Proof.
  revert r g; induction L as [|o L IH]; intros r g H; cbn in H.
  - inversion H. destruct g; reflexivity.
  - destruct (omap f o) as [o'|] eqn:Eo; [|discriminate]. destruct (mapM (omap f) L) as [rr|] eqn:Er; [|discriminate]. inversion H; subst r.
    destruct g; cbn.
    + destruct o as [l0|]; cbn in Eo; [|now inversion Eo]. destruct (f l0); inversion Eo; reflexivity.
    + now apply IH.
Qed.
Lemma set_axes_length s k l : length (set_axes s k l) = length (axes s).
Proof. unfold set_axes. apply length_map_indexed. Qed.
Lemma ax_of_upd_ax s k f k' : (k' < length (axes s))%nat -> ax_of (upd_ax s k f) k' = if Nat.eqb k' k then f (ax_of s k') else ax_of s k'.
Proof. intros H. unfold upd_ax, ax_of; cbn. rewrite (nth_map_indexed _ _ _ _ ax0) by assumption. reflexivity. Qed.

Definition grouped_ok (a : axst) (g : nat) : Prop :=
  match nth g (labs a) None with
  | Some l => exists nm ix sp ln, m_name a = Some nm /\ m_stix a = Some ix /\ m_spix a = Some sp /\ m_len a = Some ln /\
                                  partition_ok (unsome l) nm ix sp ln
  | None => False
  end.

Theorem group_partition c s k s' g : (k < length (axes s))%nat -> grp (sch c k) = Some g -> op_group c s k = OK s' ->
  grouped_ok (ax_of s' k) g \/ (nth g (labs (ax_of s' k)) None = None /\ is_grouped (ax_of s' k) = false).
Proof.
  intros Hk Hg H. unfold op_group in H. rewrite Hg in H.
  destruct (op_sort c s k None) as [s1|] eqn:Es; [|discriminate]. cbn in H. inversion H; subst s'; clear H.
  unfold op_sort in Es. destruct (op_lexsort c s k None) as [idx|] eqn:El; [|discriminate]. cbn in Es.
  unfold op_reorder in Es. destruct (sortable (sch c k)) eqn:Esrt; [|discriminate].
  destruct (un_data c s k _) as [[t sh]|]; [|discriminate]. destruct (un_labs s k (np_take idx)) as [l|] eqn:Elab; [|discriminate].
  inversion Es; subst s1; clear Es.
  rewrite ax_of_upd_ax by (cbn; now rewrite set_axes_length). rewrite Nat.eqb_refl.
  rewrite ax_of_set_axes by assumption. rewrite Nat.eqb_refl.
  unfold un_labs in Elab. pose proof (mapM_omap_nth (np_take idx) _ _ g Elab) as Hn.
  unfold group_meta; cbn [labs]. rewrite Hn.
  destruct (nth g (labs (ax_of s k)) None) as [l0|] eqn:E0; [|right; split; [exact Hn|reflexivity]].
  (* the keys of the default sort end with the group array *)
  unfold op_lexsort in El. rewrite Esrt in El. unfold sort_keys in El.
  destruct (grp_is_primary (kind_of c k) g Hg) as [pre Hpre]. unfold sch in El. rewrite Hpre in El.
  rewrite map_app, flat_map_app in El. cbn [map flat_map] in El. rewrite E0, app_nil_r in El.
  destruct (lexsort_sorts_primary _ _ l0 idx El) as (ps & Hps & Hsorted & _).
  unfold np_take. rewrite Hps. cbn [option_map].
  left. unfold grouped_ok. cbn [labs m_name m_stix m_spix m_len].
  pose proof (unique_partition (unsome (pick ps l0)) Hsorted) as HP. fold (unsome (pick ps l0)).
  destruct (np_unique (unsome (pick ps l0))) as [[nm ix] ln]. cbn [labs m_name m_stix m_spix m_len].
  unfold np_take in Hn. rewrite Hps in Hn. cbn in Hn. rewrite Hn.
  exists nm, ix, (map2 Z.add ix ln), ln. repeat split; try reflexivity; apply HP.
Qed.

(** * invariant: whenever an axis reports itself grouped, its metadata are a true partition of its group labels *)
Definition meta_ok (c : cls) (s : st) : Prop :=
  forall k g, (k < length (axes s))%nat -> grp (sch c k) = Some g -> is_grouped (ax_of s k) = false \/ grouped_ok (ax_of s k) g.

Lemma meta_ok_new c s k l sh t s' : construct c sh t (new_axes c s k l) = OK s' -> meta_ok c s -> meta_ok c s'.
Proof.
  intros Hc M. apply construct_ok in Hc. subst s'. intros k' g Hk' Hg. cbn in Hk'. unfold new_axes in Hk'. rewrite length_map_indexed in Hk'.
  rewrite ax_of_new_axes by assumption. destruct (Nat.eqb k' k); [now left|].
  destruct (drop_other c); [now left|]. now apply M.
Qed.
Lemma meta_ok_set c s k l sh t : meta_ok c s -> meta_ok c {| shape := sh; data := t; axes := set_axes s k l |}.
Proof.
  intros M k' g Hk' Hg. cbn in Hk'. rewrite set_axes_length in Hk'.
  rewrite ax_of_set_axes by assumption. destruct (Nat.eqb k' k); [now left|]. now apply M.
Qed.
Lemma op_reorder_meta c s k idx s' : op_reorder c s k idx = OK s' -> meta_ok c s -> meta_ok c s'.
Proof.
  unfold op_reorder. destruct (sortable _); [|discriminate]. destruct (un_data _ _ _ _) as [[t sh]|]; [|discriminate].
  destruct (un_labs _ _ _) as [l|]; [|discriminate]. intros [= <-]. apply meta_ok_set.
Qed.
Lemma op_reorder_axes c s k idx s' : op_reorder c s k idx = OK s' ->
  length (axes s') = length (axes s) /\ forall k', (k' < length (axes s))%nat -> k' <> k -> ax_of s' k' = ax_of s k'.
Proof.
  unfold op_reorder. destruct (sortable _); [|discriminate]. destruct (un_data _ _ _ _) as [[t sh]|]; [|discriminate].
  destruct (un_labs _ _ _) as [l|]; [|discriminate]. intros [= <-]. split; [cbn; apply set_axes_length|].
  intros k' Hk' Hne. rewrite ax_of_set_axes by assumption. apply Nat.eqb_neq in Hne. now rewrite Hne.
Qed.

Theorem step_meta_inv c s k o s' : meta_ok c s -> step_k c s k o = OK s' -> meta_ok c s'.
Proof.
  intros M H. destruct o; cbn in H.
  - unfold op_select in H. destruct (un_data _ _ _ _) as [[t sh]|]; [|discriminate]. destruct (un_labs _ _ _) as [l|]; [|discriminate].
    eapply meta_ok_new; eauto.
  - unfold op_delete in H. destruct (un_data _ _ _ _) as [[t sh]|]; [|discriminate]. destruct (un_labs _ _ _) as [l|]; [|discriminate].
    eapply meta_ok_new; eauto.
  - unfold op_insert in H. destruct (pre_binary _ _ _ _ _) as [gs|]; [|discriminate]. cbn in H.
    destruct (np_insert_t _ _ _ _ _ _) as [[t sh]|]; [|discriminate]. destruct (join_labs _ _ _) as [l|]; [|discriminate].
    eapply meta_ok_new; eauto.
  - unfold op_adjoin in H. destruct (pre_binary _ _ _ _ _) as [gs|]; [|discriminate]. cbn in H.
    destruct (join_labs _ _ _) as [l|]; [|discriminate]. destruct (cat_data _ _ _ _) as [t sh]. eapply meta_ok_new; eauto.
  - unfold op_concat in H. destruct (forallb _ _); [|discriminate]. destruct (cat_fields _ _ _ _) as [l|]; [|discriminate]. cbn in H.
    eapply meta_ok_new; eauto.
  - unfold op_append in H. destruct (pre_binary _ _ _ _ _) as [gs|]; [|discriminate]. cbn in H.
    destruct (join_labs_inplace _ _ _) as [l|]; [|discriminate]. destruct (cat_data _ _ _ _) as [t sh]. inversion H. now apply meta_ok_set.
  - unfold op_remove in H. destruct (un_data _ _ _ _) as [[t sh]|]; [|discriminate]. destruct (un_labs _ _ _) as [l|]; [|discriminate].
    inversion H. now apply meta_ok_set.
  - unfold op_incorp in H. destruct (pre_binary _ _ _ _ _) as [gs|]; [|discriminate]. cbn in H.
    destruct (np_insert_t _ _ _ _ _ _) as [[t sh]|]; [|discriminate]. destruct (join_labs_inplace _ _ _) as [l|]; [|discriminate].
    inversion H. now apply meta_ok_set.
  - eapply op_reorder_meta; eauto.
  - destruct (sortable _); [|discriminate]. unfold op_sort in H. destruct (op_lexsort _ _ _ _) as [ix|]; [|discriminate]. cbn in H.
    eapply op_reorder_meta; eauto.
  - (* group *)
    pose proof H as Hgrp. unfold op_group in H. destruct (grp (sch c k)) as [g0|] eqn:Eg; [|discriminate].
    destruct (op_sort c s k None) as [s1|] eqn:Es; [|discriminate]. cbn in H. inversion H; subst s'; clear H.
    unfold op_sort in Es. destruct (op_lexsort _ _ _ _) as [ix|]; [|discriminate]. cbn in Es.
    destruct (op_reorder_axes _ _ _ _ _ Es) as [Hlen Hoth].
    intros k' g Hk' Hg. cbn in Hk'. rewrite length_map_indexed in Hk'.
    destruct (Nat.eq_dec k' k) as [->|Hne].
    + rewrite Eg in Hg. inversion Hg; subst g0.
      destruct (group_partition c s k _ g ltac:(lia) Eg Hgrp) as [HP|[_ HP]]; [now right|now left].
    + rewrite ax_of_upd_ax by assumption. apply Nat.eqb_neq in Hne. rewrite Hne. apply Nat.eqb_neq in Hne.
      rewrite Hoth by (try lia; assumption). apply M; [lia|assumption].
  - unfold op_ungroup in H. destruct (grp (sch c k)); [|discriminate]. inversion H; subst s'.
    intros k' g Hk' Hg. cbn in Hk'. rewrite length_map_indexed in Hk'. rewrite ax_of_upd_ax by assumption.
    destruct (Nat.eqb k' k); [now left|now apply M].
Qed.
(** every matrix fresh from the constructor is ungrouped, hence satisfies the invariant *)
Lemma meta_ok_fresh c s : (forall k, is_grouped (ax_of s k) = false) -> meta_ok c s.
Proof. intros H k g _ _. left. apply H. Qed.
(** for every history of public operations (any forms, any arguments): the invariant holds in every state reached *)
Theorem history_meta_inv c : forall h s, meta_ok c s ->
  Forall (fun x => meta_ok (fst (fst x)) (snd (fst x))) (fst (run c s (map (fun fo => HOp (fst fo) (snd fo)) h))).
Proof.
  induction h as [|[f o] h IH]; intros s M; cbn; [constructor|].
  unfold step. destruct (dispatch c f) as [k|]; [|constructor].
  destruct (step_k c s k o) as [s1|] eqn:E; [|constructor].
  pose proof (step_meta_inv c s k o s1 M E) as M1. specialize (IH s1 M1).
  destruct (run c s1 _) as [l e]. cbn in *. constructor; [exact M1|exact IH].
Qed.

(** * histories of selecting / deleting / removing / reordering / sorting / grouping / ungrouping (any class, any axis,
      either form): every state reached is the image of entity lists drawn from the original ones *)
Inductive uop := USelect (idx : list Z) | UDelete (o : objarg) | URemove (o : objarg) | UReorder (idx : list Z)
               | USort (keys : option (list (option larr))) | UGroup | UUngroup.
Definition opk_of (u : uop) : opk :=
  match u with USelect i => Select i | UDelete o => Delete o | URemove o => Remove o | UReorder i => Reorder i
             | USort k => Sort k | UGroup => Group | UUngroup => Ungroup end.
Lemma dispatch_lt c f k : dispatch c f = Some k -> (k < length (axs c))%nat.
Proof.
  destruct f as [k0|axis]; unfold dispatch.
  - destruct (Nat.ltb k0 (length (axs c))) eqn:E; [|discriminate]. intros [= <-]. now apply Nat.ltb_lt.
  - destruct (get_axis axis (ndim c)); [|discriminate]. intros H. apply find_kind_bound in H. lia.
Qed.

Section History.
Context {ent : Type}.
Variable val : list ent -> Z.
Variable lbl : nat -> nat -> ent -> lab.
Definition sub (ess ess' : list (list ent)) : Prop := forall a x, In x (nth a ess' []) -> In x (nth a ess []).
Lemma sub_refl ess : sub ess ess. Proof. intros a x H; exact H. Qed.
Lemma sub_trans e1 e2 e3 : sub e1 e2 -> sub e2 e3 -> sub e1 e3. Proof. intros H1 H2 a x H. apply H1, H2, H. Qed.
Lemma sub_upd_all c s k ess ps : wf_cls c -> Rep val lbl c s ess -> (k < length (axs c))%nat ->
  sub ess (upd_all (taxes c k) (pick ps (nth (taxis c k) ess [])) ess).
Proof.
  intros W R Hk a x H. destruct (in_dec Nat.eq_dec a (taxes c k)) as [Hin|Hnin].
  - rewrite nth_upd_all_in in H; [|assumption|rewrite (r_nd _ _ _ _ _ R); eapply wf_lt; eauto].
    rewrite (r_sq _ _ _ _ _ R k a Hin). eapply In_pick; eauto.
  - now rewrite nth_upd_all_notin in H.
Qed.

Lemma ustep_refines c s k u s' ess : wf_cls c -> Rep val lbl c s ess -> (k < length (axs c))%nat ->
  step_k c s k (opk_of u) = OK s' -> exists ess', Rep val lbl c s' ess' /\ sub ess ess'.
Proof.
  intros W R Hk H. destruct u; cbn in H.
  - destruct (select_refines val lbl c s k idx s' ess W R Hk H) as (ps & _ & HR & _). eexists; split; [exact HR|]. eapply sub_upd_all; eauto.
  - destruct (delete_refines val lbl c s k o s' ess W R Hk H) as (ps & _ & HR & _). eexists; split; [exact HR|]. eapply sub_upd_all; eauto.
  - destruct (remove_refines val lbl c s k o s' ess W R Hk H) as (ps & _ & HR & _). eexists; split; [exact HR|]. eapply sub_upd_all; eauto.
  - destruct (reorder_refines val lbl c s k idx s' ess W R Hk H) as (ps & _ & HR & _). eexists; split; [exact HR|]. eapply sub_upd_all; eauto.
  - destruct (sortable (sch c k)); [|discriminate].
    destruct (sort_refines val lbl c s k keys s' ess W R Hk H) as (idx & ps & _ & _ & HR & _). eexists; split; [exact HR|]. eapply sub_upd_all; eauto.
  - destruct (group_refines val lbl c s k s' ess W R Hk H) as (idx & ps & _ & _ & HR & _). eexists; split; [exact HR|]. eapply sub_upd_all; eauto.
  - destruct (ungroup_refines val lbl c s k s' ess R H) as [HR _]. exists ess. split; [exact HR|apply sub_refl].
Qed.

Theorem history_refines c : wf_cls c -> forall (h : list (form * uop)) s ess, Rep val lbl c s ess ->
  Forall (fun x => exists ess', Rep val lbl (fst (fst x)) (snd (fst x)) ess' /\ sub ess ess')
         (fst (run c s (map (fun fu => HOp (fst fu) (opk_of (snd fu))) h))).
Proof.
  intros W. induction h as [|[f u] h IH]; intros s ess R; cbn; [constructor|].
  unfold step. destruct (dispatch c f) as [k|] eqn:Ed; [|constructor].
  destruct (step_k c s k (opk_of u)) as [s1|] eqn:E; [|constructor].
  destruct (ustep_refines c s k u s1 ess W R (dispatch_lt _ _ _ Ed) E) as (ess1 & R1 & S1).
  specialize (IH s1 ess1 R1). destruct (run c s1 _) as [l e]. cbn in *. constructor.
  - exists ess1. auto.
  - eapply Forall_impl; [|exact IH]. cbn. intros x (ess' & HR & HS). exists ess'. split; [assumption|]. eapply sub_trans; eauto.
Qed.
End History.

(** * masking keeps the partition: group metadata rebuilt by the masked genotyping protocols *)
Definition filter_mask {A} (m : list bool) (l : list A) : list A := map snd (filter fst (combine m l)).
Lemma filter_mask_app {A} m0 m1 (l0 l1 : list A) : length m0 = length l0 ->
  filter_mask (m0 ++ m1) (l0 ++ l1) = filter_mask m0 l0 ++ filter_mask m1 l1.
Proof.
  unfold filter_mask. revert l0; induction m0 as [|b m0 IH]; intros [|x l0] H; cbn in H; try lia; [reflexivity|].
  cbn. destruct b; cbn; rewrite IH by lia; reflexivity.
Qed.
Definition count_true (m : list bool) : nat := length (filter (fun b => b) m).
Lemma filter_mask_repeat {A} (x : A) m : filter_mask m (repeat x (length m)) = repeat x (count_true m).
Proof. unfold filter_mask, count_true. induction m as [|b m IH]; cbn; [reflexivity|]. destruct b; cbn; now rewrite IH. Qed.

Lemma mask_positions_off m : forall off, map fst (filter snd (combine (seq off (length m)) m)) = map (fun p => (off + p)%nat) (mask_positions m).
Proof.
  unfold mask_positions. induction m as [|b m IH]; intros off; [reflexivity|].
  destruct b; cbn [length seq combine filter snd map fst]; rewrite (IH (S off)), (IH 1%nat);
    set (M := map fst (filter snd (combine (seq 0 (length m)) m))).
  - f_equal; [lia|]. rewrite map_map. apply map_ext. intros; lia.
  - rewrite map_map. apply map_ext. intros; lia.
Qed.
Lemma mask_positions_cons b m : mask_positions (b :: m) = (if b then [0%nat] else []) ++ map S (mask_positions m).
Proof.
  unfold mask_positions at 1. cbn [length seq combine filter]. destruct b; cbn [snd filter map fst app].
  - f_equal. rewrite (mask_positions_off m 1). reflexivity.
  - rewrite (mask_positions_off m 1). reflexivity.
Qed.
Lemma mask_positions_app m0 m1 : mask_positions (m0 ++ m1) = mask_positions m0 ++ map (fun p => (length m0 + p)%nat) (mask_positions m1).
Proof.
  induction m0 as [|b m0 IH]; [cbn; now rewrite map_id|].
  change ((b :: m0) ++ m1) with (b :: (m0 ++ m1)). rewrite !mask_positions_cons, IH, map_app, map_map, app_assoc. reflexivity.
Qed.
Lemma mask_positions_lt m : Forall (fun p => (p < length m)%nat) (mask_positions m).
Proof.
  unfold mask_positions. apply Forall_forall. intros p H. apply in_map_iff in H as ([q b] & <- & H). apply filter_In in H as [H _].
  apply in_combine_l in H. apply in_seq in H. cbn. lia.
Qed.
Lemma mask_positions_count m : length (mask_positions m) = count_true m.
Proof. induction m as [|b m IH]; [reflexivity|]. rewrite mask_positions_cons, app_length, map_length, IH. unfold count_true. destruct b; reflexivity. Qed.
Lemma pick_mask_positions {A} m (l : list A) : length m = length l -> pick (mask_positions m) l = filter_mask m l.
Proof.
  revert l; induction m as [|b m IH]; intros [|x l] H; cbn in H; try lia; [reflexivity|].
  rewrite mask_positions_cons, pick_app. unfold filter_mask. cbn [combine filter].
  assert (E : pick (map S (mask_positions m)) (x :: l) = pick (mask_positions m) l).
  { unfold pick. rewrite flat_map_concat_map, map_map, <- flat_map_concat_map. reflexivity. }
  rewrite E, IH by lia. destruct b; reflexivity.
Qed.

(** counting kept positions inside a window *)
Definition in_win (a b : Z) (p : nat) : bool := (a <=? Z.of_nat p) && (Z.of_nat p <? b).
Lemma count_win_all off n (ps : list nat) : Forall (fun p => (off <= p < off + n)%nat) ps ->
  count_if (in_win (Z.of_nat off) (Z.of_nat off + Z.of_nat n)) ps = Z.of_nat (length ps).
Proof.
  unfold count_if. intros H. f_equal. f_equal. induction H as [|p ps Hp _ IH]; [reflexivity|]. cbn.
  unfold in_win at 1. replace (Z.of_nat off <=? Z.of_nat p) with true by (symmetry; apply Z.leb_le; lia).
  replace (Z.of_nat p <? Z.of_nat off + Z.of_nat n) with true by (symmetry; apply Z.ltb_lt; lia). cbn. now rewrite IH.
Qed.
Lemma count_win_none a b (ps : list nat) : Forall (fun p => Z.of_nat p < a \/ b <= Z.of_nat p) ps -> count_if (in_win a b) ps = 0.
Proof.
  unfold count_if. intros H. replace (filter (in_win a b) ps) with (@nil nat); [reflexivity|]. symmetry.
  induction H as [|p ps Hp _ IH]; [reflexivity|]. cbn. unfold in_win at 1.
  destruct (a <=? Z.of_nat p) eqn:E1; destruct (Z.of_nat p <? b) eqn:E2; cbn; try exact IH.
  apply Z.leb_le in E1. apply Z.ltb_lt in E2. lia.
Qed.
Lemma count_if_app {A} (f : A -> bool) l1 l2 : count_if f (l1 ++ l2) = count_if f l1 + count_if f l2.
Proof. unfold count_if. rewrite filter_app, app_length. lia. Qed.

(** positive part of the per-run counts *)
Definition keep_pos (names lens : list Z) : list Z * list Z :=
  (map snd (filter (fun q => 0 <? fst q) (combine lens names)), filter (fun x => 0 <? x) lens).

Lemma rle_expand_cons x n names lens : rle_expand (x :: names) (n :: lens) = repeat x (Z.to_nat n) ++ rle_expand names lens.
Proof. reflexivity. Qed.

(** core: filtering a run-length-expanded list by a mask gives the expansion of the per-run kept counts *)
Lemma masked_runs : forall names lens off m,
  length lens = length names -> Forall (fun x => 0 < x) lens -> length m = length (rle_expand names lens) ->
  let kept := map (fun p => (off + p)%nat) (mask_positions m) in
  let st := prefix_sums (Z.of_nat off) lens in
  let ln := map2 (fun a b => count_if (in_win a b) kept) st (map2 Z.add st lens) in
  filter_mask m (rle_expand names lens) = rle_expand (fst (keep_pos names ln)) (snd (keep_pos names ln)).
Proof.
  induction names as [|x names IH]; intros [|n lens] off m Hl Hp Hm; cbn in Hl; try lia.
  - cbn in Hm. destruct m; [reflexivity|discriminate].
  - inversion Hp as [|? ? Hn Hp']; subst. rewrite rle_expand_cons in *. rewrite app_length, repeat_length in Hm.
    remember (Z.to_nat n) as k eqn:Ek.
    assert (Hsplit : exists m0 m1, m = m0 ++ m1 /\ length m0 = k /\ length m1 = length (rle_expand names lens)).
    { exists (firstn k m), (skipn k m). split; [symmetry; apply firstn_skipn|]. rewrite firstn_length, skipn_length. lia. }
    destruct Hsplit as (m0 & m1 & -> & L0 & L1).
    intros kept st ln.
    rewrite filter_mask_app by (now rewrite repeat_length).
    rewrite <- L0 at 1. rewrite filter_mask_repeat.
    specialize (IH lens (off + k)%nat m1 ltac:(lia) Hp' L1). cbn zeta in IH. rewrite IH. clear IH.
    (* the kept positions split into those of the first run and the shifted rest *)
    assert (Hk : kept = map (fun p => (off + p)%nat) (mask_positions m0) ++ map (fun p => (off + k + p)%nat) (mask_positions m1)).
    { unfold kept. rewrite mask_positions_app, map_app, map_map, L0. f_equal. apply map_ext. intros; lia. }
    set (kept0 := map (fun p => (off + p)%nat) (mask_positions m0)) in *.
    set (kept1 := map (fun p => (off + k + p)%nat) (mask_positions m1)) in *.
    assert (B0 : Forall (fun p => (off <= p < off + k)%nat) kept0).
    { unfold kept0. apply Forall_forall. intros p H. apply in_map_iff in H as (q & <- & H).
      pose proof (mask_positions_lt m0) as F. rewrite Forall_forall in F. specialize (F q H). lia. }
    assert (B1 : Forall (fun p => (off + k <= p)%nat) kept1).
    { unfold kept1. apply Forall_forall. intros p H. apply in_map_iff in H as (q & <- & H). lia. }
    assert (Zk : Z.of_nat k = n) by lia.
    (* first run *)
    assert (C0 : count_if (in_win (Z.of_nat off) (Z.of_nat off + n)) kept = Z.of_nat (count_true m0)).
    { rewrite Hk, count_if_app, <- Zk, (count_win_all off k kept0 B0). unfold kept0. rewrite map_length, mask_positions_count.
      rewrite count_win_none; [lia|]. eapply Forall_impl; [|exact B1]. cbn. intros p Hp0. right. lia. }
    (* later runs: windows start at off + k *)
    unfold ln, st. cbn [prefix_sums map2]. rewrite C0.
    assert (Hrest : map2 (fun a b => count_if (in_win a b) kept) (prefix_sums (Z.of_nat off + n) lens) (map2 Z.add (prefix_sums (Z.of_nat off + n) lens) lens)
                  = map2 (fun a b => count_if (in_win a b) kept1) (prefix_sums (Z.of_nat (off + k)) lens) (map2 Z.add (prefix_sums (Z.of_nat (off + k)) lens) lens)).
    { replace (Z.of_nat (off + k)) with (Z.of_nat off + n) by lia.
      assert (G : forall lens0 a0, Z.of_nat off + n <= a0 -> Forall (fun x => 0 < x) lens0 ->
                  map2 (fun a b => count_if (in_win a b) kept) (prefix_sums a0 lens0) (map2 Z.add (prefix_sums a0 lens0) lens0)
                  = map2 (fun a b => count_if (in_win a b) kept1) (prefix_sums a0 lens0) (map2 Z.add (prefix_sums a0 lens0) lens0)).
      { induction lens0 as [|z lens0 IHl]; intros a0 Ha Hpos; [reflexivity|]. inversion Hpos; subst. cbn [prefix_sums map2]. f_equal.
        - rewrite Hk, count_if_app. rewrite (count_win_none a0 (a0 + z) kept0); [lia|].
          eapply Forall_impl; [|exact B0]. cbn. intros p Hp0. left. lia.
        - apply IHl; [lia|assumption]. }
      apply G; [lia|assumption]. }
    rewrite Hrest. unfold keep_pos. cbn [combine filter map fst snd].
    destruct (0 <? Z.of_nat (count_true m0)) eqn:E0.
    + cbn [map snd fst filter]. rewrite rle_expand_cons, Nat2Z.id. reflexivity.
    + apply Z.ltb_ge in E0. assert (count_true m0 = 0%nat) by lia. rewrite H. reflexivity.
Qed.

Lemma cumsum_spec l : cumsum l = map2 Z.add (prefix_sums 0 l) l.
Proof.
  unfold cumsum.
  assert (G : forall l a pre, snd (fold_left (fun acc x => (fst acc + x, snd acc ++ [fst acc + x])) l (a, pre)) = pre ++ map2 Z.add (prefix_sums a l) l).
  { intros l0. induction l0 as [|x t IH]; intros a pre; cbn; [now rewrite app_nil_r|]. rewrite IH, <- app_assoc. reflexivity. }
  now rewrite G.
Qed.
Lemma map2_sub_add a l : map2 Z.sub (map2 Z.add (prefix_sums a l) l) l = prefix_sums a l.
Proof. revert a; induction l as [|x t IH]; intros a; cbn; [reflexivity|]. rewrite IH. f_equal. lia. Qed.
Lemma prefix_sums_length a l : length (prefix_sums a l) = length l.
Proof. revert a; induction l as [|x t IH]; intros a; cbn; [reflexivity|]. now rewrite IH. Qed.
Lemma keep_pos_sorted names lens : StronglySorted Z.lt names -> StronglySorted Z.lt (fst (keep_pos names lens)).
Proof.
  unfold keep_pos; cbn [fst]. intros H. revert lens; induction H as [|x t HS IH Hx]; intros [|n lens]; cbn; try constructor.
  destruct (0 <? n); cbn; [|apply IH]. constructor; [apply IH|].
  apply Forall_forall. intros y Hy. apply in_map_iff in Hy as ([c z] & <- & Hy). apply filter_In in Hy as [Hy _].
  apply in_combine_r in Hy. rewrite Forall_forall in Hx. now apply Hx.
Qed.
Lemma keep_pos_length names lens : length lens = length names -> length (snd (keep_pos names lens)) = length (fst (keep_pos names lens)).
Proof.
  unfold keep_pos; cbn [fst snd]. revert lens; induction names as [|x t IH]; intros [|n lens] H; cbn in H; try lia; [reflexivity|].
  cbn [combine filter fst]. destruct (0 <? n); cbn [map length]; rewrite IH by lia; reflexivity.
Qed.
Lemma keep_pos_pos names lens : Forall (fun x => 0 < x) (snd (keep_pos names lens)).
Proof. unfold keep_pos; cbn [snd]. apply Forall_forall. intros x H. apply filter_In in H as [_ H]. now apply Z.ltb_lt. Qed.
Lemma mask_positions_all n : mask_positions (repeat true n) = seq 0 n.
Proof.
  induction n as [|n IH]; [reflexivity|]. cbn [repeat]. rewrite mask_positions_cons, IH. cbn. f_equal. now rewrite seq_shift.
Qed.

(** masking a grouped axis: the rebuilt metadata are a true partition of the kept group labels *)
Theorem mask_meta_partition (a : axst) (labs' : list (option larr)) (l : larr) nm ix sp ln (m : list bool) g :
  m_name a = Some nm -> m_stix a = Some ix -> m_spix a = Some sp -> m_len a = Some ln ->
  partition_ok (unsome l) nm ix sp ln -> length m = length l -> nth g labs' None = Some (pick (mask_positions m) l) ->
  grouped_ok (mask_meta (with_labs a labs') (mask_positions m)) g.
Proof.
  intros H1 H2 H3 H4 P Hm Hl. unfold mask_meta, with_labs; cbn [m_name m_stix m_spix m_len labs]. rewrite H1, H2, H3, H4.
  unfold grouped_ok; cbn [labs m_name m_stix m_spix m_len]. rewrite Hl.
  destruct P as [Pinc Plen Ppos Pst Psp Plab].
  set (kept := mask_positions m).
  set (ln2 := map2 (fun a0 b0 => count_if (fun p => (a0 <=? Z.of_nat p) && (Z.of_nat p <? b0)) kept) ix sp).
  assert (Hln2 : length ln2 = length nm).
  { unfold ln2. rewrite map2_length, Psp, map2_length, Pst, prefix_sums_length. lia. }
  eexists _, _, _, _. split; [reflexivity|]. split; [reflexivity|]. split; [reflexivity|]. split; [reflexivity|].
  change (map snd (filter (fun q => 0 <? fst q) (combine ln2 nm))) with (fst (keep_pos nm ln2)).
  change (filter (fun x => 0 <? x) ln2) with (snd (keep_pos nm ln2)).
  split.
  - now apply keep_pos_sorted.
  - now apply keep_pos_length.
  - apply keep_pos_pos.
  - rewrite cumsum_spec. apply map2_sub_add.
  - rewrite cumsum_spec, map2_sub_add. reflexivity.
  - unfold unsome at 1. rewrite <- pick_map. fold (unsome l). unfold kept.
    rewrite pick_mask_positions by (unfold unsome; now rewrite map_length).
    rewrite Plab.
    pose proof (masked_runs nm ln 0%nat m Plen Ppos ltac:(rewrite <- Plab; unfold unsome; now rewrite map_length)) as MR.
    cbn zeta in MR. rewrite MR. clear MR.
    assert (E : map (fun p => (0 + p)%nat) (mask_positions m) = mask_positions m) by (rewrite <- (map_id (mask_positions m)) at 2; reflexivity).
    rewrite E. change (Z.of_nat 0) with 0. rewrite <- Pst, <- Psp. reflexivity.
Qed.

Lemma mapM_id_map_some {A} (L : list A) : mapM (fun x => x) (map Some L) = Some L.
Proof. induction L as [|x t IH]; cbn; [reflexivity|]. now rewrite IH. Qed.
Lemma mapM_id_nth {A} (L : list (option (option A))) vl g : mapM (fun x => x) L = Some vl ->
  nth g vl None = match nth g L (Some None) with Some o => o | None => None end.
Proof.
  revert vl g; induction L as [|o L IH]; intros vl g H; cbn in H.
  - inversion H. destruct g; reflexivity.
  - destruct o as [o'|]; [|discriminate]. destruct (mapM (fun x => x) L) as [r|] eqn:E; [|discriminate]. inversion H; subst vl.
    destruct g; cbn; [reflexivity|]. now apply IH.
Qed.
Lemma is_grouped_ungrouped a : is_grouped (ungrouped a) = false.
Proof. reflexivity. Qed.

(** the three genotyping protocols keep the invariant "grouped => true partition" (s: a phased genotype matrix whose
    variant group labels fit the variant axis) *)
Theorem genotype_meta_inv p s s' : length (axes s) = 3%nat ->
  (forall l, nth 0 (labs (ax_of s 2)) None = Some l -> length l = nth 2 (shape s) O) ->
  meta_ok cDensePhasedGenotypeMatrix s -> op_genotype p s = OK s' -> meta_ok (result_cls p) s'.
Proof.
  intros Hax Hlen M H.
  assert (Mt : is_grouped (ax_of s 1) = false \/ grouped_ok (ax_of s 1) 1) by (apply M; [lia|reflexivity]).
  assert (Mv : is_grouped (ax_of s 2) = false \/ grouped_ok (ax_of s 2) 0) by (apply M; [lia|reflexivity]).
  (* it suffices to know the variant record of the result *)
  assert (Fin : forall c' sh t (axl : list axst) vr',
            (is_grouped vr' = false \/ grouped_ok vr' 0) ->
            (c' = cDenseGenotypeMatrix /\ axl = [ax_of s 1; vr'] \/ c' = cDensePhasedGenotypeMatrix /\ axl = [ax_of s 0; ax_of s 1; vr']) ->
            construct c' sh t axl = OK s' -> meta_ok c' s').
  { intros c' sh t axl vr' Hv Hc Hk. apply construct_ok in Hk. subst s'. intros k g Hk Hg. cbn in Hk.
    destruct Hc as [[-> ->]|[-> ->]]; cbn in Hk.
    - destruct k as [|[|k]]; try lia; cbn in Hg; inversion Hg; subst; [exact Mt|exact Hv].
    - destruct k as [|[|[|k]]]; try lia; cbn in Hg; try discriminate; inversion Hg; subst; [exact Mt|exact Hv]. }
  unfold op_genotype in H. destruct p as [|inv|inv].
  - eapply (Fin _ _ _ _ (ax_of s 2)); [exact Mv|left; split; reflexivity|exact H].
  - (* masked phased *)
    cbn [result_cls].
    set (vr := ax_of s 2) in *. set (nv := nth 2 (shape s) O) in *.
    destruct (nth 8 (labs vr) None) as [mk|] eqn:Emask.
    + set (m := map (fun o => if inv then negb (lab_true o) else lab_true o) mk) in *.
      destruct (mapM (fun x => x) _) as [vl|] eqn:Evl; [|discriminate].
      destruct (Nat.eqb (length mk) nv); [|discriminate].
      eapply Fin; [|right; split; reflexivity|exact H].
      destruct (is_grouped vr) eqn:Eg; [|now left]. right.
      destruct Mv as [Mv|Mv]; [congruence|]. unfold grouped_ok in Mv.
      destruct (nth 0 (labs vr) None) as [l|] eqn:El; [|contradiction].
      destruct Mv as (nm & ix & sp & ln & N1 & N2 & N3 & N4 & P).
      pose proof (mapM_id_nth _ vl 0%nat Evl) as Hn.
      assert (Hn0 : nth 0 (map (fun o => match o with Some l0 => if Nat.eqb (length l0) (length mk) then Some (Some (pick (mask_positions m) l0)) else None
                                                   | None => Some None end) (labs vr)) (Some None)
                    = if Nat.eqb (length l) (length mk) then Some (Some (pick (mask_positions m) l)) else None).
      { destruct (labs vr) as [|o0 rest]; cbn in El; [discriminate|]. cbn. now rewrite El. }
      rewrite Hn0 in Hn. destruct (Nat.eqb (length l) (length mk)) eqn:Elen; [|].
      * apply Nat.eqb_eq in Elen. eapply mask_meta_partition; eauto. unfold m. now rewrite map_length.
      * (* the mapM would have failed *)
        exfalso. clear -Evl El Elen. destruct (labs vr) as [|o0 rest]; cbn in El; [discriminate|]. subst o0. cbn in Evl. rewrite Elen in Evl. discriminate.
    + rewrite mapM_id_map_some in H. cbn [Nat.eqb] in H.
      eapply Fin; [|right; split; reflexivity|exact H].
      destruct (is_grouped vr) eqn:Eg; [|now left]. right.
      destruct Mv as [Mv|Mv]; [congruence|]. unfold grouped_ok in Mv.
      destruct (nth 0 (labs vr) None) as [l|] eqn:El; [|contradiction].
      destruct Mv as (nm & ix & sp & ln & N1 & N2 & N3 & N4 & P).
      pose proof (Hlen l eq_refl) as Hl. fold nv in Hl.
      rewrite <- (mask_positions_all nv). eapply mask_meta_partition; eauto.
      * now rewrite repeat_length.
      * rewrite mask_positions_all, El. f_equal. rewrite <- Hl. symmetry. apply pick_seq_all.
  - (* masked unphased *)
    cbn [result_cls].
    set (vr := ax_of s 2) in *. set (nv := nth 2 (shape s) O) in *.
    destruct (nth 8 (labs vr) None) as [mk|] eqn:Emask.
    + set (m := map (fun o => if inv then negb (lab_true o) else lab_true o) mk) in *.
      destruct (mapM (fun x => x) _) as [vl|] eqn:Evl; [|discriminate].
      destruct (Nat.eqb (length mk) nv); [|discriminate].
      eapply Fin; [|left; split; reflexivity|exact H].
      destruct (is_grouped vr) eqn:Eg; [|now left]. right.
      destruct Mv as [Mv|Mv]; [congruence|]. unfold grouped_ok in Mv.
      destruct (nth 0 (labs vr) None) as [l|] eqn:El; [|contradiction].
      destruct Mv as (nm & ix & sp & ln & N1 & N2 & N3 & N4 & P).
      pose proof (mapM_id_nth _ vl 0%nat Evl) as Hn.
      assert (Hn0 : nth 0 (map (fun o => match o with Some l0 => if Nat.eqb (length l0) (length mk) then Some (Some (pick (mask_positions m) l0)) else None
                                                   | None => Some None end) (labs vr)) (Some None)
                    = if Nat.eqb (length l) (length mk) then Some (Some (pick (mask_positions m) l)) else None).
      { destruct (labs vr) as [|o0 rest]; cbn in El; [discriminate|]. cbn. now rewrite El. }
      rewrite Hn0 in Hn. destruct (Nat.eqb (length l) (length mk)) eqn:Elen; [|].
      * apply Nat.eqb_eq in Elen. eapply mask_meta_partition; eauto. unfold m. now rewrite map_length.
      * exfalso. clear -Evl El Elen. destruct (labs vr) as [|o0 rest]; cbn in El; [discriminate|]. subst o0. cbn in Evl. rewrite Elen in Evl. discriminate.
    + rewrite mapM_id_map_some in H. cbn [Nat.eqb] in H.
      eapply Fin; [|left; split; reflexivity|exact H].
      destruct (is_grouped vr) eqn:Eg; [|now left]. right.
      destruct Mv as [Mv|Mv]; [congruence|]. unfold grouped_ok in Mv.
      destruct (nth 0 (labs vr) None) as [l|] eqn:El; [|contradiction].
      destruct Mv as (nm & ix & sp & ln & N1 & N2 & N3 & N4 & P).
      pose proof (Hlen l eq_refl) as Hl. fold nv in Hl.
      rewrite <- (mask_positions_all nv). eapply mask_meta_partition; eauto.
      * now rewrite repeat_length.
      * rewrite mask_positions_all, El. f_equal. rewrite <- Hl. symmetry. apply pick_seq_all.
Qed.

(** * concat along an axis that occupies one array axis *)
Section Concat.
Context {ent : Type}.
Variable val : list ent -> Z.
Variable lbl : nat -> nat -> ent -> lab.
Notation Rep := (Rep val lbl).

(** an operand of concat: a matrix of the same class over the same entities on the other axes, entities [us] on the
    operated one; each of its label arrays of that axis is the image of [us], or is absent *)
Record RepCat (c : cls) (k : nat) (v : operand) (ess : list (list ent)) (us : list ent) : Prop := {
  rc_shape : o_shape v = map (@length ent) (upd (taxis c k) us ess);
  rc_data : o_data v = build (upd (taxis c k) us ess) val;
  rc_k : (k < length (o_axes v))%nat;
  rc_nf : length (labs (nth k (o_axes v) ax0)) = nfields (sch c k);
  rc_labs : forall j l, nth_error (labs (nth k (o_axes v) ax0)) j = Some (Some l) -> l = map (lbl k j) us }.

Lemma fold_cat_build a ess : (a < length ess)%nat -> forall (vus : list (operand * list ent)) xs,
  Forall (fun vu => o_data (fst vu) = build (upd a (snd vu) ess) val) vus ->
  fold_left (fun t v => t_cat a t (o_data v)) (map fst vus) (build (upd a xs ess) val)
  = build (upd a (xs ++ concat (map snd vus)) ess) val.
Proof.
  intros Ha. induction vus as [|[v us] vus IH]; intros xs H; cbn.
  - now rewrite app_nil_r.
  - inversion H as [|? ? Hv Hr]; subst. cbn in Hv. rewrite Hv.
    replace (build (upd a us ess) val) with (build (upd a us (upd a xs ess)) val) by now rewrite upd_upd.
    rewrite t_cat_build by now rewrite upd_length. rewrite nth_upd_eq by assumption. rewrite upd_upd.
    rewrite (IH (xs ++ us) Hr), <- app_assoc. reflexivity.
Qed.

Definition pair_ok (fill : bool) (g : ent -> lab) (p : option larr * list ent) : Prop :=
  match fst p with Some l => l = map g (snd p) | None => fill = true -> forall e, In e (snd p) -> g e = None end.
Lemma repeat_none_map (g : ent -> lab) es : (forall e, In e es -> g e = None) -> repeat None (length es) = map g es.
Proof. induction es as [|e es IH]; intros H; cbn; [reflexivity|]. rewrite (H e (or_introl eq_refl)), IH; [reflexivity|]. intros e' He'. apply H. now right. Qed.

Lemma cat_field_rep fill (g : ent -> lab) (pairs : list (option larr * list ent)) r :
  Forall (pair_ok fill g) pairs ->
  cat_field fill (map fst pairs) (map (fun p => length (snd p)) pairs) = OK r ->
  match r with
  | Some l => l = map g (concat (map snd pairs))
  | None => Forall (fun p => fst p = None) pairs
  end.
Proof.
  intros HP. unfold cat_field.
  destruct (forallb _ (map fst pairs)) eqn:Eall.
  - intros [= <-]. rewrite forallb_forall in Eall. apply Forall_forall. intros p Hp.
    specialize (Eall (fst p) (in_map fst _ _ Hp)). destruct (fst p); [discriminate|reflexivity].
  - destruct fill.
    + intros [= <-]. clear Eall. induction HP as [|[a es] ps Hp _ IH]; cbn; [reflexivity|].
      rewrite map_app. f_equal; [|exact IH]. unfold pair_ok in Hp; cbn in Hp. destruct a as [l|]; [exact Hp|].
      apply repeat_none_map. now apply Hp.
    + destruct (existsb _ (map fst pairs)) eqn:Eex; [discriminate|]. intros [= <-]. clear Eall.
      induction HP as [|[a es] ps Hp _ IH]; cbn; [reflexivity|]. cbn in Eex. apply orb_false_iff in Eex as [E1 E2].
      rewrite map_app. f_equal; [|now apply IH]. unfold pair_ok in Hp; cbn in Hp. destruct a as [l|]; [exact Hp|discriminate].
Qed.

Lemma cat_fields_spec (glab : nat -> ent -> lab) (ents : list (list ent)) : forall fills j0 (mats : list (list (option larr))) l',
  length mats = length ents ->
  (forall i, (i < length fills)%nat ->
     Forall (pair_ok (nth i fills false) (glab (j0 + i)%nat)) (combine (map (fun m => nth (j0 + i) m None) mats) ents)) ->
  cat_fields fills j0 mats (map (@length ent) ents) = OK l' ->
  length l' = length fills /\
  (forall i l, nth_error l' i = Some (Some l) -> l = map (glab (j0 + i)%nat) (concat ents)) /\
  (forall i, (i < length fills)%nat -> nth i l' None = None -> Forall (fun m => nth (j0 + i) m None = None) mats).
Proof.
  induction fills as [|f fs IH]; intros j0 mats l' Hlen HV H; cbn in H.
  - inversion H. split; [reflexivity|]. split; [intros [|i] l E; discriminate|intros i Hi; cbn in Hi; lia].
  - destruct (cat_field f _ _) as [x|] eqn:Ef; [|discriminate]. cbn in H.
    destruct (cat_fields fs (S j0) mats _) as [r|] eqn:Er; [|discriminate]. cbn in H. inversion H; subst l'.
    assert (HVS : forall i, (i < length fs)%nat ->
       Forall (pair_ok (nth i fs false) (glab (S j0 + i)%nat)) (combine (map (fun m => nth (S j0 + i) m None) mats) ents)).
    { intros i Hi. specialize (HV (S i) ltac:(cbn; lia)). cbn [nth] in HV. replace (j0 + S i)%nat with (S j0 + i)%nat in HV by lia. exact HV. }
    destruct (IH (S j0) mats r Hlen HVS Er) as (I1 & I2 & I3).
    pose proof (HV 0%nat ltac:(cbn; lia)) as HV0. cbn [nth] in HV0. rewrite Nat.add_0_r in HV0.
    set (arrs := map (fun m => nth j0 m None) mats) in *.
    assert (Hlen2 : length arrs = length ents) by (unfold arrs; now rewrite map_length).
    assert (E1 : map fst (combine arrs ents) = arrs).
    { clear -Hlen2. revert ents Hlen2; induction arrs as [|a t IHa]; intros [|e es] H; cbn in *; try lia; [reflexivity|]. f_equal. apply IHa. lia. }
    assert (E2 : map (fun p => length (snd p)) (combine arrs ents) = map (@length ent) ents).
    { clear -Hlen2. revert ents Hlen2; induction arrs as [|a t IHa]; intros [|e es] H; cbn in *; try lia; [reflexivity|]. f_equal. apply IHa. lia. }
    assert (E3 : map snd (combine arrs ents) = ents).
    { clear -Hlen2. revert ents Hlen2; induction arrs as [|a t IHa]; intros [|e es] H; cbn in *; try lia; [reflexivity|]. f_equal. apply IHa. lia. }
    pose proof (cat_field_rep f (glab j0) (combine arrs ents) x HV0) as CF. rewrite E1, E2 in CF. specialize (CF Ef). rewrite E3 in CF.
    split; [cbn; now rewrite I1|]. split.
    + intros [|i] l E; cbn in E.
      * inversion E; subst x. rewrite Nat.add_0_r. exact CF.
      * replace (j0 + S i)%nat with (S j0 + i)%nat by lia. now apply I2.
    + intros [|i] Hi E; cbn in E, Hi.
      * subst x. rewrite Nat.add_0_r. apply Forall_forall. intros m Hm.
        rewrite Forall_forall in CF.
        assert (Hin : In (nth j0 m None) arrs) by (unfold arrs; exact (in_map (fun m0 => nth j0 m0 None) mats m Hm)).
        (* find the pair of m in the combination *)
        apply In_nth with (d := None) in Hin as (q & Hq & Eq). rewrite Hlen2 in Hq.
        assert (Hp : In (nth q arrs None, nth q ents []) (combine arrs ents)).
        { rewrite <- (combine_nth arrs ents q None []) by exact Hlen2. apply nth_In. rewrite combine_length. lia. }
        specialize (CF _ Hp). cbn in CF. congruence.
      * replace (j0 + S i)%nat with (S j0 + i)%nat by lia. apply I3; [lia|assumption].
Qed.

Lemma upd_nth_same {A} a (l : list A) d : (a < length l)%nat -> upd a (nth a l d) l = l.
Proof.
  revert l; induction a as [|a IH]; intros [|x l] H; cbn in H; try lia; [reflexivity|].
  change (x :: upd a (nth a l d) l = x :: l). f_equal. apply IH. lia.
Qed.
Lemma fold_add_lengths (ls : list (list ent)) n : fold_left Nat.add (map (@length ent) ls) n = (n + length (concat ls))%nat.
Proof. revert n; induction ls as [|l ls IH]; intros n; cbn; [lia|]. rewrite IH, app_length. lia. Qed.
Lemma cat_fill_length kd : length (cat_fill (schema_of kd)) = nfields (schema_of kd).
Proof. destruct kd; reflexivity. Qed.

Theorem concat_refines c s k (vus : list (operand * list ent)) ess a s' :
  wf_cls c -> Rep c s ess -> (k < length (axs c))%nat -> taxes c k = [a] ->
  Forall (fun vu => RepCat c k (fst vu) ess (snd vu)) vus ->
  (* a name array that some of the matrices lack is filled with None: their entities carry no name *)
  (forall j, nth j (cat_fill (sch c k)) false = true ->
     (nth j (labs (ax_of s k)) None = None -> forall e, In e (nth a ess []) -> lbl k j e = None) /\
     Forall (fun vu => nth j (labs (nth k (o_axes (fst vu)) ax0)) None = None -> forall e, In e (snd vu) -> lbl k j e = None) vus) ->
  op_concat c s k (map fst vus) = OK s' ->
  Rep c s' (upd a (nth a ess [] ++ concat (map snd vus)) ess) /\ (drop_other c = false -> no_loss s s').
Proof.
  intros W R Hk Ht HV HF H. set (es := nth a ess []) in *.
  pose proof (taxis_of_taxes c k a [] Ht) as Hta.
  assert (Ha : (a < length ess)%nat) by (rewrite (r_nd _ _ _ _ _ R); apply (wf_lt c W k); rewrite Ht; now left).
  unfold op_concat in H. rewrite Hta in H. destruct (forallb _ _); [|discriminate].
  set (mats := labs (ax_of s k) :: map (fun v => labs (nth k (o_axes v) (ax_of s k))) (map fst vus)) in *.
  set (ents := es :: map snd vus).
  assert (Elens : nth a (shape s) O :: map (fun v => nth a (o_shape v) O) (map fst vus) = map (@length ent) ents).
  { unfold ents. cbn [map]. f_equal.
    - rewrite (r_shape _ _ _ _ _ R). change O with (length (@nil ent)). now rewrite map_nth.
    - rewrite !map_map. apply map_ext_in. intros [v us] Hin. rewrite Forall_forall in HV. specialize (HV _ Hin). cbn in *.
      rewrite (rc_shape _ _ _ _ _ HV), Hta. change O with (length (@nil ent)). now rewrite map_nth, nth_upd_eq. }
  rewrite Elens in H.
  destruct (cat_fields _ _ mats _) as [l|] eqn:Ec; [|discriminate]. unfold bind in H.
  assert (Hmats : mats = labs (ax_of s k) :: map (fun vu => labs (nth k (o_axes (fst vu)) ax0)) vus).
  { unfold mats. f_equal. rewrite map_map. apply map_ext_in. intros [v us] Hin. rewrite Forall_forall in HV. specialize (HV _ Hin). cbn in *.
    f_equal. apply nth_indep. apply (rc_k _ _ _ _ _ HV). }
  assert (Hlm : length mats = length ents) by (unfold mats, ents; cbn; now rewrite !map_length).
  assert (HVal : forall i, (i < length (cat_fill (sch c k)))%nat ->
     Forall (pair_ok (nth i (cat_fill (sch c k)) false) (lbl k (0 + i)%nat)) (combine (map (fun m => nth (0 + i) m None) mats) ents)).
  { intros i Hi. cbn [Nat.add]. rewrite Hmats. unfold ents. cbn [map combine]. constructor.
    - unfold pair_ok; cbn. destruct (nth i (labs (ax_of s k)) None) as [l0|] eqn:E0.
      + unfold es. rewrite <- Hta. apply (r_labs _ _ _ _ _ R k i l0 Hk). rewrite <- E0. apply nth_error_nth'.
        destruct (Nat.lt_ge_cases i (length (labs (ax_of s k)))) as [?|Hge]; [assumption|]. rewrite nth_overflow in E0 by assumption. discriminate.
      + intros Hf. exact (proj1 (HF i Hf) E0).
    - rewrite map_map. clear -HV HF Hta.
      assert (G : forall vus0, Forall (fun vu => RepCat c k (fst vu) ess (snd vu)) vus0 ->
                  (nth i (cat_fill (sch c k)) false = true ->
                   Forall (fun vu => nth i (labs (nth k (o_axes (fst vu)) ax0)) None = None -> forall e, In e (snd vu) -> lbl k i e = None) vus0) ->
                  Forall (pair_ok (nth i (cat_fill (sch c k)) false) (lbl k i))
                    (combine (map (fun x => nth i (labs (nth k (o_axes (fst x)) ax0)) None) vus0) (map snd vus0))).
      { induction vus0 as [|[v us] r IHr]; intros HV0 HF0; cbn; constructor.
        - inversion HV0 as [|? ? Hv _]; subst. cbn in Hv. unfold pair_ok; cbn.
          destruct (nth i (labs (nth k (o_axes v) ax0)) None) as [l0|] eqn:E0.
          + apply (rc_labs _ _ _ _ _ Hv i l0). rewrite <- E0. apply nth_error_nth'.
            destruct (Nat.lt_ge_cases i (length (labs (nth k (o_axes v) ax0)))) as [?|Hge]; [assumption|]. rewrite nth_overflow in E0 by assumption. discriminate.
          + intros Hf. specialize (HF0 Hf). inversion HF0; subst. cbn in *. auto.
        - inversion HV0; subst. apply IHr; [assumption|]. intros Hf. specialize (HF0 Hf). now inversion HF0. }
      apply G; [exact HV|]. intros Hf. exact (proj2 (HF i Hf)). }
  destruct (cat_fields_spec (lbl k) ents (cat_fill (sch c k)) 0%nat mats l Hlm HVal Ec) as (C1 & C2 & C3).
  assert (Ecc : concat ents = es ++ concat (map snd vus)) by reflexivity.
  (* data and shape *)
  assert (Edata : fold_left (fun t v => t_cat a t (o_data v)) (map fst vus) (data s) = build (upd a (es ++ concat (map snd vus)) ess) val).
  { rewrite (r_data _ _ _ _ _ R). rewrite <- (upd_nth_same a ess [] Ha) at 1. fold es. apply fold_cat_build; [assumption|].
    eapply Forall_impl; [|exact HV]. intros [v us] Hv. cbn in *. now rewrite (rc_data _ _ _ _ _ Hv), Hta. }
  rewrite Edata in H.
  assert (Eshape : upd a (fold_left Nat.add (map (@length ent) ents) O) (shape s) = map (@length ent) (upd a (es ++ concat (map snd vus)) ess)).
  { rewrite fold_add_lengths, Ecc, (r_shape _ _ _ _ _ R), map_upd. reflexivity. }
  rewrite Eshape in H.
  replace (upd a (es ++ concat (map snd vus)) ess) with (upd_all (taxes c k) (es ++ concat (map snd vus)) ess) in * by (rewrite Ht; reflexivity).
  refine (finish_new val lbl c s k ess (es ++ concat (map snd vus)) _ _ l s' W R Hk eq_refl eq_refl _ _ _ H).
  - transitivity (length (cat_fill (sch c k))); [exact C1|]. rewrite (r_nf _ _ _ _ _ R k Hk). apply cat_fill_length.
  - intros j l0 E. specialize (C2 j l0 E). now rewrite Ecc in C2.
  - intros j l0 E.
    assert (Hj : (j < length (cat_fill (sch c k)))%nat).
    { unfold sch. rewrite cat_fill_length. fold (sch c k). rewrite <- (r_nf _ _ _ _ _ R k Hk). apply nth_error_Some. congruence. }
    destruct (nth j l None) as [l2|] eqn:E2.
    + exists l2. transitivity (Some (nth j l None)); [apply nth_error_nth'|now rewrite E2].
      assert (Hll : length l = length (cat_fill (sch c k))) by exact C1. now rewrite Hll.
    + specialize (C3 j Hj E2). inversion C3 as [|? ? Hself _]; subst. cbn in Hself. rewrite (nth_error_nth_eq _ _ _ None E) in Hself. discriminate.
Qed.
End Concat.

(** * adjoin / append of the square classes: block-diagonal layout *)
Section Square.
Context {ent : Type}.
Variable eq_dec : forall x y : ent, {x = y} + {x <> y}.
Variable val : list ent -> Z.
Variable lbl : nat -> nat -> ent -> lab.
Definition inb (x : ent) (l : list ent) : bool := if in_dec eq_dec x l then true else false.
(** cells after adjoining entities [us] to a square block over [ts]: pairs inside one block keep their value, pairs
    across the two blocks hold the fill value *)
Definition val_bd (ts us : list ent) (l : list ent) : Z :=
  match l with
  | r :: c :: _ => if (inb r ts && inb c ts) || (inb r us && inb c us) then val l else FILLZ
  | _ => val l
  end.
Lemma inb_true x l : In x l -> inb x l = true.
Proof. unfold inb. intros H. destruct (in_dec eq_dec x l); [reflexivity|contradiction]. Qed.
Lemma inb_false x l : ~ In x l -> inb x l = false.
Proof. unfold inb. intros H. destruct (in_dec eq_dec x l); [contradiction|reflexivity]. Qed.

Lemma build_ext (ess : list (list ent)) (v1 v2 : list ent -> Z) :
  (forall l, Forall2 (fun x es => In x es) l ess -> v1 l = v2 l) -> build ess v1 = build ess v2.
Proof.
  revert v1 v2; induction ess as [|es r IH]; intros v1 v2 H; cbn.
  - f_equal. apply H. constructor.
  - f_equal. apply map_ext_in. intros e He. apply IH. intros l Hl. apply H. constructor; assumption.
Qed.
Lemma full_build (rest : list (list ent)) (z : Z) : full (map (@length ent) rest) z = build rest (fun _ => z).
Proof.
  induction rest as [|es r IH]; cbn; [reflexivity|]. f_equal. rewrite IH.
  induction es as [|e es IHe]; cbn; [reflexivity|]. now rewrite IHe.
Qed.

Lemma blockdiag_build ts us rest : (forall x, In x ts -> ~ In x us) ->
  blockdiag (map (@length ent) (ts :: ts :: rest)) (build (ts :: ts :: rest) val)
            (map (@length ent) (us :: us :: rest)) (build (us :: us :: rest) val)
  = (build ((ts ++ us) :: (ts ++ us) :: rest) (val_bd ts us), map (@length ent) ((ts ++ us) :: (ts ++ us) :: rest)).
Proof.
  intros Hdis. unfold blockdiag. cbn [map]. f_equal; [|now rewrite !app_length].
  cbn [build kids]. f_equal. rewrite map_app. f_equal.
  - (* rows of the old block *)
    rewrite map_map. apply map_ext_in. intros r Hr. cbn [kids]. f_equal. rewrite map_app. f_equal.
    + apply map_ext_in. intros c Hc. apply build_ext. intros l _. unfold val_bd. now rewrite (inb_true r ts Hr), (inb_true c ts Hc).
    + rewrite full_build. clear -Hr Hdis.
      assert (G : forall cs, (forall c, In c cs -> In c us) -> repeat (build rest (fun _ => FILLZ)) (length cs)
                  = map (fun e => build rest (fun l => val_bd ts us (r :: e :: l))) cs).
      { induction cs as [|c cs IH]; intros Hcs; cbn; [reflexivity|]. f_equal; [|apply IH; intros; apply Hcs; now right].
        apply build_ext. intros l _. unfold val_bd.
        assert (Hc : In c us) by (apply Hcs; now left).
        rewrite (inb_false r us (Hdis r Hr)), andb_false_l, orb_false_r.
        assert (~ In c ts) by (intros Hx; exact (Hdis c Hx Hc)). now rewrite (inb_false c ts H), andb_false_r. }
      apply G. auto.
  - (* rows of the new block *)
    rewrite map_map. apply map_ext_in. intros r Hr. cbn [kids]. f_equal. rewrite map_app. f_equal.
    + rewrite full_build.
      assert (Hrts : ~ In r ts) by (intros Hx; exact (Hdis r Hx Hr)).
      assert (G : forall cs, (forall c, In c cs -> In c ts) -> repeat (build rest (fun _ => FILLZ)) (length cs)
                  = map (fun e => build rest (fun l => val_bd ts us (r :: e :: l))) cs).
      { induction cs as [|c cs IH]; intros Hcs; cbn; [reflexivity|]. f_equal; [|apply IH; intros; apply Hcs; now right].
        apply build_ext. intros l _. unfold val_bd.
        assert (Hc : In c ts) by (apply Hcs; now left).
        rewrite (inb_false r ts Hrts), andb_false_l, orb_false_l. now rewrite (inb_false c us (Hdis c Hc)), andb_false_r. }
      apply G. auto.
    + apply map_ext_in. intros c Hc. apply build_ext. intros l _. unfold val_bd. now rewrite (inb_true r us Hr), (inb_true c us Hc), orb_true_r.
Qed.

Lemma Rep_swap_val c s ess (val2 : list ent -> Z) : Rep val lbl c s ess ->
  Rep val2 lbl c {| shape := shape s; data := build ess val2; axes := axes s |} ess.
Proof. intros [R1 R2 R3 R4 R5 R6 R7]. split; try assumption; reflexivity. Qed.

(** the operand of a square adjoin/append: a square block over new entities [us] (disjoint from the matrix' own),
    with the effective label arrays as for the one-axis operations *)
Theorem adjoin_square_refines c s k v ts us rest s' : wf_cls c -> (k < length (axs c))%nat -> taxes c k = [0; 1]%nat ->
  Rep val lbl c s (ts :: ts :: rest) -> (forall x, In x ts -> ~ In x us) ->
  o_shape v = map (@length ent) (us :: us :: rest) -> o_data v = build (us :: us :: rest) val ->
  (forall j, (j < length (labs (ax_of s k)))%nat ->
     match nth j (labs (ax_of s k)) None, eff_lab c k v j with
     | Some _, Some g => g = map (lbl k j) us
     | Some _, None => nth j (pol_adj (sch c k)) PReq = PFill /\ forall u, In u us -> lbl k j u = None
     | None, g => g = None end) ->
  op_adjoin c s k v = OK s' ->
  Rep (val_bd ts us) lbl c s' ((ts ++ us) :: (ts ++ us) :: rest) /\ (drop_other c = false -> no_loss s s').
Proof.
  intros W Hk Ht R Hdis Hsh Hdat HL H.
  pose proof (taxis_of_taxes c k 0%nat [1%nat] Ht) as Hta.
  unfold op_adjoin, pre_binary in H. destruct (shapes_compat _ _ _); [|discriminate].
  destruct (resolve_all _ _ c k v O _) as [gs|] eqn:Er; [|discriminate]. cbn [bind] in H.
  destruct (join_labs _ _ gs) as [l|] eqn:Ej; [|discriminate].
  unfold cat_data in H. assert (Esq : is_square c k = true) by (unfold is_square; now rewrite Ht). rewrite Esq in H.
  rewrite (r_shape _ _ _ _ _ R), (r_data _ _ _ _ _ R), Hsh, Hdat, (blockdiag_build ts us rest Hdis) in H.
  assert (Hlen : length (pol_adj (sch c k)) = length (labs (ax_of s k))).
  { rewrite (r_nf _ _ _ _ _ R k Hk). apply pol_lengths. }
  assert (Hk0 : nth (taxis c k) (o_shape v) O = length us) by (rewrite Hta, Hsh; reflexivity).
  assert (HV : forall i, (i < length (labs (ax_of s k)))%nat ->
     match nth i (labs (ax_of s k)) None, eff_lab c k v i with
     | Some l0, Some g => l0 = map (lbl k i) ts /\ g = map (lbl k i) us
     | Some l0, None => l0 = map (lbl k i) ts /\ nth i (pol_adj (sch c k)) PReq = PFill /\ forall u, In u us -> lbl k i u = None
     | None, g => g = None end).
  { intros i Hi. specialize (HL i Hi). destruct (nth i (labs (ax_of s k)) None) as [l0|] eqn:E; [|exact HL].
    assert (El : l0 = map (lbl k i) ts).
    { pose proof (r_labs _ _ _ _ _ R k i l0 Hk) as RL. rewrite Hta in RL. apply RL. rewrite <- E. now apply nth_error_nth'. }
    destruct (eff_lab c k v i); [split; assumption|]. destruct HL; auto. }
  destruct (join_labs_rep lbl (fun gl l0 => Some (l0 ++ gl)) (fun x y => x ++ y) c k v _ ts us Hk0
              ltac:(intros g l0 r [= <-] j -> ->; now rewrite map_app)
              _ _ gs l false Hlen Er HV Ej) as (L1 & L2 & L3).
  set (s0 := {| shape := shape s; data := build (ts :: ts :: rest) (val_bd ts us); axes := axes s |}).
  pose proof (Rep_swap_val c s _ (val_bd ts us) R) as R0. fold s0 in R0.
  assert (E2 : (ts ++ us) :: (ts ++ us) :: rest = upd_all (taxes c k) (ts ++ us) (ts :: ts :: rest)) by (rewrite Ht; reflexivity).
  rewrite E2 in *.
  destruct (finish_new (val_bd ts us) lbl c s0 k (ts :: ts :: rest) (ts ++ us) _ _ l s' W R0 Hk eq_refl eq_refl L1 L2 L3 H) as [HR HN].
  split; [exact HR|]. intros Hd. exact (HN Hd).
Qed.
Theorem append_square_refines c s k v ts us rest s' : wf_cls c -> (k < length (axs c))%nat -> taxes c k = [0; 1]%nat ->
  Rep val lbl c s (ts :: ts :: rest) -> (forall x, In x ts -> ~ In x us) ->
  o_shape v = map (@length ent) (us :: us :: rest) -> o_data v = build (us :: us :: rest) val ->
  (forall j, (j < length (labs (ax_of s k)))%nat ->
     match nth j (labs (ax_of s k)) None, eff_lab c k v j with
     | Some _, Some g => g = map (lbl k j) us
     | Some _, None => nth j (pol_adj (sch c k)) PReq = PFill /\ forall u, In u us -> lbl k j u = None
     | None, g => g = None end) ->
  op_append c s k v = OK s' ->
  Rep (val_bd ts us) lbl c s' ((ts ++ us) :: (ts ++ us) :: rest) /\ no_loss s s'.
Proof.
  intros W Hk Ht R Hdis Hsh Hdat HL H.
  pose proof (taxis_of_taxes c k 0%nat [1%nat] Ht) as Hta.
  unfold op_append, pre_binary in H. destruct (shapes_compat _ _ _); [|discriminate].
  destruct (resolve_all _ _ c k v O _) as [gs|] eqn:Er; [|discriminate]. cbn [bind] in H.
  destruct (join_labs_inplace _ _ gs) as [l|] eqn:Ej; [|discriminate].
  unfold cat_data in H. assert (Esq : is_square c k = true) by (unfold is_square; now rewrite Ht). rewrite Esq in H.
  rewrite (r_shape _ _ _ _ _ R), (r_data _ _ _ _ _ R), Hsh, Hdat, (blockdiag_build ts us rest Hdis) in H.
  assert (Hlen : length (pol_adj (sch c k)) = length (labs (ax_of s k))).
  { rewrite (r_nf _ _ _ _ _ R k Hk). apply pol_lengths. }
  assert (Hk0 : nth (taxis c k) (o_shape v) O = length us) by (rewrite Hta, Hsh; reflexivity).
  assert (HV : forall i, (i < length (labs (ax_of s k)))%nat ->
     match nth i (labs (ax_of s k)) None, eff_lab c k v i with
     | Some l0, Some g => l0 = map (lbl k i) ts /\ g = map (lbl k i) us
     | Some l0, None => l0 = map (lbl k i) ts /\ nth i (pol_adj (sch c k)) PReq = PFill /\ forall u, In u us -> lbl k i u = None
     | None, g => g = None end).
  { intros i Hi. specialize (HL i Hi). destruct (nth i (labs (ax_of s k)) None) as [l0|] eqn:E; [|exact HL].
    assert (El : l0 = map (lbl k i) ts).
    { pose proof (r_labs _ _ _ _ _ R k i l0 Hk) as RL. rewrite Hta in RL. apply RL. rewrite <- E. now apply nth_error_nth'. }
    destruct (eff_lab c k v i); [split; assumption|]. destruct HL; auto. }
  destruct (join_labs_rep lbl (fun gl l0 => Some (l0 ++ gl)) (fun x y => x ++ y) c k v _ ts us Hk0
              ltac:(intros g l0 r [= <-] j -> ->; now rewrite map_app)
              _ _ gs l true Hlen Er HV Ej) as (L1 & L2 & L3).
  assert (Hs' : s' = {| shape := map (@length ent) ((ts ++ us) :: (ts ++ us) :: rest);
                       data := build ((ts ++ us) :: (ts ++ us) :: rest) (val_bd ts us); axes := set_axes s k l |}) by (now inversion H).
  clear H. subst s'.
  set (s0 := {| shape := shape s; data := build (ts :: ts :: rest) (val_bd ts us); axes := axes s |}).
  pose proof (Rep_swap_val c s _ (val_bd ts us) R) as R0. fold s0 in R0.
  assert (E2 : (ts ++ us) :: (ts ++ us) :: rest = upd_all (taxes c k) (ts ++ us) (ts :: ts :: rest)) by (rewrite Ht; reflexivity).
  rewrite E2 in *.
  exact (finish_set (val_bd ts us) lbl c s0 k (ts :: ts :: rest) (ts ++ us) _ _ l W R0 Hk eq_refl eq_refl L1 L2 L3).
Qed.
End Square.
