(** C15 — further laws of the model (phase 2, section C):
    - reordering / selecting the STORED rows without re-standardising (reorder_taxa, sort_taxa, group_taxa, copies) keeps the raw
      values: unscale commutes with every taxa selection when location and scale are kept;
    - the stored (standardised) column does not depend on the unit or the origin of the raw values (affine covariance);
    - a history is compositional: what follows depends only on the state reached, never on how it was reached. *)
From Coq Require Import Qfield Setoid Morphisms.
From PV Require Import Lib.Common Model.C15_Bv Proofs.C15_Bv.
Local Open Scope Q_scope.
Local Arguments Qred : simpl never.
Local Arguments Qplus : simpl never.
Local Arguments Qminus : simpl never.
Local Arguments Qmult : simpl never.
Local Arguments Qinv : simpl never.
Local Arguments Qdiv : simpl never.
Local Arguments Qopp : simpl never.
Local Arguments Qeq : simpl never.

Lemma take_nat_map {A B} (g : A -> B) xs ks : take_nat (map g xs) ks = omap (map g) (take_nat xs ks).
Proof.
  induction ks as [|k t IH]; cbn; [reflexivity|].
  rewrite nth_error_map, IH. destruct (nth_error xs k); cbn; [|reflexivity]. destruct (take_nat xs t); reflexivity.
Qed.
Lemma take_l_map {A B} (g : A -> B) xs ix : take_l (map g xs) ix = omap (map g) (take_l xs ix).
Proof. unfold take_l. rewrite map_length. destruct (norm_all (length xs) ix); [apply take_nat_map | reflexivity]. Qed.

(** selecting stored rows (any index list: a permutation for reorder/sort/group, the identity for a copy) and keeping location
    and scale = selecting the unscaled rows: no taxon's raw value changes although nothing is re-standardised *)
Lemma unscale_commutes_take (c : tcol) (ix : list Z) :
  take_l (col_unscale c) ix = omap (fun d => col_unscale (mkcol d (cloc c) (csc c))) (take_l (cdat c) ix).
Proof. unfold col_unscale at 1. rewrite take_l_map. destruct (take_l (cdat c) ix); reflexivity. Qed.
Lemma unscale_commutes_delete (c : tcol) (ob : idx) :
  delete_any (col_unscale c) ob = omap (fun d => col_unscale (mkcol d (cloc c) (csc c))) (delete_any (cdat c) ob).
Proof. unfold col_unscale at 1. rewrite delete_any_map. destruct (delete_any (cdat c) ob); reflexivity. Qed.

(** the standardised values are those of the raw values in any other unit and origin (x -> a x + b, a <> 0), when location and
    scale are transformed accordingly (l -> a l + b, s -> a s) *)
Lemma standardise_affine (raw : list oq) (l s a b : Q) : ~ s == 0 -> ~ a == 0 ->
  coleq (cdat (col_from_numpy (map (omapf (fun x => a * x + b)) raw) (Some (a * l + b)) (Some (a * s))))
        (cdat (col_from_numpy raw (Some l) (Some s))).
Proof.
  intros Hs Ha. cbn [cdat col_from_numpy]. rewrite map_map.
  induction raw as [|[x|] t IH]; cbn [map]; constructor; auto.
  - unfold omapf, omul, osub, oinv, olift2, oeq. rewrite !Qred_correct. field. split; assumption.
  - exact I.
Qed.
(** ... and unscaling them with the transformed parameters gives the transformed raw values *)
Lemma unscale_affine (c : tcol) (l s a b : Q) : cloc c = Some l -> csc c = Some s ->
  coleq (col_unscale (mkcol (cdat c) (Some (a * l + b)) (Some (a * s)))) (map (omapf (fun x => a * x + b)) (col_unscale c)).
Proof.
  intros Hl Hs. unfold col_unscale. cbn [cdat cloc csc]. rewrite Hl, Hs, map_map.
  induction (cdat c) as [|[m|] t IH]; cbn [map]; constructor; auto.
  - unfold omapf, oadd, omul, olift2, oeq. rewrite !Qred_correct. ring.
  - exact I.
Qed.

(** histories compose: the matrix (and the raw-level specification) after ops1 ++ ops2 is what ops2 makes of the state ops1 reached *)
Lemma run_app (ops1 ops2 : list (op * list prm)) : forall b, run b (ops1 ++ ops2) = run (run b ops1) ops2.
Proof. induction ops1 as [|[o p] t IH]; intros b; cbn; [reflexivity | apply IH]. Qed.
Lemma run_ok_app (ops1 ops2 : list (op * list prm)) : forall b, run_ok b (ops1 ++ ops2) = run_ok b ops1 && run_ok (run b ops1) ops2.
Proof.
  induction ops1 as [|[o p] t IH]; intros b; cbn; [reflexivity|]. rewrite IH. now rewrite andb_assoc.
Qed.
Lemma run_spec_app (ops1 ops2 : list op) (r : rawst) : run_spec r (ops1 ++ ops2) = run_spec (run_spec r ops1) ops2.
Proof. unfold run_spec. apply fold_left_app. Qed.
