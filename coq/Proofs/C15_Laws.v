(** C15 — further laws of the model (phase 2, section C):
    - reordering / selecting the STORED rows without re-standardising (reorder_taxa, sort_taxa, group_taxa, copies) keeps the raw
      values: unscale commutes with every taxa selection when location and scale are kept;
    - the stored (standardised) column does not depend on the unit or the origin of the raw values (affine covariance);
    - a history is compositional: what follows depends only on the state reached, never on how it was reached;
    - the label keywords (taxa= / taxa_grp= explicit or omitted) of insert / adjoin / append / incorp never influence the values:
      a matrix operand contributes values.unscale() whichever keywords accompany it, and omitting a keyword is the same as
      handing over the operand's own labels. *)
From Coq Require Import Qfield Setoid Morphisms.
From PV Require Import Lib.Common Model.C15_Bv Proofs.C15_Bv.
Local Open Scope Q_scope.
Local Arguments Qred : simpl never.
Local Arguments Qplus : simpl never.
Local Arguments Qminus : simpl never.
Local Arguments Qmult : simpl never.
Local Arguments Qinv : simpl never.
Local Arguments Qdiv : simpl never.
Local Arguments Qopp : simpl never.
Local Arguments Qeq : simpl never.

Lemma take_nat_map {A B} (g : A -> B) xs ks : take_nat (map g xs) ks = omap (map g) (take_nat xs ks).
Proof.
  induction ks as [|k t IH]; cbn; [reflexivity|].
  rewrite nth_error_map, IH. destruct (nth_error xs k); cbn; [|reflexivity]. destruct (take_nat xs t); reflexivity.
Qed.
Lemma take_l_map {A B} (g : A -> B) xs ix : take_l (map g xs) ix = omap (map g) (take_l xs ix).
Proof. unfold take_l. rewrite map_length. destruct (norm_all (length xs) ix); [apply take_nat_map | reflexivity]. Qed.

(** selecting stored rows (any index list: a permutation for reorder/sort/group, the identity for a copy) and keeping location
    and scale = selecting the unscaled rows: no taxon's raw value changes although nothing is re-standardised *)
Lemma unscale_commutes_take (c : tcol) (ix : list Z) :
  take_l (col_unscale c) ix = omap (fun d => col_unscale (mkcol d (cloc c) (csc c))) (take_l (cdat c) ix).
Proof. unfold col_unscale at 1. rewrite take_l_map. destruct (take_l (cdat c) ix); reflexivity. Qed.
Lemma unscale_commutes_delete (c : tcol) (ob : idx) :
  delete_any (col_unscale c) ob = omap (fun d => col_unscale (mkcol d (cloc c) (csc c))) (delete_any (cdat c) ob).
Proof. unfold col_unscale at 1. rewrite delete_any_map. destruct (delete_any (cdat c) ob); reflexivity. Qed.

(** the standardised values are those of the raw values in any other unit and origin (x -> a x + b, a <> 0), when location and
    scale are transformed accordingly (l -> a l + b, s -> a s) *)
Lemma standardise_affine (raw : list oq) (l s a b : Q) : ~ s == 0 -> ~ a == 0 ->
  coleq (cdat (col_from_numpy (map (omapf (fun x => a * x + b)) raw) (Some (a * l + b)) (Some (a * s))))
        (cdat (col_from_numpy raw (Some l) (Some s))).
Proof.
  intros Hs Ha. cbn [cdat col_from_numpy]. rewrite map_map.
  induction raw as [|[x|] t IH]; cbn [map]; constructor; auto.
  - unfold omapf, omul, osub, oinv, olift2, oeq. rewrite !Qred_correct. field. split; assumption.
  - exact I.
Qed.
(** ... and unscaling them with the transformed parameters gives the transformed raw values *)
Lemma unscale_affine (c : tcol) (l s a b : Q) : cloc c = Some l -> csc c = Some s ->
  coleq (col_unscale (mkcol (cdat c) (Some (a * l + b)) (Some (a * s)))) (map (omapf (fun x => a * x + b)) (col_unscale c)).
Proof.
  intros Hl Hs. unfold col_unscale. cbn [cdat cloc csc]. rewrite Hl, Hs, map_map.
  induction (cdat c) as [|[m|] t IH]; cbn [map]; constructor; auto.
  - unfold omapf, oadd, omul, olift2, oeq. rewrite !Qred_correct. ring.
  - exact I.
Qed.

(** histories compose: the matrix (and the raw-level specification) after ops1 ++ ops2 is what ops2 makes of the state ops1 reached *)
Lemma run_app (ops1 ops2 : list (op * list prm)) : forall b, run b (ops1 ++ ops2) = run (run b ops1) ops2.
Proof. induction ops1 as [|[o p] t IH]; intros b; cbn; [reflexivity | apply IH]. Qed.
Lemma run_ok_app (ops1 ops2 : list (op * list prm)) : forall b, run_ok b (ops1 ++ ops2) = run_ok b ops1 && run_ok (run b ops1) ops2.
Proof.
  induction ops1 as [|[o p] t IH]; intros b; cbn; [reflexivity|]. rewrite IH. now rewrite andb_assoc.
Qed.
Lemma run_spec_app (ops1 ops2 : list op) (r : rawst) : run_spec r (ops1 ++ ops2) = run_spec (run_spec r ops1) ops2.
Proof. unfold run_spec. apply fold_left_app. Qed.

(** * label keywords of the routines that accept [values] *)
(** the same operand with other label keywords (taxa= / taxa_grp= given explicitly or omitted) *)
Definition with_kw (v : operand) (kt kg : option (list Z)) : operand :=
  mkopd (o_cols v) (o_k v) (o_bv v) (o_isinst v) (o_vtaxa v) (o_vgrp v) kt kg.
Definition op_with_kw (o : op) (kt kg : option (list Z)) : op :=
  match o with
  | OInsert ob v => OInsert ob (with_kw v kt kg)
  | OAdjoin v => OAdjoin (with_kw v kt kg)
  | OAppend v => OAppend (with_kw v kt kg)
  | OIncorp ob v => OIncorp ob (with_kw v kt kg)
  | _ => o
  end.

(** what an operand contributes is values.unscale() (its raw values when its parameters pass the run-time check), whichever label
    keywords accompany it *)
Lemma opd_unscaled_kw v kt kg : opd_unscaled (with_kw v kt kg) = opd_unscaled v.
Proof. reflexivity. Qed.
Lemma opd_unscaled_kw_raw v kt kg : opd_params_ok v = true -> cols_eq (opd_unscaled (with_kw v kt kg)) (opd_raw v).
Proof. intros H. rewrite opd_unscaled_kw. now apply opd_unscaled_raw. Qed.

(** the values (and the number of taxa) of the result of insert / adjoin / append / incorp do not depend on which label keywords
    were given: two calls that differ only in taxa= / taxa_grp= and both succeed yield the same stored columns, locations, scales *)
Lemma step_values_kw_independent b o p kt kg b1 b2 :
  step b o p = Some b1 -> step b (op_with_kw o kt kg) p = Some b2 -> bcols b1 = bcols b2 /\ bn b1 = bn b2.
Proof.
  unfold step. destruct o; cbn [op_with_kw]; try (intros H1 H2; rewrite H1 in H2; injection H2 as <-; now split).
  all: cbn [raw_step]; unfold operand_usable; cbn [with_kw o_bv o_isinst o_k]; rewrite ?opd_unscaled_kw.
  all: destruct (match o_bv v with Some _ => o_isinst v | None => true end); [|discriminate].
  - destruct (map2_cols _ _ _) as [c|]; [|discriminate].
    destruct (copy_labels _ _ v _) as [[t g]|]; [|discriminate]. destruct (copy_labels _ _ (with_kw v kt kg) _) as [[t' g']|]; [|destruct (new_n _ _); discriminate].
    destruct (new_n _ _) as [n|]; [|discriminate]. unfold chk; cbn [r_n r_taxa r_grp].
    destruct (_ && _); [|discriminate]. destruct (_ && _); [|discriminate].
    unfold restd; cbn [r_cols r_n r_taxa r_grp]. destruct (Nat.eqb _ _); [|discriminate]. intros [= <-] [= <-]. now split.
  - destruct (map2_cols _ _ _) as [c|]; [|discriminate].
    destruct (copy_labels _ _ v _) as [[t g]|]; [|discriminate]. destruct (copy_labels _ _ (with_kw v kt kg) _) as [[t' g']|]; [|discriminate].
    unfold chk; cbn [r_n r_taxa r_grp].
    destruct (_ && _); [|discriminate]. destruct (_ && _); [|discriminate].
    unfold restd; cbn [r_cols r_n r_taxa r_grp]. destruct (Nat.eqb _ _); [|discriminate]. intros [= <-] [= <-]. now split.
  - destruct (map2_cols _ _ _) as [c|]; [|discriminate].
    destruct (inplace_labels _ _ v _) as [[t g]|]; [|discriminate]. destruct (inplace_labels _ _ (with_kw v kt kg) _) as [[t' g']|]; [|discriminate].
    unfold restd; cbn [r_cols r_n r_taxa r_grp]. destruct (Nat.eqb _ _); [|discriminate]. intros [= <-] [= <-]. now split.
  - destruct (map2_cols _ _ _) as [c|]; [|discriminate].
    destruct (inplace_labels _ _ v _) as [[t g]|]; [|discriminate]. destruct (inplace_labels _ _ (with_kw v kt kg) _) as [[t' g']|]; [|destruct (new_n _ _); discriminate].
    destruct (new_n _ _) as [n|]; [|discriminate].
    unfold restd; cbn [r_cols r_n r_taxa r_grp]. destruct (Nat.eqb _ _); [|discriminate]. intros [= <-] [= <-]. now split.
Qed.

(** omitting a label keyword with a matrix operand = handing over the operand's own labels: the whole step is the same *)
Lemma step_kw_default b o p v : op_operand o = Some v -> o_bv v <> None ->
  step b (op_with_kw o None None) p = step b (op_with_kw o (o_vtaxa v) (o_vgrp v)) p.
Proof.
  intros Ho Hb. unfold step.
  assert (Hc : forall st sg j, copy_labels st sg (with_kw v None None) j = copy_labels st sg (with_kw v (o_vtaxa v) (o_vgrp v)) j).
  { intros. unfold copy_labels; cbn [with_kw o_bv o_ataxa o_agrp o_vtaxa o_vgrp o_k].
    destruct (o_bv v); [|congruence]. destruct (o_vtaxa v), (o_vgrp v); reflexivity. }
  assert (Hi : forall st sg j, inplace_labels st sg (with_kw v None None) j = inplace_labels st sg (with_kw v (o_vtaxa v) (o_vgrp v)) j).
  { intros. unfold inplace_labels; cbn [with_kw o_bv o_ataxa o_agrp o_vtaxa o_vgrp o_k].
    destruct (o_bv v); [|congruence]. destruct (o_vtaxa v), (o_vgrp v); reflexivity. }
  destruct o; cbn in Ho; try discriminate; injection Ho as ->; cbn [op_with_kw raw_step]; rewrite ?opd_unscaled_kw, ?Hc, ?Hi; reflexivity.
Qed.
