(** C03 — sessions: the outcome of a call depends on the state at the call only (compositionality of [run]); generic
    is_grouped(axis) = the axis-specific answer. *)
From PV Require Import Lib.Common Model.C03_LMat Proofs.C03_LMat.
Local Open Scope Z_scope.

(** * sessions: the outcome of a call depends on the state at the call only *)
Fixpoint last_state (c : cls) (s : st) (l : list (cls * st * option (list Z))) : cls * st :=
  match l with [] => (c, s) | (c', s', _) :: r => last_state c' s' r end.

Lemma run_app h1 : forall c s h2,
  run c s (h1 ++ h2) =
  (if snd (run c s h1) then (fst (run c s h1), true)
   else let cs := last_state c s (fst (run c s h1)) in
        (fst (run c s h1) ++ fst (run (fst cs) (snd cs) h2), snd (run (fst cs) (snd cs) h2))).
Proof.
  induction h1 as [|x r IH]; intros c s h2.
  - cbn. now destruct (run c s h2).
  - destruct x as [f o|f keys|p]; cbn [app run].
    + destruct (step c s f o) as [s'|]; [|reflexivity].
      rewrite (IH c s' h2). destruct (run c s' r) as [l1 e1]. cbn [fst snd]. destruct e1; reflexivity.
    + destruct (lexsort_op c s f keys) as [ix|]; [|reflexivity].
      rewrite (IH c s h2). destruct (run c s r) as [l1 e1]. cbn [fst snd]. destruct e1; reflexivity.
    + destruct (op_genotype p s) as [s'|]; [|reflexivity].
      rewrite (IH (result_cls p) s' h2). destruct (run (result_cls p) s' r) as [l1 e1]. cbn [fst snd]. destruct e1; reflexivity.
Qed.

(** two sessions that reach the same state continue identically, whatever happened before *)
Lemma run_state_only c1 s1 h1 c2 s2 h2 h :
  snd (run c1 s1 h1) = false -> snd (run c2 s2 h2) = false ->
  last_state c1 s1 (fst (run c1 s1 h1)) = last_state c2 s2 (fst (run c2 s2 h2)) ->
  skipn (length (fst (run c1 s1 h1))) (fst (run c1 s1 (h1 ++ h))) = skipn (length (fst (run c2 s2 h2))) (fst (run c2 s2 (h2 ++ h)))
  /\ snd (run c1 s1 (h1 ++ h)) = snd (run c2 s2 (h2 ++ h)).
Proof.
  intros E1 E2 L. rewrite !run_app, E1, E2, L. cbn [fst snd].
  rewrite !skipn_app, !skipn_all, !Nat.sub_diag. cbn. split; reflexivity.
Qed.

(** generic is_grouped(axis) = the axis-specific answer of the kind the axis dispatches to *)
Lemma is_grouped_gen_specific c s axis k : has_group c = true -> dispatch c (Generic axis) = Some k ->
  is_grouped_gen c s axis =
  match kind_of c k with KTaxa | KVrnt => Some (is_grouped (ax_of s k)) | KPhase => Some false | KTrait => None end.
Proof. intros H D. unfold is_grouped_gen. now rewrite H, D. Qed.

(** a copy step (identity on the observable state) inserted anywhere in a history changes no later outcome: stated as
    "running h1 then h2 equals running h1, stopping, and starting h2 afresh from the reached state" (run_app) *)
