(** C12 — the model's entries equal the enumerated gamete (co)variances.
    (1) two-way, nself = 0, any number of loci and linkage groups: entry = covariance under the multi-locus gamete enumeration.
    (2) all four schemes, any selfing depth: entry = sum over locus pairs (within linkage groups) of the enumerated
        two-locus doubled-haploid covariance of that pair. *)
From Coq Require Import Lqa Qfield.
From PV Require Import Lib.Common Model.C12_Var Model.C12_Enum Proofs.C12_Sums Proofs.C12_Chunks Proofs.C12_Var Proofs.C12_Selfing Proofs.C12_Meiosis.
Local Open Scope Q_scope.

(** * sums over the locus pairs of every linkage group *)
Definition psum (chroms : list (nat * nat)) (F : nat -> nat -> Q) : Q :=
  sumQ (map (fun c => sumQ (map (fun j => sumQ (map (fun i => F i j) (ixs c))) (ixs c))) chroms).

Lemma psum_ext chroms F G : (forall c i j, In c chroms -> In i (ixs c) -> In j (ixs c) -> F i j == G i j) -> psum chroms F == psum chroms G.
Proof.
  intros H. unfold psum. apply sumQ_ext. intros c Hc. apply sumQ_ext. intros j Hj. apply sumQ_ext. intros i Hi. now apply (H c).
Qed.
Lemma psum_plus chroms F G : psum chroms (fun i j => F i j + G i j) == psum chroms F + psum chroms G.
Proof.
  unfold psum. rewrite <- sumQ_plus. apply sumQ_ext_all. intros c. rewrite <- sumQ_plus. apply sumQ_ext_all. intros j. now rewrite sumQ_plus.
Qed.
Lemma psum_scal chroms k F : psum chroms (fun i j => k * F i j) == k * psum chroms F.
Proof.
  unfold psum. rewrite <- sumQ_scal. apply sumQ_ext_all. intros c. rewrite <- sumQ_scal. apply sumQ_ext_all. intros j. now rewrite sumQ_scal.
Qed.

Lemma dsum_terms D x y rb cb : dsum D x y rb cb == sumQ (map (fun j => sumQ (map (fun i => x i * D i j * y j) rb)) cb).
Proof. unfold dsum. apply sumQ_ext_all. intros j. now rewrite sumQ_scal_r. Qed.

Lemma whole_qf S D t1 t2 ga gb :
  whole S (qf S D t1 t2 ga gb) == psum (s_chroms S) (fun i j => eff (s_u S) t1 ga gb i * D i j * eff (s_u S) t2 ga gb j).
Proof. unfold whole, psum. apply sumQ_ext_all. intros c. unfold qf. rewrite part_dsum. apply dsum_terms. Qed.

(** two-locus haplotype of parent [g] at the pair (i,j): locus i carries its trait-t1 value, locus j its trait-t2 value *)
Definition hapof (u : list (list Q)) (t1 t2 : nat) (g : list Z) (i j : nat) : hap :=
  (inject_Z (nth i g 0%Z) * nth t1 (nth i u []) 0, inject_Z (nth j g 0%Z) * nth t2 (nth j u []) 0).

Lemma eff_hap_fst u t1 t2 ga gb i j : fst (hapof u t1 t2 ga i j) - fst (hapof u t1 t2 gb i j) == eff u t1 ga gb i.
Proof. unfold hapof, eff, gdiff, Z.sub. cbn [fst]. rewrite inject_Z_plus, inject_Z_opp. ring. Qed.
Lemma eff_hap_snd u t1 t2 ga gb i j : snd (hapof u t1 t2 ga i j) - snd (hapof u t1 t2 gb i j) == eff u t2 ga gb j.
Proof. unfold hapof, eff, gdiff, Z.sub. cbn [snd]. rewrite inject_Z_plus, inject_Z_opp. ring. Qed.

(** what the correspondence shards establish about the D tables: they are the coded D1/D2 of the pair's recombination fraction *)
Definition D_tables (S : setup) (R : nat -> nat -> Q) (k : nat) : Prop :=
  forall c i j, In c (s_chroms S) -> In i (ixs c) -> In j (ixs c) ->
    0 <= R i j /\ s_D1 S i j == cov_D1s (R i j) (Some k) /\ s_D2 S i j == cov_D2s (R i j) (Some k).

(** ** (2) every scheme, every selfing depth: sum of enumerated pair covariances *)
Theorem twoway_pairs S R k t1 t2 gA gB : mem_ok (s_mem S) -> D_tables S R k ->
  twoway_low S t1 t2 gA gB ==
  psum (s_chroms S) (fun i j => dhcov (E_two (R i j) k (hapof (s_u S) t1 t2 gA i j) (hapof (s_u S) t1 t2 gB i j))).
Proof.
  intros Hm HD. rewrite twoway_low_whole by exact Hm. rewrite whole_qf. apply psum_ext. intros c i j Hc Hi Hj.
  destruct (HD c i j Hc Hi Hj) as (Hr & H1 & _).
  rewrite twoway_selfing_exact by exact Hr. rewrite eff_hap_fst, eff_hap_snd, H1. reflexivity.
Qed.

Theorem threeway_pairs S R k t1 t2 g1 g2 g3 : mem_ok (s_mem S) -> D_tables S R k ->
  threeway_low S t1 t2 g1 g2 g3 ==
  psum (s_chroms S) (fun i j => dhcov (E_three (R i j) k (hapof (s_u S) t1 t2 g1 i j) (hapof (s_u S) t1 t2 g2 i j) (hapof (s_u S) t1 t2 g3 i j))).
Proof.
  intros Hm HD. rewrite threeway_low_whole by exact Hm. unfold whole, three_block.
  rewrite sumQ_plus, sumQ_scal, sumQ_plus.
  fold (whole S (qf S (s_D1 S) t1 t2 g2 g1)) (whole S (qf S (s_D1 S) t1 t2 g3 g1)) (whole S (qf S (s_D2 S) t1 t2 g2 g3)).
  rewrite !whole_qf. rewrite <- psum_plus, <- psum_scal, <- psum_plus, <- psum_scal.
  apply psum_ext. intros c i j Hc Hi Hj. destruct (HD c i j Hc Hi Hj) as (Hr & H1 & H2).
  rewrite threeway_selfing_exact by exact Hr. rewrite !eff_hap_fst, !eff_hap_snd, H1, H2. ring.
Qed.

Theorem quad_pairs S R k t1 t2 g1 g2 g3 g4 : mem_ok (s_mem S) -> D_tables S R k ->
  quad_low S t1 t2 g1 g2 g3 g4 ==
  psum (s_chroms S) (fun i j => dhcov (E_four (R i j) k (hapof (s_u S) t1 t2 g1 i j) (hapof (s_u S) t1 t2 g2 i j)
                                                         (hapof (s_u S) t1 t2 g3 i j) (hapof (s_u S) t1 t2 g4 i j))).
Proof.
  intros Hm HD. rewrite quad_low_whole by exact Hm. unfold whole, quad_block.
  rewrite !sumQ_plus.
  fold (whole S (qf S (s_D2 S) t1 t2 g2 g1)) (whole S (qf S (s_D1 S) t1 t2 g3 g1)) (whole S (qf S (s_D1 S) t1 t2 g3 g2))
       (whole S (qf S (s_D1 S) t1 t2 g4 g1)) (whole S (qf S (s_D1 S) t1 t2 g4 g2)) (whole S (qf S (s_D2 S) t1 t2 g4 g3)).
  rewrite !whole_qf. rewrite <- !psum_plus, <- psum_scal.
  apply psum_ext. intros c i j Hc Hi Hj. destruct (HD c i j Hc Hi Hj) as (Hr & H1 & H2).
  rewrite fourway_selfing_exact by exact Hr. rewrite !eff_hap_fst, !eff_hap_snd, H1, H2. ring.
Qed.

(** * (1) two-way, nself = 0: multi-locus enumeration over all linkage groups *)
Fixpoint consecutive (chroms : list (nat * nat)) (lo hi : nat) : Prop :=
  match chroms with
  | [] => lo = hi
  | c :: rest => fst c = lo /\ (lo <= snd c)%nat /\ consecutive rest (snd c) hi
  end.
Lemma consecutive_le chroms : forall lo hi, consecutive chroms lo hi -> (lo <= hi)%nat.
Proof. induction chroms as [|c rest IH]; cbn [consecutive]; intros lo hi H; [lia|]. destruct H as (_ & H1 & H2). apply IH in H2. lia. Qed.

(** independent assortment: the gap in front of every linkage group but the first recombines with probability 1/2 *)
Definition free_between (ps : list Q) (lo : nat) (chroms : list (nat * nat)) : Prop :=
  Forall (fun c => (lo < fst c)%nat -> nth (fst c - 1) ps 0 == 1#2) chroms.

Lemma dsum_zero_D D x y rb cb : (forall i j, In i rb -> In j cb -> D i j == 0) -> dsum D x y rb cb == 0.
Proof.
  intros H. unfold dsum. apply sumQ_zero. intros j Hj.
  rewrite (sumQ_zero (fun i => x i * D i j)); [ring|]. intros i Hi. rewrite (H i j Hi Hj). ring.
Qed.

Lemma dsum_groups ps x y : forall chroms lo hi, consecutive chroms lo hi -> free_between ps lo chroms ->
  dsum (rho ps) x y (seq lo (hi - lo)) (seq lo (hi - lo)) == sumQ (map (fun c => dsum (rho ps) x y (ixs c) (ixs c)) chroms).
Proof.
  induction chroms as [|[st sp] rest IH]; intros lo hi Hc Hf.
  - cbn [consecutive] in Hc. subst hi. rewrite Nat.sub_diag. reflexivity.
  - cbn [consecutive fst snd] in Hc. destruct Hc as (-> & Hle & Hrest).
    pose proof (consecutive_le rest sp hi Hrest) as Hle2.
    replace (hi - lo)%nat with ((sp - lo) + (hi - sp))%nat by lia. rewrite seq_app. replace (lo + (sp - lo))%nat with sp by lia.
    rewrite dsum_app_l, !dsum_app_r. cbn [map]. rewrite sumQ_cons. unfold ixs at 1 2. cbn [fst snd].
    inversion Hf as [|? ? Hhd Htl]; subst.
    rewrite (IH sp hi Hrest).
    2:{ unfold free_between in *. rewrite Forall_forall in *. intros c Hin Hlt. apply Htl; [exact Hin|lia]. }
    assert (Z : forall i j, In i (seq lo (sp - lo)) -> In j (seq sp (hi - sp)) -> rho ps i j == 0 /\ rho ps j i == 0).
    { intros i j Hi Hj. apply in_seq in Hi. apply in_seq in Hj.
      destruct rest as [|[st2 sp2] rest2]; [cbn [consecutive] in Hrest; lia|].
      cbn [consecutive fst snd] in Hrest. destruct Hrest as (-> & _ & _).
      inversion Htl as [|? ? Hb _]; subst. cbn [fst] in Hb.
      assert (Hp : nth (sp - 1) ps 0 == 1#2) by (apply Hb; lia).
      split; apply (rho_zero ps _ _ (sp - 1)%nat); try exact Hp; lia. }
    rewrite (dsum_zero_D (rho ps) x y (seq lo (sp - lo)) (seq sp (hi - sp))) by (intros i j Hi Hj; apply (Z i j Hi Hj)).
    rewrite (dsum_zero_D (rho ps) x y (seq sp (hi - sp)) (seq lo (sp - lo))) by (intros i j Hi Hj; apply (Z j i Hj Hi)).
    ring.
Qed.

(** per-locus values of a parent for one trait *)
Definition vals (u : list (list Q)) (tr : nat) (g : list Z) (L : nat) : list Q :=
  map (fun i => inject_Z (nth i g 0%Z) * nth tr (nth i u []) 0) (seq 0 L).

Lemma map2_map {A B C D} (h : B -> C -> D) (f : A -> B) (g : A -> C) l : map2 h (map f l) (map g l) = map (fun i => h (f i) (g i)) l.
Proof. induction l as [|a l IH]; cbn [map map2]; [reflexivity|]. now rewrite IH. Qed.

Lemma nth_map_seq {A} (f : nat -> A) L i d : (i < L)%nat -> nth i (map f (seq 0 L)) d = f i.
Proof.
  intros H. rewrite (nth_indep (map f (seq 0 L)) d (f 0%nat)) by (now rewrite map_length, seq_length).
  rewrite (map_nth f (seq 0 L) 0%nat i). now rewrite seq_nth.
Qed.

Lemma nthq_wdiff_vals u tr ga gb L i : (i < L)%nat -> nthq (wdiff (vals u tr ga L) (vals u tr gb L)) i == eff u tr ga gb i.
Proof.
  intros Hi. unfold nthq, wdiff, vals. rewrite map2_map. rewrite nth_map_seq by exact Hi.
  unfold eff, gdiff, Z.sub. rewrite inject_Z_plus, inject_Z_opp. ring.
Qed.

Lemma vals_length u tr g L : length (vals u tr g L) = L.
Proof. unfold vals. now rewrite map_length, seq_length. Qed.

Theorem twoway_nself0_exact S ps t1 t2 gA gB :
  let L := Datatypes.S (length ps) in
  mem_ok (s_mem S) -> consecutive (s_chroms S) 0 L -> free_between ps 0 (s_chroms S) ->
  (forall c i j, In c (s_chroms S) -> In i (ixs c) -> In j (ixs c) -> s_D1 S i j == cov_D1s (rpair ps i j) (Some 0%nat)) ->
  twoway_low S t1 t2 gA gB ==
  cov_gam ps (vals (s_u S) t1 gA L) (vals (s_u S) t1 gB L) (vals (s_u S) t2 gA L) (vals (s_u S) t2 gB L).
Proof.
  intros L Hm Hc Hf HD.
  rewrite cov_gam_m2 by apply vals_length. rewrite m2_dsum by (unfold wdiff; rewrite map2_length, !vals_length; apply Nat.min_id).
  fold L.
  pose proof (dsum_groups ps (nthq (wdiff (vals (s_u S) t1 gA L) (vals (s_u S) t1 gB L))) (nthq (wdiff (vals (s_u S) t2 gA L) (vals (s_u S) t2 gB L)))
                (s_chroms S) 0%nat L Hc Hf) as G.
  rewrite Nat.sub_0_r in G. rewrite G. clear G.
  rewrite twoway_low_whole by exact Hm. unfold whole. apply sumQ_ext. intros c Hin.
  unfold qf. rewrite part_dsum.
  assert (B : forall i, In i (ixs c) -> (i < L)%nat).
  { (* every linkage group lies inside [0,L) *)
    assert (G : forall chroms lo hi, consecutive chroms lo hi -> In c chroms -> (lo <= fst c /\ snd c <= hi)%nat).
    { induction chroms as [|c0 rest IH]; intros lo hi Hcc Hi; [destruct Hi|]. cbn [consecutive] in Hcc. destruct Hcc as (E & Hl & Hr).
      pose proof (consecutive_le rest _ _ Hr). destruct Hi as [->|Hi]; [lia|]. specialize (IH _ _ Hr Hi). lia. }
    destruct (G _ _ _ Hc Hin) as [_ G2]. intros i Hi. unfold ixs in Hi. apply in_seq in Hi. lia. }
  apply dsum_ext.
  - intros i Hi. symmetry. apply nthq_wdiff_vals. now apply B.
  - intros j Hj. symmetry. apply nthq_wdiff_vals. now apply B.
  - intros i j Hi Hj. rewrite (HD c i j Hin Hi Hj). unfold cov_D1s, rpair. field.
Qed.
