(** C10 — closed breeding histories: (a) abstract histories in which the allele set of every locus only shrinks,
    (b) the histories produced by the programme model (any of the seven C01 protocols applied to arbitrary cross
    tables, counts, selfing depths and non-negative draws) are such histories and stay well-formed. *)
From Coq Require Import PrimFloat.
From PV Require Import Lib.Common Lib.FloatK.
From PV Require Import Model.C01_Meiosis Model.C01_Mating Model.C09_Stats Model.C10_Limits.
From PV Require Import Proofs.C01_Meiosis Proofs.C01_Mating Proofs.C09_Stats Proofs.C10_Float Proofs.C10_Limits.
Local Open Scope Z_scope.

Notation geno_t := (list (list (list Z))).
Definition wfp (p : nat) (g : geno_t) : Prop := wf (ntaxa_of g) p g.

(** * 1. abstract closed histories *)
Fixpoint closed (p : nat) (h : list geno_t) : Prop :=
  match h with
  | [] => True
  | a :: t => match t with [] => True | b :: _ => shrinks p a b end /\ closed p t
  end.

Lemma closed_head p a t : closed p (a :: t) -> forall m, (m < length t)%nat -> shrinks p a (nth m t []).
Proof.
  revert a. induction t as [|b t IH]; intros a [Hab Ht] m Hm; cbn in Hm; [lia|].
  destruct m as [|m]; [exact Hab|]. cbn [nth]. eapply shrinks_trans; [exact Hab|]. apply IH; [exact Ht | lia].
Qed.
Lemma closed_nth p h : closed p h -> forall i i', (i <= i')%nat -> (i' < length h)%nat -> shrinks p (nth i h []) (nth i' h []).
Proof.
  induction h as [|a t IH]; intros Hc i i' Hle Hlt; cbn in Hlt; [lia|].
  destruct i as [|i].
  - destruct i' as [|i']; [apply shrinks_refl|]. cbn [nth]. apply closed_head; [exact Hc | lia].
  - destruct i' as [|i']; [lia|]. cbn [nth]. destruct Hc as [_ Ht]. apply IH; [exact Ht | lia | lia].
Qed.

Definition uslg (t p : nat) u (g : geno_t) := usl t (ntaxa_of g) p u g.
Definition lslg (t p : nat) u (g : geno_t) := lsl t (ntaxa_of g) p u g.
Definition gebvg (t p : nat) u (g : geno_t) := gebv_numpy t u (dosage (ntaxa_of g) p g).
Definition freqg (p : nat) (g : geno_t) := freq_phased (ntaxa_of g) p g.

Lemma Forall_nth' {A} (P : A -> Prop) l d i : Forall P l -> (i < length l)%nat -> P (nth i l d).
Proof. intros H Hi. rewrite Forall_forall in H. apply H, nth_In, Hi. Qed.

Lemma hist_monotone t p u h i i' k : closed p h -> Forall (wfp p) h -> model_ok p t u -> (i <= i')%nat -> (i' < length h)%nat -> (k < t)%nat ->
  (nth k (uslg t p u (nth i' h [])) 0 <= nth k (uslg t p u (nth i h [])) 0)%Q /\
  (nth k (lslg t p u (nth i h [])) 0 <= nth k (lslg t p u (nth i' h [])) 0)%Q.
Proof.
  intros Hc Hw Hu Hle Hlt Hk. apply pop_monotone; try assumption.
  - apply (Forall_nth' (wfp p)); [assumption|lia].
  - apply (Forall_nth' (wfp p)); assumption.
  - apply closed_nth; assumption.
Qed.

Lemma hist_brackets t p u h i i' s k : closed p h -> Forall (wfp p) h -> model_ok p t u -> (i <= i')%nat -> (i' < length h)%nat ->
  (s < ntaxa_of (nth i' h []))%nat -> (k < t)%nat ->
  (nth k (lslg t p u (nth i h [])) 0 <= nth k (nth s (gebvg t p u (nth i' h [])) []) 0)%Q /\
  (nth k (nth s (gebvg t p u (nth i' h [])) []) 0 <= nth k (uslg t p u (nth i h [])) 0)%Q.
Proof.
  intros Hc Hw Hu Hle Hlt Hs Hk.
  destruct (hist_monotone t p u h i i' k Hc Hw Hu Hle Hlt Hk) as [M1 M2].
  assert (W' : wfp p (nth i' h [])) by (apply (Forall_nth' (wfp p)); assumption).
  destruct (pop_brackets t _ p u _ s k W' Hu Hs Hk) as [B1 B2]. unfold uslg, lslg, gebvg in *.
  split; eapply Qle_trans; eassumption.
Qed.

Lemma hist_lost p h i i' j : closed p h -> Forall (wfp p) h -> (i <= i')%nat -> (i' < length h)%nat -> (j < p)%nat ->
  (PrimFloat.eqb (nth j (freqg p (nth i h [])) 0%float) 0%float = true -> PrimFloat.eqb (nth j (freqg p (nth i' h [])) 0%float) 0%float = true) /\
  (PrimFloat.eqb (nth j (freqg p (nth i h [])) 0%float) 1%float = true -> PrimFloat.eqb (nth j (freqg p (nth i' h [])) 0%float) 1%float = true).
Proof.
  intros Hc Hw Hle Hlt Hj. apply pop_lost; try assumption.
  - apply (Forall_nth' (wfp p)); [assumption|lia].
  - apply (Forall_nth' (wfp p)); assumption.
  - apply closed_nth; assumption.
Qed.

(** * 2. one mating step of the programme model *)
Section Step.
Variable p : nat.
Variable geno : geno_t.
Variable xoprob : list Q.
Hypothesis Hwf : wfp p geno.
Hypothesis Hxo : length xoprob = p.

(** a chromosome copy all of whose alleles are present, locus by locus, in [geno] *)
Definition good (r : list Z) : Prop := length r = p /\ forall j, (j < p)%nat -> In (nth j r 0) (alleles j geno).

Lemma good_founder ph i : (ph < 2)%nat -> (i < ntaxa_of geno)%nat -> good (row geno ph i).
Proof.
  intros Hph Hi. split.
  - pose proof (row_in_concat _ p geno ph i Hwf Hph Hi) as I. destruct Hwf as (_ & Hp & _).
    pose proof (concat_rows_ok _ p geno Hp) as R. rewrite Forall_forall in R. now apply R.
  - intros j _. eapply allele_in; eauto.
Qed.
Lemma good_mosaic g0 g1 gam : good g0 -> good g1 -> mosaic xoprob g0 g1 gam -> good gam.
Proof.
  intros [L0 A0] [L1 A1] M. assert (L : length gam = p) by (rewrite <- Hxo; apply (mosaic_length xoprob g0 g1); [assumption | lia | lia]).
  split; [exact L|]. intros j Hj. destruct (mosaic_allele xoprob g0 g1 gam j 0 M ltac:(lia)) as [E|E]; rewrite E; [apply A0 | apply A1]; exact Hj.
Qed.

Lemma realises_good t : forall ind, realises geno xoprob t ind -> (forall f, In f (founders t) -> (f < ntaxa_of geno)%nat) ->
  good (fst ind) /\ good (snd ind).
Proof.
  induction t as [i | f IHf m IHm | x IHx | x IHx]; intros ind H Hf; cbn [realises founders] in *.
  - subst ind. unfold indiv. cbn [fst snd]. split; apply good_founder; try lia; apply Hf; now left.
  - destruct H as (fi & mi & Rf & Rm & M0 & M1).
    destruct (IHf _ Rf) as [F0 F1]; [intros; apply Hf, in_or_app; now left|].
    destruct (IHm _ Rm) as [G0 G1]; [intros; apply Hf, in_or_app; now right|].
    split; [apply (good_mosaic (fst fi) (snd fi)) | apply (good_mosaic (fst mi) (snd mi))]; assumption.
  - destruct H as (xi & Rx & M0 & M1). destruct (IHx _ Rx Hf) as [F0 F1]. split; apply (good_mosaic (fst xi) (snd xi)); assumption.
  - destruct H as (xi & Rx & M0 & E). destruct (IHx _ Rx Hf) as [F0 F1]. rewrite E. split; apply (good_mosaic (fst xi) (snd xi)); assumption.
Qed.

Lemma pop_real_good ts c0 c1 : pop_real geno xoprob ts c0 c1 ->
  Forall (fun t => forall f, In f (founders t) -> (f < ntaxa_of geno)%nat) ts -> Forall good c0 /\ Forall good c1.
Proof.
  induction 1 as [|t a b ts c0 c1 R _ IH]; intros Hf; [split; constructor|].
  apply Forall_cons_iff in Hf as [Ht Hts]. destruct (IH Hts) as [I0 I1]. destruct (realises_good t (a, b) R Ht) as [Ga Gb].
  split; constructor; assumption.
Qed.

Lemma repeat_by_In {A} (x : A) : forall xs cs, In x (repeat_by xs cs) -> In x xs.
Proof.
  induction xs as [|y xs IH]; intros [|c cs] H; cbn in H; try contradiction.
  apply in_app_or in H as [H|H]; [left; now apply repeat_spec in H | right; eapply IH; eauto].
Qed.

Lemma good_b01 r : good r -> Forall b01 r.
Proof.
  intros [L A]. apply Forall_forall. intros x Hx. apply (In_nth _ _ 0) in Hx as (j & Hj & <-).
  pose proof (alleles_01 _ p geno j Hwf) as H01. rewrite Forall_forall in H01. apply H01, A. lia.
Qed.

Lemma step_closed s : step_ok geno s = true -> nonneg_draws (s_draws s) ->
  let g' := next_gen geno xoprob s in
  (0 < ntaxa_of g')%nat -> 2 * Z.of_nat (ntaxa_of g') <= 2^53 -> wfp p g' /\ shrinks p geno g'.
Proof.
  intros Hok Hn. unfold step_ok in Hok. apply andb_prop in Hok as [Hok Lnp]. apply andb_prop in Hok as [Hok Lnm]. apply andb_prop in Hok as [Hw Hi].
  apply Nat.eqb_eq in Lnp, Lnm. rewrite forallb_forall in Hw, Hi.
  unfold next_gen.
  destruct (core_real (s_proto s) geno xoprob (s_xc s) (s_nm s) (s_np s) (s_nself s) (rng0 (s_draws s)) Lnm Lnp Hn) as (c0 & c1 & r' & E & Hreal & _).
  destruct (core_shape (s_proto s) geno xoprob (s_xc s) (s_nm s) (s_np s) (s_nself s) (rng0 (s_draws s)) Lnm Lnp) as (d0 & d1 & r'' & E' & L0 & L1 & _).
  rewrite E in E'. injection E' as <- <- <-. rewrite E. cbn [fst]. cbn zeta. intros Hpos Hbound.
  change (ntaxa_of [c0; c1]) with (length c0) in *.
  destruct (pop_real_good _ c0 c1 Hreal) as [G0 G1].
  { apply Forall_forall. intros t Ht. apply in_map_iff in Ht as (i & <- & Hi'). unfold who in Hi'. apply repeat_by_In in Hi'. apply in_seq in Hi'.
    assert (Hr : In (nth i (s_xc s) []) (s_xc s)) by (apply nth_In; lia).
    intros f Hf. apply founders_designated in Hf; [|apply Nat.eqb_eq, Hw, Hr].
    specialize (Hi _ Hr). rewrite forallb_forall in Hi. apply Nat.ltb_lt, Hi, Hf. }
  split.
  - unfold wfp. change (ntaxa_of [c0; c1]) with (length c0). repeat split; try assumption; try reflexivity.
    + repeat constructor; try lia; eapply Forall_impl; try eassumption; intros r Hr; apply Hr.
    + repeat constructor; eapply Forall_impl; try eassumption; apply good_b01.
  - intros j a Hj Ha. unfold alleles, col in Ha. apply in_map_iff in Ha as (r & <- & Hr). cbn [concat] in Hr. rewrite app_nil_r in Hr.
    rewrite Forall_forall in G0, G1. apply in_app_or in Hr as [Hr|Hr]; [apply G0 in Hr | apply G1 in Hr]; destruct Hr as [_ A]; apply A, Hj.
Qed.
End Step.

(** * 3. the whole programme *)
Definition sizes_ok (h : list geno_t) : Prop := Forall (fun g => (0 < ntaxa_of g)%nat /\ 2 * Z.of_nat (ntaxa_of g) <= 2^53) h.

Lemma history_closed p xoprob : length xoprob = p -> forall steps geno h, history geno xoprob steps = Some h ->
  wfp p geno -> Forall (fun s => nonneg_draws (s_draws s)) steps -> sizes_ok h ->
  Forall (wfp p) h /\ closed p h /\ nth 0 h [] = geno /\ length h = S (length steps).
Proof.
  intros Hxo. induction steps as [|s ts IH]; intros geno h Hh Hw Hd Hs; cbn [history] in Hh.
  - injection Hh as <-. repeat split; auto.
  - destruct (step_ok geno s) eqn:Hok; [|discriminate].
    destruct (history (next_gen geno xoprob s) xoprob ts) as [h'|] eqn:Hh'; [|discriminate]. injection Hh as <-.
    apply Forall_cons_iff in Hd as [Hd1 Hd2]. apply Forall_cons_iff in Hs as [Hs1 Hs2].
    assert (N0 : nth 0 h' [] = next_gen geno xoprob s /\ (0 < length h')%nat).
    { destruct ts as [|s2 ts2]; cbn [history] in Hh'.
      - injection Hh' as <-. split; [reflexivity | cbn; lia].
      - destruct (step_ok (next_gen geno xoprob s) s2); [|discriminate].
        destruct (history (next_gen (next_gen geno xoprob s) xoprob s2) xoprob ts2); [|discriminate]. injection Hh' as <-. split; [reflexivity | cbn; lia]. }
    destruct N0 as [N0 Lh'].
    assert (Sz : (0 < ntaxa_of (next_gen geno xoprob s))%nat /\ 2 * Z.of_nat (ntaxa_of (next_gen geno xoprob s)) <= 2^53).
    { rewrite <- N0. destruct h' as [|g1 h1]; [cbn in Lh'; lia|]. cbn [nth]. now apply Forall_inv in Hs2. }
    destruct (step_closed p geno xoprob Hw Hxo s Hok Hd1 (proj1 Sz) (proj2 Sz)) as [W' S'].
    destruct (IH _ _ Hh' W' Hd2 Hs2) as (A & B & C & D).
    repeat split.
    + constructor; assumption.
    + destruct h' as [|g1 h1]; [exact I|]. cbn [nth] in C. subst g1. exact S'.
    + exact B.
    + cbn [length]. now rewrite D.
Qed.

(** * 4. everything at once for the programme model *)
Definition nonneg_steps (steps : list step) : Prop := Forall (fun s => nonneg_draws (s_draws s)) steps.

Theorem programme_limits p t u xoprob steps geno h : length xoprob = p -> model_ok p t u ->
  history geno xoprob steps = Some h -> wfp p geno -> nonneg_steps steps -> sizes_ok h ->
  length h = S (length steps) /\ nth 0 h [] = geno /\
  forall i i', (i <= i')%nat -> (i' < length h)%nat ->
    (forall k, (k < t)%nat ->
       (nth k (uslg t p u (nth i' h [])) 0 <= nth k (uslg t p u (nth i h [])) 0)%Q /\
       (nth k (lslg t p u (nth i h [])) 0 <= nth k (lslg t p u (nth i' h [])) 0)%Q /\
       forall s, (s < ntaxa_of (nth i' h []))%nat ->
         (nth k (lslg t p u (nth i h [])) 0 <= nth k (nth s (gebvg t p u (nth i' h [])) []) 0)%Q /\
         (nth k (nth s (gebvg t p u (nth i' h [])) []) 0 <= nth k (uslg t p u (nth i h [])) 0)%Q) /\
    (forall j, (j < p)%nat ->
       (PrimFloat.eqb (nth j (freqg p (nth i h [])) 0%float) 0%float = true -> PrimFloat.eqb (nth j (freqg p (nth i' h [])) 0%float) 0%float = true) /\
       (PrimFloat.eqb (nth j (freqg p (nth i h [])) 0%float) 1%float = true -> PrimFloat.eqb (nth j (freqg p (nth i' h [])) 0%float) 1%float = true)).
Proof.
  intros Hxo Hu Hh Hw Hd Hs. destruct (history_closed p xoprob Hxo steps geno h Hh Hw Hd Hs) as (A & B & C & D).
  split; [exact D|]. split; [exact C|]. intros i i' Hle Hlt. split.
  - intros k Hk. destruct (hist_monotone t p u h i i' k B A Hu Hle Hlt Hk) as [M1 M2]. split; [exact M1|]. split; [exact M2|].
    intros s Hs'. apply hist_brackets; assumption.
  - intros j Hj. apply hist_lost; assumption.
Qed.

(** * 5. a concrete programme (non-vacuity): two founders, three loci, a two-way cross with two progeny, then doubled haploids *)
Definition ex_geno : geno_t := [[[1; 0; 1]; [0; 0; 1]]; [[1; 1; 0]; [0; 0; 1]]].
Definition ex_xo : list Q := q10l [512; 256; 0].
Definition ex_u : list (list Q) := q8ll [[256; -256]; [-512; 0]; [128; 384]].
Definition ex_steps : list step :=
  [mkStep P2 [[0; 1]]%nat [1]%nat [2]%nat 0 (q10lll [[[511; 600; 3]; [700; 255; 9]]; [[100; 100; 100]; [900; 900; 0]]]);
   mkStep P2DH [[0; 1]]%nat [1]%nat [3]%nat 0 (q10lll [[[511; 0; 0]]; [[600; 600; 600]]; [[0; 0; 0]; [600; 600; 600]; [600; 0; 600]]])].

Lemma ex_wf : wfp 3 ex_geno /\ model_ok 3 2 ex_u /\ length ex_xo = 3%nat /\ nonneg_steps ex_steps.
Proof.
  split; [|split; [|split]].
  - unfold wfp, wf, phases_ok, alleles01, shape_ok. cbn. repeat first [lia | reflexivity | split | constructor].
  - unfold model_ok. cbn. repeat first [reflexivity | split | constructor].
  - reflexivity.
  - unfold nonneg_steps, nonneg_draws, nonneg_mat, nonneg_row. cbn. repeat constructor; unfold Qle; cbn; lia.
Qed.
Lemma ex_runs : exists h, history ex_geno ex_xo ex_steps = Some h /\ sizes_ok h /\ length h = 3%nat /\
  (nth 0 (uslg 2 3 ex_u (nth 2 h [])) 0 < nth 0 (uslg 2 3 ex_u (nth 0 h [])) 0)%Q /\
  (nth 1 (uslg 2 3 ex_u (nth 2 h [])) 0 < nth 1 (uslg 2 3 ex_u (nth 0 h [])) 0)%Q.
Proof.
  eexists. split; [vm_compute; reflexivity|]. split; [|split; [reflexivity|split; vm_compute; reflexivity]].
  unfold sizes_ok. repeat constructor; cbn; lia.
Qed.
