(** C10 — laws of the limits as functions of the effects (any frequency vector, any ploidy): negating the effects exchanges the
    two limits, a positive common factor of the effects factors out.  They are what the "session" observations of the check
    (effects negated in place, a multiple installed through the setter, on one model object) are compared with. *)
From Coq Require Import PrimFloat Lqa.
From PV Require Import Lib.Common Lib.FloatK Model.C01_Meiosis Model.C01_Mating Model.C09_Stats Model.C10_Limits.
From PV Require Import Proofs.C10_Limits.
Local Open Scope Z_scope.

Definition qmapll (f : Q -> Q) (u : list (list Q)) : list (list Q) := map (map f) u.

Lemma model_ok_map f p t u : model_ok p t u -> model_ok p t (qmapll f u).
Proof.
  intros [L H]. split; [unfold qmapll; now rewrite map_length|]. unfold qmapll. apply Forall_forall. intros r Hr.
  apply in_map_iff in Hr as (r0 & <- & Hr0). rewrite map_length. rewrite Forall_forall in H. now apply H.
Qed.
Lemma ujk_map f p t u j k : model_ok p t u -> (j < p)%nat -> (k < t)%nat -> ujk (qmapll f u) j k = f (ujk u j k).
Proof.
  intros [L H] Hj Hk. unfold ujk, qmapll. rewrite (nth_map' _ []) by lia. apply nth_map'.
  rewrite Forall_forall in H. rewrite (H (nth j u [])) by (apply nth_In; lia). exact Hk.
Qed.
Lemma sumQ_opp {A} (f : A -> Q) l : (sumQ (map (fun x => - f x) l) == - sumQ (map f l))%Q.
Proof.
  induction l as [|a l IH]; cbn [map sumQ fold_right]; [reflexivity|].
  fold (sumQ (map (fun x => (- f x)%Q) l)) (sumQ (map f l)). rewrite IH. ring.
Qed.
Lemma sumQ_scal {A} (c : Q) (f : A -> Q) l : (sumQ (map (fun x => c * f x) l) == c * sumQ (map f l))%Q.
Proof.
  induction l as [|a l IH]; cbn [map sumQ fold_right]; [ring|].
  fold (sumQ (map (fun x => (c * f x)%Q) l)) (sumQ (map f l)). rewrite IH. ring.
Qed.

Lemma Qpos_opp_pos x : Qpos x = true -> Qpos (- x) = false.
Proof. intros H. apply Qpos_true in H. unfold Qpos. apply negb_false_iff, Qle_bool_iff. lra. Qed.
Lemma Qpos_zero x : Qpos x = false -> Qpos (- x) = false -> (x == 0)%Q.
Proof. intros H1 H2. apply Qpos_false in H1. apply Qpos_false in H2. lra. Qed.
Lemma Qpos_scal c x : (0 < c)%Q -> Qpos (c * x) = Qpos x.
Proof.
  intros Hc. destruct (Qpos x) eqn:E.
  - apply Qpos_true in E. unfold Qpos. apply negb_true_iff. destruct (Qle_bool (c * x) 0) eqn:F; [|reflexivity].
    apply Qle_bool_iff in F. assert (0 < c * x)%Q by (apply Qmult_lt_0_compat; assumption). lra.
  - apply Qpos_false in E. unfold Qpos. apply negb_false_iff, Qle_bool_iff.
    setoid_replace (c * x)%Q with (- (c * (- x)))%Q by ring. assert (0 <= c * - x)%Q by (apply Qmult_le_0_compat; lra). lra.
Qed.

(** the summand of one locus *)
Lemma term_negate ploidy x f :
  (inject_Z ploidy * (- x) * b2q (usl_ind (- x) f) == - (inject_Z ploidy * x * b2q (lsl_ind x f)))%Q /\
  (inject_Z ploidy * (- x) * b2q (lsl_ind (- x) f) == - (inject_Z ploidy * x * b2q (usl_ind x f)))%Q.
Proof.
  unfold usl_ind, lsl_ind. destruct (Qpos x) eqn:E.
  - rewrite (Qpos_opp_pos x E). split; ring.
  - destruct (Qpos (- x)) eqn:F; [split; ring|]. pose proof (Qpos_zero x E F) as Z0. split; rewrite Z0; ring.
Qed.

Lemma limits_negate t ploidy p u freq k : model_ok p t u -> length freq = p -> (k < t)%nat ->
  (nth k (usl_numpy t ploidy (qmapll Qopp u) freq) 0 == - nth k (lsl_numpy t ploidy u freq) 0)%Q /\
  (nth k (lsl_numpy t ploidy (qmapll Qopp u) freq) 0 == - nth k (usl_numpy t ploidy u freq) 0)%Q.
Proof.
  intros Hu Lf Hk. pose proof (model_ok_map Qopp p t u Hu) as Hu'. unfold usl_numpy, lsl_numpy.
  rewrite !(limit_numpy_nth _ t ploidy _ freq p k) by assumption.
  split; rewrite <- sumQ_opp; apply sumQ_map_eq; intros j Hj; apply in_seq in Hj; rewrite (ujk_map Qopp p t) by (assumption || lia); apply term_negate.
Qed.

Lemma limits_scale t ploidy p u freq k (c : Q) : (0 < c)%Q -> model_ok p t u -> length freq = p -> (k < t)%nat ->
  (nth k (usl_numpy t ploidy (qmapll (Qmult c) u) freq) 0 == c * nth k (usl_numpy t ploidy u freq) 0)%Q /\
  (nth k (lsl_numpy t ploidy (qmapll (Qmult c) u) freq) 0 == c * nth k (lsl_numpy t ploidy u freq) 0)%Q.
Proof.
  intros Hc Hu Lf Hk. pose proof (model_ok_map (Qmult c) p t u Hu) as Hu'. unfold usl_numpy, lsl_numpy.
  rewrite !(limit_numpy_nth _ t ploidy _ freq p k) by assumption.
  split; rewrite <- sumQ_scal; apply sumQ_map_eq; intros j Hj; apply in_seq in Hj; rewrite (ujk_map (Qmult c) p t) by (assumption || lia);
    unfold usl_ind, lsl_ind; rewrite (Qpos_scal c _ Hc); ring.
Qed.

(** the same for a population: usl(-u) = -lsl(u), usl(c u) = c usl(u) for c > 0 (phased object; frequency vector of length p) *)
Lemma pop_negate t n p u geno k : wf n p geno -> model_ok p t u -> (k < t)%nat ->
  (nth k (usl t n p (qmapll Qopp u) geno) 0 == - nth k (lsl t n p u geno) 0)%Q /\
  (nth k (lsl t n p (qmapll Qopp u) geno) 0 == - nth k (usl t n p u geno) 0)%Q.
Proof. intros H Hu Hk. unfold usl, lsl. apply (limits_negate t _ p); auto using freq_len. Qed.
Lemma pop_scale t n p u geno k c : (0 < c)%Q -> wf n p geno -> model_ok p t u -> (k < t)%nat ->
  (nth k (usl t n p (qmapll (Qmult c) u) geno) 0 == c * nth k (usl t n p u geno) 0)%Q /\
  (nth k (lsl t n p (qmapll (Qmult c) u) geno) 0 == c * nth k (lsl t n p u geno) 0)%Q.
Proof. intros Hc H Hu Hk. unfold usl, lsl. apply (limits_scale t _ p); auto using freq_len. Qed.
