(** C13 — phased storage (phases x taxa x loci, as DensePhasedGenotypeMatrix keeps it): the allele counts the
    estimators see ([tacount_ph]) are the dosages of the per-taxon allele table, so the identity-by-state theorem
    applies to the phased input as stored. *)
From PV Require Import Lib.Common Model.C13_Coanc Proofs.C13_Coanc.
Local Open Scope Z_scope.

Definition alleles_of (n m : nat) (ph : list (list (list Z))) : list (list (list Z)) :=
  map (fun i => map (fun k => map (fun P => nth k (nth i P []) 0) ph) (seq 0 m)) (seq 0 n).

Definition phases_ok (n m : nat) (ph : list (list (list Z))) : Prop :=
  Forall (fun P => length P = n /\ rows_len m P /\ Forall (Forall is01) P) ph.

Lemma repeat_map_seq {A} (x : A) n s : repeat x n = map (fun _ => x) (seq s n).
Proof. revert s; induction n as [|n IH]; intros s; [reflexivity|]. cbn [repeat seq map]. now rewrite (IH (S s)). Qed.

Lemma map2_seq {A B C} (f : A -> B -> C) (g : nat -> B) (d : A) l s :
  map2 f l (map g (seq s (length l))) = map (fun i => f (nth (i - s) l d) (g i)) (seq s (length l)).
Proof.
  revert s; induction l as [|x l IH]; intros s; [reflexivity|].
  cbn [length seq map map2]. rewrite Nat.sub_diag. cbn [nth]. f_equal.
  rewrite IH. apply map_ext_in. intros i Hi. apply in_seq in Hi.
  replace (i - s)%nat with (S (i - S s)) by lia. reflexivity.
Qed.

Lemma map2_seq0 {A B C} (f : A -> B -> C) (g : nat -> B) (d : A) l n : length l = n ->
  map2 f l (map g (seq 0 n)) = map (fun i => f (nth i l d) (g i)) (seq 0 n).
Proof. intros <-. rewrite (map2_seq f g d l 0). apply map_ext. intros i. now rewrite Nat.sub_0_r. Qed.

Lemma tacount_ph_dosage n m ph : phases_ok n m ph -> tacount_ph n m ph = map dosage (alleles_of n m ph).
Proof.
  unfold tacount_ph, alleles_of. rewrite map_map. induction 1 as [|P ph (LP & RP & _) Hph IH]; cbn [fold_right].
  - rewrite (repeat_map_seq _ n 0). apply map_ext. intros i. unfold dosage. rewrite map_map. cbn [map sumZ fold_right].
    apply (repeat_map_seq 0 m 0).
  - rewrite IH. unfold zmadd. rewrite (map2_seq0 _ _ [] P n LP). apply map_ext_in. intros i Hi. apply in_seq in Hi.
    unfold dosage. rewrite !map_map.
    assert (Li : length (nth i P []) = m).
    { unfold rows_len in RP. rewrite Forall_forall in RP. apply RP, nth_In. lia. }
    rewrite (map2_seq0 _ _ 0 (nth i P []) m Li). apply map_ext. intros k. reflexivity.
Qed.

Lemma nth_is01 r k : Forall is01 r -> is01 (nth k r 0).
Proof.
  intros H. destruct (Nat.lt_ge_cases k (length r)) as [L|L].
  - rewrite Forall_forall in H. apply H, nth_In, L.
  - rewrite nth_overflow by exact L. left; reflexivity.
Qed.

Lemma alleles_of_ok n m ph : phases_ok n m ph -> alleles_ok (length ph) m (alleles_of n m ph).
Proof.
  intros H. unfold alleles_ok, alleles_of. rewrite Forall_map. apply Forall_forall. intros i _. split.
  - now rewrite map_length, seq_length.
  - rewrite Forall_map. apply Forall_forall. intros k _. split; [apply map_length|].
    rewrite Forall_map. eapply Forall_impl; [|exact H]. cbn beta. intros P (_ & _ & H01).
    apply nth_is01. destruct (Nat.lt_ge_cases i (length P)) as [L|L].
    + rewrite Forall_forall in H01. apply H01, nth_In, L.
    + rewrite nth_overflow by exact L. constructor.
Qed.

Lemma alleles_of_length n m ph : length (alleles_of n m ph) = n.
Proof. unfold alleles_of. now rewrite map_length, seq_length. Qed.

(** molecular coancestry of a phased matrix as stored = twice the mean IBS probability of its alleles *)
Theorem mol_phased_is_twice_ibs (n m : nat) (ph : list (list (list Z))) G i j :
  (length ph = 1 \/ length ph = 2)%nat -> (0 < m)%nat -> phases_ok n m ph -> (i < n)%nat -> (j < n)%nat ->
  mol_from_gmat (Z.of_nat (length ph)) m (tacount_ph n m ph) = ROk G ->
  (entry G i j == twice_mean_ibs (nth i (alleles_of n m ph) []) (nth j (alleles_of n m ph) []))%Q.
Proof.
  intros HP Hm Hph Hi Hj E. rewrite (tacount_ph_dosage n m ph Hph) in E.
  apply (mol_is_twice_ibs (Z.of_nat (length ph)) m (alleles_of n m ph) G i j).
  - destruct HP as [-> | ->]; [left | right]; reflexivity.
  - exact Hm.
  - rewrite Nat2Z.id. apply alleles_of_ok, Hph.
  - rewrite alleles_of_length. exact Hi.
  - rewrite alleles_of_length. exact Hj.
  - exact E.
Qed.
