(** C17 — the programs assembled from the kernel expressions regenerated from the source (Model/C17_KernelProg.v over
    Gen/C17_Kernel.v) ARE the hand model of Model/C17_Sampling.v.  If an expression of the source changes ([<] for [<=] in
    the walk, [k / tot_fit], [count_nonzero(c > 1)], [<=] for [<] in the acceptance test, swapped divmod arguments, ...)
    the regenerated definition no longer satisfies these lemmas and this file — hence Props/C17.vo — stops compiling. *)
From Coq Require Import Permutation Lqa Lia Sorting.Sorted Qround PrimFloat.
From PV Require Import Lib.Common Lib.FloatK Model.C17_Sampling Proofs.C17_Sampling Gen.C17_Kernel Model.C17_KernelProg.

(** * 1. stochastic universal sampling *)
Lemma k_sus_dist_model tot k : k_sus_dist tot (f_of_Z (Z.of_nat k)) = sus_dist_f tot k.
Proof. reflexivity. Qed.
Lemma k_sus_ptrs_model tot k off :
  map (fun i => k_sus_ptr off (k_sus_dist tot (f_of_Z (Z.of_nat k))) (f_of_Z (Z.of_nat i))) (seq 0 k) = sus_ptrs_f tot k off.
Proof. reflexivity. Qed.
Lemma k_sus_ptrs_q_model tot k off :
  map (fun i => k_sus_ptr_q off (k_sus_dist_q tot (inject_Z (Z.of_nat k))) (inject_Z (Z.of_nat i))) (seq 0 k) = sus_ptrs_q tot k off.
Proof. reflexivity. Qed.
Lemma k_npos_model p : k_npos p = npos p.
Proof. reflexivity. Qed.
Lemma k_sus_empty_model k : k_sus_empty (Z.of_nat k) = Nat.eqb k 0.
Proof. destruct k; reflexivity. Qed.
(** the offset is requested as uniform(0.0, ptr_dist) — low first — and not at all for an output size of zero *)
Lemma k_sus_draw_model p k :
  k_sus_draw p k = option_map (fun high => (0%float, high)) (sus_high_f p k).
Proof. unfold k_sus_draw, sus_high_f. rewrite k_sus_empty_model. destruct (Nat.eqb k 0); reflexivity. Qed.

Lemma skipn_nth_cons {A} (d : A) : forall ix (l : list A), (ix < length l)%nat -> skipn ix l = nth ix l d :: skipn (S ix) l.
Proof. induction ix; destruct l; simpl; intros H; try lia; [reflexivity|]. apply IHix. lia. Qed.

(** the while loop with the generated guard, run on indices, is the structural [advance] of the model on the first
    [np] = last+1 cumulative sums *)
Lemma kw_advance_model cs np : (np <= length cs)%nat -> forall fuel ix ptr, (np <= fuel + S ix)%nat ->
  snd (advance (skipn ix (firstn np cs)) ix ptr) = kw_advance fuel cs (k_sus_last (Z.of_nat np)) ix ptr.
Proof.
  intros Hnp. set (L := firstn np cs).
  assert (HL : forall ix, length (skipn ix L) = (np - ix)%nat).
  { intros ix. unfold L. rewrite skipn_length, firstn_length. lia. }
  induction fuel as [|f IH]; intros ix ptr Hf.
  - simpl. pose proof (HL ix) as E. destruct (skipn ix L) as [|c [|c' t]]; simpl in *; try reflexivity. lia.
  - cbn [kw_advance]. unfold k_sus_guard, k_sus_last.
    destruct (Z.ltb_spec (Z.of_nat ix) (Z.of_nat np - 1)) as [Hlt|Hge].
    + assert (Hix : (ix < length L)%nat) by (pose proof (HL 0%nat) as E; simpl in E; lia).
      rewrite (skipn_nth_cons 0%Q ix L Hix).
      pose proof (HL (S ix)) as E2. destruct (skipn (S ix) L) as [|c' t] eqn:E3; [simpl in E2; lia|].
      rewrite advance_cons2. unfold L at 1. rewrite nth_firstn_lt by lia. cbn [andb].
      destruct (Qle_bool (nth ix cs 0%Q) ptr); [|reflexivity].
      rewrite <- E3. apply IH. lia.
    + cbn [andb]. pose proof (HL ix) as E. destruct (skipn ix L) as [|c [|c' t]]; simpl in *; try reflexivity. lia.
Qed.

Lemma skipn_add {A} : forall b a (l : list A), skipn a (skipn b l) = skipn (b + a) l.
Proof. induction b; intros a l; [reflexivity|]. destruct l; simpl; [now destruct a|apply IHb]. Qed.

Lemma kw_walk_model cs np : (np <= length cs)%nat -> forall ptrs fuel ix, (np <= fuel + S ix)%nat ->
  sus_walk (skipn ix (firstn np cs)) ix ptrs = kw_walk fuel cs (k_sus_last (Z.of_nat np)) ix ptrs.
Proof.
  intros Hnp. induction ptrs as [|ptr rest IH]; intros fuel ix Hf; [reflexivity|].
  cbn [sus_walk kw_walk]. pose proof (kw_advance_model cs np Hnp fuel ix ptr Hf) as HA.
  rewrite advance_locate in *. cbn [snd] in HA. rewrite <- HA. f_equal.
  rewrite skipn_add. apply IH. lia.
Qed.

Lemma k_sus_finish_model order k p cs ptrs perm : (npos p <= length cs)%nat ->
  k_sus_finish order k p cs ptrs perm = sus_finish order k (npos p) cs ptrs perm.
Proof.
  intros H. unfold k_sus_finish, sus_finish. rewrite k_sus_empty_model, k_npos_model.
  rewrite <- (kw_walk_model cs (npos p) H ptrs (length cs) 0%nat) by lia. reflexivity.
Qed.

Lemma fcumsum_from_length l : forall acc, length (fcumsum_from acc l) = length l.
Proof. induction l; intros; simpl; [reflexivity|]. now rewrite IHl. Qed.
Lemma fcumsum_length l : length (fcumsum l) = length l.
Proof. destruct l; simpl; [reflexivity|]. now rewrite fcumsum_from_length. Qed.

(** the binary64 program assembled from the generated expressions is the model [sus_f] ... *)
Theorem k_sus_f_model p order k off perm : length order = length p -> k_sus_f p order k off perm = sus_f p order k off perm.
Proof.
  intros H. unfold k_sus_f, sus_f. cbv zeta.
  rewrite <- (map_map (fun i => k_sus_ptr off (k_sus_dist (fsum p) (f_of_Z (Z.of_nat k))) (f_of_Z (Z.of_nat i))) f2q).
  rewrite k_sus_ptrs_model. apply k_sus_finish_model.
  rewrite map_length, fcumsum_length. unfold gather. rewrite map_length, H, <- (map_length f2q p). apply npos_le_length.
Qed.
(** ... and the exact-rational one is [sus_q] *)
Theorem k_sus_q_model p order k off perm : length order = length p -> k_sus_q p order k off perm = sus_q p order k off perm.
Proof.
  intros H. unfold k_sus_q, sus_q. cbv zeta. rewrite k_sus_ptrs_q_model. apply k_sus_finish_model.
  unfold cumsum. rewrite cumsum_from_length. unfold gather. rewrite map_length, H. apply npos_le_length.
Qed.

(** * 4. outcross_shuffle *)
Local Open Scope Z_scope.

(** ** the objective: sum over the unique values of (count - 1) is entries minus distinct entries *)
Definition csum (l row : list Z) : Z := sumZ (map (fun u => Z.of_nat (count_occ Z.eq_dec row u)) l).
Lemma sumZ_cons a l : sumZ (a :: l) = a + sumZ l.
Proof. reflexivity. Qed.
Lemma csum_cons l x row : csum l (x :: row) = csum l row + Z.of_nat (count_occ Z.eq_dec l x).
Proof.
  unfold csum. induction l as [|u l IH]; [reflexivity|].
  rewrite !map_cons, !sumZ_cons, IH. cbn [count_occ].
  destruct (Z.eq_dec x u), (Z.eq_dec u x); subst; try congruence; lia.
Qed.
Lemma unique_counts_sum row : sumZ (unique_counts row) = Z.of_nat (length row).
Proof.
  unfold unique_counts. fold (csum (nodup Z.eq_dec row) row).
  induction row as [|x t IH]; [reflexivity|].
  cbn [nodup]. destruct (in_dec Z.eq_dec x t) as [Hin|Hni].
  - rewrite csum_cons, IH.
    assert (count_occ Z.eq_dec (nodup Z.eq_dec t) x = 1%nat) as ->.
    { apply NoDup_count_occ'; [apply NoDup_nodup | now apply nodup_In]. }
    cbn [length]. lia.
  - unfold csum. rewrite map_cons, sumZ_cons. fold (csum (nodup Z.eq_dec t) (x :: t)). rewrite csum_cons, IH.
    assert (count_occ Z.eq_dec (nodup Z.eq_dec t) x = 0%nat) as ->.
    { apply count_occ_not_In. intros H. apply Hni. now apply nodup_In in H. }
    rewrite count_occ_cons_eq by reflexivity.
    assert (count_occ Z.eq_dec t x = 0%nat) as -> by now apply count_occ_not_In.
    cbn [length]. lia.
Qed.
Lemma sumZ_dup_term l : sumZ (map k_oc_dup_term l) = sumZ l - Z.of_nat (length l).
Proof.
  induction l as [|c l IH]; [reflexivity|]. rewrite map_cons, !sumZ_cons, IH. cbn [length]. unfold k_oc_dup_term. lia.
Qed.
Lemma k_oc_row_model row : sumZ (map k_oc_dup_term (unique_counts row)) = dups row.
Proof.
  rewrite sumZ_dup_term, unique_counts_sum. unfold dups, unique_counts. now rewrite map_length.
Qed.
Lemma fold_left_acc {A} (f : A -> Z) l : forall a, fold_left (fun out r => out + f r) l a = a + sumZ (map f l).
Proof.
  induction l as [|r l IH]; intros a; [cbn; lia|]. cbn [fold_left]. rewrite map_cons, sumZ_cons, IH. lia.
Qed.
Lemma k_oc_objfn_model m x : k_oc_objfn m x = score m x.
Proof.
  unfold k_oc_objfn, score. rewrite fold_left_acc. cbn. f_equal. apply map_ext. exact k_oc_row_model.
Qed.

(** ** the exchange list *)
Lemma zrange_nat a b : zrange (Z.of_nat a) (Z.of_nat b) = seq a (b - a).
Proof. unfold zrange. f_equal; lia. Qed.
Lemma k_oc_pairs_model n : k_oc_pairs n = all_pairs n.
Proof.
  unfold k_oc_pairs, all_pairs, k_oc_i_lo, k_oc_i_hi, k_oc_j_lo, k_oc_j_hi, k_oc_pair.
  change 0 with (Z.of_nat 0). rewrite zrange_nat, Nat.sub_0_r. apply flat_map_ext. intros i.
  replace (Z.of_nat i + 1) with (Z.of_nat (S i)) by lia. now rewrite zrange_nat.
Qed.

(** ** the exchange statement *)
Lemma nth_map_seq {A} (g : nat -> A) d n t : (t < n)%nat -> nth t (map g (seq 0 n)) d = g t.
Proof.
  intros H. rewrite (nth_indep _ d (g 0%nat)) by (rewrite map_length, seq_length; exact H).
  rewrite map_nth, seq_nth by exact H. reflexivity.
Qed.
Lemma set_z_length p v x : length (set_z p v x) = length x.
Proof. unfold set_z. now rewrite map_length, seq_length. Qed.
Lemma k_oc_exchange_model i j x : k_oc_exchange i j x = swap i j x.
Proof.
  unfold k_oc_exchange, k_oc_swap, swap. unfold set_z at 1. rewrite set_z_length. apply map_ext_in. intros t Ht.
  apply in_seq in Ht. unfold set_z. rewrite nth_map_seq by lia.
  destruct (Nat.eqb_spec t j), (Nat.eqb_spec t i); subst; reflexivity.
Qed.
Lemma swap_nth i j x t : (t < length x)%nat ->
  nth t (swap i j x) 0 = if Nat.eqb t i then nth j x 0 else if Nat.eqb t j then nth i x 0 else nth t x 0.
Proof. intros H. unfold swap. now rewrite nth_map_seq. Qed.
(** the undo restores the table *)
Lemma swap_invol i j x : valid_pair (length x) (i, j) -> swap i j (swap i j x) = x.
Proof.
  intros [E|[Hi Hj]]; [apply length_zero_iff_nil in E; now subst|]. cbn [fst snd] in *.
  transitivity (map (fun t => nth t x 0) (seq 0 (length x))); [|apply map_nth_seq]. unfold swap at 1. rewrite swap_length. apply map_ext_in. intros t Ht. apply in_seq in Ht.
  rewrite !swap_nth by lia. rewrite !Nat.eqb_refl.
  destruct (Nat.eqb_spec t i), (Nat.eqb_spec t j), (Nat.eqb_spec j i), (Nat.eqb_spec i j); subst; try reflexivity; try congruence.
Qed.

(** ** the pass over the exchanges and the descent loop *)
Lemma k_oc_first_model m x best pairs : Forall (valid_pair (length x)) pairs ->
  k_oc_first m x best pairs = first_improving m x best pairs.
Proof.
  induction pairs as [|[i j] t IH]; intros Hv; [reflexivity|]. cbn [k_oc_first first_improving].
  rewrite !k_oc_exchange_model, k_oc_objfn_model, (swap_invol i j x (Forall_inv Hv)). unfold k_oc_accept.
  destruct (score m (swap i j x) <? best); [reflexivity|]. apply IH. exact (Forall_inv_tail Hv).
Qed.
Lemma k_oc_loop_model pms : forall m x exch best n, Forall (valid_pair (length x)) exch ->
  k_oc_loop pms m x exch best n = outcross_loop pms m x exch best n.
Proof.
  induction pms as [|pm rest IH]; intros m x exch best n Hv; [reflexivity|]. cbn [k_oc_loop outcross_loop].
  pose proof (permute_valid _ pm _ Hv) as Hv'. rewrite (k_oc_first_model _ _ _ _ Hv').
  destruct (first_improving m x best (permute (0%nat, 0%nat) pm exch)) as [[x' s]|] eqn:Ef; cbn.
  - destruct (first_improving_some _ _ _ _ _ _ Ef) as (i & j & _ & Ex & _). apply IH. subst x'. now rewrite swap_length.
  - reflexivity.
Qed.
(** the program assembled from the generated expressions is the model [outcross] *)
Theorem k_outcross_model m x pms : k_outcross m x pms = outcross m x pms.
Proof.
  unfold k_outcross, outcross. rewrite k_oc_pairs_model, k_oc_objfn_model. apply k_oc_loop_model, all_pairs_valid.
Qed.

(** * 3. axis_shuffle: the slices are generated from (shape, axes) in this order *)
Lemma k_axis_shuffle_model shape axis pms a : k_axis_shuffle shape axis pms a = axis_shuffle shape axis pms a.
Proof. reflexivity. Qed.
(** sliceaxisix: the leaf test [len(l) == len(s) - 1] singles out the last dimension, where the model's recursion on the
    shape ends *)
Lemma k_sax_leaf_model (done rest : list nat) d :
  k_sax_leaf (Z.of_nat (length done)) (Z.of_nat (length (done ++ d :: rest))) = match rest with [] => true | _ => false end.
Proof.
  unfold k_sax_leaf. rewrite app_length. cbn [length]. destruct rest; cbn [length].
  - apply Z.eqb_eq. lia.
  - apply Z.eqb_neq. lia.
Qed.

(** * 2. tiled_choice *)
Local Open Scope nat_scope.
Lemma tiles_nth n : forall q t, t < q * n -> nth t (concat (repeat (seq 0 n) q)) 0 = t mod n.
Proof.
  induction q as [|q IH]; intros t H; [simpl in H; lia|].
  cbn [repeat concat]. destruct (Nat.lt_ge_cases t n) as [L|G].
  - rewrite app_nth1 by (rewrite seq_length; lia). rewrite seq_nth by lia. rewrite Nat.mod_small; lia.
  - rewrite app_nth2 by (rewrite seq_length; lia). rewrite seq_length. rewrite IH by (simpl in H; lia).
    replace t with ((t - n) + 1 * n) at 2 by lia. rewrite Nat.mod_add by lia. reflexivity.
Qed.
Lemma k_tiled_qu_model ns n : k_tiled_qu (Z.of_nat ns) (Z.of_nat n) = Z.of_nat (ns / n).
Proof. unfold k_tiled_qu. now rewrite Nat2Z.inj_div. Qed.
Lemma k_tiled_req_model n ns : k_tiled_req n ns = Z.of_nat (tiled_re n ns).
Proof. unfold k_tiled_req, tiled_re, k_tiled_re. destruct (Nat.eqb n 0); [reflexivity|]. now rewrite Nat2Z.inj_mod. Qed.
Lemma tiled_ix_length n ns choice : 0 < n -> length choice = ns mod n -> length (tiled_ix n ns choice) = ns.
Proof.
  intros Hn Hc. unfold tiled_ix. rewrite app_length, tiles_length, Hc. pose proof (Nat.div_mod ns n). lia.
Qed.
(** entry t of the output written tile by tile at the generated slice bounds is entry t of the model's
    concatenation of whole tiles and remainder *)
Lemma k_tiled_at_model n ns choice t : 0 < n -> t < ns -> length choice = ns mod n ->
  k_tiled_at n ns choice t = nth t (tiled_ix n ns choice) 0.
Proof.
  intros Hn Ht Hc. unfold k_tiled_at, tiled_ix. cbv zeta. rewrite k_tiled_qu_model.
  unfold k_tiled_rest, k_tiled_lo, k_tiled_hi. set (q := ns / n).
  destruct (Z.leb_spec (Z.of_nat q * Z.of_nat n) (Z.of_nat t)) as [L|G].
  - rewrite app_nth2 by (rewrite tiles_length; lia). rewrite tiles_length. f_equal. lia.
  - rewrite app_nth1 by (rewrite tiles_length; lia). rewrite tiles_nth by lia.
    change 0%Z with (Z.of_nat 0). rewrite zrange_nat, Nat.sub_0_r.
    match goal with |- match find ?f ?l with _ => _ end = _ => destruct (find f l) as [i|] eqn:E end.
    + apply find_some in E as [_ Hp]. apply andb_true_iff in Hp as [H1 H2]. apply Z.leb_le in H1. apply Z.ltb_lt in H2.
      apply (Nat.mod_unique t n i); lia.
    + exfalso. pose proof (find_none _ _ E (t / n)) as Hf. cbv beta in Hf.
      assert (Hin : In (t / n) (rev (seq 0 q))).
      { apply in_rev. rewrite rev_involutive. apply in_seq. split; [lia|]. apply Nat.div_lt_upper_bound; lia. }
      specialize (Hf Hin). apply andb_false_iff in Hf.
      pose proof (Nat.mul_div_le t n). pose proof (Nat.mul_succ_div_gt t n).
      destruct Hf as [Hf|Hf]; [apply Z.leb_gt in Hf | apply Z.ltb_ge in Hf]; lia.
Qed.
Lemma k_tiled_ix_model n ns choice : 0 < n -> length choice = ns mod n -> k_tiled_ix n ns choice = tiled_ix n ns choice.
Proof.
  intros Hn Hc. transitivity (map (fun t => nth t (tiled_ix n ns choice) 0) (seq 0 (length (tiled_ix n ns choice)))); [|apply map_nth_seq].
  rewrite tiled_ix_length by assumption. unfold k_tiled_ix. apply map_ext_in. intros t Ht. apply in_seq in Ht.
  apply k_tiled_at_model; [assumption | lia | assumption].
Qed.
(** the program assembled from the generated expressions is the model [tiled_sel], for every non-empty option set, every
    remainder draw (of the requested size or not) and every shuffle *)
Theorem k_tiled_sel_model n ns choice perm : 0 < n -> k_tiled_sel n ns choice perm = tiled_sel n ns choice perm.
Proof.
  intros Hn. unfold k_tiled_sel, tiled_sel. rewrite k_tiled_req_model, Nat2Z.id. unfold tiled_re.
  destruct (Nat.eqb_spec n 0) as [E|_]; [lia|]. cbv zeta.
  assert (HL : length (tiled_ix n ns choice) = ns / n * n + length choice) by (unfold tiled_ix; now rewrite app_length, tiles_length).
  pose proof (Nat.div_mod ns n).
  destruct (Nat.eqb_spec (length choice) (ns mod n)) as [Hc|Hc].
  - rewrite k_tiled_ix_model by assumption. destruct (Nat.eqb_spec (length (tiled_ix n ns choice)) ns); [reflexivity|lia].
  - destruct (Nat.eqb_spec (length (tiled_ix n ns choice)) ns); [lia|reflexivity].
Qed.

(** * the property theorems, restated about the programs assembled from the generated expressions *)
Local Open Scope Q_scope.
Lemma perm_seq_length (order : list nat) n : Permutation order (seq 0 n) -> length order = n.
Proof. intros H. rewrite (Permutation_length H). apply seq_length. Qed.

(** the cells of the walk are half open: the index moves on exactly while it is below [last] and the cumulative sum is
    at or below the pointer (a pointer on a boundary belongs to the next element) *)
Lemma kernel_guard_half_open ix last c ptr : k_sus_guard ix last c ptr = true <-> (ix < last)%Z /\ c <= ptr.
Proof.
  unfold k_sus_guard. rewrite andb_true_iff, Z.ltb_lt, Qle_bool_iff. reflexivity.
Qed.

Theorem kernel_sus_q_spec (p : list Q) (order : list nat) (k : nat) (off : Q) (perm : list nat) :
  Forall (fun x => 0 <= x) p -> 0 < sumQ p -> Permutation order (seq 0 (length p)) ->
  nonincr (gather 0 p order) = true ->
  ((0 < k)%nat -> 0 <= off /\ off < k_sus_dist_q (sumQ p) (inject_Z (Z.of_nat k))) -> Permutation perm (seq 0 k) ->
  exists sel, k_sus_q p order k off perm = Some sel /\ length sel = k /\
    forall i, (i < length p)%nat ->
      (Qfloor (nth i p 0 * inject_Z (Z.of_nat k) / sumQ p)%Q <= Z.of_nat (count_nat i sel)
       <= Qceiling (nth i p 0 * inject_Z (Z.of_nat k) / sumQ p)%Q)%Z
      /\ (nth i p 0 == 0 -> count_nat i sel = 0%nat).
Proof.
  intros H1 H2 H3 H4 H5 H6. rewrite (k_sus_q_model p order k off perm (perm_seq_length _ _ H3)).
  exact (sus_q_spec p order k off perm H1 H2 H3 H4 H5 H6).
Qed.

Theorem kernel_sus_f_spec (p : list float) order k off perm :
  let pq := map f2q p in
  Forall (fun x => 0 <= x) pq -> 0 < sumQ pq -> Permutation order (seq 0 (length p)) ->
  nonincr (gather 0 pq order) = true -> Permutation perm (seq 0 k) ->
  exists sel, k_sus_f p order k off perm = Some sel /\ length sel = k /\
    (forall i, In i sel -> (i < length p)%nat /\ 0 < nth i pq 0) /\
    (forall i, nth i pq 0 == 0 -> count_nat i sel = 0%nat).
Proof.
  intros pq H1 H2 H3 H4 H5. pose proof (perm_seq_length _ _ H3) as HL. rewrite (k_sus_f_model p order k off perm HL).
  destruct (sus_f_count p order k off perm) as (sel & E & Hlen).
  - intros _ ->. cbn in H2. revert H2. apply Qlt_irrefl.
  - now apply perm_seq_length.
  - exact HL.
  - exists sel. split; [exact E|]. split; [exact Hlen|]. exact (sus_f_no_zero_weight p order k off perm sel H1 H2 H3 H4 H5 E).
Qed.

Theorem kernel_sus_f_within_one (p : list float) order k off perm (dp dc : Q) :
  let pq := map f2q p in
  Forall (fun x => 0 <= x) pq -> 0 < sumQ pq -> Permutation order (seq 0 (length p)) ->
  nonincr (gather 0 pq order) = true -> (0 < k)%nat -> Permutation perm (seq 0 k) ->
  0 <= dp -> 0 <= dc -> 2 * (dp + dc) < sumQ pq / inject_Z (Z.of_nat k) ->
  0 <= f2q off -> f2q off < sumQ pq / inject_Z (Z.of_nat k) + (dp + dc) ->
  StronglySorted Qle (map f2q (fcumsum (gather 0%float p order))) ->
  StronglySorted Qle (map f2q (sus_ptrs_f (fsum p) k off)) ->
  Forall2 (fun a b => b - dc <= a /\ a <= b + dc) (map f2q (fcumsum (gather 0%float p order))) (cumsum (gather 0 pq order)) ->
  Forall2 (fun a b => b - dp <= a /\ a <= b + dp) (map f2q (sus_ptrs_f (fsum p) k off)) (sus_ptrs_q (sumQ pq) k (f2q off)) ->
  exists sel, k_sus_f p order k off perm = Some sel /\ length sel = k /\
    forall i, (i < length p)%nat ->
      (Qfloor (nth i pq 0 * inject_Z (Z.of_nat k) / sumQ pq)%Q - 1 <= Z.of_nat (count_nat i sel)
       <= Qceiling (nth i pq 0 * inject_Z (Z.of_nat k) / sumQ pq)%Q + 1)%Z.
Proof.
  intros pq H1 H2 H3. rewrite (k_sus_f_model p order k off perm (perm_seq_length _ _ H3)).
  exact (sus_f_within_one p order k off perm dp dc H1 H2 H3).
Qed.

Theorem kernel_tiled_even (n nsample : nat) (choice perm : list nat) :
  (0 < n)%nat -> NoDup choice -> Forall (fun t => (t < n)%nat) choice -> Z.of_nat (length choice) = k_tiled_re (Z.of_nat nsample) (Z.of_nat n) ->
  Permutation perm (seq 0 nsample) ->
  exists sel, k_tiled_sel n nsample choice perm = Some sel /\ length sel = nsample /\
    Forall (fun t => (t < n)%nat) sel /\
    forall i, (i < n)%nat -> count_nat i sel = (Z.to_nat (k_tiled_qu (Z.of_nat nsample) (Z.of_nat n)) + count_nat i choice)%nat /\ (count_nat i choice <= 1)%nat.
Proof.
  intros Hn H1 H2 H3 H4. rewrite (k_tiled_sel_model n nsample choice perm Hn), k_tiled_qu_model, Nat2Z.id.
  apply tiled_even; try assumption. unfold k_tiled_re in H3. rewrite <- Nat2Z.inj_mod in H3. now apply Nat2Z.inj.
Qed.

Theorem kernel_outcross_spec m x pms :
  ((Z.to_nat (k_oc_objfn m x) < length pms)%nat -> exists r, k_outcross m x pms = Some r) /\
  forall y n, k_outcross m x pms = Some (y, n) ->
    Permutation y x /\ (k_oc_objfn m y <= k_oc_objfn m x)%Z /\ (1 <= n <= Z.to_nat (k_oc_objfn m x) + 1)%nat /\
    (Forall (fun pm => Permutation pm (seq 0 (length (k_oc_pairs (length x))))) pms ->
     forall i j, (i < j < length y)%nat -> (k_oc_objfn m y <= k_oc_objfn m (k_oc_exchange i j y))%Z).
Proof.
  rewrite k_outcross_model, !k_oc_objfn_model, k_oc_pairs_model. split; [apply outcross_terminates|].
  intros y n H. rewrite !k_oc_objfn_model. destruct (outcross_sound m x pms y n H) as (P1 & P2 & P3).
  repeat split; try assumption; try lia.
  intros Hp i j Hij. rewrite k_oc_exchange_model, k_oc_objfn_model. exact (outcross_local_optimum m x pms y n Hp H i j Hij).
Qed.

(** all model equalities in one statement *)
Theorem kernel_is_model :
  (forall p order k off perm, length order = length p -> k_sus_f p order k off perm = sus_f p order k off perm) /\
  (forall p order k off perm, length order = length p -> k_sus_q p order k off perm = sus_q p order k off perm) /\
  (forall p k, k_sus_draw p k = option_map (fun high => (0%float, high)) (sus_high_f p k)) /\
  (forall n ns choice perm, (0 < n)%nat -> k_tiled_sel n ns choice perm = tiled_sel n ns choice perm) /\
  (forall n ns, k_tiled_req n ns = Z.of_nat (tiled_re n ns)) /\
  (forall shape axis pms a, k_axis_shuffle shape axis pms a = axis_shuffle shape axis pms a) /\
  (forall m x pms, k_outcross m x pms = outcross m x pms).
Proof.
  repeat split.
  - exact k_sus_f_model.
  - exact k_sus_q_model.
  - exact k_sus_draw_model.
  - exact k_tiled_sel_model.
  - exact k_tiled_req_model.
  - exact k_outcross_model.
Qed.
