(** C13 — lemmas about Model/C13_Coanc.v *)
From Coq Require Import Qround.
From PV Require Import Lib.Common Model.C13_Coanc.
Local Open Scope Q_scope.

(** * sums *)
Lemma sumQ_cons x l : sumQ (x :: l) = x + sumQ l.
Proof. reflexivity. Qed.

Lemma sumQr_eq l : sumQr l == sumQ l.
Proof.
  induction l as [|x l IH]; [reflexivity|].
  unfold sumQr in *. cbn [fold_right]. rewrite Qred_correct, IH. reflexivity.
Qed.

Lemma dotQr_eq a b : dotQr a b == dotQ a b.
Proof. unfold dotQr, dotQ. apply sumQr_eq. Qed.

Lemma dotQ_nil_l b : dotQ [] b = 0.
Proof. reflexivity. Qed.
Lemma dotQ_nil_r a : dotQ a [] = 0.
Proof. destruct a; reflexivity. Qed.
Lemma dotQ_cons x a y b : dotQ (x :: a) (y :: b) = x * y + dotQ a b.
Proof. reflexivity. Qed.

Lemma dotQ_comm a b : dotQ a b == dotQ b a.
Proof.
  revert b; induction a as [|x a IH]; intros [|y b]; try reflexivity.
  rewrite !dotQ_cons, IH. ring.
Qed.

(** pointwise-equal second arguments *)
Lemma dotQ_map_ext {A} (f g : A -> Q) (x : list Q) (R : list A) :
  (forall r, In r R -> f r == g r) -> dotQ x (map f R) == dotQ x (map g R).
Proof.
  revert x; induction R as [|r R IH]; intros x H.
  - cbn [map]. rewrite !dotQ_nil_r. reflexivity.
  - destruct x as [|xi x]; [reflexivity|]. cbn [map]. rewrite !dotQ_cons.
    rewrite (H r) by (left; reflexivity). rewrite IH by (intros; apply H; right; assumption). reflexivity.
Qed.

(** * the canonical weighted dot product  sum_k w_k a_k b_k *)
Fixpoint wdot (w a b : list Q) : Q :=
  match w, a, b with
  | wk :: w', ak :: a', bk :: b' => wk * ak * bk + wdot w' a' b'
  | _, _, _ => 0
  end.

Lemma wdot_sym w a b : wdot w a b == wdot w b a.
Proof.
  revert a b; induction w as [|wk w IH]; intros [|ak a] [|bk b]; try reflexivity.
  cbn [wdot]. rewrite IH. ring.
Qed.

Lemma Qsq_nonneg (a : Q) : 0 <= a * a.
Proof.
  destruct a as [n d]. unfold Qle, Qmult. cbn. rewrite Z.mul_1_r. apply Z.square_nonneg.
Qed.

Lemma wdot_nonneg w a : Forall (fun q => 0 <= q) w -> 0 <= wdot w a a.
Proof.
  intros H; revert a; induction H as [|wk w Hk Hw IH]; intros [|ak a]; try apply Qle_refl.
  cbn [wdot]. specialize (IH a).
  assert (0 <= wk * ak * ak).
  { rewrite <- Qmult_assoc. apply Qmult_le_0_compat; [exact Hk|apply Qsq_nonneg]. }
  setoid_replace 0 with (0 + 0) by ring. apply Qplus_le_compat; assumption.
Qed.

Definition vadd : list Q -> list Q -> list Q := map2 Qplus.
Definition vscale (t : Q) : list Q -> list Q := map (Qmult t).

Lemma wdot_vadd_l w a a' b : length a = length a' -> wdot w (vadd a a') b == wdot w a b + wdot w a' b.
Proof.
  revert a a' b; induction w as [|wk w IH]; intros a a' b L.
  - cbn. ring.
  - destruct a as [|ak a]; destruct a' as [|ak' a']; try discriminate L.
    + cbn. ring.
    + destruct b as [|bk b]; [cbn; ring|].
      cbn [vadd map2 wdot]. fold (vadd a a'). rewrite IH by (cbn in L; congruence). ring.
Qed.

Lemma wdot_vscale_l w t a b : wdot w (vscale t a) b == t * wdot w a b.
Proof.
  revert a b; induction w as [|wk w IH]; intros [|ak a] [|bk b]; cbn [vscale map wdot]; try ring.
  fold (vscale t a). rewrite IH. ring.
Qed.

Lemma wdot_zero_l w p b : wdot w (repeat 0 p) b == 0.
Proof.
  revert p b; induction w as [|wk w IH]; intros [|p] [|bk b]; cbn [repeat wdot]; try reflexivity.
  rewrite IH. ring.
Qed.

(** sum_i x_i z_i  for rows of length p *)
Fixpoint lincomb (p : nat) (x : list Q) (Zm : list (list Q)) : list Q :=
  match x, Zm with
  | xi :: x', zi :: Z' => vadd (vscale xi zi) (lincomb p x' Z')
  | _, _ => repeat 0 p
  end.

Lemma lincomb_length p x Zm : Forall (fun z => length z = p) Zm -> length (lincomb p x Zm) = p.
Proof.
  intros H; revert x; induction H as [|z Zm Hz HZ IH]; intros [|xi x]; cbn [lincomb]; try apply repeat_length.
  unfold vadd, vscale. rewrite map2_length, map_length, IH, Hz. apply Nat.min_id.
Qed.

Lemma dot_wdot_lincomb w p x Zm v : Forall (fun z => length z = p) Zm ->
  dotQ x (map (fun z => wdot w z v) Zm) == wdot w (lincomb p x Zm) v.
Proof.
  intros H; revert x; induction H as [|z Zm Hz HZ IH]; intros [|xi x]; cbn [map lincomb];
    rewrite ?dotQ_nil_l, ?dotQ_nil_r, ?wdot_zero_l; try reflexivity.
  rewrite dotQ_cons, IH, wdot_vadd_l, wdot_vscale_l; [reflexivity|].
  unfold vscale. rewrite map_length, lincomb_length by exact HZ. exact Hz.
Qed.

(** * Gram form: G_ij = e r_i r_j with e = weighted dot product of embedded rows *)
Definition gram {A} (e : A -> A -> Q) (R : list A) : list (list Q) := map (fun ri => map (fun rj => e ri rj) R) R.

Lemma qform_unfold x G : qform x G == dotQ x (map (dotQ x) G).
Proof.
  unfold qform. rewrite dotQr_eq.
  rewrite <- (map_id G) at 1 2. rewrite !map_map.
  apply dotQ_map_ext. intros r _. apply dotQr_eq.
Qed.

Section Gram.
  Context {A : Type} (e : A -> A -> Q) (phi : A -> list Q) (w : list Q) (p : nat) (R : list A).
  Hypothesis He : forall a b, In a R -> In b R -> e a b == wdot w (phi a) (phi b).
  Hypothesis Hlen : Forall (fun r => length (phi r) = p) R.

  Lemma Hlen' : Forall (fun z => length z = p) (map phi R).
  Proof. rewrite Forall_map. exact Hlen. Qed.

  Lemma qform_gram x : qform x (gram e R) == wdot w (lincomb p x (map phi R)) (lincomb p x (map phi R)).
  Proof.
    set (L := lincomb p x (map phi R)).
    rewrite qform_unfold. unfold gram. rewrite map_map.
    (* inner sums *)
    rewrite (dotQ_map_ext _ (fun ri => wdot w (phi ri) L)).
    - rewrite <- (map_map phi (fun z => wdot w z L)). subst L. apply dot_wdot_lincomb, Hlen'.
    - intros ri Hi.
      rewrite (dotQ_map_ext _ (fun rj => wdot w (phi rj) (phi ri))).
      + rewrite <- (map_map phi (fun z => wdot w z (phi ri))).
        rewrite (dot_wdot_lincomb w p x (map phi R) (phi ri) Hlen'). apply wdot_sym.
      + intros rj Hj. rewrite He by assumption. apply wdot_sym.
  Qed.

  Theorem gram_psd x : Forall (fun q => 0 <= q) w -> 0 <= qform x (gram e R).
  Proof. intros Hw. rewrite qform_gram. apply wdot_nonneg, Hw. Qed.

  Lemma gram_entry (d : A) i j : (i < length R)%nat -> (j < length R)%nat ->
    entry (gram e R) i j = e (nth i R d) (nth j R d).
  Proof.
    intros Hi Hj. unfold entry, gram.
    rewrite (nth_indep _ [] (map (fun rj => e d rj) R)) by (rewrite map_length; exact Hi).
    rewrite (map_nth (fun ri => map (fun rj => e ri rj) R) R d i).
    rewrite (nth_indep _ 0 (e (nth i R d) d)) by (rewrite map_length; exact Hj).
    apply (map_nth (fun rj => e (nth i R d) rj) R d j).
  Qed.

  Lemma gram_entry_out i j : (length R <= i)%nat \/ (length R <= j)%nat -> entry (gram e R) i j = 0.
  Proof.
    intros H. unfold entry, gram.
    destruct (Nat.lt_ge_cases i (length R)) as [Hi|Hi].
    - destruct H as [H|H]; [lia|].
      set (row := nth i _ _).
      assert (length row = length R) as Hr.
      { subst row. destruct R as [|d R']; [cbn in Hi; lia|].
        rewrite (nth_indep _ [] (map (fun rj => e d rj) (d :: R'))) by (rewrite map_length; exact Hi).
        rewrite (map_nth (fun ri => map (fun rj => e ri rj) (d :: R')) (d :: R') d i). apply map_length. }
      apply nth_overflow. lia.
    - rewrite (nth_overflow _ []) by (rewrite map_length; exact Hi). destruct j; reflexivity.
  Qed.

  Theorem gram_sym i j : entry (gram e R) i j == entry (gram e R) j i.
  Proof.
    destruct (Nat.lt_ge_cases i (length R)) as [Hi|Hi]; destruct (Nat.lt_ge_cases j (length R)) as [Hj|Hj].
    - destruct R as [|d R'] eqn:ER; [cbn in Hi; lia|]. rewrite <- ER in *.
      rewrite (gram_entry d i j Hi Hj), (gram_entry d j i Hj Hi).
      rewrite !He by (apply nth_In; assumption). apply wdot_sym.
    - rewrite !gram_entry_out by (auto). reflexivity.
    - rewrite !gram_entry_out by (auto). reflexivity.
    - rewrite !gram_entry_out by (auto). reflexivity.
  Qed.
End Gram.

(** taxa selection commutes with the Gram construction *)
Lemma gram_select {A} (e : A -> A -> Q) (d : A) (ix : list nat) (R : list A) :
  Forall (fun i => (i < length R)%nat) ix -> gram e (select d ix R) = select2 ix (gram e R).
Proof.
  intros H. unfold gram, select, select2. rewrite map_map.
  apply map_ext_in. intros i Hi. rewrite map_map. apply map_ext_in. intros j Hj.
  rewrite Forall_forall in H. symmetry. apply (gram_entry e R d i j); apply H; assumption.
Qed.

Lemma qred_gram {A} (e : A -> A -> Q) (R : list A) : qred_mat (gram e R) = gram (fun a b => Qred (e a b)) R.
Proof. unfold qred_mat, gram. rewrite map_map. apply map_ext. intros a. rewrite map_map. reflexivity. Qed.

(** a matrix is a non-negatively weighted Gram matrix *)
Inductive is_gram (G : list (list Q)) : Prop :=
| IsGram (A : Type) (e : A -> A -> Q) (phi : A -> list Q) (w : list Q) (p : nat) (R : list A) :
    G = gram e R ->
    (forall a b, In a R -> In b R -> e a b == wdot w (phi a) (phi b)) ->
    Forall (fun r => length (phi r) = p) R ->
    Forall (fun q => 0 <= q) w -> is_gram G.

Theorem is_gram_psd G x : is_gram G -> 0 <= qform x G.
Proof. intros [A e phi w p R -> He Hl Hw]. apply (gram_psd e phi w p R He Hl x Hw). Qed.

Theorem is_gram_sym G i j : is_gram G -> entry G i j == entry G j i.
Proof. intros [A e phi w p R -> He Hl Hw]. eapply gram_sym; [exact He | exact Hl]. Qed.

Lemma is_gram_length G : is_gram G -> Forall (fun r => length r = length G) G.
Proof.
  intros [A e phi w p R -> _ _ _]. unfold gram. rewrite map_length, Forall_map. apply Forall_forall. intros r _. apply map_length.
Qed.

(** * shapes *)
Definition rows_len {A} (m : nat) (X : list (list A)) : Prop := Forall (fun r => length r = m) X.
Definition dosages_ok (pl : Z) (X : list (list Z)) : Prop := Forall (Forall (fun x => (0 <= x <= pl)%Z)) X.
Definition in01P (q : Q) : Prop := 0 <= q /\ q <= 1.

Lemma in01_spec q : in01 q = true -> in01P q.
Proof. unfold in01, in01P. intros H. apply andb_prop in H as [H1 H2]. split; apply Qle_bool_iff; assumption. Qed.

Lemma forallb_in01 l : forallb in01 l = true -> Forall in01P l.
Proof. rewrite forallb_forall, Forall_forall. intros H x Hx. apply in01_spec, H, Hx. Qed.

Lemma Forall_map2 {A B C} (P : A -> Prop) (Q' : B -> Prop) (S : C -> Prop) (f : A -> B -> C) a b :
  (forall x y, P x -> Q' y -> S (f x y)) -> Forall P a -> Forall Q' b -> Forall S (map2 f a b).
Proof.
  intros H Ha; revert b; induction Ha as [|x a Hx Ha IH]; intros b Hb; [constructor|].
  destruct Hb as [|y b Hy Hb]; [constructor|]. cbn [map2]. constructor; [apply H; assumption | apply IH, Hb].
Qed.

Lemma colsumsZ_length m X : rows_len m X -> length (colsumsZ m X) = m.
Proof.
  unfold colsumsZ. induction 1 as [|r X Hr HX IH]; cbn [fold_right]; [apply repeat_length|].
  rewrite map2_length, IH, Hr. apply Nat.min_id.
Qed.

Lemma colsums_bound pl m X : (0 <= pl)%Z -> dosages_ok pl X ->
  Forall (fun c => (0 <= c <= pl * Z.of_nat (length X))%Z) (colsumsZ m X).
Proof.
  intros Hp H. unfold colsumsZ. induction H as [|r X Hr HX IH]; cbn [fold_right length].
  - apply Forall_forall. intros c Hc. apply repeat_spec in Hc. subst c. lia.
  - eapply Forall_map2; [| exact Hr | exact IH]. cbn beta. intros x y Hx Hy. lia.
Qed.

Lemma ratio_in01 c N : (0 <= c <= N)%Z -> in01P (Zq c / Zq N).
Proof.
  intros H. unfold in01P, Zq. destruct (Z.eq_dec N 0) as [E|NE].
  - assert (c = 0%Z) by lia. subst. split; discriminate.
  - assert (0 < inject_Z N) as HN by (change (inject_Z 0 < inject_Z N); rewrite <- Zlt_Qlt; lia). split.
    + apply Qle_shift_div_l; [exact HN|]. rewrite Qmult_0_l. change (inject_Z 0 <= inject_Z c). rewrite <- Zle_Qle. lia.
    + apply Qle_shift_div_r; [exact HN|]. rewrite Qmult_1_l. rewrite <- Zle_Qle. lia.
Qed.

Lemma afreq_est_in01 pl m X : (0 <= pl)%Z -> dosages_ok pl X -> Forall in01P (afreq_est pl m X).
Proof.
  intros Hp H. unfold afreq_est. rewrite Forall_map. eapply Forall_impl; [|apply (colsums_bound pl m X Hp H)].
  cbn beta. intros c Hc. apply ratio_in01. unfold ntaxaZ. exact Hc.
Qed.

Lemma afreq_est_length pl m X : rows_len m X -> length (afreq_est pl m X) = m.
Proof. intros H. unfold afreq_est. rewrite map_length. apply colsumsZ_length, H. Qed.

(** what a successful argument resolution guarantees *)
Lemma resolve_freq_ok pl m X a p : rows_len m X -> (0 <= pl)%Z -> (a = ANone -> dosages_ok pl X) ->
  resolve_freq pl m X a = ROk p -> length p = m /\ Forall in01P p.
Proof.
  intros HX Hp Hd. destruct a as [|q|l]; cbn [resolve_freq].
  - intros E; injection E as <-. split; [apply afreq_est_length, HX | apply afreq_est_in01; auto].
  - destruct (in01 q) eqn:E; [|discriminate]. intros E'; injection E' as <-. split; [apply repeat_length|].
    apply Forall_forall. intros x Hx. apply repeat_spec in Hx. subst. apply in01_spec, E.
  - destruct (Nat.eqb (length l) m) eqn:EL; cbn [negb]; [|discriminate].
    destruct (forallb in01 l) eqn:E; [|discriminate]. intros E'; injection E' as <-.
    split; [apply Nat.eqb_eq, EL | apply forallb_in01, E].
Qed.

Lemma resolve_freq_fixed pl m X X' a : a <> ANone -> resolve_freq pl m X a = resolve_freq pl m X' a.
Proof. destruct a; [congruence| |]; reflexivity. Qed.

Definition wt_nonneg (a : oarg) : Prop := match a with AArr l => Forall (fun q => 0 <= q) l | _ => True end.

Lemma resolve_wt_ok m a w : wt_nonneg a -> resolve_wt m a = ROk w -> Forall (fun q => 0 <= q) w.
Proof.
  destruct a as [|q|l]; cbn [resolve_wt wt_nonneg]; intros Hn.
  - intros E; injection E as <-. apply Forall_forall. intros x Hx. apply repeat_spec in Hx. subst. discriminate.
  - destruct (Qle_bool 0 q) eqn:E; [|discriminate]. intros E'; injection E' as <-.
    apply Forall_forall. intros x Hx. apply repeat_spec in Hx. subst. apply Qle_bool_iff, E.
  - destruct (negb _); [discriminate|]. intros E; injection E as <-. exact Hn.
Qed.

Lemma center_rows c p X m : rows_len m X -> length p = m -> rows_len m (center c p X).
Proof.
  intros HX Hp. unfold rows_len, center. rewrite Forall_map. eapply Forall_impl; [|exact HX].
  cbn beta. intros r Hr. unfold center_row. rewrite map2_length, Hr, Hp. apply Nat.min_id.
Qed.

Lemma center_select c p ix X : center c p (select [] ix X) = select [] ix (center c p X).
Proof.
  unfold center, select. rewrite map_map. apply map_ext. intros i.
  symmetry. apply (map_nth (center_row c p) X [] i).
Qed.

(** * generalised weighted *)
Lemma gw_entry_wdot w a b : gw_entry w a b == wdot w a b.
Proof.
  unfold gw_entry. rewrite dotQr_eq.
  revert a b; induction w as [|wk w IH]; intros [|ak a] [|bk b]; try reflexivity.
  cbn [map2 wdot]. rewrite dotQ_cons, IH. ring.
Qed.

Lemma gw_is_gram w Zm p : Forall (fun q => 0 <= q) w -> rows_len p Zm -> is_gram (qred_mat (gw_mat w Zm)).
Proof.
  intros Hw HZ. apply (IsGram _ (list Q) (fun a b => Qred (gw_entry w a b)) (fun z => z) w p Zm).
  - unfold gw_mat. apply (qred_gram (gw_entry w) Zm).
  - intros a b _ _. rewrite Qred_correct. apply gw_entry_wdot.
  - exact HZ.
  - exact Hw.
Qed.

(** * VanRaden *)
Lemma wdot_repeat s k a b : length a = k -> length b = k -> wdot (repeat s k) a b == s * dotQ a b.
Proof.
  revert a b; induction k as [|k IH]; intros [|ak a] [|bk b] La Lb; try discriminate; cbn [repeat wdot].
  - rewrite dotQ_nil_l. ring.
  - rewrite dotQ_cons, IH by (cbn in *; congruence). ring.
Qed.

Lemma het_nonneg p : Forall in01P p -> 0 <= het_sum p.
Proof.
  intros H. unfold het_sum. rewrite dotQr_eq. induction H as [|q p [H0 H1] Hp IH]; [apply Qle_refl|].
  cbn [map]. rewrite dotQ_cons. setoid_replace 0 with (0 + 0) by ring. apply Qplus_le_compat; [|exact IH].
  apply Qmult_le_0_compat; [exact H0|]. setoid_replace 0 with (q - q) by ring.
  unfold Qminus. apply Qplus_le_compat; [exact H1 | apply Qle_refl].
Qed.

Lemma Qinv1_nonneg x : 0 <= x -> 0 <= 1 / x.
Proof. intros H. unfold Qdiv. rewrite Qmult_1_l. apply Qinv_le_0_compat, H. Qed.

Lemma vr_is_gram c p Zm : 0 <= c -> Forall in01P p -> rows_len (length p) Zm -> is_gram (qred_mat (vr_mat c p Zm)).
Proof.
  intros Hc Hp HZ. set (s := 1 / (c * het_sum p)).
  apply (IsGram _ (list Q) (fun a b => Qred (s * dotQr a b)) (fun z => z) (repeat s (length p)) (length p) Zm).
  - unfold vr_mat. fold s. apply (qred_gram (fun a b => s * dotQr a b) Zm).
  - intros a b Ha Hb. unfold rows_len in HZ. rewrite Forall_forall in HZ.
    rewrite Qred_correct, dotQr_eq, wdot_repeat by (apply HZ; assumption). reflexivity.
  - exact HZ.
  - apply Forall_forall. intros x Hx. apply repeat_spec in Hx. subst x. apply Qinv1_nonneg.
    apply Qmult_le_0_compat; [exact Hc | apply het_nonneg, Hp].
Qed.

(** * Yang *)
Lemma yang_entry_wdot (t : Q) d a b : t * yang_entry d a b == wdot (map (fun dk => t / dk) d) a b.
Proof.
  unfold yang_entry. rewrite sumQr_eq.
  revert a b; induction d as [|dk d IH]; intros [|ak a] [|bk b]; cbn [map2 map wdot sumQ fold_right]; try ring.
  fold (sumQ (map2 Qdiv (map2 Qmult a b) d)). rewrite <- IH. unfold Qdiv. ring.
Qed.

Lemma yang_is_gram m c p Zm : 0 <= c -> Forall in01P p -> rows_len (length p) Zm ->
  is_gram (qred_mat (yang_mat m (yang_den c p) Zm)).
Proof.
  intros Hc Hp HZ. set (t := 1 / Zq (Z.of_nat m)).
  apply (IsGram _ (list Q) (fun a b => Qred (t * yang_entry (yang_den c p) a b)) (fun z => z)
                (map (fun dk => t / dk) (yang_den c p)) (length p) Zm).
  - unfold yang_mat. fold t. apply (qred_gram (fun a b => t * yang_entry (yang_den c p) a b) Zm).
  - intros a b _ _. rewrite Qred_correct. apply yang_entry_wdot.
  - exact HZ.
  - rewrite Forall_map. unfold yang_den. rewrite Forall_map. eapply Forall_impl; [|exact Hp].
    cbn beta. intros q [H0 H1]. unfold Qdiv. apply Qmult_le_0_compat.
    + subst t. apply Qinv1_nonneg. unfold Zq. change (inject_Z 0 <= inject_Z (Z.of_nat m)). rewrite <- Zle_Qle. lia.
    + apply Qinv_le_0_compat. apply Qmult_le_0_compat; [apply Qmult_le_0_compat; assumption|].
      setoid_replace 0 with (q - q) by ring. unfold Qminus. apply Qplus_le_compat; [exact H1 | apply Qle_refl].
Qed.

(** * molecular *)
Lemma Zq_dotZ a b : Zq (dotZ a b) == dotQ (map Zq a) (map Zq b).
Proof.
  unfold dotZ, Zq. revert b; induction a as [|x a IH]; intros [|y b]; try reflexivity.
  cbn [map2 map sumZ fold_right]. fold (sumZ (map2 Z.mul a b)). rewrite dotQ_cons, inject_Z_plus, inject_Z_mult, IH. reflexivity.
Qed.

Lemma dotQ_app a a' b b' : length a = length b -> dotQ (a ++ a') (b ++ b') == dotQ a b + dotQ a' b'.
Proof.
  revert b; induction a as [|x a IH]; intros [|y b] L; try discriminate L.
  - cbn [app]. rewrite dotQ_nil_l. ring.
  - cbn [app]. rewrite !dotQ_cons, IH by (cbn in L; congruence). ring.
Qed.

Lemma map2_map_same {A B C} (f : A -> B -> C) (g : A -> B) (l : list A) : map2 f l (map g l) = map (fun x => f x (g x)) l.
Proof. induction l as [|x l IH]; [reflexivity|]. cbn [map map2]. now rewrite IH. Qed.

Definition minus1 (r : list Z) : list Z := map (fun x => (x - 1)%Z) r.
Definition compl (r : list Z) : list Z := map (fun x => (1 - x)%Z) r.
Definition dip_e (m : nat) (xi xj : list Z) : Q := 1 + (1 / Zq (Z.of_nat m)) * Zq (dotZ xi xj).
Definition hap_e (m : nat) (xi xj : list Z) : Q :=
  (2 * (1 / Zq (Z.of_nat m))) * Zq (dotZ xi xj + dotZ (compl xi) (compl xj)).

Lemma mol_dip_gram m X : mol_dip_mat m X = gram (dip_e m) (map minus1 X).
Proof. reflexivity. Qed.

Lemma mol_hap_gram m X : mol_hap_mat m X = gram (hap_e m) X.
Proof.
  unfold mol_hap_mat, gram. fold compl. rewrite map2_map_same. apply map_ext. intros xi.
  rewrite map2_map_same. reflexivity.
Qed.

Lemma inv_m_nonneg m : 0 <= 1 / Zq (Z.of_nat m).
Proof. apply Qinv1_nonneg. unfold Zq. change (inject_Z 0 <= inject_Z (Z.of_nat m)). rewrite <- Zle_Qle. lia. Qed.

Lemma mol_dip_is_gram m X : rows_len m X -> is_gram (qred_mat (mol_dip_mat m X)).
Proof.
  intros HX. set (t := 1 / Zq (Z.of_nat m)).
  apply (IsGram _ (list Z) (fun a b => Qred (dip_e m a b)) (fun r => 1 :: map Zq r) (1 :: repeat t m) (S m) (map minus1 X)).
  - rewrite mol_dip_gram. apply qred_gram.
  - intros a b Ha Hb. apply in_map_iff in Ha as (a0 & <- & Ha). apply in_map_iff in Hb as (b0 & <- & Hb).
    unfold rows_len in HX. rewrite Forall_forall in HX.
    rewrite Qred_correct. unfold dip_e. cbn [wdot]. fold t.
    rewrite wdot_repeat by (unfold minus1; rewrite !map_length; apply HX; assumption).
    rewrite Zq_dotZ. ring.
  - rewrite Forall_map. eapply Forall_impl; [|exact HX]. cbn beta. intros r Hr. cbn [length]. unfold minus1. now rewrite !map_length, Hr.
  - constructor; [discriminate|]. apply Forall_forall. intros x Hx. apply repeat_spec in Hx. subst x. apply inv_m_nonneg.
Qed.

Lemma mol_hap_is_gram m X : rows_len m X -> is_gram (qred_mat (mol_hap_mat m X)).
Proof.
  intros HX. set (s := 2 * (1 / Zq (Z.of_nat m))).
  apply (IsGram _ (list Z) (fun a b => Qred (hap_e m a b)) (fun r => map Zq r ++ map Zq (compl r)) (repeat s (m + m)) (m + m)%nat X).
  - rewrite mol_hap_gram. apply qred_gram.
  - intros a b Ha Hb. unfold rows_len in HX. rewrite Forall_forall in HX.
    pose proof (HX a Ha) as La. pose proof (HX b Hb) as Lb.
    rewrite Qred_correct. unfold hap_e. fold s.
    rewrite wdot_repeat by (rewrite app_length; unfold compl; rewrite !map_length; lia).
    rewrite dotQ_app by (rewrite !map_length; lia).
    unfold Zq at 1. rewrite inject_Z_plus. fold (Zq (dotZ a b)) (Zq (dotZ (compl a) (compl b))). rewrite !Zq_dotZ. reflexivity.
  - eapply Forall_impl; [|exact HX]. cbn beta. intros r Hr. rewrite app_length. unfold compl. rewrite !map_length. lia.
  - apply Forall_forall. intros x Hx. apply repeat_spec in Hx. subst x.
    apply Qmult_le_0_compat; [discriminate | apply inv_m_nonneg].
Qed.

(** ** identity by state *)
Definition is01 (a : Z) : Prop := a = 0%Z \/ a = 1%Z.
(** per-taxon allele table: one list of allele states per locus *)
Definition dosage (Ai : list (list Z)) : list Z := map sumZ Ai.
Definition twice_mean_ibs (Ai Aj : list (list Z)) : Q :=
  2 * (sumQ (map2 ibs_locus Ai Aj) / Zq (Z.of_nat (length Ai))).
Definition locus_ok (P : nat) (al : list Z) : Prop := length al = P /\ Forall is01 al.

Lemma ibs_dip_locus a b : locus_ok 2 a -> locus_ok 2 b ->
  2 * ibs_locus a b == 1 + Zq ((sumZ a - 1) * (sumZ b - 1)).
Proof.
  intros [La Ha] [Lb Hb].
  destruct a as [|a1 [|a2 [|? ?]]]; try discriminate La. destruct b as [|b1 [|b2 [|? ?]]]; try discriminate Lb.
  inversion Ha as [|? ? A1 Ha']; subst. inversion Ha' as [|? ? A2 _]; subst.
  inversion Hb as [|? ? B1 Hb']; subst. inversion Hb' as [|? ? B2 _]; subst.
  destruct A1, A2, B1, B2; subst; vm_compute; reflexivity.
Qed.

Lemma ibs_hap_locus a b : locus_ok 1 a -> locus_ok 1 b ->
  ibs_locus a b == Zq (sumZ a * sumZ b + (1 - sumZ a) * (1 - sumZ b)).
Proof.
  intros [La Ha] [Lb Hb].
  destruct a as [|a1 [|? ?]]; try discriminate La. destruct b as [|b1 [|? ?]]; try discriminate Lb.
  inversion Ha as [|? ? A1 _]; subst. inversion Hb as [|? ? B1 _]; subst.
  destruct A1, B1; subst; vm_compute; reflexivity.
Qed.

Lemma dotZ_cons x a y b : dotZ (x :: a) (y :: b) = (x * y + dotZ a b)%Z.
Proof. reflexivity. Qed.

Lemma sum_ibs_dip Ai Aj : Forall (locus_ok 2) Ai -> Forall (locus_ok 2) Aj -> length Ai = length Aj ->
  2 * sumQ (map2 ibs_locus Ai Aj) == Zq (Z.of_nat (length Ai)) + Zq (dotZ (minus1 (dosage Ai)) (minus1 (dosage Aj))).
Proof.
  intros Hi; revert Aj; induction Hi as [|a Ai Ha Hi IH]; intros Aj Hj L.
  - destruct Aj; [|discriminate L]. reflexivity.
  - destruct Hj as [|b Aj Hb Hj]; [discriminate L|].
    cbn [map2 sumQ fold_right dosage map minus1 length]. fold (sumQ (map2 ibs_locus Ai Aj)).
    fold (dosage Ai) (dosage Aj) (minus1 (dosage Ai)) (minus1 (dosage Aj)). rewrite dotZ_cons.
    rewrite Nat2Z.inj_succ. unfold Z.succ, Zq. rewrite !inject_Z_plus.
    setoid_replace (2 * (ibs_locus a b + sumQ (map2 ibs_locus Ai Aj))) with (2 * ibs_locus a b + 2 * sumQ (map2 ibs_locus Ai Aj)) by ring.
    rewrite (ibs_dip_locus a b Ha Hb), (IH Aj Hj) by (cbn in L; congruence). unfold Zq. change (inject_Z 1) with 1. ring.
Qed.

Lemma sum_ibs_hap Ai Aj : Forall (locus_ok 1) Ai -> Forall (locus_ok 1) Aj -> length Ai = length Aj ->
  sumQ (map2 ibs_locus Ai Aj) == Zq (dotZ (dosage Ai) (dosage Aj) + dotZ (compl (dosage Ai)) (compl (dosage Aj))).
Proof.
  intros Hi; revert Aj; induction Hi as [|a Ai Ha Hi IH]; intros Aj Hj L.
  - destruct Aj; [|discriminate L]. reflexivity.
  - destruct Hj as [|b Aj Hb Hj]; [discriminate L|].
    cbn [map2 sumQ fold_right dosage map compl]. fold (sumQ (map2 ibs_locus Ai Aj)).
    fold (dosage Ai) (dosage Aj) (compl (dosage Ai)) (compl (dosage Aj)). rewrite !dotZ_cons.
    rewrite (ibs_hap_locus a b Ha Hb), (IH Aj Hj) by (cbn in L; congruence). unfold Zq.
    rewrite <- inject_Z_plus. apply inject_Z_injective. ring.
Qed.

(** molecular coancestry (diploid) of two taxa = twice the mean IBS probability over the m loci *)
Lemma mol_dip_twice_ibs m Ai Aj : (0 < m)%nat -> length Ai = m -> length Aj = m ->
  Forall (locus_ok 2) Ai -> Forall (locus_ok 2) Aj ->
  dip_e m (minus1 (dosage Ai)) (minus1 (dosage Aj)) == twice_mean_ibs Ai Aj.
Proof.
  intros Hm Li Lj Hi Hj. unfold dip_e, twice_mean_ibs.
  assert (~ Zq (Z.of_nat m) == 0) as NZ.
  { unfold Zq. intros E. change 0 with (inject_Z 0) in E. apply -> inject_Z_injective in E. lia. }
  setoid_replace (2 * (sumQ (map2 ibs_locus Ai Aj) / Zq (Z.of_nat (length Ai))))
    with ((2 * sumQ (map2 ibs_locus Ai Aj)) / Zq (Z.of_nat (length Ai))) by (unfold Qdiv; ring).
  rewrite sum_ibs_dip by (assumption || congruence). rewrite Li. field. exact NZ.
Qed.

Lemma mol_hap_twice_ibs m Ai Aj : length Ai = m -> length Aj = m ->
  Forall (locus_ok 1) Ai -> Forall (locus_ok 1) Aj ->
  hap_e m (dosage Ai) (dosage Aj) == twice_mean_ibs Ai Aj.
Proof.
  intros Li Lj Hi Hj. unfold hap_e, twice_mean_ibs.
  rewrite sum_ibs_hap by (assumption || congruence). rewrite Li. unfold Qdiv. ring.
Qed.

(** * the four estimators as one call *)
Inductive call := CMol | CVr (p_anc : oarg) | CYang (p_anc : oarg) | CGw (mkrwt afreq : oarg).
Definition from_gmat (c : call) (pl : Z) (m : nat) (X : list (list Z)) : res (list (list Q)) :=
  match c with
  | CMol => mol_from_gmat pl m X
  | CVr p => vr_from_gmat pl m X p
  | CYang p => yang_from_gmat pl m X p
  | CGw w p => gw_from_gmat pl m X w p
  end.
(** the property's quantifier: non-negative weights; ploidy >= 0 and allele counts in 0..ploidy where the
    reference frequencies are estimated from the matrix itself (explicit frequencies are range-checked by the code) *)
Definition admissible (c : call) (pl : Z) (X : list (list Z)) : Prop :=
  match c with
  | CMol => True
  | CVr p | CYang p => (0 <= pl)%Z /\ (p = ANone -> dosages_ok pl X)
  | CGw w _ => wt_nonneg w
  end.
Definition fixed_ref (c : call) : Prop :=
  match c with CMol => True | CVr p | CYang p | CGw _ p => p <> ANone end.

Lemma resolve_freq_len pl m X a p : rows_len m X -> resolve_freq pl m X a = ROk p -> length p = m.
Proof.
  intros HX. destruct a as [|q|l]; cbn [resolve_freq].
  - intros E; injection E as <-. apply afreq_est_length, HX.
  - destruct (in01 q); [|discriminate]. intros E'; injection E' as <-. apply repeat_length.
  - destruct (Nat.eqb (length l) m) eqn:EL; cbn [negb]; [|discriminate].
    destruct (forallb in01 l); [|discriminate]. intros E'; injection E' as <-. apply Nat.eqb_eq, EL.
Qed.

Lemma Zq_nonneg z : (0 <= z)%Z -> 0 <= Zq z.
Proof. intros H. unfold Zq. change (inject_Z 0 <= inject_Z z). rewrite <- Zle_Qle. exact H. Qed.

Theorem from_gmat_is_gram c pl m X G : rows_len m X -> admissible c pl X -> from_gmat c pl m X = ROk G -> is_gram G.
Proof.
  intros HX Ha. destruct c as [|pa|pa|wa pa]; cbn [from_gmat admissible] in *.
  - unfold mol_from_gmat. destruct (Nat.eqb m 0); [discriminate|].
    destruct (Z.eqb pl 1); [intros E; injection E as <-; apply mol_hap_is_gram, HX|].
    destruct (Z.eqb pl 2); [intros E; injection E as <-; apply mol_dip_is_gram, HX|discriminate].
  - destruct Ha as [Hp Hd]. unfold vr_from_gmat. destruct (resolve_freq pl m X pa) as [p| |e] eqn:ER; try discriminate.
    destruct (resolve_freq_ok pl m X pa p HX Hp Hd ER) as [Lp Pp].
    destruct (Qeq_bool _ _); [discriminate|]. intros E; injection E as <-.
    apply vr_is_gram; [apply Zq_nonneg, Hp | exact Pp | rewrite Lp; apply center_rows; assumption].
  - destruct Ha as [Hp Hd]. unfold yang_from_gmat. destruct (resolve_freq pl m X pa) as [p| |e] eqn:ER; try discriminate.
    destruct (resolve_freq_ok pl m X pa p HX Hp Hd ER) as [Lp Pp].
    destruct (Nat.eqb m 0); [discriminate|]. destruct (existsb _ _); [discriminate|]. intros E; injection E as <-.
    apply yang_is_gram; [apply Zq_nonneg, Hp | exact Pp | rewrite Lp; apply center_rows; assumption].
  - unfold gw_from_gmat. destruct (resolve_wt m wa) as [w| |e] eqn:EW; try discriminate.
    destruct (resolve_freq pl m X pa) as [p| |e] eqn:ER; try discriminate. intros E; injection E as <-.
    apply (gw_is_gram w _ m); [apply (resolve_wt_ok m wa w Ha EW)|].
    apply center_rows; [exact HX | apply (resolve_freq_len pl m X pa p HX ER)].
Qed.

(** ** permutation / sub-selection of taxa *)
Lemma minus1_select ix X : map minus1 (select [] ix X) = select [] ix (map minus1 X).
Proof. unfold select. rewrite map_map. apply map_ext. intros i. symmetry. apply (map_nth minus1 X [] i). Qed.

Lemma select_length {A} (d : A) ix l : length (select d ix l) = length ix.
Proof. apply map_length. Qed.

Theorem from_gmat_select c pl m X ix G : fixed_ref c -> Forall (fun i => (i < length X)%nat) ix ->
  from_gmat c pl m X = ROk G -> from_gmat c pl m (select [] ix X) = ROk (select2 ix G).
Proof.
  intros Hf Hix. destruct c as [|pa|pa|wa pa]; cbn [from_gmat fixed_ref] in *.
  - unfold mol_from_gmat. destruct (Nat.eqb m 0); [discriminate|].
    destruct (Z.eqb pl 1).
    { intros E; injection E as <-. f_equal. rewrite !mol_hap_gram, !qred_gram. apply gram_select, Hix. }
    destruct (Z.eqb pl 2); [|discriminate].
    intros E; injection E as <-. f_equal. rewrite !mol_dip_gram, !qred_gram, minus1_select.
    apply gram_select. now rewrite map_length.
  - unfold vr_from_gmat. rewrite (resolve_freq_fixed pl m (select [] ix X) X pa Hf).
    destruct (resolve_freq pl m X pa) as [p| |e]; try discriminate.
    destruct (Qeq_bool _ _); [discriminate|]. intros E; injection E as <-. f_equal.
    unfold vr_mat. rewrite center_select.
    change (qred_mat (gram (fun zi zj => 1 / (Zq pl * het_sum p) * dotQr zi zj) (select [] ix (center (Zq pl) p X)))
            = select2 ix (qred_mat (gram (fun zi zj => 1 / (Zq pl * het_sum p) * dotQr zi zj) (center (Zq pl) p X)))).
    rewrite !qred_gram. apply gram_select. unfold center. now rewrite map_length.
  - unfold yang_from_gmat. rewrite (resolve_freq_fixed pl m (select [] ix X) X pa Hf).
    destruct (resolve_freq pl m X pa) as [p| |e]; try discriminate.
    destruct (Nat.eqb m 0); [discriminate|]. destruct (existsb _ _); [discriminate|]. intros E; injection E as <-. f_equal.
    unfold yang_mat. rewrite center_select.
    change (qred_mat (gram (fun zi zj => 1 / Zq (Z.of_nat m) * yang_entry (yang_den (Zq pl) p) zi zj) (select [] ix (center (Zq pl) p X)))
            = select2 ix (qred_mat (gram (fun zi zj => 1 / Zq (Z.of_nat m) * yang_entry (yang_den (Zq pl) p) zi zj) (center (Zq pl) p X)))).
    rewrite !qred_gram. apply gram_select. unfold center. now rewrite map_length.
  - unfold gw_from_gmat. destruct (resolve_wt m wa) as [w| |e]; try discriminate.
    rewrite (resolve_freq_fixed pl m (select [] ix X) X pa Hf).
    destruct (resolve_freq pl m X pa) as [p| |e]; try discriminate. intros E; injection E as <-. f_equal.
    unfold gw_mat. rewrite center_select.
    change (qred_mat (gram (gw_entry w) (select [] ix (center (Zq pl) p X))) = select2 ix (qred_mat (gram (gw_entry w) (center (Zq pl) p X)))).
    rewrite !qred_gram. apply gram_select. unfold center. now rewrite map_length.
Qed.

(** with re-estimated reference frequencies the estimator does NOT commute with taxa selection *)
Lemma reestimated_not_equivariant : exists pl m X ix G G',
  Forall (fun i => (i < length X)%nat) ix /\ vr_from_gmat pl m X ANone = ROk G /\
  vr_from_gmat pl m (select [] ix X) ANone = ROk G' /\ qll_eqb G' (select2 ix G) = false.
Proof.
  exists 2%Z, 2%nat, [[0;2];[2;0];[2;2]]%Z, [0;1]%nat.
  eexists; eexists. split; [repeat constructor|]. split; [vm_compute; reflexivity|]. split; vm_compute; reflexivity.
Qed.

(** ** labels *)
Lemma with_labels_carried t g r cm : with_labels t g r = ROk cm ->
  cm_taxa cm = t /\ cm_grp cm = g /\ r = ROk (cm_mat cm).
Proof. destruct r as [G| |e]; cbn; try discriminate. intros E; injection E as <-. auto. Qed.

(** ** kinship view *)
Lemma entry_map f G i j : f 0 == 0 -> entry (map (map f) G) i j == f (entry G i j).
Proof.
  intros H0. unfold entry.
  change (@nil Q) with (map f []) at 1. rewrite (map_nth (map f) G [] i).
  set (r := nth i G []). destruct (Nat.lt_ge_cases j (length r)) as [L|L].
  - rewrite (nth_indep _ 0 (f 0)) by (rewrite map_length; exact L). rewrite (map_nth f r 0 j). reflexivity.
  - rewrite !nth_overflow by (rewrite ?map_length; exact L). symmetry. exact H0.
Qed.

Lemma kinship_half G i j :
  entry (mat_asformat Kinship G) i j == (1 # 2) * entry (mat_asformat Coancestry G) i j /\
  entry (mat_asformat Coancestry G) i j == entry G i j /\
  kinship G i j == (1 # 2) * coancestry G i j.
Proof.
  unfold mat_asformat, kinship, coancestry. split; [|split; [|reflexivity]].
  - rewrite !entry_map by (cbn [half]; ring). cbn [half]. reflexivity.
  - rewrite entry_map by reflexivity. reflexivity.
Qed.

(** ** extreme values, mean *)
Lemma Qmax'_ge_l x y : x <= Qmax' x y.
Proof. unfold Qmax'. destruct (Qle_bool x y) eqn:E; [apply Qle_bool_iff, E | apply Qle_refl]. Qed.
Lemma Qmax'_ge_r x y : y <= Qmax' x y.
Proof.
  unfold Qmax'. destruct (Qle_bool x y) eqn:E; [apply Qle_refl|].
  destruct (Qlt_le_dec y x) as [L|L]; [apply Qlt_le_weak, L|]. apply Qle_bool_iff in L. congruence.
Qed.
Lemma Qmin'_le_l x y : Qmin' x y <= x.
Proof.
  unfold Qmin'. destruct (Qle_bool x y) eqn:E; [apply Qle_refl|].
  destruct (Qlt_le_dec y x) as [L|L]; [apply Qlt_le_weak, L|]. apply Qle_bool_iff in L. congruence.
Qed.
Lemma Qmin'_le_r x y : Qmin' x y <= y.
Proof. unfold Qmin'. destruct (Qle_bool x y) eqn:E; [apply Qle_bool_iff, E | apply Qle_refl]. Qed.

Lemma fold_max_spec l a : a <= fold_left Qmax' l a /\ (forall x, In x l -> x <= fold_left Qmax' l a)
                          /\ (fold_left Qmax' l a = a \/ In (fold_left Qmax' l a) l).
Proof.
  revert a; induction l as [|y l IH]; intros a; cbn [fold_left].
  - split; [apply Qle_refl|]. split; [intros x []|left; reflexivity].
  - destruct (IH (Qmax' a y)) as (H1 & H2 & H3). split; [|split].
    + eapply Qle_trans; [apply Qmax'_ge_l | exact H1].
    + intros x [<-|Hx]; [eapply Qle_trans; [apply Qmax'_ge_r | exact H1] | apply H2, Hx].
    + destruct H3 as [E|Hin]; [|right; right; exact Hin]. rewrite E. unfold Qmax'. destruct (Qle_bool a y); [right; left; reflexivity | left; reflexivity].
Qed.

Lemma fold_min_spec l a : fold_left Qmin' l a <= a /\ (forall x, In x l -> fold_left Qmin' l a <= x)
                          /\ (fold_left Qmin' l a = a \/ In (fold_left Qmin' l a) l).
Proof.
  revert a; induction l as [|y l IH]; intros a; cbn [fold_left].
  - split; [apply Qle_refl|]. split; [intros x []|left; reflexivity].
  - destruct (IH (Qmin' a y)) as (H1 & H2 & H3). split; [|split].
    + eapply Qle_trans; [exact H1 | apply Qmin'_le_l].
    + intros x [<-|Hx]; [eapply Qle_trans; [exact H1 | apply Qmin'_le_r] | apply H2, Hx].
    + destruct H3 as [E|Hin]; [|right; right; exact Hin]. rewrite E. unfold Qmin'. destruct (Qle_bool a y); [left; reflexivity | right; left; reflexivity].
Qed.

Lemma maxl_spec l : l <> [] -> In (maxl l) l /\ forall x, In x l -> x <= maxl l.
Proof.
  destruct l as [|a l]; [congruence|]. intros _. unfold maxl. destruct (fold_max_spec l a) as (H1 & H2 & H3). split.
  - destruct H3 as [E|Hin]; [left; symmetry; exact E | right; exact Hin].
  - intros x [<-|Hx]; [exact H1 | apply H2, Hx].
Qed.

Lemma minl_spec l : l <> [] -> In (minl l) l /\ forall x, In x l -> minl l <= x.
Proof.
  destruct l as [|a l]; [congruence|]. intros _. unfold minl. destruct (fold_min_spec l a) as (H1 & H2 & H3). split.
  - destruct H3 as [E|Hin]; [left; symmetry; exact E | right; exact Hin].
  - intros x [<-|Hx]; [exact H1 | apply H2, Hx].
Qed.

Lemma meanl_spec l : meanl l == sumQ l / Zq (Z.of_nat (length l)).
Proof. unfold meanl. rewrite sumQr_eq. reflexivity. Qed.

(** ** checked inverse *)
Definition mat_eq (A B : list (list Q)) : Prop := Forall2 (Forall2 Qeq) A B.

Lemma list_eqb_Forall2 {A} (eqb : A -> A -> bool) (P : A -> A -> Prop) :
  (forall x y, eqb x y = true -> P x y) -> forall l1 l2, list_eqb eqb l1 l2 = true -> Forall2 P l1 l2.
Proof.
  intros H l1; induction l1 as [|x l1 IH]; intros [|y l2]; cbn; try discriminate; [constructor|].
  intros E. apply andb_prop in E as [E1 E2]. constructor; [apply H, E1 | apply IH, E2].
Qed.

Lemma qll_eqb_mat_eq A B : qll_eqb A B = true -> mat_eq A B.
Proof.
  apply list_eqb_Forall2. apply list_eqb_Forall2. intros x y E. apply Qeq_bool_iff, E.
Qed.

Theorem inv_checked_sound G H : inv_checked G = Some H ->
  mat_eq (mmul G H) (ident (length G)) /\ mat_eq (mmul H G) (ident (length G)) /\
  length H = length G /\ Forall (fun r => length r = length G) H.
Proof.
  unfold inv_checked. destruct (gj_inv G) as [H'|]; [|discriminate].
  destruct (Nat.eqb (length H') (length G)) eqn:E0; [|discriminate].
  destruct (forallb (fun r => Nat.eqb (length r) (length G)) H') eqn:E3; [|discriminate].
  destruct (qll_eqb (mmul G H') (ident (length G))) eqn:E1; [|discriminate].
  destruct (qll_eqb (mmul H' G) (ident (length G))) eqn:E2; [|discriminate].
  cbn [andb]. intros E; injection E as <-. split; [|split; [|split]]; try (apply qll_eqb_mat_eq; assumption).
  - apply Nat.eqb_eq, E0.
  - rewrite forallb_forall in E3. apply Forall_forall. intros r Hr. apply Nat.eqb_eq, E3, Hr.
Qed.

(** * statements used by Props/C13.v *)
Definition alleles_ok (P m : nat) (A : list (list (list Z))) : Prop :=
  Forall (fun Ai => length Ai = m /\ Forall (locus_ok P) Ai) A.

Lemma qred_gram_entry {A} (e : A -> A -> Q) (R : list A) (d : A) i j : (i < length R)%nat -> (j < length R)%nat ->
  entry (qred_mat (gram e R)) i j == e (nth i R d) (nth j R d).
Proof. intros Hi Hj. rewrite qred_gram, (gram_entry _ R d i j Hi Hj). apply Qred_correct. Qed.

Theorem mol_is_twice_ibs (pl : Z) (m : nat) (A : list (list (list Z))) G i j :
  (pl = 1 \/ pl = 2)%Z -> (0 < m)%nat -> alleles_ok (Z.to_nat pl) m A -> (i < length A)%nat -> (j < length A)%nat ->
  mol_from_gmat pl m (map dosage A) = ROk G ->
  entry G i j == twice_mean_ibs (nth i A []) (nth j A []).
Proof.
  intros Hpl Hm HA Hi Hj. unfold alleles_ok in HA. rewrite Forall_forall in HA.
  destruct (HA (nth i A []) (nth_In A [] Hi)) as [Li Oi]. destruct (HA (nth j A []) (nth_In A [] Hj)) as [Lj Oj].
  unfold mol_from_gmat. destruct (Nat.eqb_spec m 0) as [E0|_]; [lia|].
  destruct Hpl as [-> | ->]; cbn [Z.eqb Pos.eqb]; intros E; injection E as <-.
  - rewrite mol_hap_gram, (qred_gram_entry _ _ [] i j) by (rewrite map_length; assumption).
    change (@nil Z) with (dosage []). rewrite !map_nth. apply mol_hap_twice_ibs; assumption.
  - rewrite mol_dip_gram, (qred_gram_entry _ _ [] i j) by (rewrite !map_length; assumption).
    change (@nil Z) with (minus1 (dosage [])). rewrite !map_nth. apply mol_dip_twice_ibs; assumption.
Qed.

Lemma gram_length {A} (e : A -> A -> Q) (R : list A) : length (gram e R) = length R.
Proof. apply map_length. Qed.

Theorem from_gmat_square c pl m X G : from_gmat c pl m X = ROk G -> length G = length X /\ rows_len (length X) G.
Proof.
  assert (K : forall A (e : A -> A -> Q) (R : list A), length R = length X ->
              length (qred_mat (gram e R)) = length X /\ rows_len (length X) (qred_mat (gram e R))).
  { intros A e R L. rewrite qred_gram. split; [rewrite gram_length; exact L|].
    unfold rows_len, gram. rewrite Forall_map. apply Forall_forall. intros r _. rewrite map_length. exact L. }
  destruct c as [|pa|pa|wa pa]; cbn [from_gmat].
  - unfold mol_from_gmat. destruct (Nat.eqb m 0); [discriminate|].
    destruct (Z.eqb pl 1); [intros E; injection E as <-; rewrite mol_hap_gram; apply K; reflexivity|].
    destruct (Z.eqb pl 2); [|discriminate]. intros E; injection E as <-. rewrite mol_dip_gram. apply K. apply map_length.
  - unfold vr_from_gmat. destruct (resolve_freq pl m X pa) as [p| |e]; try discriminate.
    destruct (Qeq_bool _ _); [discriminate|]. intros E; injection E as <-.
    apply (K _ (fun zi zj => 1 / (Zq pl * het_sum p) * dotQr zi zj)). apply map_length.
  - unfold yang_from_gmat. destruct (resolve_freq pl m X pa) as [p| |e]; try discriminate.
    destruct (Nat.eqb m 0); [discriminate|]. destruct (existsb _ _); [discriminate|]. intros E; injection E as <-.
    apply (K _ (fun zi zj => 1 / Zq (Z.of_nat m) * yang_entry (yang_den (Zq pl) p) zi zj)). apply map_length.
  - unfold gw_from_gmat. destruct (resolve_wt m wa) as [w| |e]; try discriminate.
    destruct (resolve_freq pl m X pa) as [p| |e]; try discriminate. intros E; injection E as <-.
    apply (K _ (gw_entry w)). apply map_length.
Qed.

Theorem extremes_spec (G : list (list Q)) : concat G <> [] ->
  (In (max_all Coancestry G) (concat G) /\ forall x, In x (concat G) -> x <= max_all Coancestry G) /\
  (In (min_all Coancestry G) (concat G) /\ forall x, In x (concat G) -> min_all Coancestry G <= x) /\
  mean_all Coancestry G == sumQ (concat G) / Zq (Z.of_nat (length (concat G))) /\
  max_all Kinship G == (1 # 2) * max_all Coancestry G /\ min_all Kinship G == (1 # 2) * min_all Coancestry G /\
  mean_all Kinship G == (1 # 2) * mean_all Coancestry G.
Proof.
  intros H. unfold max_all, min_all, mean_all. cbn [half].
  split; [apply maxl_spec, H|]. split; [apply minl_spec, H|]. split; [apply meanl_spec|]. repeat split; reflexivity.
Qed.

Theorem max_inbreeding_spec (G : list (list Q)) : G <> [] ->
  (exists i, (i < length G)%nat /\ max_inbreeding Coancestry G = entry G i i) /\
  (forall i, (i < length G)%nat -> entry G i i <= max_inbreeding Coancestry G) /\
  max_inbreeding Kinship G == (1 # 2) * max_inbreeding Coancestry G.
Proof.
  intros H. unfold max_inbreeding. cbn [half].
  assert (diag G <> []) as Hd.
  { unfold diag. destruct G; [congruence|]. cbn [length seq map]. discriminate. }
  destruct (maxl_spec (diag G) Hd) as [Hin Hub]. split; [|split; [|reflexivity]].
  - unfold diag in Hin. apply in_map_iff in Hin as (i & E & Hi). apply in_seq in Hi. exists i. split; [lia | symmetry; exact E].
  - intros i Hi. apply Hub. unfold diag. apply in_map_iff. exists i. split; [reflexivity | apply in_seq; lia].
Qed.
