(** C20 — proofs, part 3: the heap.  [deepcopy] only allocates, returns fresh locations and equal contents;
    regions, the frame condition for operators ("touches only what it can reach"), and the proof that every
    program of the action language satisfies it. *)
From PV Require Import Lib.Common Model.C20_Loop.
Local Open Scope nat_scope.
Arguments hget : simpl never.
Arguments hset : simpl nomatch.

(** * basic heap facts *)
Lemma hget_lt h l o : hget h l = Some o -> l < length h.
Proof. unfold hget. intros H. apply nth_error_Some. congruence. Qed.
Lemma hget_app_old h ext l : l < length h -> hget (h ++ ext) l = hget h l.
Proof. unfold hget. intros H. now apply nth_error_app1. Qed.
Lemma hget_mono h ext l o : hget h l = Some o -> hget (h ++ ext) l = Some o.
Proof. intros H. rewrite hget_app_old; [exact H | eapply hget_lt; eauto]. Qed.
Lemma hget_app_new h o : hget (h ++ [o]) (length h) = Some o.
Proof. unfold hget. rewrite nth_error_app2 by lia. now rewrite Nat.sub_diag. Qed.
Lemma hget_app_new' h ext o : hget (h ++ o :: ext) (length h) = Some o.
Proof. unfold hget. rewrite nth_error_app2 by lia. now rewrite Nat.sub_diag. Qed.
Lemma hset_length h l o : length (hset h l o) = length h.
Proof. revert l; induction h as [|x h IH]; intros [|l]; cbn; auto. Qed.
Lemma hget_hset_same h l o : l < length h -> hget (hset h l o) l = Some o.
Proof. revert l; induction h as [|x h IH]; intros [|l] H; cbn in *; try lia; [reflexivity|]. apply IH. lia. Qed.
Lemma hget_hset_other h l l' o : l <> l' -> hget (hset h l o) l' = hget h l'.
Proof.
  revert l l'; induction h as [|x h IH]; intros [|l] [|l'] H; cbn; try reflexivity; try congruence.
  apply IH. congruence.
Qed.

Lemma kv_get_in {V} k (kvs : list (Z * V)) v : kv_get k kvs = Some v -> In (k, v) kvs.
Proof.
  induction kvs as [|[k' v'] t IH]; cbn; [discriminate|]. destruct (Z.eqb_spec k k') as [->|].
  - intros [= ->]. now left.
  - intros H. right. now apply IH.
Qed.
Lemma kv_set_in {V} k (v : V) kvs k' v' : In (k', v') (kv_set k v kvs) -> (k', v') = (k, v) \/ In (k', v') kvs.
Proof.
  induction kvs as [|[k0 v0] t IH]; cbn.
  - intros [H|[]]. left. congruence.
  - destruct (Z.eqb k k0); cbn; intros [H|H]; auto. destruct (IH H); auto.
Qed.
Lemma kv_del_in {V} k (kvs : list (Z * V)) k' v' : In (k', v') (kv_del k kvs) -> In (k', v') kvs.
Proof.
  induction kvs as [|[k0 v0] t IH]; cbn; [auto|]. destruct (Z.eqb k k0); cbn; [auto|]. intros [H|H]; auto.
Qed.

(** * deepcopy *)
Definition is_leaf (o : obj) : Prop := exists xs, o = OLeaf xs.
Definition memo_ok (n0 : nat) (h : heap) (m : list (loc * loc)) : Prop :=
  forall l l', memo_get l m = Some l' ->
    n0 <= l' < length h /\ exists xs, hget h l' = Some (OLeaf xs) /\ hget h l = Some (OLeaf xs).
(** copy [kl'] of entry [kl]: same key, fresh leaf, same contents (both read in the final heap) *)
Definition copied (n0 : nat) (h' : heap) (kl kl' : Z * loc) : Prop :=
  fst kl' = fst kl /\ n0 <= snd kl' < length h' /\
  exists xs, hget h' (snd kl') = Some (OLeaf xs) /\ hget h' (snd kl) = Some (OLeaf xs).

Lemma copied_mono n0 h ext kl kl' : copied n0 h kl kl' -> copied n0 (h ++ ext) kl kl'.
Proof.
  intros (K & [L1 L2] & xs & G1 & G2). split; [exact K|]. split; [rewrite app_length; lia|].
  exists xs. split; now apply hget_mono.
Qed.

Lemma copy_kvs_spec : forall kvs h m h' kvs' n0,
  n0 <= length h -> memo_ok n0 h m -> copy_kvs h m kvs = Some (h', kvs') ->
  (exists ext, h' = h ++ ext /\ Forall is_leaf ext) /\ Forall2 (copied n0 h') kvs kvs'.
Proof.
  induction kvs as [|[k l] t IH]; intros h m h' kvs' n0 Hn Hm Hc; cbn in Hc.
  - injection Hc as <- <-. split; [exists []; split; [now rewrite app_nil_r | constructor] | constructor].
  - destruct (memo_get l m) as [l'|] eqn:Em.
    + destruct (copy_kvs h m t) as [[h1 t1]|] eqn:Ec; [|discriminate]. injection Hc as <- <-.
      destruct (IH _ _ _ _ _ Hn Hm Ec) as [(ext & -> & Hl) HF]. split; [eauto|].
      constructor; [|exact HF]. destruct (Hm _ _ Em) as ([A B] & xs & G1 & G2).
      split; [reflexivity|]. split; [cbn; rewrite app_length; lia|]. exists xs. cbn. split; now apply hget_mono.
    + destruct (hget h l) as [[kk|xs]|] eqn:Eg; try discriminate.
      destruct (copy_kvs (h ++ [OLeaf xs]) ((l, length h) :: m) t) as [[h1 t1]|] eqn:Ec; [|discriminate].
      injection Hc as <- <-.
      assert (Hm1 : memo_ok n0 (h ++ [OLeaf xs]) ((l, length h) :: m)).
      { intros a b. cbn. destruct (Nat.eqb_spec a l) as [->|Ne].
        - intros [= <-]. split; [rewrite app_length; cbn; lia|]. exists xs. split; [apply hget_app_new | now apply hget_mono].
        - intros Hab. destruct (Hm _ _ Hab) as ([A B] & ys & G1 & G2). split; [rewrite app_length; lia|].
          exists ys. split; now apply hget_mono. }
      assert (Hn1 : n0 <= length (h ++ [OLeaf xs])) by (rewrite app_length; lia).
      destruct (IH _ _ _ _ _ Hn1 Hm1 Ec) as [(ext & -> & Hl) HF]. split.
      * exists (OLeaf xs :: ext). split; [now rewrite <- app_assoc|]. constructor; [now exists xs | exact Hl].
      * constructor; [|exact HF]. split; [reflexivity|]. cbn. split; [rewrite !app_length; cbn; lia|].
        exists xs. split.
        -- rewrite <- app_assoc. cbn. apply hget_app_new'.
        -- rewrite <- app_assoc. now apply hget_mono.
Qed.

Lemma deepcopy_spec h d h' d' :
  deepcopy h d = Some (h', d') ->
  exists kvs kvs' ext,
    hget h d = Some (ODict kvs) /\ h' = (h ++ ext) ++ [ODict kvs'] /\ d' = length h + length ext /\
    Forall is_leaf ext /\ Forall2 (copied (length h) (h ++ ext)) kvs kvs'.
Proof.
  unfold deepcopy. destruct (hget h d) as [[kvs|xs]|] eqn:Eg; try discriminate.
  destruct (copy_kvs h [] kvs) as [[h1 kvs']|] eqn:Ec; [|discriminate]. intros [= <- <-].
  assert (Hm : memo_ok (length h) h []) by (intros a b; discriminate).
  destruct (copy_kvs_spec _ _ _ _ _ _ (le_n _) Hm Ec) as [(ext & -> & Hl) HF].
  exists kvs, kvs', ext. rewrite app_length. repeat split; auto.
Qed.

(** everything allocated between [h] and [h'] only points into the newly allocated part *)
Definition fresh_closed (h h' : heap) : Prop :=
  forall l kvs k l', length h <= l < length h' -> hget h' l = Some (ODict kvs) -> In (k, l') kvs -> length h <= l' < length h'.

Lemma Forall_leaf_get ext : Forall is_leaf ext -> forall i kvs, nth_error ext i = Some (ODict kvs) -> False.
Proof.
  intros HF i kvs Hn. apply nth_error_In in Hn. rewrite Forall_forall in HF. destruct (HF _ Hn) as [xs Hx]. discriminate.
Qed.

Lemma Forall2_in_r {A B} (R : A -> B -> Prop) la lb b : Forall2 R la lb -> In b lb -> exists a, In a la /\ R a b.
Proof.
  induction 1 as [|x y la lb HR HF IH]; cbn; [intros []|]. intros [<-|Hin]; [eauto|].
  destruct (IH Hin) as (a & Ha & HRa). eauto.
Qed.

Lemma deepcopy_facts h d h' d' :
  deepcopy h d = Some (h', d') ->
  (exists ext, h' = h ++ ext) /\ length h <= d' < length h' /\ fresh_closed h h' /\
  (forall x, In x (snap1 h' d') -> length h <= snd (fst x) < length h') /\
  exists kvs, hget h d = Some (ODict kvs) /\
    ((forall k l, In (k, l) kvs -> l < length h) -> content1 h' d' = content1 h d).
Proof.
  intros Hd. destruct (deepcopy_spec _ _ _ _ Hd) as (kvs & kvs' & ext & Hg & -> & -> & Hl & HF).
  assert (Hgd : hget ((h ++ ext) ++ [ODict kvs']) (length h + length ext) = Some (ODict kvs')).
  { rewrite <- app_length. apply hget_app_new. }
  split; [exists (ext ++ [ODict kvs']); now rewrite app_assoc|].
  split; [rewrite !app_length; cbn; lia|].
  assert (Hval : forall k l', In (k, l') kvs' -> length h <= l' < length (h ++ ext)).
  { intros k l' Hin. destruct (Forall2_in_r _ _ _ _ HF Hin) as (a & _ & (_ & Hr & _)). exact Hr. }
  split; [|split].
  - intros l kk k l' [L1 L2] Hgl Hin. rewrite !app_length in *. cbn in L2.
    destruct (Nat.eq_dec l (length h + length ext)) as [->|Ne].
    + rewrite Hgd in Hgl. injection Hgl as <-. apply Hval in Hin. cbn. lia.
    + exfalso. rewrite hget_app_old in Hgl by (rewrite app_length; lia).
      unfold hget in Hgl. rewrite nth_error_app2 in Hgl by lia. eapply Forall_leaf_get; eauto.
  - intros x. unfold snap1. rewrite Hgd. rewrite in_map_iff. intros ((k & l') & <- & Hin). cbn.
    apply Hval in Hin. rewrite !app_length in *. cbn. lia.
  - exists kvs. split; [exact Hg|]. intros Hold. unfold content1, snap1. rewrite Hgd, Hg. rewrite !map_map. cbn.
    clear Hgd Hval Hg Hd. induction HF as [|[k l] [k' l'] t t' HR HF IH]; cbn; [reflexivity|].
    f_equal.
    + destruct HR as (K & _ & xs & G1 & G2). cbn in *. subst k'. f_equal.
      unfold leafdata. rewrite (hget_mono _ [ODict (_ :: _)] _ _ G1).
      assert (Hll : l < length h) by (apply (Hold k l); now left). rewrite hget_app_old in G2 by exact Hll. now rewrite G2.
    + (* the tail: the final heap differs only in the last cell, which no leaf lookup sees *)
      assert (Hold' : forall k l, In (k, l) t -> l < length h) by (intros; eapply Hold; right; eauto).
      specialize (IH Hold').
      assert (E : forall kvsA kvsB, map (fun x : Z * loc => (fst x, leafdata ((h ++ ext) ++ [ODict kvsA]) (snd x))) t'
                     = map (fun x : Z * loc => (fst x, leafdata ((h ++ ext) ++ [ODict kvsB]) (snd x))) t').
      { intros kvsA kvsB. apply map_ext_in. intros [k2 l2] Hin2. cbn. f_equal.
        destruct (Forall2_in_r _ _ _ _ HF Hin2) as (a & _ & (_ & [_ Hr] & _)). cbn in Hr.
        unfold leafdata. rewrite (hget_app_old (h ++ ext) [ODict kvsA]), (hget_app_old (h ++ ext) [ODict kvsB]) by exact Hr. reflexivity. }
      rewrite (E _ t'). exact IH.
Qed.

(** * regions and the frame condition *)
Definition region := loc -> Prop.
Definition closedR (h : heap) (A : region) : Prop :=
  forall l kvs k l', A l -> hget h l = Some (ODict kvs) -> In (k, l') kvs -> A l'.
Definition inR (A : region) (w : list (option loc)) : Prop := forall l, In (Some l) w -> A l.
Definition below (A : region) (n : nat) : Prop := forall l, A l -> l < n.
(** [A] plus everything allocated between sizes [n] and [n'] *)
Definition extR (A : region) (n n' : nat) : region := fun l => A l \/ n <= l < n'.

Lemma extR_mono A n n1 n2 l : n1 <= n2 -> extR A n n1 l -> extR A n n2 l.
Proof. intros H [HA|HB]; [now left | right; lia]. Qed.
Lemma inR_mono (A B : region) w : (forall l, A l -> B l) -> inR A w -> inR B w.
Proof. intros H HA l Hin. apply H, HA, Hin. Qed.

(** an operator touches only what it can reach: for EVERY region [A] that is closed under the dict -> leaf pointers and
    contains the arguments and the operator's private memory, nothing outside [A] is written, and everything returned or
    remembered lies in [A] or was freshly allocated.  [mc]: the returned mating configuration is used (pselect). *)
Definition op_wb (mc : bool) (op : operator) : Prop :=
  forall h s args t tm (A : region),
    closedR h A -> below A (length h) -> (forall l, In l args -> A l) -> inR A s -> 5 <= length args ->
    let r := op h s args t tm in
    let A' := extR A (length h) (length (r_heap r)) in
    length h <= length (r_heap r) /\
    (forall l, l < length h -> ~ A l -> hget (r_heap r) l = hget h l) /\
    closedR (r_heap r) A' /\ inR A' (r_roots r) /\ inR A' (r_stash r) /\ (mc = true -> A' (r_mcfg r)).
Definition log_wb (lg : logger) : Prop :=
  forall h s args t tm rep misc (A : region),
    closedR h A -> below A (length h) -> (forall l, In l args -> A l) -> inR A s ->
    match lg h s args t tm rep misc with
    | (h', s', _) =>
        let A' := extR A (length h) (length h') in
        length h <= length h' /\ (forall l, l < length h -> ~ A l -> hget h' l = hget h l) /\ closedR h' A' /\ inR A' s'
    end.
Definition ops_wb (ops : opset) : Prop :=
  op_wb true (o_psel ops) /\ op_wb false (o_mate ops) /\ op_wb false (o_eval ops) /\ op_wb false (o_ssel ops) /\
  log_wb (l_init ops) /\ log_wb (l_psel ops) /\ log_wb (l_mate ops) /\ log_wb (l_eval ops) /\ log_wb (l_ssel ops).

(** * every program of the action language is well behaved *)
Section ActInv.
Variable h0 : heap.
Variable A : region.
Hypothesis Abelow : below A (length h0).

Definition AE (e : env) : region := extR A (length h0) (length (v_heap e)).
Definition envinv (e : env) : Prop :=
  length h0 <= length (v_heap e) /\
  (forall l, l < length h0 -> ~ A l -> hget (v_heap e) l = hget h0 l) /\
  closedR (v_heap e) (AE e) /\ inR (AE e) (v_slots e) /\ inR (AE e) (v_stash e).

Lemma AE_below e : envinv e -> below (AE e) (length (v_heap e)).
Proof. intros (L & _) l [Ha|Hb]; [apply Abelow in Ha; lia | lia]. Qed.

Lemma nth_some_in {X} (l : list (option X)) c x : nth c l None = Some x -> In (Some x) l.
Proof.
  intros H. destruct (Nat.lt_ge_cases c (length l)) as [Hl|Hl].
  - rewrite <- H. now apply nth_In.
  - rewrite nth_overflow in H by exact Hl. discriminate.
Qed.
Lemma set_nth_in {X} n (y : X) l x : In x (set_nth n y l) -> x = y \/ In x l.
Proof.
  revert n; induction l as [|z l IH]; intros [|n]; cbn; auto.
  - intros [H|H]; auto.
  - intros [H|H]; auto. destruct (IH _ H); auto.
Qed.

Lemma slot_dict_facts e c l kvs : envinv e -> slot_dict e c = Some (l, kvs) ->
  AE e l /\ hget (v_heap e) l = Some (ODict kvs) /\ (forall k l', In (k, l') kvs -> AE e l').
Proof.
  intros (L & F & C & S & T) H. unfold slot_dict, slot in H.
  destruct (nth c (v_slots e) None) as [l0|] eqn:En; [|discriminate].
  destruct (hget (v_heap e) l0) as [[kk|xs]|] eqn:Eg; try discriminate. injection H as <- <-.
  assert (Hl : AE e l0) by (apply S; eapply nth_some_in; eauto).
  repeat split; auto. intros k l' Hin. eapply C; eauto.
Qed.

(** replacing the heap by one that differs only inside the region / in fresh cells *)
Lemma envinv_heap e h' :
  envinv e -> length (v_heap e) <= length h' ->
  (forall l, l < length (v_heap e) -> ~ AE e l -> hget h' l = hget (v_heap e) l) ->
  closedR h' (extR A (length h0) (length h')) ->
  envinv (with_heap e h').
Proof.
  intros (L & F & C & S & T) Hlen Hfr Hcl. unfold envinv, AE; cbn.
  split; [lia|]. split; [|split; [exact Hcl|]].
  - intros l Hl Hn. rewrite Hfr; [now apply F | lia |]. intros [Ha|Hb]; [contradiction | lia].
  - split; (eapply inR_mono; [|eassumption]); intros l; apply extR_mono; exact Hlen.
Qed.

Lemma envinv_slot e c o : envinv e -> (forall l, o = Some l -> AE e l) -> envinv (with_slot e c o).
Proof.
  intros (L & F & C & S & T) Ho. unfold envinv, AE; cbn. repeat split; auto.
  intros l Hin. apply set_nth_in in Hin. destruct Hin as [Hin|Hin]; [now apply Ho | now apply S].
Qed.

(** writing a dict whose values are in the region into a cell of the region *)
Lemma closed_hset_dict e h1 l kvs' :
  envinv e -> length (v_heap e) <= length h1 ->
  (forall x, x < length (v_heap e) -> hget h1 x = hget (v_heap e) x) ->
  (forall x kk, length (v_heap e) <= x -> hget h1 x = Some (ODict kk) -> forall k l', In (k, l') kk -> extR A (length h0) (length h1) l') ->
  l < length (v_heap e) ->
  (forall k l', In (k, l') kvs' -> extR A (length h0) (length h1) l') ->
  closedR (hset h1 l (ODict kvs')) (extR A (length h0) (length (hset h1 l (ODict kvs')))).
Proof.
  intros (L & F & C & S & T) Hlen Hold Hnew Hl Hv. rewrite hset_length.
  intros x kk k l' Hx Hg Hin. destruct (Nat.eq_dec l x) as [<-|Ne].
  - rewrite hget_hset_same in Hg by lia. injection Hg as <-. eapply Hv; eauto.
  - rewrite hget_hset_other in Hg by exact Ne.
    destruct (Nat.lt_ge_cases x (length (v_heap e))) as [Hlt|Hge].
    + rewrite Hold in Hg by exact Hlt.
      assert (Hx' : AE e x) by (destruct Hx as [Ha|Hb]; [now left | right; lia]).
      eapply extR_mono; [exact Hlen|]. eapply C; eauto.
    + eapply Hnew; eauto.
Qed.

Lemma set_leaf_inv e c k v : envinv e -> envinv (set_leaf e c k v).
Proof.
  intros He. unfold set_leaf. destruct (slot_dict e c) as [[l kvs]|] eqn:Es; [|exact He].
  destruct (slot_dict_facts _ _ _ _ He Es) as (Hl & Hg & Hk). pose proof (hget_lt _ _ _ Hg) as Hlt.
  assert (Hlen1 : length (v_heap e ++ [OLeaf v]) = S (length (v_heap e))) by (rewrite app_length; cbn; lia).
  apply envinv_heap; [exact He | rewrite hset_length; lia | |].
  - intros x Hx Hn. rewrite hget_hset_other by (intros ->; contradiction). now apply hget_app_old.
  - apply (closed_hset_dict e); auto; try lia.
    + intros x Hx. now apply hget_app_old.
    + intros x kk Hx Hgx. assert (x = length (v_heap e)) as -> by (apply hget_lt in Hgx; lia).
      rewrite hget_app_new in Hgx. discriminate.
    + intros k' l' Hin. apply kv_set_in in Hin. destruct Hin as [E|Hin].
      * injection E as _ ->. right. destruct He as (L & _). lia.
      * eapply extR_mono; [|apply (Hk _ _ Hin)]. lia.
Qed.

Lemma app_leaf_inv e c k x : envinv e -> envinv (app_leaf e c k x).
Proof.
  intros He. unfold app_leaf. destruct (slot_dict e c) as [[l kvs]|] eqn:Es; [|exact He].
  destruct (slot_dict_facts _ _ _ _ He Es) as (Hl & Hg & Hk).
  destruct (kv_get k kvs) as [ll|] eqn:Ek; [|exact He].
  destruct (hget (v_heap e) ll) as [[kk|xs]|] eqn:Egl; try exact He.
  assert (Hll : AE e ll) by (eapply Hk, kv_get_in; eauto).
  apply envinv_heap; [exact He | rewrite hset_length; lia | |].
  - intros y Hy Hn. apply hget_hset_other. intros ->. contradiction.
  - rewrite hset_length. destruct He as (L & F & C & S & T).
    intros y kk k' l' Hy Hgy Hin. destruct (Nat.eq_dec ll y) as [<-|Ne].
    + rewrite hget_hset_same in Hgy by (eapply hget_lt; eauto). discriminate.
    + rewrite hget_hset_other in Hgy by exact Ne. eapply C; eauto.
Qed.

(** overwrite the dict at [l] (already a dict of the region) with entries from the region, no allocation *)
Lemma rewrite_dict_inv e l kvs' :
  envinv e -> AE e l -> l < length (v_heap e) -> (forall k l', In (k, l') kvs' -> AE e l') ->
  envinv (with_heap e (hset (v_heap e) l (ODict kvs'))).
Proof.
  intros He Hl Hlt Hv. apply envinv_heap; [exact He | rewrite hset_length; lia | |].
  - intros y Hy Hn. apply hget_hset_other. intros ->. contradiction.
  - apply (closed_hset_dict e); auto.
    intros x kk Hx Hgx. apply hget_lt in Hgx. lia.
Qed.

Lemma act_inv t b a e : envinv e -> envinv (act t b a e).
Proof.
  intros He. unfold act. destruct (v_ok e); cbn [negb]; [|exact He].
  destruct a as [c k v|c k|c k x|c k|c k|c k c2 k2|c|c|c c2|c r|c r|k v|c|].
  - now apply set_leaf_inv.
  - now apply set_leaf_inv.
  - now apply app_leaf_inv.
  - now apply app_leaf_inv.
  - destruct (slot_dict e c) as [[l kvs]|] eqn:Es; [|exact He].
    destruct (slot_dict_facts _ _ _ _ He Es) as (Hl & Hg & Hk).
    apply rewrite_dict_inv; auto; [eapply hget_lt; eauto|]. intros k' l' Hin. apply kv_del_in in Hin. eauto.
  - destruct (slot_dict e c) as [[l kvs]|] eqn:Es; [|exact He].
    destruct (slot_dict e c2) as [[l2 kvs2]|] eqn:Es2; [|exact He].
    destruct (slot_dict_facts _ _ _ _ He Es) as (Hl & Hg & Hk).
    destruct (slot_dict_facts _ _ _ _ He Es2) as (Hl2 & Hg2 & Hk2).
    destruct (kv_get k2 kvs2) as [ll|] eqn:Ek; [|exact He].
    apply rewrite_dict_inv; auto; [eapply hget_lt; eauto|]. intros k' l' Hin. apply kv_set_in in Hin.
    destruct Hin as [E|Hin]; [|eauto]. injection E as _ ->. eapply Hk2, kv_get_in; eauto.
  - (* ANew *)
    destruct (slot_dict e c) as [[l kvs]|] eqn:Es; [|exact He].
    destruct (slot_dict_facts _ _ _ _ He Es) as (Hl & Hg & Hk).
    assert (He1 : envinv (with_heap e (v_heap e ++ [ODict kvs]))).
    { apply envinv_heap; [exact He | rewrite app_length; lia | |].
      - intros y Hy _. now apply hget_app_old.
      - rewrite app_length. cbn [length]. destruct He as (L & F & C & S & T).
        intros y kk k' l' Hy Hgy Hin. destruct (Nat.lt_ge_cases y (length (v_heap e))) as [Hlt|Hge].
        + rewrite hget_app_old in Hgy by exact Hlt.
          assert (Hy' : AE e y) by (destruct Hy as [Ha|Hb]; [now left | right; lia]).
          eapply extR_mono; [|eapply C; eauto]. lia.
        + assert (y = length (v_heap e)) as -> by (apply hget_lt in Hgy; rewrite app_length in Hgy; cbn in Hgy; lia).
          rewrite hget_app_new in Hgy. injection Hgy as <-. eapply extR_mono; [|eapply Hk; eauto]. lia. }
    apply envinv_slot; [exact He1|]. intros l1 [= <-]. right. cbn. rewrite app_length. cbn.
    destruct He as (L & _). lia.
  - (* ADeep *)
    destruct (slot_dict e c) as [[l kvs]|] eqn:Es; [|exact He].
    destruct (deepcopy (v_heap e) l) as [[h' l']|] eqn:Ed; [|exact He].
    destruct (deepcopy_facts _ _ _ _ Ed) as ((ext & ->) & Hd' & Hfc & _ & _).
    assert (He1 : envinv (with_heap e (v_heap e ++ ext))).
    { apply envinv_heap; [exact He | rewrite app_length; lia | |].
      - intros y Hy _. now apply hget_app_old.
      - destruct He as (L & F & C & S & T).
        intros y kk k' l1 Hy Hgy Hin. destruct (Nat.lt_ge_cases y (length (v_heap e))) as [Hlt|Hge].
        + rewrite hget_app_old in Hgy by exact Hlt.
          assert (Hy' : AE e y) by (destruct Hy as [Ha|Hb]; [now left | right; lia]).
          eapply extR_mono; [|eapply C; eauto]. rewrite app_length. lia.
        + right. pose proof (hget_lt _ _ _ Hgy) as Hylt.
          specialize (Hfc y kk k' l1 (conj Hge Hylt) Hgy Hin). lia. }
    apply envinv_slot; [exact He1|]. intros l1 [= <-]. right. cbn. destruct He as (L & _). lia.
  - destruct (slot_dict e c2) as [[l2 kvs2]|] eqn:Es2; [|exact He].
    destruct (slot_dict_facts _ _ _ _ He Es2) as (Hl2 & _).
    apply envinv_slot; [exact He|]. now intros l1 [= <-].
  - destruct (slot_dict e c) as [[l kvs]|] eqn:Es; [|exact He].
    destruct (slot_dict_facts _ _ _ _ He Es) as (Hl & _).
    destruct He as (L & F & C & S & T). unfold envinv, AE; cbn. repeat split; auto.
    intros l1 Hin. apply set_nth_in in Hin. destruct Hin as [[= <-]|Hin]; [exact Hl | now apply T].
  - destruct (nth r (v_stash e) None) as [l|] eqn:En; [|exact He].
    apply envinv_slot; [exact He|]. intros l1 [= <-]. destruct He as (L & F & C & S & T). apply T. eapply nth_some_in; eauto.
  - destruct b; exact He.
  - destruct (Nat.ltb c 5); [|exact He]. apply envinv_slot; [exact He|]. discriminate.
  - exact He.
Qed.

Lemma run_prog_inv t b prog e : envinv e -> envinv (run_prog t b prog e).
Proof.
  unfold run_prog. revert e; induction prog as [|a p IH]; intros e He; cbn; [exact He|]. apply IH, act_inv, He.
Qed.
End ActInv.

(** slot 5 of pselect's environment always holds a container *)
Lemma act_slot5 t b a e : nth 5 (v_slots e) None <> None -> nth 5 (v_slots (act t b a e)) None <> None.
Proof.
  assert (Hset : forall c o sl, nth 5 sl None <> None -> (c = 5 -> o <> None) -> nth 5 (@set_nth (option loc) c o sl) None <> None).
  { intros c o sl. revert c. do 6 (destruct sl as [|? sl]; [cbn; congruence|]).
    intros [|[|[|[|[|[|c]]]]]]; cbn; auto; try congruence. }
  intros H. unfold act. destruct (v_ok e); cbn [negb]; [|exact H].
  destruct a as [c k v|c k|c k x|c k|c k|c k c2 k2|c|c|c c2|c r|c r|k v|c|]; cbn;
    unfold set_leaf, app_leaf;
    repeat match goal with
           | |- context [if ?x then _ else _] => destruct x eqn:?; cbn
           | |- context [match ?x with _ => _ end] => destruct x; cbn
           end; try exact H; try (apply Hset; [exact H | congruence]).
  apply Hset; [exact H|]. intros ->. discriminate.
Qed.
Lemma run_prog_slot5 t b prog e : nth 5 (v_slots e) None <> None -> nth 5 (v_slots (run_prog t b prog e)) None <> None.
Proof. unfold run_prog. revert e; induction prog as [|a p IH]; intros e He; cbn; [exact He|]. apply IH, act_slot5, He. Qed.

Lemma in_firstn {X} n (l : list X) x : In x (firstn n l) -> In x l.
Proof. revert n; induction l as [|y l IH]; intros [|n]; cbn; try tauto. intros [H|H]; eauto. Qed.

Lemma closedR_same h (A : region) : closedR h A -> closedR h (extR A (length h) (length h)).
Proof. intros C l kvs k l' [Ha|Hb] Hg Hin; [left; eapply C; eauto | lia]. Qed.

Lemma init_env_inv h (A : region) s args last h1 :
  closedR h A -> below A (length h) -> (forall l, In l args -> A l) -> inR A s ->
  ((h1 = h /\ forall l, last = Some l -> In l args) \/ (h1 = h ++ [ODict []] /\ last = Some (length h))) ->
  envinv h A (mkEnv h1 (map Some (firstn 5 args) ++ [last]) s [] true).
Proof.
  intros C B Ha Hs Hcase. unfold envinv, AE; cbn.
  assert (Hslots : forall l, In (Some l) (map Some (firstn 5 args)) -> A l).
  { intros l Hin. apply in_map_iff in Hin. destruct Hin as (x & [= ->] & Hx). apply Ha. eapply in_firstn; eauto. }
  destruct Hcase as [[-> Hl]|[-> ->]].
  - split; [lia|]. split; [auto|]. split; [now apply closedR_same|]. split.
    + intros l Hin. apply in_app_or in Hin. destruct Hin as [Hin|[Hin|[]]]; left; [now apply Hslots | now apply Ha, Hl].
    + intros l Hin. left. now apply Hs.
  - rewrite app_length; cbn. split; [lia|]. split; [intros l Hl _; now apply hget_app_old|]. split; [|split].
    + intros y kk k l' Hy Hgy Hin. destruct (Nat.lt_ge_cases y (length h)) as [Hlt|Hge].
      * rewrite hget_app_old in Hgy by exact Hlt. left. destruct Hy as [Hy|Hy]; [eapply C; eauto | lia].
      * assert (y = length h) as -> by (apply hget_lt in Hgy; rewrite app_length in Hgy; cbn in Hgy; lia).
        rewrite hget_app_new in Hgy. injection Hgy as <-. destruct Hin.
    + intros l Hin. apply in_app_or in Hin. destruct Hin as [Hin|[Hin|[]]]; [left; now apply Hslots|].
      injection Hin as <-. right. lia.
    + intros l Hin. left. now apply Hs.
Qed.

Lemma interp_op_wb kind prog :
  op_wb (match kind with KPsel => true | _ => false end) (interp_op kind prog).
Proof.
  intros h s args t tm A C B Ha Hs Hlen. unfold interp_op.
  set (e0 := match kind with
             | KPsel => mkEnv (h ++ [ODict []]) (map Some (firstn 5 args) ++ [Some (length h)]) s [] true
             | KMate => mkEnv h (map Some (firstn 5 args) ++ [nth_error args 5]) s [] true
             | KPlain => mkEnv h (map Some (firstn 5 args) ++ [None]) s [] true
             end).
  assert (He0 : envinv h A e0).
  { destruct kind; unfold e0; apply init_env_inv; auto.
    - left. split; [reflexivity|]. intros l Hl. eapply nth_error_In; eauto.
    - left. split; [reflexivity|]. discriminate. }
  pose proof (run_prog_inv h A t true prog e0 He0) as (L & F & Cl & S & T).
  cbn [r_heap r_roots r_stash r_mcfg r_misc r_ok]. unfold AE in *. repeat split; auto.
  - intros l Hin. apply S. eapply in_firstn; eauto.
  - destruct kind; try discriminate. intros _.
    assert (H5 : nth 5 (v_slots e0) None <> None).
    { unfold e0; cbn. destruct args as [|a0 [|a1 [|a2 [|a3 [|a4 args]]]]]; cbn in Hlen; try lia. cbn; congruence. }
    apply (run_prog_slot5 t true prog) in H5.
    destruct (nth 5 (v_slots (run_prog t true prog e0)) None) as [l|] eqn:En; [|congruence].
    apply S. eapply nth_some_in; eauto.
Qed.

Lemma interp_log_wb prog : log_wb (interp_log prog).
Proof.
  intros h s args t tm rep misc A C B Ha Hs. unfold interp_log.
  set (e0 := mkEnv h (map Some (firstn 5 args) ++ [nth_error args 5]) s [] true).
  assert (He0 : envinv h A e0).
  { apply init_env_inv; auto. left. split; [reflexivity|]. intros l Hl. eapply nth_error_In; eauto. }
  pose proof (run_prog_inv h A t false prog e0 He0) as (L & F & Cl & S & T).
  unfold AE in *. repeat split; auto.
Qed.

Theorem interp_wb g : ops_wb (interp g).
Proof.
  unfold ops_wb, interp; cbn [o_psel o_mate o_eval o_ssel l_init l_psel l_mate l_eval l_ssel].
  split; [exact (interp_op_wb KPsel _)|]. split; [exact (interp_op_wb KMate _)|].
  split; [exact (interp_op_wb KPlain _)|]. split; [exact (interp_op_wb KPlain _)|].
  repeat (split; [apply interp_log_wb|]). apply interp_log_wb.
Qed.
