(** C13 — scale laws of the generalised weighted estimator (the generators scale marker weights by 2^-40 .. 2^+20):
    weights t*w give exactly t times the matrix, a scalar weight s gives s times the unweighted matrix. *)
From PV Require Import Lib.Common Model.C13_Coanc Proofs.C13_Coanc.
Local Open Scope Q_scope.

(** * scale covariance of the weighted estimator: weights t*w give t times the matrix (any t, any sign) *)
Lemma wdot_scale_w t w a b : wdot (map (Qmult t) w) a b == t * wdot w a b.
Proof.
  revert a b; induction w as [|wk w IH]; intros [|ak a] [|bk b]; cbn [map wdot]; try ring.
  rewrite IH. ring.
Qed.

Theorem gw_weight_scale_covariant pl m X w p t G G' i j :
  gw_from_gmat pl m X (AArr w) p = ROk G -> gw_from_gmat pl m X (AArr (map (Qmult t) w)) p = ROk G' ->
  (i < length X)%nat -> (j < length X)%nat -> entry G' i j == t * entry G i j.
Proof.
  unfold gw_from_gmat, resolve_wt. rewrite map_length.
  destruct (negb (length w =? m)%nat); [discriminate|].
  destruct (resolve_freq pl m X p) as [pv| |e]; try discriminate.
  intros E E' Hi Hj. injection E as <-. injection E' as <-.
  set (Zm := center (Zq pl) pv X).
  assert (L : length Zm = length X) by (unfold Zm, center; apply map_length).
  change (gw_mat (map (Qmult t) w) Zm) with (gram (gw_entry (map (Qmult t) w)) Zm).
  change (gw_mat w Zm) with (gram (gw_entry w) Zm).
  rewrite !(qred_gram_entry _ Zm [] i j) by (rewrite L; assumption).
  rewrite !gw_entry_wdot. apply wdot_scale_w.
Qed.

Lemma wdot_repeat_scale s m a b : wdot (repeat s m) a b == s * wdot (repeat 1 m) a b.
Proof.
  revert a b; induction m as [|k IH]; intros [|ak a] [|bk b]; cbn [repeat wdot]; try ring.
  rewrite IH. ring.
Qed.

(** a scalar weight s is the array of m copies of s, hence s times the unweighted matrix *)
Theorem gw_scalar_weight pl m X p s G G1 i j :
  gw_from_gmat pl m X (AScalar s) p = ROk G -> gw_from_gmat pl m X ANone p = ROk G1 ->
  (i < length X)%nat -> (j < length X)%nat -> entry G i j == s * entry G1 i j.
Proof.
  unfold gw_from_gmat, resolve_wt.
  destruct (Qle_bool 0 s); [|discriminate].
  destruct (resolve_freq pl m X p) as [pv| |e]; try discriminate.
  intros E E' Hi Hj. injection E as <-. injection E' as <-.
  set (Zm := center (Zq pl) pv X).
  assert (L : length Zm = length X) by (unfold Zm, center; apply map_length).
  change (gw_mat (repeat s m) Zm) with (gram (gw_entry (repeat s m)) Zm).
  change (gw_mat (repeat 1 m) Zm) with (gram (gw_entry (repeat 1 m)) Zm).
  rewrite !(qred_gram_entry _ Zm [] i j) by (rewrite L; assumption).
  rewrite !gw_entry_wdot.
  apply wdot_repeat_scale.
Qed.

(** summaries under a positive rescaling of the matrix: max_inbreeding and min_inbreeding_of scale with it *)
Lemma half_scale f t x : half f (t * x) == t * half f x.
Proof. destruct f; unfold half; ring. Qed.
