(** C13 — with reference frequencies estimated from the matrix itself (the default [p_anc = None] /
    [afreq = None]) the centred genotype matrix has zero column sums, hence 1'G1 = 0: the VanRaden, Yang and
    weighted matrices are then always singular (positive semidefinite, never definite).  Consequence for the
    code: [inverse] / [min_inbreeding] are undefined and [is_positive_semidefinite] (which demands eigenvalues
    >= 2e-14) cannot hold for these matrices. *)
From PV Require Import Lib.Common Model.C13_Coanc Proofs.C13_Coanc.
Local Open Scope Q_scope.

Lemma Forall2_Qeq_refl l : Forall2 Qeq l l.
Proof. induction l; constructor; [reflexivity | assumption]. Qed.

Lemma Forall2_Qeq_trans a b c : Forall2 Qeq a b -> Forall2 Qeq b c -> Forall2 Qeq a c.
Proof.
  intros H; revert c; induction H as [|x y a b Hxy H IH]; intros c H2; inversion H2; subst; constructor.
  - rewrite Hxy. assumption.
  - apply IH. assumption.
Qed.

Lemma map2_Qplus_ext a a' b b' : Forall2 Qeq a a' -> Forall2 Qeq b b' -> Forall2 Qeq (map2 Qplus a b) (map2 Qplus a' b').
Proof.
  intros Ha; revert b b'; induction Ha as [|x x' a a' Hx Ha IH]; intros b b' Hb; [constructor|].
  destruct Hb as [|y y' b b' Hy Hb]; [constructor|]. cbn [map2]. constructor; [rewrite Hx, Hy; reflexivity | apply IH, Hb].
Qed.

Lemma vscale_one z : Forall2 Qeq (vscale 1 z) z.
Proof. induction z as [|a z IH]; cbn; constructor; [ring | exact IH]. Qed.

Lemma lincomb_ones_colsums m Zm : Forall2 Qeq (lincomb m (repeat 1 (length Zm)) Zm) (colsumsQ m Zm).
Proof.
  induction Zm as [|z Zm IH]; cbn [length repeat lincomb colsumsQ fold_right]; [apply Forall2_Qeq_refl|].
  unfold vadd. apply map2_Qplus_ext; [apply vscale_one | exact IH].
Qed.

Lemma wdot_ext_l w a a' b : Forall2 Qeq a a' -> wdot w a b == wdot w a' b.
Proof.
  intros H; revert w b; induction H as [|x y a a' Hxy H IH]; intros [|wk w] [|bk b]; try reflexivity.
  cbn [wdot]. rewrite Hxy, IH. reflexivity.
Qed.

Lemma wdot_zero_all w a b : Forall (fun q => q == 0) a -> wdot w a b == 0.
Proof.
  intros H; revert w b; induction H as [|x a Hx H IH]; intros [|wk w] [|bk b]; try reflexivity.
  cbn [wdot]. rewrite Hx, IH. ring.
Qed.

(** column sums of the centred matrix *)
Lemma center_colsums_step c N row s p :
  Forall2 Qeq (map2 Qplus (center_row c p row) (map2 (fun sk pk => Zq sk - N * (pk * c)) s p))
              (map2 (fun sk pk => Zq sk - (N + 1) * (pk * c)) (map2 Z.add row s) p).
Proof.
  unfold center_row. revert s p; induction row as [|x row IH]; intros [|sk s] [|pk p]; cbn [map2]; try constructor.
  - unfold Zq. rewrite inject_Z_plus. ring.
  - apply IH.
Qed.

Lemma map2_const_ext {A} (f g : A -> Q -> Q) s p : (forall a b, f a b == g a b) -> Forall2 Qeq (map2 f s p) (map2 g s p).
Proof.
  intros H; revert p; induction s as [|a s IH]; intros [|b p]; cbn [map2]; constructor; [apply H | apply IH].
Qed.

Lemma center_colsums c p m X : length p = m ->
  Forall2 Qeq (colsumsQ m (center c p X))
              (map2 (fun sk pk => Zq sk - Zq (Z.of_nat (length X)) * (pk * c)) (colsumsZ m X) p).
Proof.
  intros Lp. induction X as [|row X IH]; cbn [center map colsumsQ colsumsZ fold_right length].
  - subst m. clear. induction p as [|pk p IHp]; cbn [length repeat map2]; constructor.
    + unfold Zq. cbn. ring.
    + apply IHp.
  - fold (center c p X) (colsumsQ m (center c p X)) (colsumsZ m X).
    eapply Forall2_Qeq_trans; [apply map2_Qplus_ext; [apply Forall2_Qeq_refl | exact IH]|].
    eapply Forall2_Qeq_trans; [apply center_colsums_step|].
    apply map2_const_ext. intros a b. rewrite Nat2Z.inj_succ. unfold Z.succ, Zq. rewrite inject_Z_plus. reflexivity.
Qed.

Lemma center_est_colsums_zero pl m X : (pl <> 0)%Z -> X <> [] ->
  Forall (fun q => q == 0)
         (map2 (fun sk pk => Zq sk - Zq (Z.of_nat (length X)) * (pk * Zq pl)) (colsumsZ m X) (afreq_est pl m X)).
Proof.
  intros Hpl HX. unfold afreq_est. rewrite map2_map_same. rewrite Forall_map. apply Forall_forall. intros sk _.
  unfold ntaxaZ, Zq. rewrite inject_Z_mult. field. split.
  - intros E. change 0 with (inject_Z 0) in E. apply -> inject_Z_injective in E. destruct X; [congruence | cbn in E; lia].
  - intros E. change 0 with (inject_Z 0) in E. apply -> inject_Z_injective in E. congruence.
Qed.

Lemma Forall2_zero a b : Forall2 Qeq a b -> Forall (fun q => q == 0) b -> Forall (fun q => q == 0) a.
Proof. induction 1 as [|x y a b Hxy H IH]; intros Hb; inversion Hb; subst; constructor; [rewrite Hxy; assumption | apply IH; assumption]. Qed.

(** 1' G 1 = 0 for a Gram matrix of rows whose column sums vanish *)
Lemma gram_ones_zero (e : list Q -> list Q -> Q) w m Zm :
  (forall a b, In a Zm -> In b Zm -> e a b == wdot w a b) -> rows_len m Zm ->
  Forall (fun q => q == 0) (colsumsQ m Zm) ->
  qform (repeat 1 (length Zm)) (gram e Zm) == 0.
Proof.
  intros He HL H0.
  rewrite (qform_gram e (fun z => z) w m Zm He HL). rewrite map_id.
  apply wdot_zero_all. eapply Forall2_zero; [apply lincomb_ones_colsums | exact H0].
Qed.

Definition estimated (c : call) : Prop :=
  match c with CVr ANone | CYang ANone | CGw _ ANone => True | _ => False end.

Theorem estimated_freq_singular c pl m X G : estimated c -> rows_len m X -> (pl <> 0)%Z -> X <> [] ->
  from_gmat c pl m X = ROk G -> length G = length X /\ qform (repeat 1 (length G)) G == 0.
Proof.
  intros Hc HX Hpl HXn E. pose proof (from_gmat_square c pl m X G E) as [LG _]. split; [exact LG|]. rewrite LG.
  assert (Lp : length (afreq_est pl m X) = m) by (apply afreq_est_length, HX).
  assert (HZ : rows_len m (center (Zq pl) (afreq_est pl m X) X)) by (apply center_rows; assumption).
  assert (H0 : Forall (fun q => q == 0) (colsumsQ m (center (Zq pl) (afreq_est pl m X) X))).
  { eapply Forall2_zero; [apply center_colsums, Lp | apply center_est_colsums_zero; assumption]. }
  assert (LZ : length (center (Zq pl) (afreq_est pl m X) X) = length X) by (unfold center; apply map_length).
  destruct c as [|[| |]|[| |]|wa [| |]]; cbn [estimated] in Hc; try contradiction; cbn [from_gmat] in E.
  - unfold vr_from_gmat in E. cbn [resolve_freq] in E. destruct (Qeq_bool _ _); [discriminate|]. injection E as <-.
    set (s := 1 / (Zq pl * het_sum (afreq_est pl m X))).
    change (vr_mat (Zq pl) (afreq_est pl m X) (center (Zq pl) (afreq_est pl m X) X))
      with (gram (fun zi zj => s * dotQr zi zj) (center (Zq pl) (afreq_est pl m X) X)).
    rewrite qred_gram, <- LZ. apply (gram_ones_zero _ (repeat s m) m); [|exact HZ|exact H0].
    intros a b Ha Hb. unfold rows_len in HZ. rewrite Forall_forall in HZ.
    rewrite Qred_correct, dotQr_eq, wdot_repeat by (apply HZ; assumption). reflexivity.
  - unfold yang_from_gmat in E. cbn [resolve_freq] in E. destruct (Nat.eqb m 0); [discriminate|].
    destruct (existsb _ _); [discriminate|]. injection E as <-.
    set (t := 1 / Zq (Z.of_nat m)). set (d := yang_den (Zq pl) (afreq_est pl m X)).
    change (yang_mat m d (center (Zq pl) (afreq_est pl m X) X))
      with (gram (fun zi zj => t * yang_entry d zi zj) (center (Zq pl) (afreq_est pl m X) X)).
    rewrite qred_gram, <- LZ. apply (gram_ones_zero _ (map (fun dk => t / dk) d) m); [|exact HZ|exact H0].
    intros a b _ _. rewrite Qred_correct. apply yang_entry_wdot.
  - unfold gw_from_gmat in E. destruct (resolve_wt m wa) as [w| |e]; try discriminate. cbn [resolve_freq] in E. injection E as <-.
    change (gw_mat w (center (Zq pl) (afreq_est pl m X) X)) with (gram (gw_entry w) (center (Zq pl) (afreq_est pl m X) X)).
    rewrite qred_gram, <- LZ. apply (gram_ones_zero _ w m); [|exact HZ|exact H0].
    intros a b _ _. rewrite Qred_correct. apply gw_entry_wdot.
Qed.
