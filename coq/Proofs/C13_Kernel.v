(** C13 — the kernel expressions regenerated from the source (Gen/C13_Kernel.v) are the ones the hand model uses.
    [gen_from_gmat] below is the four estimators assembled ONLY from the generated kernels (plus list combinators and the
    dot products); [gen_from_gmat_is_model] shows it Leibniz-equal to the hand model [from_gmat] — by [reflexivity] for the
    molecular, VanRaden and Yang formulas, through the boundary lemmas [*_bad_model] for the argument checks, and through
    [Qred] canonical forms for the weighted estimator (the source writes [ploidy * p], the model [p * ploidy]).
    If an expression of the source changes (a dropped factor 2, [X - 2] for [X - 1], [<=] for [<] in a range check, the
    kinship halving applied twice, [ploidy == 2] sending to the haploid formula ...) the regenerated definition no longer
    matches and this file — hence Props/C13.vo — stops compiling. *)
From Coq Require Import String Reals Qreals.
From PV Require Import Lib.Common Model.C13_Coanc Proofs.C13_Coanc Proofs.C13_Optimal Proofs.C13_Phased Proofs.C13_Cert Proofs.C13_Singular Gen.C13_Kernel.
Local Open Scope Q_scope.

(** * molecular *)
Definition gen_mol_hap_mat (m : nat) (X : list (list Z)) : list (list Q) :=
  let rn := k_mol_rnvrnt (Zq (Z.of_nat m)) in
  let Y := map (map k_mol_hap_compl) X in
  map2 (fun xi yi => map2 (fun xj yj => k_mol_hap_entry rn (Zq (k_mol_hap_sum (dotZ xi xj) (dotZ yi yj)))) X Y) X Y.
Definition gen_mol_dip_mat (m : nat) (X : list (list Z)) : list (list Q) :=
  let rn := k_mol_rnvrnt (Zq (Z.of_nat m)) in
  let X1 := map (map k_mol_dip_center) X in
  map (fun xi => map (fun xj => k_mol_dip_entry rn (Zq (dotZ xi xj))) X1) X1.
Definition gen_mol_from_gmat (ploidy : Z) (m : nat) (X : list (list Z)) : res (list (list Q)) :=
  if Nat.eqb m 0 then RErr EOther
  else if k_mol_is_hap ploidy then ROk (qred_mat (gen_mol_hap_mat m X))
  else if k_mol_is_dip ploidy then ROk (qred_mat (gen_mol_dip_mat m X))
  else RErr EOther.

Lemma gen_mol_hap_is_model m X : gen_mol_hap_mat m X = mol_hap_mat m X.   Proof. reflexivity. Qed.
Lemma gen_mol_dip_is_model m X : gen_mol_dip_mat m X = mol_dip_mat m X.   Proof. reflexivity. Qed.
Lemma gen_mol_is_model pl m X : gen_mol_from_gmat pl m X = mol_from_gmat pl m X.   Proof. reflexivity. Qed.

(** * argument checks (boundaries of the admissible ranges) *)
Lemma freq_bad_is_not_in01 q : orb (negb (Qle_bool 0 q)) (negb (Qle_bool q 1)) = negb (in01 q).
Proof. unfold in01. destruct (Qle_bool 0 q), (Qle_bool q 1); reflexivity. Qed.
Lemma k_vr_freq_scalar_bad_model q : k_vr_freq_scalar_bad q = negb (in01 q).     Proof. exact (freq_bad_is_not_in01 q). Qed.
Lemma k_vr_freq_array_bad_model q : k_vr_freq_array_bad q = negb (in01 q).       Proof. exact (freq_bad_is_not_in01 q). Qed.
Lemma k_yang_freq_scalar_bad_model q : k_yang_freq_scalar_bad q = negb (in01 q). Proof. exact (freq_bad_is_not_in01 q). Qed.
Lemma k_yang_freq_array_bad_model q : k_yang_freq_array_bad q = negb (in01 q).   Proof. exact (freq_bad_is_not_in01 q). Qed.
Lemma k_gw_freq_scalar_bad_model q : k_gw_freq_scalar_bad q = negb (in01 q).     Proof. exact (freq_bad_is_not_in01 q). Qed.
Lemma k_gw_freq_array_bad_model q : k_gw_freq_array_bad q = negb (in01 q).       Proof. exact (freq_bad_is_not_in01 q). Qed.
Lemma k_gw_wt_scalar_bad_model q : k_gw_wt_scalar_bad q = negb (Qle_bool 0 q).
Proof. unfold k_gw_wt_scalar_bad. destruct (Qle_bool 0 q); reflexivity. Qed.

(** the boundary values themselves: 0 and 1 are accepted frequencies, 0 is an accepted weight, anything outside is not *)
Lemma freq_boundaries :
  k_vr_freq_scalar_bad 0 = false /\ k_vr_freq_scalar_bad 1 = false /\ k_vr_freq_array_bad 0 = false /\ k_vr_freq_array_bad 1 = false /\
  k_yang_freq_scalar_bad 0 = false /\ k_yang_freq_scalar_bad 1 = false /\ k_yang_freq_array_bad 0 = false /\ k_yang_freq_array_bad 1 = false /\
  k_gw_freq_scalar_bad 0 = false /\ k_gw_freq_scalar_bad 1 = false /\ k_gw_freq_array_bad 0 = false /\ k_gw_freq_array_bad 1 = false /\
  k_gw_wt_scalar_bad 0 = false.
Proof. repeat split; reflexivity. Qed.

Definition gen_resolve_freq (bad_s bad_a : Q -> bool) (bcast : Z -> Z) (ploidy : Z) (m : nat) (X : list (list Z)) (a : oarg) : res (list Q) :=
  match a with
  | ANone => ROk (afreq_est ploidy m X)
  | AArr l => if negb (Nat.eqb (length l) m) then RErr EValue
              else if existsb bad_a l then RErr EValue else ROk l
  | AScalar q => if bad_s q then RErr EValue else ROk (repeat q (Z.to_nat (bcast (Z.of_nat m))))
  end.
Definition gen_resolve_wt (m : nat) (a : oarg) : res (list Q) :=
  match a with
  | ANone => ROk (repeat 1 m)
  | AArr l => if negb (Nat.eqb (length l) m) then RErr EValue else ROk l
  | AScalar q => if k_gw_wt_scalar_bad q then RErr EValue else ROk (repeat q (Z.to_nat (k_gw_wt_bcast (Z.of_nat m))))
  end.

Lemma existsb_negb_forallb {A} (f g : A -> bool) l : (forall x, f x = negb (g x)) -> existsb f l = negb (forallb g l).
Proof. intro H. induction l as [|x l IH]; simpl; [reflexivity|]. rewrite H, IH. destruct (g x), (forallb g l); reflexivity. Qed.

Lemma gen_resolve_freq_is_model bad_s bad_a bcast pl m X a :
  (forall q, bad_s q = negb (in01 q)) -> (forall q, bad_a q = negb (in01 q)) -> (forall z, bcast z = z) ->
  gen_resolve_freq bad_s bad_a bcast pl m X a = resolve_freq pl m X a.
Proof.
  intros Hs Ha Hb. destruct a as [|q|l]; simpl.
  - reflexivity.
  - rewrite Hs, Hb, Nat2Z.id. destruct (in01 q); reflexivity.
  - rewrite (existsb_negb_forallb bad_a in01 l Ha). destruct (negb (length l =? m)%nat); [reflexivity|]. destruct (forallb in01 l); reflexivity.
Qed.
Lemma gen_resolve_wt_is_model m a : gen_resolve_wt m a = resolve_wt m a.
Proof.
  destruct a as [|q|l]; simpl; try reflexivity.
  rewrite k_gw_wt_scalar_bad_model. unfold k_gw_wt_bcast. rewrite Nat2Z.id. destruct (Qle_bool 0 q); reflexivity.
Qed.

(** * centring, VanRaden, Yang *)
Definition gen_center (mean center : Q -> Q -> Q) (c : Q) (p : list Q) (X : list (list Z)) : list (list Q) :=
  map (fun row => map2 (fun x pk => center (Zq x) (mean pk c)) row p) X.
Lemma gen_center_vr_is_model c p X : gen_center k_vr_mean k_vr_center c p X = center c p X.       Proof. reflexivity. Qed.
Lemma gen_center_yang_is_model c p X : gen_center k_yang_mean k_yang_center c p X = center c p X. Proof. reflexivity. Qed.

Definition gen_vr_het (p : list Q) : Q := dotQr p (map k_vr_het_compl p).
Definition gen_vr_mat (c : Q) (p : list Q) (Zm : list (list Q)) : list (list Q) :=
  let s := k_vr_scale c (gen_vr_het p) in
  map (fun zi => map (fun zj => k_vr_entry s (dotQr zi zj)) Zm) Zm.
Definition gen_vr_from_gmat (ploidy : Z) (m : nat) (X : list (list Z)) (p_anc : oarg) : res (list (list Q)) :=
  match gen_resolve_freq k_vr_freq_scalar_bad k_vr_freq_array_bad k_vr_freq_bcast ploidy m X p_anc with
  | RErr e => RErr e | RNonfinite => RNonfinite
  | ROk p => if Qeq_bool (Zq ploidy * gen_vr_het p) 0 then RNonfinite
             else ROk (qred_mat (gen_vr_mat (Zq ploidy) p (gen_center k_vr_mean k_vr_center (Zq ploidy) p X)))
  end.
Lemma gen_vr_mat_is_model c p Zm : gen_vr_mat c p Zm = vr_mat c p Zm.   Proof. reflexivity. Qed.
Lemma gen_vr_is_model pl m X a : gen_vr_from_gmat pl m X a = vr_from_gmat pl m X a.
Proof.
  unfold gen_vr_from_gmat, vr_from_gmat.
  rewrite (gen_resolve_freq_is_model k_vr_freq_scalar_bad k_vr_freq_array_bad k_vr_freq_bcast pl m X a k_vr_freq_scalar_bad_model k_vr_freq_array_bad_model (fun z => eq_refl)).
  reflexivity.
Qed.

Definition gen_yang_den (c : Q) (p : list Q) : list Q := map (k_yang_var c) p.
Definition gen_yang_mat (m : nat) (d : list Q) (Zm : list (list Q)) : list (list Q) :=
  map (fun zi => map (fun zj => k_yang_entry (k_yang_scale (Zq (Z.of_nat m))) (yang_entry d zi zj)) Zm) Zm.
Definition gen_yang_from_gmat (ploidy : Z) (m : nat) (X : list (list Z)) (p_anc : oarg) : res (list (list Q)) :=
  match gen_resolve_freq k_yang_freq_scalar_bad k_yang_freq_array_bad k_yang_freq_bcast ploidy m X p_anc with
  | RErr e => RErr e | RNonfinite => RNonfinite
  | ROk p => if Nat.eqb m 0 then RErr EOther
             else let d := gen_yang_den (Zq ploidy) p in
                  if existsb (fun x => Qeq_bool x 0) d then RNonfinite
                  else ROk (qred_mat (gen_yang_mat m d (gen_center k_yang_mean k_yang_center (Zq ploidy) p X)))
  end.
Lemma gen_yang_den_is_model c p : gen_yang_den c p = yang_den c p.         Proof. reflexivity. Qed.
Lemma gen_yang_mat_is_model m d Zm : gen_yang_mat m d Zm = yang_mat m d Zm. Proof. reflexivity. Qed.
Lemma gen_yang_is_model pl m X a : gen_yang_from_gmat pl m X a = yang_from_gmat pl m X a.
Proof.
  unfold gen_yang_from_gmat, yang_from_gmat.
  rewrite (gen_resolve_freq_is_model k_yang_freq_scalar_bad k_yang_freq_array_bad k_yang_freq_bcast pl m X a k_yang_freq_scalar_bad_model k_yang_freq_array_bad_model (fun z => eq_refl)).
  reflexivity.
Qed.

(** Yang's per-marker scaling is written with a square root in the source ([Z_scale = 1/sqrt(ploidy p (1-p))], applied to
    both factors of every product); over the reals this is exactly the division by [ploidy p (1-p)] of the rational model. *)
Lemma yang_sqrt_closed_form (ploidy p zi zj : R) : (0 < ploidy * p * (1 - p))%R ->
  (k_yang_scaled_R zi (k_yang_zscale_R ploidy p) * k_yang_scaled_R zj (k_yang_zscale_R ploidy p) = zi * zj / (ploidy * p * (1 - p)))%R.
Proof.
  intro Hv. unfold k_yang_scaled_R, k_yang_zscale_R.
  set (v := (ploidy * p * (1 - p))%R) in *.
  assert (Hs : (0 < sqrt v)%R) by (apply sqrt_lt_R0; exact Hv).
  assert (Hss : (sqrt v * sqrt v = v)%R) by (apply sqrt_sqrt; apply Rlt_le; exact Hv).
  rewrite <- Hss at 3. field. apply Rgt_not_eq. exact Hs.
Qed.
Lemma yang_sqrt_is_rational_model (ploidy p zi zj : Q) : 0 < k_yang_var ploidy p ->
  (k_yang_scaled_R (Q2R zi) (k_yang_zscale_R (Q2R ploidy) (Q2R p)) * k_yang_scaled_R (Q2R zj) (k_yang_zscale_R (Q2R ploidy) (Q2R p)))%R
  = Q2R (zi * zj / k_yang_var ploidy p).
Proof.
  intro Hv.
  assert (E : Q2R (k_yang_var ploidy p) = (Q2R ploidy * Q2R p * (1 - Q2R p))%R).
  { unfold k_yang_var. rewrite !Q2R_mult, Q2R_minus. f_equal. f_equal. unfold Q2R; simpl; field. }
  rewrite yang_sqrt_closed_form.
  - unfold Qdiv. rewrite !Q2R_mult, Q2R_inv by (intro H0; rewrite H0 in Hv; discriminate). rewrite E. reflexivity.
  - rewrite <- E. replace 0%R with (Q2R 0) by (unfold Q2R; simpl; field). apply Qlt_Rlt. exact Hv.
Qed.

(** * generalised weighted: the source centres with [ploidy * p] (the model: [p * ploidy]); equal after [Qred] *)
Definition gen_gw_entry (w zi zj : list Q) : Q := dotQr (map2 k_gw_weighted zi w) zj.
Definition gen_gw_mat (w : list Q) (Zm : list (list Q)) : list (list Q) :=
  map (fun zi => map (fun zj => gen_gw_entry w zi zj) Zm) Zm.
Definition gen_gw_from_gmat (ploidy : Z) (m : nat) (X : list (list Z)) (mkrwt afreq : oarg) : res (list (list Q)) :=
  match gen_resolve_wt m mkrwt with
  | RErr e => RErr e | RNonfinite => RNonfinite
  | ROk w =>
    match gen_resolve_freq k_gw_freq_scalar_bad k_gw_freq_array_bad k_gw_freq_bcast ploidy m X afreq with
    | RErr e => RErr e | RNonfinite => RNonfinite
    | ROk p => ROk (qred_mat (gen_gw_mat w (gen_center k_gw_mean k_gw_center (Zq ploidy) p X)))
    end
  end.
Lemma gen_gw_mat_is_model w Zm : gen_gw_mat w Zm = gw_mat w Zm.   Proof. reflexivity. Qed.

Lemma sumQr_ext l l' : Forall2 Qeq l l' -> sumQr l = sumQr l'.
Proof.
  induction 1 as [|x y l l' Hxy _ IH]; [reflexivity|].
  change (Qred (x + sumQr l) = Qred (y + sumQr l')). rewrite IH. apply Qred_complete. rewrite Hxy. reflexivity.
Qed.
Lemma map2_Qmult_ext a a' b b' : Forall2 Qeq a a' -> Forall2 Qeq b b' -> Forall2 Qeq (map2 Qmult a b) (map2 Qmult a' b').
Proof.
  intro Ha. revert b b'. induction Ha as [|x y a a' Hxy _ IH]; intros b b' Hb; simpl; [constructor|].
  destruct Hb as [|u v b b' Huv Hb]; constructor; [rewrite Hxy, Huv; reflexivity | apply IH; exact Hb].
Qed.
Lemma Forall2_Qeq_refl l : Forall2 Qeq l l.
Proof. induction l; constructor; [reflexivity | assumption]. Qed.
Lemma gw_entry_ext w zi zi' zj zj' : Forall2 Qeq zi zi' -> Forall2 Qeq zj zj' -> gw_entry w zi zj = gw_entry w zi' zj'.
Proof.
  intros Hi Hj. unfold gw_entry, dotQr. apply sumQr_ext. apply map2_Qmult_ext; [|exact Hj].
  apply map2_Qmult_ext; [exact Hi | apply Forall2_Qeq_refl].
Qed.
Lemma gram_ext {A} (Rr : A -> A -> Prop) (f : A -> A -> Q) :
  (forall a a' b b', Rr a a' -> Rr b b' -> f a b = f a' b') ->
  forall L L', Forall2 Rr L L' -> map (fun a => map (f a) L) L = map (fun a => map (f a) L') L'.
Proof.
  intros Hf L L' HL.
  assert (G : forall M M', Forall2 Rr M M' -> map (fun a => map (f a) L) M = map (fun a => map (f a) L') M').
  { induction 1 as [|a a' M M' Haa _ IH]; simpl; [reflexivity|]. rewrite IH. f_equal.
    clear - Hf HL Haa. induction HL as [|b b' L L' Hbb _ IHL]; simpl; [reflexivity|]. rewrite IHL. f_equal. apply Hf; assumption. }
  apply G. exact HL.
Qed.
Lemma gen_center_gw_close c p X : Forall2 (Forall2 Qeq) (gen_center k_gw_mean k_gw_center c p X) (center c p X).
Proof.
  unfold gen_center, center, center_row. induction X as [|row X IH]; simpl; constructor; [|exact IH].
  clear. revert p. induction row as [|x row IH]; intros [|pk p]; simpl; try constructor; [|apply IH].
  unfold k_gw_center, k_gw_mean. ring.
Qed.
Lemma gen_gw_is_model pl m X w a : gen_gw_from_gmat pl m X w a = gw_from_gmat pl m X w a.
Proof.
  unfold gen_gw_from_gmat, gw_from_gmat. rewrite gen_resolve_wt_is_model.
  rewrite (gen_resolve_freq_is_model k_gw_freq_scalar_bad k_gw_freq_array_bad k_gw_freq_bcast pl m X a k_gw_freq_scalar_bad_model k_gw_freq_array_bad_model (fun z => eq_refl)).
  destruct (resolve_wt m w) as [wv| |e]; try reflexivity. destruct (resolve_freq pl m X a) as [p| |e]; try reflexivity.
  f_equal. f_equal. rewrite gen_gw_mat_is_model. unfold gw_mat.
  apply (gram_ext (Forall2 Qeq) (gw_entry wv)); [intros; apply gw_entry_ext; assumption | apply gen_center_gw_close].
Qed.

(** * the four estimators as generated, and the whole-estimator correspondence *)
Definition gen_from_gmat (c : call) (pl : Z) (m : nat) (X : list (list Z)) : res (list (list Q)) :=
  match c with
  | CMol => gen_mol_from_gmat pl m X
  | CVr p => gen_vr_from_gmat pl m X p
  | CYang p => gen_yang_from_gmat pl m X p
  | CGw w p => gen_gw_from_gmat pl m X w p
  end.
Theorem gen_from_gmat_is_model c pl m X : gen_from_gmat c pl m X = from_gmat c pl m X.
Proof. destruct c; simpl; [apply gen_mol_is_model | apply gen_vr_is_model | apply gen_yang_is_model | apply gen_gw_is_model]. Qed.

(** * views and summaries *)
Definition k_view (f : fmt) : Q -> Q := match f with Coancestry => k_coan_view | Kinship => k_kin_view end.
Lemma k_view_model f x : k_view f x = half f x.                             Proof. destruct f; reflexivity. Qed.
Lemma gen_mat_asformat_is_model f G : map (map (k_view f)) G = mat_asformat f G.   Proof. destruct f; reflexivity. Qed.
Lemma k_coancestry_acc_model G i j : k_coancestry_acc (entry G i j) = coancestry G i j.   Proof. reflexivity. Qed.
Lemma k_kinship_acc_model G i j : k_kinship_acc (entry G i j) = kinship G i j.             Proof. reflexivity. Qed.
Lemma k_maxinb_model f G : max_inbreeding f G = match f with Coancestry => maxl (diag G) | Kinship => k_maxinb_kin (maxl (diag G)) end.
Proof. destruct f; reflexivity. Qed.
Lemma k_mininb_model f H : min_inbreeding_of f H =
  match f with Coancestry => k_mininb (sumQr (concat H)) | Kinship => k_mininb_kin (k_mininb (sumQr (concat H))) end.
Proof. destruct f; reflexivity. Qed.
Lemma k_inverse_arg_model G : map (map k_inverse_kin_arg) G = mat_asformat Kinship G /\ map (map k_inverse_coan_arg) G = mat_asformat Coancestry G.
Proof. split; reflexivity. Qed.
(** [out *= 0.5] multiplies on the right: equal as rationals to the model's [1/2 * x] *)
Lemma k_max_kin_model x : k_max_kin x == half Kinship x.   Proof. unfold k_max_kin, half. ring. Qed.
Lemma k_min_kin_model x : k_min_kin x == half Kinship x.   Proof. unfold k_min_kin, half. ring. Qed.
Lemma k_mean_kin_model x : k_mean_kin x == half Kinship x. Proof. unfold k_mean_kin, half. ring. Qed.
Lemma k_reductions_model : k_reductions =
  [("max_inbreeding", "diagonal.max"); ("max", "max"); ("min", "min"); ("mean", "mean")]%string.
Proof. reflexivity. Qed.

(** the kinship view, the accessors and every kinship-format summary are exactly half the coancestry ones *)
Lemma kernel_kinship_half x :
  k_kin_view x == (1 # 2) * k_coan_view x /\ k_kinship_acc x == (1 # 2) * k_coancestry_acc x /\ k_coan_view x = x /\ k_coancestry_acc x = x /\
  k_maxinb_kin x == (1 # 2) * x /\ k_mininb_kin x == (1 # 2) * x /\ k_max_kin x == (1 # 2) * x /\ k_min_kin x == (1 # 2) * x /\
  k_mean_kin x == (1 # 2) * x /\ k_inverse_kin_arg x == (1 # 2) * x /\ k_inverse_coan_arg x = x.
Proof.
  unfold k_kin_view, k_coan_view, k_kinship_acc, k_coancestry_acc, k_maxinb_kin, k_mininb_kin, k_max_kin, k_min_kin, k_mean_kin,
    k_inverse_kin_arg, k_inverse_coan_arg.
  repeat split; try reflexivity; ring.
Qed.

(** the kinship-format inverse inverts exactly the matrix the source hands to numpy.linalg.inv *)
Lemma kernel_inverse_kinship G Hk : inverse_of Kinship G = Some Hk -> mat_eq (mmul (map (map k_inverse_kin_arg) G) Hk) (ident (length G)).
Proof. intro E. exact (inverse_kinship_sound G Hk E). Qed.

(** eigenvalue threshold: [if eigvaltol < 0.0: eigvaltol = 0.0], then [ev >= eigvaltol] *)
Definition k_psd_threshold (tol : Q) : Q := if k_psd_clip_test tol then k_psd_clip_val else tol.
Lemma k_psd_threshold_model tol : k_psd_threshold tol == Qmax' 0 tol.
Proof.
  unfold k_psd_threshold, k_psd_clip_test, k_psd_clip_val, Qmax'. destruct (Qle_bool 0 tol); simpl; reflexivity.
Qed.
Lemma k_psd_threshold_model' tol : k_psd_threshold tol == (if Qle_bool tol 0 then 0 else tol).
Proof.
  unfold k_psd_threshold, k_psd_clip_test, k_psd_clip_val.
  destruct (Qle_bool 0 tol) eqn:A, (Qle_bool tol 0) eqn:B; simpl; try reflexivity.
  - apply Qle_bool_iff in A, B. apply Qle_antisym; assumption.
  - exfalso. destruct (Qlt_le_dec tol 0) as [L|L].
    + apply Qlt_le_weak in L. apply Qle_bool_iff in L. congruence.
    + apply Qle_bool_iff in L. congruence.
Qed.
Lemma k_psd_ok_spec ev tol : k_psd_ok ev tol = true <-> tol <= ev.
Proof. unfold k_psd_ok. apply Qle_bool_iff. Qed.

(** * wiring tables *)
Local Open Scope string_scope.
Definition label_row_ok (row : list (string * string)) : bool :=
  match row with
  | (k1, m) :: rest =>
    String.eqb k1 "mat" && (String.eqb m "G" || String.eqb m "mat") &&
    list_eqb String.eqb (map fst rest) ["taxa"; "taxa_grp"; "taxa_grp_name"; "taxa_grp_stix"; "taxa_grp_spix"; "taxa_grp_len"] &&
    forallb (fun kv => String.eqb (snd kv) ("gmat." ++ fst kv) || String.eqb (snd kv) ("copy gmat." ++ fst kv)) rest
  | _ => false
  end.
Lemma k_labels_ok : map fst k_labels = ["mol"; "vr"; "yang"; "gw"] /\ forallb (fun e => label_row_ok (snd e)) k_labels = true.
Proof. split; reflexivity. Qed.

Definition factory_class (tag : string) : string :=
  if String.eqb tag "mol" then "DenseMolecularCoancestryMatrix.from_gmat"
  else if String.eqb tag "vr" then "DenseVanRadenCoancestryMatrix.from_gmat"
  else if String.eqb tag "yang" then "DenseYangCoancestryMatrix.from_gmat"
  else "DenseGeneralizedWeightedCoancestryMatrix.from_gmat".
Definition factory_params (tag : string) : list string :=
  if String.eqb tag "mol" then ["gmat"] else if String.eqb tag "gw" then ["gmat"; "mkrwt"; "afreq"] else ["gmat"; "p_anc"].
(** every factory calls its own class and hands every parameter to the keyword of the same name *)
Definition factory_row_ok (e : string * list (string * string)) : bool :=
  match snd e with
  | (c, callee) :: kws =>
    String.eqb c "callee" && String.eqb callee (factory_class (fst e)) &&
    forallb (fun kv => String.eqb (fst kv) (snd kv)) kws &&
    list_eqb String.eqb (map fst kws) (factory_params (fst e))
  | [] => false
  end.
Lemma k_factories_ok : map fst k_factories = ["mol"; "vr"; "yang"; "gw"] /\ forallb factory_row_ok k_factories = true.
Proof. split; reflexivity. Qed.

(** * the property theorems restated about the generated estimators and kernels *)
Local Close Scope string_scope.
Local Open Scope Q_scope.

Lemma kernel_molecular_is_twice_ibs (pl : Z) (m : nat) (A : list (list (list Z))) G i j :
  (pl = 1 \/ pl = 2)%Z -> (0 < m)%nat -> alleles_ok (Z.to_nat pl) m A -> (i < length A)%nat -> (j < length A)%nat ->
  gen_mol_from_gmat pl m (map dosage A) = ROk G ->
  entry G i j == twice_mean_ibs (nth i A []) (nth j A []).
Proof. rewrite gen_mol_is_model. apply mol_is_twice_ibs. Qed.

Lemma kernel_molecular_phased_is_twice_ibs (n m : nat) (ph : list (list (list Z))) G i j :
  (length ph = 1 \/ length ph = 2)%nat -> (0 < m)%nat -> phases_ok n m ph -> (i < n)%nat -> (j < n)%nat ->
  gen_mol_from_gmat (Z.of_nat (length ph)) m (tacount_ph n m ph) = ROk G ->
  entry G i j == twice_mean_ibs (nth i (alleles_of n m ph) []) (nth j (alleles_of n m ph) []).
Proof. rewrite gen_mol_is_model. apply mol_phased_is_twice_ibs. Qed.

Lemma kernel_square_symmetric_psd c pl m X G : rows_len m X -> admissible c pl X -> gen_from_gmat c pl m X = ROk G ->
  (length G = length X /\ rows_len (length X) G) /\ (forall i j, entry G i j == entry G j i) /\ (forall x, 0 <= qform x G).
Proof.
  rewrite gen_from_gmat_is_model. intros HX Ha E. split; [exact (from_gmat_square c pl m X G E)|].
  pose proof (from_gmat_is_gram c pl m X G HX Ha E) as Hg.
  split; [intros i j; exact (is_gram_sym G i j Hg) | intro x; exact (is_gram_psd G x Hg)].
Qed.

Lemma kernel_perm_subset_equivariant c pl m X ix G : fixed_ref c -> Forall (fun i => (i < length X)%nat) ix ->
  gen_from_gmat c pl m X = ROk G -> gen_from_gmat c pl m (select [] ix X) = ROk (select2 ix G).
Proof. rewrite !gen_from_gmat_is_model. apply from_gmat_select. Qed.

Lemma kernel_estimated_singular c pl m X G : estimated c -> rows_len m X -> (pl <> 0)%Z -> X <> [] ->
  gen_from_gmat c pl m X = ROk G -> length G = length X /\ qform (repeat 1 (length G)) G == 0.
Proof. rewrite gen_from_gmat_is_model. apply estimated_freq_singular. Qed.

Lemma kernel_views G f i j :
  mat_asformat f G = map (map (k_view f)) G /\
  entry (map (map k_kin_view) G) i j == (1 # 2) * entry (map (map k_coan_view) G) i j /\
  entry (map (map k_coan_view) G) i j == entry G i j /\
  k_kinship_acc (entry G i j) == (1 # 2) * k_coancestry_acc (entry G i j).
Proof.
  split; [symmetry; apply gen_mat_asformat_is_model|].
  pose proof (kinship_half G i j) as [A [B C]].
  change (map (map k_kin_view) G) with (mat_asformat Kinship G). change (map (map k_coan_view) G) with (mat_asformat Coancestry G).
  split; [exact A|]. split; [exact B|]. exact C.
Qed.

Lemma kernel_argument_boundaries q :
  k_vr_freq_scalar_bad q = negb (in01 q) /\ k_vr_freq_array_bad q = negb (in01 q) /\
  k_yang_freq_scalar_bad q = negb (in01 q) /\ k_yang_freq_array_bad q = negb (in01 q) /\
  k_gw_freq_scalar_bad q = negb (in01 q) /\ k_gw_freq_array_bad q = negb (in01 q) /\
  k_gw_wt_scalar_bad q = negb (Qle_bool 0 q) /\
  (forall z, k_vr_freq_bcast z = z /\ k_yang_freq_bcast z = z /\ k_gw_freq_bcast z = z /\ k_gw_wt_bcast z = z).
Proof.
  repeat split; first [apply freq_bad_is_not_in01 | apply k_gw_wt_scalar_bad_model].
Qed.

Lemma kernel_min_inbreeding c pl m X G H : rows_len m X -> admissible c pl X ->
  gen_from_gmat c pl m X = ROk G -> inv_checked G = Some H -> 0 < sumQ (concat H) ->
  min_inbreeding Coancestry G = Some (k_mininb (sumQr (concat H))) /\
  min_inbreeding Kinship G = Some (k_mininb_kin (k_mininb (sumQr (concat H)))) /\
  (forall x, length x = length G -> sumQ x == 1 -> k_mininb (sumQr (concat H)) <= qform x G) /\
  (exists x, length x = length G /\ sumQ x == 1 /\ qform x G == k_mininb (sumQr (concat H))) /\
  k_mininb_kin (k_mininb (sumQr (concat H))) == (1 # 2) * k_mininb (sumQr (concat H)).
Proof.
  rewrite gen_from_gmat_is_model. intros HX Ha E EH Hs.
  exact (min_inbreeding_of_estimator c pl m X G H HX Ha E EH Hs).
Qed.

Lemma kernel_psd_threshold n margin tol G ev : squareN n G -> symE G ->
  k_psd_threshold tol == Qmax' 0 tol /\ (k_psd_ok ev (k_psd_threshold tol) = true <-> Qmax' 0 tol <= ev) /\
  (psd_decided margin tol G = Some true -> forall x, length x = n -> (k_psd_threshold tol + margin) * dotQ x x <= qform x G) /\
  (psd_decided margin tol G = Some false -> exists i, (i < n)%nat /\ entry G i i < k_psd_threshold tol - margin).
Proof.
  intros SQ SY. pose proof (k_psd_threshold_model tol) as T.
  split; [exact T|]. split; [rewrite k_psd_ok_spec, T; reflexivity|].
  split.
  - intros D x Hx. rewrite T. exact (psd_decided_true n margin tol G SQ SY D x Hx).
  - intros D. destruct (psd_decided_false n margin tol G SQ D) as [i [Hi L]]. exists i. split; [exact Hi|]. rewrite T. exact L.
Qed.

Lemma kernel_wiring :
  (map fst k_labels = ["mol"; "vr"; "yang"; "gw"]%string /\ forallb (fun e => label_row_ok (snd e)) k_labels = true) /\
  (map fst k_factories = ["mol"; "vr"; "yang"; "gw"]%string /\ forallb factory_row_ok k_factories = true) /\
  k_reductions = [("max_inbreeding", "diagonal.max"); ("max", "max"); ("min", "min"); ("mean", "mean")]%string.
Proof. split; [exact k_labels_ok|]. split; [exact k_factories_ok | exact k_reductions_model]. Qed.

(** * label arrays: copied or shared?  (read off the generated wiring table)
    Every from_gmat hands *copies* of the source's six label arrays (taxa, taxa_grp and the four group-metadata arrays) to the new
    object: `gmat.X.copy() if gmat.X is not None else None`, reported by the translator as `copy gmat.X`.  Formerly VanRaden and Yang
    handed the arrays themselves, so matrix and source shared them (finding C13-vr-yang-share-label-arrays, repaired in the
    library); [old_k_labels] is the table the translator produced from that former source, kept as a regression witness. *)
Local Open Scope string_scope.
Definition row_copies (row : list (string * string)) : bool :=
  match row with
  | _ :: rest =>
    list_eqb String.eqb (map fst rest) ["taxa"; "taxa_grp"; "taxa_grp_name"; "taxa_grp_stix"; "taxa_grp_spix"; "taxa_grp_len"] &&
    forallb (fun kv => String.eqb (snd kv) ("copy gmat." ++ fst kv)) rest
  | _ => false
  end.
Lemma labels_copied : map fst k_labels = ["mol"; "vr"; "yang"; "gw"] /\ forallb (fun e => row_copies (snd e)) k_labels = true.
Proof. split; reflexivity. Qed.

(** the FORMER source (before the repair), as the same translator reads it: not used by anything else *)
Definition old_shared_row (m : string) : list (string * string) :=
  [("mat", m); ("taxa", "gmat.taxa"); ("taxa_grp", "gmat.taxa_grp"); ("taxa_grp_name", "gmat.taxa_grp_name");
   ("taxa_grp_stix", "gmat.taxa_grp_stix"); ("taxa_grp_spix", "gmat.taxa_grp_spix"); ("taxa_grp_len", "gmat.taxa_grp_len")].
Definition old_copied_row (m : string) : list (string * string) :=
  [("mat", m); ("taxa", "copy gmat.taxa"); ("taxa_grp", "copy gmat.taxa_grp"); ("taxa_grp_name", "copy gmat.taxa_grp_name");
   ("taxa_grp_stix", "copy gmat.taxa_grp_stix"); ("taxa_grp_spix", "copy gmat.taxa_grp_spix"); ("taxa_grp_len", "copy gmat.taxa_grp_len")].
Definition old_k_labels : list (string * list (string * string)) :=
  [("mol", old_copied_row "mat"); ("vr", old_shared_row "G"); ("yang", old_shared_row "G"); ("gw", old_copied_row "G")].
Lemma old_labels_copied_refuted :
  forallb (fun e => label_row_ok (snd e)) old_k_labels = true /\ map fst (filter (fun e => negb (row_copies (snd e))) old_k_labels) = ["vr"; "yang"].
Proof. split; reflexivity. Qed.
(** the repaired table differs from the former one exactly in those two rows *)
Lemma labels_repair_delta :
  map (fun p => fst (fst p)) (filter (fun p => negb (list_eqb (fun a b => String.eqb (fst a) (fst b) && String.eqb (snd a) (snd b)) (snd (fst p)) (snd (snd p))))
                  (combine k_labels old_k_labels)) = ["vr"; "yang"].
Proof. reflexivity. Qed.
Local Close Scope string_scope.
