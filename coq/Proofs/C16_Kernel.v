(** C16 — the kernel expressions regenerated from the source (Gen/C16_Kernel.v) are the ones the hand model uses.
    The code written in terms of the generated definitions (Model/C16_Kernel.v) equals the hand model of Model/C16_Store.v /
    Model/C16_Codec.v; every step is closed by [reflexivity] (conversion), so a changed expression of the source — `or` for
    `and` in a delete condition, `key + groupname`, the overwrite flag passed on to the recursive call, `x / 100.0` for
    `0.01 * x`, exchanged index arrays in the long table — makes this file, hence Props/C16.vo, stop compiling.
    The round-trip theorems are then restated about the generated definitions themselves. *)
From Coq Require Import String PrimFloat Lia.
From PV Require Import Lib.Common Lib.FloatK Lib.C16_Spec Model.C16_Store Model.C16_Codec Gen.C16_Fields Gen.C16_Kernel Model.C16_Kernel
                       Proofs.C16_Store Proofs.C16_Nested Proofs.C16_Tables Proofs.C16_Codec.
Local Open Scope Z_scope.

(** ** h5py_File_write_dict *)
Lemma k_wd_fieldname_model g k : k_wd_fieldname g k = g ++ k.                         Proof. reflexivity. Qed.
Lemma k_wd_del_none_model ow m : k_wd_del_none ow m = (clears_none VCur && ow && m)%bool.  Proof. reflexivity. Qed.
Lemma k_wd_del_data_model ow m : k_wd_del_data ow m = (m && ow)%bool.                 Proof. reflexivity. Qed.
Lemma k_wd_del_dict_model ow m : k_wd_del_dict ow m = (clears_dict VCur && ow && m)%bool.  Proof. reflexivity. Qed.
Lemma k_wd_nested_group_model fld : k_wd_nested_group fld = fld ++ [47].              Proof. reflexivity. Qed.
Lemma k_wd_nested_overwrite_model ow : k_wd_nested_overwrite ow = true.               Proof. reflexivity. Qed.

Lemma write_flat_k_model l : forall f g ow, write_flat_k f g l ow = write_flat VCur f g l ow.
Proof.
  induction l as [|[k v] t IH]; intros f g ow; [reflexivity|].
  destruct v as [[d|]|].
  - change (write_flat_k f g ((k, Some (Some d)) :: t) ow)
      with (let p := split_path (g ++ k) in let f1 := if (mem p f && ow)%bool then del p f else f in
            match create p d f1 with inl f2 => write_flat_k f2 g t ow | inr e => (f1, Some e) end).
    cbn [write_flat]. cbv zeta. destruct (create _ d _); [apply IH | reflexivity].
  - reflexivity.
  - change (write_flat_k f g ((k, None) :: t) ow)
      with (write_flat_k (if (clears_none VCur && ow && mem (split_path (g ++ k)) f)%bool then del (split_path (g ++ k)) f else f) g t ow).
    cbn [write_flat]. apply IH.
Qed.

Lemma write_dict_k_model l : forall f g ow, write_dict_k f g l ow = write_dict VCur f g l ow.
Proof.
  induction l as [|[k it] t IH]; intros f g ow; [reflexivity|].
  destruct it as [|d|sub|].
  - change (write_dict_k f g ((k, INone) :: t) ow)
      with (write_dict_k (if (clears_none VCur && ow && mem (split_path (g ++ k)) f)%bool then del (split_path (g ++ k)) f else f) g t ow).
    cbn [write_dict]. apply IH.
  - change (write_dict_k f g ((k, IData d) :: t) ow)
      with (let p := split_path (g ++ k) in let f1 := if (mem p f && ow)%bool then del p f else f in
            match create p d f1 with inl f2 => write_dict_k f2 g t ow | inr e => (f1, Some e) end).
    cbn [write_dict]. cbv zeta. destruct (create _ d _); [apply IH | reflexivity].
  - change (write_dict_k f g ((k, IDict sub) :: t) ow)
      with (let p := split_path (g ++ k) in let f0 := if (clears_dict VCur && ow && mem p f)%bool then del p f else f in
            match write_flat_k f0 ((g ++ k) ++ [47]) sub true with (f1, None) => write_dict_k f1 g t ow | (f1, Some e) => (f1, Some e) end).
    cbn [write_dict]. cbv zeta. rewrite write_flat_k_model. destruct (write_flat VCur _ _ sub true) as [f1 [e|]]; [reflexivity | apply IH].
  - reflexivity.
Qed.

(** ** group names *)
Lemma slash_end_k_model g : slash_end_k g = slash_end g.
Proof.
  unfold slash_end_k, slash_end, k_h5_needs_slash, k_h5_slash. destruct (last g 0 =? 47); reflexivity.
Qed.
Lemma norm_group_k_model g : norm_group_k g = norm_group g.
Proof. destruct g as [[|c s]|]; try reflexivity. unfold norm_group_k, norm_group. rewrite slash_end_k_model. reflexivity. Qed.
Lemma to_hdf5_k_model s f g o ow : to_hdf5_k s f g o ow = to_hdf5 VCur s f g o ow.
Proof. unfold to_hdf5_k, to_hdf5. rewrite norm_group_k_model. destruct (norm_group g); [apply write_dict_k_model | reflexivity]. Qed.
Lemma write_all_k_model s os : forall f g, write_all_k s f g os = write_all VCur s f g os.
Proof.
  induction os as [|o t IH]; intros f g; [reflexivity|]. cbn [write_all_k write_all]. rewrite to_hdf5_k_model.
  destruct (to_hdf5 VCur s f g o true) as [f1 [e|]]; [reflexivity | apply IH].
Qed.

(** ** h5py_File_read_dict *)
Lemma k_rd_decode_model a b : k_rd_decode a b = (a && b)%bool.     Proof. reflexivity. Qed.
Lemma raw_member_k_model d : raw_member_k d = raw_member true d.   Proof. destruct d; reflexivity. Qed.

(** ** genetic maps *)
Lemma gmap_to_cM_k_model ext x : gmap_to_cM_k ext x = PrimFloat.mul hundred x.     Proof. destruct ext; reflexivity. Qed.
Lemma gmap_from_cM_k_model ext x : gmap_from_cM_k ext x = PrimFloat.mul centi x.   Proof. destruct ext; reflexivity. Qed.
(** the genetic-position column of the exported frame holds the generated conversion of every position ... *)
Lemma gmap_to_pandas_k ext g :
  col_of (CS (zs "cM")) (gmap_to_pandas ext UcM g) = Some (map CF (map (gmap_to_cM_k ext) (g_gen g)))
  /\ col_of (CS (zs "cM")) (gmap_to_pandas ext UM g) = Some (map CF (g_gen g)).
Proof. destruct ext; split; reflexivity. Qed.
(** ... and what the constructor receives is the generated back-conversion of every cell of that column *)
Lemma gmap_from_pandas_k ext wn wf ag t r :
  gmap_from_pandas ext UcM wn wf ag t = Some r ->
  exists c fl g0, col_of (CS (zs "cM")) t = Some c /\ opt_all (map as_float c) = Some fl
                  /\ g_gen g0 = map (gmap_from_cM_k ext) fl /\ r = gmap_construct ag g0.
Proof.
  unfold gmap_from_pandas. destruct (col_of (CS (zs "chr")) t) as [c|]; [|discriminate]. destruct (col_of (CS (zs "pos")) t) as [p|]; [|discriminate].
  destruct (col_of (CS (zs "cM")) t) as [gc|]; [|discriminate].
  destruct (opt_all (map as_int c)) as [c'|]; [|discriminate]. destruct (opt_all (map as_int p)) as [p'|]; [|discriminate].
  destruct (opt_all (map as_float gc)) as [g'|] eqn:Eg; [|discriminate]. intros H. injection H as H. subst r. exists gc, g'.
  refine (ex_intro _ _ (conj eq_refl (conj Eg (conj _ eq_refl)))).
  cbn [g_gen]. apply map_ext. intros x. symmetry. apply gmap_from_cM_k_model.
Qed.

(** the centiMorgan round trip as the source computes it now: not the identity in binary64, the identity on the grid k/256 *)
Lemma kernel_cM_roundtrip_fails ext : exists x : float, PrimFloat.eqb (gmap_from_cM_k ext (gmap_to_cM_k ext x)) x = false.
Proof. exists 0x1.f1a9fbe76c8b4p-2%float. destruct ext; vm_compute; reflexivity. Qed.
Lemma kernel_cM_roundtrip_grid ext : forallb (fun k => feqb (gmap_from_cM_k ext (gmap_to_cM_k ext (grid256 k))) (grid256 k)) (seq 0 1025) = true.
Proof. destruct ext; exact cM_roundtrip_grid. Qed.
(** unit names: the four spellings fall into the two classes the harness (and the model's [units]) use; anything else is refused *)
Lemma units_of_k_model :
  units_of_k "M" = Some UM /\ units_of_k "Morgans" = Some UM /\ units_of_k "cM" = Some UcM /\ units_of_k "centiMorgans" = Some UcM
  /\ k_gmap_units_M = ["M"; "Morgans"]%string /\ k_gmap_units_cM = ["cM"; "centiMorgans"]%string.
Proof. repeat split; reflexivity. Qed.

(** ** variance matrices *)
Lemma zwidth_k_model n : zwidth_taxa_k n = Z.of_nat (zwidth n) /\ zwidth_trait_k n = Z.of_nat (zwidth n).
Proof. unfold zwidth_taxa_k, zwidth_trait_k, k_vm_taxazfill, k_vm_traitzfill, zwidth. split; lia. Qed.
Lemma synth_k_model pre n : synth_k pre (zwidth_taxa_k n) n = synth pre n /\ synth_k pre (zwidth_trait_k n) n = synth pre n.
Proof. destruct (zwidth_k_model n) as [A B]. unfold synth_k. rewrite A, B, Nat2Z.id. split; reflexivity. Qed.
Lemma vm_to_pandas_k_model grp_cols m : vm_to_pandas_k grp_cols m = vm_to_pandas grp_cols m.
Proof.
  unfold vm_to_pandas_k, vm_to_pandas.
  rewrite (proj1 (synth_k_model "Taxon" (length (vm_mat m)))), (proj2 (synth_k_model "Trait" (length (hd [] (hd [] (vm_mat m)))))).
  destruct grp_cols; reflexivity.
Qed.
Lemma k_vm_from_axes_model : k_vm_from_axes = ["female_col"; "male_col"; "trait_col"]%string.   Proof. reflexivity. Qed.
(** the reader's layout, entry by entry: position (i, j, k) of the matrix read back holds the variance of the LAST row of the
    frame whose (female, male, trait) cells are (taxa i, taxa j, trait k) — the axes in the order [k_vm_from_axes] names *)
Lemma vm_pandas_sorted_ok_k : opt_eqb vm_eqb (vm_from_pandas true (vm_to_pandas_k true w_vm_sorted)) (Some w_vm_sorted) = true.
Proof. rewrite vm_to_pandas_k_model. exact vm_pandas_sorted_ok. Qed.

(** ** the round-trip theorems about the generated definitions *)
Theorem kernel_roundtrip (s : cls_spec) : In s persistable ->
  forall (o : obj) (nt : Z) (f f' : file) (g : option str), parents_ok f ->
  wf_obj s o = true -> to_hdf5_k s f g o true = (f', None) -> from_hdf5 s nt f' g = construct s nt (proj_rd s o).
Proof.
  intros Hs o nt f f' g Hpar Hwf Hw. rewrite to_hdf5_k_model in Hw.
  eapply roundtrip_gen; [apply gen_spec_of; exact Hs | exact Hwf | exact Hpar | exact Hw].
Qed.
Theorem kernel_read_after_writes (s : cls_spec) : In s persistable ->
  forall (os : list obj) (o : obj) (f f' : file) (g : option str) (nt : Z), parents_ok f ->
  wf_obj s o = true -> write_all_k s f g (os ++ [o]) = (f', None) -> from_hdf5 s nt f' g = construct s nt (proj_rd s o).
Proof.
  intros Hs os o f f' g nt Hpar Hwf Hw. rewrite write_all_k_model in Hw.
  eapply read_after_writes_gen; [apply gen_spec_of; exact Hs | exact Hpar | exact Hwf | exact Hw].
Qed.
