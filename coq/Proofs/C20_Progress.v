(** C20 — proofs, part 7: progress.  With operators that return five dicts, do not raise and leave no parameter
    name in miscout, and a logbook that does not raise, evolve never fails — so the trace IS the full shape of
    [trace_shape] (its [ok = true] branch is the one that applies). *)
From PV Require Import Lib.Common Model.C20_Loop Proofs.C20_Loop Proofs.C20_Heap Proofs.C20_Indep.
Local Open Scope nat_scope.
Arguments hget : simpl never.

Definition op_total (op : operator) : Prop :=
  forall h s args t tm, 5 <= length args -> let r := op h s args t tm in
    r_ok r = true /\ length (r_roots r) = 5 /\ (forall o, In o (r_roots r) -> o <> None) /\ misc_collides true (r_misc r) = false.
Definition log_total (lg : logger) : Prop := forall h s args t tm rep misc, snd (lg h s args t tm rep misc) = true.
Definition ops_total (ops : opset) : Prop :=
  op_total (o_psel ops) /\ op_total (o_mate ops) /\ op_total (o_eval ops) /\ op_total (o_ssel ops) /\
  log_total (l_init ops) /\ log_total (l_psel ops) /\ log_total (l_mate ops) /\ log_total (l_eval ops) /\ log_total (l_ssel ops).

Lemma misc_collides_weaken b m : misc_collides true m = false -> misc_collides b m = false.
Proof.
  unfold misc_collides. induction m as [|kv m IH]; cbn; [auto|]. intros H. apply orb_false_iff in H. destruct H as [H1 H2].
  rewrite (IH H2), orb_false_r.
  destruct (Z.eqb (fst kv) 2), (Z.eqb (fst kv) 4), (Z.eqb (fst kv) 3), b; cbn in *; try discriminate; reflexivity.
Qed.

Lemma copy_kvs_ok : forall kvs h m, (forall k l, In (k, l) kvs -> exists xs, hget h l = Some (OLeaf xs)) ->
  exists r, copy_kvs h m kvs = Some r.
Proof.
  induction kvs as [|[k l] t IH]; intros h m Hl; cbn; [eauto|].
  destruct (memo_get l m) as [l'|].
  - destruct (IH h m) as ([h' t'] & ->); [intros; eapply Hl; right; eauto | eauto].
  - destruct (Hl k l (or_introl eq_refl)) as (xs & ->).
    destruct (IH (h ++ [OLeaf xs]) ((l, length h) :: m)) as ([h' t'] & ->); [|eauto].
    intros k' l' Hin. destruct (Hl k' l' (or_intror Hin)) as (ys & Hy). exists ys. now apply hget_mono.
Qed.
Lemma deepcopy_ok h d kvs : hget h d = Some (ODict kvs) -> (forall k l, In (k, l) kvs -> exists xs, hget h l = Some (OLeaf xs)) ->
  exists r, deepcopy h d = Some r.
Proof. intros Hg Hl. unfold deepcopy. rewrite Hg. destruct (copy_kvs_ok kvs h [] Hl) as ([h' kvs'] & ->). eauto. Qed.

Lemma assign_seq_all w r : length w = length r -> (forall o, In o r -> o <> None) ->
  snd (assign_seq w r) = true /\ exists ws, somes (fst (assign_seq w r)) = Some ws.
Proof.
  revert r; induction w as [|x w IH]; intros [|[l|] r] Hlen Hs; cbn in *; try discriminate.
  - split; [reflexivity | now exists []].
  - destruct (IH r) as (E & ws & Ews); [lia | intros; apply Hs; now right|].
    destruct (assign_seq w r) as [w' ok]. cbn in *. split; [exact E|]. rewrite Ews. eauto.
  - exfalso. exact (Hs None (or_introl eq_refl) eq_refl).
Qed.


(** programs without ABad / ARaise / colliding AMisc give total operators and logbooks *)
Definition safe_action (a : action) : bool :=
  match a with ABad _ | ARaise => false | AMisc k _ => negb (Z.eqb k 2 || Z.eqb k 4 || Z.eqb k 3) | _ => true end.
Definition env_good (e : env) : Prop :=
  v_ok e = true /\ length (v_slots e) = 6 /\ (forall c, c < 5 -> nth c (v_slots e) None <> None) /\ misc_collides true (v_misc e) = false.

Lemma set_nth_length {X} n (x : X) l : length (set_nth n x l) = length l.
Proof. revert n; induction l as [|y l IH]; intros [|n]; cbn; auto. Qed.
Lemma set_nth_some (l : list (option loc)) n y c : nth c l None <> None -> nth c (set_nth n (Some y) l) None <> None.
Proof. revert n c; induction l as [|z l IH]; intros [|n] [|c]; cbn; auto; congruence. Qed.
Lemma misc_ok_iff m : misc_collides true m = false <-> (forall kv, In kv m -> (Z.eqb (fst kv) 2 || Z.eqb (fst kv) 4 || Z.eqb (fst kv) 3) = false).
Proof.
  unfold misc_collides. induction m as [|kv m IH].
  - cbn. split; [intros _ ? [] | auto].
  - cbn [existsb In]. rewrite orb_false_iff, IH, andb_true_l. split.
    + intros [H1 H2] kv' [<-|Hin]; [|now apply H2]. destruct (Z.eqb (fst kv) 2), (Z.eqb (fst kv) 4), (Z.eqb (fst kv) 3); cbn in *; try discriminate; reflexivity.
    + intros H. split; [|intros; apply H; now right]. specialize (H kv (or_introl eq_refl)).
      destruct (Z.eqb (fst kv) 2), (Z.eqb (fst kv) 4), (Z.eqb (fst kv) 3); cbn in *; try discriminate; reflexivity.
Qed.
Lemma kv_set_safe k (v : Z) m : (Z.eqb k 2 || Z.eqb k 4 || Z.eqb k 3) = false -> misc_collides true m = false ->
  misc_collides true (kv_set k v m) = false.
Proof.
  intros Hk Hm. rewrite misc_ok_iff in *. intros [k' v'] Hin. apply kv_set_in in Hin. destruct Hin as [[= -> ->]|Hin]; [exact Hk | now apply Hm].
Qed.

Lemma act_good t b a e : safe_action a = true -> env_good e -> env_good (act t b a e).
Proof.
  intros Hs (Ok & Len & Sl & Mi). unfold act. rewrite Ok. cbn [negb].
  assert (Hslot : forall h c y, env_good (with_slot (with_heap e h) c (Some y))).
  { intros h c y. unfold env_good; cbn. rewrite set_nth_length. repeat split; auto. intros c' Hc. apply set_nth_some. now apply Sl. }
  assert (Hheap : forall h, env_good (with_heap e h)) by (intros h; unfold env_good; cbn; auto).
  assert (Hsame : env_good e) by (unfold env_good; auto).
  assert (Hslot' : forall c y, env_good (with_slot e c (Some y))).
  { intros c y. unfold env_good; cbn. rewrite set_nth_length. repeat split; auto. intros c' Hc. apply set_nth_some. now apply Sl. }
  destruct a as [c k v|c k|c k x|c k|c k|c k c2 k2|c|c|c c2|c r|c r|k v|c|]; cbn in Hs; try discriminate;
    unfold set_leaf, app_leaf;
    repeat match goal with
           | |- context [match ?x with _ => _ end] => destruct x
           end; auto.
  - unfold env_good; cbn. auto.
  - unfold env_good; cbn. repeat split; auto. apply kv_set_safe; [|exact Mi]. now apply negb_true_iff in Hs.
Qed.
Lemma run_prog_good t b prog e : forallb safe_action prog = true -> env_good e -> env_good (run_prog t b prog e).
Proof.
  unfold run_prog. revert e; induction prog as [|a p IH]; intros e Hs He; cbn in *; [exact He|].
  apply andb_true_iff in Hs. destruct Hs as [Ha Hp]. apply IH; [exact Hp|]. now apply act_good.
Qed.

Lemma init_env_good h args last s : 5 <= length args ->
  env_good (mkEnv h (map Some (firstn 5 args) ++ [last]) s [] true).
Proof.
  intros Hl. destruct args as [|a0 [|a1 [|a2 [|a3 [|a4 args]]]]]; cbn in Hl; try lia.
  unfold env_good; cbn. repeat split; auto. intros [|[|[|[|[|c]]]]] Hc; cbn; try congruence; lia.
Qed.

Lemma interp_op_total kind prog : forallb safe_action prog = true -> op_total (interp_op kind prog).
Proof.
  intros Hs h s args t tm Hl. unfold interp_op.
  set (e0 := match kind with KPsel => _ | KMate => _ | KPlain => _ end).
  assert (He0 : env_good e0) by (destruct kind; unfold e0; now apply init_env_good).
  destruct (run_prog_good t true prog e0 Hs He0) as (Ok & Len & Sl & Mi). cbn zeta. cbn [r_ok r_roots r_misc].
  destruct (v_slots (run_prog t true prog e0)) as [|b0 [|b1 [|b2 [|b3 [|b4 [|b5 [|]]]]]]]; cbn in Len; try lia.
  split; [exact Ok|]. split; [reflexivity|]. split; [|exact Mi].
  intros o Hin. cbn in Hin.
  destruct Hin as [<-|[<-|[<-|[<-|[<-|[]]]]]];
    [exact (Sl 0 ltac:(lia)) | exact (Sl 1 ltac:(lia)) | exact (Sl 2 ltac:(lia)) | exact (Sl 3 ltac:(lia)) | exact (Sl 4 ltac:(lia))].
Qed.
Lemma interp_log_total prog : forallb safe_action prog = true -> log_total (interp_log prog).
Proof.
  intros Hs h s args t tm rep misc. unfold interp_log. cbn.
  set (e0 := mkEnv h (map Some (firstn 5 args) ++ [nth_error args 5]) s [] true).
  assert (Hok : forall p e, v_ok e = true -> forallb safe_action p = true -> v_ok (run_prog t false p e) = true).
  { unfold run_prog. induction p as [|a p IH]; intros e He Hp; cbn in *; [exact He|].
    apply andb_true_iff in Hp. destruct Hp as [Ha Hp]. apply IH; [|exact Hp].
    unfold act. rewrite He. cbn [negb].
    destruct a; cbn in Ha; try discriminate; unfold set_leaf, app_leaf;
      repeat match goal with |- context [match ?x with _ => _ end] => destruct x end; cbn; auto. }
  now apply Hok.
Qed.
Definition safe_progs (g : progs) : bool :=
  forallb safe_action (g_psel g) && forallb safe_action (g_mate g) && forallb safe_action (g_eval g) && forallb safe_action (g_ssel g) &&
  forallb safe_action (gl_init g) && forallb safe_action (gl_psel g) && forallb safe_action (gl_mate g) &&
  forallb safe_action (gl_eval g) && forallb safe_action (gl_ssel g).
Theorem interp_total g : safe_progs g = true -> ops_total (interp g).
Proof.
  unfold safe_progs. intros H. repeat (apply andb_true_iff in H; destruct H as [H ?]).
  unfold ops_total, interp; cbn [o_psel o_mate o_eval o_ssel l_init l_psel l_mate l_eval l_ssel].
  repeat split; first [now apply interp_op_total | now apply interp_log_total].
Qed.

Section Progress.
Variable h0 : heap.
Variable start : list (option loc).
Hypothesis Hwf : start_wf h0 start.
Hypothesis Hlen5 : length start = 5.
Hypothesis Hinit : forallb (fun o : option loc => match o with Some _ => true | None => false end) start = true.

Lemma reset_slots_ok : forall sl work h,
  (forall l, SR h0 start l -> hget h l = hget h0 l) -> length h0 <= length h ->
  (forall o, In o sl -> In o start) ->
  exists h' w', reset_slots h sl work = (h', w', true).
Proof.
  induction sl as [|[d|] sl IH]; intros work h Hag Hl Hsub.
  - destruct work; cbn; eauto.
  - destruct work as [|w wt]; cbn; [eauto|].
    assert (Hin : In (Some d) start) by (apply Hsub; now left).
    destruct (Hwf _ Hin) as (kvs & Hg & Hleaf).
    assert (Hgd : hget h d = Some (ODict kvs)) by (rewrite Hag; [exact Hg | now left]).
    destruct (deepcopy_ok h d kvs Hgd) as ([h1 d1] & Ed).
    { intros k l Hk. destruct (Hleaf _ _ Hk) as (xs & Hx). exists xs. rewrite Hag; [exact Hx | right; eauto 6]. }
    rewrite Ed. destruct (deepcopy_facts _ _ _ _ Ed) as ((ext & ->) & _).
    destruct (IH wt (h ++ ext)) as (h' & w' & ->); [| rewrite app_length; lia | intros; apply Hsub; now right | eauto].
    intros l Hs. rewrite hget_app_old; [now apply Hag | apply (SR_below h0 start Hwf) in Hs; lia].
  - exfalso. assert (Hin : In None start) by (apply Hsub; now left).
    rewrite forallb_forall in Hinit. specialize (Hinit _ Hin). discriminate.
Qed.

Definition gm (st : pstate) : Prop := misc_collides true (p_misc st) = false.
Definition gw (st : pstate) : Prop := gm st /\ exists ws, somes (p_work st) = Some ws.

Definition okspec (f : step) (mv : bool) (lo : Z) (P Q : pstate -> Prop) : Prop :=
  forall st, inv h0 start mv lo st -> P st -> match f st with (st', _, ok) => ok = true /\ Q st' end.

Lemma okspec_andthen f g mv lo mv1 lo1 P Q R :
  ispec h0 start f mv lo mv1 lo1 -> okspec f mv lo P Q -> okspec g mv1 lo1 Q R -> okspec (andthen f g) mv lo P R.
Proof.
  intros Hi Hf Hg st I0 P0. unfold andthen. specialize (Hi st I0). specialize (Hf st I0 P0).
  destruct (f st) as [[st1 ev1] ok1]. destruct Hf as [-> Q1]. destruct Hi as (I1 & _). specialize (I1 eq_refl).
  specialize (Hg st1 I1 Q1). destruct (g st1) as [[st2 ev2] ok2]. exact Hg.
Qed.
Lemma okspec_ret mv lo P : okspec ret_ok mv lo P P.
Proof. intros st _ H; cbn; auto. Qed.
Lemma okspec_iter f mv lo P n : ispec h0 start f mv lo mv lo -> okspec f mv lo P P -> okspec (iter n f) mv lo P P.
Proof. intros Hi Hf. induction n as [|n IH]; cbn [iter]; [apply okspec_ret | eapply okspec_andthen; eauto]. Qed.
Lemma okspec_pre f mv lo mv0 lo0 P Q : okspec f mv lo P Q -> (forall st, inv h0 start mv0 lo0 st -> inv h0 start mv lo st) -> okspec f mv0 lo0 P Q.
Proof. intros H Hw st I0 P0. exact (H st (Hw st I0) P0). Qed.

Lemma okspec_tick mv lo : okspec tick mv lo gw gw.
Proof. intros st _ H; cbn. split; [reflexivity | exact H]. Qed.
Lemma okspec_bump mv lo : okspec bump_rep mv lo gm gm.
Proof. intros st _ H; cbn. split; [reflexivity | exact H]. Qed.

Lemma okspec_reset mv lo : okspec reset mv lo gm gw.
Proof.
  intros st Hi Hm. pose proof Hi as (S & W & T & L & H & _). unfold reset.
  destruct (reset_slots_ok (p_start st) (p_work st) (p_heap st) H L) as (h' & w' & Er); [rewrite S; auto|].
  rewrite Er. split; [reflexivity|]. split; [exact Hm|]. cbn.
  rewrite S in Er. destruct (reset_slots_spec h0 start Hwf Hlen5 start (p_work st) (p_heap st) h' w' true H L (fun d Hd => Hd) Er)
    as (_ & _ & Hlw & _ & Hok).
  destruct (Hok eq_refl ltac:(lia)) as (ds' & Hf & _). rewrite firstn_all_eq in Hf by lia.
  exists ds'. rewrite Hf. apply somes_map_Some.
Qed.

Lemma call_op_ok tag op pm tm_ st : op_total op -> length (p_work st) = 5 -> gw st ->
  match call_op tag op pm tm_ st with (st', _, ok) => ok = true /\ gw st' end.
Proof.
  intros Hop W (Hm & ws & Es). unfold call_op. rewrite Es.
  set (r := op _ _ _ _ _).
  assert (Hla : 5 <= length (if pm then ws ++ [p_mcfg st] else ws)).
  { pose proof (somes_length _ _ Es). destruct pm; rewrite ?app_length; lia. }
  destruct (Hop (p_heap st) (p_stash st) (if pm then ws ++ [p_mcfg st] else ws) (p_t st) (p_tmax st) Hla) as (R1 & R2 & R3 & R4).
  fold r in R1, R2, R3, R4. rewrite R1. unfold assign. rewrite R2. cbn [Nat.eqb].
  destruct (assign_seq_all (p_work st) (r_roots r)) as (E & ws' & Ews); [lia | exact R3|].
  destruct (assign_seq (p_work st) (r_roots r)) as [w' ok]. cbn in *. split; [exact E|]. split; [exact R4 | eauto].
Qed.
Lemma okspec_call_op tag op pm tm_ mv lo : op_total op -> okspec (call_op tag op pm tm_) mv lo gw gw.
Proof. intros Hop st Hi Hg. apply call_op_ok; auto. destruct Hi as (_ & W & _). lia. Qed.

Lemma okspec_reset_eval op mv lo : op_total op -> okspec (andthen reset (call_op T_EVAL op false false)) mv lo gm gw.
Proof.
  intros Hop st Hi Hm. pose proof (okspec_reset mv lo st Hi Hm) as H1. unfold andthen.
  assert (Hlw : length (p_work (fst (fst (reset st)))) = 5).
  { pose proof Hi as Hi0. destruct Hi as (S & W & _). unfold reset. destruct (reset_slots (p_heap st) (p_start st) (p_work st)) as [[h' w'] ok] eqn:Er.
    cbn. rewrite S in Er. destruct Hi0 as (_ & _ & _ & L & H & _).
    destruct (reset_slots_spec h0 start Hwf Hlen5 start (p_work st) (p_heap st) h' w' ok H L (fun d Hd => Hd) Er) as (_ & _ & Hlw & _). lia. }
  destruct (reset st) as [[st1 ev1] ok1]. destruct H1 as [-> G1]. cbn in Hlw.
  pose proof (call_op_ok T_EVAL op false false st1 Hop Hlw G1) as H2.
  destruct (call_op T_EVAL op false false st1) as [[st2 ev2] ok2]. exact H2.
Qed.

Lemma okspec_call_log tag lg pm mv lo : log_total lg -> okspec (call_log tag lg pm) mv lo gw gw.
Proof.
  intros Hlg st Hi (Hm & ws & Es). unfold call_log. rewrite Es. rewrite (misc_collides_weaken pm _ Hm).
  specialize (Hlg (p_heap st) (p_stash st) (if pm then ws ++ [p_mcfg st] else ws) (p_t st) (p_tmax st) (p_rep st) (p_misc st)).
  destruct (lg _ _ _ _ _ _ _) as [[h' s'] ok]. cbn in Hlg. subst ok. split; [reflexivity|]. split; [exact Hm | cbn; eauto].
Qed.

Section Loop.
Variable ops : opset.
Hypothesis Hops : ops_wb ops.
Hypothesis Htot : ops_total ops.

Lemma okspec_generation : okspec (generation ops) false 1%Z gw gw.
Proof.
  destruct Hops as (P1 & P2 & P3 & P4 & G0 & G1 & G2 & G3 & G4).
  destruct Htot as (T1 & T2 & T3 & T4 & U0 & U1 & U2 & U3 & U4). unfold generation.
  eapply okspec_andthen; [exact (ispec_call_op h0 start Hwf Hlen5 T_PSEL _ true false true false 1%Z P1 ltac:(discriminate) ltac:(reflexivity) ltac:(intros; lia)) | now apply okspec_call_op|]. cbn [orb].
  eapply okspec_andthen; [exact (ispec_call_log h0 start Hwf Hlen5 L_PSEL _ true true 1%Z G1 ltac:(reflexivity) ltac:(discriminate)) | now apply okspec_call_log|].
  eapply okspec_andthen; [exact (ispec_call_op h0 start Hwf Hlen5 T_MATE _ false true false true 1%Z P2 ltac:(reflexivity) ltac:(discriminate) ltac:(intros; lia)) | now apply okspec_call_op|]. cbn [orb].
  eapply okspec_andthen; [exact (ispec_call_log h0 start Hwf Hlen5 L_MATE _ true true 1%Z G2 ltac:(reflexivity) ltac:(discriminate)) | now apply okspec_call_log|].
  eapply okspec_andthen; [exact (ispec_call_op h0 start Hwf Hlen5 T_EVAL _ false false false true 1%Z P3 ltac:(discriminate) ltac:(discriminate) ltac:(intros; lia)) | now apply okspec_call_op|]. cbn [orb].
  eapply okspec_andthen; [exact (ispec_call_log h0 start Hwf Hlen5 L_EVAL _ false true 1%Z G3 ltac:(discriminate) ltac:(discriminate)) | now apply okspec_call_log|].
  eapply okspec_andthen; [exact (ispec_call_op h0 start Hwf Hlen5 T_SSEL _ false false false true 1%Z P4 ltac:(discriminate) ltac:(discriminate) ltac:(intros; lia)) | now apply okspec_call_op|]. cbn [orb].
  eapply okspec_andthen; [exact (ispec_call_log h0 start Hwf Hlen5 L_SSEL _ false true 1%Z G4 ltac:(discriminate) ltac:(discriminate)) | now apply okspec_call_log|].
  apply okspec_tick.
Qed.

Lemma okspec_replicate ngen li lo : okspec (replicate ops ngen li) false lo gm gw.
Proof.
  destruct Hops as (P1 & P2 & P3 & P4 & G0 & G1 & G2 & G3 & G4).
  destruct Htot as (T1 & T2 & T3 & T4 & U0 & U1 & U2 & U3 & U4). unfold replicate, advance.
  eapply okspec_andthen; [apply ispec_bump | apply okspec_bump|].
  intros st Hi Hg. rewrite andthen_assoc. revert st Hi Hg.
  eapply okspec_andthen; [apply (ispec_reset_eval h0 start Hwf Hlen5 _ false lo P3) | now apply okspec_reset_eval|].
  eapply okspec_andthen.
  { instantiate (1 := 0%Z). instantiate (1 := false).
    destruct li; [exact (ispec_call_log h0 start Hwf Hlen5 L_INIT _ false false 0%Z G0 ltac:(discriminate) ltac:(discriminate)) | apply ispec_ret]. }
  { instantiate (1 := gw). destruct li; [now apply okspec_call_log | apply okspec_ret]. }
  eapply okspec_andthen; [apply (ispec_tick h0 start Hlen5) | apply okspec_tick|].
  apply okspec_iter; [now apply ispec_generation | apply okspec_generation].
Qed.

Lemma gw_gm st : gw st -> gm st.
Proof. now intros [H _]. Qed.

Lemma okspec_evolve_calls strict initres calls lo : (lo <= 1)%Z ->
  okspec (evolve_calls ops strict initres calls) false lo gm gm.
Proof.
  intros Hlo. induction calls as [|[[nrep ngen] li] t IH]; cbn [evolve_calls]; [apply okspec_ret|].
  assert (Hrep : ispec h0 start (replicate ops ngen li) false lo false lo).
  { eapply ispec_post; [now apply ispec_replicate|]. intros st Hi. eapply inv_lo; eauto. }
  assert (Hrok : okspec (replicate ops ngen li) false lo gm gm).
  { intros st Hi Hg. pose proof (okspec_replicate ngen li lo st Hi Hg) as H. destruct (replicate ops ngen li st) as [[st' e] ok].
    destruct H as [-> G]. split; [reflexivity | now apply gw_gm]. }
  assert (Hinitstep : forall st, inv h0 start false lo st -> is_initialized st = true).
  { intros st Hi. unfold is_initialized. destruct Hi as (-> & _). exact Hinit. }
  eapply okspec_andthen; [| |exact IH].
  - unfold evolve. eapply ispec_andthen; [|now apply ispec_iter].
    intros st Hi. rewrite (Hinitstep st Hi). exact (ispec_ret h0 start false lo st Hi).
  - unfold evolve. eapply okspec_andthen; [| |apply okspec_iter; [exact Hrep | exact Hrok]].
    + intros st Hi. rewrite (Hinitstep st Hi). exact (ispec_ret h0 start false lo st Hi).
    + intros st Hi Hg. rewrite (Hinitstep st Hi). cbn. auto.
Qed.

Theorem evolve_full_trace strict initres nrep ngen li lo st : (lo <= 1)%Z ->
  inv h0 start false lo st -> misc_collides true (p_misc st) = false ->
  match evolve ops strict initres nrep ngen li st with
  | (st', evs, ok) => ok = true /\ map sig evs = evolve_sig true nrep ngen li (p_tmax st) (p_rep st)
  end.
Proof.
  intros Hlo Hi Hm. pose proof (okspec_evolve_calls strict initres [(nrep, ngen, li)] lo Hlo st Hi Hm) as H.
  cbn [evolve_calls] in H. unfold andthen at 1 in H.
  pose proof (trace_shape ops strict initres nrep ngen li st) as HT.
  assert (Ei : is_initialized st = true) by (unfold is_initialized; destruct Hi as (-> & _); exact Hinit).
  rewrite Ei in HT.
  destruct (evolve ops strict initres nrep ngen li st) as [[st' evs] ok]. destruct ok.
  - split; [reflexivity|]. exact (proj1 (proj1 HT eq_refl)).
  - destruct H as [H _]. discriminate.
Qed.

Theorem evolve_calls_succeed strict initres calls lo st : (lo <= 1)%Z ->
  inv h0 start false lo st -> misc_collides true (p_misc st) = false ->
  snd (evolve_calls ops strict initres calls st) = true.
Proof.
  intros Hlo Hi Hm. pose proof (okspec_evolve_calls strict initres calls lo Hlo st Hi Hm) as H.
  destruct (evolve_calls ops strict initres calls st) as [[st' evs] ok]. exact (proj1 H).
Qed.
End Loop.
End Progress.
