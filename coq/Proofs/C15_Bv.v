(** C15 — lemmas about Model/C15_Bv.v *)
From PV Require Import Lib.Common Model.C15_Bv.
Local Open Scope Q_scope.
